(* Extraction of the executable model for the correspondence driver.
   Directives used: exactly those of ExtrOcamlBasic (bool, option, unit, list,
   prod, sumbool, sumor extracted to the OCaml types of the same shape;
   andb/orb inlined).  Z, positive, N, nat, ascii, string stay extracted
   inductives: no Extract Constant of our own. *)
From Coq Require Import Extraction ExtrOcamlBasic List String.
From Model Require Import Tree Offset Instr.
Import ListNotations.
Definition all_ops : op_table := Offset.ops ++ Instr.ops.
Extraction Language OCaml.
Extraction "../ocaml/model.ml" all_ops.
