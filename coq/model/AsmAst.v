(* AsmAst.v — the assembly AST of src/ast/asm.rs and src/ast.rs: Label, PCOffset, AsmInstr,
   Directive, StmtKind, Stmt; plus the wire encoding shared with harness/src/astwire.rs. *)
From Coq Require Import ZArith List Bool String.
From Model Require Import Tree Text Instr.
Import ListNotations.
Open Scope Z_scope.

(* `Label { name, start }`: name as code points, start as byte offset into the source *)
Record label := mkLabel { l_name : str; l_start : Z }.
Definition label_span (l : label) : Z * Z := (l_start l, l_start l + byte_len (l_name l)).

Inductive pcoff := POff (v : Z) | PLab (l : label).

Inductive asm_instr :=
| AADD (dr sr1 : Z) (o : imm_or_reg)
| AAND (dr sr1 : Z) (o : imm_or_reg)
| ABR (cc : Z) (o : pcoff)
| AJMP (br : Z)
| AJSR (o : pcoff)
| AJSRR (br : Z)
| ALD (dr : Z) (o : pcoff)
| ALDI (dr : Z) (o : pcoff)
| ALDR (dr br off : Z)
| ALEA (dr : Z) (o : pcoff)
| ANOT (dr sr : Z)
| ARET
| ARTI
| AST (sr : Z) (o : pcoff)
| ASTI (sr : Z) (o : pcoff)
| ASTR (sr br off : Z)
| ATRAP (vect : Z)
| ANOP (o : pcoff)
| AGETC | AOUT | APUTC | APUTS | AIN | APUTSP | AHALT.

Inductive directive :=
| DOrig (addr : Z)
| DFill (o : pcoff)          (* Offset<u16,16> or label *)
| DBlkw (n : Z)
| DStringz (s : str)
| DEnd
| DExternal (l : label).

Inductive nucleus := NInstr (i : asm_instr) | NDir (d : directive).

Record stmt := mkStmt { s_labels : list label; s_nucleus : nucleus; s_start : Z; s_end : Z }.

(* ---------- wire ---------- *)
Definition t_label (l : label) : tree := L [t_zs (l_name l); I (l_start l)].
Definition as_label (t : tree) : option label :=
  match t with
  | L [n; I s] => match as_zs n with Some n' => Some (mkLabel n' s) | None => None end
  | _ => None
  end.
Definition t_pcoff (o : pcoff) : tree :=
  match o with POff v => L [I 0; I v] | PLab l => L [I 1; t_label l] end.
Definition as_pcoff (t : tree) : option pcoff :=
  match t with
  | L [I 0; I v] => Some (POff v)
  | L [I 1; l] => option_map PLab (as_label l)
  | _ => None
  end.

Definition t_ainstr (i : asm_instr) : tree :=
  match i with
  | AADD a b o => L [I 0; I a; I b; t_ior o]
  | AAND a b o => L [I 1; I a; I b; t_ior o]
  | ABR cc o => L [I 2; I cc; t_pcoff o]
  | AJMP r => L [I 3; I r]
  | AJSR o => L [I 4; t_pcoff o]
  | AJSRR r => L [I 5; I r]
  | ALD r o => L [I 6; I r; t_pcoff o]
  | ALDI r o => L [I 7; I r; t_pcoff o]
  | ALDR a b c => L [I 8; I a; I b; I c]
  | ALEA r o => L [I 9; I r; t_pcoff o]
  | ANOT a b => L [I 10; I a; I b]
  | ARET => L [I 11]
  | ARTI => L [I 12]
  | AST r o => L [I 13; I r; t_pcoff o]
  | ASTI r o => L [I 14; I r; t_pcoff o]
  | ASTR a b c => L [I 15; I a; I b; I c]
  | ATRAP v => L [I 16; I v]
  | ANOP o => L [I 17; t_pcoff o]
  | AGETC => L [I 18] | AOUT => L [I 19] | APUTC => L [I 20] | APUTS => L [I 21]
  | AIN => L [I 22] | APUTSP => L [I 23] | AHALT => L [I 24]
  end.
Definition as_ainstr (t : tree) : option asm_instr :=
  match t with
  | L [I 0; I a; I b; o] => option_map (AADD a b) (as_ior o)
  | L [I 1; I a; I b; o] => option_map (AAND a b) (as_ior o)
  | L [I 2; I cc; o] => option_map (ABR cc) (as_pcoff o)
  | L [I 3; I r] => Some (AJMP r)
  | L [I 4; o] => option_map AJSR (as_pcoff o)
  | L [I 5; I r] => Some (AJSRR r)
  | L [I 6; I r; o] => option_map (ALD r) (as_pcoff o)
  | L [I 7; I r; o] => option_map (ALDI r) (as_pcoff o)
  | L [I 8; I a; I b; I c] => Some (ALDR a b c)
  | L [I 9; I r; o] => option_map (ALEA r) (as_pcoff o)
  | L [I 10; I a; I b] => Some (ANOT a b)
  | L [I 11] => Some ARET
  | L [I 12] => Some ARTI
  | L [I 13; I r; o] => option_map (AST r) (as_pcoff o)
  | L [I 14; I r; o] => option_map (ASTI r) (as_pcoff o)
  | L [I 15; I a; I b; I c] => Some (ASTR a b c)
  | L [I 16; I v] => Some (ATRAP v)
  | L [I 17; o] => option_map ANOP (as_pcoff o)
  | L [I 18] => Some AGETC | L [I 19] => Some AOUT | L [I 20] => Some APUTC | L [I 21] => Some APUTS
  | L [I 22] => Some AIN | L [I 23] => Some APUTSP | L [I 24] => Some AHALT
  | _ => None
  end.

Definition t_directive (d : directive) : tree :=
  match d with
  | DOrig a => L [I 0; I a]
  | DFill o => L [I 1; t_pcoff o]
  | DBlkw n => L [I 2; I n]
  | DStringz s => L [I 3; t_zs s]
  | DEnd => L [I 4]
  | DExternal l => L [I 5; t_label l]
  end.
Definition as_directive (t : tree) : option directive :=
  match t with
  | L [I 0; I a] => Some (DOrig a)
  | L [I 1; o] => option_map DFill (as_pcoff o)
  | L [I 2; I n] => Some (DBlkw n)
  | L [I 3; s] => option_map DStringz (as_zs s)
  | L [I 4] => Some DEnd
  | L [I 5; l] => option_map DExternal (as_label l)
  | _ => None
  end.

Definition t_nucleus (n : nucleus) : tree :=
  match n with NInstr i => L [I 0; t_ainstr i] | NDir d => L [I 1; t_directive d] end.
Definition as_nucleus (t : tree) : option nucleus :=
  match t with
  | L [I 0; i] => option_map NInstr (as_ainstr i)
  | L [I 1; d] => option_map NDir (as_directive d)
  | _ => None
  end.

Definition t_stmt (s : stmt) : tree :=
  L [t_list t_label (s_labels s); t_nucleus (s_nucleus s); I (s_start s); I (s_end s)].
Definition as_stmt (t : tree) : option stmt :=
  match t with
  | L [ls; n; I a; I b] =>
      match as_list as_label ls, as_nucleus n with
      | Some ls', Some n' => Some (mkStmt ls' n' a b)
      | _, _ => None
      end
  | _ => None
  end.
Definition t_stmts (l : list stmt) : tree := t_list t_stmt l.
Definition as_stmts (t : tree) : option (list stmt) := as_list as_stmt t.
