(* Assembler.v — model of the two-pass assembler of src/asm.rs.

   pass 1  `SymbolTable::new`   : [p1_step] / [p1_loop] / [pass1]  (Cursor::shift = [shift],
                                   add_label = [add_label], relocation and line recording,
                                   LineSymbolMap::new = [lsm_new], from_blocks = [lsm_from_blocks])
   pass 2  `ObjectFile::new`    : [p2_step] / [p2_loop] / [pass2]  (ObjBlock, write_directive,
                                   neighbour overlap check, replace_pc_offset,
                                   AsmInstr::into_sim_instr = [into_sim_instr],
                                   Directive::word_len = [word_len])
   assemble / assemble_debug    : [assemble]
   queries                      : [lookup_label] [rev_lookup_label] [get_label_source]
                                  [lookup_line] [rev_lookup_line] [label_iter] [line_iter]
                                  ([lsm_get] [lsm_find] [lsm_iter])

   Conventions.  Every number is a Z; u16 arithmetic is written out (`checked_add` is a
   comparison with 65536, `wrapping_*` is [wrap16]).  The harness builds /repo with overflow
   checks and debug assertions on, so an overflowing `+`, an out-of-range index, `unwrap` on
   None, `unreachable!` and a failing `debug_assert!` are all [APanic].
   HashMaps (label_map, rel_map) are association lists in insertion order (their iteration
   order is never observable through the wire: it is sorted there); BTreeMaps are lists
   sorted by key.  The first error returned wins, exactly in the order the Rust code looks.
   `str::to_uppercase` is [Text.upper] (ASCII only — trusted base, generators keep labels ASCII);
   `SymbolData::span` adds two usize source offsets: not modelled as a panic site (offsets are
   far below 2^63).
   The model follows the REPAIRED code of the helper's repo copy:
     fix #10  get_label_source upper-cases its key       (LABEL_SOURCE_UPPER)
     fix #11  no line-map entry for .external             (LINE_SKIPS_EXTERNAL)
   and the two repairs of the `link` helper that touch the passes:
     fix #8a  every `.fill LABEL` inside a block is remembered ([p1_rel] is `label_fills`); the
              relocation table is that list filtered by the FINAL external flag   (REL_FILTERED)
     fix #8b  without debug symbols the symbol table is kept iff some label is external (KEEP_SYM) *)
From Coq Require Import ZArith List Bool String.
From Gen Require Import Constants.
From Model Require Import Tree Text Bits Instr Offset AsmAst Obj SourceInfo.
Import ListNotations.
Open Scope Z_scope.

Definition span := (Z * Z)%type.

Inductive err_kind :=
| UndetAddrLabel | UndetAddrStmt | UnclosedOrig | UnopenedOrig | OverlappingOrig | OverlappingLabels
| WrappingBlock | BlockInIO | OverlappingBlocks | OffsetNewErr (e : offset_err) | OffsetExternal
| CouldNotFindLabel.

Inductive ares (A : Type) := AOk (a : A) | AErr (k : err_kind) (sp : list span) | APanic.
Arguments AOk {A}. Arguments AErr {A}. Arguments APanic {A}.

Definition abind {A B} (r : ares A) (f : A -> ares B) : ares B :=
  match r with AOk a => f a | AErr k sp => AErr k sp | APanic => APanic end.

Definition len {A} (l : list A) : Z := Z.of_nat (List.length l).
Definition snoc {A} (l : list A) (x : A) : list A := l ++ [x].

(* ---------- HashMap<String, _> as an association list ---------- *)
Fixpoint assoc {A} (k : str) (l : list (str * A)) : option A :=
  match l with
  | [] => None
  | (k', v) :: r => if str_eqb k k' then Some v else assoc k r
  end.

(* HashMap<u16, String>::insert *)
Fixpoint rel_insert (a : Z) (v : str) (l : list (Z * str)) : list (Z * str) :=
  match l with
  | [] => [(a, v)]
  | (a', v') :: r => if a =? a' then (a, v) :: r else (a', v') :: rel_insert a v r
  end.

(* ---------- BTreeMap<Z, V> as a list sorted by key ---------- *)
Fixpoint bt_insert {V} (k : Z) (v : V) (m : list (Z * V)) : list (Z * V) :=
  match m with
  | [] => [(k, v)]
  | (k', v') :: r => if k <? k' then (k, v) :: m
                     else if k =? k' then (k, v) :: r
                     else (k', v') :: bt_insert k v r
  end.
(* range(..=k).next_back(): the entry with the greatest key <= k *)
Fixpoint bt_le {V} (k : Z) (m : list (Z * V)) : option (Z * V) :=
  match m with
  | [] => None
  | (k', v') :: r => if k' <=? k then match bt_le k r with Some x => Some x | None => Some (k', v') end
                     else None
  end.
(* range(k..).next(): the entry with the least key >= k *)
Fixpoint bt_ge {V} (k : Z) (m : list (Z * V)) : option (Z * V) :=
  match m with
  | [] => None
  | (k', v') :: r => if k <=? k' then Some (k', v') else bt_ge k r
  end.

(* ================================ pass 1 ================================ *)

Record cursor := mkCur { c_lc : Z; c_ovf : bool; c_orig : span }.

Inductive sres := SOk (c : cursor) | SErr (k : err_kind).

(* Cursor::shift.  In the `(false, None)` arm the Rust code also zeroes lc and sets
   `overflowed`; the caller returns the error at once, so that state is never seen again. *)
Definition shift (c : cursor) (n : Z) : sres :=
  if n =? 0 then SOk c
  else if c_ovf c then SErr WrappingBlock
  else
    let s := c_lc c + n in
    if s <? 65536 then                                   (* checked_add = Some(new_lc) *)
      if s >? asm.IO_START then SErr BlockInIO else SOk (mkCur s false (c_orig c))
    else                                                 (* checked_add = None *)
      if c_lc c =? wrap16 (- n) then SErr BlockInIO else SErr WrappingBlock.

(* Directive::word_len; `s.len() as u16 + 1` overflows (a panic here) when the byte length
   is 65535 modulo 65536 *)
Inductive wl_res := WL (n : Z) | WLPanic.
Definition word_len (d : directive) : wl_res :=
  match d with
  | DOrig _ => WL 0
  | DFill _ => WL 1
  | DBlkw n => WL n
  | DStringz s => let l := wrap16 (byte_len s) in if l + 1 <? 65536 then WL (l + 1) else WLPanic
  | DEnd => WL 0
  | DExternal _ => WL 0
  end.
Definition stmt_len (n : nucleus) : wl_res :=
  match n with NInstr _ => WL 1 | NDir d => word_len d end.

Definition labmap := list (str * symdata).

(* add_label: the key is the upper-cased name; an existing entry with another address is a
   conflict whose first span is rebuilt from the stored start and the KEY's length *)
Definition add_label (labels : labmap) (l : label) (addr : Z) (ext : bool) : ares labmap :=
  let key := upper (l_name l) in
  match assoc key labels with
  | Some d =>
      if sd_addr d =? addr then AOk labels
      else AErr OverlappingLabels [(sd_src_start d, sd_src_start d + byte_len key); label_span l]
  | None => AOk (labels ++ [(key, mkSym addr (l_start l) ext)])
  end.
Fixpoint add_labels (labels : labmap) (ls : list label) (addr : Z) : ares labmap :=
  match ls with
  | [] => AOk labels
  | l :: r => abind (add_label labels l addr false) (fun labels' => add_labels labels' r addr)
  end.

Fixpoint set_nth {A} (l : list A) (n : nat) (x : A) : list A :=
  match l, n with
  | [], _ => []
  | _ :: r, O => x :: r
  | a :: r, S k => a :: set_nth r k x
  end.

Record p1 := mkP1 {
  p1_cur : option cursor;
  p1_labels : labmap;
  p1_rel : list (Z * str);                   (* label_fills: Vec<(u16, String)>, in push order *)
  p1_lines : option (list (option Z))        (* Some iff a source text was given *)
}.

(* LINE_SKIPS_EXTERNAL (fix #11): the statements that get no line-map entry although they are
   inside a block *)
Definition no_line_entry (n : nucleus) : bool :=
  match n with
  | NDir (DOrig _) | NDir DEnd | NDir (DExternal _) => true
  | _ => false
  end.

Definition stmt_span (s : stmt) : span := (s_start s, s_end s).

Definition p1_step (src : option str) (st : p1) (s : stmt) : ares p1 :=
  let sp := stmt_span s in
  (* 1. labels of the statement *)
  abind (match s_labels s with
         | [] => AOk (p1_labels st)
         | _ => match p1_cur st with
                | None => AErr UndetAddrLabel (map label_span (s_labels s))
                | Some cur => add_labels (p1_labels st) (s_labels s) (c_lc cur)
                end
         end) (fun labels1 =>
  (* 2. special directives *)
  abind (match s_nucleus s with
         | NDir (DOrig a) =>
             match p1_cur st with
             | Some cur => AErr OverlappingOrig [c_orig cur; sp]
             | None => AOk (Some (mkCur a false sp), labels1, p1_rel st)
             end
         | NDir DEnd =>
             match p1_cur st with
             | Some _ => AOk (None, labels1, p1_rel st)
             | None => AErr UnopenedOrig [sp]
             end
         | NDir (DExternal l) =>
             abind (add_label labels1 l 0 true) (fun labels2 => AOk (p1_cur st, labels2, p1_rel st))
         | NDir (DFill (PLab l)) =>
             let key := upper (l_name l) in
             match p1_cur st with
             | Some cur => AOk (p1_cur st, labels1, snoc (p1_rel st) (c_lc cur, key))
             | None =>
                 match assoc key labels1 with
                 | Some d => if sd_external d then AErr UndetAddrStmt [sp] else AOk (p1_cur st, labels1, p1_rel st)
                 | None => AOk (p1_cur st, labels1, p1_rel st)
                 end
             end
         | _ => AOk (p1_cur st, labels1, p1_rel st)
         end) (fun '(cur2, labels2, rel2) =>
  (* 3. inside a block: line entry, then move the location counter *)
  match cur2 with
  | None => AOk (mkP1 None labels2 rel2 (p1_lines st))
  | Some cur =>
      abind (match p1_lines st, src with
             | Some lines, Some text =>
                 if no_line_entry (s_nucleus s) then AOk (Some lines)
                 else
                   let idx := get_line text (s_start s) in
                   if (0 <=? idx) && (idx <? len lines)
                   then AOk (Some (set_nth lines (Z.to_nat idx) (Some (c_lc cur))))
                   else APanic                            (* lines[line_index] out of bounds *)
             | other, _ => AOk other
             end) (fun lines2 =>
      match stmt_len (s_nucleus s) with
      | WLPanic => APanic
      | WL n =>
          match shift cur n with
          | SOk cur' => AOk (mkP1 (Some cur') labels2 rel2 lines2)
          | SErr k => AErr k [sp]
          end
      end)
  end)).

Fixpoint p1_loop (src : option str) (st : p1) (p : list stmt) : ares p1 :=
  match p with
  | [] => AOk st
  | s :: r => abind (p1_step src st s) (fun st' => p1_loop src st' r)
  end.

(* ---------- LineSymbolMap ---------- *)

(* LineSymbolMap::new, the loop: a run that is still open when the lines end is dropped *)
Fixpoint lsm_runs (lines : list (option Z)) (i : Z) (current : option (list Z)) (acc : linemap) : linemap :=
  match lines with
  | [] => acc
  | Some a :: r => lsm_runs r (i + 1) (Some (match current with Some c => snoc c a | None => [a] end)) acc
  | None :: r =>
      match current with
      | Some bl => lsm_runs r (i + 1) None (bt_insert (i - len bl) bl acc)
      | None => lsm_runs r (i + 1) None acc
      end
  end.

Fixpoint windows_all {A} (f : A -> A -> bool) (l : list A) : bool :=
  match l with
  | a :: ((b :: _) as r) => f a b && windows_all f r
  | _ => true
  end.

(* sort_by_key (stable) followed by collection into a BTreeMap (a later equal key replaces) *)
Definition lsm_sort (bl : linemap) : linemap :=
  fold_left (fun acc kv => bt_insert (fst kv) (snd kv) acc) bl [].

Fixpoint stable_insert (x : Z * list Z) (l : linemap) : linemap :=
  match l with
  | [] => [x]
  | y :: r => if fst x <? fst y then x :: l else y :: stable_insert x r
  end.
Definition stable_sort (bl : linemap) : linemap := fold_left (fun acc x => stable_insert x acc) bl [].

Definition lsm_from_blocks (blocks : linemap) : option linemap :=
  let bl := stable_sort blocks in
  if windows_all (fun l r => fst l + len (snd l) <=? fst r) bl then
    if forallb (fun b => windows_all Z.leb (snd b)) bl then Some (lsm_sort bl) else None
  else None.

Definition lsm_new (lines : list (option Z)) : option linemap :=
  lsm_from_blocks (lsm_runs lines 0 None []).

(* REL_FILTERED: `label_fills.into_iter().filter(label is external in the final map).collect()`
   into a HashMap (a later entry for the same address replaces) *)
Definition is_external (labels : labmap) (k : str) : bool :=
  match assoc k labels with Some d => sd_external d | None => false end.
Definition rel_of (labels : labmap) (fills : list (Z * str)) : list (Z * str) :=
  fold_left (fun acc av => rel_insert (fst av) (snd av) acc)
            (filter (fun av => is_external labels (snd av)) fills) [].

Definition pass1 (p : list stmt) (src : option str) : ares symtab :=
  let lines0 := match src with
                | Some text => Some (repeat (@None Z) (Z.to_nat (count_lines text)))
                | None => None
                end in
  abind (p1_loop src (mkP1 None [] [] lines0) p) (fun st =>
  match p1_cur st with
  | Some cur => AErr UnclosedOrig [c_orig cur]
  | None =>
      match p1_lines st, src with
      | Some lines, Some text =>
          match lsm_new lines with
          | Some m => AOk (mkSymtab (p1_labels st) (rel_of (p1_labels st) (p1_rel st)) (Some (mkDebug m text)))
          | None => APanic                                (* unreachable!("line symbol map's invariants ...") *)
          end
      | _, _ => AOk (mkSymtab (p1_labels st) (rel_of (p1_labels st) (p1_rel st)) None)
      end
  end).

(* ================================ pass 2 ================================ *)

(* replace_pc_offset::<N> *)
Definition replace_pc_offset (n : Z) (o : pcoff) (pc : Z) (labels : labmap) : ares Z :=
  match o with
  | POff v => AOk v
  | PLab l =>
      match assoc (upper (l_name l)) labels with
      | Some d =>
          if sd_external d then AErr OffsetExternal [label_span l]
          else match new_s n (to_i16 (sd_addr d - pc)) with
               | Ok v => AOk v
               | Err e => AErr (OffsetNewErr e) [label_span l]
               | Panic => APanic
               end
      | None => AErr CouldNotFindLabel [label_span l]
      end
  end.

(* AsmInstr::into_sim_instr *)
Definition into_sim_instr (i : asm_instr) (pc : Z) (labels : labmap) : ares sim_instr :=
  let rel n o k := abind (replace_pc_offset n o pc labels) (fun v => AOk (k v)) in
  match i with
  | AADD dr sr1 o => AOk (SADD dr sr1 o)
  | AAND dr sr1 o => AOk (SAND dr sr1 o)
  | ABR cc o => rel 9 o (SBR cc)
  | AJMP br => AOk (SJMP br)
  | AJSR o => rel 11 o (fun v => SJSR (Imm v))
  | AJSRR br => AOk (SJSR (RegOp br))
  | ALD dr o => rel 9 o (SLD dr)
  | ALDI dr o => rel 9 o (SLDI dr)
  | ALDR dr br off => AOk (SLDR dr br off)
  | ALEA dr o => rel 9 o (SLEA dr)
  | ANOT dr sr => AOk (SNOT dr sr)
  | ARET => AOk (SJMP 7)
  | ARTI => AOk SRTI
  | AST sr o => rel 9 o (SST sr)
  | ASTI sr o => rel 9 o (SSTI sr)
  | ASTR sr br off => AOk (SSTR sr br off)
  | ATRAP v => AOk (STRAP v)
  | ANOP o => rel 9 o (SBR 0)
  | AGETC => AOk (STRAP 32)
  | AOUT => AOk (STRAP 33)
  | APUTC => AOk (STRAP 33)
  | APUTS => AOk (STRAP 34)
  | AIN => AOk (STRAP 35)
  | APUTSP => AOk (STRAP 36)
  | AHALT => AOk (STRAP 37)
  end.

Record oblock := mkOB { ob_start : Z; ob_words : list (option Z); ob_span : span }.

(* ObjBlock::range: `self.start + self.words.len() as u16` *)
Definition ob_range (b : oblock) : option (Z * Z) :=
  let e := ob_start b + wrap16 (len (ob_words b)) in
  if e <? 65536 then Some (ob_start b, e) else None.

Definition ranges_overlap (a b : Z * Z) : bool := (fst a <? snd b) && (fst b <? snd a).

(* SymbolTable::lookup_label *)
Definition lookup_label_map (labels : labmap) (name : str) : option Z :=
  option_map sd_addr (assoc (upper name) labels).

(* ObjBlock::write_directive (Orig, End, External never reach it with an effect) *)
Definition write_directive (words : list (option Z)) (d : directive) (labels : labmap) : ares (list (option Z)) :=
  match d with
  | DOrig _ => AOk words
  | DFill (POff v) => AOk (snoc words (Some v))
  | DFill (PLab l) =>
      match lookup_label_map labels (l_name l) with
      | Some a => AOk (snoc words (Some a))
      | None => AErr CouldNotFindLabel [label_span l]
      end
  | DBlkw n => AOk (words ++ repeat None (Z.to_nat n))
  | DStringz s => AOk (snoc (words ++ map Some (utf8_bytes s)) (Some 0))
  | DEnd => AOk words
  | DExternal _ => AOk words
  end.

Definition blockmap := list (Z * oblock).

(* `.find(|(_, b)| ranges_overlap(block.range(), b.range()))` over [previous, next] *)
Fixpoint find_overlap (blk : oblock) (cands : list (Z * oblock)) : ares (option oblock) :=
  match cands with
  | [] => AOk None
  | (_, b) :: r =>
      match ob_range blk with
      | None => APanic
      | Some rb =>
          match ob_range b with
          | None => APanic
          | Some rc => if ranges_overlap rb rc then AOk (Some b) else find_overlap blk r
          end
      end
  end.

Definition opt_list {A} (o : option A) : list A := match o with Some a => [a] | None => [] end.

Record p2 := mkP2 { p2_map : blockmap; p2_cur : option (Z * oblock) }.

Definition p2_step (labels : labmap) (st : p2) (s : stmt) : ares p2 :=
  let sp := stmt_span s in
  match s_nucleus s with
  | NDir (DOrig a) =>
      match p2_cur st with
      | Some _ => APanic                                  (* debug_assert!(current.is_none()) *)
      | None => AOk (mkP2 (p2_map st) (Some (a, mkOB a [] sp)))
      end
  | NDir DEnd =>
      match p2_cur st with
      | None => AErr UnopenedOrig [sp]
      | Some (_, blk) =>
          match ob_words blk with
          | [] => AOk (mkP2 (p2_map st) None)              (* empty block: dropped *)
          | _ =>
              let cands := opt_list (bt_le (ob_start blk) (p2_map st)) ++ opt_list (bt_ge (ob_start blk) (p2_map st)) in
              abind (find_overlap blk cands) (fun m =>
              match m with
              | Some other =>
                  let s0 := ob_span blk in
                  let s1 := ob_span other in
                  AErr OverlappingBlocks (if fst s0 <=? fst s1 then [s0; s1] else [s1; s0])
              | None => AOk (mkP2 (bt_insert (ob_start blk) blk (p2_map st)) None)
              end)
          end
      end
  | NDir (DExternal _) => AOk st
  | NDir d =>
      match p2_cur st with
      | None => AErr UndetAddrStmt [sp]
      | Some (lc, blk) =>
          match word_len d with
          | WLPanic => APanic
          | WL wl =>
              abind (write_directive (ob_words blk) d labels) (fun words =>
              AOk (mkP2 (p2_map st) (Some (wrap16 (lc + wl), mkOB (ob_start blk) words (ob_span blk)))))
          end
      end
  | NInstr i =>
      match p2_cur st with
      | None => AErr UndetAddrStmt [sp]
      | Some (lc, blk) =>
          abind (into_sim_instr i (wrap16 (lc + 1)) labels) (fun sim =>
          AOk (mkP2 (p2_map st) (Some (wrap16 (lc + 1), mkOB (ob_start blk) (snoc (ob_words blk) (Some (encode sim))) (ob_span blk)))))
      end
  end.

Fixpoint p2_loop (labels : labmap) (st : p2) (p : list stmt) : ares p2 :=
  match p with
  | [] => AOk st
  | s :: r => abind (p2_step labels st s) (fun st' => p2_loop labels st' r)
  end.

Definition pass2 (p : list stmt) (sym : symtab) (debug : bool) : ares objfile :=
  abind (p2_loop (st_labels sym) (mkP2 [] None) p) (fun st =>
  AOk (mkObj (map (fun kb => (fst kb, ob_words (snd kb))) (p2_map st))
             (* KEEP_SYM *)
             (if debug || existsb (fun kv => sd_external (snd kv)) (st_labels sym) then Some sym else None))).

(* `assemble ast` = [assemble false None]; `assemble_debug ast src` = [assemble true (Some src)] *)
Definition assemble (debug : bool) (src : option str) (p : list stmt) : ares objfile :=
  abind (pass1 p src) (fun sym => pass2 p sym debug).

(* ================================ queries ================================ *)

Definition lookup_label (t : symtab) (name : str) : option Z := lookup_label_map (st_labels t) name.

(* `.iter().find(addr == ..)`: HashMap order is arbitrary — here the first in list order; the
   theorems about it quantify over every permutation of the table *)
Definition rev_lookup_label (t : symtab) (addr : Z) : option str :=
  option_map fst (find (fun kv => sd_addr (snd kv) =? addr) (st_labels t)).

(* LABEL_SOURCE_UPPER (fix #10): key upper-cased; the span length is the QUERY's byte length *)
Definition get_label_source (t : symtab) (name : str) : option span :=
  option_map (fun d => (sd_src_start d, sd_src_start d + byte_len name)) (assoc (upper name) (st_labels t)).

Definition label_iter (t : symtab) : list (str * Z * bool) :=
  map (fun kv => (fst kv, sd_addr (snd kv), sd_external (snd kv))) (st_labels t).

(* LineSymbolMap::get *)
Definition lsm_get (m : linemap) (line : Z) : option Z :=
  match bt_le line m with
  | Some (start, blockv) => nth_z blockv (line - start)
  | None => None
  end.

(* slice::binary_search (core, Rust 1.95): halving loop that keeps `base` at an element <= x,
   one final comparison *)
Fixpoint bsearch_loop (fuel : nat) (l : list Z) (x : Z) (base size : Z) : Z :=
  match fuel with
  | O => base
  | S k =>
      if size >? 1 then
        let half := size / 2 in
        let mid := base + half in
        let base' := match nth_z l mid with Some v => if v >? x then base else mid | None => base end in
        bsearch_loop k l x base' (size - half)
      else base
  end.
Definition binary_search (l : list Z) (x : Z) : option Z :=
  match l with
  | [] => None
  | _ =>
      let base := bsearch_loop (List.length l) l x 0 (len l) in
      match nth_z l base with
      | Some v => if v =? x then Some base else None
      | None => None
      end
  end.

(* LineSymbolMap::find *)
Fixpoint lsm_find (m : linemap) (addr : Z) : option Z :=
  match m with
  | [] => None
  | (start, ws) :: r =>
      match binary_search ws addr with
      | Some o => Some (start + o)
      | None => lsm_find r addr
      end
  end.

Fixpoint enum_from {A} (i : Z) (l : list A) : list (Z * A) :=
  match l with [] => [] | a :: r => (i, a) :: enum_from (i + 1) r end.
Definition lsm_iter (m : linemap) : list (Z * Z) :=
  flat_map (fun kv => enum_from (fst kv) (snd kv)) m.

Definition lookup_line (t : symtab) (line : Z) : option Z :=
  match st_debug t with Some d => lsm_get (ds_lines d) line | None => None end.
Definition rev_lookup_line (t : symtab) (addr : Z) : option Z :=
  match st_debug t with Some d => lsm_find (ds_lines d) addr | None => None end.
Definition line_iter (t : symtab) : list (Z * Z) :=
  match st_debug t with Some d => lsm_iter (ds_lines d) | None => [] end.

(* ObjectFile::addr_iter *)
Definition addr_iter (o : objfile) : list (Z * option Z) :=
  flat_map (fun b => map (fun iw => (wrap16 (fst iw), snd iw)) (enum_from (fst b) (snd b))) (o_blocks o).

(* ================================ wire ================================ *)
Definition t_kind (k : err_kind) : tree :=
  match k with
  | UndetAddrLabel => L [I 0] | UndetAddrStmt => L [I 1] | UnclosedOrig => L [I 2]
  | UnopenedOrig => L [I 3] | OverlappingOrig => L [I 4] | OverlappingLabels => L [I 5]
  | WrappingBlock => L [I 6] | BlockInIO => L [I 7] | OverlappingBlocks => L [I 8]
  | OffsetNewErr (CannotFitUnsigned n) => L [I 9; I 0; I n]
  | OffsetNewErr (CannotFitSigned n) => L [I 9; I 1; I n]
  | OffsetExternal => L [I 10] | CouldNotFindLabel => L [I 11]
  end.
Definition t_sp (s : span) : tree := L [I (fst s); I (snd s)].
Definition t_ares {A} (f : A -> tree) (r : ares A) : tree :=
  match r with
  | AOk a => t_ok [f a]
  | AErr k sp => t_err [t_kind k; t_list t_sp sp]
  | APanic => t_panic
  end.

Definition as_src (t : tree) : option (option str) := as_opt as_zs t.

Definition op_assemble (t : tree) : tree :=
  match t with
  | L [d; s; p] =>
      match as_bool d, as_src s, as_stmts p with
      | Some d', Some s', Some p' => t_ares t_obj (assemble d' s' p')
      | _, _, _ => t_bad
      end
  | _ => t_bad
  end.
Definition op_pass1 (t : tree) : tree :=
  match t with
  | L [s; p] =>
      match as_src s, as_stmts p with
      | Some s', Some p' => t_ares t_symtab (pass1 p' s')
      | _, _ => t_bad
      end
  | _ => t_bad
  end.
(* queries: (symtab (arg ...)) -> one result per argument *)
Definition op_query {A} (dec : tree -> option A) (f : symtab -> A -> tree) (t : tree) : tree :=
  match t with
  | L [s; args] =>
      match as_symtab s, as_list dec args with
      | Some s', Some a' => L (map (f s') a')
      | _, _ => t_bad
      end
  | _ => t_bad
  end.
Definition op_listing (f : symtab -> tree) (t : tree) : tree :=
  match t with
  | L [s] => match as_symtab s with Some s' => f s' | None => t_bad end
  | _ => t_bad
  end.

Definition t_label_listing (t : symtab) : tree :=
  t_list (fun x => L [t_zs (fst (fst x)); I (snd (fst x)); t_bool (snd x)])
         (sort_by (fun a b => str_ltb (fst (fst a)) (fst (fst b))) (label_iter t)).

Definition ops : op_table :=
  [ ("asm.assemble"%string, op_assemble);
    ("asm.pass1"%string, op_pass1);
    ("asm.lookup_label"%string, op_query as_zs (fun s n => t_opt I (lookup_label s n)));
    ("asm.get_label_source"%string, op_query as_zs (fun s n => t_opt t_sp (get_label_source s n)));
    (* HashMap order: only whether a label is found is compared *)
    ("asm.rev_lookup_label"%string, op_query as_z (fun s a => t_bool (match rev_lookup_label s a with Some _ => true | None => false end)));
    ("asm.lookup_line"%string, op_query as_z (fun s l => t_opt I (lookup_line s l)));
    ("asm.rev_lookup_line"%string, op_query as_z (fun s a => t_opt I (rev_lookup_line s a)));
    ("asm.label_iter"%string, op_listing t_label_listing);
    ("asm.line_iter"%string, op_listing (fun s => t_list (fun p => L [I (fst p); I (snd p)]) (line_iter s))) ].
