(* Bits.v — 16-bit machine arithmetic on Z, with every wrap written out.
   Rust anchors: u16/i16 arithmetic in src/ast.rs, src/ast/sim.rs, src/sim/mem.rs. *)
From Coq Require Import ZArith List Bool.
Import ListNotations.
Open Scope Z_scope.

Definition wrap16 (z : Z) : Z := z mod 65536.
(* reinterpretation u16 -> i16 (Rust `as i16`) of any integer taken mod 2^16 *)
Definition to_i16 (z : Z) : Z :=
  let w := wrap16 z in if w <? 32768 then w else w - 65536.
(* Rust `as u16` of an i16 *)
Definition to_u16 (z : Z) : Z := wrap16 z.

Definition in_u16 (z : Z) : bool := (0 <=? z) && (z <? 65536).
Definition in_i16 (z : Z) : bool := (-32768 <=? z) && (z <? 32768).

(* shifts as Rust performs them on 16-bit integers (shift amount 0..15) *)
Definition shl_u16 (v k : Z) : Z := wrap16 (Z.shiftl v k).
Definition shr_u16 (v k : Z) : Z := Z.shiftr v k.
Definition shl_i16 (v k : Z) : Z := to_i16 (Z.shiftl v k).
Definition shr_i16 (v k : Z) : Z := Z.shiftr v k.   (* arithmetic shift *)

(* u16 bit slice, `DecodeUtils::slice`: (w >> lo) & ((1 << (hi-lo)) - 1) *)
Definition slice (w lo hi : Z) : Z := Z.land (Z.shiftr w lo) (Z.shiftl 1 (hi - lo) - 1).

(* sign- and zero-extension of the low n bits *)
Definition zext (n z : Z) : Z := z mod 2 ^ n.
Definition sext (n z : Z) : Z :=
  let m := z mod 2 ^ n in if m <? 2 ^ (n - 1) then m else m - 2 ^ n.
