(* DevHandler.v — model of the memory-mapped I/O path.

   Part 1: `DeviceHandler` (src/sim/device.rs): devices, io_ports, new, get_dev_id, set_port,
           set_keyboard, set_display, add_device, remove_device, and its ExternalDevice impl
           (io_read, io_write, io_reset, poll_interrupt), `Interrupt::priority`.
   Part 2: the simulator side (src/sim.rs): `InternalRegister` (read/write incl. PSR::set),
           `ireg_mmap`, mmap_internal, munmap_internal and the MMIO arms of read_mem / write_mem
           for a privileged, untracked access with initialised data — the record [bus].
   Part 3: a recording device and the wire for the correspondence check (C32).

   The handler is polymorphic in the device type D; a slot is [option D] (None = SimDevice::Null,
   which is also what NullDevice::_to_sim_device yields) and the behaviour of devices is a record
   of four functions [dev_ops D] (the ExternalDevice trait).  The simulator model instantiates D.

   io_ports (Box<[u16; 512]>, indexed by port - xFE00) is a function Z -> Z over addresses; only the
   512 I/O addresses xFE00..xFFFF are ever read or written through it.
   Rust panic sites: `self.devices[i]` (set_keyboard/set_display: i = 1, 2; io_read/io_write:
   i = the port's id).  The model returns [None] there when the index is out of range;
   proofs/DevHandlerProofs.v shows that this never happens (at least 3 slots, ids below the length).
   No proofs here.

   For importers (the simulator model): instantiate D with the simulator's device type and give its
   behaviour as [dev_ops D] (d_read d_write d_reset d_poll).  Handler: [handler D] (h_devs h_ports),
   [new_handler], [set_keyboard], [set_display], [add_device], [remove_device], [io_read], [io_write],
   [io_reset], [poll_interrupt] (+ [interrupt], [vectored], [int_priority]).  Simulator side: [ireg],
   [iregs] + [ireg_read]/[ireg_write]/[psr_set], [imap] + [default_imap]/[mmap_internal]/
   [munmap_internal], and [bus_read]/[bus_write] for the MMIO arms.  proofs/DevHandlerProofs.v:
   [h_inv] (kept by every operation: *_inv lemmas) excludes the None (panic) results. *)
From Coq Require Import ZArith List Bool String.
From Gen Require Import Constants.
From Model Require Import Tree.
Import ListNotations.
Open Scope Z_scope.
Set Implicit Arguments.

Definition IO_START : Z := sim.IO_START.
Definition KBSR : Z := sim_device.KBSR.
Definition KBDR : Z := sim_device.KBDR.
Definition DSR : Z := sim_device.DSR.
Definition DDR : Z := sim_device.DDR.
Definition NULL_DEV : Z := sim_device.NULL_DEV.
Definition KB_DEV : Z := sim_device.KB_DEV.
Definition DS_DEV : Z := sim_device.DS_DEV.

(* an address with an entry in io_ports: `port.checked_sub(IO_START)` succeeds (and a u16 never
   reaches past the 512 entries) *)
Definition is_io (a : Z) : bool := (IO_START <=? a) && (a <=? 65535).

(* ---------------------------------------------------------------- interrupts *)
Inductive interrupt := IVectored (vect prio : Z) | IExternal (payload : Z).
(* Interrupt::vectored(vect, priority): the priority is clamped to 0..7 at construction *)
Definition vectored (v p : Z) : interrupt := IVectored v (Z.min p 7).
(* Interrupt::priority *)
Definition int_priority (i : interrupt) : option Z :=
  match i with IVectored _ p => Some (Z.land p 7) | IExternal _ => None end.
(* key of max_by_key in DeviceHandler::poll_interrupt: priority().unwrap_or(0b1000) *)
Definition int_key (i : interrupt) : Z := match int_priority i with Some p => p | None => 8 end.

(* ---------------------------------------------------------------- devices *)
(* trait ExternalDevice, state passing *)
Record dev_ops (D : Type) := mk_dev_ops {
  d_read : D -> Z -> bool -> D * option Z;     (* io_read(addr, effectful) *)
  d_write : D -> Z -> Z -> D * bool;           (* io_write(addr, data) *)
  d_reset : D -> D;                            (* io_reset *)
  d_poll : D -> D * option interrupt           (* poll_interrupt *)
}.

(* struct DeviceHandler *)
Record handler (D : Type) := mk_handler {
  h_devs : list (option D);     (* devices: slot id -> device (None = Null) *)
  h_ports : Z -> Z              (* io_ports: address -> id of the owning slot (0 = nobody) *)
}.

Definition upd (f : Z -> Z) (p v : Z) : Z -> Z := fun q => if q =? p then v else f q.
Definition dev_len {D} (h : handler D) : Z := Z.of_nat (List.length (h_devs h)).

(* replace slot k (no change when k is out of range; callers test the index first) *)
Fixpoint set_nth {A} (k : nat) (x : A) (l : list A) : list A :=
  match l, k with
  | [], _ => []
  | _ :: r, O => x :: r
  | a :: r, S k' => a :: set_nth k' x r
  end.
Definition slot {D} (h : handler D) (id : Z) : option (option D) :=
  if id <? 0 then None else nth_error (h_devs h) (Z.to_nat id).

(* get_dev_id *)
Definition get_dev_id {D} (h : handler D) (port : Z) : option Z :=
  if is_io port then Some (h_ports h port) else None.

(* set_port: only an I/O address whose entry is 0 (`Some(d @ 0)`), only an existing slot *)
Definition set_port {D} (h : handler D) (port id : Z) : handler D :=
  if is_io port && (h_ports h port =? 0) && (id <? dev_len h)
  then mk_handler (h_devs h) (upd (h_ports h) port id)
  else h.

(* DeviceHandler::new *)
Definition new_handler (D : Type) : handler D :=
  let h0 := mk_handler (D := D) [None; None; None] (fun _ => 0) in
  set_port (set_port (set_port (set_port h0 KBSR KB_DEV) KBDR KB_DEV) DSR DS_DEV) DDR DS_DEV.

(* `self.devices[id] = dev` — None = index out of bounds (panic) *)
Definition set_slot {D} (h : handler D) (id : Z) (d : option D) : option (handler D) :=
  match slot h id with
  | Some _ => Some (mk_handler (set_nth (Z.to_nat id) d (h_devs h)) (h_ports h))
  | None => None
  end.
Definition set_keyboard {D} (h : handler D) (d : option D) := set_slot h KB_DEV d.
Definition set_display {D} (h : handler D) (d : option D) := set_slot h DS_DEV d.

(* add_device: Ok(id) = Some id, Err(dev) = None.  The new id is the number of slots. *)
Definition port_free {D} (h : handler D) (p : Z) : bool :=
  match get_dev_id h p with Some d => d =? 0 | None => false end.
Definition add_device {D} (h : handler D) (d : option D) (addrs : list Z) : handler D * option Z :=
  let id := dev_len h in
  if id <=? 65535 then
    if forallb (port_free h) addrs then
      let h1 := mk_handler (h_devs h ++ [d]) (h_ports h) in
      (fold_left (fun hh p => set_port hh p id) addrs h1, Some id)
    else (h, None)
  else (h, None).

(* remove_device *)
Definition is_fixed (id : Z) : bool := (id =? NULL_DEV) || (id =? KB_DEV) || (id =? DS_DEV).
Definition remove_device {D} (h : handler D) (id : Z) : handler D :=
  match slot h id with
  | Some _ =>
    mk_handler (set_nth (Z.to_nat id) None (h_devs h))
               (if is_fixed id then h_ports h
                else fun p => if h_ports h p =? id then NULL_DEV else h_ports h p)
  | None => h
  end.

(* ExternalDevice for DeviceHandler.  None = `self.devices[dev_id]` out of bounds (panic). *)
Definition io_read {D} (ops : dev_ops D) (h : handler D) (addr : Z) (eff : bool)
  : option (handler D * option Z) :=
  match get_dev_id h addr with
  | None => Some (h, None)
  | Some id =>
    match slot h id with
    | None => None
    | Some None => Some (h, None)                  (* NullDevice.io_read *)
    | Some (Some d) =>
      let (d', r) := d_read ops d addr eff in
      Some (mk_handler (set_nth (Z.to_nat id) (Some d') (h_devs h)) (h_ports h), r)
    end
  end.
Definition io_write {D} (ops : dev_ops D) (h : handler D) (addr data : Z)
  : option (handler D * bool) :=
  match get_dev_id h addr with
  | None => Some (h, false)
  | Some id =>
    match slot h id with
    | None => None
    | Some None => Some (h, false)                 (* NullDevice.io_write *)
    | Some (Some d) =>
      let (d', r) := d_write ops d addr data in
      Some (mk_handler (set_nth (Z.to_nat id) (Some d') (h_devs h)) (h_ports h), r)
    end
  end.
Definition io_reset {D} (ops : dev_ops D) (h : handler D) : handler D :=
  mk_handler (map (fun s => match s with Some d => Some (d_reset ops d) | None => None end) (h_devs h))
             (h_ports h).
(* max_by_key keeps the LAST of several equally maximal elements *)
Definition better (best : option interrupt) (i : interrupt) : option interrupt :=
  match best with
  | None => Some i
  | Some b => if int_key b <=? int_key i then Some i else Some b
  end.
Fixpoint poll_devs {D} (ops : dev_ops D) (l : list (option D)) (best : option interrupt)
  : list (option D) * option interrupt :=
  match l with
  | [] => ([], best)
  | None :: r => let (r', b) := poll_devs ops r best in (None :: r', b)
  | Some d :: r =>
    let (d', i) := d_poll ops d in
    let (r', b) := poll_devs ops r (match i with Some x => better best x | None => best end) in
    (Some d' :: r', b)
  end.
Definition poll_interrupt {D} (ops : dev_ops D) (h : handler D) : handler D * option interrupt :=
  let (l, b) := poll_devs ops (h_devs h) None in (mk_handler l (h_ports h), b).

(* ---------------------------------------------------------------- internal registers *)
Inductive ireg := RegPC | RegPSR | RegMCR | RegSavedSP.
Definition ireg_eqb (a b : ireg) : bool :=
  match a, b with
  | RegPC, RegPC | RegPSR, RegPSR | RegMCR, RegMCR | RegSavedSP, RegSavedSP => true
  | _, _ => false
  end.

(* the four pieces of simulator state an internal register stands for *)
Record iregs := mk_iregs { ir_pc : Z; ir_psr : Z; ir_mcr : bool; ir_ssp : Z }.

(* PSR::set: mask, then set_cc with the guard against an invalid condition code *)
Definition psr_set (data : Z) : Z :=
  let base := Z.land (Z.land data sim.MASK) 65528 (* & 0xFFF8 *) in
  let cc := Z.land data 7 in
  let cc' := if (cc =? 1) || (cc =? 2) || (cc =? 4) then cc else 2 in
  Z.lor base cc'.

(* InternalRegister::read / write *)
Definition ireg_read (r : ireg) (s : iregs) : Z :=
  match r with
  | RegPC => ir_pc s
  | RegPSR => ir_psr s
  | RegMCR => if ir_mcr s then 32768 else 0
  | RegSavedSP => ir_ssp s
  end.
Definition ireg_write (r : ireg) (s : iregs) (data : Z) : iregs :=
  match r with
  | RegPC => mk_iregs data (ir_psr s) (ir_mcr s) (ir_ssp s)
  | RegPSR => mk_iregs (ir_pc s) (psr_set data) (ir_mcr s) (ir_ssp s)
  | RegMCR => mk_iregs (ir_pc s) (ir_psr s) (32768 <=? data) (ir_ssp s)   (* (data as i16) < 0 *)
  | RegSavedSP => mk_iregs (ir_pc s) (ir_psr s) (ir_mcr s) data
  end.

(* ireg_mmap: HashMap<u16, InternalRegister> as an association list with unique keys *)
Definition imap := list (Z * ireg).
Fixpoint imap_get (m : imap) (a : Z) : option ireg :=
  match m with
  | [] => None
  | (k, r) :: t => if k =? a then Some r else imap_get t a
  end.
Fixpoint imap_remove (m : imap) (a : Z) : imap :=
  match m with
  | [] => []
  | (k, r) :: t => if k =? a then imap_remove t a else (k, r) :: imap_remove t a
  end.
Definition default_imap : imap := [(sim.PSR_ADDR, RegPSR); (sim.MCR_ADDR, RegMCR)].

Inductive mmap_err := NotInIORange | AddrAlreadyMapped.
(* mmap_internal: `(IO_START..).contains(&addr)`, then a vacant entry *)
Definition mmap_internal (m : imap) (a : Z) (r : ireg) : imap * option mmap_err :=
  if a <? IO_START then (m, Some NotInIORange)
  else match imap_get m a with
       | Some _ => (m, Some AddrAlreadyMapped)
       | None => ((a, r) :: m, None)
       end.
(* munmap_internal: whether something was removed *)
Definition munmap_internal (m : imap) (a : Z) : imap * bool :=
  match imap_get m a with
  | Some _ => (imap_remove m a, true)
  | None => (m, false)
  end.

(* ---------------------------------------------------------------- the MMIO path of the simulator *)
Record bus (D : Type) := mk_bus {
  b_imap : imap;            (* ireg_mmap *)
  b_regs : iregs;           (* pc, psr, mcr, saved_sp *)
  b_h : handler D;          (* device_handler *)
  b_mem : Z -> Z            (* mem (data of the words; every word touched here is initialised) *)
}.

Definition new_bus (D : Type) (mem0 : Z -> Z) : bus D :=
  mk_bus default_imap (mk_iregs 12288 32770 false 12288) (new_handler D) mem0.

(* read_mem, privileged, no access tracking: the IO arm updates the memory mirror, then the
   word is loaded from the mirror.  None = panic (device index). *)
Definition bus_read {D} (ops : dev_ops D) (b : bus D) (addr : Z) (eff : bool) : option (bus D * Z) :=
  if IO_START <=? addr then
    match imap_get (b_imap b) addr with
    | Some r =>
      let data := ireg_read r (b_regs b) in
      Some (mk_bus (b_imap b) (b_regs b) (b_h b) (upd (b_mem b) addr data), data)
    | None =>
      match io_read ops (b_h b) addr eff with
      | None => None
      | Some (h', Some data) => Some (mk_bus (b_imap b) (b_regs b) h' (upd (b_mem b) addr data), data)
      | Some (h', None) => Some (mk_bus (b_imap b) (b_regs b) h' (b_mem b), b_mem b addr)
      end
    end
  else Some (b, b_mem b addr).

(* write_mem, privileged, not strict, initialised data: the mirror is written only if the
   register / device took the write.  The result says whether it did. *)
Definition bus_write {D} (ops : dev_ops D) (b : bus D) (addr data : Z) : option (bus D * bool) :=
  if IO_START <=? addr then
    match imap_get (b_imap b) addr with
    | Some r =>
      Some (mk_bus (b_imap b) (ireg_write r (b_regs b) data) (b_h b) (upd (b_mem b) addr data), true)
    | None =>
      match io_write ops (b_h b) addr data with
      | None => None
      | Some (h', true) => Some (mk_bus (b_imap b) (b_regs b) h' (upd (b_mem b) addr data), true)
      | Some (h', false) => Some (mk_bus (b_imap b) (b_regs b) h' (b_mem b), false)
      end
    end
  else Some (mk_bus (b_imap b) (b_regs b) (b_h b) (upd (b_mem b) addr data), true).

(* ---------------------------------------------------------------- histories *)
Inductive bop (D : Type) :=
| BAdd (d : option D) (addrs : list Z)
| BRemove (id : Z)
| BSetKeyboard (d : option D)
| BSetDisplay (d : option D)
| BMmap (a : Z) (r : ireg)
| BMunmap (a : Z)
| BRead (a : Z) (eff : bool)
| BWrite (a data : Z)
| BReset                     (* device_handler.io_reset() *)
| BPoll.                     (* device_handler.poll_interrupt() *)
Arguments BRemove {D}. Arguments BMmap {D}. Arguments BMunmap {D}. Arguments BRead {D}.
Arguments BWrite {D}. Arguments BReset {D}. Arguments BPoll {D}.

Inductive bres :=
| RAdd (r : option Z) | RUnit | RMmap (e : option mmap_err) | RMunmap (ok : bool)
| RRead (v : Z) | RWrite (taken : bool) | RPoll (i : option interrupt) | RPanic.

Definition with_h {D} (b : bus D) (h : handler D) : bus D := mk_bus (b_imap b) (b_regs b) h (b_mem b).
Definition with_imap {D} (b : bus D) (m : imap) : bus D := mk_bus m (b_regs b) (b_h b) (b_mem b).

(* one operation; a panicking operation leaves the state as it was *)
Definition bstep {D} (ops : dev_ops D) (b : bus D) (o : bop D) : bus D * bres :=
  match o with
  | BAdd d addrs => let (h, r) := add_device (b_h b) d addrs in (with_h b h, RAdd r)
  | BRemove id => (with_h b (remove_device (b_h b) id), RUnit)
  | BSetKeyboard d => match set_keyboard (b_h b) d with Some h => (with_h b h, RUnit) | None => (b, RPanic) end
  | BSetDisplay d => match set_display (b_h b) d with Some h => (with_h b h, RUnit) | None => (b, RPanic) end
  | BMmap a r => let (m, e) := mmap_internal (b_imap b) a r in (with_imap b m, RMmap e)
  | BMunmap a => let (m, ok) := munmap_internal (b_imap b) a in (with_imap b m, RMunmap ok)
  | BRead a eff => match bus_read ops b a eff with Some (b', v) => (b', RRead v) | None => (b, RPanic) end
  | BWrite a data => match bus_write ops b a data with Some (b', t) => (b', RWrite t) | None => (b, RPanic) end
  | BReset => (with_h b (io_reset ops (b_h b)), RUnit)
  | BPoll => let (h, i) := poll_interrupt ops (b_h b) in (with_h b h, RPoll i)
  end.

Fixpoint brun {D} (ops : dev_ops D) (b : bus D) (l : list (bop D)) : bus D * list bres :=
  match l with
  | [] => (b, [])
  | o :: r => let (b1, x) := bstep ops b o in let (b2, xs) := brun ops b1 r in (b2, x :: xs)
  end.

(* ---------------------------------------------------------------- a recording device (C32 tie) *)
(* event: (tag of the device, kind 0 read / 1 write / 2 reset / 3 poll, address, data or effectful) *)
Definition event := (Z * Z * Z * Z)%type.
Record rdev := mk_rdev {
  rd_tag : Z;
  rd_reads : bool;                (* answers reads *)
  rd_writes : bool;               (* takes writes *)
  rd_intr : option interrupt;     (* what every poll returns *)
  rd_count : Z;                   (* effectful reads + writes + resets so far (makes answers state dependent) *)
  rd_ev : list event              (* calls received since the log was last cleared, newest first *)
}.
Definition rdev_answer (d : rdev) (addr : Z) : Z := (rd_tag d * 256 + rd_count d * 16 + addr mod 16) mod 65536.
Definition rdev_ops : dev_ops rdev :=
  mk_dev_ops
    (fun d addr eff =>
       (mk_rdev (rd_tag d) (rd_reads d) (rd_writes d) (rd_intr d)
                (if eff then rd_count d + 1 else rd_count d)
                ((rd_tag d, 0, addr, if eff then 1 else 0) :: rd_ev d),
        if rd_reads d then Some (rdev_answer d addr) else None))
    (fun d addr data =>
       (mk_rdev (rd_tag d) (rd_reads d) (rd_writes d) (rd_intr d) (rd_count d + 1)
                ((rd_tag d, 1, addr, data) :: rd_ev d),
        rd_writes d))
    (fun d => mk_rdev (rd_tag d) (rd_reads d) (rd_writes d) (rd_intr d) (rd_count d + 1)
                      ((rd_tag d, 2, 0, 0) :: rd_ev d))
    (fun d => (mk_rdev (rd_tag d) (rd_reads d) (rd_writes d) (rd_intr d) (rd_count d)
                       ((rd_tag d, 3, 0, 0) :: rd_ev d),
               rd_intr d)).

Definition clear_ev (b : bus rdev) : bus rdev :=
  with_h b (mk_handler
    (map (fun s => match s with
                   | Some d => Some (mk_rdev (rd_tag d) (rd_reads d) (rd_writes d) (rd_intr d) (rd_count d) [])
                   | None => None end) (h_devs (b_h b)))
    (h_ports (b_h b))).
(* calls of the last operation in the order they were made: slots in order (io_reset and
   poll_interrupt iterate the slots in order), within a slot oldest first *)
Definition collect_ev (b : bus rdev) : list event :=
  flat_map (fun s => match s with Some d => rev (rd_ev d) | None => [] end) (h_devs (b_h b)).

(* ---- wire ---- *)
Definition as_ireg (t : tree) : option ireg :=
  match t with I 0 => Some RegPC | I 1 => Some RegPSR | I 2 => Some RegMCR | I 3 => Some RegSavedSP | _ => None end.
Definition as_intr (t : tree) : option (option interrupt) :=
  match t with
  | L [] => Some None
  | L [I 0; I v; I p] => Some (Some (vectored v p))
  | L [I 1; I x] => Some (Some (IExternal x))
  | _ => None
  end.
(* device: () = NullDevice, (tag reads writes intr) = recording device *)
Definition as_dev (t : tree) : option (option rdev) :=
  match t with
  | L [] => Some None
  | L [I tag; rd; wr; it] =>
    match as_bool rd, as_bool wr, as_intr it with
    | Some r, Some w, Some i => Some (Some (mk_rdev tag r w i 0 []))
    | _, _, _ => None
    end
  | _ => None
  end.
Definition as_bop (t : tree) : option (bop rdev) :=
  match t with
  | L [I 0; d; addrs] => match as_dev d, as_zs addrs with Some d', Some a => Some (BAdd d' a) | _, _ => None end
  | L [I 1; I id] => Some (BRemove id)
  | L [I 2; d] => match as_dev d with Some d' => Some (BSetKeyboard d') | None => None end
  | L [I 3; d] => match as_dev d with Some d' => Some (BSetDisplay d') | None => None end
  | L [I 4; I a; r] => match as_ireg r with Some r' => Some (BMmap a r') | None => None end
  | L [I 5; I a] => Some (BMunmap a)
  | L [I 6; I a; e] => match as_bool e with Some e' => Some (BRead a e') | None => None end
  | L [I 7; I a; I d] => Some (BWrite a d)
  | L [I 8] => Some BReset
  | L [I 9] => Some BPoll
  | _ => None
  end.
Definition t_intr (i : option interrupt) : tree :=
  match i with
  | None => L []
  | Some (IVectored v p) => L [I 0; I v; I p]
  | Some (IExternal x) => L [I 1; I x]
  end.
Definition t_bres (r : bres) : tree :=
  match r with
  | RAdd (Some id) => t_ok [I id]
  | RAdd None => t_err []
  | RUnit => t_ok []
  | RMmap None => t_ok []
  | RMmap (Some NotInIORange) => t_err [I 0]
  | RMmap (Some AddrAlreadyMapped) => t_err [I 1]
  | RMunmap ok => t_ok [t_bool ok]
  | RRead v => t_ok [I v]
  | RWrite _ => t_ok []        (* write_mem does not say whether the write was taken; the mirror shows it *)
  | RPoll i => t_ok [t_intr i]
  | RPanic => t_panic
  end.
Definition t_event (e : event) : tree := let '(tag, k, a, d) := e in L [I tag; I k; I a; I d].
Definition op_addr (o : bop rdev) : Z :=
  match o with BRead a _ | BWrite a _ | BMmap a _ | BMunmap a => a | _ => 65023 (* xFDFF *) end.

(* per operation: result, device calls, mirror word at the operation's address, pc psr mcr saved_sp *)
Fixpoint observe_run (b : bus rdev) (l : list (bop rdev)) : list tree :=
  match l with
  | [] => []
  | o :: r =>
    let (b1, x) := bstep rdev_ops (clear_ev b) o in
    L [t_bres x; t_list t_event (collect_ev b1); I (b_mem b1 (op_addr o));
       I (ir_pc (b_regs b1)); I (ir_psr (b_regs b1)); t_bool (ir_mcr (b_regs b1)); I (ir_ssp (b_regs b1))]
    :: observe_run b1 r
  end.

(* devhandler.run (fill ops): a fresh simulator whose memory outside the I/O range holds `fill`
   (addresses used by the harness lie outside the OS image) and whose I/O range holds 0 *)
Definition op_run (t : tree) : tree :=
  match t with
  | L [I fill; ops] =>
    match as_list as_bop ops with
    | Some l => L (observe_run (new_bus rdev (fun a => if IO_START <=? a then 0 else fill)) l)
    | None => t_bad
    end
  | _ => t_bad
  end.

Definition ops : op_table := [ ("devhandler.run"%string, op_run) ].
