(* Disasm.v — model of `try_disassemble_line` / `disassemble_line` (src/ast/asm.rs), and the
   round trip "word -> statement -> printed text -> parse -> assemble" used by C07. *)
From Coq Require Import ZArith List Bool String.
From Model Require Import Tree Bits Text Instr AsmAst Obj Lexer Parser Print Assembler.
Import ListNotations.
Open Scope Z_scope.

Definition to_asm (si : sim_instr) : asm_instr :=
  match si with
  | SBR cc off => ABR cc (POff off)
  | SADD a b o => AADD a b o
  | SLD r off => ALD r (POff off)
  | SST r off => AST r (POff off)
  | SJSR (Imm v) => AJSR (POff v)
  | SJSR (RegOp r) => AJSRR r
  | SAND a b o => AAND a b o
  | SLDR a b c => ALDR a b c
  | SSTR a b c => ASTR a b c
  | SRTI => ARTI
  | SNOT a b => ANOT a b
  | SLDI r off => ALDI r (POff off)
  | SSTI r off => ASTI r (POff off)
  | SJMP r => if r =? 7 then ARET else AJMP r
  | SLEA r off => ALEA r (POff off)
  | STRAP v =>
      if v =? 32 then AGETC else if v =? 33 then APUTC else if v =? 34 then APUTS
      else if v =? 35 then AIN else if v =? 36 then APUTSP else if v =? 37 then AHALT else ATRAP v
  end.

(* words below x0200 are never disassembled as instructions *)
Definition try_disassemble (w : Z) : option stmt :=
  if w <? 512 then None
  else match decode w with
       | DOk si => Some (mkStmt [] (NInstr (to_asm si)) 0 0)
       | _ => None
       end.

Definition disassemble (w : Z) : stmt :=
  match try_disassemble w with
  | Some s => s
  | None => mkStmt [] (NDir (DFill (POff w))) 0 0
  end.

Definition disasm_text (w : Z) : str := print_stmt (disassemble w).

(* ".orig x<OOOO>\n<text>\n.end" *)
Definition hexdig (d : Z) : Z := if d <? 10 then 48 + d else 55 + d.
Definition hex4 (x : Z) : str := [hexdig (x / 4096 mod 16); hexdig (x / 256 mod 16); hexdig (x / 16 mod 16); hexdig (x mod 16)].
Definition wrap_text (origin : Z) (text : str) : str :=
  [46; 111; 114; 105; 103; 32; 120] ++ hex4 origin ++ [10] ++ text ++ [10; 46; 101; 110; 100].

(* the blocks of the object obtained by reassembling the text at [origin]; None = rejected *)
Definition reassemble (origin : Z) (text : str) : option (list (Z * list (option Z))) :=
  match parse_ast (wrap_text origin text) with
  | POk p => match assemble false None p with
             | AOk o => Some (o_blocks o)
             | _ => None
             end
  | _ => None
  end.

Definition block1_eqb (bs : list (Z * list (option Z))) (o w : Z) : bool :=
  match bs with
  | [(a, [Some v])] => (a =? o) && (v =? w)
  | _ => false
  end.

Definition roundtrip_ok (origin w : Z) : bool :=
  match reassemble origin (disasm_text w) with Some bs => block1_eqb bs origin w | None => false end.

(* ---------- wire ---------- *)
Definition ops : op_table :=
  [ ("disasm.stmt"%string, fun t => match t with L [I w] => t_ok [t_stmt (disassemble w)] | _ => t_bad end);
    ("disasm.text"%string, fun t => match t with L [I w] => t_zs (disasm_text w) | _ => t_bad end) ].
