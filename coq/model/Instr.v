(* Instr.v — model of `SimInstr` (src/ast/sim.rs): encode (join_bits with truncation),
   decode (slice / assert_equals / interpret), and the enumeration helpers used by the
   finite sweeps.  Registers are integers 0..7, offsets are signed/unsigned integers. *)
From Coq Require Import ZArith List Bool String.
From Gen Require Import Constants.
From Model Require Import Tree Bits.
Import ListNotations.
Open Scope Z_scope.

Inductive imm_or_reg := Imm (v : Z) | RegOp (r : Z).

Inductive sim_instr :=
| SBR (cc off : Z)
| SADD (dr sr1 : Z) (o : imm_or_reg)
| SLD (dr off : Z)
| SST (sr off : Z)
| SJSR (o : imm_or_reg)
| SAND (dr sr1 : Z) (o : imm_or_reg)
| SLDR (dr br off : Z)
| SSTR (sr br off : Z)
| SRTI
| SNOT (dr sr : Z)
| SLDI (dr off : Z)
| SSTI (sr off : Z)
| SJMP (br : Z)
| SLEA (dr off : Z)
| STRAP (vect : Z).

Definition opcode (i : sim_instr) : Z :=
  match i with
  | SBR _ _ => ast_sim.OP_BR | SADD _ _ _ => ast_sim.OP_ADD | SLD _ _ => ast_sim.OP_LD
  | SST _ _ => ast_sim.OP_ST | SJSR _ => ast_sim.OP_JSR | SAND _ _ _ => ast_sim.OP_AND
  | SLDR _ _ _ => ast_sim.OP_LDR | SSTR _ _ _ => ast_sim.OP_STR | SRTI => ast_sim.OP_RTI
  | SNOT _ _ => ast_sim.OP_NOT | SLDI _ _ => ast_sim.OP_LDI | SSTI _ _ => ast_sim.OP_STI
  | SJMP _ => ast_sim.OP_JMP | SLEA _ _ => ast_sim.OP_LEA | STRAP _ => ast_sim.OP_TRAP
  end.

(* join_bits: each (value, lo, hi) contributes (val & ((1 << (hi-lo)) - 1)) << lo; values are
   first cast `as u16`. *)
Definition field (val lo hi : Z) : Z :=
  Z.shiftl (Z.land (to_u16 val) (Z.shiftl 1 (hi - lo) - 1)) lo.
Fixpoint join_bits (l : list (Z * Z * Z)) : Z :=
  match l with
  | [] => 0
  | (v, lo, hi) :: r => Z.lor (field v lo hi) (join_bits r)
  end.

Definition encode (i : sim_instr) : Z :=
  let op := opcode i in
  match i with
  | SBR cc off => join_bits [(op, 12, 16); (cc, 9, 12); (off, 0, 9)]
  | SADD dr sr1 (Imm v) | SAND dr sr1 (Imm v) =>
      join_bits [(op, 12, 16); (dr, 9, 12); (sr1, 6, 9); (1, 5, 6); (v, 0, 5)]
  | SADD dr sr1 (RegOp r) | SAND dr sr1 (RegOp r) =>
      join_bits [(op, 12, 16); (dr, 9, 12); (sr1, 6, 9); (0, 3, 6); (r, 0, 3)]
  | SLD r off | SST r off | SLDI r off | SSTI r off | SLEA r off =>
      join_bits [(op, 12, 16); (r, 9, 12); (off, 0, 9)]
  | SJSR (Imm off) => join_bits [(op, 12, 16); (1, 11, 12); (off, 0, 11)]
  | SJSR (RegOp br) | SJMP br => join_bits [(op, 12, 16); (0, 9, 12); (br, 6, 9); (0, 0, 6)]
  | SLDR r br off | SSTR r br off => join_bits [(op, 12, 16); (r, 9, 12); (br, 6, 9); (off, 0, 6)]
  | SRTI => join_bits [(op, 12, 16); (0, 0, 12)]
  | SNOT dr sr => join_bits [(op, 12, 16); (dr, 9, 12); (sr, 6, 9); (63, 0, 6)]
  | STRAP v => join_bits [(op, 12, 16); (0, 8, 12); (v, 0, 8)]
  end.

Inductive dec_res := DOk (i : sim_instr) | DIllegalOpcode | DInvalidFormat | DPanic.

(* `interpret` for Reg is `Reg::try_from(bits as u8).unwrap()`: a panic outside 0..7 *)
Definition reg_ok (b : Z) : bool := (0 <=? b) && (b <? 8).
(* `interpret` for IOffset<N> is new_trunc(bits as i16); for Offset<u16,N> new_trunc(bits) *)
Definition soff (n b : Z) : Z := sext n b.

(* JMP_FORMAT_HI: upper end of the must-be-zero slice checked above JMP's base register.
   The ISA requires bits 9..12 to be zero. *)
Definition JMP_MBZ_HI : Z := 12.

Definition decode (w : Z) : dec_res :=
  let op := slice w 12 16 in
  let r9 := slice w 9 12 in
  let r6 := slice w 6 9 in
  let regs2 (k : Z -> Z -> sim_instr) :=
    if reg_ok r9 && reg_ok r6 then DOk (k r9 r6) else DPanic in
  let pc9 (k : Z -> Z -> sim_instr) :=
    if reg_ok r9 then DOk (k r9 (soff 9 (slice w 0 9))) else DPanic in
  let arith (k : Z -> Z -> imm_or_reg -> sim_instr) :=
    if negb (slice w 5 6 =? 0) then regs2 (fun a b => k a b (Imm (soff 5 (slice w 0 5))))
    else if negb (slice w 3 5 =? 0) then DInvalidFormat
    else if reg_ok (slice w 0 3) then regs2 (fun a b => k a b (RegOp (slice w 0 3))) else DPanic in
  if op =? ast_sim.OP_BR then DOk (SBR (slice w 9 12) (soff 9 (slice w 0 9)))
  else if op =? ast_sim.OP_ADD then arith SADD
  else if op =? ast_sim.OP_LD then pc9 SLD
  else if op =? ast_sim.OP_ST then pc9 SST
  else if op =? ast_sim.OP_JSR then
    if negb (slice w 11 12 =? 0) then DOk (SJSR (Imm (soff 11 (slice w 0 11))))
    else if negb (slice w 9 11 =? 0) then DInvalidFormat
    else if negb (slice w 0 6 =? 0) then DInvalidFormat
    else if reg_ok r6 then DOk (SJSR (RegOp r6)) else DPanic
  else if op =? ast_sim.OP_AND then arith SAND
  else if op =? ast_sim.OP_LDR then regs2 (fun a b => SLDR a b (soff 6 (slice w 0 6)))
  else if op =? ast_sim.OP_STR then regs2 (fun a b => SSTR a b (soff 6 (slice w 0 6)))
  else if op =? ast_sim.OP_RTI then
    if negb (slice w 0 12 =? 0) then DInvalidFormat else DOk SRTI
  else if op =? ast_sim.OP_NOT then
    if negb (slice w 0 6 =? 63) then (if reg_ok r9 && reg_ok r6 then DInvalidFormat else DPanic)
    else regs2 SNOT
  else if op =? ast_sim.OP_LDI then pc9 SLDI
  else if op =? ast_sim.OP_STI then pc9 SSTI
  else if op =? ast_sim.OP_JMP then
    if negb (slice w 9 JMP_MBZ_HI =? 0) then DInvalidFormat
    else if negb (reg_ok r6) then DPanic
    else if negb (slice w 0 6 =? 0) then DInvalidFormat
    else DOk (SJMP r6)
  else if op =? ast_sim.OP_LEA then pc9 SLEA
  else if op =? ast_sim.OP_TRAP then
    if negb (slice w 8 12 =? 0) then DInvalidFormat else DOk (STRAP (zext 8 (slice w 0 8)))
  else DIllegalOpcode.

(* ---------- validity of field values (what `SimInstr`'s types guarantee) ---------- *)
Definition rng (lo hi v : Z) : bool := (lo <=? v) && (v <? hi).
Definition valid_ior (n : Z) (o : imm_or_reg) : bool :=
  match o with Imm v => rng (- 2 ^ (n - 1)) (2 ^ (n - 1)) v | RegOp r => rng 0 8 r end.
Definition valid (i : sim_instr) : bool :=
  match i with
  | SBR cc off => rng 0 8 cc && rng (-256) 256 off
  | SADD a b o | SAND a b o => rng 0 8 a && rng 0 8 b && valid_ior 5 o
  | SLD r off | SST r off | SLDI r off | SSTI r off | SLEA r off => rng 0 8 r && rng (-256) 256 off
  | SJSR o => valid_ior 11 o
  | SLDR a b off | SSTR a b off => rng 0 8 a && rng 0 8 b && rng (-32) 32 off
  | SRTI => true
  | SNOT a b => rng 0 8 a && rng 0 8 b
  | SJMP r => rng 0 8 r
  | STRAP v => rng 0 256 v
  end.

(* ---------- decidable equality ---------- *)
Definition ior_eqb (a b : imm_or_reg) : bool :=
  match a, b with Imm x, Imm y => x =? y | RegOp x, RegOp y => x =? y | _, _ => false end.
Definition instr_eqb (a b : sim_instr) : bool :=
  match a, b with
  | SBR x y, SBR x' y' => (x =? x') && (y =? y')
  | SADD x y o, SADD x' y' o' => (x =? x') && (y =? y') && ior_eqb o o'
  | SLD x y, SLD x' y' => (x =? x') && (y =? y')
  | SST x y, SST x' y' => (x =? x') && (y =? y')
  | SJSR o, SJSR o' => ior_eqb o o'
  | SAND x y o, SAND x' y' o' => (x =? x') && (y =? y') && ior_eqb o o'
  | SLDR x y z, SLDR x' y' z' => (x =? x') && (y =? y') && (z =? z')
  | SSTR x y z, SSTR x' y' z' => (x =? x') && (y =? y') && (z =? z')
  | SRTI, SRTI => true
  | SNOT x y, SNOT x' y' => (x =? x') && (y =? y')
  | SLDI x y, SLDI x' y' => (x =? x') && (y =? y')
  | SSTI x y, SSTI x' y' => (x =? x') && (y =? y')
  | SJMP x, SJMP x' => x =? x'
  | SLEA x y, SLEA x' y' => (x =? x') && (y =? y')
  | STRAP x, STRAP x' => x =? x'
  | _, _ => false
  end.

(* ---------- wire ---------- *)
Definition t_ior (o : imm_or_reg) : tree :=
  match o with Imm v => L [I 0; I v] | RegOp r => L [I 1; I r] end.
Definition t_instr (i : sim_instr) : tree :=
  match i with
  | SBR a b => L [I 0; I a; I b]
  | SADD a b o => L [I 1; I a; I b; t_ior o]
  | SLD a b => L [I 2; I a; I b]
  | SST a b => L [I 3; I a; I b]
  | SJSR o => L [I 4; t_ior o]
  | SAND a b o => L [I 5; I a; I b; t_ior o]
  | SLDR a b c => L [I 6; I a; I b; I c]
  | SSTR a b c => L [I 7; I a; I b; I c]
  | SRTI => L [I 8]
  | SNOT a b => L [I 9; I a; I b]
  | SLDI a b => L [I 10; I a; I b]
  | SSTI a b => L [I 11; I a; I b]
  | SJMP a => L [I 12; I a]
  | SLEA a b => L [I 14; I a; I b]
  | STRAP a => L [I 15; I a]
  end.
Definition as_ior (t : tree) : option imm_or_reg :=
  match t with L [I 0; I v] => Some (Imm v) | L [I 1; I r] => Some (RegOp r) | _ => None end.
Definition as_instr (t : tree) : option sim_instr :=
  match t with
  | L [I 0; I a; I b] => Some (SBR a b)
  | L [I 1; I a; I b; o] => option_map (SADD a b) (as_ior o)
  | L [I 2; I a; I b] => Some (SLD a b)
  | L [I 3; I a; I b] => Some (SST a b)
  | L [I 4; o] => option_map SJSR (as_ior o)
  | L [I 5; I a; I b; o] => option_map (SAND a b) (as_ior o)
  | L [I 6; I a; I b; I c] => Some (SLDR a b c)
  | L [I 7; I a; I b; I c] => Some (SSTR a b c)
  | L [I 8] => Some SRTI
  | L [I 9; I a; I b] => Some (SNOT a b)
  | L [I 10; I a; I b] => Some (SLDI a b)
  | L [I 11; I a; I b] => Some (SSTI a b)
  | L [I 12; I a] => Some (SJMP a)
  | L [I 14; I a; I b] => Some (SLEA a b)
  | L [I 15; I a] => Some (STRAP a)
  | _ => None
  end.
Definition t_dec (r : dec_res) : tree :=
  match r with
  | DOk i => t_ok [t_instr i]
  | DIllegalOpcode => t_err [I 0]
  | DInvalidFormat => t_err [I 1]
  | DPanic => t_panic
  end.

Definition ops : op_table :=
  [ ("instr.decode"%string, fun t => match t with L [I w] => t_dec (decode w) | _ => t_bad end);
    ("instr.encode"%string, fun t => match t with L [i] => match as_instr i with Some x => t_ok [I (encode x)] | None => t_bad end | _ => t_bad end) ].
