(* IsaWire.v — abstraction function from model states to the architectural states of
   spec/IsaSpec.v, and the wire operation `isa.run` that runs the REFERENCE semantics
   (not the model) so that the harness can compare the implementation with it directly. *)
From Coq Require Import ZArith List Bool String FMapPositive.
From Model Require Import Tree Bits Word Instr Sim SimWire.
From Spec Require Import IsaSpec.
Import ListNotations.
Open Scope Z_scope.

Definition abs_mem (m : mem) : amem := mkAMem (PositiveMap.map w_data (m_over m)) (w_data (m_fill m)).
Definition abs (s : sim) : astate :=
  mkA (map w_data (s_regs s)) (s_pc s) (s_psr s) (w_data (s_saved_sp s)) (abs_mem (s_mem s))
      (s_devs s) (s_ireg s) (s_mcr s) (fl_real (s_flags s)) (fl_ignore_priv (s_flags s)).

Definition t_sout (o : sout) : tree :=
  match o with SOk => L [I 0] | SHalt => L [I 0] | SErr e => L [I 2; I (simerr_code e)] end.
Definition t_aobs (o : sout) (a : astate) : tree :=
  L [t_sout o; I (a_pc a); I (a_psr a); I (a_ssp a); t_zs (a_regs a); t_bool (a_mcr a); t_list t_dev (a_devs a)].

Fixpoint ins_z (x : Z * Z) (l : list (Z * Z)) : list (Z * Z) :=
  match l with [] => [x] | y :: r => if fst x <? fst y then x :: l else y :: ins_z x r end.
Definition amem_diff (m0 m1 : amem) : tree :=
  let changed := PositiveMap.fold (fun k v acc =>
                    let a := Zpos k - 1 in
                    if amget m0 a =? v then acc else ins_z (a, v) acc) (am_over m1) [] in
  t_list (fun p => L [I (fst p); I (snd p)]) changed.

Fixpoint aruns (a : astate) (es : list env) (acc : list tree) : astate * list tree :=
  match es with
  | [] => (a, rev acc)
  | e :: r => let '(a', o) := spec_step e a in aruns a' r (t_aobs o a' :: acc)
  end.

Definition op_isa_run (t : tree) : tree :=
  match t with
  | L [st; L es] =>
      match as_state st, map_opt as_env es with
      | Some s, Some es =>
          let a := abs s in
          let '(a', obs) := aruns a es [] in
          L [L obs; amem_diff (a_mem a) (a_mem a')]
      | _, _ => t_bad
      end
  | _ => t_bad
  end.

Definition ops : op_table := [ ("isa.run"%string, op_isa_run) ].
