(* Link.v — model of the linker of src/asm.rs: `ObjectFile::link`, `ObjectFile::get_mut`,
   `DebugSymbols::link`, `get_external_symbol`, `addr_iter`, the label / line queries of
   `SymbolTable` as applied to linked objects, and the external-symbol check at the head of
   `Simulator::load_obj_file` (src/sim.rs).

   Data model: Obj.v.  BTreeMaps are key-sorted lists (always strictly sorted when they come
   from the implementation); HashMaps are association lists with unique keys, iterated here in
   list order (the wire hands them over sorted; the implementation iterates in arbitrary order —
   the result of `link` does not depend on it except for WHICH conflicting label is reported,
   so the wire prints the error kind and the number of spans only).
   The harness is built with overflow checks, so `u16`/`usize` `+` panics on overflow: every
   such site is an explicit panic outcome here.  The model follows the repaired code
   (relocation sites recorded after pass 1; label positions of the second file shifted;
   OverlappingBlocks errors carry the span 0..0). *)
From Coq Require Import ZArith List Bool String.
From Model Require Import Tree Bits Text SourceInfo Obj.
Import ListNotations.
Open Scope Z_scope.

Definition usize_max : Z := 18446744073709551615.

Inductive link_kind := OverlappingBlocks | OverlappingLabels.
Inductive link_result :=
| LOk (o : objfile)
| LErr (k : link_kind) (spans : list (Z * Z))
| LPanic.

Definition blocks := list (Z * list (option Z)).
Definition zlen {A} (l : list A) : Z := Z.of_nat (List.length l).

(* ---------- block_map: insertion of B's blocks, duplicate start = error ---------- *)
(* BTreeMap::insert on the key-sorted list; None when the key is already present *)
Fixpoint bt_insert {V} (k : Z) (v : V) (l : list (Z * V)) : option (list (Z * V)) :=
  match l with
  | [] => Some [(k, v)]
  | (k', v') :: r =>
      if k <? k' then Some ((k, v) :: l)
      else if k =? k' then None
      else match bt_insert k v r with Some r' => Some ((k', v') :: r') | None => None end
  end.
Fixpoint insert_blocks (bs acc : blocks) : option blocks :=
  match bs with
  | [] => Some acc
  | (k, v) :: r => match bt_insert k v acc with Some acc' => insert_blocks r acc' | None => None end
  end.

(* ---------- the adjacent-pair overlap check, asm.rs `zip(first, second).any(..)` ----------
   ar = a_st .. a_st + len as u16 (u16 `+`: panic on overflow), ranges_overlap(ar, br) =
   a_st < b_end && b_st < a_end; `any` stops at the first overlapping pair. *)
Inductive adj := AdjOk | AdjOverlap | AdjPanic.
Fixpoint adj_check (l : blocks) : adj :=
  match l with
  | (a_st, a_bl) :: r =>
      match r with
      | (b_st, b_bl) :: _ =>
          let a_end := a_st + wrap16 (zlen a_bl) in
          if 65535 <? a_end then AdjPanic else
          let b_end := b_st + wrap16 (zlen b_bl) in
          if 65535 <? b_end then AdjPanic else
          if (a_st <? b_end) && (b_st <? a_end) then AdjOverlap else adj_check r
      | [] => AdjOk
      end
  | [] => AdjOk
  end.

(* ---------- get_mut + replace ----------
   `block_map.range_mut(..=addr).next_back()` = the LAST block whose start is <= addr (only that
   one is tried), then `block.get_mut(addr.wrapping_sub(start) as usize)`. *)
Fixpoint set_nth {A} (l : list A) (n : nat) (x : A) : option (list A) :=
  match l, n with
  | [], _ => None
  | _ :: r, O => Some (x :: r)
  | y :: r, S n' => match set_nth r n' x with Some r' => Some (y :: r') | None => None end
  end.
Fixpoint set_word (bs : blocks) (addr v : Z) : option blocks :=
  match bs with
  | [] => None
  | (s, ws) :: r =>
      let here := if s <=? addr
                  then match set_nth ws (Z.to_nat (addr - s)) (Some v) with
                       | Some ws' => Some ((s, ws') :: r) | None => None end
                  else None in
      match r with
      | (s', _) :: _ =>
          if s' <=? addr
          then match set_word r addr v with Some r' => Some ((s, ws) :: r') | None => None end
          else here
      | [] => here
      end
  end.
(* the relocation loop at the end of `link`; None = the `unreachable!` at asm.rs (address not bound) *)
Fixpoint apply_relocs (bs : blocks) (rs : list (Z * Z)) : option blocks :=
  match rs with
  | [] => Some bs
  | (addr, v) :: r => match set_word bs addr v with Some bs' => apply_relocs bs' r | None => None end
  end.

(* ---------- label_map / rel_map ---------- *)
Fixpoint lookup {V} (k : str) (l : list (str * V)) : option V :=
  match l with
  | [] => None
  | (k', v) :: r => if str_eqb k k' then Some v else lookup k r
  end.
(* OccupiedEntry::insert *)
Fixpoint replace_key {V} (k : str) (v : V) (l : list (str * V)) : list (str * V) :=
  match l with
  | [] => []
  | (k', v') :: r => if str_eqb k k' then (k', v) :: r else (k', v') :: replace_key k v r
  end.
(* HashMap<u16, String>::extend: later entries replace earlier ones with the same key *)
Fixpoint rel_put (k : Z) (v : str) (l : list (Z * str)) : list (Z * str) :=
  match l with
  | [] => [(k, v)]
  | (k', v') :: r => if k =? k' then (k, v) :: r else (k', v') :: rel_put k v r
  end.
Definition rel_extend (a b : list (Z * str)) : list (Z * str) :=
  fold_left (fun acc p => rel_put (fst p) (snd p) acc) b a.

(* SymbolData::span: src_start .. src_start + label.len()  (usize `+`) *)
Definition sym_span (d : symdata) (label : str) : option (Z * Z) :=
  let e := sd_src_start d + byte_len label in
  if usize_max <? e then None else Some (sd_src_start d, e).

(* `b_sym_data.src_start.saturating_add(b_src_shift)` *)
Definition shift_sym (sh : Z) (d : symdata) : symdata :=
  mkSym (sd_addr d) (Z.min (sd_src_start d + sh) usize_max) (sd_external d).

Inductive mres :=
| MOk (labels : list (str * symdata)) (rel : list (Z * str)) (relocs : list (Z * Z))
| MErr (spans : list (Z * Z))
| MPanic.

(* `for (label, b_sym_data) in label_map { match a_sym.label_map.entry(label) { .. } }` *)
Fixpoint merge_labels (bl al : list (str * symdata)) (rel : list (Z * str)) (relocs : list (Z * Z)) : mres :=
  match bl with
  | [] => MOk al rel relocs
  | (name, bd) :: r =>
      match lookup name al with
      | None => merge_labels r ((name, bd) :: al) rel relocs                     (* Entry::Vacant *)
      | Some ad =>
          match sd_external ad, sd_external bd with
          | true, true => merge_labels r al rel relocs
          | false, false =>
              if sd_addr ad =? sd_addr bd then merge_labels r al rel relocs
              else match sym_span ad name, sym_span bd name with
                   | Some sa, Some sb => MErr [sa; sb]
                   | _, _ => MPanic
                   end
          | ea, _ =>
              let linked := if ea then bd else ad in
              let hit := filter (fun p => str_eqb (snd p) name) rel in
              let rest := filter (fun p => negb (str_eqb (snd p) name)) rel in
              merge_labels r (replace_key name linked al) rest
                           (relocs ++ map (fun p => (fst p, sd_addr linked)) hit)
          end
      end
  end.

(* ---------- DebugSymbols::link ---------- *)
(* BTreeMap insert-or-replace *)
Fixpoint bt_put {V} (k : Z) (v : V) (l : list (Z * V)) : list (Z * V) :=
  match l with
  | [] => [(k, v)]
  | (k', v') :: r =>
      if k <? k' then (k, v) :: l
      else if k =? k' then (k, v) :: r
      else (k', v') :: bt_put k v r
  end.
(* None = panic: `k + lines` overflows usize *)
Definition debug_link (a b : debug_symbols) : option debug_symbols :=
  let lines := count_lines (ds_src a) in
  if existsb (fun p => usize_max <? fst p + lines) (ds_lines b) then None
  else Some (mkDebug (fold_left (fun acc p => bt_put (fst p + lines) (snd p) acc) (ds_lines b) (ds_lines a))
                     (ds_src a ++ [10] ++ ds_src b)).

(* ---------- ObjectFile::link ---------- *)
Definition no_source : Z * Z := (0, 0).

Definition link_sym (bs : blocks) (sa sb : symtab) : link_result :=
  let shift := match st_debug sa, st_debug sb with
               | Some da, Some _ => byte_len (ds_src da) + 1
               | _, _ => 0
               end in
  let dbg := match st_debug sa, st_debug sb with
             | Some da, Some db => match debug_link da db with Some d => Some (Some d) | None => None end
             | Some da, None => Some (Some da)
             | None, x => Some x
             end in
  match dbg with
  | None => LPanic
  | Some dbg =>
      let rel := rel_extend (st_rel sa) (st_rel sb) in
      match merge_labels (map (fun p => (fst p, shift_sym shift (snd p))) (st_labels sb)) (st_labels sa) rel [] with
      | MPanic => LPanic
      | MErr sp => LErr OverlappingLabels sp
      | MOk labels rel' relocs =>
          match apply_relocs bs relocs with
          | None => LPanic
          | Some bs' => LOk (mkObj bs' (Some (mkSymtab labels rel' dbg)))
          end
      end
  end.

Definition link (a b : objfile) : link_result :=
  match insert_blocks (o_blocks b) (o_blocks a) with
  | None => LErr OverlappingBlocks [no_source]
  | Some bs =>
      match adj_check bs with
      | AdjPanic => LPanic
      | AdjOverlap => LErr OverlappingBlocks [no_source]
      | AdjOk =>
          match o_sym a, o_sym b with
          | Some sa, Some sb => link_sym bs sa sb
          | Some sa, None => LOk (mkObj bs (Some sa))
          | None, sb => LOk (mkObj bs sb)
          end
      end
  end.

(* ---------- get_external_symbol and the head of load_obj_file ---------- *)
Definition has_external (o : objfile) : bool :=
  match o_sym o with
  | Some st => existsb (fun p => sd_external (snd p)) (st_labels st)
  | None => false
  end.
Inductive load_check_result := LoadOk | LoadUnresolvedExternal.
Definition load_check (o : objfile) : load_check_result :=
  if has_external o then LoadUnresolvedExternal else LoadOk.

(* ---------- addr_iter ---------- *)
Fixpoint block_addrs (s : Z) (ws : list (option Z)) (i : Z) : list (Z * option Z) :=
  match ws with
  | [] => []
  | w :: r => (wrap16 (s + i), w) :: block_addrs s r (i + 1)
  end.
Definition addr_iter (o : objfile) : list (Z * option Z) :=
  flat_map (fun b => block_addrs (fst b) (snd b) 0) (o_blocks o).

(* ---------- label and line queries ---------- *)
Definition lookup_label (st : symtab) (l : str) : option Z :=
  option_map sd_addr (lookup (upper l) (st_labels st)).
(* `self.label_map.get(&label.to_uppercase()).map(|data| data.span(label))`;
   outer None = panic in span *)
Definition get_label_source (st : symtab) (l : str) : option (option (Z * Z)) :=
  match lookup (upper l) (st_labels st) with
  | None => Some None
  | Some d => match sym_span d l with Some sp => Some (Some sp) | None => None end
  end.

Fixpoint index_of (x : Z) (l : list Z) (i : Z) : option Z :=
  match l with
  | [] => None
  | y :: r => if x =? y then Some i else index_of x r (i + 1)
  end.
(* LineSymbolMap::find: the first run (in line order) that holds the address, the position in
   the run by binary search — modelled as the first occurrence, which is what binary search
   returns on runs without repeated addresses (LineRunsStrict, checked by the harness before
   comparing). *)
Fixpoint line_find (m : linemap) (addr : Z) : option Z :=
  match m with
  | [] => None
  | (k, ws) :: r => match index_of addr ws 0 with Some o => Some (k + o) | None => line_find r addr end
  end.
Definition rev_lookup_line (st : symtab) (addr : Z) : option Z :=
  match st_debug st with Some d => line_find (ds_lines d) addr | None => None end.
(* rev_lookup_line followed by source_info().read_line *)
Definition line_text_at (st : symtab) (addr : Z) : option (Z * option str) :=
  match st_debug st with
  | Some d => match line_find (ds_lines d) addr with
              | Some ln => Some (ln, read_line (ds_src d) ln)
              | None => None
              end
  | None => None
  end.

(* ---------- the object invariant, as a boolean the harness evaluates on every object ---------- *)
Fixpoint blocks_ok (lo : Z) (bs : blocks) : bool :=
  match bs with
  | [] => true
  | (s, ws) :: r => (lo <=? s) && (0 <? zlen ws) && (s + zlen ws <=? 65535) && blocks_ok (s + zlen ws) r
  end.
(* the memory image as a map: the content of the first block covering the address *)
Fixpoint img_blocks (bs : blocks) (addr : Z) : option (option Z) :=
  match bs with
  | [] => None
  | (s, ws) :: r =>
      if (s <=? addr) && (addr <? s + zlen ws) then nth_error ws (Z.to_nat (addr - s))
      else img_blocks r addr
  end.
Fixpoint nodup_str (l : list str) : bool :=
  match l with [] => true | x :: r => negb (existsb (str_eqb x) r) && nodup_str r end.
Fixpoint nodup_z (l : list Z) : bool :=
  match l with [] => true | x :: r => negb (existsb (Z.eqb x) r) && nodup_z r end.
Definition is_external (labels : list (str * symdata)) (n : str) : bool :=
  match lookup n labels with Some d => sd_external d | None => false end.
Definition covered (bs : blocks) (addr : Z) : bool :=
  match img_blocks bs addr with Some _ => true | None => false end.
(* line runs: sorted, non-empty, non-overlapping, inside the text; every address of a run lies in the image *)
Fixpoint lines_ok (lo nlines : Z) (bs : blocks) (m : linemap) : bool :=
  match m with
  | [] => true
  | (k, ws) :: r => (lo <=? k) && (0 <? zlen ws) && (k + zlen ws <=? nlines) && forallb (covered bs) ws && lines_ok (k + zlen ws) nlines bs r
  end.
Definition symtab_ok (bs : blocks) (st : symtab) : bool :=
  nodup_str (map fst (st_labels st))
  && nodup_z (map fst (st_rel st))
  && forallb (fun p => is_external (st_labels st) (snd p) && covered bs (fst p)) (st_rel st)
  && forallb (fun p => negb (sd_external (snd p)) || (sd_addr (snd p) =? 0)) (st_labels st)
  && match st_debug st with
     | Some d => lines_ok 0 (count_lines (ds_src d)) bs (ds_lines d)
     | None => true
     end.
Definition obj_inv_b (o : objfile) : bool :=
  blocks_ok 0 (o_blocks o)
  && match o_sym o with Some st => symtab_ok (o_blocks o) st | None => true end.

(* line runs without repeated addresses (domain of the rev_lookup_line comparison) *)
Definition lines_strict_b (o : objfile) : bool :=
  match o_sym o with
  | Some st => match st_debug st with
               | Some d => nodup_z (flat_map snd (ds_lines d))
               | None => true
               end
  | None => true
  end.

(* every label's recorded position lies in the source and spells the label there (case-insensitively) *)
Definition label_spans_ok_b (o : objfile) : bool :=
  match o_sym o with
  | Some st => match st_debug st with
               | Some d => forallb (fun p => (0 <=? sd_src_start (snd p))
                                             && (sd_src_start (snd p) + byte_len (fst p) <=? byte_len (ds_src d))
                                             && str_eqb (upper (substr (ds_src d) (sd_src_start (snd p)) (sd_src_start (snd p) + byte_len (fst p)))) (fst p))
                                   (st_labels st)
               | None => true
               end
  | None => true
  end.

(* C21: what the assembler owes the linker for a program whose `.fill` sites of declared-but-
   undefined externals are `sites` (address, upper-cased label): the symbol table is present,
   the label is flagged external, the site has a relocation entry *)
Definition ext_sites_recorded_b (o : objfile) (sites : list (Z * str)) : bool :=
  match o_sym o with
  | Some st => forallb (fun s => is_external (st_labels st) (snd s)
                                 && existsb (fun p => (fst p =? fst s) && str_eqb (snd p) (snd s)) (st_rel st)) sites
  | None => match sites with [] => true | _ => false end
  end.

(* ---------- wire ---------- *)
Definition t_link_result (r : link_result) : tree :=
  match r with
  | LOk o => t_ok [t_obj o]
  | LErr k sp => t_err [I (match k with OverlappingBlocks => 0 | OverlappingLabels => 1 end); I (zlen sp)]
  | LPanic => t_panic
  end.
Definition t_span2 (p : Z * Z) : tree := L [I (fst p); I (snd p)].
Definition as_site (t : tree) : option (Z * str) :=
  match t with L [I a; n] => option_map (pair a) (as_zs n) | _ => None end.

Definition ops : op_table :=
  [ ("link.link"%string, fun t =>
       match t with
       | L [a; b] => match as_obj a, as_obj b with
                     | Some a', Some b' => t_link_result (link a' b')
                     | _, _ => t_bad end
       | _ => t_bad end);
    ("link.load_check"%string, fun t =>
       match as_obj t with
       | Some o => match load_check o with LoadOk => t_ok [] | LoadUnresolvedExternal => t_err [I 0] end
       | None => t_bad end);
    ("link.addr_iter"%string, fun t =>
       match as_obj t with
       | Some o => t_list (fun p => L [I (fst p); t_opt I (snd p)]) (addr_iter o)
       | None => t_bad end);
    ("link.obj_inv"%string, fun t =>
       match as_obj t with Some o => t_bool (obj_inv_b o) | None => t_bad end);
    ("link.label_spans_ok"%string, fun t =>
       match as_obj t with Some o => t_bool (label_spans_ok_b o) | None => t_bad end);
    ("link.ext_sites"%string, fun t =>
       match t with
       | L [o; s] => match as_obj o, as_list as_site s with
                     | Some o', Some s' => t_bool (ext_sites_recorded_b o' s')
                     | _, _ => t_bad end
       | _ => t_bad end);
    ("link.lookup_label"%string, fun t =>
       match t with
       | L [o; n] => match as_obj o, as_zs n with
                     | Some o', Some n' => match o_sym o' with
                                           | Some st => t_opt I (lookup_label st n')
                                           | None => t_bad end
                     | _, _ => t_bad end
       | _ => t_bad end);
    ("link.label_source"%string, fun t =>
       match t with
       | L [o; n] => match as_obj o, as_zs n with
                     | Some o', Some n' => match o_sym o' with
                                           | Some st => match get_label_source st n' with
                                                        | Some r => t_ok [t_opt t_span2 r]
                                                        | None => t_panic end
                                           | None => t_bad end
                     | _, _ => t_bad end
       | _ => t_bad end);
    ("link.line_text"%string, fun t =>
       match t with
       | L [o; I addr] => match as_obj o with
                          | Some o' => match o_sym o' with
                                       | Some st => t_opt (fun p => L [I (fst p); t_opt t_zs (snd p)]) (line_text_at st addr)
                                       | None => t_bad end
                          | None => t_bad end
       | _ => t_bad end) ].
