(* Load.v — model of `Simulator::new` (new_with_mcr + load_os), `load_obj_file`,
   `MemArray::copy_obj_block` and `reset` (src/sim.rs, src/sim/mem.rs).
   The machine-initialisation filler is an input: [fill] is the value of a `Known` strategy
   (seeded/unseeded fillers are outside the model; see DESIGN.md C31). *)
From Coq Require Import ZArith List Bool String FMapPositive.
From Gen Require Import Constants OsImage.
From Model Require Import Tree Bits Word Instr Sim.
Import ListNotations.
Open Scope Z_scope.

(* chunk_by(|a,b| a.is_some() == b.is_some()) *)
Fixpoint chunk_by_some (l : list (option Z)) : list (list (option Z)) :=
  match l with
  | [] => []
  | x :: r =>
      match chunk_by_some r with
      | (y :: c) :: cs =>
          if Bool.eqb (match x with Some _ => true | None => false end)
                      (match y with Some _ => true | None => false end)
          then (x :: y :: c) :: cs else [x] :: (y :: c) :: cs
      | cs => [x] :: cs
      end
  end.

(* write the words of one chunk at start, start+1, ... (mod 2^16) *)
Fixpoint write_chunk (m : mem) (start : Z) (c : list (option Z)) : mem :=
  match c with
  | [] => m
  | Some v :: r => write_chunk (mset m start (new_init v)) (wrap16 (start + 1)) r
  | None :: r => write_chunk (mset m start (clear_init (mget m start))) (wrap16 (start + 1)) r
  end.

(* copy_obj_block: an initialised chunk of 65536 or more words makes `copy_from_slice` panic
   (slice lengths differ); a reserved chunk of that size does not: `chunk.len() as u16` words
   are cleared.  (No public API builds such a chunk: both file formats store block lengths in
   16 bits; exercised through the verif_from_blocks hook.) *)
Fixpoint copy_chunks (m : mem) (start : Z) (cs : list (list (option Z))) : option mem :=
  match cs with
  | [] => Some m
  | c :: r =>
      let len := Z.of_nat (List.length c) in
      if 65536 <=? len then
        match c with
        | Some _ :: _ => None
        | _ => copy_chunks (write_chunk m start (firstn (Z.to_nat (wrap16 len)) c)) (wrap16 (start + len)) r
        end
      else copy_chunks (write_chunk m start c) (wrap16 (start + len)) r
  end.
Definition copy_obj_block (m : mem) (start : Z) (data : list (option Z)) : option mem :=
  copy_chunks m start (chunk_by_some data).

Definition alloca_of (start : Z) (n : Z) : list (Z * Z) :=
  let len := wrap16 n in
  let e := wrap16 (start + len) in
  if start <? e then [(start, len)]
  else if start =? e then []
  else (start, wrap16 (- start)) :: (if e =? 0 then [] else [(0, e)]).

(* stable sort by start (insertion keeps equal keys in order) *)
Fixpoint ins_alloca (x : Z * Z) (l : list (Z * Z)) : list (Z * Z) :=
  match l with
  | [] => [x]
  | y :: r => if fst x <? fst y then x :: l else y :: ins_alloca x r
  end.
Definition sort_alloca (l : list (Z * Z)) : list (Z * Z) := fold_left (fun acc x => ins_alloca x acc) l [].

Inductive load_res := LoadOk (s : sim) | LoadUnresolved | LoadPanic.

Fixpoint load_blocks (m : mem) (bs : list (Z * list (option Z))) (al : list (Z * Z)) : option (mem * list (Z * Z)) :=
  match bs with
  | [] => Some (m, al)
  | (start, ws) :: r =>
      match copy_obj_block m start ws with
      | None => None
      | Some m' => load_blocks m' r (al ++ alloca_of start (Z.of_nat (List.length ws)))
      end
  end.

(* has_external: whether the object's symbol table declares an external label *)
Definition load_obj (s : sim) (blocks : list (Z * list (option Z))) (has_external : bool) : load_res :=
  if has_external then LoadUnresolved
  else match load_blocks (s_mem s) blocks [] with
       | None => LoadPanic
       | Some (m, al) => LoadOk (upd_alloca (upd_mem s m) (sort_alloca al))
       end.

Fixpoint fill_io (m : PositiveMap.t word) (a : Z) (n : nat) : PositiveMap.t word :=
  match n with O => m | S k => fill_io (PositiveMap.add (mkey a) (new_init 0) m) (a + 1) k end.

Definition default_ireg : list (Z * ireg) := [(sim.PSR_ADDR, RegPSR); (sim.MCR_ADDR, RegMCR)].

(* Simulator::new(flags) with machine_init = Known { value: fill }; the device handler is the
   default one (no keyboard, no display) and MCR is false *)
Definition new_sim_devs (fl : flags) (fill : Z) (mcr : bool) (ir : list (Z * ireg)) (devs : list dev) : sim :=
  let m0 := mkMem (fill_io (PositiveMap.empty word) IO_START (Z.to_nat (65536 - IO_START))) (new_uninit fill) in
  let s0 := mkSim m0 (repeat (new_uninit fill) 8) 12288 32770 (new_init 12288) 0
                  (if fl_debug_frames fl then Some [] else None) [] [] 0 false [] mcr fl ir devs in
  match load_obj s0 os_blocks false with
  | LoadOk s => s
  | _ => s0
  end.
Definition new_sim (fl : flags) (fill : Z) : sim :=
  new_sim_devs fl fill false default_ireg [DNull; DNull; DNull].

(* io_reset of every device: keyboard clears its queue (unless locked) and disables
   interrupts; display clears its buffer (unless locked); a timer draws a new time *)
Fixpoint reset_devs (e : env) (ds : list dev) (draws : list Z) : list dev :=
  match ds with
  | [] => []
  | DKb q _ :: r => DKb (if e_kb_locked e then q else []) false :: reset_devs e r draws
  | DDs b :: r => DDs (if e_ds_locked e then b else []) :: reset_devs e r draws
  | DTimer t :: r =>
      match draws with
      | x :: dr => DTimer (mkTimer (t_enabled t) (t_lo t) (t_hi t) x (t_vect t) (t_prio t)) :: reset_devs e r dr
      | [] => DTimer t :: reset_devs e r []
      end
  | d :: r => d :: reset_devs e r draws
  end.

(* reset: a new simulator with the same flags and MCR cell, keeping breakpoints (Run.v),
   internal-register mappings and devices (which receive io_reset) *)
Definition reset (e : env) (s : sim) (fill : Z) : sim :=
  new_sim_devs (s_flags s) fill (s_mcr s) (s_ireg s) (reset_devs e (s_devs s) (e_draws e)).
