(* Obj.v — data model of `ObjectFile`, `SymbolTable`, `SymbolData`, `DebugSymbols`,
   `LineSymbolMap` (src/asm.rs), shared by the assembler, linker, object formats and loader.
   HashMaps are association lists with unique keys (any order; canonical wire form is sorted),
   BTreeMaps are lists sorted by key. *)
From Coq Require Import ZArith List Bool String.
From Model Require Import Tree Text.
Import ListNotations.
Open Scope Z_scope.

Record symdata := mkSym { sd_addr : Z; sd_src_start : Z; sd_external : bool }.

(* LineSymbolMap(BTreeMap<usize, Vec<u16>>): (first source line of the run, addresses) sorted by line *)
Definition linemap := list (Z * list Z).

Record debug_symbols := mkDebug { ds_lines : linemap; ds_src : str }.

Record symtab := mkSymtab {
  st_labels : list (str * symdata);     (* label_map : HashMap<String, SymbolData>, keys upper-cased *)
  st_rel : list (Z * str);              (* rel_map : HashMap<u16, String> *)
  st_debug : option debug_symbols
}.

Record objfile := mkObj {
  o_blocks : list (Z * list (option Z));   (* block_map : BTreeMap<u16, Vec<Option<u16>>> *)
  o_sym : option symtab
}.

(* ---------- sorted insertion helpers (canonical order for the wire) ---------- *)
Fixpoint insert_by {A} (ltb : A -> A -> bool) (x : A) (l : list A) : list A :=
  match l with
  | [] => [x]
  | y :: r => if ltb x y then x :: l else y :: insert_by ltb x r
  end.
Definition sort_by {A} (ltb : A -> A -> bool) (l : list A) : list A := fold_right (insert_by ltb) [] l.

(* ---------- wire ---------- *)
Definition t_symdata (d : symdata) : tree := L [I (sd_addr d); I (sd_src_start d); t_bool (sd_external d)].
Definition as_symdata (t : tree) : option symdata :=
  match t with
  | L [I a; I s; e] => match as_bool e with Some e' => Some (mkSym a s e') | None => None end
  | _ => None
  end.
Definition t_linemap (m : linemap) : tree := t_list (fun p => L [I (fst p); t_zs (snd p)]) m.
Definition as_linemap (t : tree) : option linemap :=
  as_list (fun x => match x with L [I k; v] => option_map (pair k) (as_zs v) | _ => None end) t.
Definition t_debug (d : debug_symbols) : tree := L [t_linemap (ds_lines d); t_zs (ds_src d)].
Definition as_debug (t : tree) : option debug_symbols :=
  match t with
  | L [m; s] => match as_linemap m, as_zs s with Some m', Some s' => Some (mkDebug m' s') | _, _ => None end
  | _ => None
  end.
Definition t_symtab (s : symtab) : tree :=
  L [ t_list (fun p => L [t_zs (fst p); t_symdata (snd p)]) (sort_by (fun a b => str_ltb (fst a) (fst b)) (st_labels s));
      t_list (fun p => L [I (fst p); t_zs (snd p)]) (sort_by (fun a b => fst a <? fst b) (st_rel s));
      t_opt t_debug (st_debug s) ].
Definition as_symtab (t : tree) : option symtab :=
  match t with
  | L [ls; rs; d] =>
      match as_list (fun x => match x with L [k; v] => match as_zs k, as_symdata v with Some k', Some v' => Some (k', v') | _, _ => None end | _ => None end) ls,
            as_list (fun x => match x with L [I k; v] => option_map (pair k) (as_zs v) | _ => None end) rs,
            as_opt as_debug d with
      | Some ls', Some rs', Some d' => Some (mkSymtab ls' rs' d')
      | _, _, _ => None
      end
  | _ => None
  end.
Definition t_block (b : Z * list (option Z)) : tree := L [I (fst b); t_list (t_opt I) (snd b)].
Definition as_block (t : tree) : option (Z * list (option Z)) :=
  match t with
  | L [I a; ws] => option_map (pair a) (as_list (as_opt as_z) ws)
  | _ => None
  end.
Definition t_obj (o : objfile) : tree := L [t_list t_block (o_blocks o); t_opt t_symtab (o_sym o)].
Definition as_obj (t : tree) : option objfile :=
  match t with
  | L [bs; s] => match as_list as_block bs, as_opt as_symtab s with Some b, Some s' => Some (mkObj b s') | _, _ => None end
  | _ => None
  end.
