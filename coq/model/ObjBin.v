(* ObjBin.v — model of `BinaryFormat::{serialize,deserialize}` (src/asm/encoding.rs) with its
   helpers `take/take_slice/map_chunks/assert_sorted_no_dup/check_relocations`, of
   `LineSymbolMap::{new,from_blocks}` (src/asm.rs) and of `String::from_utf8`.
   Bytes, lengths and offsets are Z; `usize` is 64 bits (`u64 as usize` is the identity).
   Every Rust panic site of the reader is an explicit `RPanic` (proved unreachable in
   proofs/ObjBinProofs.v); running out of fuel is `RPanic` as well, so "never panics" also says
   that the fuel always suffices.  No proofs here. *)
From Coq Require Import ZArith List Bool String.
From Model Require Import Tree Text Obj.
Import ListNotations.
Open Scope Z_scope.

(* result of a reader: object / rejected (`None`) / Rust panic *)
Inductive rd (A : Type) : Type := ROk (a : A) | RNone | RPanic.
Arguments ROk {A} a.
Arguments RNone {A}.
Arguments RPanic {A}.

Definition rd_bind {A B} (r : rd A) (f : A -> rd B) : rd B :=
  match r with ROk a => f a | RNone => RNone | RPanic => RPanic end.
Definition of_opt {A} (o : option A) : rd A := match o with Some a => ROk a | None => RNone end.

Definition USIZE_MAX : Z := 18446744073709551615.   (* 2^64 - 1 *)
Definition ISIZE_MAX : Z := 9223372036854775807.    (* 2^63 - 1 *)

Definition BFMT_MAGIC : list Z := [111; 98; 106; 33; 16].   (* b"obj\x21\x10" *)
Definition BFMT_VER : list Z := [0; 1].

Definition len {A} (l : list A) : Z := Z.of_nat (List.length l).

(* ---------- little-endian integers ---------- *)
Definition u16_le (z : Z) : list Z := [z mod 256; (z / 256) mod 256].
Definition u64_le (z : Z) : list Z :=
  [z mod 256; (z / 256) mod 256; (z / 65536) mod 256; (z / 16777216) mod 256;
   (z / 4294967296) mod 256; (z / 1099511627776) mod 256; (z / 281474976710656) mod 256;
   (z / 72057594037927936) mod 256].
Fixpoint from_le (bs : list Z) : Z :=
  match bs with [] => 0 | b :: r => b + 256 * from_le r end.

(* ---------- UTF-8 validation/decoding (`String::from_utf8`, `str::from_utf8`) ---------- *)
Definition is_scalar (c : Z) : bool :=
  (0 <=? c) && (c <? 1114112) && negb ((55296 <=? c) && (c <=? 57343)).
Definition is_cont (b : Z) : bool := (128 <=? b) && (b <=? 191).

Fixpoint utf8_decode (bs : list Z) : option str :=
  match bs with
  | [] => Some []
  | b0 :: r =>
      if (0 <=? b0) && (b0 <? 128) then option_map (cons b0) (utf8_decode r)
      else if (192 <=? b0) && (b0 <? 224) then
        match r with
        | b1 :: r1 =>
            let c := (b0 - 192) * 64 + (b1 - 128) in
            if is_cont b1 && (128 <=? c) then option_map (cons c) (utf8_decode r1) else None
        | _ => None
        end
      else if (224 <=? b0) && (b0 <? 240) then
        match r with
        | b1 :: b2 :: r2 =>
            let c := (b0 - 224) * 4096 + (b1 - 128) * 64 + (b2 - 128) in
            if is_cont b1 && is_cont b2 && (2048 <=? c) && is_scalar c
            then option_map (cons c) (utf8_decode r2) else None
        | _ => None
        end
      else if (240 <=? b0) && (b0 <? 248) then
        match r with
        | b1 :: b2 :: b3 :: r3 =>
            let c := (b0 - 240) * 262144 + (b1 - 128) * 4096 + (b2 - 128) * 64 + (b3 - 128) in
            if is_cont b1 && is_cont b2 && is_cont b3 && (65536 <=? c) && is_scalar c
            then option_map (cons c) (utf8_decode r3) else None
        | _ => None
        end
      else None
  end.

(* ---------- take / take_slice / map_chunks ---------- *)
(* take_slice(data, n): None when n > data.len() (n may be as large as 2^64-1) *)
Definition take_slice (n : Z) (bs : list Z) : option (list Z * list Z) :=
  if (n <? 0) || (len bs <? n) then None
  else Some (firstn (Z.to_nat n) bs, skipn (Z.to_nat n) bs).
(* take::<N>: take_slice then `<[_; N]>::try_from(slice).unwrap()` (the slice has length N) *)
Definition take_int (n : Z) (bs : list Z) : rd (Z * list Z) :=
  match take_slice n bs with
  | None => RNone
  | Some (l, r) => if len l =? n then ROk (from_le l, r) else RPanic
  end.

(* map_chunks::<_, 3> with |[init, rest @ ..]| (init == 0xFF).then(|| u16::from_le_bytes(rest));
   `assert_eq!(data.len() % N, 0)` is the RPanic *)
Fixpoint chunks3 (bs : list Z) : rd (list (option Z)) :=
  match bs with
  | [] => ROk []
  | i :: a :: b :: r =>
      rd_bind (chunks3 r) (fun ws => ROk ((if i =? 255 then Some (a + 256 * b) else None) :: ws))
  | _ => RPanic
  end.
Fixpoint chunks2 (bs : list Z) : rd (list Z) :=
  match bs with
  | [] => ROk []
  | a :: b :: r => rd_bind (chunks2 r) (fun ws => ROk ((a + 256 * b) :: ws))
  | _ => RPanic
  end.

(* assert_sorted_no_dup: windows(2).all(l < r) *)
Fixpoint strictly_sorted (l : list Z) : bool :=
  match l with
  | a :: ((b :: _) as r) => (a <? b) && strictly_sorted r
  | _ => true
  end.
Fixpoint weakly_sorted (l : list Z) : bool :=
  match l with
  | a :: ((b :: _) as r) => (a <=? b) && weakly_sorted r
  | _ => true
  end.

(* ---------- maps ---------- *)
(* BTreeMap::insert: sorted by key, an equal key is replaced *)
Fixpoint bt_insert {V} (k : Z) (v : V) (m : list (Z * V)) : list (Z * V) :=
  match m with
  | [] => [(k, v)]
  | (k', v') :: r =>
      if k <? k' then (k, v) :: m
      else if k =? k' then (k, v) :: r
      else (k', v') :: bt_insert k v r
  end.
Fixpoint bt_mem {V} (k : Z) (m : list (Z * V)) : bool :=
  match m with [] => false | (k', _) :: r => (k =? k') || bt_mem k r end.
(* HashMap::insert: an existing key keeps its place and gets the new value, a new key goes last
   (the place is a modelling artefact: the wire sorts, the theorems are up to permutation) *)
Fixpoint hm_insert {K V} (eqb : K -> K -> bool) (k : K) (v : V) (m : list (K * V)) : list (K * V) :=
  match m with
  | [] => [(k, v)]
  | (k', v') :: r => if eqb k k' then (k, v) :: r else (k', v') :: hm_insert eqb k v r
  end.
Fixpoint hm_get {K V} (eqb : K -> K -> bool) (k : K) (m : list (K * V)) : option V :=
  match m with
  | [] => None
  | (k', v') :: r => if eqb k k' then Some v' else hm_get eqb k r
  end.

(* ---------- LineSymbolMap ---------- *)
(* from_blocks on blocks already sorted by (distinct) line number, as a BTreeMap iterates them.
   Repaired code: every block must end at or before isize::MAX (checked_add), then
   `ls + lb.len() <= rs` for neighbours (the `+` is a panic site under overflow checks), then
   every block weakly sorted. *)
Fixpoint no_overlap (bl : linemap) : rd bool :=
  match bl with
  | (ls, lb) :: (((rs, _) :: _) as r) =>
      if USIZE_MAX <? ls + len lb then RPanic
      else if ls + len lb <=? rs then no_overlap r else ROk false
  | _ => ROk true
  end.
Definition lsm_from_blocks (bl : linemap) : rd linemap :=
  if negb (forallb (fun b => fst b + len (snd b) <=? ISIZE_MAX) bl) then RNone
  else rd_bind (no_overlap bl) (fun ok =>
    if ok then (if forallb (fun b => weakly_sorted (snd b)) bl then ROk bl else RNone)
    else RNone).

(* LineSymbolMap::new: condense a vector of optional addresses into runs; a run is stored when a
   `None` follows it (`blocks.insert(i - bl.len(), bl)`, the `-` is a panic site); a run that
   reaches the end of the vector is dropped, as in the code. *)
Fixpoint lsm_runs (lines : list (option Z)) (i : Z) (cur : option (list Z)) (acc : linemap) : rd linemap :=
  match lines with
  | [] => ROk acc
  | Some a :: r => lsm_runs r (i + 1) (Some (match cur with Some c => c ++ [a] | None => [a] end)) acc
  | None :: r =>
      match cur with
      | Some c => if i - len c <? 0 then RPanic else lsm_runs r (i + 1) None (bt_insert (i - len c) c acc)
      | None => lsm_runs r (i + 1) None acc
      end
  end.
Definition lsm_new (lines : list (option Z)) : rd linemap :=
  rd_bind (lsm_runs lines 0 None []) lsm_from_blocks.

(* ---------- check_relocations (repaired code) ---------- *)
(* block_map.range(..=addr).next_back(): the last block whose start is <= addr *)
Fixpoint block_le {V} (addr : Z) (m : list (Z * V)) : option (Z * V) :=
  match m with
  | [] => None
  | (s, v) :: r => if s <=? addr then match block_le addr r with Some x => Some x | None => Some (s, v) end
                   else None
  end.
Definition reloc_ok (blocks : list (Z * list (option Z))) (addr : Z) : bool :=
  match block_le addr blocks with
  | Some (s, b) => addr - s <? len b
  | None => false
  end.
Definition check_relocations (blocks : list (Z * list (option Z))) (rel : list (Z * str)) : bool :=
  forallb (fun p => reloc_ok blocks (fst p)) rel.

(* ---------- serialize ---------- *)
Definition ser_word (w : option Z) : list Z :=
  match w with Some v => 255 :: u16_le v | None => [0; 0; 0] end.
Definition ser_block (b : Z * list (option Z)) : list Z :=
  0 :: u16_le (fst b) ++ u16_le (len (snd b) mod 65536) ++ flat_map ser_word (snd b).
Definition ser_label (p : str * symdata) : list Z :=
  1 :: u16_le (sd_addr (snd p)) ++ [if sd_external (snd p) then 1 else 0]
    ++ u64_le (sd_src_start (snd p)) ++ u64_le (byte_len (fst p)) ++ utf8_bytes (fst p).
Definition ser_lines (p : Z * list Z) : list Z :=
  2 :: u64_le (fst p) ++ u16_le (len (snd p) mod 65536) ++ flat_map u16_le (snd p).
Definition ser_src (s : str) : list Z := 3 :: u64_le (byte_len s) ++ utf8_bytes s.
Definition ser_rel (p : Z * str) : list Z :=
  4 :: u16_le (fst p) ++ u64_le (byte_len (snd p)) ++ utf8_bytes (snd p).
Definition ser_debug (d : option debug_symbols) : list Z :=
  match d with
  | Some d => flat_map ser_lines (ds_lines d) ++ ser_src (ds_src d)
  | None => []
  end.
Definition ser_sym (s : option symtab) : list Z :=
  match s with
  | Some st => flat_map ser_label (st_labels st) ++ ser_debug (st_debug st) ++ flat_map ser_rel (st_rel st)
  | None => []
  end.
(* labels and relocation entries are written in the order of the lists (= the HashMap iteration
   order of the implementation, which is arbitrary) *)
Definition ser_bin (o : objfile) : list Z :=
  BFMT_MAGIC ++ BFMT_VER ++ flat_map ser_block (o_blocks o) ++ ser_sym (o_sym o).

(* ---------- deserialize ---------- *)
Record bstate := mkB {
  b_blocks : list (Z * list (option Z));
  b_labels : list (str * symdata);
  b_rel : list (Z * str);
  b_dbg : option (linemap * str)
}.
Definition b_init : bstate := mkB [] [] [] None.

Fixpoint strip_prefix (p bs : list Z) : option (list Z) :=
  match p, bs with
  | [], _ => Some bs
  | x :: p', y :: bs' => if x =? y then strip_prefix p' bs' else None
  | _ :: _, [] => None
  end.

Definition dbg_or_default (d : option (linemap * str)) : linemap * str :=
  match d with Some x => x | None => ([], []) end.

(* one chunk: identifier byte [id], body in [bs]; returns the remaining bytes *)
Definition parse_chunk (id : Z) (bs : list Z) (st : bstate) : rd (list Z * bstate) :=
  if id =? 0 then
    rd_bind (take_int 2 bs) (fun '(addr, bs) =>
    rd_bind (take_int 2 bs) (fun '(dlen, bs) =>
    rd_bind (of_opt (take_slice (3 * dlen) bs)) (fun '(raw, bs) =>
    rd_bind (chunks3 raw) (fun data =>
    ROk (bs, mkB (bt_insert addr data (b_blocks st)) (b_labels st) (b_rel st) (b_dbg st))))))
  else if id =? 1 then
    rd_bind (take_int 2 bs) (fun '(addr, bs) =>
    rd_bind (take_int 1 bs) (fun '(ext, bs) =>
    rd_bind (take_int 8 bs) (fun '(src_start, bs) =>
    rd_bind (take_int 8 bs) (fun '(slen, bs) =>
    rd_bind (of_opt (take_slice slen bs)) (fun '(raw, bs) =>
    rd_bind (of_opt (utf8_decode raw)) (fun name =>
    ROk (bs, mkB (b_blocks st) (hm_insert str_eqb name (mkSym addr src_start (negb (ext =? 0))) (b_labels st))
                 (b_rel st) (b_dbg st))))))))
  else if id =? 2 then
    let '(lm, src) := dbg_or_default (b_dbg st) in
    rd_bind (take_int 8 bs) (fun '(lno, bs) =>
    rd_bind (take_int 2 bs) (fun '(dlen, bs) =>
    rd_bind (of_opt (take_slice (2 * dlen) bs)) (fun '(raw, bs) =>
    rd_bind (chunks2 raw) (fun data =>
    if strictly_sorted data
    then ROk (bs, mkB (b_blocks st) (b_labels st) (b_rel st) (Some (bt_insert lno data lm, src)))
    else RNone))))
  else if id =? 3 then
    let '(lm, src) := dbg_or_default (b_dbg st) in
    rd_bind (take_int 8 bs) (fun '(slen, bs) =>
    rd_bind (of_opt (take_slice slen bs)) (fun '(raw, bs) =>
    rd_bind (of_opt (utf8_decode raw)) (fun s =>
    ROk (bs, mkB (b_blocks st) (b_labels st) (b_rel st) (Some (lm, src ++ s))))))
  else if id =? 4 then
    rd_bind (take_int 2 bs) (fun '(addr, bs) =>
    rd_bind (take_int 8 bs) (fun '(slen, bs) =>
    rd_bind (of_opt (take_slice slen bs)) (fun '(raw, bs) =>
    rd_bind (of_opt (utf8_decode raw)) (fun name =>
    ROk (bs, mkB (b_blocks st) (b_labels st) (hm_insert Z.eqb addr name (b_rel st)) (b_dbg st))))))
  else RNone.

(* `while let Some((ident_byte, rest)) = vec.split_first()`; every round consumes at least the
   identifier byte, so [length bs] rounds always suffice (out of fuel = RPanic, never reached) *)
Fixpoint chunk_loop (fuel : nat) (bs : list Z) (st : bstate) : rd bstate :=
  match bs with
  | [] => ROk st
  | id :: body =>
      match fuel with
      | O => RPanic
      | S f => rd_bind (parse_chunk id body st) (fun '(rest, st') => chunk_loop f rest st')
      end
  end.

Definition is_some_dbg (d : option debug_symbols) : bool := match d with Some _ => true | None => false end.
(* the common tail of both readers *)
Definition finish_obj (blocks : list (Z * list (option Z))) (labels : list (str * symdata))
    (rel : list (Z * str)) (dbg : option debug_symbols) : rd objfile :=
  if negb (check_relocations blocks rel) then RNone
  else ROk (mkObj blocks
        (if negb (match labels with [] => true | _ => false end) || is_some_dbg dbg
         then Some (mkSymtab labels rel dbg) else None)).

Definition deser_bin (bs : list Z) : rd objfile :=
  match strip_prefix BFMT_MAGIC bs with
  | None => RNone
  | Some bs1 =>
    match strip_prefix BFMT_VER bs1 with
    | None => RNone
    | Some bs2 =>
      rd_bind (chunk_loop (List.length bs2) bs2 b_init) (fun st =>
      rd_bind (match b_dbg st with
               | Some (lm, src) => rd_bind (lsm_from_blocks lm) (fun lm' => ROk (Some (mkDebug lm' src)))
               | None => ROk None
               end) (fun dbg =>
      finish_obj (b_blocks st) (b_labels st) (b_rel st) dbg))
    end
  end.

(* ---------- ObjInv: what every assembled / linked object satisfies (checked on each by the
   harness) and what the round-trip theorem needs ---------- *)
Definition in_u16 (z : Z) : bool := (0 <=? z) && (z <=? 65535).
Definition valid_str (s : str) : bool := forallb is_scalar s.
Fixpoint nodup_by {K} (eqb : K -> K -> bool) (l : list K) : bool :=
  match l with
  | [] => true
  | k :: r => negb (existsb (eqb k) r) && nodup_by eqb r
  end.
Definition block_inv (b : Z * list (option Z)) : bool :=
  in_u16 (fst b) && (len (snd b) <=? 65535)
  && forallb (fun w => match w with Some v => in_u16 v | None => true end) (snd b).
Definition label_inv (p : str * symdata) : bool :=
  valid_str (fst p) && in_u16 (sd_addr (snd p))
  && (0 <=? sd_src_start (snd p)) && (sd_src_start (snd p) <=? USIZE_MAX)
  && (byte_len (fst p) <=? ISIZE_MAX).
Definition run_inv (p : Z * list Z) : bool :=
  (0 <=? fst p) && (len (snd p) <=? 65535) && (fst p + len (snd p) <=? ISIZE_MAX)
  && forallb in_u16 (snd p) && strictly_sorted (snd p).
Fixpoint runs_disjoint (bl : linemap) : bool :=
  match bl with
  | (ls, lb) :: (((rs, _) :: _) as r) => (ls + len lb <=? rs) && runs_disjoint r
  | _ => true
  end.
Definition debug_inv (d : debug_symbols) : bool :=
  forallb run_inv (ds_lines d) && strictly_sorted (map fst (ds_lines d)) && runs_disjoint (ds_lines d)
  && valid_str (ds_src d) && (byte_len (ds_src d) <=? ISIZE_MAX).
Definition symtab_inv (blocks : list (Z * list (option Z))) (st : symtab) : bool :=
  forallb label_inv (st_labels st) && nodup_by str_eqb (map fst (st_labels st))
  && forallb (fun p => in_u16 (fst p) && valid_str (snd p) && (byte_len (snd p) <=? ISIZE_MAX)) (st_rel st)
  && nodup_by Z.eqb (map fst (st_rel st))
  && check_relocations blocks (st_rel st)
  && (match st_debug st with Some d => debug_inv d | None => true end)
  && (negb (match st_labels st with [] => true | _ => false end) || is_some_dbg (st_debug st)).
Definition obj_inv (o : objfile) : bool :=
  forallb block_inv (o_blocks o) && strictly_sorted (map fst (o_blocks o))
  && (match o_sym o with Some st => symtab_inv (o_blocks o) st | None => true end).

(* ---------- wire ---------- *)
Definition t_rd {A} (f : A -> tree) (r : rd A) : tree :=
  match r with ROk a => t_ok [f a] | RNone => t_err [] | RPanic => t_panic end.

Definition ops : op_table :=
  [ ("objbin.ser"%string, fun t => match as_obj t with Some o => t_zs (ser_bin o) | None => t_bad end);
    ("objbin.inv"%string, fun t => match as_obj t with Some o => t_bool (obj_inv o) | None => t_bad end);
    ("objbin.deser"%string, fun t => match as_zs t with Some bs => t_rd t_obj (deser_bin bs) | None => t_bad end) ].
