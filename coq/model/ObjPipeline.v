(* ObjPipeline.v — the panic sites that an object file (in particular one returned by a reader)
   can reach in `ObjectFile::link`, `DebugSymbols::link`, `SymbolData::span`,
   `ObjectFile::get_mut` (src/asm.rs), `MemArray::copy_obj_block` (src/sim/mem.rs) and
   `Simulator::load_obj_file` (src/sim.rs), as explicit outcomes.  Only "completes (Ok or Err)"
   versus "panics" is modelled here; the functional behaviour of link is model/Link.v.
   The code modelled is the repaired one: block ends in `usize` (link), saturating
   `SymbolData::span`.  No proofs here. *)
From Coq Require Import ZArith List Bool String.
From Model Require Import Tree Text Obj SourceInfo ObjBin.
Import ListNotations.
Open Scope Z_scope.

Inductive pout : Type := Completes | Panics.

(* ---------- ObjectFile::link ---------- *)
(* `for (addr, block) in b_block_map { if a.block_map.insert(addr, block).is_some() { return Err } }` *)
Fixpoint merge_blocks {V} (a b : list (Z * V)) : option (list (Z * V)) :=
  match b with
  | [] => Some a
  | (k, v) :: r => if bt_mem k a then None else merge_blocks (bt_insert k v a) r
  end.

(* zip(first, second).any(|..| { ar = a_st .. a_st + a_bl.len(); br = ..; ranges_overlap(ar, br) })
   `usize::from(st) + bl.len()` is the panic site; `any` stops at the first overlapping pair.
   result: None = panic, Some true = an overlap was found (link returns Err) *)
Fixpoint adjacent_overlap {V} (m : list (Z * list V)) : option bool :=
  match m with
  | (a_st, a_bl) :: (((b_st, b_bl) :: _) as r) =>
      if (USIZE_MAX <? a_st + len a_bl) || (USIZE_MAX <? b_st + len b_bl) then None
      else if (a_st <? b_st + len b_bl) && (b_st <? a_st + len a_bl) then Some true
      else adjacent_overlap r
  | _ => Some false
  end.

(* DebugSymbols::link: `k + lines` for every run of b, lines = a.src_info.count_lines() *)
Definition debug_link_panics (ad bd : debug_symbols) : bool :=
  existsb (fun p => USIZE_MAX <? fst p + count_lines (ds_src ad)) (ds_lines bd).

(* a_sym.rel_map.extend(b.rel_map) *)
Definition merged_rel (a b : list (Z * str)) : list (Z * str) :=
  fold_left (fun m p => hm_insert Z.eqb (fst p) (snd p) m) b a.

(* a label of b that is also in a, neither external, at different addresses: link returns Err
   (after computing both spans with the saturating `SymbolData::span`: no panic site) *)
Definition label_conflict (al bl : list (str * symdata)) : bool :=
  existsb (fun p => match hm_get str_eqb (fst p) al with
                    | Some d => negb (sd_external d) && negb (sd_external (snd p))
                                && negb (sd_addr d =? sd_addr (snd p))
                    | None => false
                    end) bl.
(* labels bound by this link: present in both, external in exactly one *)
Definition bound_label (al bl : list (str * symdata)) (l : str) : bool :=
  match hm_get str_eqb l al, hm_get str_eqb l bl with
  | Some da, Some db => xorb (sd_external da) (sd_external db)
  | _, _ => false
  end.

Definition link_outcome (a b : objfile) : pout :=
  match merge_blocks (o_blocks a) (o_blocks b) with
  | None => Completes                                        (* Err(OverlappingBlocks) *)
  | Some blocks =>
      match adjacent_overlap blocks with
      | None => Panics
      | Some true => Completes                               (* Err(OverlappingBlocks) *)
      | Some false =>
          match o_sym a, o_sym b with
          | Some sa, Some sb =>
              if match st_debug sa, st_debug sb with
                 | Some ad, Some bd => debug_link_panics ad bd
                 | _, _ => false
                 end then Panics
              else if label_conflict (st_labels sa) (st_labels sb) then Completes   (* Err(OverlappingLabels) *)
              else
                (* `a_obj.get_mut(addr).unwrap_or_else(|| unreachable!(..))` for every entry of the
                   merged relocation map whose label is bound by this link *)
                if forallb (fun p => negb (bound_label (st_labels sa) (st_labels sb) (snd p))
                                     || reloc_ok blocks (fst p))
                           (merged_rel (st_rel sa) (st_rel sb))
                then Completes else Panics
          | _, _ => Completes
          end
      end
  end.

(* ---------- MemArray::copy_obj_block / Simulator::load_obj_file ---------- *)
(* data.chunk_by(|a, b| a.is_some() == b.is_some()): lengths and kinds of the maximal runs *)
Definition is_some {A} (o : option A) : bool := match o with Some _ => true | None => false end.
Fixpoint runs {A} (l : list (option A)) : list (bool * Z) :=
  match l with
  | [] => []
  | x :: r => match runs r with
              | (k, n) :: rest => if Bool.eqb k (is_some x) then (k, n + 1) :: rest else (is_some x, 1) :: (k, n) :: rest
              | [] => [(is_some x, 1)]
              end
  end.
(* one chunk of [k] words at [start]: the slice copies of an initialised chunk panic unless the
   lengths agree (`copy_from_slice`, `split_at`); clearing an uninitialised chunk cannot panic *)
Definition chunk_panics (start : Z) (init : bool) (k : Z) : bool :=
  let e := (start + k mod 65536) mod 65536 in
  if negb init then false
  else if start <=? e then negb (e - start =? k)
  else let mid := (65536 - start) mod 65536 in
       (k <? mid) || negb (65536 - start =? mid) || negb (e =? k - mid).
Fixpoint copy_block_panics (start : Z) (rs : list (bool * Z)) : bool :=
  match rs with
  | [] => false
  | (init, k) :: r => chunk_panics start init k || copy_block_panics ((start + k mod 65536) mod 65536) r
  end.
Definition has_external (o : objfile) : bool :=
  match o_sym o with
  | Some st => existsb (fun p => sd_external (snd p)) (st_labels st)
  | None => false
  end.
Definition load_outcome (o : objfile) : pout :=
  if has_external o then Completes                           (* Err(UnresolvedExternal) *)
  else if existsb (fun b => copy_block_panics (fst b) (runs (snd b))) (o_blocks o) then Panics
  else Completes.

(* ---------- wire ---------- *)
Definition t_pout (p : pout) : tree := match p with Completes => t_ok [] | Panics => t_panic end.
Definition ops : op_table :=
  [ ("objpipe.link"%string, fun t => match t with
       | L [a; b] => match as_obj a, as_obj b with Some a', Some b' => t_pout (link_outcome a' b') | _, _ => t_bad end
       | _ => t_bad end);
    ("objpipe.load"%string, fun t => match as_obj t with Some o => t_pout (load_outcome o) | None => t_bad end) ].
