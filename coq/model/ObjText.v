(* ObjText.v — model of `TextFormat::{serialize,deserialize}` (src/asm/encoding.rs) with
   `parse_table/parse_row/parse_header`, `hex2u16/maybe_hex2u16/count_digits`, the std pieces it
   uses (`str::lines`, `trim`, `splitn(" | ")`, `starts_with`, `str::parse::<uN>`,
   `uN::from_str_radix`, `{:04X}` / width formatting, `str::escape_default`) and the third-party
   `unescaper::unescape` (unescaper-0.1.5/src/lib.rs).  Text is a list of code points.
   Panic sites of the reader are explicit `RPanic` (out of fuel included).  No proofs here. *)
From Coq Require Import ZArith List Bool String Ascii.
From Model Require Import Tree Text Obj SourceInfo ObjBin.
Import ListNotations.
Open Scope Z_scope.

Fixpoint s2z (s : string) : str :=
  match s with
  | EmptyString => []
  | String a r => Z.of_N (N_of_ascii a) :: s2z r
  end.

Definition TFMT_MAGIC : str := s2z "LC-3 OBJ FILE".
Definition TFMT_UNINIT : str := s2z "????".
Definition TABLE_DIV : str := [32; 124; 32].          (* " | " *)
Definition DIVIDER : str := s2z "====================".

(* ---------- std: trim, starts_with, lines, splitn ---------- *)
Definition trim (s : str) : str := trim_end (trim_start s).
Definition starts_with (c : Z) (s : str) : bool := match s with x :: _ => x =? c | [] => false end.

(* str::split('\n'): the segments between line feeds (the last one may be empty) *)
Fixpoint split_nl (s : str) : list str :=
  match s with
  | [] => [[]]
  | c :: r =>
      if c =? 10 then [] :: split_nl r
      else match split_nl r with l :: ls => (c :: l) :: ls | [] => [[c]] end
  end.
Definition strip_cr (l : str) : str :=
  match rev l with 13 :: a => rev a | _ => l end.
(* str::lines: segments ended by "\n" lose the "\n" and then one "\r"; a last segment without
   "\n" is kept as it is (a trailing bare "\r" stays), and is dropped when empty *)
Fixpoint lines_of (segs : list str) : list str :=
  match segs with
  | [] => []
  | [l] => match l with [] => [] | _ => [l] end
  | l :: r => strip_cr l :: lines_of r
  end.
Definition lines (s : str) : list str := lines_of (split_nl s).

(* first occurrence of " | " *)
Fixpoint split_div (s : str) : option (str * str) :=
  match s with
  | [] => None
  | c :: r =>
      match strip_prefix TABLE_DIV s with
      | Some rest => Some ([], rest)
      | None => match split_div r with Some (a, b) => Some (c :: a, b) | None => None end
      end
  end.
(* str::splitn(n, " | ") for n >= 1; not structural in the string, hence fuel n *)
Fixpoint splitn (n : nat) (s : str) : list str :=
  match n with
  | O => []
  | S O => [s]
  | S n' => match split_div s with Some (a, b) => a :: splitn n' b | None => [s] end
  end.

(* ---------- std: integer parsing ---------- *)
(* char::to_digit(radix) on an ASCII byte *)
Definition digit_val (radix c : Z) : option Z :=
  let d := if (48 <=? c) && (c <=? 57) then c - 48
           else if (97 <=? c) && (c <=? 122) then c - 87
           else if (65 <=? c) && (c <=? 90) then c - 55
           else radix in
  if d <? radix then Some d else None.
Fixpoint digits_val (radix : Z) (s : str) (acc : Z) : option Z :=
  match s with
  | [] => Some acc
  | c :: r => match digit_val radix c with Some d => digits_val radix r (acc * radix + d) | None => None end
  end.
(* uN::from_str_radix for an unsigned type with maximum [max]: empty, "+" and "-" are errors, one
   leading '+' is accepted, every other byte must be a digit, overflow is an error *)
Definition parse_uint (radix max : Z) (s : str) : option Z :=
  match s with
  | [] => None
  | [c] => match digit_val radix c with Some d => if d <=? max then Some d else None | None => None end
  | c :: r =>
      match digits_val radix (if c =? 43 then r else s) 0 with
      | Some v => if v <=? max then Some v else None
      | None => None
      end
  end.
Definition hex2u16 (s : str) : option Z :=
  if byte_len s =? 4 then parse_uint 16 65535 s else None.
Definition maybe_hex2u16 (s : str) : option (option Z) :=
  if str_eqb s TFMT_UNINIT then Some None else option_map Some (hex2u16 s).

(* ---------- std: integer formatting ---------- *)
Definition digit_char (upper : bool) (d : Z) : Z :=
  if d <? 10 then 48 + d else if upper then 55 + d else 87 + d.
Fixpoint digits_of (fuel : nat) (radix : Z) (upper : bool) (n : Z) (acc : str) : str :=
  match fuel with
  | O => acc
  | S f =>
      let acc' := digit_char upper (n mod radix) :: acc in
      if n <? radix then acc' else digits_of f radix upper (n / radix) acc'
  end.
Definition fmt_radix (radix : Z) (upper : bool) (n : Z) : str :=
  digits_of (S (Z.to_nat (Z.log2 n))) radix upper n [].
Definition fmt_dec (n : Z) : str := fmt_radix 10 false n.
Definition pad_left (c : Z) (w : Z) (s : str) : str := repeat c (Z.to_nat (w - len s)) ++ s.
Definition pad_right (c : Z) (w : Z) (s : str) : str := s ++ repeat c (Z.to_nat (w - len s)).
Definition hex4 (n : Z) : str := pad_left 48 4 (fmt_radix 16 true n).     (* {:04X} *)
(* count_digits: checked_ilog10(n).unwrap_or(0) + 1 *)
Definition count_digits (n : Z) : Z := len (fmt_dec n).

(* ---------- str::escape_default / unescaper::unescape ---------- *)
Definition esc_char (c : Z) : str :=
  if c =? 9 then [92; 116]
  else if c =? 13 then [92; 114]
  else if c =? 10 then [92; 110]
  else if (c =? 39) || (c =? 34) || (c =? 92) then [92; c]
  else if (32 <=? c) && (c <=? 126) then [c]
  else [92; 117; 123] ++ fmt_radix 16 false c ++ [125].
Definition escape (s : str) : str := flat_map esc_char s.

Inductive ustate : Type :=
| UN                              (* ordinary text *)
| UB                              (* after a backslash *)
| UU0                             (* after \u *)
| UBrace (acc : str)              (* inside \u{ ; digits so far, reversed *)
| UU4 (acc : str) (k : nat)       (* \uXXXX: k more characters wanted *)
| UX (acc : str) (k : nat)        (* \xXX *)
| UOct (acc : str) (k : nat).     (* octal: at most k more digits *)

Definition U32_MAX : Z := 4294967295.
(* char::from_u32(u32::from_str_radix(digits, 16)?) *)
Definition finish_unicode (acc : str) : option Z :=
  match parse_uint 16 U32_MAX (rev acc) with
  | Some v => if is_scalar v then Some v else None
  | None => None
  end.
Definition is_oct (c : Z) : bool := (48 <=? c) && (c <=? 55).
Definition ustep_normal (c : Z) : str * ustate := if c =? 92 then ([], UB) else ([c], UN).

Definition ustep (st : ustate) (c : Z) : option (str * ustate) :=
  match st with
  | UN => Some (ustep_normal c)
  | UB =>
      if c =? 98 then Some ([8], UN) else if c =? 102 then Some ([12], UN)
      else if c =? 110 then Some ([10], UN) else if c =? 114 then Some ([13], UN)
      else if c =? 116 then Some ([9], UN)
      else if (c =? 39) || (c =? 34) || (c =? 92) || (c =? 47) then Some ([c], UN)
      else if c =? 117 then Some ([], UU0)
      else if c =? 120 then Some ([], UX [] 2)
      else if (48 <=? c) && (c <=? 51) then Some ([], UOct [c] 2)
      else if (52 <=? c) && (c <=? 55) then Some ([], UOct [c] 1)
      else None
  | UU0 => if c =? 123 then Some ([], UBrace []) else Some ([], UU4 [c] 3)
  | UBrace acc =>
      if c =? 125 then option_map (fun ch => ([ch], UN)) (finish_unicode acc)
      else Some ([], UBrace (c :: acc))
  | UU4 acc k =>
      match k with
      | S (S k') => Some ([], UU4 (c :: acc) (S k'))
      | _ => option_map (fun ch => ([ch], UN)) (finish_unicode (c :: acc))
      end
  | UX acc k =>
      match k with
      | S (S k') => Some ([], UX (c :: acc) (S k'))
      | _ => option_map (fun ch => ([ch], UN)) (parse_uint 16 255 (rev (c :: acc)))
      end
  | UOct acc k =>
      match k with
      | S k' => if is_oct c then Some ([], UOct (c :: acc) k')
                else option_map (fun ch => let '(o, s) := ustep_normal c in (ch :: o, s)) (parse_uint 8 255 (rev acc))
      | O => option_map (fun ch => let '(o, s) := ustep_normal c in (ch :: o, s)) (parse_uint 8 255 (rev acc))
      end
  end.
Definition ufinish (st : ustate) : option str :=
  match st with
  | UN => Some []
  | UBrace acc => option_map (fun ch => [ch]) (finish_unicode acc)
  | UOct acc _ => option_map (fun ch => [ch]) (parse_uint 8 255 (rev acc))
  | _ => None
  end.
Fixpoint urun (st : ustate) (s : str) : option str :=
  match s with
  | [] => ufinish st
  | c :: r =>
      match ustep st c with
      | Some (out, st') => option_map (app out) (urun st' r)
      | None => None
      end
  end.
Definition unescape (s : str) : option str := urun UN s.

(* ---------- serialize ---------- *)
(* the writer emits whole lines (`writeln!`, or `write!`s closed by a `writeln!`): the text is the
   concatenation of the lines of [text_lines], each followed by "\n" *)
Definition ln (s : str) : str := s ++ [10].

Definition tword (w : option Z) : str := match w with Some v => hex4 v | None => TFMT_UNINIT end.
Definition tblock_lines (b : Z * list (option Z)) : list str :=
  hex4 (fst b) :: fmt_dec (len (snd b)) :: map tword (snd b).

Definition sym_lt (a b : str * symdata) : bool :=
  (sd_addr (snd a) <? sd_addr (snd b))
  || ((sd_addr (snd a) =? sd_addr (snd b)) && str_ltb (fst a) (fst b)).
Definition rel_lt (a b : Z * str) : bool :=
  (fst a <? fst b) || ((fst a =? fst b) && str_ltb (snd a) (snd b)).
Definition idx_lt (a b : str * symdata) : bool :=
  (sd_src_start (snd a) <? sd_src_start (snd b))
  || ((sd_src_start (snd a) =? sd_src_start (snd b)) && str_ltb (fst a) (fst b)).

Definition sym_row (p : str * symdata) : str :=
  hex4 (sd_addr (snd p)) ++ TABLE_DIV ++ pad_left 32 3 (if sd_external (snd p) then [49] else [48])
  ++ TABLE_DIV ++ fst p.
Definition rel_row (p : Z * str) : str := hex4 (fst p) ++ TABLE_DIV ++ snd p.

Definition LABEL : str := s2z "LABEL".
Definition INDEX : str := s2z "INDEX".
Definition LINE : str := s2z "LINE".
Definition label_col (entries : list (str * symdata)) : Z :=
  fold_left (fun m p => Z.max m (byte_len (fst p))) entries (len LABEL).
Definition index_col (entries : list (str * symdata)) : Z :=
  fold_left (fun m p => Z.max m (count_digits (sd_src_start (snd p)))) entries (len INDEX).
Definition idx_row (lc ic : Z) (p : str * symdata) : str :=
  pad_right 32 lc (fst p) ++ TABLE_DIV ++ pad_left 32 ic (fmt_dec (sd_src_start (snd p))).
Definition label_table_lines (labels : list (str * symdata)) : list str :=
  match labels with
  | [] => []
  | _ =>
      let entries := sort_by idx_lt labels in
      (pad_right 32 (label_col entries) LABEL ++ TABLE_DIV ++ pad_right 32 (index_col entries) INDEX)
      :: map (idx_row (label_col entries) (index_col entries)) entries
  end.

Fixpoint seqz (start : Z) (n : nat) : list Z :=
  match n with O => [] | S k => start :: seqz (start + 1) k end.
Fixpoint add_run (start : Z) (addrs : list Z) (t : list (Z * option Z)) : list (Z * option Z) :=
  match addrs with
  | [] => t
  | a :: r => add_run (start + 1) r (bt_insert (start mod 18446744073709551616) (Some a) t)
  end.
(* BTreeMap line -> address, for every line of the source and every mapped line *)
Definition line_table (d : debug_symbols) : list (Z * option Z) :=
  fold_left (fun t b => add_run (fst b) (snd b) t) (ds_lines d)
            (map (fun l => (l, None)) (seqz 0 (List.length (nl_indices (ds_src d))))).
Definition src_line (src : str) (line : Z) : str :=
  match raw_line_span src line with Some (a, b) => substr src a b | None => [] end.
Definition line_row (src : str) (line_col : Z) (p : Z * option Z) : str :=
  pad_left 32 line_col (fmt_dec (fst p)) ++ TABLE_DIV ++ tword (snd p) ++ TABLE_DIV ++ escape (src_line src (fst p)).
Definition line_table_lines (d : debug_symbols) : list str :=
  let t := line_table d in
  match t with
  | [] => []
  | _ =>
      let line_col := Z.max (len LINE) (count_digits (fst (last t (0, None)))) in
      (pad_right 32 line_col LINE ++ TABLE_DIV ++ s2z "ADDR" ++ TABLE_DIV ++ s2z "SOURCE")
      :: map (line_row (ds_src d) line_col) t
  end.

Definition sym_lines (st : symtab) : list str :=
  [s2z ".SYMBOL"]
  ++ (match st_labels st with
      | [] => []
      | _ => s2z "ADDR | EXT | LABEL" :: map sym_row (sort_by sym_lt (st_labels st))
      end)
  ++ [[]]
  ++ [s2z ".LINKER_INFO"]
  ++ (match st_rel st with
      | [] => []
      | _ => s2z "ADDR | LABEL" :: map rel_row (sort_by rel_lt (st_rel st))
      end)
  ++ [[]]
  ++ [s2z ".DEBUG"; s2z "# DEBUG SYMBOLS FOR LC3TOOLS"; []]
  ++ label_table_lines (st_labels st)
  ++ [DIVIDER]
  ++ (match st_debug st with
      | Some d => line_table_lines d ++ [DIVIDER]
      | None => []
      end).

Definition text_lines (o : objfile) : list str :=
  [TFMT_MAGIC; []; s2z ".TEXT"] ++ flat_map tblock_lines (o_blocks o) ++ [[]]
  ++ (match o_sym o with Some st => sym_lines st | None => [] end).

Definition ser_text (o : objfile) : str := flat_map ln (text_lines o).

(* ---------- deserialize ---------- *)
Record tstate := mkT {
  t_blocks : list (Z * list (option Z));
  t_labels : list (str * symdata);
  t_rel : list (Z * str);
  t_dbg : option (list (option Z) * str)
}.

(* label_map.entry(label).or_default(), then a field update *)
Fixpoint hm_update (k : str) (f : symdata -> symdata) (m : list (str * symdata)) : list (str * symdata) :=
  match m with
  | [] => [(k, f (mkSym 0 0 false))]
  | (k', v) :: r => if str_eqb k k' then (k', f v) :: r else (k', v) :: hm_update k f r
  end.

Fixpoint list_eqb (a b : list str) : bool :=
  match a, b with
  | [], [] => true
  | x :: a', y :: b' => str_eqb x y && list_eqb a' b'
  | _, _ => false
  end.
Definition parse_header (line : str) (cols : list str) : bool :=
  list_eqb (map trim (splitn (List.length cols) line)) cols.
(* splitn(N) then resize(N, "") *)
Definition parse_row (n : nat) (line : str) : list str :=
  let segs := splitn n line in segs ++ repeat [] (n - List.length segs).
Fixpoint map_rows {T} (f : list str -> Z -> option T) (rows : list (list str)) (i : Z) : option (list T) :=
  match rows with
  | [] => Some []
  | r :: rest => match f r i, map_rows f rest (i + 1) with
                 | Some x, Some xs => Some (x :: xs)
                 | _, _ => None
                 end
  end.
Definition parse_table {T} (contents : list str) (cols : list str) (rowp : list str -> Z -> option T)
    (tr : bool) : option (list T) :=
  match contents with
  | [] => Some []
  | header :: body =>
      if parse_header header cols
      then map_rows rowp (map (fun l => map (if tr then trim else (fun x => x)) (parse_row (List.length cols) l)) body) 0
      else None
  end.

Definition U16_MAX : Z := 65535.
(* one .TEXT block: origin, length, then that many words *)
Fixpoint take_words (n : nat) (ls : list str) : option (list (option Z) * list str) :=
  match n with
  | O => Some ([], ls)
  | S k => match ls with
           | [] => None
           | l :: r => match maybe_hex2u16 l, take_words k r with
                       | Some w, Some (ws, rest) => Some (w :: ws, rest)
                       | _, _ => None
                       end
           end
  end.
Fixpoint text_group (fuel : nat) (ls : list str) (blocks : list (Z * list (option Z)))
    : rd (list (Z * list (option Z))) :=
  match ls with
  | [] => ROk blocks
  | orig_hex :: r =>
      match fuel with
      | O => RPanic
      | S f =>
          match hex2u16 orig_hex, r with
          | Some orig, len_s :: r' =>
              match parse_uint 10 U16_MAX len_s with
              | Some blen =>
                  match take_words (Z.to_nat blen) r' with
                  | Some (ws, rest) =>
                      if bt_mem orig blocks then RNone else text_group f rest (bt_insert orig ws blocks)
                  | None => RNone
                  end
              | None => RNone
              end
          | _, _ => RNone
          end
      end
  end.

Definition sym_rowp (cols : list str) (_ : Z) : option (Z * bool * str) :=
  match cols with
  | [a; e; l] => match hex2u16 a, parse_uint 10 255 e with
                 | Some addr, Some ext => Some (addr, negb (ext =? 0), l)
                 | _, _ => None
                 end
  | _ => None
  end.
Definition rel_rowp (cols : list str) (_ : Z) : option (Z * str) :=
  match cols with
  | [a; l] => option_map (fun addr => (addr, l)) (hex2u16 a)
  | _ => None
  end.
Definition idx_rowp (cols : list str) (_ : Z) : option (str * Z) :=
  match cols with
  | [l; i] => option_map (fun idx => (l, idx)) (parse_uint 10 USIZE_MAX i)
  | _ => None
  end.
Definition line_rowp (cols : list str) (i : Z) : option (option Z * str) :=
  match cols with
  | [l; a; s] =>
      match parse_uint 10 USIZE_MAX (trim l) with
      | Some n => if n =? i then option_map (fun m => (m, s)) (maybe_hex2u16 (trim a)) else None
      | None => None
      end
  | _ => None
  end.

(* split the lines of a .DEBUG group at the first line starting with '=' *)
Fixpoint break_div (ls : list str) : option (list str * list str) :=
  match ls with
  | [] => None
  | l :: r => if starts_with 61 l then Some ([], ls)
              else match break_div r with Some (a, b) => Some (l :: a, b) | None => None end
  end.

Definition debug_group (rest : list str) (st : tstate) : rd tstate :=
  match rest with
  | [] => ROk st
  | _ =>
      match break_div rest with
      | None => RNone
      | Some (label_src, tail) =>
          if negb (starts_with 61 (last rest [])) then RNone
          else
            (* repaired code: one divider = no line table *)
            let line_src := match tail with _ :: ((_ :: _) as t) => removelast t | _ => [] end in
            match parse_table label_src [LABEL; INDEX] idx_rowp true with
            | None => RNone
            | Some ltab =>
                let labels := fold_left (fun m p => hm_update (fst p) (fun d => mkSym (sd_addr d) (snd p) (sd_external d)) m)
                                        ltab (t_labels st) in
                match parse_table line_src [LINE; s2z "ADDR"; s2z "SOURCE"] line_rowp false with
                | None => RNone
                | Some [] => ROk (mkT (t_blocks st) labels (t_rel st) (t_dbg st))
                | Some rows =>
                    let '(lm, src) := match t_dbg st with Some x => x | None => ([], []) end in
                    match unescape (src ++ flat_map snd rows) with
                    | Some src' => ROk (mkT (t_blocks st) labels (t_rel st) (Some (lm ++ map fst rows, src')))
                    | None => RNone
                    end
                end
            end
      end
  end.

Definition group (header : str) (rest : list str) (st : tstate) : rd tstate :=
  if str_eqb header (s2z ".TEXT") then
    rd_bind (text_group (List.length rest) rest (t_blocks st)) (fun bl =>
      ROk (mkT bl (t_labels st) (t_rel st) (t_dbg st)))
  else if str_eqb header (s2z ".SYMBOL") then
    match parse_table rest [s2z "ADDR"; s2z "EXT"; LABEL] sym_rowp true with
    | None => RNone
    | Some tab =>
        ROk (mkT (t_blocks st)
                 (fold_left (fun m '(addr, ext, l) => hm_update l (fun d => mkSym addr (sd_src_start d) ext) m) tab (t_labels st))
                 (t_rel st) (t_dbg st))
    end
  else if str_eqb header (s2z ".LINKER_INFO") then
    match parse_table rest [s2z "ADDR"; LABEL] rel_rowp true with
    | None => RNone
    | Some tab =>
        ROk (mkT (t_blocks st) (t_labels st)
                 (fold_left (fun m p => hm_insert Z.eqb (fst p) (snd p) m) tab (t_rel st)) (t_dbg st))
    end
  else if str_eqb header (s2z ".DEBUG") then debug_group rest st
  else RNone.

(* group the lines: a line starting with '.' opens a group; a line before any group rejects *)
Fixpoint group_lines (ls : list str) (cur : option (str * list str)) (acc : list (str * list str))
    : option (list (str * list str)) :=
  match ls with
  | [] => Some (match cur with Some (h, r) => acc ++ [(h, r)] | None => acc end)
  | l :: r =>
      if starts_with 46 l
      then group_lines r (Some (l, [])) (match cur with Some (h, b) => acc ++ [(h, b)] | None => acc end)
      else match cur with
           | Some (h, b) => group_lines r (Some (h, b ++ [l])) acc
           | None => None
           end
  end.

Fixpoint run_groups (gs : list (str * list str)) (st : tstate) : rd tstate :=
  match gs with
  | [] => ROk st
  | (h, r) :: rest => rd_bind (group h r st) (run_groups rest)
  end.

(* `.filter(|l| !l.starts_with('#')).filter(|&l| !l.trim().is_empty())` *)
Definition keep_line (l : str) : bool :=
  negb (starts_with 35 l) && negb (match trim l with [] => true | _ => false end).

Definition deser_lines (ls : list str) : rd objfile :=
  match ls with
  | first :: rest =>
      if negb (str_eqb first TFMT_MAGIC) then RNone
      else
        match group_lines rest None [] with
        | None => RNone
        | Some gs =>
            rd_bind (run_groups gs (mkT [] [] [] None)) (fun st =>
            rd_bind (match t_dbg st with
                     | Some (lm, src) => rd_bind (lsm_new lm) (fun lm' => ROk (Some (mkDebug lm' src)))
                     | None => ROk None
                     end) (fun dbg =>
            finish_obj (t_blocks st) (t_labels st) (t_rel st) dbg))
        end
  | [] => RNone
  end.

Definition deser_text (s : str) : rd objfile := deser_lines (filter keep_line (lines (trim s))).

(* ---------- TextInv: what the text round trip needs on top of ObjInv (also checked on every
   assembled / linked object by the harness) ---------- *)
(* a label survives the tables: not empty, no white space (so no line break, no " | ", invariant
   under trim), and it does not start like a comment, a section header or a divider *)
Definition label_text_ok (l : str) : bool :=
  negb (existsb is_ws l)
  && match l with [] => false | c :: _ => negb ((c =? 35) || (c =? 46) || (c =? 61)) end.
(* runs are maximal (an unmapped line separates neighbours), not empty, and end before the last
   line of the source (LineSymbolMap::new only stores a run when an unmapped line follows) *)
Fixpoint runs_separated (bl : linemap) : bool :=
  match bl with
  | (ls, lb) :: (((rs, _) :: _) as r) => (ls + len lb <? rs) && runs_separated r
  | _ => true
  end.
Definition debug_text_inv (d : debug_symbols) : bool :=
  runs_separated (ds_lines d)
  && forallb (fun p => negb (match snd p with [] => true | _ => false end)
                       && (fst p + len (snd p) <? count_lines (ds_src d))) (ds_lines d).
Definition text_inv (o : objfile) : bool :=
  obj_inv o
  && match o_sym o with
     | Some st =>
         forallb (fun p => label_text_ok (fst p)) (st_labels st)
         && forallb (fun p => label_text_ok (snd p)) (st_rel st)
         && (match st_debug st with Some d => debug_text_inv d | None => true end)
     | None => true
     end.

(* ---------- wire ---------- *)
Definition ops : op_table :=
  [ ("objtext.ser"%string, fun t => match as_obj t with Some o => t_zs (ser_text o) | None => t_bad end);
    ("objtext.inv"%string, fun t => match as_obj t with Some o => t_bool (text_inv o) | None => t_bad end);
    ("objtext.deser"%string, fun t => match as_zs t with Some s => t_rd t_obj (deser_text s) | None => t_bad end);
    ("objtext.escape"%string, fun t => match as_zs t with Some s => t_zs (escape s) | None => t_bad end);
    ("objtext.unescape"%string, fun t => match as_zs t with Some s => t_opt t_zs (unescape s) | None => t_bad end) ].
