(* Offset.v — model of `Offset<OFF, N>` (src/ast.rs): OffsetBacking::truncate,
   Offset::new, Offset::new_trunc, for OFF = i16 and OFF = u16.
   N is a const generic in Rust; here it is an argument.  `new`/`new_trunc`
   assert N <= 16, and `truncate` shifts by 16 - N, which overflows (a panic in
   builds with overflow checks) when N = 0: both are explicit [Panic]. *)
From Coq Require Import ZArith List Bool String.
From Model Require Import Tree Bits.
Import ListNotations.
Open Scope Z_scope.

Inductive offset_err := CannotFitUnsigned (n : Z) | CannotFitSigned (n : Z).
Inductive res (A : Type) := Ok (a : A) | Err (e : offset_err) | Panic.
Arguments Ok {A}. Arguments Err {A}. Arguments Panic {A}.

Definition truncate_s (v n : Z) : Z := shr_i16 (shl_i16 v (16 - n)) (16 - n).
Definition truncate_u (v n : Z) : Z := shr_u16 (shl_u16 v (16 - n)) (16 - n).

Definition n_ok (n : Z) : bool := (1 <=? n) && (n <=? 16).

Definition new_s (n v : Z) : res Z :=
  if n_ok n then
    if v =? truncate_s v n then Ok v else Err (CannotFitSigned n)
  else Panic.
Definition new_u (n v : Z) : res Z :=
  if n_ok n then
    if v =? truncate_u v n then Ok v else Err (CannotFitUnsigned n)
  else Panic.
Definition new_trunc_s (n v : Z) : res Z :=
  if n_ok n then Ok (truncate_s v n) else Panic.
Definition new_trunc_u (n v : Z) : res Z :=
  if n_ok n then Ok (truncate_u v n) else Panic.

(* ---- wire ---- *)
Definition t_res (r : res Z) : tree :=
  match r with
  | Ok v => t_ok [I v]
  | Err (CannotFitUnsigned n) => t_err [I 0; I n]
  | Err (CannotFitSigned n) => t_err [I 1; I n]
  | Panic => t_panic
  end.
Definition op2 (f : Z -> Z -> res Z) (t : tree) : tree :=
  match t with L [I n; I v] => t_res (f n v) | _ => t_bad end.

Definition ops : op_table :=
  [ ("offset.new_s"%string, op2 new_s);
    ("offset.new_u"%string, op2 new_u);
    ("offset.trunc_s"%string, op2 new_trunc_s);
    ("offset.trunc_u"%string, op2 new_trunc_u) ].
