(* Parser.v — model of src/parse.rs: `Parser` (peek / advance / cursor / match_ / advance_if /
   spanned / is_empty), the `TokenParse` components of `parse::simple`, `Parse for ImmOrReg /
   PCOffset / AsmInstr / Directive / Stmt`, and `parse_ast`.

   Parser state: the tokens not yet consumed ([ts]) and the span of the token consumed last
   ([prev], initially (0,0)).  `cursor()` is the span of the next token, or — at the end of the
   token vector — of its last element, which is then the token consumed last; `0..0` for an empty
   vector.  `spanned` is used once (around the nucleus of a statement): its span runs from the
   start of the first token of the nucleus to the end of the last token consumed inside it.

   Errors are (kind, span).  Explicit panic sites: everything inherited from the lexer, and
   `Offset::new` / `new_trunc` (assertion on the const parameter N, model/Offset.v).
   `parse_ast` runs on fuel = number of tokens + 1 (each statement consumes at least one
   token); running out of fuel is reported as a panic and proved unreachable. *)
From Coq Require Import ZArith List Bool String.
From Model Require Import Tree Text Bits Offset Instr AsmAst Lexer.
Import ListNotations.
Open Scope Z_scope.

(* messages of ParseErr::new, in order of appearance in parse.rs *)
Inductive pmsg :=
| MExpRegOrImm | MExpOffOrLabel | MExpComma | MExpColon | MExpStr | MExpEol | MExpImm
| MCouldNotParse | MInvalidRegNo | MExpReg | MExpLabel | MExpInstr | MExpDirective
| MExpNumOrLabel | MBlkwZero | MInvalidDirective | MExpInstrOrDirective.
Inductive perr := ELex (e : lex_err) | EOffU (n : Z) | EOffS (n : Z) | EMsg (m : pmsg).

Inductive pres (A : Type) := POk (a : A) | PErr (k : perr) (sp : span) | PPanic.
Arguments POk {A}. Arguments PErr {A}. Arguments PPanic {A}.

Definition pbind {A B} (r : pres A) (f : A -> pres B) : pres B :=
  match r with POk a => f a | PErr k sp => PErr k sp | PPanic => PPanic end.
Notation "'let*' x ':=' r 'in' b" := (pbind r (fun x => b)) (at level 200, x pattern, r at level 100, b at level 200).

(* parser position: remaining tokens, span of the last consumed token *)
Definition ppos := (list tok * span)%type.

Definition cursor (ts : list tok) (prev : span) : span :=
  match ts with (_, sp) :: _ => sp | [] => prev end.

Definition is_newline (t : token) : bool := match t with TNewLine => true | _ => false end.
(* Parser::is_empty *)
Definition all_nl (ts : list tok) : bool := forallb (fun t => is_newline (fst t)) ts.

(* ---------- Offset<i16,N> / Offset<u16,N> from a numeric token ---------- *)
Definition off_res (r : Offset.res Z) (sp : span) : pres Z :=
  match r with
  | Offset.Ok v => POk v
  | Offset.Err (CannotFitUnsigned n) => PErr (EOffU n) sp
  | Offset.Err (CannotFitSigned n) => PErr (EOffS n) sp
  | Offset.Panic => PPanic
  end.
(* TokenParse::match_ + convert; None = the token is not numeric *)
Definition conv_s (n : Z) (t : token) (sp : span) : option (pres Z) :=
  match t with
  | TUnsigned v => Some (if v <? 32768 then off_res (new_s n v) sp else PErr (ELex DoesNotFitI16) sp)
  | TSigned v => Some (off_res (new_s n v) sp)
  | _ => None
  end.
Definition conv_u (n : Z) (t : token) (sp : span) : option (pres Z) :=
  match t with
  | TUnsigned v => Some (off_res (new_u n v) sp)
  | TSigned v => Some (if 0 <=? v then off_res (new_u n v) sp else PErr (ELex DoesNotFitU16) sp)
  | _ => None
  end.

(* ---------- single-token components (`impl<S: TokenParse> Parse for S`) ---------- *)
Definition p_tok (want : token -> bool) (m : pmsg) (p : ppos) : pres ppos :=
  match fst p with
  | (t, sp) :: ts' => if want t then POk (ts', sp) else PErr (EMsg m) sp
  | [] => PErr (EMsg m) (snd p)
  end.
Definition is_comma (t : token) : bool := match t with TComma => true | _ => false end.
Definition p_comma := p_tok is_comma MExpComma.

(* End matches a NewLine or the end of input (then `advance` leaves the position unchanged) *)
Definition p_end (p : ppos) : pres ppos :=
  match fst p with
  | (TNewLine, sp) :: ts' => POk (ts', sp)
  | (_, sp) :: _ => PErr (EMsg MExpEol) sp
  | [] => POk p
  end.

Definition p_reg (p : ppos) : pres (Z * ppos) :=
  match fst p with
  | (TReg r, sp) :: ts' =>
      if (0 <=? r) && (r <? 8) then POk (r, (ts', sp)) else PErr (EMsg MInvalidRegNo) sp
  | (_, sp) :: _ => PErr (EMsg MExpReg) sp
  | [] => PErr (EMsg MExpReg) (snd p)
  end.
Definition p_label (p : ppos) : pres (label * ppos) :=
  match fst p with
  | (TIdent (ILabel s), sp) :: ts' => POk (mkLabel s (fst sp), (ts', sp))
  | (_, sp) :: _ => PErr (EMsg MExpLabel) sp
  | [] => PErr (EMsg MExpLabel) (snd p)
  end.
Definition p_str (p : ppos) : pres (str * ppos) :=
  match fst p with
  | (TString s, sp) :: ts' => POk (s, (ts', sp))
  | (_, sp) :: _ => PErr (EMsg MExpStr) sp
  | [] => PErr (EMsg MExpStr) (snd p)
  end.
(* parser.parse::<Offset<_, N>>() *)
Definition p_off (conv : token -> span -> option (pres Z)) (p : ppos) : pres (Z * ppos) :=
  match fst p with
  | (t, sp) :: ts' =>
      match conv t sp with
      | Some r => let* v := r in POk (v, (ts', sp))
      | None => PErr (EMsg MExpImm) sp
      end
  | [] => PErr (EMsg MExpImm) (snd p)
  end.

(* ImmOrReg<N>: match_::<Either<Offset<i16,N>, Reg>> *)
Definition p_ior (n : Z) (p : ppos) : pres (imm_or_reg * ppos) :=
  match fst p with
  | (t, sp) :: ts' =>
      match conv_s n t sp with
      | Some r => let* v := r in POk (Imm v, (ts', sp))
      | None =>
          match t with
          | TReg r =>
              (* Reg::match_ fails on a register number above 7 (Reg::try_from), so the Either does
                 not match and nothing is consumed *)
              if (0 <=? r) && (r <? 8) then POk (RegOp r, (ts', sp)) else PErr (EMsg MExpRegOrImm) sp
          | _ => PErr (EMsg MExpRegOrImm) sp
          end
      end
  | [] => PErr (EMsg MExpRegOrImm) (snd p)
  end.

(* PCOffset<i16,N>: match_::<Either<Offset<i16,N>, Label>> *)
Definition p_pcoff (n : Z) (p : ppos) : pres (pcoff * ppos) :=
  match fst p with
  | (t, sp) :: ts' =>
      match conv_s n t sp with
      | Some r => let* v := r in POk (POff v, (ts', sp))
      | None =>
          match t with
          | TIdent (ILabel s) => POk (PLab (mkLabel s (fst sp)), (ts', sp))
          | _ => PErr (EMsg MExpOffOrLabel) sp
          end
      end
  | [] => PErr (EMsg MExpOffOrLabel) (snd p)
  end.

(* ---------- instructions ---------- *)
Definition p_reg_comma (p : ppos) : pres (Z * ppos) :=
  let* (r, p1) := p_reg p in let* p2 := p_comma p1 in POk (r, p2).

Definition p_br (cc : Z) (p : ppos) : pres (asm_instr * ppos) :=
  let* (o, p) := p_pcoff 9 p in POk (ABR cc o, p).

(* after the opcode has been consumed *)
Definition p_operands (k : kw) (p : ppos) : pres (asm_instr * ppos) :=
  match k with
  | KADD => let* (dr, p) := p_reg_comma p in let* (sr, p) := p_reg_comma p in
            let* (o, p) := p_ior 5 p in POk (AADD dr sr o, p)
  | KAND => let* (dr, p) := p_reg_comma p in let* (sr, p) := p_reg_comma p in
            let* (o, p) := p_ior 5 p in POk (AAND dr sr o, p)
  | KBR => p_br 7 p | KBRP => p_br 1 p | KBRZ => p_br 2 p | KBRZP => p_br 3 p
  | KBRN => p_br 4 p | KBRNP => p_br 5 p | KBRNZ => p_br 6 p | KBRNZP => p_br 7 p
  | KJMP => let* (r, p) := p_reg p in POk (AJMP r, p)
  | KJSR => let* (o, p) := p_pcoff 11 p in POk (AJSR o, p)
  | KJSRR => let* (r, p) := p_reg p in POk (AJSRR r, p)
  | KLD => let* (r, p) := p_reg_comma p in let* (o, p) := p_pcoff 9 p in POk (ALD r o, p)
  | KLDI => let* (r, p) := p_reg_comma p in let* (o, p) := p_pcoff 9 p in POk (ALDI r o, p)
  | KLDR => let* (dr, p) := p_reg_comma p in let* (br, p) := p_reg_comma p in
            let* (o, p) := p_off (conv_s 6) p in POk (ALDR dr br o, p)
  | KLEA => let* (r, p) := p_reg_comma p in let* (o, p) := p_pcoff 9 p in POk (ALEA r o, p)
  | KNOT => let* (dr, p) := p_reg_comma p in let* (sr, p) := p_reg p in POk (ANOT dr sr, p)
  | KRET => POk (ARET, p)
  | KRTI => POk (ARTI, p)
  | KST => let* (r, p) := p_reg_comma p in let* (o, p) := p_pcoff 9 p in POk (AST r o, p)
  | KSTI => let* (r, p) := p_reg_comma p in let* (o, p) := p_pcoff 9 p in POk (ASTI r o, p)
  | KSTR => let* (dr, p) := p_reg_comma p in let* (br, p) := p_reg_comma p in
            let* (o, p) := p_off (conv_s 6) p in POk (ASTR dr br o, p)
  | KTRAP => let* (v, p) := p_off (conv_u 8) p in POk (ATRAP v, p)
  | KNOP =>
      match fst p with
      | (TSigned _, _) :: _ | (TUnsigned _, _) :: _ | (TIdent (ILabel _), _) :: _ =>
          let* (o, p) := p_pcoff 9 p in POk (ANOP o, p)
      | _ => let* v := off_res (new_trunc_s 9 0) (snd p) in POk (ANOP (POff v), p)
      end
  | KGETC => POk (AGETC, p) | KOUT => POk (AOUT, p) | KPUTC => POk (APUTC, p)
  | KPUTS => POk (APUTS, p) | KIN => POk (AIN, p) | KPUTSP => POk (APUTSP, p)
  | KHALT => POk (AHALT, p)
  end.

(* ---------- directives ---------- *)
Definition dir_names : list (str * Z) :=
  Eval vm_compute in
    [ (zs "ORIG", 0); (zs "FILL", 1); (zs "BLKW", 2); (zs "STRINGZ", 3); (zs "END", 4); (zs "EXTERNAL", 5) ].

(* after the directive token (name, span dsp) has been consumed *)
Definition p_directive (name : str) (dsp : span) (p : ppos) : pres (directive * ppos) :=
  match assoc_str (kw_upper name) dir_names with
  | Some 0 => let* (a, p) := p_off (conv_u 16) p in POk (DOrig a, p)
  | Some 1 =>
      match fst p with
      | (TIdent (ILabel s), sp) :: ts' => POk (DFill (PLab (mkLabel s (fst sp))), (ts', sp))
      | (TUnsigned v, sp) :: ts' => let* w := off_res (new_trunc_u 16 v) sp in POk (DFill (POff w), (ts', sp))
      | (TSigned v, sp) :: ts' => let* w := off_res (new_trunc_u 16 (to_u16 v)) sp in POk (DFill (POff w), (ts', sp))
      | _ => PErr (EMsg MExpNumOrLabel) (cursor (fst p) (snd p))
      end
  | Some 2 =>
      let sp := cursor (fst p) (snd p) in
      let* (n, p) := p_off (conv_u 16) p in
      if n =? 0 then PErr (EMsg MBlkwZero) sp else POk (DBlkw n, p)
  | Some 3 => let* (s, p) := p_str p in POk (DStringz s, p)
  | Some 4 => POk (DEnd, p)
  | Some 5 => let* (l, p) := p_label p in POk (DExternal l, p)
  | _ => PErr (EMsg MInvalidDirective) dsp
  end.

(* ---------- statements ---------- *)
(* the label / blank-line loop of `Parse for Stmt`: returns the labels, the span of the last
   label (for the error message) and the position of the nucleus *)
Fixpoint skip_labels (ts : list tok) (prev : span) (last : option span) : list label * option span * ppos :=
  if all_nl ts then ([], last, (ts, prev))
  else match ts with
  | (TIdent (ILabel s), sp) :: ts1 =>
      match ts1 with
      | (TColon, sp2) :: ts2 =>
          let '(ls, last', p) := skip_labels ts2 sp2 (Some sp) in (mkLabel s (fst sp) :: ls, last', p)
      | _ =>
          let '(ls, last', p) := skip_labels ts1 sp (Some sp) in (mkLabel s (fst sp) :: ls, last', p)
      end
  | (TNewLine, sp) :: ts1 => skip_labels ts1 sp last
  | _ => ([], last, (ts, prev))
  end.

Definition is_kw_tok (t : token) : option kw := match t with TIdent (IKw k) => Some k | _ => None end.

Definition p_nucleus (last : option span) (p : ppos) : pres (nucleus * ppos) :=
  match fst p with
  | (TDirective name, sp) :: ts' => let* (d, p') := p_directive name sp (ts', sp) in POk (NDir d, p')
  | (TIdent (IKw k), sp) :: ts' => let* (i, p') := p_operands k (ts', sp) in POk (NInstr i, p')
  | _ => PErr (EMsg MExpInstrOrDirective) (match last with Some sp => sp | None => cursor (fst p) (snd p) end)
  end.

(* `while !parser.is_empty() && parser.match_::<End>()?.is_some() {}` *)
Fixpoint skip_nl (ts : list tok) (prev : span) : ppos :=
  if all_nl ts then (ts, prev)
  else match ts with
  | (TNewLine, sp) :: ts1 => skip_nl ts1 sp
  | _ => (ts, prev)
  end.

Definition p_stmt (p : ppos) : pres (stmt * ppos) :=
  let '(labels, last, p1) := skip_labels (fst p) (snd p) None in
  let start := fst (cursor (fst p1) (snd p1)) in
  let* (n, p2) := p_nucleus last p1 in
  let* p3 := p_end p2 in
  POk (mkStmt labels n start (snd (snd p2)), skip_nl (fst p3) (snd p3)).

Fixpoint p_stmts (fuel : nat) (p : ppos) : pres (list stmt) :=
  if all_nl (fst p) then POk []
  else match fuel with
  | O => PPanic     (* not reachable: every statement consumes a token *)
  | S f => let* (s, p') := p_stmt p in let* l := p_stmts f p' in POk (s :: l)
  end.

Definition is_comment (t : token) : bool := match t with TComment => true | _ => false end.
Definition parse_tokens (l : list tok) : pres (list stmt) :=
  let ts := filter (fun t => negb (is_comment (fst t))) l in
  p_stmts (S (List.length ts)) (ts, (0, 0)).

Definition parse_ast_with (fx : bool) (s : str) : pres (list stmt) :=
  match lex_with fx s with
  | LexOk l => parse_tokens l
  | LexErr _ e sp => PErr (ELex e) sp
  | LexPanic => PPanic
  end.
Definition parse_ast (s : str) : pres (list stmt) := parse_ast_with true s.

(* ---------- wire ---------- *)
Definition pmsg_tag (m : pmsg) : Z :=
  match m with
  | MExpRegOrImm => 0 | MExpOffOrLabel => 1 | MExpComma => 2 | MExpColon => 3 | MExpStr => 4
  | MExpEol => 5 | MExpImm => 6 | MCouldNotParse => 7 | MInvalidRegNo => 8 | MExpReg => 9
  | MExpLabel => 10 | MExpInstr => 11 | MExpDirective => 12 | MExpNumOrLabel => 13
  | MBlkwZero => 14 | MInvalidDirective => 15 | MExpInstrOrDirective => 16
  end.
Definition perr_tag (k : perr) : Z :=
  match k with
  | ELex e => lex_err_tag e
  | EOffU n => 100 + n
  | EOffS n => 200 + n
  | EMsg m => 300 + pmsg_tag m
  end.
Definition t_pres (r : pres (list stmt)) : tree :=
  match r with
  | POk l => t_ok [t_stmts l]
  | PErr k sp => t_err [I (perr_tag k); I (fst sp); I (snd sp)]
  | PPanic => t_panic
  end.
Definition op_parse (fx : bool) (t : tree) : tree :=
  match as_zs t with Some s => t_pres (parse_ast_with fx s) | None => t_bad end.

Definition ops : op_table :=
  [ ("parse.ast"%string, op_parse true);
    ("parse.ast_pinned"%string, op_parse false) ].
