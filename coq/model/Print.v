(* Print.v — model of the `Display` impls of the assembly AST: Reg, Offset (`{}`, `{:02X}`,
   `{:04X}`), ImmOrReg, PCOffset, Label (src/ast.rs), AsmInstr, Directive, StmtKind, Stmt
   (src/ast/asm.rs), including Rust's `{:?}` escaping of the `.stringz` operand.

   `{:?}` of a str is exact on the alphabet of property C36 (printable ASCII, TAB, LF, CR, NUL)
   and on all other ASCII characters (`\u{..}`); non-ASCII characters are printed as they are
   (Rust escapes the non-printable ones — outside the modelled alphabet, never compared). *)
From Coq Require Import ZArith List Bool String.
From Model Require Import Tree Text Instr AsmAst Lexer.
Import ListNotations.
Open Scope Z_scope.

(* ---------- numbers ---------- *)
(* digit values of v >= 0 in the given radix, most significant first; 0 is [0] *)
Fixpoint digits_fuel (radix : Z) (f : nat) (v : Z) (acc : list Z) : list Z :=
  match f with
  | O => v :: acc
  | S f' => if v <? radix then v :: acc else digits_fuel radix f' (v / radix) (v mod radix :: acc)
  end.
Definition nat_digits (radix v : Z) : list Z := digits_fuel radix (Z.to_nat (Z.log2 v)) v [].

Definition digit_char (up : bool) (d : Z) : Z :=
  if d <? 10 then 48 + d else (if up then 55 else 87) + d.

(* `{}` of u16 / i16 / u8 *)
Definition dec_str (v : Z) : str :=
  if v <? 0 then 45 :: map (digit_char true) (nat_digits 10 (- v))
  else map (digit_char true) (nat_digits 10 v).
(* `{:0wX}` of an unsigned value *)
Definition hex_pad (w : nat) (v : Z) : str :=
  let ds := map (digit_char true) (nat_digits 16 v) in
  repeat 48 (Nat.sub w (List.length ds)) ++ ds.

(* ---------- operands ---------- *)
Definition print_reg (r : Z) : str := 82 :: dec_str r.
Definition print_off (v : Z) : str := 35 :: dec_str v.
Definition print_ior (o : imm_or_reg) : str :=
  match o with Imm v => print_off v | RegOp r => print_reg r end.
Definition print_label (l : label) : str := l_name l.
Definition print_pcoff (o : pcoff) : str :=
  match o with POff v => print_off v | PLab l => print_label l end.

Definition csp : str := [44; 32].
Definition op1 (m : string) (a : str) : str := zs m ++ 32 :: a.
Definition op2 (m : string) (a b : str) : str := zs m ++ 32 :: a ++ csp ++ b.
Definition op3 (m : string) (a b c : str) : str := zs m ++ 32 :: a ++ csp ++ b ++ csp ++ c.

Definition br_name (cc : Z) : str :=
  if cc =? 0 then zs "NOP"
  else zs "BR" ++ (if Z.land cc 4 =? 0 then [] else [110])
               ++ (if Z.land cc 2 =? 0 then [] else [122])
               ++ (if Z.land cc 1 =? 0 then [] else [112]).

Definition print_instr (i : asm_instr) : str :=
  match i with
  | AADD dr sr o => op3 "ADD" (print_reg dr) (print_reg sr) (print_ior o)
  | AAND dr sr o => op3 "AND" (print_reg dr) (print_reg sr) (print_ior o)
  | ABR cc o => br_name cc ++ 32 :: print_pcoff o
  | AJMP r => op1 "JMP" (print_reg r)
  | AJSR o => op1 "JSR" (print_pcoff o)
  | AJSRR r => op1 "JSRR" (print_reg r)
  | ALD r o => op2 "LD" (print_reg r) (print_pcoff o)
  | ALDI r o => op2 "LDI" (print_reg r) (print_pcoff o)
  | ALDR a b o => op3 "LDR" (print_reg a) (print_reg b) (print_off o)
  | ALEA r o => op2 "LEA" (print_reg r) (print_pcoff o)
  | ANOT a b => op2 "NOT" (print_reg a) (print_reg b)
  | ARET => zs "RET"
  | ARTI => zs "RTI"
  | AST r o => op2 "ST" (print_reg r) (print_pcoff o)
  | ASTI r o => op2 "STI" (print_reg r) (print_pcoff o)
  | ASTR a b o => op3 "STR" (print_reg a) (print_reg b) (print_off o)
  | ATRAP v => op1 "TRAP" (120 :: hex_pad 2 v)
  | ANOP o => op1 "NOP" (print_pcoff o)
  | AGETC => zs "GETC" | AOUT => zs "OUT" | APUTC => zs "PUTC" | APUTS => zs "PUTS"
  | AIN => zs "IN" | APUTSP => zs "PUTSP" | AHALT => zs "HALT"
  end.

(* `<str as Debug>::fmt` *)
Definition esc_debug (c : Z) : str :=
  if c =? 34 then [92; 34]
  else if c =? 92 then [92; 92]
  else if c =? 10 then [92; 110]
  else if c =? 13 then [92; 114]
  else if c =? 9 then [92; 116]
  else if c =? 0 then [92; 48]
  else if (32 <=? c) && (c <? 127) then [c]
  else if c <? 128 then [92; 117; 123] ++ map (digit_char false) (nat_digits 16 c) ++ [125]
  else [c].
Definition debug_str (s : str) : str := 34 :: flat_map esc_debug s ++ [34].

Definition print_directive (d : directive) : str :=
  match d with
  | DOrig a => op1 ".orig" (120 :: hex_pad 4 a)
  | DFill o => op1 ".fill" (print_pcoff o)
  | DBlkw n => op1 ".blkw" (print_off n)
  | DStringz s => op1 ".stringz" (debug_str s)
  | DEnd => zs ".end"
  | DExternal l => op1 ".external" (print_label l)
  end.

Definition print_nucleus (n : nucleus) : str :=
  match n with NInstr i => print_instr i | NDir d => print_directive d end.

Definition print_stmt (s : stmt) : str :=
  flat_map (fun l => print_label l ++ [32]) (s_labels s) ++ print_nucleus (s_nucleus s).

(* ---------- wire ---------- *)
Definition op_print (t : tree) : tree :=
  match as_stmt t with Some s => t_ok [t_zs (print_stmt s)] | None => t_bad end.

Definition ops : op_table := [ ("print.stmt"%string, op_print) ].
