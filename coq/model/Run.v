(* Run.v — executable model of the run-style calls of the simulator (src/sim.rs: run_while, run,
   run_with_limit, step_over, step_out, hit_halt, hit_breakpoint, PauseCondition; src/sim/debug.rs:
   Breakpoint::check, Comparator::check) on top of the single step of Sim.v.

   What the Rust loop takes from outside is an input: one [iter] per loop iteration, holding
     it_pre : another thread cleared the MCR before this iteration's MCR test
     it_mid : another thread (or the tripwire closure / a device poll) cleared the MCR after the
              tests of this iteration passed and before the instruction of this iteration
     it_env : the [env] of the single step (locks, timer draws).
   The list of iteration inputs is also the fuel: an empty list at the loop head is the explicit
   outcome [SFuel].  A tripwire is a boolean function of the number of tripwire calls made so far
   in this call (Rust closures are FnMut: step_over/step_out use `first.take()`) and of the state. *)
From Coq Require Import ZArith List Bool String.
From Model Require Import Tree Bits Word Instr Sim SimWire.
Import ListNotations.
Open Scope Z_scope.

(* ------------------------------------------------------------------ breakpoints (sim/debug.rs) *)
Inductive cmp := CNever | CLt (v : Z) | CEq (v : Z) | CLe (v : Z) | CGt (v : Z) | CNe (v : Z) | CGe (v : Z) | CAlways.
Definition cmp_check (c : cmp) (operand : Z) : bool :=
  match c with
  | CNever => false
  | CLt r => operand <? r
  | CEq r => operand =? r
  | CLe r => operand <=? r
  | CGt r => r <? operand
  | CNe r => negb (operand =? r)
  | CGe r => r <=? operand
  | CAlways => true
  end.
Inductive bp := BPc (a : Z) | BReg (r : Z) (c : cmp) | BMem (a : Z) (c : cmp).
(* Mem reads the memory word directly: no privilege test, no I/O, no observer *)
Definition bp_check (b : bp) (s : sim) : bool :=
  match b with
  | BPc a => a =? s_pc s
  | BReg r c => cmp_check c (w_data (rget (s_regs s) r))
  | BMem a c => cmp_check c (w_data (mget (s_mem s) a))
  end.
Definition any_bp (bps : list bp) (s : sim) : bool := existsb (fun b => bp_check b s) bps.

(* ------------------------------------------------------------------ pause condition *)
Inductive pause := PHalt | PMcrOff | PBreakpoint | PTripwire | PUnsuccessful.
Definition hit_breakpoint (p : pause) : bool := match p with PBreakpoint => true | _ => false end.
Definition hit_halt (p : pause) : bool := match p with PHalt | PMcrOff => true | _ => false end.

(* ------------------------------------------------------------------ the event loop *)
Record iter := mkIter { it_pre : bool; it_mid : bool; it_env : env }.
Inductive stop := SPause (p : pause) | SErr (e : simerr) | SPanic | SFuel.
Definition tripwire := nat -> sim -> bool.

Definition clear_if (b : bool) (s : sim) : sim := if b then upd_mcr s false else s.

(* [k] = number of loop iterations that reached `step` so far (= tripwire calls so far);
   result: state, why the loop was left, number of `step` calls made *)
Fixpoint run_loop (bps : list bp) (trip : tripwire) (k : nat) (its : list iter) (s : sim) : sim * stop * nat :=
  match its with
  | [] => (s, SFuel, k)
  | it :: rest =>
      let s1 := clear_if (it_pre it) s in
      if negb (s_mcr s1) then (s1, SPause PMcrOff, k)
      else if negb (trip k s1) then (s1, SPause PTripwire, k)
      else
        match step (it_env it) (clear_if (it_mid it) s1) with
        | (s2, inl _) =>
            if any_bp bps s2 then (s2, SPause PBreakpoint, S k)
            else run_loop bps trip (S k) rest s2
        | (s2, inr BHalt) => (s2, SPause PHalt, S k)
        | (s2, inr (BErr e)) => (s2, SErr e, S k)
        | (s2, inr BPanic) => (s2, SPanic, S k)
        end
  end.

Inductive rres := ROk | RErr (e : simerr) | RPanic | RFuel.

(* run_while: observer cleared once, pause condition taken (= Unsuccessful), MCR on; loop; MCR
   off (also on the error path: the store precedes `result?`); a panic unwinds past the store *)
Definition run_while (bps : list bp) (trip : tripwire) (its : list iter) (sp : sim * pause)
  : (sim * pause) * rres * nat :=
  let s0 := upd_mcr (upd_obs (fst sp) []) true in
  let '(s1, st, n) := run_loop bps trip O its s0 in
  match st with
  | SPause p => ((upd_mcr s1 false, p), ROk, n)
  | SErr e => ((upd_mcr s1 false, PUnsuccessful), RErr e, n)
  | SPanic => ((s1, PUnsuccessful), RPanic, n)
  | SFuel => ((s1, PUnsuccessful), RFuel, n)
  end.

Definition U64 : Z := 18446744073709551616.

Definition trip_true : tripwire := fun _ _ => true.
(* sim.instructions_run.wrapping_sub(i) < max_steps *)
Definition trip_limit (i max : Z) : tripwire := fun _ s => (s_instrs s - i) mod U64 <? max.
(* first.take().is_some() || curr_frame < sim.frame_stack.len() *)
Definition trip_over (d : Z) : tripwire := fun k s => match k with O => true | S _ => d <? s_frame_no s end.
Definition trip_out (d : Z) : tripwire := fun k s => match k with O => true | S _ => d <=? s_frame_no s end.

Definition run bps its sp := run_while bps trip_true its sp.
Definition run_with_limit bps (max : Z) its (sp : sim * pause) :=
  run_while bps (trip_limit (s_instrs (fst sp)) max) its sp.
Definition step_over bps its (sp : sim * pause) :=
  run_while bps (trip_over (s_frame_no (fst sp))) its sp.
(* at depth 0 nothing at all happens: observer, MCR and pause condition keep their values *)
Definition step_out bps its (sp : sim * pause) :=
  if s_frame_no (fst sp) =? 0 then (sp, ROk, O)
  else run_while bps (trip_out (s_frame_no (fst sp))) its sp.

(* ------------------------------------------------------------------ wire *)
(* tripwires the harness passes to run_while *)
Inductive tw := TwTrue | TwInstrNe (k : Z) | TwPcNe (a : Z) | TwRegNe (r v : Z) | TwIdxLt (n : Z) | TwCount (i0 n : Z).
Definition tw_eval (t : tw) : tripwire :=
  fun k s =>
  match t with
  | TwTrue => true
  | TwInstrNe x => negb (s_instrs s =? x)
  | TwPcNe a => negb (s_pc s =? a)
  | TwRegNe r v => negb (w_data (rget (s_regs s) r) =? v)
  | TwIdxLt n => Z.of_nat k <? n
  | TwCount i0 n => (s_instrs s - i0) mod U64 <? n
  end.

Inductive call := KRun | KLimit (max : Z) | KOver | KOut | KWhile (t : tw) | KStepIn.

Definition do_call (bps : list bp) (c : call) (its : list iter) (sp : sim * pause) : (sim * pause) * rres * nat :=
  match c with
  | KRun => run bps its sp
  | KLimit max => run_with_limit bps max its sp
  | KOver => step_over bps its sp
  | KOut => step_out bps its sp
  | KWhile t => run_while bps (tw_eval t) its sp
  | KStepIn =>
      match its with
      | [] => (sp, RFuel, O)
      | it :: _ =>
          let '(s1, o) := step_in (it_env it) (fst sp) in
          ((s1, snd sp), match o with OOk | OHalt => ROk | OErr e => RErr e | OPanic => RPanic end, 1%nat)
      end
  end.

Definition as_cmp (t : tree) : option cmp :=
  match t with
  | L [I tag; I v] =>
      if tag =? 0 then Some CNever else if tag =? 1 then Some (CLt v) else if tag =? 2 then Some (CEq v)
      else if tag =? 3 then Some (CLe v) else if tag =? 4 then Some (CGt v) else if tag =? 5 then Some (CNe v)
      else if tag =? 6 then Some (CGe v) else if tag =? 7 then Some CAlways else None
  | _ => None
  end.
Definition as_bp (t : tree) : option bp :=
  match t with
  | L [I 0; I a] => Some (BPc a)
  | L [I 1; I r; c] => option_map (BReg r) (as_cmp c)
  | L [I 2; I a; c] => option_map (BMem a) (as_cmp c)
  | _ => None
  end.
Definition as_tw (t : tree) : option tw :=
  match t with
  | L [I 0] => Some TwTrue
  | L [I 1; I k] => Some (TwInstrNe k)
  | L [I 2; I a] => Some (TwPcNe a)
  | L [I 3; I r; I v] => Some (TwRegNe r v)
  | L [I 4; I n] => Some (TwIdxLt n)
  | L [I 5; I i0; I n] => Some (TwCount i0 n)
  | _ => None
  end.
Definition as_call (t : tree) : option call :=
  match t with
  | L [I 0] => Some KRun
  | L [I 1; I max] => Some (KLimit max)
  | L [I 2] => Some KOver
  | L [I 3] => Some KOut
  | L [I 4; t] => option_map KWhile (as_tw t)
  | L [I 5] => Some KStepIn
  | _ => None
  end.
Definition as_iter (t : tree) : option iter :=
  match t with
  | L [p; m; e] =>
      match as_bool p, as_bool m, as_env e with
      | Some p, Some m, Some e => Some (mkIter p m e)
      | _, _, _ => None
      end
  | _ => None
  end.
Definition as_callspec (t : tree) : option (list bp * call * list iter) :=
  match t with
  | L [b; c; i] =>
      match as_list as_bp b, as_call c, as_list as_iter i with
      | Some b, Some c, Some i => Some (b, c, i)
      | _, _, _ => None
      end
  | _ => None
  end.

(* what the public API shows of the pause condition: 1 = hit_halt(), 2 = hit_breakpoint(), 0 = neither *)
Definition pause_class (p : pause) : Z := if hit_halt p then 1 else if hit_breakpoint p then 2 else 0.

Definition t_call_result (r : rres) (p : pause) (n : nat) (s : sim) : tree :=
  match r with
  | RFuel => L [I 8]
  | RPanic => L [I (pause_class p); I (Z.of_nat n); t_observation OPanic s]
  | ROk => L [I (pause_class p); I (Z.of_nat n); t_observation OOk s]
  | RErr e => L [I (pause_class p); I (Z.of_nat n); t_observation (OErr e) s]
  end.

(* the harness reads (and thereby empties) the observer after every call *)
Fixpoint run_calls (sp : sim * pause) (cs : list (list bp * call * list iter)) (acc : list tree) : sim * list tree :=
  match cs with
  | [] => (fst sp, rev acc)
  | (b, c, i) :: r =>
      let '(sp1, res, n) := do_call b c i sp in
      let o := t_call_result res (snd sp1) n (fst sp1) in
      match res with
      | RPanic | RFuel => (fst sp1, rev (o :: acc))
      | _ => run_calls (upd_obs (fst sp1) [], snd sp1) r (o :: acc)
      end
  end.

(* run.call: (state (call ...)) with call = (breakpoints kind iteration-inputs)
   -> ((result ...) memdiff), result = (pause-class iterations observation) *)
Definition op_call (t : tree) : tree :=
  match t with
  | L [st; L cs] =>
      match as_state st, map_opt as_callspec cs with
      | Some s, Some cs =>
          let '(s', out) := run_calls (s, PUnsuccessful) cs [] in
          L [L out; mem_diff (s_mem s) (s_mem s')]
      | _, _ => t_bad
      end
  | _ => t_bad
  end.

Definition ops : op_table := [ ("run.call"%string, op_call) ].
