(* Session.v — the part of a `Simulator` that is not machine state: the breakpoint set and the pause
   status of the last run-style call (src/sim.rs: fields `breakpoints`, `pause_condition`;
   Simulator::new, Simulator::reset).  `reset` rebuilds the machine (Load.reset) and keeps the
   breakpoints; the pause status becomes that of a new simulator (PauseCondition::default() =
   Unsuccessful, so hit_halt() and hit_breakpoint() are false).
   Breakpoints are a HashSet in the code; the model keeps a list and the wire compares sorted lists. *)
From Coq Require Import ZArith List Bool String.
From Model Require Import Tree Bits Word Instr Sim SimWire Load Run.
Import ListNotations.
Open Scope Z_scope.

Record session := mkSession { ss_sim : sim; ss_bps : list bp; ss_pause : pause }.

Definition session_new (fl : flags) (fill : Z) : session := mkSession (new_sim fl fill) [] PUnsuccessful.
Definition session_reset (e : env) (fill : Z) (ss : session) : session :=
  mkSession (reset e (ss_sim ss) fill) (ss_bps ss) PUnsuccessful.

(* ------------------------------------------------------------------ wire *)
Definition t_cmp (c : cmp) : tree :=
  match c with
  | CNever => L [I 0; I 0] | CLt v => L [I 1; I v] | CEq v => L [I 2; I v] | CLe v => L [I 3; I v]
  | CGt v => L [I 4; I v] | CNe v => L [I 5; I v] | CGe v => L [I 6; I v] | CAlways => L [I 7; I 0]
  end.
Definition t_bp (b : bp) : tree :=
  match b with BPc a => L [I 0; I a] | BReg r c => L [I 1; I r; t_cmp c] | BMem a c => L [I 2; I a; t_cmp c] end.
Fixpoint as_bps (l : list tree) : option (list bp) :=
  match l with
  | [] => Some []
  | t :: r => match as_bp t, as_bps r with Some b, Some bs => Some (b :: bs) | _, _ => None end
  end.
(* pause status as the two public queries see it: 1 = hit_halt, 2 = hit_breakpoint, 0 = neither *)
Definition pause_of_class (z : Z) : pause := if z =? 1 then PHalt else if z =? 2 then PBreakpoint else PUnsuccessful.

(* session.reset: (state env fill (bp...) pause-class) -> ((bp...) pause-class pc-of-the-reset-machine) *)
Definition op_session_reset (t : tree) : tree :=
  match t with
  | L [st; e; I fill; L bps; I pcl] =>
      match as_state st, as_env e, as_bps bps with
      | Some s, Some e, Some bs =>
          let ss := session_reset e fill (mkSession s bs (pause_of_class pcl)) in
          L [t_list t_bp (ss_bps ss); I (pause_class (ss_pause ss)); I (s_pc (ss_sim ss))]
      | _, _, _ => t_bad
      end
  | _ => t_bad
  end.

Definition ops : op_table := [ ("session.reset"%string, op_session_reset) ].
