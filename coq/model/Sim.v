(* Sim.v — executable model of the instruction-level simulator (src/sim.rs, src/sim/frame.rs,
   src/sim/observer.rs, the built-in devices of src/sim/device*.rs).
   Every function returns the machine state on EVERY path (the Rust code mutates state before it
   fails).  Everything the Rust code takes from outside is an input ([env]): whether another
   thread holds the keyboard / display buffer lock during this step, and the timer draws.
   Rust panic sites that a machine state could reach are explicit [BPanic] outcomes. *)
From Coq Require Import ZArith List Bool String FMapPositive.
From Gen Require Import Constants.
From Model Require Import Tree Bits Word Instr.
Import ListNotations.
Open Scope Z_scope.

(* ------------------------------------------------------------------ constants *)
Definition USER_START := sim.USER_START.
Definition IO_START := sim.IO_START.
Definition KBSR := sim_device.KBSR.
Definition KBDR := sim_device.KBDR.
Definition DSR := sim_device.DSR.
Definition DDR := sim_device.DDR.
Definition PSR_MASK := sim.MASK.

(* ------------------------------------------------------------------ memory *)
Record mem := mkMem { m_over : PositiveMap.t word; m_fill : word }.
Definition mkey (a : Z) : positive := Z.to_pos (a + 1).
Definition mget (m : mem) (a : Z) : word :=
  match PositiveMap.find (mkey a) (m_over m) with Some w => w | None => m_fill m end.
Definition mset (m : mem) (a : Z) (w : word) : mem :=
  mkMem (PositiveMap.add (mkey a) w (m_over m)) (m_fill m).

(* ------------------------------------------------------------------ registers *)
Definition regs := list word.
Definition rget (rs : regs) (r : Z) : word := nth (Z.to_nat r) rs (mkWord 0 0).
Fixpoint set_nth {A} (l : list A) (n : nat) (x : A) : list A :=
  match l, n with
  | [], _ => []
  | _ :: t, O => x :: t
  | h :: t, S k => h :: set_nth t k x
  end.
Definition rset (rs : regs) (r : Z) (w : word) : regs := set_nth rs (Z.to_nat r) w.

(* ------------------------------------------------------------------ PSR *)
Definition psr_privileged (p : Z) : bool := Z.shiftr p 15 =? 0.
Definition psr_priority (p : Z) : Z := Z.land (Z.shiftr p 8) 7.
Definition psr_cc (p : Z) : Z := Z.land p 7.
Definition one_hot3 (c : Z) : bool := (c =? 1) || (c =? 2) || (c =? 4).
Definition psr_set_cc (p cc : Z) : Z :=
  let c := Z.land cc 7 in
  Z.lor (Z.land p 65528) (if one_hot3 c then c else 2).
Definition psr_set (data : Z) : Z := psr_set_cc (Z.land data PSR_MASK) (Z.land data 7).
Definition psr_set_privileged (p : Z) (privl : bool) : Z :=
  Z.lor (Z.land p 32767) (if privl then 0 else 32768).
Definition psr_set_priority (p prio : Z) : Z :=
  Z.lor (Z.land p 63743) (Z.shiftl (Z.land prio 7) 8).
Definition cc_of (result : Z) : Z :=
  let s := to_i16 result in if s <? 0 then 4 else if s =? 0 then 2 else 1.

(* ------------------------------------------------------------------ errors *)
Inductive simerr :=
| IllegalOpcode | InvalidInstrFormat | PrivilegeViolation | AccessViolation
| UnresolvedExternal | InterruptErr
| StrictRegSetUninit | StrictMemSetUninit | StrictIOSetUninit | StrictJmpAddrUninit
| StrictSRAddrUninit | StrictMemAddrUninit | StrictPCCurrUninit | StrictPCNextUninit
| StrictPSRSetUninit.
Definition simerr_code (e : simerr) : Z :=
  match e with
  | IllegalOpcode => 0 | InvalidInstrFormat => 1 | PrivilegeViolation => 2 | AccessViolation => 3
  | UnresolvedExternal => 4 | InterruptErr => 5 | StrictRegSetUninit => 6 | StrictMemSetUninit => 7
  | StrictIOSetUninit => 8 | StrictJmpAddrUninit => 9 | StrictSRAddrUninit => 10
  | StrictMemAddrUninit => 11 | StrictPCCurrUninit => 12 | StrictPCNextUninit => 13
  | StrictPSRSetUninit => 14
  end.
Definition is_strict_err (e : simerr) : bool := 6 <=? simerr_code e.

Inductive brk := BHalt | BErr (e : simerr) | BPanic.

(* ------------------------------------------------------------------ devices *)
Inductive irq := IVec (vect prio : Z) | IExt.
Record timer := mkTimer {
  t_enabled : bool; t_lo : Z; t_hi : Z; t_time : Z; t_vect : Z; t_prio : Z }.
Inductive dev :=
| DNull
| DKb (q : list Z) (ie : bool)
| DDs (buf : list Z)
| DTimer (t : timer)
| DScript (l : list (option irq)).   (* InterruptFromFn: one entry consumed per poll *)

Record env := mkEnv { e_kb_locked : bool; e_ds_locked : bool; e_draws : list Z }.

(* `Interrupt::vectored` clamps the priority to 0..7 *)
Definition clamp7 (p : Z) : Z := if p <? 0 then 0 else if 7 <? p then 7 else p.

(* poll one device: new device, interrupt, remaining draws *)
Definition dev_poll (e : env) (d : dev) (draws : list Z) : dev * option irq * list Z :=
  match d with
  | DNull => (d, None, draws)
  | DKb q ie =>
      let ready := negb (e_kb_locked e) && negb (match q with [] => true | _ => false end) in
      (d, if ready && ie then Some (IVec sim_device.KB_INTV sim_device.KB_INTP) else None, draws)
  | DDs _ => (d, None, draws)
  | DTimer t =>
      if negb (t_enabled t) then (d, None, draws)
      else if t_time t =? 0 then
        match draws with
        | x :: r => (DTimer (mkTimer true (t_lo t) (t_hi t) x (t_vect t) (t_prio t)),
                     (* a fresh count of 0 fires at once *)
                     (if x =? 0 then Some (IVec (t_vect t) (clamp7 (t_prio t))) else None), r)
        | [] => (d, None, [])         (* the harness always supplies the observed draw *)
        end
      else if t_time t =? 1 then
        (DTimer (mkTimer true (t_lo t) (t_hi t) 0 (t_vect t) (t_prio t)), Some (IVec (t_vect t) (clamp7 (t_prio t))), draws)
      else (DTimer (mkTimer true (t_lo t) (t_hi t) (t_time t - 1) (t_vect t) (t_prio t)), None, draws)
  | DScript l =>
      match l with
      | [] => (d, None, draws)
      | x :: r => (DScript r, match x with Some (IVec v p) => Some (IVec v (clamp7 p)) | y => y end, draws)
      end
  end.

Definition irq_key (i : irq) : Z := match i with IVec _ p => Z.land p 7 | IExt => 8 end.
(* Iterator::max_by_key keeps the LAST maximum *)
Definition pick_irq (best : option irq) (i : option irq) : option irq :=
  match best, i with
  | _, None => best
  | None, Some _ => i
  | Some b, Some x => if irq_key b <=? irq_key x then i else best
  end.
Fixpoint poll_all (e : env) (ds : list dev) (draws : list Z) (best : option irq)
  : list dev * option irq * list Z :=
  match ds with
  | [] => ([], best, draws)
  | d :: r =>
      let '(d', i, draws') := dev_poll e d draws in
      let '(r', best', draws'') := poll_all e r draws' (pick_irq best i) in
      (d' :: r', best', draws'')
  end.

(* port table: the keyboard and display ports are fixed; every other I/O port is unowned *)
Definition port_dev (addr : Z) : Z :=
  if (addr =? KBSR) || (addr =? KBDR) then sim_device.KB_DEV
  else if (addr =? DSR) || (addr =? DDR) then sim_device.DS_DEV else 0.

Definition dev_read (e : env) (d : dev) (addr : Z) (effectful : bool) : dev * option Z :=
  match d with
  | DKb q ie =>
      if addr =? KBSR then
        let ready := negb (e_kb_locked e) && negb (match q with [] => true | _ => false end) in
        (d, Some ((if ready then 32768 else 0) + (if ie then 16384 else 0)))
      else if addr =? KBDR then
        if e_kb_locked e then (d, None)
        else match q with
             | [] => (d, None)
             | c :: r => if effectful then (DKb r ie, Some c) else (d, Some c)
             end
      else (d, None)
  | DDs _ =>
      if addr =? DSR then (d, Some (if e_ds_locked e then 0 else 32768)) else (d, None)
  | _ => (d, None)
  end.
Definition dev_write (e : env) (d : dev) (addr data : Z) : dev * bool :=
  match d with
  | DKb q _ => if addr =? KBSR then (DKb q (Z.testbit data 14), true) else (d, false)
  | DDs buf =>
      if addr =? DDR then
        if e_ds_locked e then (d, false) else (DDs (buf ++ [data mod 256]), true)
      else (d, false)
  | _ => (d, false)
  end.

(* ------------------------------------------------------------------ frames *)
Inductive ftype := FSubroutine | FTrap | FInterrupt.
Inductive plist := PCC (n : Z) | PBR (rs : list Z).
Record frame := mkFrame {
  f_caller : Z; f_callee : Z; f_type : ftype; f_fp : option word; f_args : list word }.
Definition trap_defn (v : Z) : option plist :=
  if v =? 32 then Some (PBR []) else if v =? 33 then Some (PBR [0]) else if v =? 34 then Some (PBR [0])
  else if v =? 35 then Some (PBR []) else if v =? 36 then Some (PBR [0]) else if v =? 37 then Some (PBR [])
  else None.

(* ------------------------------------------------------------------ internal registers *)
Inductive ireg := RegPC | RegPSR | RegMCR | RegSavedSP.

(* ------------------------------------------------------------------ machine state *)
Record flags := mkFlags { fl_strict : bool; fl_real : bool; fl_debug_frames : bool; fl_ignore_priv : bool }.

Record sim := mkSim {
  s_mem : mem;
  s_regs : regs;
  s_pc : Z;
  s_psr : Z;
  s_saved_sp : word;
  s_frame_no : Z;
  s_frames : option (list frame);       (* newest first *)
  s_sr_defns : list (Z * plist);
  s_alloca : list (Z * Z);
  s_instrs : Z;
  s_prefetch : bool;
  s_obs : list (Z * Z);                 (* access observer: sorted by address, flag bits 1/2/4 *)
  s_mcr : bool;
  s_flags : flags;
  s_ireg : list (Z * ireg);
  s_devs : list dev
}.

(* field updates *)
Definition upd_mem (s : sim) (m : mem) := mkSim m (s_regs s) (s_pc s) (s_psr s) (s_saved_sp s) (s_frame_no s) (s_frames s) (s_sr_defns s) (s_alloca s) (s_instrs s) (s_prefetch s) (s_obs s) (s_mcr s) (s_flags s) (s_ireg s) (s_devs s).
Definition upd_regs (s : sim) (r : regs) := mkSim (s_mem s) r (s_pc s) (s_psr s) (s_saved_sp s) (s_frame_no s) (s_frames s) (s_sr_defns s) (s_alloca s) (s_instrs s) (s_prefetch s) (s_obs s) (s_mcr s) (s_flags s) (s_ireg s) (s_devs s).
Definition upd_pc (s : sim) (pc : Z) := mkSim (s_mem s) (s_regs s) pc (s_psr s) (s_saved_sp s) (s_frame_no s) (s_frames s) (s_sr_defns s) (s_alloca s) (s_instrs s) (s_prefetch s) (s_obs s) (s_mcr s) (s_flags s) (s_ireg s) (s_devs s).
Definition upd_psr (s : sim) (p : Z) := mkSim (s_mem s) (s_regs s) (s_pc s) p (s_saved_sp s) (s_frame_no s) (s_frames s) (s_sr_defns s) (s_alloca s) (s_instrs s) (s_prefetch s) (s_obs s) (s_mcr s) (s_flags s) (s_ireg s) (s_devs s).
Definition upd_saved_sp (s : sim) (w : word) := mkSim (s_mem s) (s_regs s) (s_pc s) (s_psr s) w (s_frame_no s) (s_frames s) (s_sr_defns s) (s_alloca s) (s_instrs s) (s_prefetch s) (s_obs s) (s_mcr s) (s_flags s) (s_ireg s) (s_devs s).
Definition upd_frames (s : sim) (n : Z) (f : option (list frame)) := mkSim (s_mem s) (s_regs s) (s_pc s) (s_psr s) (s_saved_sp s) n f (s_sr_defns s) (s_alloca s) (s_instrs s) (s_prefetch s) (s_obs s) (s_mcr s) (s_flags s) (s_ireg s) (s_devs s).
Definition upd_instrs (s : sim) (n : Z) := mkSim (s_mem s) (s_regs s) (s_pc s) (s_psr s) (s_saved_sp s) (s_frame_no s) (s_frames s) (s_sr_defns s) (s_alloca s) n (s_prefetch s) (s_obs s) (s_mcr s) (s_flags s) (s_ireg s) (s_devs s).
Definition upd_prefetch (s : sim) (b : bool) := mkSim (s_mem s) (s_regs s) (s_pc s) (s_psr s) (s_saved_sp s) (s_frame_no s) (s_frames s) (s_sr_defns s) (s_alloca s) (s_instrs s) b (s_obs s) (s_mcr s) (s_flags s) (s_ireg s) (s_devs s).
Definition upd_obs (s : sim) (o : list (Z * Z)) := mkSim (s_mem s) (s_regs s) (s_pc s) (s_psr s) (s_saved_sp s) (s_frame_no s) (s_frames s) (s_sr_defns s) (s_alloca s) (s_instrs s) (s_prefetch s) o (s_mcr s) (s_flags s) (s_ireg s) (s_devs s).
Definition upd_mcr (s : sim) (b : bool) := mkSim (s_mem s) (s_regs s) (s_pc s) (s_psr s) (s_saved_sp s) (s_frame_no s) (s_frames s) (s_sr_defns s) (s_alloca s) (s_instrs s) (s_prefetch s) (s_obs s) b (s_flags s) (s_ireg s) (s_devs s).
Definition upd_devs (s : sim) (d : list dev) := mkSim (s_mem s) (s_regs s) (s_pc s) (s_psr s) (s_saved_sp s) (s_frame_no s) (s_frames s) (s_sr_defns s) (s_alloca s) (s_instrs s) (s_prefetch s) (s_obs s) (s_mcr s) (s_flags s) (s_ireg s) d.
Definition upd_alloca (s : sim) (a : list (Z * Z)) := mkSim (s_mem s) (s_regs s) (s_pc s) (s_psr s) (s_saved_sp s) (s_frame_no s) (s_frames s) (s_sr_defns s) a (s_instrs s) (s_prefetch s) (s_obs s) (s_mcr s) (s_flags s) (s_ireg s) (s_devs s).

(* ------------------------------------------------------------------ state-and-failure monad *)
Definition M (A : Type) := sim -> sim * (A + brk).
Definition ret {A} (a : A) : M A := fun s => (s, inl a).
Definition fail {A} (b : brk) : M A := fun s => (s, inr b).
Definition err {A} (e : simerr) : M A := fail (BErr e).
Definition bind {A B} (m : M A) (k : A -> M B) : M B :=
  fun s => match m s with (s', inl a) => k a s' | (s', inr b) => (s', inr b) end.
Definition get : M sim := fun s => (s, inl s).
Definition modify (f : sim -> sim) : M unit := fun s => (f s, inl tt).
Notation "x <- m ;; k" := (bind m (fun x => k)) (at level 61, m at next level, right associativity).
Notation "m ;;; k" := (bind m (fun _ => k)) (at level 61, right associativity).
Definition of_opt {A} (o : option A) (e : simerr) : M A :=
  match o with Some a => ret a | None => err e end.

(* ------------------------------------------------------------------ observer *)
Fixpoint obs_update (o : list (Z * Z)) (a f : Z) : list (Z * Z) :=
  match o with
  | [] => [(a, f)]
  | (a', f') :: r =>
      if a =? a' then (a', Z.lor f' f) :: r
      else if a <? a' then (a, f) :: o
      else (a', f') :: obs_update r a f
  end.
Definition OBS_READ := 1. Definition OBS_WRITTEN := 2. Definition OBS_MODIFIED := 4.

(* ------------------------------------------------------------------ memory access *)
Record ctx := mkCtx { c_priv : bool; c_strict : bool; c_io : bool; c_track : bool }.
Definition default_ctx (s : sim) : ctx :=
  mkCtx (psr_privileged (s_psr s) || fl_ignore_priv (s_flags s)) (fl_strict (s_flags s)) true true.

Fixpoint assoc {A} (l : list (Z * A)) (k : Z) : option A :=
  match l with [] => None | (k', v) :: r => if k =? k' then Some v else assoc r k end.

Definition in_user (a : Z) : bool := (USER_START <=? a) && (a <? IO_START).

Definition ireg_read (s : sim) (r : ireg) : Z :=
  match r with
  | RegPC => s_pc s
  | RegPSR => s_psr s
  | RegMCR => if s_mcr s then 32768 else 0
  | RegSavedSP => w_data (s_saved_sp s)
  end.
Definition ireg_write (s : sim) (r : ireg) (data : Z) : sim :=
  match r with
  | RegPC => upd_pc s data
  | RegPSR => upd_psr s (psr_set data)
  | RegMCR => upd_mcr s (32768 <=? data)
  | RegSavedSP => upd_saved_sp s (new_init data)
  end.

Definition nth_dev (ds : list dev) (i : Z) : dev := nth (Z.to_nat i) ds DNull.

Definition read_mem (e : env) (addr : Z) (c : ctx) : M word :=
  fun s =>
  if negb (c_priv c) && negb (in_user addr) then (s, inr (BErr AccessViolation))
  else
    let s1 :=
      if IO_START <=? addr then
        match assoc (s_ireg s) addr with
        | Some r => upd_mem s (mset (s_mem s) addr (new_init (ireg_read s r)))
        | None =>
            let id := port_dev addr in
            let '(d', v) := dev_read e (nth_dev (s_devs s) id) addr (c_io c) in
            let s' := upd_devs s (set_nth (s_devs s) (Z.to_nat id) d') in
            match v with
            | Some data => upd_mem s' (mset (s_mem s') addr (new_init data))
            | None => s'
            end
        end
      else s in
    let s2 := if c_track c then upd_obs s1 (obs_update (s_obs s1) addr OBS_READ) else s1 in
    (s2, inl (mget (s_mem s2) addr)).

Definition write_mem (e : env) (addr : Z) (data : word) (c : ctx) : M unit :=
  fun s =>
  if negb (c_priv c) && negb (in_user addr) then (s, inr (BErr AccessViolation))
  else
    let io : sim * (bool + brk) :=
      if IO_START <=? addr then
        match get_if_init data (c_strict c) with
        | None => (s, inr (BErr StrictIOSetUninit))
        | Some io_data =>
            match assoc (s_ireg s) addr with
            | Some r => (ireg_write s r io_data, inl true)
            | None =>
                let id := port_dev addr in
                let '(d', ok) := dev_write e (nth_dev (s_devs s) id) addr io_data in
                (upd_devs s (set_nth (s_devs s) (Z.to_nat id) d'), inl ok)
            end
        end
      else (s, inl true) in
    match io with
    | (s1, inr b) => (s1, inr b)
    | (s1, inl false) => (s1, inl tt)
    | (s1, inl true) =>
        let s2 :=
          if c_track c then
            let o := obs_update (s_obs s1) addr OBS_WRITTEN in
            let o := if negb (word_eqb (mget (s_mem s1) addr) data) then obs_update o addr OBS_MODIFIED else o in
            upd_obs s1 o
          else s1 in
        match set_if_init data (c_strict c) with
        | Some w => (upd_mem s2 (mset (s_mem s2) addr w), inl tt)
        | None => (s2, inr (BErr StrictMemSetUninit))
        end
    end.

(* ------------------------------------------------------------------ helpers of the step *)
Definition strict (s : sim) : bool := fl_strict (s_flags s).

Definition set_cc (result : Z) : M unit :=
  modify (fun s => upd_psr s (psr_set_cc (s_psr s) (cc_of result))).

(* set_pc: the strict "next value initialised" test looks at the memory word directly, without
   privilege check, I/O effect or observer update *)
Definition set_pc (addr_word : word) (st_check_mem : bool) : M unit :=
  s <- get ;;
  addr <- of_opt (get_if_init addr_word (strict s)) StrictJmpAddrUninit ;;
  (if strict s && st_check_mem && negb (is_init (mget (s_mem s) addr))
   then err StrictPCNextUninit else ret tt) ;;;
  modify (fun s => upd_pc s addr).

Definition offset_pc (off : Z) (st_check_mem : bool) : M unit :=
  s <- get ;; set_pc (new_init (wrap16 (s_pc s + off))) st_check_mem.

(* prefetch_pc: pc - (!prefetch) with wrapping subtraction *)
Definition prefetch_pc (s : sim) : Z := wrap16 (s_pc s - (if s_prefetch s then 0 else 1)).

Fixpoint count_le (l : list (Z * Z)) (a : Z) : nat :=
  match l with [] => O | (st, _) :: r => if st <=? a then S (count_le r a) else O end.
Definition in_alloca (s : sim) (addr : Z) : bool :=
  match count_le (s_alloca s) addr with
  | O => false
  | S k => match nth_error (s_alloca s) k with
           | Some (st, len) => if st + len <=? 65535 then addr <? st + len else true
           | None => false
           end
  end.

Fixpoint seqz (start : Z) (n : nat) : list Z :=
  match n with O => [] | S k => start :: seqz (start + 1) k end.

Definition push_frame (caller callee : Z) (ft : ftype) : M unit :=
  modify (fun s =>
    let n := s_frame_no s + 1 in
    match s_frames s with
    | None => upd_frames s n None
    | Some fs =>
        let pl := match ft with
                  | FSubroutine => assoc (s_sr_defns s) callee
                  | FTrap => if callee <? 256 then trap_defn callee else None
                  | FInterrupt => assoc (s_sr_defns s) callee
                  end in
        let '(fp, args) :=
          match pl with
          | Some (PCC k) =>
              let fp := w_sub (rget (s_regs s) 6) (new_init 4) in
              (Some fp, map (fun i => mget (s_mem s) (wrap16 (wrap16 (w_data fp + 4) + i))) (seqz 0 (Z.to_nat k)))
          | Some (PBR rs) => (None, map (fun r => rget (s_regs s) r) rs)
          | None => (None, [])
          end in
        upd_frames s n (Some (mkFrame caller callee ft fp args :: fs))
    end).
Definition pop_frame : M unit :=
  modify (fun s =>
    upd_frames s (Z.max 0 (s_frame_no s - 1))
               (match s_frames s with Some (_ :: r) => Some r | x => x end)).

Definition call_subroutine (addr : Z) : M unit :=
  modify (fun s => upd_regs s (rset (s_regs s) 7 (new_init (s_pc s)))) ;;;
  s <- get ;;
  push_frame (prefetch_pc s) addr FSubroutine ;;;
  set_pc (new_init addr) true.

Definition call_interrupt (e : env) (vect : Z) (ft : ftype) : M unit :=
  s <- get ;;
  w <- read_mem e vect (default_ctx s) ;;
  s <- get ;;
  addr <- of_opt (get_if_init w (strict s)) StrictSRAddrUninit ;;
  push_frame (prefetch_pc s) vect ft ;;;
  set_pc (new_init addr) true.

(* RealIntVect *)
Definition real_int_vect (vect : Z) : option brk :=
  if vect =? 37 then Some BHalt
  else if vect =? 256 then Some (BErr PrivilegeViolation)
  else if vect =? 257 then Some (BErr IllegalOpcode)
  else if vect =? 258 then Some (BErr AccessViolation)
  else None.

Definition swap_sp : M unit :=
  modify (fun s => upd_saved_sp (upd_regs s (rset (s_regs s) 6 (s_saved_sp s))) (rget (s_regs s) 6)).

(* the virtual short-cut applies to traps and exceptions only (priority = None) *)
Definition handle_interrupt (e : env) (vect : Z) (priority : option Z) : M unit :=
  s <- get ;;
  match priority with
  | Some p => if p <=? psr_priority (s_psr s) then ret tt else
      (* device interrupt *)
      (if negb (psr_privileged (s_psr s)) then swap_sp else ret tt) ;;;
      s <- get ;;
      let old_psr := s_psr s in let old_pc := s_pc s in
      modify (fun s => upd_psr s (psr_set_privileged (s_psr s) true)) ;;;
      s <- get ;;
      let mctx := default_ctx s in
      sp <- of_opt (get_if_init (rget (s_regs s) 6) (strict s)) StrictMemAddrUninit ;;
      modify (fun s => upd_regs s (rset (s_regs s) 6 (w_sub (rget (s_regs s) 6) (new_init 2)))) ;;;
      write_mem e (wrap16 (sp - 1)) (new_init old_psr) mctx ;;;
      write_mem e (wrap16 (sp - 2)) (new_init old_pc) mctx ;;;
      modify (fun s => upd_psr s (psr_set_priority (psr_set_cc (s_psr s) 2) p)) ;;;
      call_interrupt e vect FInterrupt
  | None =>
      match (if fl_real (s_flags s) then None else real_int_vect vect) with
      | Some b =>
          (if negb (s_prefetch s) then offset_pc (-1) false ;;; modify (fun s => upd_prefetch s true) else ret tt) ;;;
          fail b
      | None =>
          (if negb (psr_privileged (s_psr s)) then swap_sp else ret tt) ;;;
          s <- get ;;
          let old_psr := s_psr s in let old_pc := s_pc s in
          modify (fun s => upd_psr s (psr_set_privileged (s_psr s) true)) ;;;
          s <- get ;;
          let mctx := default_ctx s in
          sp <- of_opt (get_if_init (rget (s_regs s) 6) (strict s)) StrictMemAddrUninit ;;
          modify (fun s => upd_regs s (rset (s_regs s) 6 (w_sub (rget (s_regs s) 6) (new_init 2)))) ;;;
          write_mem e (wrap16 (sp - 1)) (new_init old_psr) mctx ;;;
          write_mem e (wrap16 (sp - 2)) (new_init old_pc) mctx ;;;
          modify (fun s => upd_psr s (psr_set_cc (s_psr s) 2)) ;;;
          call_interrupt e vect FTrap
      end
  end.

Definition set_reg_if_init (dr : Z) (v : word) (st : bool) : M unit :=
  w <- of_opt (set_if_init v st) StrictRegSetUninit ;;
  modify (fun s => upd_regs s (rset (s_regs s) dr w)).

Definition operand (s : sim) (o : imm_or_reg) : word :=
  match o with Imm v => new_init (to_u16 v) | RegOp r => rget (s_regs s) r end.

Definition exec (e : env) (i : sim_instr) : M unit :=
  s <- get ;;
  let st := strict s in
  match i with
  | SBR cc off =>
      if negb (Z.land cc (psr_cc (s_psr s)) =? 0) then offset_pc off true else ret tt
  | SADD dr sr1 o =>
      let result := w_add (rget (s_regs s) sr1) (operand s o) in
      set_reg_if_init dr result st ;;; set_cc (w_data result)
  | SAND dr sr1 o =>
      let result := w_and (rget (s_regs s) sr1) (operand s o) in
      set_reg_if_init dr result st ;;; set_cc (w_data result)
  | SNOT dr sr =>
      let result := w_not (rget (s_regs s) sr) in
      set_reg_if_init dr result st ;;; set_cc (w_data result)
  | SLD dr off =>
      let ea := wrap16 (s_pc s + off) in
      let ws := st && negb (in_alloca s ea) in
      v <- read_mem e ea (default_ctx s) ;;
      set_reg_if_init dr v ws ;;; set_cc (w_data v)
  | SST sr off =>
      let ea := wrap16 (s_pc s + off) in
      let c := default_ctx s in
      write_mem e ea (rget (s_regs s) sr) (mkCtx (c_priv c) (st && negb (in_alloca s ea)) (c_io c) (c_track c))
  | SJSR o =>
      let w := match o with Imm off => new_init (wrap16 (s_pc s + off)) | RegOp br => rget (s_regs s) br end in
      addr <- of_opt (get_if_init w st) StrictSRAddrUninit ;;
      call_subroutine addr
  | SLDR dr br off =>
      b <- of_opt (get_if_init (rget (s_regs s) br) st) StrictMemAddrUninit ;;
      let ea := wrap16 (b + off) in
      let ws := st && negb (br =? 6) && negb (in_alloca s ea) in
      v <- read_mem e ea (default_ctx s) ;;
      set_reg_if_init dr v ws ;;; set_cc (w_data v)
  | SSTR sr br off =>
      b <- of_opt (get_if_init (rget (s_regs s) br) st) StrictMemAddrUninit ;;
      let ea := wrap16 (b + off) in
      let c := default_ctx s in
      write_mem e ea (rget (s_regs s) sr) (mkCtx (c_priv c) (st && negb (br =? 6) && negb (in_alloca s ea)) (c_io c) (c_track c))
  | SRTI =>
      if psr_privileged (s_psr s) || fl_ignore_priv (s_flags s) then
        let mctx := default_ctx s in
        sp <- of_opt (get_if_init (rget (s_regs s) 6) st) StrictMemAddrUninit ;;
        w1 <- read_mem e sp mctx ;;
        pc <- of_opt (get_if_init w1 st) StrictJmpAddrUninit ;;
        w2 <- read_mem e (wrap16 (sp + 1)) mctx ;;
        psr <- of_opt (get_if_init w2 st) StrictPSRSetUninit ;;
        modify (fun s => upd_regs s (rset (s_regs s) 6 (w_add (rget (s_regs s) 6) (new_init 2)))) ;;;
        set_pc (new_init pc) true ;;;
        modify (fun s => upd_psr s psr) ;;;
        (if negb (psr_privileged psr) then swap_sp else ret tt) ;;;
        pop_frame
      else err PrivilegeViolation
  | SLDI dr off =>
      w <- read_mem e (wrap16 (s_pc s + off)) (default_ctx s) ;;
      ea <- of_opt (get_if_init w st) StrictMemAddrUninit ;;
      s' <- get ;;
      let ws := st && negb (in_alloca s' ea) in
      v <- read_mem e ea (default_ctx s') ;;
      set_reg_if_init dr v ws ;;; set_cc (w_data v)
  | SSTI sr off =>
      w <- read_mem e (wrap16 (s_pc s + off)) (default_ctx s) ;;
      ea <- of_opt (get_if_init w st) StrictMemAddrUninit ;;
      s' <- get ;;
      let c := default_ctx s' in
      write_mem e ea (rget (s_regs s') sr) (mkCtx (c_priv c) (st && negb (in_alloca s' ea)) (c_io c) (c_track c))
  | SJMP br =>
      set_pc (rget (s_regs s) br) true ;;;
      (if br =? 7 then pop_frame else ret tt)
  | SLEA dr off =>
      modify (fun s => upd_regs s (rset (s_regs s) dr (new_init (wrap16 (s_pc s + off)))))
  | STRAP v => handle_interrupt e v None
  end.

Definition decode_m (w : Z) : M sim_instr :=
  match decode w with
  | DOk i => ret i
  | DIllegalOpcode => err IllegalOpcode
  | DInvalidFormat => err InvalidInstrFormat
  | DPanic => fail BPanic
  end.

Definition step_inner (e : env) : M unit :=
  modify (fun s => upd_prefetch s true) ;;;
  s <- get ;;
  let '(ds, i, _) := poll_all e (s_devs s) (e_draws e) None in
  modify (fun s => upd_devs s ds) ;;;
  let fetch_exec : M unit :=
    s <- get ;;
    w <- read_mem e (s_pc s) (default_ctx s) ;;
    word <- of_opt (get_if_init w (strict s)) StrictPCCurrUninit ;;
    instr <- decode_m word ;;
    offset_pc 1 false ;;;
    modify (fun s => upd_prefetch s false) ;;;
    exec e instr ;;;
    modify (fun s => upd_instrs s ((s_instrs s + 1) mod 18446744073709551616)) in
  match i with
  | Some (IVec vect prio) =>
      if psr_priority (s_psr s) <? prio then handle_interrupt e (256 + vect) (Some prio)
      else fetch_exec
  | Some IExt => err InterruptErr
  | None => fetch_exec
  end.

Definition step (e : env) : M unit :=
  fun s =>
  let '(s1, r) := step_inner e s in
  if negb (fl_real (s_flags s1)) then (s1, r)
  else match r with
       | inr BHalt => handle_interrupt e 37 None s1
       | inr (BErr PrivilegeViolation) => handle_interrupt e 256 None s1
       | inr (BErr IllegalOpcode) => handle_interrupt e 257 None s1
       | inr (BErr InvalidInstrFormat) => handle_interrupt e 257 None s1
       | inr (BErr AccessViolation) => handle_interrupt e 258 None s1
       | _ => (s1, r)
       end.

(* step_in: clears the observer, a virtual HALT is not an error *)
Inductive outcome := OOk | OHalt | OErr (e : simerr) | OPanic.
Definition step_in (e : env) (s : sim) : sim * outcome :=
  let '(s1, r) := step e (upd_obs s []) in
  (s1, match r with inl _ => OOk | inr BHalt => OHalt | inr (BErr x) => OErr x | inr BPanic => OPanic end).
