(* SimWire.v — wire encoding of simulator states, environments and per-step observations, and
   the operations `sim.run` / `sim.new` / `sim.load` / `sim.reset` used by the correspondence
   check (mirrors harness/src/simwire.rs). *)
From Coq Require Import ZArith List Bool String FMapPositive.
From Gen Require Import Constants OsImage.
From Model Require Import Tree Bits Word Instr Sim Load.
Import ListNotations.
Open Scope Z_scope.

Definition as_words (t : tree) : option (list word) := as_list as_word t.

Definition as_flags (t : tree) : option flags :=
  match t with
  | L [a; b; c; d] =>
      match as_bool a, as_bool b, as_bool c, as_bool d with
      | Some a, Some b, Some c, Some d => Some (mkFlags a b c d)
      | _, _, _, _ => None
      end
  | _ => None
  end.

Definition as_irq_entry (t : tree) : option (option irq) :=
  match t with
  | L [] => Some None
  | L [I 0; I v; I p] => Some (Some (IVec v p))
  | L [I 1] => Some (Some IExt)
  | _ => None
  end.
Definition as_dev (t : tree) : option dev :=
  match t with
  | L [I 0] => Some DNull
  | L [I 1; q; ie] => match as_zs q, as_bool ie with Some q, Some ie => Some (DKb q ie) | _, _ => None end
  | L [I 2; b] => option_map DDs (as_zs b)
  | L [I 3; en; I lo; I hi; I time; I v; I p] =>
      match as_bool en with Some en => Some (DTimer (mkTimer en lo hi time v p)) | None => None end
  | L [I 4; l] => option_map DScript (as_list as_irq_entry l)
  | _ => None
  end.
Definition t_dev (d : dev) : tree :=
  match d with
  | DNull => L [I 0]
  | DKb q ie => L [I 1; t_zs q; t_bool ie]
  | DDs b => L [I 2; t_zs b]
  | DTimer t => L [I 3; t_bool (t_enabled t); I (t_lo t); I (t_hi t); I (t_time t); I (t_vect t); I (t_prio t)]
  | DScript l => L [I 4; I (Z.of_nat (List.length l))]
  end.

Definition as_plist (t : tree) : option plist :=
  match t with
  | L [I 0; I n] => Some (PCC n)
  | L [I 1; rs] => option_map PBR (as_zs rs)
  | _ => None
  end.
Definition as_ftype (z : Z) : ftype := if z =? 0 then FSubroutine else if z =? 1 then FTrap else FInterrupt.
Definition t_ftype (f : ftype) : tree := I (match f with FSubroutine => 0 | FTrap => 1 | FInterrupt => 2 end).
Definition as_frame (t : tree) : option frame :=
  match t with
  | L [I a; I b; I ft; fp; args] =>
      match as_opt as_word fp, as_words args with
      | Some fp, Some args => Some (mkFrame a b (as_ftype ft) fp args)
      | _, _ => None
      end
  | _ => None
  end.
Definition t_frame (f : frame) : tree :=
  L [I (f_caller f); I (f_callee f); t_ftype (f_type f); t_opt t_word (f_fp f); t_list t_word (f_args f)].

Definition as_ireg (z : Z) : ireg :=
  if z =? 0 then RegPC else if z =? 1 then RegPSR else if z =? 2 then RegMCR else RegSavedSP.
Definition as_pairs (t : tree) : option (list (Z * Z)) :=
  as_list (fun x => match x with L [I a; I b] => Some (a, b) | _ => None end) t.

Fixpoint apply_overrides (m : mem) (l : list tree) : option mem :=
  match l with
  | [] => Some m
  | L [I a; I d; I i] :: r => apply_overrides (mset m a (mkWord d i)) r
  | _ => None
  end.

(* state := (flags (fill overrides) regs pc psr saved_sp frame_no frames sr_defns alloca instrs
             prefetch obs mcr ireg devs) *)
Definition as_state (t : tree) : option sim :=
  match t with
  | L [fl; L [I fill; L ov]; rs; I pc; I psr; ssp; I fno; frs; srd; al; I ins; pf; ob; mcr; ir; dv] =>
      match as_flags fl, as_words rs, as_word ssp, as_opt (as_list as_frame) frs,
            as_list (fun x => match x with L [I a; p] => option_map (pair a) (as_plist p) | _ => None end) srd,
            as_pairs al, as_bool pf, as_pairs ob, as_bool mcr, as_pairs ir, as_list as_dev dv with
      | Some fl, Some rs, Some ssp, Some frs, Some srd, Some al, Some pf, Some ob, Some mcr, Some ir, Some dv =>
          let base := new_sim fl fill in
          match apply_overrides (s_mem base) ov with
          | Some m =>
              Some (mkSim m rs pc psr ssp fno (option_map (@rev frame) frs) srd al ins pf ob mcr fl
                          (map (fun p => (fst p, as_ireg (snd p))) ir) dv)
          | None => None
          end
      | _, _, _, _, _, _, _, _, _, _, _ => None
      end
  | _ => None
  end.

Definition as_env (t : tree) : option env :=
  match t with
  | L [k; d; dr] =>
      match as_bool k, as_bool d, as_zs dr with
      | Some k, Some d, Some dr => Some (mkEnv k d dr)
      | _, _, _ => None
      end
  | _ => None
  end.

Definition t_outcome (o : outcome) : tree :=
  match o with
  | OOk => L [I 0] | OHalt => L [I 0] (* step_in reports a virtual HALT as Ok *) | OErr e => L [I 2; I (simerr_code e)] | OPanic => L [I 3]
  end.

(* what is observed after every step *)
Definition t_observation (o : outcome) (s : sim) : tree :=
  match o with
  | OPanic => L [t_outcome o]
  | _ =>
    L [ t_outcome o; I (s_pc s); I (s_psr s); t_word (s_saved_sp s); t_list t_word (s_regs s);
        t_bool (s_prefetch s); I (prefetch_pc s); I (s_instrs s); I (s_frame_no s); t_bool (s_mcr s);
        t_list (fun p => let w := mget (s_mem s) (fst p) in L [I (fst p); I (snd p); I (w_data w); I (w_init w)]) (s_obs s);
        t_list t_dev (s_devs s);
        t_opt (fun fs => t_list t_frame (rev fs)) (s_frames s) ]
  end.

Fixpoint ins_sorted (x : Z * word) (l : list (Z * word)) : list (Z * word) :=
  match l with
  | [] => [x]
  | y :: r => if fst x <? fst y then x :: l else y :: ins_sorted x r
  end.
Definition mem_diff (m0 m1 : mem) : tree :=
  let changed := PositiveMap.fold (fun k w acc =>
                    let a := Zpos k - 1 in
                    if word_eqb (mget m0 a) w then acc else ins_sorted (a, w) acc) (m_over m1) [] in
  t_list (fun p => L [I (fst p); I (w_data (snd p)); I (w_init (snd p))]) changed.

Fixpoint run_steps (s : sim) (es : list env) (acc : list tree) : sim * list tree :=
  match es with
  | [] => (s, rev acc)
  | e :: r =>
      let '(s', o) := step_in e s in
      match o with
      | OPanic => (s', rev (t_observation o s' :: acc))
      | _ => run_steps s' r (t_observation o s' :: acc)
      end
  end.

Definition op_run (t : tree) : tree :=
  match t with
  | L [st; L es] =>
      match as_state st, map_opt as_env es with
      | Some s, Some es =>
          let '(s', obs) := run_steps s es [] in
          L [L obs; mem_diff (s_mem s) (s_mem s')]
      | _, _ => t_bad
      end
  | _ => t_bad
  end.

(* full dump of the non-memory state (used by sim.new / sim.load / sim.reset) *)
Definition t_state_rest (s : sim) : tree :=
  L [ I (s_pc s); I (s_psr s); t_word (s_saved_sp s); t_list t_word (s_regs s); t_bool (s_prefetch s);
      I (s_instrs s); I (s_frame_no s); t_bool (s_mcr s);
      t_list (fun p => L [I (fst p); I (snd p)]) (s_alloca s);
      t_list t_dev (s_devs s) ].

(* sim.new: (flags fill (addr...)) -> the words at the queried addresses and the rest of the state *)
Definition op_new (t : tree) : tree :=
  match t with
  | L [fl; I fill; q] =>
      match as_flags fl, as_zs q with
      | Some fl, Some q =>
          let s := new_sim fl fill in
          L [t_list (fun a => t_word (mget (s_mem s) a)) q; t_state_rest s]
      | _, _ => t_bad
      end
  | _ => t_bad
  end.

Definition as_blocks (t : tree) : option (list (Z * list (option Z))) :=
  as_list (fun x => match x with L [I a; ws] => option_map (pair a) (as_list (as_opt as_z) ws) | _ => None end) t.

(* sim.load: (state blocks has_external) -> (0 memdiff rest) | (1) unresolved | (2) panic *)
Definition op_load (t : tree) : tree :=
  match t with
  | L [st; bs; he] =>
      match as_state st, as_blocks bs, as_bool he with
      | Some s, Some bs, Some he =>
          match load_obj s bs he with
          | LoadOk s' => t_ok [mem_diff (s_mem s) (s_mem s'); t_state_rest s']
          | LoadUnresolved => t_err []
          | LoadPanic => t_panic
          end
      | _, _, _ => t_bad
      end
  | _ => t_bad
  end.

(* sim.reset: (state env fill (addr...)) -> words at the queried addresses and the rest *)
Definition op_reset (t : tree) : tree :=
  match t with
  | L [st; e; I fill; q] =>
      match as_state st, as_env e, as_zs q with
      | Some s, Some e, Some q =>
          let s' := reset e s fill in
          L [t_list (fun a => t_word (mget (s_mem s') a)) q; t_state_rest s';
             t_list (fun p => L [I (fst p); I (match snd p with RegPC => 0 | RegPSR => 1 | RegMCR => 2 | RegSavedSP => 3 end)]) (s_ireg s')]
      | _, _, _ => t_bad
      end
  | _ => t_bad
  end.

Definition ops : op_table :=
  [ ("sim.run"%string, op_run); ("sim.new"%string, op_new);
    ("sim.load"%string, op_load); ("sim.reset"%string, op_reset) ].
