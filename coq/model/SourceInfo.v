(* SourceInfo.v — model of `SourceInfo` (src/asm.rs): newline index, line count, line spans,
   trimmed lines, position pairs.  The source is a list of code points; every index is a BYTE
   offset into its UTF-8 encoding, as in the Rust code (`str::len`, `match_indices`, slicing). *)
From Coq Require Import ZArith List Bool String.
From Model Require Import Tree Text.
Import ListNotations.
Open Scope Z_scope.

(* `char::is_whitespace` (Unicode White_Space), used by str::trim_start/trim_end *)
Definition is_ws (c : Z) : bool :=
  ((9 <=? c) && (c <=? 13)) || (c =? 32) || (c =? 133) || (c =? 160) || (c =? 5760)
  || ((8192 <=? c) && (c <=? 8202)) || (c =? 8232) || (c =? 8233) || (c =? 8239) || (c =? 8287) || (c =? 12288).

(* byte offsets of every '\n', followed by the byte length of the source *)
Fixpoint nl_from (s : str) (off : Z) : list Z :=
  match s with
  | [] => [off]
  | c :: r => if c =? 10 then off :: nl_from r (off + 1) else nl_from r (off + utf8_len c)
  end.
Definition nl_indices (s : str) : list Z := nl_from s 0.

Definition count_lines (s : str) : Z := Z.of_nat (List.length (nl_indices s)).

Definition nth_z {A} (l : list A) (i : Z) : option A :=
  if i <? 0 then None else nth_error l (Z.to_nat i).

Definition raw_line_span (s : str) (line : Z) : option (Z * Z) :=
  if (0 <=? line) && (line <? count_lines s) then
    let nl := nl_indices s in
    let start := if line =? 0 then 0 else match nth_z nl (line - 1) with Some i => i + 1 | None => 0 end in
    let eof := byte_len s in
    let e := match nth_z nl line with Some i => Z.min (i + 1) eof | None => eof end in
    Some (start, e)
  else None.

(* the code points whose first byte lies in [a, b) *)
Fixpoint sub_from (s : str) (off a b : Z) : str :=
  match s with
  | [] => []
  | c :: r => if (a <=? off) && (off <? b) then c :: sub_from r (off + utf8_len c) a b
              else sub_from r (off + utf8_len c) a b
  end.
Definition substr (s : str) (a b : Z) : str := sub_from s 0 a b.

Fixpoint trim_start (s : str) : str :=
  match s with c :: r => if is_ws c then trim_start r else s | [] => [] end.
Definition trim_end (s : str) : str := rev (trim_start (rev s)).

Definition line_span (s : str) (line : Z) : option (Z * Z) :=
  match raw_line_span s line with
  | None => None
  | Some (st, e) =>
      let l := substr s st e in
      let et := trim_end l in
      let e' := e - (byte_len l - byte_len et) in
      let st' := st + (byte_len et - byte_len (trim_start et)) in
      Some (st', e')
  end.

Definition read_line (s : str) (line : Z) : option str :=
  match line_span s line with Some (a, b) => Some (substr s a b) | None => None end.

(* ---- the same two functions with their panic sites explicit (outer None = panic) ----
   `&self.src[a..b]` panics unless a <= b <= len and both are code-point boundaries;
   `end -= ..`, `line.len() - trimmed.len()` are usize subtractions (overflow checks on).
   SourceInfoProofs.line_span_res_ok / read_line_res_ok: they never panic and equal the above. *)
Fixpoint is_boundary_from (s : str) (off a : Z) : bool :=
  (a =? off) || match s with [] => false | c :: r => is_boundary_from r (off + utf8_len c) a end.
Definition is_boundary (s : str) (a : Z) : bool := is_boundary_from s 0 a.
Definition slice (s : str) (a b : Z) : option str :=
  if (a <=? b) && is_boundary s a && is_boundary s b then Some (substr s a b) else None.
Definition usub (a b : Z) : option Z := if a <? b then None else Some (a - b).

Definition line_span_res (s : str) (line : Z) : option (option (Z * Z)) :=
  match raw_line_span s line with
  | None => Some None
  | Some (st, e) =>
      match slice s st e with
      | None => None
      | Some l =>
          let et := trim_end l in
          match usub (byte_len l) (byte_len et) with
          | None => None
          | Some d1 =>
              match usub e d1, usub (byte_len et) (byte_len (trim_start et)) with
              | Some e', Some d2 => Some (Some (st + d2, e'))
              | _, _ => None
              end
          end
      end
  end.
Definition read_line_res (s : str) (line : Z) : option (option str) :=
  match line_span_res s line with
  | None => None
  | Some None => Some None
  | Some (Some (a, b)) => match slice s a b with Some t => Some (Some t) | None => None end
  end.

(* partition_point(|&start| start < index) on the (sorted) newline index, clamped to the last
   line: `.min(self.count_lines().saturating_sub(1))` *)
Fixpoint count_lt (l : list Z) (x : Z) : Z :=
  match l with [] => 0 | a :: r => if a <? x then 1 + count_lt r x else 0 end.
Definition get_line (s : str) (index : Z) : Z :=
  Z.min (count_lt (nl_indices s) index) (Z.max 0 (count_lines s - 1)).

(* get_pos_pair.  `index - lstart` is a usize subtraction: None = the panic it would raise under
   overflow checks if lstart > index (SourceInfoProofs.get_pos_pair_res_some: it never does).

   Before the repair (get_line not clamped, fallback `raw_line_span(nl_indices.len())`, which is
   always None) an index past the end gave line = count_lines, column = index:
     get_pos_pair "a\nb" 4 = (2, 4)   instead of (1, 2);   get_pos_pair "" 1 = (1, 1) instead of (0, 1).
   The unrepaired function is kept in proofs/SourceInfoProofs.v (get_pos_pair_unrepaired). *)
Definition get_pos_pair_res (s : str) (index : Z) : option (Z * Z) :=
  let lno := get_line s index in
  let lstart := match raw_line_span s lno with Some (a, _) => a | None => 0 end in
  if index <? lstart then None else Some (lno, index - lstart).
Definition get_pos_pair (s : str) (index : Z) : Z * Z :=
  match get_pos_pair_res s index with Some p => p | None => (0, 0) end.

(* ---------- wire ---------- *)
Definition t_span (o : option (Z * Z)) : tree := t_opt (fun p => L [I (fst p); I (snd p)]) o.
Definition t_pos (o : option (Z * Z)) : tree :=
  match o with Some p => L [I (fst p); I (snd p)] | None => t_panic end.
(* 0, 1, ..., n-1 *)
Definition t_res {A} (f : A -> tree) (o : option A) : tree :=
  match o with Some a => f a | None => t_panic end.
Fixpoint upto (n : nat) (from : Z) : list Z :=
  match n with O => [] | S k => from :: upto k (from + 1) end.
(* one case per string: count_lines, line_span and read_line of lines 0..nl-1, get_pos_pair of 0..ni-1 *)
Definition scan (s : str) (nl ni : Z) : tree :=
  L [ I (count_lines s);
      L (map (fun l => t_res t_span (line_span_res s l)) (upto (Z.to_nat nl) 0));
      L (map (fun l => t_res (t_opt t_zs) (read_line_res s l)) (upto (Z.to_nat nl) 0));
      L (map (fun x => t_pos (get_pos_pair_res s x)) (upto (Z.to_nat ni) 0)) ].
Definition ops : op_table :=
  [ ("srcinfo.count_lines"%string, fun t => match as_zs t with Some s => I (count_lines s) | None => t_bad end);
    ("srcinfo.line_span"%string, fun t => match t with L [s; I l] => match as_zs s with Some s => t_res t_span (line_span_res s l) | None => t_bad end | _ => t_bad end);
    ("srcinfo.read_line"%string, fun t => match t with L [s; I l] => match as_zs s with Some s => t_res (t_opt t_zs) (read_line_res s l) | None => t_bad end | _ => t_bad end);
    ("srcinfo.get_pos_pair"%string, fun t => match t with L [s; I x] => match as_zs s with Some s => t_pos (get_pos_pair_res s x) | None => t_bad end | _ => t_bad end);
    ("srcinfo.scan"%string, fun t => match t with L [s; I nl; I ni] => match as_zs s with Some s => scan s nl ni | None => t_bad end | _ => t_bad end) ].
