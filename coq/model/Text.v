(* Text.v — strings as lists of Unicode code points (Z), with the UTF-8 facts the Rust code
   depends on (`str::len` is a byte length, spans are byte offsets, `.bytes()`), and ASCII case
   mapping.  `char::to_uppercase` / `to_ascii_uppercase` are modelled on ASCII only (trusted base:
   generators keep identifiers ASCII). *)
From Coq Require Import ZArith List Bool.
Import ListNotations.
Open Scope Z_scope.

Definition str := list Z.

Definition utf8_len (c : Z) : Z :=
  if c <? 128 then 1 else if c <? 2048 then 2 else if c <? 65536 then 3 else 4.
Fixpoint byte_len (s : str) : Z :=
  match s with [] => 0 | c :: r => utf8_len c + byte_len r end.

Definition utf8_encode (c : Z) : list Z :=
  if c <? 128 then [c]
  else if c <? 2048 then [192 + c / 64; 128 + c mod 64]
  else if c <? 65536 then [224 + c / 4096; 128 + (c / 64) mod 64; 128 + c mod 64]
  else [240 + c / 262144; 128 + (c / 4096) mod 64; 128 + (c / 64) mod 64; 128 + c mod 64].
Definition utf8_bytes (s : str) : list Z := flat_map utf8_encode s.

Definition is_lower (c : Z) : bool := (97 <=? c) && (c <=? 122).
Definition is_upper (c : Z) : bool := (65 <=? c) && (c <=? 90).
Definition is_digit (c : Z) : bool := (48 <=? c) && (c <=? 57).
Definition is_ascii (c : Z) : bool := (0 <=? c) && (c <? 128).
Definition upper_c (c : Z) : Z := if is_lower c then c - 32 else c.
Definition lower_c (c : Z) : Z := if is_upper c then c + 32 else c.
Definition upper (s : str) : str := map upper_c s.

Fixpoint str_eqb (a b : str) : bool :=
  match a, b with
  | [], [] => true
  | x :: a', y :: b' => (x =? y) && str_eqb a' b'
  | _, _ => false
  end.

(* lexicographic comparison by code point = Rust's `str` ordering (UTF-8 preserves it) *)
Fixpoint str_ltb (a b : str) : bool :=
  match a, b with
  | _, [] => false
  | [], _ :: _ => true
  | x :: a', y :: b' => if x <? y then true else if y <? x then false else str_ltb a' b'
  end.
