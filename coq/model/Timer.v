(* Timer.v — model of `TimerDevice` (src/sim/device/timer.rs): SampleRange::new, TimerDevice::new,
   set_range, set_exact, get_remaining, reset_remaining, try_generate_time, and the ExternalDevice
   impl (io_read/io_write do nothing, io_reset, poll_interrupt).

   Randomness is an INPUT.  The Rust timer owns a `StdRng`; the model owns the number of draws made
   so far ([t_drawn]) and every function takes the draw oracle [g : nat -> Z]: "the k-th call of
   `random_range` on this timer's generator returned g k".  TRUSTED (contract of rand 0.9
   `Rng::random_range`): it panics on an empty range *before* touching the generator and otherwise
   returns a value inside the range it was given.  A draw outside the current range is the explicit
   outcome [TBadDraw] (the oracle broke the contract; never produced by the implementation).

   Numbers are Z; `u32` fields never overflow in the modelled code: `s.checked_add(1)` is the
   explicit [TPanic], `time -= 1` happens only for time >= 2.
   No proofs here (proofs/TimerProofs.v, props/C34.v).

   For importers (the simulator model): record [timer] (t_range t_time t_vect t_prio t_enabled
   t_drawn), [srange] (r_start r_end r_incl; range_lo / range_hi / range_nonempty / in_range),
   [timer_new], [set_range], [set_exact], [get_remaining], [reset_remaining], [timer_io_reset],
   [timer_poll g t : tres (timer * option (vect * priority))] — the ExternalDevice methods —
   and the outcome type [tres] (TOk / TPanic / TBadDraw).  The draw oracle [g : nat -> Z] is per timer
   (each timer owns its generator); [draw_oracle l] turns a list of observed draws into one. *)
From Coq Require Import ZArith List Bool String.
From Model Require Import Tree.
Import ListNotations.
Open Scope Z_scope.

Definition U32_MAX : Z := 4294967295.

(* std::ops::Bound<u32> *)
Inductive bound := BIncl (z : Z) | BExcl (z : Z) | BUnb.

(* struct SampleRange { start, end, end_incl } *)
Record srange := mk_srange { r_start : Z; r_end : Z; r_incl : bool }.

(* smallest / largest value of the range; empty iff range_hi < range_lo *)
Definition range_lo (r : srange) : Z := r_start r.
Definition range_hi (r : srange) : Z := if r_incl r then r_end r else r_end r - 1.
Definition range_nonempty (r : srange) : bool := range_lo r <=? range_hi r.
Definition in_range (r : srange) (d : Z) : bool := (range_lo r <=? d) && (d <=? range_hi r).

(* outcome of a timer operation *)
Inductive tres (A : Type) := TOk (a : A) | TPanic | TBadDraw.
Arguments TOk {A}. Arguments TPanic {A}. Arguments TBadDraw {A}.

(* SampleRange::new — `Bound::Excluded(u32::MAX)` as start is the `expect` panic *)
Definition srange_new (s e : bound) : tres srange :=
  match (match s with
         | BIncl z => Some z
         | BExcl z => if z =? U32_MAX then None else Some (z + 1)
         | BUnb => Some 0
         end) with
  | None => TPanic
  | Some st => TOk (match e with
                    | BIncl z => mk_srange st z true
                    | BExcl z => mk_srange st z false
                    | BUnb => mk_srange st U32_MAX true
                    end)
  end.

(* struct TimerDevice; [t_drawn] stands for the generator state *)
Record timer := mk_timer {
  t_range : srange;
  t_time : Z;          (* `time`: what get_remaining() returns *)
  t_vect : Z;          (* pub vect: u8 *)
  t_prio : Z;          (* pub priority: u8 *)
  t_enabled : bool;    (* pub enabled *)
  t_drawn : nat        (* number of random_range calls that returned so far *)
}.

Definition with_time (t : timer) (z : Z) (k : nat) : timer :=
  mk_timer (t_range t) z (t_vect t) (t_prio t) (t_enabled t) k.
Definition with_range (t : timer) (r : srange) : timer :=
  mk_timer r (t_time t) (t_vect t) (t_prio t) (t_enabled t) (t_drawn t).
Definition with_enabled (t : timer) (b : bool) : timer :=
  mk_timer (t_range t) (t_time t) (t_vect t) (t_prio t) b (t_drawn t).
Definition with_vect (t : timer) (v : Z) : timer :=
  mk_timer (t_range t) (t_time t) v (t_prio t) (t_enabled t) (t_drawn t).
Definition with_prio (t : timer) (p : Z) : timer :=
  mk_timer (t_range t) (t_time t) (t_vect t) p (t_enabled t) (t_drawn t).

(* try_generate_time: one call of random_range on the current range *)
Definition gen_time (g : nat -> Z) (r : srange) (k : nat) : tres (Z * nat) :=
  if range_nonempty r then
    (if in_range r (g k) then TOk (g k, S k) else TBadDraw)
  else TPanic.

(* reset_remaining and io_reset are the same assignment `time = try_generate_time()` *)
Definition reset_remaining (g : nat -> Z) (t : timer) : tres timer :=
  match gen_time g (t_range t) (t_drawn t) with
  | TOk (d, k) => TOk (with_time t d k)
  | TPanic => TPanic
  | TBadDraw => TBadDraw
  end.
Definition timer_io_reset := reset_remaining.

(* TimerDevice::new(seed, range, vect, priority): disabled, first count drawn at once *)
Definition timer_new (g : nat -> Z) (s e : bound) (vect prio : Z) : tres timer :=
  match srange_new s e with
  | TOk r => reset_remaining g (mk_timer r 0 vect prio false O)
  | TPanic => TPanic
  | TBadDraw => TBadDraw
  end.

Definition set_range (t : timer) (s e : bound) : tres timer :=
  match srange_new s e with
  | TOk r => TOk (with_range t r)
  | TPanic => TPanic
  | TBadDraw => TBadDraw
  end.
Definition set_exact (t : timer) (n : Z) : tres timer := set_range t (BIncl n) (BIncl n).
Definition get_remaining (t : timer) : Z := t_time t.

(* Interrupt::vectored(vect, priority): priority.clamp(0, 7) on a u8 *)
Definition timer_interrupt (t : timer) : Z * Z := (t_vect t, Z.min (t_prio t) 7).

(* poll_interrupt.  At time 0 a fresh count is drawn; a fresh count of 0 fires at once (the
   repaired code: no poll lies between that interrupt and the previous one). *)
Definition timer_poll (g : nat -> Z) (t : timer) : tres (timer * option (Z * Z)) :=
  if negb (t_enabled t) then TOk (t, None)
  else if t_time t =? 0 then
    match reset_remaining g t with
    | TOk t' => TOk (t', if t_time t' =? 0 then Some (timer_interrupt t') else None)
    | TPanic => TPanic
    | TBadDraw => TBadDraw
    end
  else if t_time t =? 1 then TOk (with_time t 0 (t_drawn t), Some (timer_interrupt t))
  else TOk (with_time t (t_time t - 1) (t_drawn t), None).

(* n consecutive polls: which of them raised an interrupt, and the state afterwards *)
Fixpoint timer_poll_n (g : nat -> Z) (t : timer) (n : nat) : tres (list bool * timer) :=
  match n with
  | O => TOk ([], t)
  | S k =>
    match timer_poll g t with
    | TOk (t', f) =>
      match timer_poll_n g t' k with
      | TOk (l, t'') => TOk ((match f with Some _ => true | None => false end) :: l, t'')
      | TPanic => TPanic
      | TBadDraw => TBadDraw
      end
    | TPanic => TPanic
    | TBadDraw => TBadDraw
    end
  end.

(* ---- histories: the public operations of a timer ---- *)
Inductive timer_op :=
| OPoll | OEnable | ODisable | OResetRemaining | OIoReset
| OSetRange (s e : bound) | OSetExact (n : Z) | OSetVect (v : Z) | OSetPrio (p : Z).

(* one operation: new state and the interrupt it returned (only OPoll can return one).
   A panicking operation leaves the timer as it was (the unwind happens before any assignment). *)
Definition timer_step (g : nat -> Z) (t : timer) (o : timer_op) : tres (timer * option (Z * Z)) :=
  let lift (r : tres timer) := match r with TOk t' => TOk (t', None) | TPanic => TPanic | TBadDraw => TBadDraw end in
  match o with
  | OPoll => timer_poll g t
  | OEnable => TOk (with_enabled t true, None)
  | ODisable => TOk (with_enabled t false, None)
  | OResetRemaining => lift (reset_remaining g t)
  | OIoReset => lift (timer_io_reset g t)
  | OSetRange s e => lift (set_range t s e)
  | OSetExact n => lift (set_exact t n)
  | OSetVect v => TOk (with_vect t v, None)
  | OSetPrio p => TOk (with_prio t p, None)
  end.

(* observation after an operation *)
Inductive timer_obs := ObsOk (fired : option (Z * Z)) (remaining : Z) (enabled : bool) | ObsPanic | ObsBadDraw.

(* run a history; a panic is an observation and the history goes on from the unchanged state;
   a bad draw ends it *)
Fixpoint timer_run (g : nat -> Z) (t : timer) (ops : list timer_op) : list timer_obs :=
  match ops with
  | [] => []
  | o :: r =>
    match timer_step g t o with
    | TOk (t', f) => ObsOk f (t_time t') (t_enabled t') :: timer_run g t' r
    | TPanic => ObsPanic :: timer_run g t r
    | TBadDraw => [ObsBadDraw]
    end
  end.

(* state after a history (same conventions) *)
Fixpoint timer_run_state (g : nat -> Z) (t : timer) (ops : list timer_op) : timer :=
  match ops with
  | [] => t
  | o :: r =>
    match timer_step g t o with
    | TOk (t', _) => timer_run_state g t' r
    | TPanic => timer_run_state g t r
    | TBadDraw => t
    end
  end.

(* ---- wire ---- *)
Definition as_bound (t : tree) : option bound :=
  match t with
  | L [] => Some BUnb
  | L [I 0; I z] => Some (BIncl z)
  | L [I 1; I z] => Some (BExcl z)
  | _ => None
  end.
Definition as_top (t : tree) : option timer_op :=
  match t with
  | L [I 0] => Some OPoll
  | L [I 1] => Some OEnable
  | L [I 2] => Some ODisable
  | L [I 3] => Some OResetRemaining
  | L [I 4] => Some OIoReset
  | L [I 5; s; e] => match as_bound s, as_bound e with Some s', Some e' => Some (OSetRange s' e') | _, _ => None end
  | L [I 6; I n] => Some (OSetExact n)
  | L [I 7; I v] => Some (OSetVect v)
  | L [I 8; I p] => Some (OSetPrio p)
  | _ => None
  end.
Definition t_fired (f : option (Z * Z)) : tree :=
  match f with Some (v, p) => L [I v; I p] | None => L [] end.
Definition t_obs (o : timer_obs) : tree :=
  match o with
  | ObsOk f rem en => t_ok [t_fired f; I rem; t_bool en]
  | ObsPanic => t_panic
  | ObsBadDraw => L [I 8]
  end.
(* the draw oracle given as a list; past its end the draw is -1, outside every range *)
Definition draw_oracle (ds : list Z) : nat -> Z := fun k => nth k ds (-1).

(* timer.run ((start end vect prio) draws ops) -> (new-result observations...) *)
Definition op_run (t : tree) : tree :=
  match t with
  | L [L [s; e; I vect; I prio]; ds; ops] =>
    match as_bound s, as_bound e, as_zs ds, as_list as_top ops with
    | Some s', Some e', Some ds', Some ops' =>
      match timer_new (draw_oracle ds') s' e' vect prio with
      | TOk t0 => L (t_ok [I (t_time t0)] :: map t_obs (timer_run (draw_oracle ds') t0 ops'))
      | TPanic => L [t_panic]
      | TBadDraw => L [L [I 8]]
      end
    | _, _, _, _ => t_bad
    end
  | _ => t_bad
  end.

Definition ops : op_table := [ ("timer.run"%string, op_run) ].
