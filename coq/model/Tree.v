(* Tree.v — the wire format shared by the Rust harness, the OCaml driver and
   cases.v: integers and nested lists.  Every model operation that takes part in
   the correspondence check is exposed as a function [tree -> tree]; decoding the
   arguments and encoding the result is Gallina (so it is extracted together with
   the model and can equally be evaluated by vm_compute). *)
From Coq Require Import ZArith List String.
Import ListNotations.
Open Scope Z_scope.

Inductive tree : Type :=
| I (z : Z)
| L (l : list tree).

(* result conventions used by every op:
     (0 payload...)  success
     (1 kind ...)    error value returned by the implementation
     (2)             PANIC (Rust unwind / explicit Panic outcome of the model)
     (9)             the arguments did not decode (a harness/driver bug) *)
Definition t_ok (l : list tree) : tree := L (I 0 :: l).
Definition t_err (l : list tree) : tree := L (I 1 :: l).
Definition t_panic : tree := L [I 2].
Definition t_bad : tree := L [I 9].

Definition t_bool (b : bool) : tree := I (if b then 1 else 0).
Definition t_opt {A} (f : A -> tree) (o : option A) : tree :=
  match o with Some a => L [f a] | None => L [] end.
Definition t_list {A} (f : A -> tree) (l : list A) : tree := L (map f l).
Definition t_zs (l : list Z) : tree := L (map I l).

Definition as_z (t : tree) : option Z := match t with I z => Some z | _ => None end.
Definition as_l (t : tree) : option (list tree) := match t with L l => Some l | _ => None end.
Definition as_bool (t : tree) : option bool :=
  match t with I 0 => Some false | I 1 => Some true | _ => None end.

Fixpoint as_zs_aux (l : list tree) : option (list Z) :=
  match l with
  | [] => Some []
  | I z :: r => match as_zs_aux r with Some zs => Some (z :: zs) | None => None end
  | _ => None
  end.
Definition as_zs (t : tree) : option (list Z) :=
  match t with L l => as_zs_aux l | _ => None end.

Fixpoint map_opt {A B} (f : A -> option B) (l : list A) : option (list B) :=
  match l with
  | [] => Some []
  | a :: r => match f a, map_opt f r with
              | Some b, Some bs => Some (b :: bs)
              | _, _ => None
              end
  end.
Definition as_list {A} (f : tree -> option A) (t : tree) : option (list A) :=
  match t with L l => map_opt f l | _ => None end.
Definition as_opt {A} (f : tree -> option A) (t : tree) : option (option A) :=
  match t with
  | L [] => Some None
  | L [x] => match f x with Some a => Some (Some a) | None => None end
  | _ => None
  end.

(* An operation table entry: name and function. *)
Definition op_table := list (string * (tree -> tree)).
