(* Word.v — model of `Word` (src/sim/mem.rs): 16 data bits plus a 16-bit initialisation mask.
   Operators exactly as in the Rust impls (early returns included). *)
From Coq Require Import ZArith List Bool String.
From Gen Require Import Constants.
From Model Require Import Tree Bits.
Import ListNotations.
Open Scope Z_scope.

Record word := mkWord { w_data : Z; w_init : Z }.

Definition NO_BITS : Z := sim_mem.NO_BITS.
Definition ALL_BITS : Z := sim_mem.ALL_BITS.

Definition new_init (d : Z) : word := mkWord d ALL_BITS.
Definition new_uninit (d : Z) : word := mkWord d NO_BITS.
Definition is_init (w : word) : bool := w_init w =? ALL_BITS.
Definition clear_init (w : word) : word := mkWord (w_data w) NO_BITS.
(* Word::set(data) = new_init data *)

(* get_if_init(strict, err): None = the error *)
Definition get_if_init (w : word) (strict : bool) : option Z :=
  if negb strict || is_init w then Some (w_data w) else None.
(* set_if_init(data, strict, err): the new value of the destination, None = the error *)
Definition set_if_init (data : word) (strict : bool) : option word :=
  if negb strict || is_init data then Some data else None.

Definition w_not (w : word) : word := mkWord (65535 - w_data w) (w_init w).

Definition both_init (l r : word) : Z :=
  if (w_init l =? ALL_BITS) && (w_init r =? ALL_BITS) then ALL_BITS else NO_BITS.

Definition w_add (l r : word) : word :=
  if (w_data r =? 0) && (w_init r =? ALL_BITS) then l
  else if (w_data l =? 0) && (w_init l =? ALL_BITS) then r
  else mkWord (wrap16 (w_data l + w_data r)) (both_init l r).

Definition w_sub (l r : word) : word :=
  if (w_data r =? 0) && (w_init r =? ALL_BITS) then l
  else mkWord (wrap16 (w_data l - w_data r)) (both_init l r).

Definition not16 (x : Z) : Z := 65535 - x.
Definition w_and (l r : word) : word :=
  mkWord (Z.land (w_data l) (w_data r))
         (Z.lor (Z.lor (Z.land (w_init l) (w_init r)) (Z.land (not16 (w_data l)) (w_init l)))
                (Z.land (not16 (w_data r)) (w_init r))).

Definition word_eqb (a b : word) : bool := (w_data a =? w_data b) && (w_init a =? w_init b).

(* ---------- wire ---------- *)
Definition t_word (w : word) : tree := L [I (w_data w); I (w_init w)].
Definition as_word (t : tree) : option word :=
  match t with L [I d; I i] => Some (mkWord d i) | _ => None end.
Definition op2w (f : word -> word -> word) (t : tree) : tree :=
  match t with
  | L [a; b] => match as_word a, as_word b with Some x, Some y => t_word (f x y) | _, _ => t_bad end
  | _ => t_bad
  end.
Definition ops : op_table :=
  [ ("word.add"%string, op2w w_add);
    ("word.sub"%string, op2w w_sub);
    ("word.and"%string, op2w w_and);
    ("word.not"%string, fun t => match as_word t with Some x => t_word (w_not x) | None => t_bad end) ].
