(* AsmBase.v — list, string and arithmetic lemmas shared by the assembler proofs. *)
From Coq Require Import ZArith List Bool Lia Permutation.
From Gen Require Import Constants.
From Model Require Import Tree Text Bits Instr Offset AsmAst Obj Assembler.
From Spec Require Import LayoutSpec WfSpec.
From Proofs Require Import OffsetProofs.
Import ListNotations.
Open Scope Z_scope.

(* ---------- strings ---------- *)
Lemma str_eqb_eq a : forall b, str_eqb a b = true <-> a = b.
Proof.
  induction a as [|x a IH]; intros [|y b]; cbn [str_eqb]; split; intros H; try reflexivity; try discriminate.
  - apply andb_prop in H. destruct H as [H1 H2]. apply Z.eqb_eq in H1. apply IH in H2. congruence.
  - injection H as -> ->. rewrite Z.eqb_refl. cbn. apply IH. reflexivity.
Qed.
Lemma str_eqb_refl a : str_eqb a a = true.
Proof. apply str_eqb_eq. reflexivity. Qed.
Lemma str_eqb_neq a b : str_eqb a b = false <-> a <> b.
Proof.
  split; intros H.
  - intros E. apply str_eqb_eq in E. congruence.
  - destruct (str_eqb a b) eqn:E; [|reflexivity]. apply str_eqb_eq in E. contradiction.
Qed.
Lemma str_eqb_sym a b : str_eqb a b = str_eqb b a.
Proof.
  destruct (str_eqb a b) eqn:E.
  - apply str_eqb_eq in E. subst. symmetry. apply str_eqb_refl.
  - symmetry. apply str_eqb_neq. apply str_eqb_neq in E. congruence.
Qed.

Lemma utf8_len_pos c : 1 <= utf8_len c <= 4.
Proof. unfold utf8_len. repeat match goal with |- context [if ?c then _ else _] => destruct c end; lia. Qed.
Lemma byte_len_nonneg s : 0 <= byte_len s.
Proof. induction s as [|c s IH]; cbn [byte_len]; [lia|]. pose proof (utf8_len_pos c). lia. Qed.
Lemma byte_len_upper s : byte_len (upper s) = byte_len s.
Proof.
  induction s as [|c s IH]; cbn [upper map byte_len]; [reflexivity|]. fold (upper s). rewrite IH. f_equal.
  unfold upper_c, is_lower, utf8_len.
  destruct ((97 <=? c) && (c <=? 122)) eqn:E; [|reflexivity].
  apply andb_prop in E. destruct E as [E1 E2]. apply Z.leb_le in E1, E2.
  destruct (c - 32 <? 128) eqn:A; destruct (c <? 128) eqn:B; try reflexivity; lia.
Qed.
Lemma upper_c_idem c : upper_c (upper_c c) = upper_c c.
Proof.
  unfold upper_c, is_lower. destruct ((97 <=? c) && (c <=? 122)) eqn:E.
  - apply andb_prop in E. destruct E as [E1 E2]. apply Z.leb_le in E1, E2.
    destruct ((97 <=? c - 32) && (c - 32 <=? 122)) eqn:F; [|reflexivity].
    apply andb_prop in F. destruct F as [F1 F2]. apply Z.leb_le in F1, F2. lia.
  - rewrite E. reflexivity.
Qed.
Lemma upper_idem s : upper (upper s) = upper s.
Proof. unfold upper. rewrite map_map. apply map_ext. intros c. apply upper_c_idem. Qed.

(* ---------- association lists ---------- *)
Lemma assoc_app {A} k (l l' : list (str * A)) :
  assoc k (l ++ l') = match assoc k l with Some v => Some v | None => assoc k l' end.
Proof.
  induction l as [|[k' v] l IH]; cbn [assoc app]; [reflexivity|].
  destruct (str_eqb k k'); [reflexivity | exact IH].
Qed.
Lemma assoc_none_notin {A} k (l : list (str * A)) : assoc k l = None <-> ~ In k (map fst l).
Proof.
  induction l as [|[k' v] l IH]; cbn [assoc map fst In]; [tauto|].
  destruct (str_eqb k k') eqn:E.
  - apply str_eqb_eq in E. subst. split; [discriminate | intros H; exfalso; apply H; left; reflexivity].
  - apply str_eqb_neq in E. rewrite IH. split; [intros H [C|C]; [congruence|tauto] | tauto].
Qed.
Lemma assoc_in {A} k (v : A) l : assoc k l = Some v -> In (k, v) l.
Proof.
  induction l as [|[k' v'] l IH]; cbn [assoc]; [discriminate|].
  destruct (str_eqb k k') eqn:E.
  - apply str_eqb_eq in E. subst. intros [= ->]. left; reflexivity.
  - intros H. right. exact (IH H).
Qed.
Lemma in_assoc_nodup {A} k (v : A) l : NoDup (map fst l) -> In (k, v) l -> assoc k l = Some v.
Proof.
  induction l as [|[k' v'] l IH]; cbn [assoc map fst]; intros N H; [contradiction|].
  inversion N as [|? ? N1 N2]; subst. destruct H as [H|H].
  - injection H as -> ->. rewrite str_eqb_refl. reflexivity.
  - destruct (str_eqb k k') eqn:E.
    + apply str_eqb_eq in E. subst. exfalso. apply N1. apply (in_map fst) in H. exact H.
    + exact (IH N2 H).
Qed.

Lemma NoDup_app_snoc {A} (l : list A) x : NoDup l -> ~ In x l -> NoDup (l ++ [x]).
Proof.
  intros N H. apply NoDup_rev in N. rewrite <- (rev_involutive (l ++ [x])). apply NoDup_rev.
  rewrite rev_app_distr. cbn. constructor; [|exact N]. rewrite <- in_rev. exact H.
Qed.

Lemma NoDup_app_disjoint {A} (l l' : list A) :
  NoDup l -> NoDup l' -> (forall x, In x l -> In x l' -> False) -> NoDup (l ++ l').
Proof.
  induction l as [|a l IH]; intros N N' D; [exact N'|]. cbn [app]. inversion N as [|? ? N1 N2]; subst.
  constructor.
  - intros H. apply in_app_or in H. destruct H as [H|H]; [exact (N1 H) | exact (D a (or_introl eq_refl) H)].
  - apply IH; [exact N2 | exact N' | intros x H1 H2; exact (D x (or_intror H1) H2)].
Qed.

(* ---------- positional layout ---------- *)
Lemma final_app c p q : final c (p ++ q) = final (final c p) q.
Proof. unfold final. apply fold_left_app. Qed.
Lemma final_snoc c p s : final c (p ++ [s]) = next (final c p) s.
Proof. rewrite final_app. reflexivity. Qed.
Lemma place_app p : forall c q, place c (p ++ q) = place c p ++ place (final c p) q.
Proof.
  induction p as [|s p IH]; intros c q; cbn [place app]; [reflexivity|].
  rewrite IH. reflexivity.
Qed.
Lemma placed_snoc p s : placed (p ++ [s]) = placed p ++ [(final None p, s)].
Proof. unfold placed. rewrite place_app. reflexivity. Qed.
Lemma placed_app p q : placed (p ++ q) = placed p ++ place (final None p) q.
Proof. unfold placed. apply place_app. Qed.
Lemma bindings_snoc p s : bindings (p ++ [s]) = bindings p ++ binds_of (final None p, s).
Proof. unfold bindings. rewrite placed_snoc, flat_map_app. cbn [flat_map]. rewrite app_nil_r. reflexivity. Qed.
Lemma bindings_app p q : bindings (p ++ q) = bindings p ++ flat_map binds_of (place (final None p) q).
Proof. unfold bindings. rewrite placed_app, flat_map_app. reflexivity. Qed.

Lemma existsb_snoc {A} (f : A -> bool) l x : existsb f (l ++ [x]) = existsb f l || f x.
Proof. rewrite existsb_app. cbn. rewrite orb_false_r. reflexivity. Qed.

Lemma len_app {A} (l l' : list A) : len (l ++ l') = len l + len l'.
Proof. unfold len. rewrite app_length. lia. Qed.
Lemma len_nonneg {A} (l : list A) : 0 <= len l.
Proof. unfold len. lia. Qed.
Lemma len_repeat {A} (x : A) n : len (repeat x n) = Z.of_nat n.
Proof. unfold len. rewrite repeat_length. reflexivity. Qed.
Lemma len_map {A B} (f : A -> B) l : len (map f l) = len l.
Proof. unfold len. rewrite map_length. reflexivity. Qed.
Lemma len_snoc {A} (l : list A) x : len (snoc l x) = len l + 1.
Proof. unfold snoc. rewrite len_app. reflexivity. Qed.

(* ---------- offsets ---------- *)
Ltac Zify.zify_post_hook ::= Z.div_mod_to_equations.

Lemma to_i16_wrap_r a b : to_i16 (a - wrap16 b) = to_i16 (a - b).
Proof. unfold to_i16, wrap16. rewrite Zminus_mod_idemp_r. reflexivity. Qed.
Lemma to_i16_range z : -32768 <= to_i16 z < 32768.
Proof. unfold to_i16, wrap16. destruct (z mod 65536 <? 32768) eqn:E; lia. Qed.

(* the offset test of replace_pc_offset is the field test of the specification *)
Lemma reloff n target here : n = 9 \/ n = 11 ->
  new_s n (to_i16 (target - (here + 1))) =
  match field_value n target here with Some f => Ok f | None => Err (CannotFitSigned n) end.
Proof.
  intros Hn. rewrite new_s_spec by (try apply to_i16_range; lia).
  unfold fits_s, field_value, to_i16, wrap16.
  set (d := (target - (here + 1)) mod 65536).
  assert (Hd : 0 <= d < 65536) by (unfold d; lia).
  destruct Hn as [-> | ->]; cbn [Z.sub Z.add Z.opp Z.pos_sub Z.pow Z.pow_pos Pos.iter Z.mul Pos.mul Pos.pred_double];
  destruct (d <? 32768) eqn:A;
  repeat match goal with
         | |- context [?a <=? ?b] => destruct (Z.leb_spec a b)
         | |- context [?a <? ?b] => destruct (Z.ltb_spec a b)
         end; cbn [andb]; try reflexivity; exfalso; lia.
Qed.
