(* AsmBlocks.v — the block map of pass 2 (a BTreeMap, here a list sorted by start address):
   lookups of the neighbours, insertion, and [neighbour_check_complete]: on a map of non-empty,
   pairwise disjoint blocks, a non-empty block that overlaps neither the entry with the
   greatest start <= its start nor the entry with the least start >= its start overlaps no
   entry at all — the check at asm.rs:1136 is exactly sufficient. *)
From Coq Require Import ZArith List Bool Lia Permutation Sorted.
From Gen Require Import Constants.
From Model Require Import Tree Text Bits AsmAst Obj Assembler.
From Proofs Require Import AsmBase.
Import ListNotations.
Open Scope Z_scope.
Ltac Zify.zify_post_hook ::= Z.div_mod_to_equations.

Definition key_lt {V} (x y : Z * V) : Prop := fst x < fst y.
Definition ksorted {V} (m : list (Z * V)) : Prop := StronglySorted key_lt m.

Lemma ksorted_inv {V} (x : Z * V) m : ksorted (x :: m) -> ksorted m /\ Forall (key_lt x) m.
Proof. intros H. apply StronglySorted_inv in H. exact H. Qed.

Lemma ksorted_unique {V} (m : list (Z * V)) k v v' : ksorted m -> In (k, v) m -> In (k, v') m -> v = v'.
Proof.
  induction m as [|x m IH]; intros S H1 H2; [contradiction|].
  apply ksorted_inv in S. destruct S as [S F]. rewrite Forall_forall in F.
  destruct H1 as [H1|H1]; destruct H2 as [H2|H2].
  - congruence.
  - subst x. specialize (F _ H2). unfold key_lt in F. cbn in F. lia.
  - subst x. specialize (F _ H1). unfold key_lt in F. cbn in F. lia.
  - exact (IH S H1 H2).
Qed.

(* ---------- range(..=k).next_back() ---------- *)
Lemma bt_le_some {V} (m : list (Z * V)) k k' v : ksorted m -> bt_le k m = Some (k', v) ->
  In (k', v) m /\ k' <= k /\ forall x, In x m -> fst x <= k -> fst x <= k'.
Proof.
  induction m as [|[k0 v0] m IH]; intros S H; cbn [bt_le] in H; [discriminate|].
  apply ksorted_inv in S. destruct S as [S F]. rewrite Forall_forall in F.
  destruct (k0 <=? k) eqn:E; [|discriminate]. apply Z.leb_le in E.
  destruct (bt_le k m) as [[k1 v1]|] eqn:B.
  - injection H as -> ->. destruct (IH S eq_refl) as [I1 [I2 I3]]. split; [right; exact I1|]. split; [exact I2|].
    intros x [<-|Hx] Hk; [|exact (I3 x Hx Hk)]. cbn. specialize (F _ I1). unfold key_lt in F. cbn in F. lia.
  - injection H as -> ->. split; [left; reflexivity|]. split; [exact E|].
    intros x [<-|Hx] Hk; [cbn; lia|]. exfalso.
    clear IH. revert B Hx Hk S. clear. induction m as [|[k1 v1] m IH]; intros B Hx Hk S; [contradiction|].
    cbn [bt_le] in B. destruct (k1 <=? k) eqn:E1.
    + destruct (bt_le k m); discriminate.
    + apply Z.leb_gt in E1. apply ksorted_inv in S. destruct S as [S F]. rewrite Forall_forall in F.
      destruct Hx as [<-|Hx]; [cbn in Hk; lia|]. specialize (F _ Hx). unfold key_lt in F. cbn in F. lia.
Qed.
Lemma bt_le_none {V} (m : list (Z * V)) k : ksorted m -> bt_le k m = None -> forall x, In x m -> k < fst x.
Proof.
  destruct m as [|[k0 v0] m]; intros S H x Hx; [contradiction|]. cbn [bt_le] in H.
  destruct (k0 <=? k) eqn:E; [destruct (bt_le k m); discriminate|]. apply Z.leb_gt in E.
  apply ksorted_inv in S. destruct S as [S F]. rewrite Forall_forall in F.
  destruct Hx as [<-|Hx]; [cbn; lia|]. specialize (F _ Hx). unfold key_lt in F. cbn in F. lia.
Qed.

(* ---------- range(k..).next() ---------- *)
Lemma bt_ge_some {V} (m : list (Z * V)) k k' v : ksorted m -> bt_ge k m = Some (k', v) ->
  In (k', v) m /\ k <= k' /\ forall x, In x m -> k <= fst x -> k' <= fst x.
Proof.
  induction m as [|[k0 v0] m IH]; intros S H; cbn [bt_ge] in H; [discriminate|].
  apply ksorted_inv in S. destruct S as [S F]. rewrite Forall_forall in F.
  destruct (k <=? k0) eqn:E.
  - injection H as -> ->. apply Z.leb_le in E. split; [left; reflexivity|]. split; [exact E|].
    intros x [<-|Hx] Hk; [cbn; lia|]. specialize (F _ Hx). unfold key_lt in F. cbn in F. lia.
  - apply Z.leb_gt in E. destruct (IH S H) as [I1 [I2 I3]]. split; [right; exact I1|]. split; [exact I2|].
    intros x [<-|Hx] Hk; [cbn in Hk; lia|]. exact (I3 x Hx Hk).
Qed.
Lemma bt_ge_none {V} (m : list (Z * V)) k : bt_ge k m = None -> forall x, In x m -> fst x < k.
Proof.
  induction m as [|[k0 v0] m IH]; intros H x Hx; [contradiction|]. cbn [bt_ge] in H.
  destruct (k <=? k0) eqn:E; [discriminate|]. apply Z.leb_gt in E.
  destruct Hx as [<-|Hx]; [cbn; lia|]. exact (IH H x Hx).
Qed.

(* ---------- insert ---------- *)
Lemma bt_insert_fresh {V} (m : list (Z * V)) k v :
  ksorted m -> (forall x, In x m -> fst x <> k) ->
  ksorted (bt_insert k v m) /\ Permutation (bt_insert k v m) ((k, v) :: m).
Proof.
  induction m as [|[k0 v0] m IH]; intros S N; cbn [bt_insert].
  - split; [repeat constructor | apply Permutation_refl].
  - pose proof (N (k0, v0) (or_introl eq_refl)) as N0. cbn in N0.
    destruct (k <? k0) eqn:E.
    + apply Z.ltb_lt in E. split; [|apply Permutation_refl].
      constructor; [exact S|]. pose proof (ksorted_inv _ _ S) as [S' F]. rewrite Forall_forall in *.
      intros x [<-|Hx]; [exact E|]. specialize (F _ Hx). unfold key_lt in *. cbn in *. lia.
    + apply Z.ltb_ge in E. destruct (k =? k0) eqn:E2; [apply Z.eqb_eq in E2; lia|].
      pose proof (ksorted_inv _ _ S) as [S' F].
      destruct (IH S' (fun x Hx => N x (or_intror Hx))) as [I1 I2]. split.
      * constructor; [exact I1|]. rewrite Forall_forall in *. intros x Hx.
        apply (Permutation_in _ I2) in Hx. destruct Hx as [<-|Hx]; [unfold key_lt; cbn; lia | exact (F _ Hx)].
      * apply perm_trans with ((k0, v0) :: (k, v) :: m); [apply perm_skip; exact I2 | apply perm_swap].
Qed.

(* ---------- blocks ---------- *)
Definition rng (b : oblock) : Z * Z := (ob_start b, ob_start b + len (ob_words b)).
Definition block_ok (b : oblock) : Prop :=
  ob_words b <> [] /\ 0 <= ob_start b /\ ob_start b + len (ob_words b) <= asm.IO_START.

Lemma ob_range_ok b : 0 <= ob_start b -> ob_start b + len (ob_words b) <= asm.IO_START -> ob_range b = Some (rng b).
Proof.
  unfold asm.IO_START. intros H1 H2. unfold ob_range, rng, wrap16. pose proof (len_nonneg (ob_words b)).
  rewrite Z.mod_small by lia. destruct (ob_start b + len (ob_words b) <? 65536) eqn:E; [reflexivity|lia].
Qed.
Lemma len_pos {A} (l : list A) : l <> [] -> 0 < len l.
Proof. destruct l; [congruence|]. intros _. unfold len. cbn [length]. lia. Qed.

Definition map_inv (m : blockmap) : Prop :=
  ksorted m
  /\ (forall k b, In (k, b) m -> k = ob_start b /\ block_ok b)
  /\ (forall k b k' b', In (k, b) m -> In (k', b') m -> k <> k' -> ranges_overlap (rng b) (rng b') = false).

Lemma ranges_overlap_false a b : ranges_overlap a b = false <-> (snd b <= fst a \/ snd a <= fst b).
Proof. unfold ranges_overlap. destruct (fst a <? snd b) eqn:E1; destruct (fst b <? snd a) eqn:E2; cbn; split; intros H; try reflexivity; try discriminate; lia. Qed.

Lemma find_overlap_spec blk cands :
  0 <= ob_start blk -> ob_start blk + len (ob_words blk) <= asm.IO_START ->
  (forall k b, In (k, b) cands -> 0 <= ob_start b /\ ob_start b + len (ob_words b) <= asm.IO_START) ->
  match find_overlap blk cands with
  | AOk None => forall k b, In (k, b) cands -> ranges_overlap (rng blk) (rng b) = false
  | AOk (Some b) => (exists k, In (k, b) cands) /\ ranges_overlap (rng blk) (rng b) = true
  | AErr _ _ => False
  | APanic => False
  end.
Proof.
  intros H1 H2. induction cands as [|[k0 b0] cands IH]; intros HC; cbn [find_overlap].
  - intros k b [].
  - rewrite (ob_range_ok blk H1 H2). destruct (HC k0 b0 (or_introl eq_refl)) as [C1 C2].
    rewrite (ob_range_ok b0 C1 C2). destruct (ranges_overlap (rng blk) (rng b0)) eqn:E.
    + split; [exists k0; left; reflexivity | exact E].
    + specialize (IH (fun k b Hb => HC k b (or_intror Hb))).
      destruct (find_overlap blk cands) as [[b|]|k sp|]; try exact IH.
      * destruct IH as [[k Hk] Ho]. split; [exists k; right; exact Hk | exact Ho].
      * intros k b [Hb|Hb]; [injection Hb as <- <-; exact E | exact (IH k b Hb)].
Qed.

Definition neighbours (blk : oblock) (m : blockmap) : list (Z * oblock) :=
  opt_list (bt_le (ob_start blk) m) ++ opt_list (bt_ge (ob_start blk) m).

Lemma neighbours_in blk m : ksorted m -> forall x, In x (neighbours blk m) -> In x m.
Proof.
  intros S [k b] H. unfold neighbours in H. apply in_app_or in H. destruct H as [H|H].
  - destruct (bt_le (ob_start blk) m) as [[k' b']|] eqn:E; [|contradiction]. destruct H as [H|[]]. injection H as <- <-.
    apply (bt_le_some m _ _ _ S E).
  - destruct (bt_ge (ob_start blk) m) as [[k' b']|] eqn:E; [|contradiction]. destruct H as [H|[]]. injection H as <- <-.
    apply (bt_ge_some m _ _ _ S E).
Qed.

(* the neighbour check is complete *)
Theorem neighbour_check_complete blk m :
  map_inv m -> block_ok blk ->
  (forall k b, In (k, b) (neighbours blk m) -> ranges_overlap (rng blk) (rng b) = false) ->
  forall k b, In (k, b) m -> ranges_overlap (rng blk) (rng b) = false.
Proof.
  intros [S [OK DJ]] [NE [B0 B1]] HN k b Hb.
  destruct (ranges_overlap (rng blk) (rng b)) eqn:OV; [exfalso|reflexivity].
  destruct (OK k b Hb) as [Ek [NEb [Bb0 Bb1]]].
  pose proof (len_pos _ NE) as LP. pose proof (len_pos _ NEb) as LPb.
  unfold ranges_overlap, rng in OV. cbn [fst snd] in OV. apply andb_prop in OV. destruct OV as [O1 O2].
  apply Z.ltb_lt in O1, O2.
  destruct (Z_le_gt_dec k (ob_start blk)) as [Hle|Hgt].
  - (* b starts at or before blk: the predecessor entry decides *)
    destruct (bt_le (ob_start blk) m) as [[k' b']|] eqn:E.
    + destruct (bt_le_some m _ _ _ S E) as [I1 [I2 I3]].
      assert (HN' : ranges_overlap (rng blk) (rng b') = false).
      { apply (HN k' b'). unfold neighbours. rewrite E. left. reflexivity. }
      apply ranges_overlap_false in HN'. unfold rng in HN'. cbn [fst snd] in HN'.
      destruct (OK k' b' I1) as [Ek' [NEb' [Bb0' Bb1']]]. pose proof (len_pos _ NEb') as LPb'.
      pose proof (I3 (k, b) Hb Hle) as Hkk. cbn in Hkk.
      destruct (Z.eq_dec k k') as [->|Hne].
      * assert (b = b') by (apply (ksorted_unique m k' b b' S Hb I1)). subst b'. lia.
      * pose proof (DJ k b k' b' Hb I1 Hne) as D. apply ranges_overlap_false in D. unfold rng in D. cbn [fst snd] in D. lia.
    + pose proof (bt_le_none m _ S E (k, b) Hb) as F. cbn in F. lia.
  - (* b starts after blk: the successor entry decides *)
    destruct (bt_ge (ob_start blk) m) as [[k' b']|] eqn:E.
    + destruct (bt_ge_some m _ _ _ S E) as [I1 [I2 I3]].
      assert (HN' : ranges_overlap (rng blk) (rng b') = false).
      { apply (HN k' b'). unfold neighbours. rewrite E. apply in_or_app. right. left. reflexivity. }
      apply ranges_overlap_false in HN'. unfold rng in HN'. cbn [fst snd] in HN'.
      destruct (OK k' b' I1) as [Ek' [NEb' [Bb0' Bb1']]]. pose proof (len_pos _ NEb') as LPb'.
      assert (Hkk : k' <= k) by (apply (I3 (k, b) Hb); cbn; lia). lia.
    + pose proof (bt_ge_none m _ E (k, b) Hb) as F. cbn in F. lia.
Qed.

(* inserting a block that overlaps nothing keeps the map invariant *)
Lemma map_inv_insert blk m :
  map_inv m -> block_ok blk ->
  (forall k b, In (k, b) m -> ranges_overlap (rng blk) (rng b) = false) ->
  map_inv (bt_insert (ob_start blk) blk m) /\ Permutation (bt_insert (ob_start blk) blk m) ((ob_start blk, blk) :: m).
Proof.
  intros [S [OK DJ]] BO NO.
  assert (FR : forall x, In x m -> fst x <> ob_start blk).
  { intros [k b] Hb E. cbn in E. subst k. destruct (OK _ b Hb) as [Ek [NEb [Bb0 Bb1]]].
    destruct BO as [NE [B0 B1]]. pose proof (len_pos _ NE). pose proof (len_pos _ NEb).
    pose proof (NO _ b Hb) as D. apply ranges_overlap_false in D. unfold rng in D. cbn [fst snd] in D. lia. }
  destruct (bt_insert_fresh m (ob_start blk) blk S FR) as [S' P]. split; [|exact P].
  split; [exact S'|]. split.
  - intros k b Hb. apply (Permutation_in _ P) in Hb. destruct Hb as [Hb|Hb]; [injection Hb as <- <-; split; [reflexivity|exact BO] | exact (OK k b Hb)].
  - intros k b k' b' Hb Hb' Hne. apply (Permutation_in _ P) in Hb, Hb'.
    destruct Hb as [Hb|Hb]; destruct Hb' as [Hb'|Hb'].
    + injection Hb as <- <-. injection Hb' as <- <-. congruence.
    + injection Hb as <- <-. exact (NO k' b' Hb').
    + injection Hb' as <- <-. pose proof (NO k b Hb) as D. apply ranges_overlap_false in D. apply ranges_overlap_false. lia.
    + exact (DJ k b k' b' Hb Hb' Hne).
Qed.
