(* AsmDebug.v — debug symbols do not change what is assembled: with a source text pass 1 either
   panics (a line index outside the text, or line runs that are not sorted) or computes the same
   labels, relocations and verdict as without. *)
From Coq Require Import ZArith List Bool Lia.
From Gen Require Import Constants.
From Model Require Import Tree Text Bits Instr Offset AsmAst Obj SourceInfo Assembler.
Import ListNotations.
Open Scope Z_scope.

Definition erase (st : p1) : p1 := mkP1 (p1_cur st) (p1_labels st) (p1_rel st) None.

Lemma p1_step_dbg src st s :
  match p1_step None (erase st) s with
  | AOk st0' => p1_step src st s = APanic \/
                exists st', p1_step src st s = AOk st' /\ erase st' = st0' /\ (p1_lines st' = None <-> p1_lines st = None)
  | AErr k sp => p1_step src st s = APanic \/ p1_step src st s = AErr k sp
  | APanic => p1_step src st s = APanic
  end.
Proof.
  destruct st as [cur labels rel lines]. unfold erase, p1_step. cbn [p1_cur p1_labels p1_rel p1_lines].
  destruct (match s_labels s with [] => AOk labels | _ => _ end) as [L1|k sp|]; cbn [abind]; [|right; reflexivity|reflexivity].
  match goal with |- match abind ?B _ with _ => _ end => destruct B as [[[cur2 labels2] rel2]|k sp|] end; cbn [abind]; [|right; reflexivity|reflexivity].
  destruct cur2 as [cu|].
  - destruct lines as [ls|]; destruct src as [text|]; cbn [abind].
    + destruct (no_line_entry (s_nucleus s)); cbn [abind].
      * destruct (stmt_len (s_nucleus s)) as [n|]; [|reflexivity].
        destruct (shift cu n) as [cu'|k]; [right; eexists; split; [reflexivity | split; [reflexivity | cbn [p1_lines]; split; intros; first [assumption | discriminate | reflexivity]]] | right; reflexivity].
      * destruct ((0 <=? get_line text (s_start s)) && (get_line text (s_start s) <? len ls)); cbn [abind].
        -- destruct (stmt_len (s_nucleus s)) as [n|]; [|reflexivity].
           destruct (shift cu n) as [cu'|k]; [right; eexists; split; [reflexivity | split; [reflexivity | cbn [p1_lines]; split; intros; first [assumption | discriminate | reflexivity]]] | right; reflexivity].
        -- destruct (stmt_len (s_nucleus s)) as [n|]; [|reflexivity].
           destruct (shift cu n) as [cu'|k]; left; reflexivity.
    + destruct (stmt_len (s_nucleus s)) as [n|]; [|reflexivity].
      destruct (shift cu n) as [cu'|k]; [right; eexists; split; [reflexivity | split; [reflexivity | cbn [p1_lines]; split; intros; first [assumption | discriminate | reflexivity]]] | right; reflexivity].
    + destruct (stmt_len (s_nucleus s)) as [n|]; [|reflexivity].
      destruct (shift cu n) as [cu'|k]; [right; eexists; split; [reflexivity | split; [reflexivity | cbn [p1_lines]; split; intros; first [assumption | discriminate | reflexivity]]] | right; reflexivity].
    + destruct (stmt_len (s_nucleus s)) as [n|]; [|reflexivity].
      destruct (shift cu n) as [cu'|k]; [right; eexists; split; [reflexivity | split; [reflexivity | cbn [p1_lines]; split; intros; first [assumption | discriminate | reflexivity]]] | right; reflexivity].
  - right. eexists. split; [reflexivity | split; [reflexivity | cbn [p1_lines]; tauto]].
Qed.

Lemma p1_loop_dbg src p : forall st,
  match p1_loop None (erase st) p with
  | AOk st0' => p1_loop src st p = APanic \/
                exists st', p1_loop src st p = AOk st' /\ erase st' = st0' /\ (p1_lines st' = None <-> p1_lines st = None)
  | AErr k sp => p1_loop src st p = APanic \/ p1_loop src st p = AErr k sp
  | APanic => p1_loop src st p = APanic
  end.
Proof.
  induction p as [|s p IH]; intros st; cbn [p1_loop].
  - right. exists st. split; [reflexivity | split; [reflexivity | tauto]].
  - pose proof (p1_step_dbg src st s) as S.
    destruct (p1_step None (erase st) s) as [st0'|k sp|]; cbn [abind].
    + destruct S as [S|[st' [S [E HL]]]]; rewrite S; cbn [abind].
      * destruct (p1_loop None st0' p); [left|left|]; reflexivity.
      * subst st0'. specialize (IH st'). destruct (p1_loop None (erase st') p) as [st0''|k sp|]; try exact IH.
        destruct IH as [IH|[st'' [I1 [I2 I3]]]]; [left; exact IH|]. right. exists st''. split; [exact I1|]. split; [exact I2|]. tauto.
    + destruct S as [S|S]; rewrite S; [left|right]; reflexivity.
    + rewrite S. reflexivity.
Qed.

(* pass 1 with a source text against pass 1 without *)
Lemma pass1_dbg text p :
  match pass1 p None with
  | AOk sym0 => pass1 p (Some text) = APanic \/
                exists m, pass1 p (Some text) = AOk (mkSymtab (st_labels sym0) (st_rel sym0) (Some (mkDebug m text)))
  | AErr k sp => pass1 p (Some text) = APanic \/ pass1 p (Some text) = AErr k sp
  | APanic => pass1 p (Some text) = APanic
  end.
Proof.
  unfold pass1.
  pose proof (p1_loop_dbg (Some text) p (mkP1 None [] [] (Some (repeat None (Z.to_nat (count_lines text)))))) as S.
  unfold erase in S. cbn [p1_cur p1_labels p1_rel] in S.
  destruct (p1_loop None (mkP1 None [] [] None) p) as [st0|k sp|]; cbn [abind].
  - destruct S as [S|[st' [S [E HL]]]]; rewrite S; cbn [abind].
    + destruct (p1_cur st0); [left; reflexivity|]. destruct (p1_lines st0); left; reflexivity.
    + cbn [p1_lines] in HL. subst st0. unfold erase. cbn [p1_cur p1_labels p1_rel p1_lines].
      destruct (p1_cur st') as [cu|]; [right; reflexivity|].
      destruct (p1_lines st') as [ls|].
      * destruct (lsm_new ls) as [m|]; [right; exists m; reflexivity | left; reflexivity].
      * exfalso. assert (X : Some (repeat (@None Z) (Z.to_nat (count_lines text))) = None) by (apply HL; reflexivity). discriminate X.
  - destruct S as [S|S]; rewrite S; [left|right]; reflexivity.
  - rewrite S. reflexivity.
Qed.

(* assembling with debug symbols against assembling without *)
Theorem assemble_dbg text p :
  match assemble false None p with
  | AOk o0 => assemble true (Some text) p = APanic \/
              exists o1, assemble true (Some text) p = AOk o1 /\ o_blocks o1 = o_blocks o0
  | AErr k sp => assemble true (Some text) p = APanic \/ assemble true (Some text) p = AErr k sp
  | APanic => assemble true (Some text) p = APanic
  end.
Proof.
  unfold assemble. pose proof (pass1_dbg text p) as S.
  destruct (pass1 p None) as [sym0|k sp|]; cbn [abind].
  - destruct S as [S|[m S]]; rewrite S; cbn [abind].
    + destruct (pass2 p sym0 false); [left|left|]; reflexivity.
    + unfold pass2. cbn [st_labels].
      destruct (p2_loop (st_labels sym0) (mkP2 [] None) p) as [st|k sp|]; cbn [abind].
      * right. eexists. split; reflexivity.
      * right. reflexivity.
      * reflexivity.
  - destruct S as [S|S]; rewrite S; [left|right]; reflexivity.
  - rewrite S. reflexivity.
Qed.
