(* AsmLineMap.v — `LineSymbolMap` (a BTreeMap from the first line of a run to the addresses of the
   run): `get`, `find` (binary search in every run) and `iter` agree on every map that passes the
   checks of `from_blocks` (runs apart, every run sorted). *)
From Coq Require Import ZArith List Bool Lia Permutation Sorted.
From Model Require Import Tree Text Bits AsmAst Obj SourceInfo Assembler.
From Proofs Require Import AsmBase AsmBlocks.
Import ListNotations.
Open Scope Z_scope.
Ltac Zify.zify_post_hook ::= Z.div_mod_to_equations.

Lemma nth_z_some {A} (l : list A) i v : nth_z l i = Some v -> 0 <= i < len l.
Proof.
  unfold nth_z. destruct (i <? 0) eqn:E; [discriminate|]. intros H.
  assert (Z.to_nat i < length l)%nat by (apply nth_error_Some; congruence). unfold len. lia.
Qed.
Lemma nth_z_cons {A} (a : A) l i : 0 < i -> nth_z (a :: l) i = nth_z l (i - 1).
Proof.
  intros H. unfold nth_z. destruct (i <? 0) eqn:E; [lia|]. destruct (i - 1 <? 0) eqn:E2; [lia|].
  replace (Z.to_nat i) with (S (Z.to_nat (i - 1))) by lia. reflexivity.
Qed.
Lemma nth_z_0 {A} (a : A) l : nth_z (a :: l) 0 = Some a.
Proof. reflexivity. Qed.
Lemma nth_z_in {A} (l : list A) i v : nth_z l i = Some v -> In v l.
Proof. unfold nth_z. destruct (i <? 0); [discriminate|]. apply nth_error_In. Qed.
Lemma in_nth_z {A} (l : list A) v : In v l -> exists i, nth_z l i = Some v.
Proof.
  intros H. apply In_nth_error in H. destruct H as [n H]. exists (Z.of_nat n). unfold nth_z.
  destruct (Z.of_nat n <? 0) eqn:E; [apply Z.ltb_lt in E; lia|]. rewrite Nat2Z.id. exact H.
Qed.

Lemma enum_from_in {A} (r : list A) : forall k n a, In (n, a) (enum_from k r) <-> k <= n /\ nth_z r (n - k) = Some a.
Proof.
  induction r as [|x r IH]; intros k n a; cbn [enum_from].
  - split; [contradiction|]. intros [_ H]. apply nth_z_some in H. unfold len in H. cbn in H. lia.
  - split.
    + intros [H|H].
      * injection H as <- <-. split; [lia|]. rewrite Z.sub_diag. reflexivity.
      * apply IH in H. destruct H as [H1 H2]. split; [lia|]. rewrite nth_z_cons by lia. replace (n - k - 1) with (n - (k + 1)) by lia. exact H2.
    + intros [H1 H2]. destruct (Z.eq_dec n k) as [->|Hne].
      * rewrite Z.sub_diag in H2. cbn in H2. injection H2 as ->. left. reflexivity.
      * right. apply IH. split; [lia|]. rewrite nth_z_cons in H2 by lia. replace (n - (k + 1)) with (n - k - 1) by lia. exact H2.
Qed.

(* ---------- sorted runs and binary search ---------- *)
Definition sorted_nth (l : list Z) : Prop :=
  forall i j vi vj, i <= j -> nth_z l i = Some vi -> nth_z l j = Some vj -> vi <= vj.
Lemma windows_sorted l : windows_all Z.leb l = true -> sorted_nth l.
Proof.
  induction l as [|a l IH]; intros W i j vi vj Hij Hi Hj.
  - apply nth_z_some in Hi. unfold len in Hi. cbn in Hi. lia.
  - assert (Wl : windows_all Z.leb l = true) by (destruct l; [reflexivity | cbn [windows_all] in W; apply andb_prop in W; exact (proj2 W)]).
    assert (Hd : forall j v, 0 < j -> nth_z (a :: l) j = Some v -> a <= v).
    { clear - W Wl IH. intros j v Hj Hv. rewrite nth_z_cons in Hv by lia. destruct l as [|b l]; [apply nth_z_some in Hv; unfold len in Hv; cbn in Hv; lia|].
      cbn [windows_all] in W. apply andb_prop in W. destruct W as [W1 _]. apply Z.leb_le in W1.
      assert (b <= v); [|lia]. apply (IH Wl 0 (j - 1) b v); [lia | reflexivity | exact Hv]. }
    pose proof (nth_z_some _ _ _ Hi) as Ri. destruct (Z.eq_dec i 0) as [->|Hi0].
    + cbn in Hi. injection Hi as <-. destruct (Z.eq_dec j 0) as [->|Hj0]; [cbn in Hj; injection Hj as <-; lia|].
      apply (Hd j vj); [lia|exact Hj].
    + rewrite nth_z_cons in Hi, Hj by lia. apply (IH Wl (i - 1) (j - 1) vi vj); [lia|assumption|assumption].
Qed.

Lemma bsearch_loop_inv l x : sorted_nth l -> forall fuel base size,
  size - 1 <= Z.of_nat fuel -> 0 <= base -> 1 <= size -> base + size <= len l ->
  (exists j, base <= j < base + size /\ nth_z l j = Some x) ->
  nth_z l (bsearch_loop fuel l x base size) = Some x.
Proof.
  intros S fuel. induction fuel as [|fuel IH]; intros base size Hf Hb Hs Hl [j [Hj Hx]]; cbn [bsearch_loop].
  - assert (j = base) by lia. subst j. exact Hx.
  - destruct (size >? 1) eqn:E; [|assert (j = base) by lia; subst j; exact Hx].
    set (half := size / 2). assert (Hh : 1 <= half /\ half <= size - half) by (unfold half; lia).
    destruct (nth_z l (base + half)) as [v|] eqn:EM.
    + destruct (v >? x) eqn:EV.
      * apply IH; try lia. exists j. split; [|exact Hx].
        destruct (Z_lt_ge_dec j (base + half)) as [Hlt|Hge]; [lia|]. exfalso.
        pose proof (S (base + half) j v x ltac:(lia) EM Hx). lia.
      * apply IH; try lia. destruct (Z_lt_ge_dec j (base + half)) as [Hlt|Hge].
        -- exists (base + half). split; [lia|]. pose proof (S j (base + half) x v ltac:(lia) Hx EM). assert (v = x) by lia. subst v. exact EM.
        -- exists j. split; [lia|exact Hx].
    + exfalso. assert (R : 0 <= base + half < len l) by lia. unfold nth_z in EM. destruct (base + half <? 0) eqn:E0; [lia|].
      apply nth_error_None in EM. unfold len in R. lia.
Qed.

Lemma binary_search_sound l x i : binary_search l x = Some i -> nth_z l i = Some x.
Proof.
  unfold binary_search. destruct l as [|a l]; [discriminate|].
  destruct (nth_z (a :: l) _) as [v|] eqn:E; [|discriminate]. destruct (v =? x) eqn:EV; [|discriminate].
  apply Z.eqb_eq in EV. subst v. intros [= <-]. exact E.
Qed.
Lemma binary_search_complete l x : sorted_nth l -> In x l -> binary_search l x <> None.
Proof.
  intros S H. destruct (in_nth_z l x H) as [j Hj]. pose proof (nth_z_some _ _ _ Hj) as Rj.
  unfold binary_search. destruct l as [|a l]; [contradiction|].
  rewrite (bsearch_loop_inv (a :: l) x S (length (a :: l)) 0 (len (a :: l))); try (unfold len in *; lia).
  - rewrite Z.eqb_refl. discriminate.
  - exists j. split; [lia|exact Hj].
Qed.

(* ---------- maps that pass the checks of from_blocks ---------- *)
Definition apart_chk (l r : Z * list Z) : bool := fst l + len (snd l) <=? fst r.
Definition lm_ok (m : linemap) : Prop :=
  ksorted m /\ windows_all apart_chk m = true /\ forallb (fun b => windows_all Z.leb (snd b)) m = true.

Lemma lm_ok_tail x m : lm_ok (x :: m) -> lm_ok m.
Proof.
  intros [S [W F]]. split; [exact (proj1 (ksorted_inv _ _ S))|]. split.
  - destruct m; [reflexivity|]. cbn [windows_all] in W. apply andb_prop in W. exact (proj2 W).
  - cbn [forallb] in F. apply andb_prop in F. exact (proj2 F).
Qed.
Lemma lm_apart m : lm_ok m -> forall k r k' r', In (k, r) m -> In (k', r') m -> k < k' -> k + len r <= k'.
Proof.
  induction m as [|[k0 r0] m IH]; intros OK k r k' r' H1 H2 Hlt; [contradiction|].
  pose proof (lm_ok_tail _ _ OK) as OK'. destruct OK as [S [W _]]. apply ksorted_inv in S. destruct S as [S F]. rewrite Forall_forall in F.
  destruct H1 as [H1|H1]; destruct H2 as [H2|H2].
  - injection H1 as -> ->. injection H2 as -> ->. lia.
  - injection H1 as -> ->. destruct m as [|[k1 r1] m]; [contradiction|]. cbn [windows_all] in W. apply andb_prop in W. destruct W as [W1 _].
    unfold apart_chk in W1. cbn [fst snd] in W1. apply Z.leb_le in W1.
    destruct H2 as [H2|H2]; [injection H2 as -> ->; lia|].
    apply ksorted_inv in S. destruct S as [_ F1]. rewrite Forall_forall in F1. specialize (F1 _ H2). unfold key_lt in F1. cbn in F1. lia.
  - injection H2 as -> ->. specialize (F _ H1). unfold key_lt in F. cbn in F. lia.
  - exact (IH OK' k r k' r' H1 H2 Hlt).
Qed.
Lemma lm_run_sorted m k r : lm_ok m -> In (k, r) m -> sorted_nth r.
Proof.
  intros [_ [_ F]] H. rewrite forallb_forall in F. apply windows_sorted. exact (F _ H).
Qed.

Lemma lsm_iter_in m n a : In (n, a) (lsm_iter m) <-> exists k r, In (k, r) m /\ k <= n /\ nth_z r (n - k) = Some a.
Proof.
  unfold lsm_iter. rewrite in_flat_map. split.
  - intros [[k r] [H1 H2]]. cbn [fst snd] in H2. apply enum_from_in in H2. exists k, r. tauto.
  - intros [k [r [H1 H2]]]. exists (k, r). split; [exact H1|]. cbn [fst snd]. apply enum_from_in. exact H2.
Qed.

Theorem lsm_get_iter m n a : lm_ok m -> (lsm_get m n = Some a <-> In (n, a) (lsm_iter m)).
Proof.
  intros OK. pose proof (proj1 OK) as S. rewrite lsm_iter_in. unfold lsm_get. split.
  - destruct (bt_le n m) as [[k r]|] eqn:B; [|discriminate]. intros H.
    destruct (bt_le_some m n k r S B) as [I1 [I2 _]]. exists k, r. repeat split; assumption.
  - intros [k [r [H1 [H2 H3]]]]. pose proof (nth_z_some _ _ _ H3) as R3.
    destruct (bt_le n m) as [[k' r']|] eqn:B.
    + destruct (bt_le_some m n k' r' S B) as [I1 [I2 I3]]. pose proof (I3 (k, r) H1 H2) as Hk. cbn in Hk.
      destruct (Z.eq_dec k k') as [->|Hne].
      * rewrite (ksorted_unique m k' r' r S I1 H1). exact H3.
      * pose proof (lm_apart m OK k r k' r' H1 I1 ltac:(lia)). lia.
    + pose proof (bt_le_none m n S B (k, r) H1) as X. cbn in X. lia.
Qed.

Lemma lsm_find_sound m x n : lsm_find m x = Some n -> In (n, x) (lsm_iter m).
Proof.
  induction m as [|[k r] m IH]; cbn [lsm_find]; [discriminate|].
  destruct (binary_search r x) as [o|] eqn:B.
  - intros [= <-]. apply binary_search_sound in B. pose proof (nth_z_some _ _ _ B). apply lsm_iter_in. exists k, r.
    split; [left; reflexivity|]. split; [lia|]. replace (k + o - k) with o by lia. exact B.
  - intros H. specialize (IH H). apply lsm_iter_in in IH. destruct IH as [k' [r' [H1 H2]]]. apply lsm_iter_in. exists k', r'. split; [right; exact H1 | exact H2].
Qed.
Lemma lsm_find_complete m x : lm_ok m -> (exists n, In (n, x) (lsm_iter m)) -> lsm_find m x <> None.
Proof.
  induction m as [|[k r] m IH]; intros OK [n H]; apply lsm_iter_in in H; destruct H as [k' [r' [H1 [H2 H3]]]]; [contradiction|].
  cbn [lsm_find]. destruct (binary_search r x) as [o|] eqn:B; [discriminate|].
  destruct H1 as [H1|H1].
  - injection H1 as -> ->. exfalso. apply (binary_search_complete r' x); [apply (lm_run_sorted _ k' r' OK); left; reflexivity | exact (nth_z_in _ _ _ H3) | exact B].
  - apply (IH (lm_ok_tail _ _ OK)). exists n. apply lsm_iter_in. exists k', r'. repeat split; assumption.
Qed.
Theorem lsm_find_iter m x n : lm_ok m ->
  (forall n1 n2, In (n1, x) (lsm_iter m) -> In (n2, x) (lsm_iter m) -> n1 = n2) ->
  (lsm_find m x = Some n <-> In (n, x) (lsm_iter m)).
Proof.
  intros OK U. split; [apply lsm_find_sound|]. intros H.
  destruct (lsm_find m x) as [n'|] eqn:F.
  - f_equal. apply U; [apply lsm_find_sound; exact F | exact H].
  - exfalso. apply (lsm_find_complete m x OK); [exists n; exact H | exact F].
Qed.
