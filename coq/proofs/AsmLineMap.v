(* AsmLineMap.v — `LineSymbolMap` (a BTreeMap from the first line of a run to the addresses of the
   run): `get`, `find` (binary search in every run) and `iter` agree on every map that passes the
   checks of `from_blocks` (runs apart, every run sorted). *)
From Coq Require Import ZArith List Bool Lia Permutation Sorted.
From Model Require Import Tree Text Bits AsmAst Obj SourceInfo Assembler.
From Proofs Require Import AsmBase AsmBlocks.
Import ListNotations.
Open Scope Z_scope.
Ltac Zify.zify_post_hook ::= Z.div_mod_to_equations.

Lemma nth_z_some {A} (l : list A) i v : nth_z l i = Some v -> 0 <= i < len l.
Proof.
  unfold nth_z. destruct (i <? 0) eqn:E; [discriminate|]. intros H.
  assert (Z.to_nat i < length l)%nat by (apply nth_error_Some; congruence). unfold len. lia.
Qed.
Lemma nth_z_cons {A} (a : A) l i : 0 < i -> nth_z (a :: l) i = nth_z l (i - 1).
Proof.
  intros H. unfold nth_z. destruct (i <? 0) eqn:E; [lia|]. destruct (i - 1 <? 0) eqn:E2; [lia|].
  replace (Z.to_nat i) with (S (Z.to_nat (i - 1))) by lia. reflexivity.
Qed.
Lemma nth_z_0 {A} (a : A) l : nth_z (a :: l) 0 = Some a.
Proof. reflexivity. Qed.
Lemma nth_z_in {A} (l : list A) i v : nth_z l i = Some v -> In v l.
Proof. unfold nth_z. destruct (i <? 0); [discriminate|]. apply nth_error_In. Qed.
Lemma in_nth_z {A} (l : list A) v : In v l -> exists i, nth_z l i = Some v.
Proof.
  intros H. apply In_nth_error in H. destruct H as [n H]. exists (Z.of_nat n). unfold nth_z.
  destruct (Z.of_nat n <? 0) eqn:E; [apply Z.ltb_lt in E; lia|]. rewrite Nat2Z.id. exact H.
Qed.

Lemma enum_from_in {A} (r : list A) : forall k n a, In (n, a) (enum_from k r) <-> k <= n /\ nth_z r (n - k) = Some a.
Proof.
  induction r as [|x r IH]; intros k n a; cbn [enum_from].
  - split; [contradiction|]. intros [_ H]. apply nth_z_some in H. unfold len in H. cbn in H. lia.
  - split.
    + intros [H|H].
      * injection H as <- <-. split; [lia|]. rewrite Z.sub_diag. reflexivity.
      * apply IH in H. destruct H as [H1 H2]. split; [lia|]. rewrite nth_z_cons by lia. replace (n - k - 1) with (n - (k + 1)) by lia. exact H2.
    + intros [H1 H2]. destruct (Z.eq_dec n k) as [->|Hne].
      * rewrite Z.sub_diag in H2. cbn in H2. injection H2 as ->. left. reflexivity.
      * right. apply IH. split; [lia|]. rewrite nth_z_cons in H2 by lia. replace (n - (k + 1)) with (n - k - 1) by lia. exact H2.
Qed.

(* ---------- sorted runs and binary search ---------- *)
Definition sorted_nth (l : list Z) : Prop :=
  forall i j vi vj, i <= j -> nth_z l i = Some vi -> nth_z l j = Some vj -> vi <= vj.
Lemma windows_sorted l : windows_all Z.leb l = true -> sorted_nth l.
Proof.
  induction l as [|a l IH]; intros W i j vi vj Hij Hi Hj.
  - apply nth_z_some in Hi. unfold len in Hi. cbn in Hi. lia.
  - assert (Wl : windows_all Z.leb l = true) by (destruct l; [reflexivity | cbn [windows_all] in W; apply andb_prop in W; exact (proj2 W)]).
    assert (Hd : forall j v, 0 < j -> nth_z (a :: l) j = Some v -> a <= v).
    { clear - W Wl IH. intros j v Hj Hv. rewrite nth_z_cons in Hv by lia. destruct l as [|b l]; [apply nth_z_some in Hv; unfold len in Hv; cbn in Hv; lia|].
      cbn [windows_all] in W. apply andb_prop in W. destruct W as [W1 _]. apply Z.leb_le in W1.
      assert (b <= v); [|lia]. apply (IH Wl 0 (j - 1) b v); [lia | reflexivity | exact Hv]. }
    pose proof (nth_z_some _ _ _ Hi) as Ri. destruct (Z.eq_dec i 0) as [->|Hi0].
    + cbn in Hi. injection Hi as <-. destruct (Z.eq_dec j 0) as [->|Hj0]; [cbn in Hj; injection Hj as <-; lia|].
      apply (Hd j vj); [lia|exact Hj].
    + rewrite nth_z_cons in Hi, Hj by lia. apply (IH Wl (i - 1) (j - 1) vi vj); [lia|assumption|assumption].
Qed.

Lemma bsearch_loop_inv l x : sorted_nth l -> forall fuel base size,
  size - 1 <= Z.of_nat fuel -> 0 <= base -> 1 <= size -> base + size <= len l ->
  (exists j, base <= j < base + size /\ nth_z l j = Some x) ->
  nth_z l (bsearch_loop fuel l x base size) = Some x.
Proof.
  intros S fuel. induction fuel as [|fuel IH]; intros base size Hf Hb Hs Hl [j [Hj Hx]]; cbn [bsearch_loop].
  - assert (j = base) by lia. subst j. exact Hx.
  - destruct (size >? 1) eqn:E; [|assert (j = base) by lia; subst j; exact Hx].
    set (half := size / 2). assert (Hh : 1 <= half /\ half <= size - half) by (unfold half; lia).
    destruct (nth_z l (base + half)) as [v|] eqn:EM.
    + destruct (v >? x) eqn:EV.
      * apply IH; try lia. exists j. split; [|exact Hx].
        destruct (Z_lt_ge_dec j (base + half)) as [Hlt|Hge]; [lia|]. exfalso.
        pose proof (S (base + half) j v x ltac:(lia) EM Hx). lia.
      * apply IH; try lia. destruct (Z_lt_ge_dec j (base + half)) as [Hlt|Hge].
        -- exists (base + half). split; [lia|]. pose proof (S j (base + half) x v ltac:(lia) Hx EM). assert (v = x) by lia. subst v. exact EM.
        -- exists j. split; [lia|exact Hx].
    + exfalso. assert (R : 0 <= base + half < len l) by lia. unfold nth_z in EM. destruct (base + half <? 0) eqn:E0; [lia|].
      apply nth_error_None in EM. unfold len in R. lia.
Qed.

Lemma binary_search_sound l x i : binary_search l x = Some i -> nth_z l i = Some x.
Proof.
  unfold binary_search. destruct l as [|a l]; [discriminate|].
  destruct (nth_z (a :: l) _) as [v|] eqn:E; [|discriminate]. destruct (v =? x) eqn:EV; [|discriminate].
  apply Z.eqb_eq in EV. subst v. intros [= <-]. exact E.
Qed.
Lemma binary_search_complete l x : sorted_nth l -> In x l -> binary_search l x <> None.
Proof.
  intros S H. destruct (in_nth_z l x H) as [j Hj]. pose proof (nth_z_some _ _ _ Hj) as Rj.
  unfold binary_search. destruct l as [|a l]; [contradiction|].
  rewrite (bsearch_loop_inv (a :: l) x S (length (a :: l)) 0 (len (a :: l))); try (unfold len in *; lia).
  - rewrite Z.eqb_refl. discriminate.
  - exists j. split; [lia|exact Hj].
Qed.

(* ---------- maps that pass the checks of from_blocks ---------- *)
Definition apart_chk (l r : Z * list Z) : bool := fst l + len (snd l) <=? fst r.
Definition lm_ok (m : linemap) : Prop :=
  ksorted m /\ windows_all apart_chk m = true /\ forallb (fun b => windows_all Z.leb (snd b)) m = true.

Lemma lm_ok_tail x m : lm_ok (x :: m) -> lm_ok m.
Proof.
  intros [S [W F]]. split; [exact (proj1 (ksorted_inv _ _ S))|]. split.
  - destruct m; [reflexivity|]. cbn [windows_all] in W. apply andb_prop in W. exact (proj2 W).
  - cbn [forallb] in F. apply andb_prop in F. exact (proj2 F).
Qed.
Lemma lm_apart m : lm_ok m -> forall k r k' r', In (k, r) m -> In (k', r') m -> k < k' -> k + len r <= k'.
Proof.
  induction m as [|[k0 r0] m IH]; intros OK k r k' r' H1 H2 Hlt; [contradiction|].
  pose proof (lm_ok_tail _ _ OK) as OK'. destruct OK as [S [W _]]. apply ksorted_inv in S. destruct S as [S F]. rewrite Forall_forall in F.
  destruct H1 as [H1|H1]; destruct H2 as [H2|H2].
  - injection H1 as -> ->. injection H2 as -> ->. lia.
  - injection H1 as -> ->. destruct m as [|[k1 r1] m]; [contradiction|]. cbn [windows_all] in W. apply andb_prop in W. destruct W as [W1 _].
    unfold apart_chk in W1. cbn [fst snd] in W1. apply Z.leb_le in W1.
    destruct H2 as [H2|H2]; [injection H2 as -> ->; lia|].
    apply ksorted_inv in S. destruct S as [_ F1]. rewrite Forall_forall in F1. specialize (F1 _ H2). unfold key_lt in F1. cbn in F1. lia.
  - injection H2 as -> ->. specialize (F _ H1). unfold key_lt in F. cbn in F. lia.
  - exact (IH OK' k r k' r' H1 H2 Hlt).
Qed.
Lemma lm_run_sorted m k r : lm_ok m -> In (k, r) m -> sorted_nth r.
Proof.
  intros [_ [_ F]] H. rewrite forallb_forall in F. apply windows_sorted. exact (F _ H).
Qed.

Lemma lsm_iter_in m n a : In (n, a) (lsm_iter m) <-> exists k r, In (k, r) m /\ k <= n /\ nth_z r (n - k) = Some a.
Proof.
  unfold lsm_iter. rewrite in_flat_map. split.
  - intros [[k r] [H1 H2]]. cbn [fst snd] in H2. apply enum_from_in in H2. exists k, r. tauto.
  - intros [k [r [H1 H2]]]. exists (k, r). split; [exact H1|]. cbn [fst snd]. apply enum_from_in. exact H2.
Qed.

Theorem lsm_get_iter m n a : lm_ok m -> (lsm_get m n = Some a <-> In (n, a) (lsm_iter m)).
Proof.
  intros OK. pose proof (proj1 OK) as S. rewrite lsm_iter_in. unfold lsm_get. split.
  - destruct (bt_le n m) as [[k r]|] eqn:B; [|discriminate]. intros H.
    destruct (bt_le_some m n k r S B) as [I1 [I2 _]]. exists k, r. repeat split; assumption.
  - intros [k [r [H1 [H2 H3]]]]. pose proof (nth_z_some _ _ _ H3) as R3.
    destruct (bt_le n m) as [[k' r']|] eqn:B.
    + destruct (bt_le_some m n k' r' S B) as [I1 [I2 I3]]. pose proof (I3 (k, r) H1 H2) as Hk. cbn in Hk.
      destruct (Z.eq_dec k k') as [->|Hne].
      * rewrite (ksorted_unique m k' r' r S I1 H1). exact H3.
      * pose proof (lm_apart m OK k r k' r' H1 I1 ltac:(lia)). lia.
    + pose proof (bt_le_none m n S B (k, r) H1) as X. cbn in X. lia.
Qed.

Lemma lsm_find_sound m x n : lsm_find m x = Some n -> In (n, x) (lsm_iter m).
Proof.
  induction m as [|[k r] m IH]; cbn [lsm_find]; [discriminate|].
  destruct (binary_search r x) as [o|] eqn:B.
  - intros [= <-]. apply binary_search_sound in B. pose proof (nth_z_some _ _ _ B). apply lsm_iter_in. exists k, r.
    split; [left; reflexivity|]. split; [lia|]. replace (k + o - k) with o by lia. exact B.
  - intros H. specialize (IH H). apply lsm_iter_in in IH. destruct IH as [k' [r' [H1 H2]]]. apply lsm_iter_in. exists k', r'. split; [right; exact H1 | exact H2].
Qed.
Lemma lsm_find_complete m x : lm_ok m -> (exists n, In (n, x) (lsm_iter m)) -> lsm_find m x <> None.
Proof.
  induction m as [|[k r] m IH]; intros OK [n H]; apply lsm_iter_in in H; destruct H as [k' [r' [H1 [H2 H3]]]]; [contradiction|].
  cbn [lsm_find]. destruct (binary_search r x) as [o|] eqn:B; [discriminate|].
  destruct H1 as [H1|H1].
  - injection H1 as -> ->. exfalso. apply (binary_search_complete r' x); [apply (lm_run_sorted _ k' r' OK); left; reflexivity | exact (nth_z_in _ _ _ H3) | exact B].
  - apply (IH (lm_ok_tail _ _ OK)). exists n. apply lsm_iter_in. exists k', r'. repeat split; assumption.
Qed.
Theorem lsm_find_iter m x n : lm_ok m ->
  (forall n1 n2, In (n1, x) (lsm_iter m) -> In (n2, x) (lsm_iter m) -> n1 = n2) ->
  (lsm_find m x = Some n <-> In (n, x) (lsm_iter m)).
Proof.
  intros OK U. split; [apply lsm_find_sound|]. intros H.
  destruct (lsm_find m x) as [n'|] eqn:F.
  - f_equal. apply U; [apply lsm_find_sound; exact F | exact H].
  - exfalso. apply (lsm_find_complete m x OK); [exists n; exact H | exact F].
Qed.

(* ---------- LineSymbolMap::new ---------- *)
Fixpoint runs' (lines : list (option Z)) (i : Z) (cur : option (list Z)) : linemap :=
  match lines with
  | [] => []
  | Some a :: r => runs' r (i + 1) (Some (match cur with Some c => snoc c a | None => [a] end))
  | None :: r =>
      match cur with
      | Some bl => (i - len bl, bl) :: runs' r (i + 1) None
      | None => runs' r (i + 1) None
      end
  end.
Definition len_opt (cur : option (list Z)) : Z := match cur with Some c => len c | None => 0 end.

Lemma bt_insert_last {V} (m : list (Z * V)) k v : (forall x, In x m -> fst x < k) -> bt_insert k v m = m ++ [(k, v)].
Proof.
  induction m as [|[k0 v0] m IH]; intros H; cbn [bt_insert app]; [reflexivity|].
  pose proof (H (k0, v0) (or_introl eq_refl)) as H0. cbn in H0.
  destruct (k <? k0) eqn:E1; [lia|]. destruct (k =? k0) eqn:E2; [lia|].
  rewrite IH by (intros x Hx; apply H; right; exact Hx). reflexivity.
Qed.

Lemma lsm_runs_eq lines : forall i cur acc,
  (forall x, In x acc -> fst x < i - len_opt cur) ->
  lsm_runs lines i cur acc = acc ++ runs' lines i cur.
Proof.
  induction lines as [|[a|] lines IH]; intros i cur acc H; cbn [lsm_runs runs'].
  - rewrite app_nil_r. reflexivity.
  - apply IH. intros x Hx. specialize (H x Hx). destruct cur as [c|]; cbn [len_opt] in *.
    + rewrite len_snoc. lia.
    + unfold len. cbn. lia.
  - destruct cur as [bl|]; cbn [len_opt] in *.
    + rewrite bt_insert_last by exact H. rewrite IH.
      * rewrite <- app_assoc. reflexivity.
      * intros x Hx. cbn [len_opt]. pose proof (len_nonneg bl). apply in_app_or in Hx. destruct Hx as [Hx|[<-|[]]]; [specialize (H x Hx); lia | cbn; lia].
    + apply IH. intros x Hx. specialize (H x Hx). cbn [len_opt]. lia.
Qed.

Lemma runs'_struct lines : forall i cur,
  let m := runs' lines i cur in
  ksorted m /\ windows_all apart_chk m = true /\ (forall x, In x m -> i - len_opt cur <= fst x).
Proof.
  induction lines as [|[a|] lines IH]; intros i cur; cbn [runs'].
  - split; [constructor|]. split; [reflexivity|]. intros x [].
  - specialize (IH (i + 1) (Some (match cur with Some c => snoc c a | None => [a] end))). cbn zeta in IH.
    destruct IH as [I1 [I2 I3]]. split; [exact I1|]. split; [exact I2|].
    intros x Hx. specialize (I3 x Hx). destruct cur as [c|]; cbn [len_opt] in *; [rewrite len_snoc in I3; lia | unfold len in I3; cbn in I3; lia].
  - specialize (IH (i + 1) None). cbn zeta in IH. cbn [len_opt] in IH. destruct IH as [I1 [I2 I3]].
    destruct cur as [bl|]; cbn [len_opt].
    + pose proof (len_nonneg bl) as LB. split; [|split].
      * constructor; [exact I1|]. apply Forall_forall. intros x Hx. specialize (I3 x Hx). unfold key_lt. cbn. lia.
      * destruct (runs' lines (i + 1) None) as [|y m'] eqn:EM; [reflexivity|]. cbn [windows_all] in *. rewrite I2, andb_true_r.
        unfold apart_chk. cbn [fst snd]. specialize (I3 y (or_introl eq_refl)). apply Z.leb_le. lia.
      * intros x [<-|Hx]; [cbn; lia|]. specialize (I3 x Hx). lia.
    + split; [exact I1|]. split; [exact I2|]. intros x Hx. specialize (I3 x Hx). lia.
Qed.

(* the lines that hold an address, in order *)
Fixpoint enum_some (lines : list (option Z)) (i : Z) : list (Z * Z) :=
  match lines with
  | [] => []
  | Some a :: r => (i, a) :: enum_some r (i + 1)
  | None :: r => enum_some r (i + 1)
  end.
(* every run is followed by a line without address (a run that reaches the end of the table is
   dropped by the Rust loop) *)
Fixpoint closed (lines : list (option Z)) (open : bool) : Prop :=
  match lines with
  | [] => open = false
  | Some _ :: r => closed r true
  | None :: r => closed r false
  end.

Lemma enum_from_app {A} (l l' : list A) : forall k, enum_from k (l ++ l') = enum_from k l ++ enum_from (k + len l) l'.
Proof.
  induction l as [|x l IH]; intros k; cbn [enum_from app].
  - unfold len. cbn. rewrite Z.add_0_r. reflexivity.
  - rewrite IH. do 3 f_equal. unfold len. cbn [length]. lia.
Qed.

Lemma iter_runs' lines : forall i cur,
  closed lines (match cur with Some _ => true | None => false end) ->
  lsm_iter (runs' lines i cur) =
  (match cur with Some c => enum_from (i - len c) c | None => [] end) ++ enum_some lines i.
Proof.
  induction lines as [|[a|] lines IH]; intros i cur C; cbn [runs' enum_some closed] in *.
  - destruct cur; [discriminate|reflexivity].
  - rewrite IH by exact C. destruct cur as [c|].
    + unfold snoc. rewrite enum_from_app, len_app. cbn [enum_from]. rewrite <- app_assoc. cbn [app].
      assert (L1 : len [a] = 1) by reflexivity. rewrite L1.
      replace (i + 1 - (len c + 1)) with (i - len c) by lia.
      replace (i - len c + len c) with i by lia. reflexivity.
    + cbn [enum_from]. unfold len. cbn. replace (i + 1 - 1) with i by lia. reflexivity.
  - destruct cur as [bl|].
    + unfold lsm_iter. cbn [flat_map fst snd]. fold (lsm_iter (runs' lines (i + 1) None)). rewrite IH by exact C. reflexivity.
    + rewrite IH by exact C. reflexivity.
Qed.

Lemma stable_sort_sorted (m : linemap) : ksorted m -> stable_sort m = m.
Proof.
  unfold stable_sort.
  assert (G : forall acc, ksorted m -> (forall y x, In y acc -> In x m -> fst y < fst x) ->
                fold_left (fun a x => stable_insert x a) m acc = acc ++ m).
  { induction m as [|x m IH]; intros acc S H; cbn [fold_left]; [rewrite app_nil_r; reflexivity|].
    apply ksorted_inv in S. destruct S as [S F]. rewrite Forall_forall in F.
    assert (SI : stable_insert x acc = acc ++ [x]).
    { clear IH. induction acc as [|y acc IHa]; [reflexivity|]. cbn [stable_insert app].
      pose proof (H y x (or_introl eq_refl) (or_introl eq_refl)). destruct (fst x <? fst y) eqn:E; [lia|].
      rewrite IHa by (intros y0 x0 Hy Hx; apply H; [right; exact Hy | exact Hx]). reflexivity. }
    rewrite SI, IH; [rewrite <- app_assoc; reflexivity | exact S |].
    intros y x0 Hy Hx. apply in_app_or in Hy. destruct Hy as [Hy|[<-|[]]]; [apply H; [exact Hy | right; exact Hx] | exact (F _ Hx)]. }
  intros S. rewrite G; [reflexivity | exact S | intros y x []].
Qed.
Lemma lsm_sort_sorted (m : linemap) : ksorted m -> lsm_sort m = m.
Proof.
  unfold lsm_sort.
  assert (G : forall acc, ksorted m -> (forall y x, In y acc -> In x m -> fst y < fst x) ->
                fold_left (fun a kv => bt_insert (fst kv) (snd kv) a) m acc = acc ++ m).
  { induction m as [|[k v] m IH]; intros acc S H; cbn [fold_left]; [rewrite app_nil_r; reflexivity|].
    apply ksorted_inv in S. destruct S as [S F]. rewrite Forall_forall in F. cbn [fst snd].
    rewrite bt_insert_last by (intros y Hy; apply (H y (k, v) Hy (or_introl eq_refl))).
    rewrite IH; [rewrite <- app_assoc; reflexivity | exact S |].
    intros y x0 Hy Hx. apply in_app_or in Hy. destruct Hy as [Hy|[<-|[]]]; [apply H; [exact Hy | right; exact Hx] | exact (F _ Hx)]. }
  intros S. rewrite G; [reflexivity | exact S | intros y x []].
Qed.

Definition runs_sorted (m : linemap) : bool := forallb (fun b => windows_all Z.leb (snd b)) m.

Theorem lsm_new_spec lines :
  lsm_new lines = if runs_sorted (runs' lines 0 None) then Some (runs' lines 0 None) else None.
Proof.
  unfold lsm_new. rewrite (lsm_runs_eq lines 0 None []) by (intros x []). cbn [app].
  destruct (runs'_struct lines 0 None) as [S [W _]]. unfold lsm_from_blocks.
  rewrite (stable_sort_sorted _ S). fold apart_chk. rewrite W. fold (runs_sorted (runs' lines 0 None)).
  rewrite (lsm_sort_sorted _ S). reflexivity.
Qed.
Theorem lsm_new_ok lines m : lsm_new lines = Some m -> closed lines false ->
  lm_ok m /\ lsm_iter m = enum_some lines 0.
Proof.
  rewrite lsm_new_spec. destruct (runs_sorted (runs' lines 0 None)) eqn:R; [|discriminate]. intros [= <-] C.
  destruct (runs'_struct lines 0 None) as [S [W _]]. split; [split; [exact S | split; [exact W | exact R]]|].
  rewrite (iter_runs' lines 0 None C). reflexivity.
Qed.

Lemma enum_some_in lines : forall i n a, In (n, a) (enum_some lines i) <-> i <= n /\ nth_z lines (n - i) = Some (Some a).
Proof.
  induction lines as [|[b|] lines IH]; intros i n a; cbn [enum_some].
  - split; [contradiction|]. intros [_ H]. apply nth_z_some in H. unfold len in H. cbn in H. lia.
  - split.
    + intros [H|H]; [injection H as <- <-; split; [lia|]; rewrite Z.sub_diag; reflexivity|].
      apply IH in H. destruct H as [H1 H2]. split; [lia|]. rewrite nth_z_cons by lia. replace (n - i - 1) with (n - (i + 1)) by lia. exact H2.
    + intros [H1 H2]. destruct (Z.eq_dec n i) as [->|Hne].
      * rewrite Z.sub_diag in H2. cbn in H2. injection H2 as ->. left. reflexivity.
      * right. apply IH. split; [lia|]. rewrite nth_z_cons in H2 by lia. replace (n - (i + 1)) with (n - i - 1) by lia. exact H2.
  - rewrite IH. split.
    + intros [H1 H2]. split; [lia|]. rewrite nth_z_cons by lia. replace (n - i - 1) with (n - (i + 1)) by lia. exact H2.
    + intros [H1 H2]. destruct (Z.eq_dec n i) as [->|Hne]; [rewrite Z.sub_diag in H2; discriminate H2|].
      split; [lia|]. rewrite nth_z_cons in H2 by lia. replace (n - (i + 1)) with (n - i - 1) by lia. exact H2.
Qed.
