(* AsmLines.v — the line table recorded by pass 1 (C24) and the totality of `assemble_debug`.
   [entries text p]: the (line, address) pair of every statement that stands inside a block and is
   not .orig/.end/.external, positionally.  Under [lines_inc] (every statement starts on a later
   line than the one before — what the parser guarantees) the table built by pass 1 holds exactly
   these pairs, `LineSymbolMap::new` never fails, and get/find/iter answer from them. *)
From Coq Require Import ZArith List Bool Lia Permutation Sorted.
From Gen Require Import Constants.
From Model Require Import Tree Text Bits Instr Offset AsmAst Obj SourceInfo Assembler.
From Spec Require Import LayoutSpec WfSpec LineSpec.
From Proofs Require Import AsmBase AsmPass1 AsmBlocks AsmPass2 AsmDebug AsmThms AsmLineMap SourceInfoProofs.
Import ListNotations.
Open Scope Z_scope.
Ltac Zify.zify_post_hook ::= Z.div_mod_to_equations.

Definition entry_of := line_entry.
Definition entries := spec_lines.
Lemma no_line_entry_needs s : no_line_entry (s_nucleus s) = negb (needs_addr s).
Proof. unfold no_line_entry, needs_addr. destruct (s_nucleus s) as [i|[a|o|n|t| |l]]; reflexivity. Qed.

Lemma count_lt_nonneg l x : 0 <= count_lt l x.
Proof. induction l as [|a l IH]; cbn [count_lt]; [lia|]. destruct (a <? x); lia. Qed.
Lemma get_line_range text i : 0 <= get_line text i < count_lines text.
Proof.
  unfold get_line. pose proof (count_lt_nonneg (nl_indices text) i). rewrite count_lines_spec.
  pose proof (count_nl_nonneg text). lia.
Qed.

(* ---------- the table as an array ---------- *)
Definition apply_entry (ls : list (option Z)) (e : Z * Z) : list (option Z) :=
  set_nth ls (Z.to_nat (fst e)) (Some (snd e)).

Lemma set_nth_length {A} (l : list A) : forall n x, length (set_nth l n x) = length l.
Proof. induction l as [|a l IH]; intros [|n] x; cbn [set_nth length]; try reflexivity. rewrite IH. reflexivity. Qed.
Lemma nth_error_set_nth {A} (l : list A) : forall n x m,
  nth_error (set_nth l n x) m = if Nat.eqb m n then (if Nat.ltb n (length l) then Some x else None) else nth_error l m.
Proof.
  induction l as [|a l IH]; intros [|n] x [|m]; cbn [set_nth nth_error length Nat.eqb]; try reflexivity.
  - destruct (Nat.eqb m n); reflexivity.
  - rewrite IH. destruct (Nat.eqb m n); [|reflexivity]. cbn. reflexivity.
Qed.
Lemma nth_z_apply ls e n : 0 <= fst e < len ls -> 0 <= n ->
  nth_z (apply_entry ls e) n = if n =? fst e then Some (Some (snd e)) else nth_z ls n.
Proof.
  intros He Hn. unfold nth_z, apply_entry. destruct (n <? 0) eqn:E; [lia|]. rewrite nth_error_set_nth.
  destruct (n =? fst e) eqn:E1.
  - apply Z.eqb_eq in E1. subst n. rewrite Nat.eqb_refl. unfold len in He.
    destruct (Nat.ltb (Z.to_nat (fst e)) (length ls)) eqn:E2; [reflexivity|]. apply Nat.ltb_ge in E2. lia.
  - apply Z.eqb_neq in E1. destruct (Nat.eqb (Z.to_nat n) (Z.to_nat (fst e))) eqn:E2; [apply Nat.eqb_eq in E2; lia | reflexivity].
Qed.
Lemma len_apply ls e : len (apply_entry ls e) = len ls.
Proof. unfold len, apply_entry. rewrite set_nth_length. reflexivity. Qed.

Lemma table_spec E : forall ls n a, 0 <= n ->
  NoDup (map fst E) -> (forall e, In e E -> 0 <= fst e < len ls) ->
  (nth_z (fold_left apply_entry E ls) n = Some (Some a) <->
   (In (n, a) E \/ (~ In n (map fst E) /\ nth_z ls n = Some (Some a)))).
Proof.
  induction E as [|e E IH]; intros ls n a Hn ND R; cbn [fold_left map].
  - split; [intros H; right; split; [intros []|exact H] | intros [[]|[_ H]]; exact H].
  - inversion ND as [|? ? N1 N2]; subst.
    rewrite IH; [|exact Hn|exact N2|intros e' He'; rewrite len_apply; apply R; right; exact He'].
    rewrite nth_z_apply by (try apply R; try (left; reflexivity); exact Hn).
    destruct (n =? fst e) eqn:E1.
    + apply Z.eqb_eq in E1. split.
      * intros [H|[H1 H2]]; [left; right; exact H|]. injection H2 as <-. left. left. destruct e; cbn in *; congruence.
      * intros [[H|H]|[H1 H2]].
        -- right. split; [rewrite E1; exact N1|]. subst e. reflexivity.
        -- left. exact H.
        -- exfalso. apply H1. left. symmetry. exact E1.
    + apply Z.eqb_neq in E1. split.
      * intros [H|[H1 H2]]; [left; right; exact H|]. right. split; [|exact H2]. intros [X|X]; [congruence|contradiction].
      * intros [[H|H]|[H1 H2]].
        -- subst e. cbn in E1. congruence.
        -- left. exact H.
        -- right. split; [|exact H2]. intros X. apply H1. right. exact X.
Qed.
Lemma len_fold_apply E : forall ls, len (fold_left apply_entry E ls) = len ls.
Proof. induction E as [|e E IH]; intros ls; cbn [fold_left]; [reflexivity|]. rewrite IH, len_apply. reflexivity. Qed.

Lemma nth_z_repeat_none (n : nat) i (v : option Z) : nth_z (repeat (@None Z) n) i = Some v -> v = None.
Proof. intros H. apply nth_z_in in H. apply repeat_spec in H. exact H. Qed.

Lemma closed_last lines : forall b,
  closed lines b <-> match lines with [] => b = false | _ => nth_z lines (len lines - 1) = Some None end.
Proof.
  induction lines as [|x lines IH]; intros b; [reflexivity|].
  assert (L : len (x :: lines) - 1 = len lines) by (unfold len; cbn [length]; lia).
  destruct lines as [|y lines'].
  - destruct x; cbn; split; intros H; try discriminate; reflexivity.
  - rewrite L. rewrite nth_z_cons by (unfold len; cbn [length]; lia).
    destruct x; cbn [closed]; [exact (IH true) | exact (IH false)].
Qed.

(* ---------- how one step of pass 1 changes the table ---------- *)
Lemma p1_step_lines text st s st' ls :
  p1_lines st = Some ls -> p1_step (Some text) st s = AOk st' ->
  p1_lines st' = Some (match p1_cur st with
                       | Some cur => if no_line_entry (s_nucleus s) then ls else apply_entry ls (line_of text s, c_lc cur)
                       | None => ls
                       end).
Proof.
  intros HL E. destruct st as [cur labels rel lines]. cbn [p1_lines p1_cur] in *. subst lines.
  unfold p1_step in E. cbn [p1_cur p1_labels p1_rel p1_lines] in E.
  destruct (match s_labels s with [] => AOk labels | _ => _ end) as [L1|k sp|]; cbn [abind] in E; try discriminate.
  unfold apply_entry, line_of. cbn [fst snd].
  destruct (s_nucleus s) as [i|[a|[v|l]|n|t| |l]] eqn:EN; cbn [no_line_entry] in *;
    destruct cur as [cu|]; cbn [abind] in E; try discriminate E;
    repeat match type of E with
           | context [add_label ?a ?b ?c ?d] => destruct (add_label a b c d); cbn [abind] in E; try discriminate E
           | context [assoc ?a ?b] => destruct (assoc a b) as [dd|]; [destruct (sd_external dd)|]; cbn [abind] in E; try discriminate E
           | context [if ?c then _ else _] => destruct c; cbn [abind] in E; try discriminate E
           | context [stmt_len ?n] => destruct (stmt_len n); try discriminate E
           | context [word_len ?n] => destruct (word_len n); try discriminate E
           | context [shift ?c ?n] => destruct (shift c n); try discriminate E
           end;
    try (injection E as <-; reflexivity).
Qed.

Lemma p1_loop_lines text suf : forall pre st ls st',
  I1 pre (erase st) -> p1_lines st = Some ls -> typed suf = true ->
  p1_loop (Some text) st suf = AOk st' ->
  p1_lines st' = Some (fold_left apply_entry (flat_map (entry_of text) (place (final None pre) suf)) ls)
  /\ I1 (pre ++ suf) (erase st').
Proof.
  induction suf as [|s suf IH]; intros pre st ls st' HI HL T E; cbn [p1_loop] in E.
  - injection E as <-. cbn [place flat_map fold_left]. rewrite app_nil_r. split; assumption.
  - cbn [typed forallb] in T. apply andb_prop in T. destruct T as [T1 T2].
    destruct (p1_step (Some text) st s) as [st1|k sp|] eqn:ES; cbn [abind] in E; try discriminate.
    pose proof (p1_step_dbg (Some text) st s) as D.
    pose proof (p1_step_inv pre (erase st) s HI eq_refl T1) as SI.
    destruct (p1_step None (erase st) s) as [st0'|k sp|].
    + destruct D as [D|[st'' [D [EE _]]]]; [congruence|]. rewrite ES in D. injection D as <-. subst st0'.
      destruct SI as [HI1 _].
      pose proof (p1_step_lines text st s st1 ls HL ES) as L1.
      destruct (IH (pre ++ [s]) st1 _ st' HI1 L1 T2 E) as [R1 R2]. split.
      * rewrite R1. f_equal. cbn [place flat_map]. rewrite fold_left_app, final_snoc. f_equal.
        pose proof (i1_cur _ _ HI) as CR. unfold cur_rel in CR. cbn [erase p1_cur] in CR.
        unfold entry_of, line_entry. cbn [fst snd].
        destruct (p1_cur st) as [cu|]; destruct (final None pre) as [[o a]|]; try contradiction; [|reflexivity].
        destruct CR as [-> _]. unfold line_entry. cbn [fst snd]. rewrite no_line_entry_needs. destruct (needs_addr s); reflexivity.
      * rewrite <- app_assoc in R2. exact R2.
    + destruct D as [D|D]; congruence.
    + congruence.
Qed.

(* the table of a successful pass 1 with a source text *)
Theorem pass1_table text p sym : typed p = true -> pass1 p (Some text) = AOk sym ->
  exists m, st_debug sym = Some (mkDebug m text) /\
            lsm_new (fold_left apply_entry (entries text p) (repeat None (Z.to_nat (count_lines text)))) = Some m.
Proof.
  intros T E. unfold pass1 in E.
  destruct (p1_loop (Some text) _ p) as [st|k sp|] eqn:EL; cbn [abind] in E; try discriminate.
  assert (HI0 : I1 [] (erase (mkP1 None [] [] (Some (repeat None (Z.to_nat (count_lines text))))))) by exact I1_init.
  destruct (p1_loop_lines text p [] _ _ st HI0 eq_refl T EL) as [L _].
  destruct (p1_cur st); [discriminate|]. rewrite L in E.
  destruct (lsm_new _) as [m|] eqn:EM in E; [|discriminate]. injection E as <-. exists m. split; [reflexivity|exact EM].
Qed.

(* with a table as long as the text has lines, the line index is never out of bounds: a step with
   a source text does what the step without does *)
Lemma p1_step_dbg_ok text st s ls :
  p1_lines st = Some ls -> len ls = count_lines text ->
  match p1_step None (erase st) s with
  | AOk st0' => exists st', p1_step (Some text) st s = AOk st' /\ erase st' = st0' /\
                            exists ls', p1_lines st' = Some ls' /\ len ls' = count_lines text
  | AErr k sp => p1_step (Some text) st s = AErr k sp
  | APanic => True
  end.
Proof.
  intros HL LL. destruct st as [cur labels rel lines]. cbn [p1_lines] in HL. subst lines.
  unfold erase, p1_step. cbn [p1_cur p1_labels p1_rel p1_lines].
  destruct (match s_labels s with [] => AOk labels | _ => _ end) as [L1|k sp|]; cbn [abind]; [|reflexivity|exact Logic.I].
  match goal with |- match abind ?B _ with _ => _ end => destruct B as [[[cur2 labels2] rel2]|k sp|] end; cbn [abind]; [|reflexivity|exact Logic.I].
  destruct cur2 as [cu|].
  - cbn [abind]. destruct (no_line_entry (s_nucleus s)); cbn [abind].
    + destruct (stmt_len (s_nucleus s)) as [n|]; [|exact Logic.I].
      destruct (shift cu n) as [cu'|k]; [|reflexivity].
      eexists. split; [reflexivity|]. split; [reflexivity|]. exists ls. split; [reflexivity|exact LL].
    + pose proof (get_line_range text (s_start s)) as GR. rewrite <- LL in GR.
      destruct ((0 <=? get_line text (s_start s)) && (get_line text (s_start s) <? len ls)) eqn:EB; [|lia]. cbn [abind].
      destruct (stmt_len (s_nucleus s)) as [n|]; [|exact Logic.I].
      destruct (shift cu n) as [cu'|k]; [|reflexivity].
      eexists. split; [reflexivity|]. split; [reflexivity|]. eexists. split; [reflexivity|].
      unfold len. rewrite set_nth_length. exact LL.
  - eexists. split; [reflexivity|]. split; [reflexivity|]. exists ls. split; [reflexivity|exact LL].
Qed.

Lemma p1_loop_dbg_ok text p : forall st ls,
  p1_lines st = Some ls -> len ls = count_lines text ->
  match p1_loop None (erase st) p with
  | AOk st0' => exists st', p1_loop (Some text) st p = AOk st' /\ erase st' = st0'
  | AErr k sp => p1_loop (Some text) st p = AErr k sp
  | APanic => True
  end.
Proof.
  induction p as [|s p IH]; intros st ls HL LL; cbn [p1_loop].
  - exists st. split; reflexivity.
  - pose proof (p1_step_dbg_ok text st s ls HL LL) as S.
    destruct (p1_step None (erase st) s) as [st0'|k sp|]; cbn [abind]; [| |exact Logic.I].
    + destruct S as [st1 [E1 [E2 [ls' [HL' LL']]]]]. rewrite E1. cbn [abind]. subst st0'. exact (IH st1 ls' HL' LL').
    + rewrite S. reflexivity.
Qed.

(* pass 1 with a source text panics exactly when LineSymbolMap::new rejects the table *)
Theorem pass1_debug_total text p : typed p = true ->
  lsm_new (fold_left apply_entry (entries text p) (repeat None (Z.to_nat (count_lines text)))) <> None ->
  pass1 p (Some text) <> APanic.
Proof.
  intros T NN. pose proof (pass1_nodebug p T) as P0. unfold pass1 in *.
  set (st0 := mkP1 None [] [] (Some (repeat None (Z.to_nat (count_lines text))))).
  assert (LL : len (repeat (@None Z) (Z.to_nat (count_lines text))) = count_lines text).
  { rewrite len_repeat. pose proof (get_line_range text 0). lia. }
  pose proof (p1_loop_dbg_ok text p st0 _ eq_refl LL) as S. unfold erase in S. cbn [p1_cur p1_labels p1_rel st0] in S.
  destruct (p1_loop None (mkP1 None [] [] None) p) as [st0'|k sp|]; cbn [abind] in P0; [| |contradiction].
  - destruct S as [st' [E1 E2]]. fold st0. rewrite E1. cbn [abind].
    assert (HI0 : I1 [] (erase st0)) by exact I1_init.
    destruct (p1_loop_lines text p [] st0 _ st' HI0 eq_refl T E1) as [L _].
    destruct (p1_cur st'); [discriminate|]. rewrite L. fold (entries text p).
    destruct (lsm_new _); [discriminate|contradiction].
  - fold st0. rewrite S. discriminate.
Qed.

(* ---------- positional facts about the entries ---------- *)
Definition ents (text : str) (c : pos) (p : list stmt) : list (Z * Z) := flat_map (entry_of text) (place c p).
Lemma ents_cons text c s r : ents text c (s :: r) = entry_of text (c, s) ++ ents text (next c s) r.
Proof. reflexivity. Qed.
Lemma entries_ents text p : entries text p = ents text None p.
Proof. reflexivity. Qed.

Lemma entry_in text c s n a : In (n, a) (entry_of text (c, s)) ->
  n = line_of text s /\ needs_addr s = true /\ exists o, c = Some (o, a).
Proof.
  unfold entry_of, line_entry. cbn [fst snd]. destruct c as [[o a0]|]; [|contradiction].
  destruct (needs_addr s); [|contradiction]. intros [H|[]]. injection H as <- <-. repeat split. exists o. reflexivity.
Qed.

Lemma lines_inc_inv text s r : lines_inc text (s :: r) ->
  lines_inc text r /\ forall s', In s' r -> line_of text s < line_of text s'.
Proof. intros H. apply StronglySorted_inv in H. destruct H as [H1 H2]. split; [exact H1|]. rewrite Forall_forall in H2. exact H2. Qed.

Lemma ent_min text p : forall c, lines_inc text p -> forall n a, In (n, a) (ents text c p) ->
  match p with
  | [] => False
  | s0 :: _ => line_of text s0 <= n /\ (n = line_of text s0 -> exists o, c = Some (o, a))
  end.
Proof.
  induction p as [|s r IH]; intros c LI n a H; [contradiction|].
  rewrite ents_cons in H. apply in_app_or in H. destruct (lines_inc_inv text s r LI) as [LI' LT]. destruct H as [H|H].
  - apply entry_in in H. destruct H as [-> [_ X]]. split; [lia | intros _; exact X].
  - specialize (IH _ LI' n a H). destruct r as [|s1 r']; [contradiction|]. destruct IH as [I1 _].
    pose proof (LT s1 (or_introl eq_refl)). split; [lia|]. intros ->. lia.
Qed.

Lemma ent_nodup text p : forall c, lines_inc text p -> NoDup (map fst (ents text c p)).
Proof.
  induction p as [|s r IH]; intros c LI; [constructor|].
  destruct (lines_inc_inv text s r LI) as [LI' LT]. rewrite ents_cons, map_app.
  apply NoDup_app_disjoint; [|apply IH; exact LI'|].
  - unfold entry_of, line_entry. cbn [fst snd]. destruct c as [[o a]|]; [|constructor]. destruct (needs_addr s); repeat constructor. intros [].
  - intros n H1 H2. apply in_map_iff in H1, H2. destruct H1 as [[n1 a1] [E1 H1]]. destruct H2 as [[n2 a2] [E2 H2]]. cbn in E1, E2. subst n1 n2.
    apply entry_in in H1. destruct H1 as [-> _]. pose proof (ent_min text r _ LI' _ _ H2) as M.
    destruct r as [|s1 r']; [contradiction|]. pose proof (LT s1 (or_introl eq_refl)). lia.
Qed.

Lemma next_needs c s o a : needs_addr s = true -> c = Some (o, a) -> next c s = Some (o, a + size s).
Proof. unfold needs_addr, next. intros H ->. destruct (s_nucleus s) as [i|[a0|o0|n|t| |l]]; try discriminate; reflexivity. Qed.

(* two entries on consecutive lines belong to consecutive statements of one block *)
Lemma ent_adj text p : typed p = true -> forall c, lines_inc text p ->
  forall n a1 a2, In (n, a1) (ents text c p) -> In (n + 1, a2) (ents text c p) ->
  a1 <= a2 /\ (blkw_pos p = true -> a1 < a2).
Proof.
  induction p as [|s r IH]; intros T c LI n a1 a2 H1 H2; [contradiction|].
  cbn [typed forallb] in T. apply andb_prop in T. destruct T as [Ts Tr].
  destruct (lines_inc_inv text s r LI) as [LI' LT]. rewrite ents_cons in H1, H2.
  apply in_app_or in H1, H2. destruct H1 as [H1|H1]; destruct H2 as [H2|H2].
  - apply entry_in in H1, H2. destruct H1 as [E1 _]. destruct H2 as [E2 _]. lia.
  - apply entry_in in H1. destruct H1 as [-> [NA [o Ec]]].
    pose proof (ent_min text r _ LI' _ _ H2) as M. destruct r as [|s1 r']; [contradiction|].
    pose proof (LT s1 (or_introl eq_refl)) as L1. destruct M as [M1 M2].
    assert (EQ : line_of text s + 1 = line_of text s1) by lia. destruct (M2 EQ) as [o' Ec'].
    rewrite (next_needs c s o a1 NA Ec) in Ec'. injection Ec' as _ <-.
    pose proof (size_bounds s Ts) as SB. split; [lia|]. intros BP. cbn [blkw_pos forallb] in BP. apply andb_prop in BP. destruct BP as [BP _].
    assert (0 < size s); [|lia]. unfold size, needs_addr in *. destruct (s_nucleus s) as [i|[a0|o0|m|t| |l]]; try discriminate; try lia.
    pose proof (byte_len_nonneg t). lia.
  - apply entry_in in H2. destruct H2 as [E2 _]. pose proof (ent_min text r _ LI' _ _ H1) as M.
    destruct r as [|s1 r']; [contradiction|]. pose proof (LT s1 (or_introl eq_refl)). lia.
  - destruct (IH Tr _ LI' n a1 a2 H1 H2) as [I1 I2]. split; [exact I1|]. intros BP. apply I2.
    cbn [blkw_pos forallb] in BP. apply andb_prop in BP. exact (proj2 BP).
Qed.

(* every entry is followed by a later statement when the program ends outside a block *)
Lemma ent_closed text p : forall c, final c p = None -> lines_inc text p ->
  forall n a, In (n, a) (ents text c p) -> exists s', In s' p /\ n < line_of text s'.
Proof.
  induction p as [|s r IH]; intros c F LI n a H; [contradiction|].
  destruct (lines_inc_inv text s r LI) as [LI' LT]. rewrite ents_cons in H. apply in_app_or in H.
  assert (F' : final (next c s) r = None) by exact F. destruct H as [H|H].
  - apply entry_in in H. destruct H as [-> [NA [o Ec]]]. rewrite (next_needs c s o a NA Ec) in F'.
    destruct r as [|s1 r']; [discriminate F'|]. exists s1. split; [right; left; reflexivity | apply LT; left; reflexivity].
  - destruct (IH _ F' LI' n a H) as [s' [I1 I2]]. exists s'. split; [right; exact I1 | exact I2].
Qed.

(* ---------- LineSymbolMap::new accepts the table ---------- *)
Lemma nth_z_app {A} (l l' : list A) j : 0 <= j ->
  nth_z (l ++ l') j = if j <? len l then nth_z l j else nth_z l' (j - len l).
Proof.
  intros Hj. unfold nth_z, len. destruct (j <? 0) eqn:E0; [lia|].
  destruct (j <? Z.of_nat (length l)) eqn:E1.
  - apply nth_error_app1. lia.
  - destruct (j - Z.of_nat (length l) <? 0) eqn:E2; [lia|]. rewrite nth_error_app2 by lia. f_equal. lia.
Qed.
Lemma nth_z_defined {A} (l : list A) i : 0 <= i < len l -> exists v, nth_z l i = Some v.
Proof.
  intros H. unfold nth_z, len in *. destruct (i <? 0) eqn:E; [lia|].
  destruct (nth_error l (Z.to_nat i)) eqn:N; [eexists; reflexivity|]. apply nth_error_None in N. lia.
Qed.

Lemma runs'_elems (P : Z -> Z -> Prop) lines : forall i cur,
  (forall c, cur = Some c -> forall j v, nth_z c j = Some v -> P (i - len c + j) v) ->
  (forall j v, nth_z lines j = Some (Some v) -> P (i + j) v) ->
  forall k r, In (k, r) (runs' lines i cur) -> forall j v, nth_z r j = Some v -> P (k + j) v.
Proof.
  induction lines as [|[a|] lines IH]; intros i cur HC HL k r H j v Hj; cbn [runs'] in H; [contradiction| |].
  - refine (IH (i + 1) _ _ _ k r H j v Hj).
    + intros c' Ec j' v' Hj'. injection Ec as <-. pose proof (nth_z_some _ _ _ Hj') as R.
      destruct cur as [c|].
      * unfold snoc in *. rewrite nth_z_app in Hj' by lia. rewrite len_app in *. assert (L1 : len [a] = 1) by reflexivity. rewrite L1 in *.
        destruct (j' <? len c) eqn:E.
        -- replace (i + 1 - (len c + 1) + j') with (i - len c + j') by lia. exact (HC c eq_refl j' v' Hj').
        -- assert (j' = len c) by lia. subst j'. rewrite Z.sub_diag in Hj'. cbn in Hj'. injection Hj' as <-.
           replace (i + 1 - (len c + 1) + len c) with (i + 0) by lia. apply HL. reflexivity.
      * assert (L1 : len [a] = 1) by reflexivity. rewrite L1 in *. assert (j' = 0) by lia. subst j'. cbn in Hj'. injection Hj' as <-.
        replace (i + 1 - 1 + 0) with (i + 0) by lia. apply HL. reflexivity.
    + intros j' v' Hj'. pose proof (nth_z_some _ _ _ Hj'). replace (i + 1 + j') with (i + (j' + 1)) by lia. apply HL.
      rewrite nth_z_cons by lia. replace (j' + 1 - 1) with j' by lia. exact Hj'.
  - assert (REST : In (k, r) (runs' lines (i + 1) None) -> P (k + j) v).
    { intros H'. refine (IH (i + 1) None _ _ k r H' j v Hj); [discriminate|].
      intros j' v' Hj'. pose proof (nth_z_some _ _ _ Hj'). replace (i + 1 + j') with (i + (j' + 1)) by lia. apply HL.
      rewrite nth_z_cons by lia. replace (j' + 1 - 1) with j' by lia. exact Hj'. }
    destruct cur as [bl|]; [|exact (REST H)]. destruct H as [H|H]; [|exact (REST H)].
    injection H as <- <-. exact (HC bl eq_refl j v Hj).
Qed.

Lemma adj_windows r : (forall j v1 v2, nth_z r j = Some v1 -> nth_z r (j + 1) = Some v2 -> v1 <= v2) -> windows_all Z.leb r = true.
Proof.
  induction r as [|a r IH]; intros H; [reflexivity|]. destruct r as [|b r']; [reflexivity|].
  cbn [windows_all]. apply andb_true_iff. split.
  - apply Z.leb_le. apply (H 0 a b); reflexivity.
  - apply IH. intros j v1 v2 H1 H2. pose proof (nth_z_some _ _ _ H1). apply (H (j + 1) v1 v2).
    + rewrite nth_z_cons by lia. replace (j + 1 - 1) with j by lia. exact H1.
    + rewrite nth_z_cons by lia. replace (j + 1 + 1 - 1) with (j + 1) by lia. exact H2.
Qed.

Definition table (text : str) (p : list stmt) : list (option Z) :=
  fold_left apply_entry (entries text p) (repeat None (Z.to_nat (count_lines text))).

Lemma table_in text p n a : lines_inc text p ->
  (nth_z (table text p) n = Some (Some a) <-> In (n, a) (entries text p)).
Proof.
  intros LI. split.
  - intros H. pose proof (nth_z_some _ _ _ H) as R. unfold table in H.
    apply table_spec in H; [| lia | rewrite entries_ents; apply ent_nodup; exact LI |].
    + destruct H as [H|[_ H]]; [exact H|]. apply nth_z_repeat_none in H. discriminate.
    + intros [n' a'] He. cbn [fst]. rewrite len_repeat. rewrite entries_ents in He. unfold ents in He.
      apply in_flat_map in He. destruct He as [[c s] [_ He]]. apply entry_in in He. destruct He as [-> _].
      unfold line_of. pose proof (get_line_range text (s_start s)). lia.
  - intros H. assert (R : 0 <= n < count_lines text).
    { rewrite entries_ents in H. unfold ents in H. apply in_flat_map in H. destruct H as [[c s] [_ He]]. apply entry_in in He. destruct He as [-> _].
      unfold line_of. apply get_line_range. }
    unfold table. apply table_spec; [lia | rewrite entries_ents; apply ent_nodup; exact LI | | left; exact H].
    intros [n' a'] He. cbn [fst]. rewrite len_repeat. rewrite entries_ents in He. unfold ents in He.
    apply in_flat_map in He. destruct He as [[c s] [_ He]]. apply entry_in in He. destruct He as [-> _].
    unfold line_of. pose proof (get_line_range text (s_start s)). lia.
Qed.

Theorem table_accepted text p : typed p = true -> lines_inc text p ->
  lsm_new (table text p) = Some (runs' (table text p) 0 None).
Proof.
  intros T LI. rewrite lsm_new_spec.
  assert (R : runs_sorted (runs' (table text p) 0 None) = true); [|rewrite R; reflexivity].
  unfold runs_sorted. apply forallb_forall. intros [k r] H. cbn [snd]. apply adj_windows. intros j v1 v2 H1 H2.
  assert (EL : forall j v, nth_z r j = Some v -> In (k + j, v) (entries text p)).
  { apply (runs'_elems (fun n v => In (n, v) (entries text p)) (table text p) 0 None); [discriminate | | exact H].
    intros j' v' Hj'. cbn [Z.add]. apply (table_in text p j' v' LI). exact Hj'. }
  pose proof (EL j v1 H1) as I1. pose proof (EL (j + 1) v2 H2) as I2. replace (k + (j + 1)) with (k + j + 1) in I2 by lia.
  rewrite entries_ents in I1, I2. exact (proj1 (ent_adj text p T None LI _ _ _ I1 I2)).
Qed.

Theorem assemble_debug_total text p : typed p = true -> lines_inc text p -> assemble true (Some text) p <> APanic.
Proof.
  intros T LI. unfold assemble.
  assert (P1 : pass1 p (Some text) <> APanic).
  { apply (pass1_debug_total text p T). fold (table text p). rewrite (table_accepted text p T LI). discriminate. }
  destruct (pass1 p (Some text)) as [sym|k sp|] eqn:E; cbn [abind]; [|discriminate|contradiction].
  pose proof (pass1_ok (Some text) p sym T E) as OK. destruct sym as [L rel dbg]. cbn [st_labels] in OK.
  pose proof (pass2_spec p L rel dbg true T OK) as S. destruct (pass2 p _ true); [discriminate|discriminate|contradiction].
Qed.

(* ---------- the queries ---------- *)
Theorem line_table text p sym : typed p = true -> lines_inc text p -> pass1 p (Some text) = AOk sym ->
  exists m, st_debug sym = Some (mkDebug m text) /\ lm_ok m /\
            forall n a, In (n, a) (lsm_iter m) <-> In (n, a) (spec_lines text p).
Proof.
  intros T LI E. destruct (pass1_table text p sym T E) as [m [ED EM]]. fold (table text p) in EM.
  exists m. split; [exact ED|].
  pose proof (pass1_ok (Some text) p sym T E) as OK.
  assert (CL : closed (table text p) false).
  { apply closed_last. assert (LN : len (table text p) = count_lines text).
    { unfold table. rewrite len_fold_apply, len_repeat. pose proof (get_line_range text 0). lia. }
    pose proof (get_line_range text 0) as GR.
    destruct (table text p) as [|x l] eqn:ET; [unfold len in LN; cbn in LN; lia|]. rewrite <- ET in *.
    destruct (nth_z_defined (table text p) (len (table text p) - 1) ltac:(lia)) as [v Hv]. rewrite Hv. f_equal.
    destruct v as [a|]; [exfalso|reflexivity].
    apply (table_in text p _ a LI) in Hv. rewrite entries_ents in Hv.
    destruct (ent_closed text p None (ok_closed _ _ OK) LI _ _ Hv) as [s' [_ Hs']].
    unfold line_of in Hs'. pose proof (get_line_range text (s_start s')). lia. }
  destruct (lsm_new_ok _ m EM CL) as [LM IT]. split; [exact LM|].
  intros n a. rewrite IT, enum_some_in. rewrite Z.sub_0_r. split.
  - intros [_ H]. apply (table_in text p n a LI). exact H.
  - intros H. pose proof (proj2 (table_in text p n a LI) H) as H'. split; [apply nth_z_some in H'; lia | exact H'].
Qed.

Theorem forward_spec text p sym : typed p = true -> lines_inc text p -> pass1 p (Some text) = AOk sym ->
  forall n a, lookup_line sym n = Some a <-> In (n, a) (spec_lines text p).
Proof.
  intros T LI E n a. destruct (line_table text p sym T LI E) as [m [ED [LM IT]]].
  unfold lookup_line. rewrite ED. cbn [ds_lines]. rewrite (lsm_get_iter m n a LM). apply IT.
Qed.

Theorem listing_lines text p sym : typed p = true -> lines_inc text p -> pass1 p (Some text) = AOk sym ->
  forall n a, In (n, a) (line_iter sym) <-> In (n, a) (spec_lines text p).
Proof.
  intros T LI E n a. destruct (line_table text p sym T LI E) as [m [ED [LM IT]]].
  unfold line_iter. rewrite ED. cbn [ds_lines]. apply IT.
Qed.

(* no line holds two addresses *)
Theorem lines_functional text p : lines_inc text p -> NoDup (map fst (spec_lines text p)).
Proof. intros LI. apply (ent_nodup text p None LI). Qed.

(* ---------- no address stands on two lines ---------- *)
Inductive subseq {A} : list A -> list A -> Prop :=
| sub_nil : subseq [] []
| sub_skip x l l' : subseq l l' -> subseq l (x :: l')
| sub_keep x l l' : subseq l l' -> subseq (x :: l) (x :: l').
Lemma subseq_nil_l {A} (l : list A) : subseq [] l.
Proof. induction l; constructor; assumption. Qed.
Lemma subseq_app {A} (a a' b b' : list A) : subseq a a' -> subseq b b' -> subseq (a ++ b) (a' ++ b').
Proof. intros H1 H2. induction H1; cbn [app]; [exact H2 | constructor; exact IHsubseq | constructor; exact IHsubseq]. Qed.
Lemma subseq_in {A} (l l' : list A) x : subseq l l' -> In x l -> In x l'.
Proof. intros H. induction H; intros Hx; [contradiction | right; exact (IHsubseq Hx) | destruct Hx as [<-|Hx]; [left; reflexivity | right; exact (IHsubseq Hx)]]. Qed.
Lemma subseq_nodup {A} (l l' : list A) : subseq l l' -> NoDup l' -> NoDup l.
Proof.
  intros H. induction H; intros N; [constructor | |]; inversion N as [|? ? N1 N2]; subst.
  - exact (IHsubseq N2).
  - constructor; [|exact (IHsubseq N2)]. intros Hx. apply N1. exact (subseq_in _ _ _ H Hx).
Qed.
Lemma subseq_flat_map {A B} (f g : A -> list B) l : (forall x, In x l -> subseq (f x) (g x)) -> subseq (flat_map f l) (flat_map g l).
Proof.
  induction l as [|x l IH]; intros H; cbn [flat_map]; [constructor|].
  apply subseq_app; [apply H; left; reflexivity | apply IH; intros y Hy; apply H; right; exact Hy].
Qed.

Theorem lines_injective text p : typed p = true -> wf p = true -> blkw_pos p = true ->
  NoDup (map snd (spec_lines text p)).
Proof.
  intros T W BP. apply (subseq_nodup _ (map fst (spec_cells p))); [|exact (wf_cells_nodup p T W)].
  unfold spec_lines, spec_cells. rewrite !flat_map_concat_map, !concat_map, !map_map, <- !flat_map_concat_map.
  apply subseq_flat_map. intros [c s] Hin. unfold line_entry, cells_of. cbn [fst snd].
  destruct c as [[o a]|]; [|constructor]. destruct (needs_addr s) eqn:NA; [|apply subseq_nil_l].
  cbn [map snd].
  assert (Ts : typed_stmt s = true).
  { apply (typed_in p s T). unfold placed in Hin. clear - Hin. revert Hin. generalize (@None (Z * Z)). induction p as [|s0 p IH]; intros c0 H; [contradiction|].
    destruct H as [H|H]; [injection H as _ <-; left; reflexivity | right; exact (IH _ H)]. }
  assert (Bs : match s_nucleus s with NDir (DBlkw n) => (0 <? n) = true | _ => True end).
  { unfold blkw_pos in BP. rewrite forallb_forall in BP.
    assert (In s p). { unfold placed in Hin. clear - Hin. revert Hin. generalize (@None (Z * Z)). induction p as [|s0 p IH]; intros c0 H; [contradiction|].
      destruct H as [H|H]; [injection H as _ <-; left; reflexivity | right; exact (IH _ H)]. }
    specialize (BP s H). destruct (s_nucleus s) as [i|[a0|o0|n|t| |l]]; try exact Logic.I. exact BP. }
  pose proof (len_stmt_words (bindings p) a s Ts) as LW.
  assert (SP : 0 < size s).
  { unfold size, needs_addr in *. destruct (s_nucleus s) as [i|[a0|o0|n|t| |l]]; try discriminate; try lia. pose proof (byte_len_nonneg t). lia. }
  destruct (stmt_words (bindings p) a s) as [|w ws]; [unfold len in LW; cbn in LW; lia|].
  cbn [cells_from map fst]. apply sub_keep. apply subseq_nil_l.
Qed.

Theorem backward_spec text p sym : typed p = true -> lines_inc text p -> wf p = true -> blkw_pos p = true ->
  pass1 p (Some text) = AOk sym ->
  forall a n, rev_lookup_line sym a = Some n <-> In (n, a) (spec_lines text p).
Proof.
  intros T LI W BP E a n. destruct (line_table text p sym T LI E) as [m [ED [LM IT]]].
  unfold rev_lookup_line. rewrite ED. cbn [ds_lines]. rewrite (lsm_find_iter m a n LM); [apply IT|].
  intros n1 n2 H1 H2. apply IT in H1, H2. pose proof (lines_injective text p T W BP) as ND.
  clear - H1 H2 ND. induction (spec_lines text p) as [|[n0 a0] l IH]; [contradiction|].
  cbn [map snd] in ND. inversion ND as [|? ? N1 N2]; subst.
  destruct H1 as [H1|H1]; destruct H2 as [H2|H2].
  - congruence.
  - injection H1 as -> ->. exfalso. apply N1. apply (in_map snd) in H2. exact H2.
  - injection H2 as -> ->. exfalso. apply N1. apply (in_map snd) in H1. exact H1.
  - exact (IH H1 H2 N2).
Qed.
