(* AsmOrigin.v — a label-free statement assembles to the same word at every origin (C07). *)
From Coq Require Import ZArith List Bool Lia.
From Gen Require Import Constants.
From Model Require Import Tree Text Bits Instr Offset AsmAst Obj SourceInfo Assembler.
From Spec Require Import LayoutSpec WfSpec.
From Proofs Require Import AsmBase AsmPass1 AsmPass2.
Import ListNotations.
Open Scope Z_scope.

(* an instruction without label operand, or .fill with a number *)
Definition label_free (n : nucleus) : bool :=
  match n with
  | NInstr i => match pc_operand i with Some (_, PLab _, _) => false | _ => true end
  | NDir (DFill (POff _)) => true
  | _ => false
  end.
(* its word: the encoding of the alias-expanded instruction (spec/LayoutSpec.v, no binding and no
   address is looked at), or the .fill value *)
Definition word_of (n : nucleus) : Z :=
  match n with
  | NInstr i => encode (expand [] 0 i)
  | NDir (DFill (POff v)) => v
  | _ => 0
  end.

Lemma into_sim_label_free i pc L : label_free (NInstr i) = true -> into_sim_instr i pc L = AOk (expand [] 0 i).
Proof.
  cbn [label_free]. rewrite into_sim_pc, (expand_pc [] 0 i). destruct (pc_operand i) as [[[n o] k]|]; [|reflexivity].
  destruct o as [v|l]; [|discriminate]. reflexivity.
Qed.

Theorem single_statement o n a b c d e f :
  0 <= o <= 65023 -> label_free n = true ->
  assemble false None [mkStmt [] (NDir (DOrig o)) a b; mkStmt [] n c d; mkStmt [] (NDir DEnd) e f]
  = AOk (mkObj [(o, [Some (word_of n)])] None).
Proof.
  intros Ho LF.
  assert (SH : forall sp, shift (mkCur o false sp) 1 = SOk (mkCur (o + 1) false sp)).
  { intros sp. rewrite shift_exact by (cbn [c_ovf c_lc]; try reflexivity; lia). cbn [c_lc c_orig]. unfold asm.IO_START.
    destruct (o + 1 <=? 65024) eqn:E; [reflexivity|lia]. }
  assert (SL : stmt_len n = WL 1) by (destruct n as [i|[?|[?|?]|?|?| |?]]; try discriminate LF; reflexivity).
  (* pass 1 *)
  assert (P1 : pass1 [mkStmt [] (NDir (DOrig o)) a b; mkStmt [] n c d; mkStmt [] (NDir DEnd) e f] None = AOk (mkSymtab [] [] None)).
  { unfold pass1. cbn [p1_loop]. 
    assert (S1 : p1_step None (mkP1 None [] [] None) (mkStmt [] (NDir (DOrig o)) a b) = AOk (mkP1 (Some (mkCur o false (a, b))) [] [] None)) by reflexivity.
    rewrite S1. cbn [abind].
    assert (S2 : p1_step None (mkP1 (Some (mkCur o false (a, b))) [] [] None) (mkStmt [] n c d) = AOk (mkP1 (Some (mkCur (o + 1) false (a, b))) [] [] None)).
    { unfold p1_step. cbn [s_labels s_nucleus p1_labels p1_cur p1_rel p1_lines abind stmt_span s_start s_end].
      destruct n as [i|[?|[v|?]|?|?| |?]]; try discriminate LF; cbn [abind]; rewrite ?SL; cbn [stmt_len word_len]; rewrite SH; reflexivity. }
    rewrite S2. cbn [abind].
    assert (S3 : p1_step None (mkP1 (Some (mkCur (o + 1) false (a, b))) [] [] None) (mkStmt [] (NDir DEnd) e f) = AOk (mkP1 None [] [] None)) by reflexivity.
    rewrite S3. reflexivity. }
  unfold assemble. rewrite P1. cbn [abind]. unfold pass2. cbn [st_labels p2_loop].
  assert (T1 : p2_step [] (mkP2 [] None) (mkStmt [] (NDir (DOrig o)) a b) = AOk (mkP2 [] (Some (o, mkOB o [] (a, b))))) by reflexivity.
  rewrite T1. cbn [abind].
  assert (T2 : p2_step [] (mkP2 [] (Some (o, mkOB o [] (a, b)))) (mkStmt [] n c d)
               = AOk (mkP2 [] (Some (wrap16 (o + 1), mkOB o [Some (word_of n)] (a, b))))).
  { unfold p2_step. cbn [s_nucleus p2_cur p2_map]. destruct n as [i|[?|[v|?]|?|?| |?]]; try discriminate LF.
    - rewrite (into_sim_label_free i _ [] LF). reflexivity.
    - reflexivity. }
  rewrite T2. cbn [abind].
  assert (W : wrap16 (o + 1) = o + 1) by (unfold wrap16; rewrite Z.mod_small; lia).
  unfold p2_step. cbn [s_nucleus p2_cur p2_map ob_words ob_start bt_le bt_ge opt_list app find_overlap abind bt_insert map fst snd].
  reflexivity.
Qed.
