(* AsmPass1.v — pass 1 (`SymbolTable::new`) against the positional specification.
   Main lemma [p1_loop_inv]: after any prefix of the program the state of the loop is the
   abstraction of that prefix ([I1]: the location counter IS the unbounded positional address
   — [shift_exact] —, the label map holds the first binding of every name, no condition that
   pass 1 checks is violated so far), or the error returned names a condition violated by the
   prefix; pass 1 never panics without a source text. *)
From Coq Require Import ZArith List Bool Lia Permutation.
From Gen Require Import Constants.
From Model Require Import Tree Text Bits Instr Offset AsmAst Obj SourceInfo Assembler.
From Spec Require Import LayoutSpec WfSpec.
From Proofs Require Import AsmBase.
Import ListNotations.
Open Scope Z_scope.
Ltac Zify.zify_post_hook ::= Z.div_mod_to_equations.

(* ---------- typed statements ---------- *)
Lemma typed_app p q : typed (p ++ q) = typed p && typed q.
Proof. unfold typed. apply forallb_app. Qed.

Lemma size_bounds s : typed_stmt s = true -> 0 <= size s < 65536.
Proof.
  unfold typed_stmt, size. destruct (s_nucleus s) as [i|d]; [lia|].
  destruct d as [a|o|n|t| |l]; intros H; try lia.
  pose proof (byte_len_nonneg t). lia.
Qed.
Lemma stmt_len_size s : typed_stmt s = true -> stmt_len (s_nucleus s) = WL (size s).
Proof.
  unfold typed_stmt, size, stmt_len, word_len. destruct (s_nucleus s) as [i|d]; [reflexivity|].
  destruct d as [a|o|n|t| |l]; intros H; try reflexivity.
  apply Z.ltb_lt in H. pose proof (byte_len_nonneg t). unfold wrap16.
  rewrite Z.mod_small by lia. destruct (byte_len t + 1 <? 65536) eqn:E; [reflexivity|lia].
Qed.

(* ---------- Cursor::shift is exact ---------- *)
Lemma shift_exact c n : c_ovf c = false -> 0 <= c_lc c < 65536 -> 0 <= n < 65536 ->
  shift c n =
    if n =? 0 then SOk c
    else if c_lc c + n <=? asm.IO_START then SOk (mkCur (c_lc c + n) false (c_orig c))
    else if c_lc c + n <=? 65536 then SErr BlockInIO
    else SErr WrappingBlock.
Proof.
  intros Ho Hl Hn. unfold shift. rewrite Ho. unfold asm.IO_START, wrap16.
  destruct (n =? 0) eqn:E0; [reflexivity|]. apply Z.eqb_neq in E0.
  destruct (c_lc c + n <? 65536) eqn:E1.
  - destruct (c_lc c + n >? 65024) eqn:E2; destruct (c_lc c + n <=? 65024) eqn:E3; try lia; try reflexivity.
    destruct (c_lc c + n <=? 65536) eqn:E4; [reflexivity|lia].
  - destruct (c_lc c + n <=? 65024) eqn:E3; [lia|].
    assert (Hm : (- n) mod 65536 = 65536 - n) by lia. rewrite Hm.
    destruct (c_lc c =? 65536 - n) eqn:E5; destruct (c_lc c + n <=? 65536) eqn:E6; try reflexivity; lia.
Qed.

(* ---------- bindings and the label map ---------- *)
Definition sym_of (b : binding) : symdata := mkSym (b_addr b) (b_src b) (b_ext b).
Definition labels_rep (L : labmap) (bs : list binding) : Prop :=
  NoDup (map fst L) /\ forall k, assoc k L = option_map sym_of (find (named k) bs).
Definition consistent (bs : list binding) : Prop :=
  forall b b', In b bs -> In b' bs -> b_name b = b_name b' -> b_addr b = b_addr b'.
Definition dupb (bs : list binding) : bool :=
  existsb (fun b => existsb (fun b' => str_eqb (b_name b) (b_name b') && negb (b_addr b =? b_addr b')) bs) bs.

Lemma v_dup_dupb p : v_dup p = dupb (bindings p).
Proof. reflexivity. Qed.

Lemma dupb_false_consistent bs : dupb bs = false <-> consistent bs.
Proof.
  unfold dupb, consistent. split.
  - intros H b b' Hb Hb' Hn.
    destruct (Z.eq_dec (b_addr b) (b_addr b')) as [E|E]; [exact E|]. exfalso.
    assert (T : existsb (fun b0 => existsb (fun b'0 => str_eqb (b_name b0) (b_name b'0) && negb (b_addr b0 =? b_addr b'0)) bs) bs = true).
    { apply existsb_exists. exists b. split; [exact Hb|]. apply existsb_exists. exists b'. split; [exact Hb'|].
      rewrite Hn, str_eqb_refl. cbn. apply negb_true_iff. apply Z.eqb_neq. exact E. }
    congruence.
  - intros H. destruct (existsb _ bs) eqn:E; [|reflexivity]. exfalso.
    apply existsb_exists in E. destruct E as [b [Hb E]]. apply existsb_exists in E. destruct E as [b' [Hb' E]].
    apply andb_prop in E. destruct E as [E1 E2]. apply str_eqb_eq in E1. apply negb_true_iff in E2. apply Z.eqb_neq in E2.
    apply E2. apply H; assumption.
Qed.
Lemma dupb_true_witness bs b b' : In b bs -> In b' bs -> b_name b = b_name b' -> b_addr b <> b_addr b' -> dupb bs = true.
Proof.
  intros Hb Hb' Hn Ha. destruct (dupb bs) eqn:E; [reflexivity|]. exfalso.
  apply dupb_false_consistent in E. apply Ha. apply E; assumption.
Qed.
Lemma dupb_app_true bs bs' : dupb bs = true -> dupb (bs ++ bs') = true.
Proof.
  intros H. destruct (dupb (bs ++ bs')) eqn:E; [reflexivity|]. exfalso.
  apply dupb_false_consistent in E.
  assert (F : dupb bs = false).
  { apply dupb_false_consistent. intros b b' Hb Hb'. apply E; apply in_or_app; left; assumption. }
  congruence.
Qed.

Lemma find_named_some k bs b : find (named k) bs = Some b -> In b bs /\ b_name b = k.
Proof.
  intros H. apply find_some in H. destruct H as [H1 H2]. split; [exact H1|]. unfold named in H2.
  apply str_eqb_eq in H2. exact H2.
Qed.
Lemma find_named_none k bs : find (named k) bs = None -> forall b, In b bs -> b_name b <> k.
Proof.
  intros H b Hb E. pose proof (find_none _ _ H b Hb) as F. unfold named in F. rewrite E, str_eqb_refl in F. discriminate.
Qed.
Lemma find_app {A} (f : A -> bool) l l' : find f (l ++ l') = match find f l with Some x => Some x | None => find f l' end.
Proof. induction l as [|a l IH]; cbn [find app]; [reflexivity|]. destruct (f a); [reflexivity|exact IH]. Qed.

(* add_label: either the map and the bindings grow together, or the new binding contradicts an
   earlier one *)
Lemma add_label_spec L bs l addr ext :
  labels_rep L bs -> consistent bs ->
  let nb := mkB (upper (l_name l)) addr ext (l_start l) in
  match add_label L l addr ext with
  | AOk L' => labels_rep L' (bs ++ [nb]) /\ consistent (bs ++ [nb])
  | AErr k sp => k = OverlappingLabels /\ dupb (bs ++ [nb]) = true /\
                 exists b, find (named (upper (l_name l))) bs = Some b /\
                           sp = [(b_src b, b_src b + byte_len (upper (l_name l))); label_span l]
  | APanic => False
  end.
Proof.
  intros [ND R] C nb. unfold add_label. set (key := upper (l_name l)).
  pose proof (R key) as Rk. destruct (assoc key L) as [d|] eqn:A.
  - destruct (find (named key) bs) as [b|] eqn:F; [|discriminate Rk]. cbn in Rk. injection Rk as ->.
    pose proof (find_named_some _ _ _ F) as [Hb Hn]. cbn [sd_addr sym_of].
    destruct (b_addr b =? addr) eqn:E.
    + apply Z.eqb_eq in E. split.
      * split; [exact ND|]. intros k. rewrite find_app. rewrite R.
        destruct (find (named k) bs) as [b0|] eqn:F0; [reflexivity|].
        unfold named, nb. cbn [find b_name]. fold key. destruct (str_eqb key k) eqn:Ek; [|reflexivity].
        apply str_eqb_eq in Ek. subst k. congruence.
      * intros x y Hx Hy Hxy. apply in_app_or in Hx, Hy.
        destruct Hx as [Hx|[<-|[]]]; destruct Hy as [Hy|[<-|[]]]; cbn [b_addr b_name nb] in *.
        -- apply C; assumption.
        -- rewrite <- E. apply C; try assumption. fold key in Hxy. congruence.
        -- rewrite <- E. symmetry. apply C; try assumption. fold key in Hxy. congruence.
        -- reflexivity.
    + apply Z.eqb_neq in E. split; [reflexivity|]. split.
      * apply (dupb_true_witness _ b nb); [apply in_or_app; left; exact Hb | apply in_or_app; right; left; reflexivity | exact Hn | exact E].
      * exists b. split; reflexivity.
  - destruct (find (named key) bs) as [b|] eqn:F; [discriminate Rk|]. split.
    + split.
      * rewrite map_app. cbn [map fst]. apply NoDup_app_snoc; [exact ND|]. apply assoc_none_notin. exact A.
      * intros k. rewrite assoc_app, find_app, R.
        destruct (find (named k) bs) as [b0|] eqn:F0; [reflexivity|]. cbn [option_map].
        unfold named, nb. cbn [assoc find b_name]. fold key. rewrite (str_eqb_sym k key).
        destruct (str_eqb key k); reflexivity.
    + intros x y Hx Hy Hxy. apply in_app_or in Hx, Hy.
      pose proof (find_named_none _ _ F) as FN.
      destruct Hx as [Hx|[<-|[]]]; destruct Hy as [Hy|[<-|[]]]; cbn [b_addr b_name nb] in *.
      * apply C; assumption.
      * exfalso. apply (FN x Hx). exact Hxy.
      * exfalso. apply (FN y Hy). symmetry. exact Hxy.
      * reflexivity.
Qed.

Definition mk_bind (addr : Z) (l : label) : binding := mkB (upper (l_name l)) addr false (l_start l).

Lemma add_labels_spec ls : forall L bs addr,
  labels_rep L bs -> consistent bs ->
  match add_labels L ls addr with
  | AOk L' => labels_rep L' (bs ++ map (mk_bind addr) ls) /\ consistent (bs ++ map (mk_bind addr) ls)
  | AErr k sp => k = OverlappingLabels /\ dupb (bs ++ map (mk_bind addr) ls) = true /\
                 exists b l, In l ls /\ In b (bs ++ map (mk_bind addr) ls) /\ b_name b = upper (l_name l) /\
                             sp = [(b_src b, b_src b + byte_len (upper (l_name l))); label_span l]
  | APanic => False
  end.
Proof.
  induction ls as [|l ls IH]; intros L bs addr R C; cbn [add_labels map].
  - rewrite app_nil_r. split; assumption.
  - pose proof (add_label_spec L bs l addr false R C) as S. cbn zeta in S.
    fold (mk_bind addr l) in S. unfold abind.
    destruct (add_label L l addr false) as [L1|k sp|].
    + destruct S as [R1 C1]. specialize (IH L1 (bs ++ [mk_bind addr l]) addr R1 C1).
      replace (bs ++ mk_bind addr l :: map (mk_bind addr) ls) with ((bs ++ [mk_bind addr l]) ++ map (mk_bind addr) ls)
        by (rewrite <- app_assoc; reflexivity).
      destruct (add_labels L1 ls addr) as [L2|k sp|]; [exact IH| |exact IH].
      destruct IH as [E [D [b [l' [H1 [H2 [H3 H4]]]]]]]. split; [exact E|]. split; [exact D|].
      exists b, l'. repeat split; try assumption. right; exact H1.
    + destruct S as [E [D [b [F Hsp]]]]. split; [exact E|]. split.
      * replace (bs ++ mk_bind addr l :: map (mk_bind addr) ls) with ((bs ++ [mk_bind addr l]) ++ map (mk_bind addr) ls)
          by (rewrite <- app_assoc; reflexivity).
        apply dupb_app_true. exact D.
      * apply find_named_some in F. destruct F as [F1 F2]. exists b, l. repeat split.
        -- left; reflexivity.
        -- apply in_or_app. left. exact F1.
        -- exact F2.
        -- exact Hsp.
    + exact S.
Qed.

(* ---------- the invariant of the pass-1 loop ---------- *)
Definition cur_rel (c : option cursor) (ps : pos) (pre : list stmt) : Prop :=
  match c, ps with
  | None, None => True
  | Some c, Some (o, a) => c_lc c = a /\ c_ovf c = false /\ 0 <= o <= a /\ a < 65536 /\ In (c_orig c) (map stmt_span pre)
  | _, _ => False
  end.

Record I1 (pre : list stmt) (st : p1) : Prop := mkI1 {
  i1_cur : cur_rel (p1_cur st) (final None pre) pre;
  i1_rep : labels_rep (p1_labels st) (bindings pre);
  i1_cons : consistent (bindings pre);
  i1_label : v_undet_label pre = false;
  i1_unop : v_unopened pre = false;
  i1_nest : v_nested pre = false;
  i1_io : v_reach asm.IO_START pre = false }.

(* the error kinds pass 1 can return from inside the loop *)
Definition p1_kind (k : err_kind) : bool :=
  match k with
  | UndetAddrLabel | UndetAddrStmt | UnopenedOrig | OverlappingOrig | OverlappingLabels | WrappingBlock | BlockInIO => true
  | _ => false
  end.

Lemma v_snoc f pre s : existsb f (placed (pre ++ [s])) = existsb f (placed pre) || f (final None pre, s).
Proof. rewrite placed_snoc. apply existsb_snoc. Qed.
Lemma v_mono f pre r : existsb f (placed pre) = true -> existsb f (placed (pre ++ r)) = true.
Proof. intros H. rewrite placed_app, existsb_app, H. reflexivity. Qed.

Lemma violated_mono k pre r : p1_kind k = true -> violated pre k = true -> violated (pre ++ r) k = true.
Proof.
  destruct k; cbn [p1_kind violated]; try discriminate; intros _;
    try (unfold v_undet_label, v_undet_stmt, v_unopened, v_nested, v_reach; apply v_mono).
  rewrite !v_dup_dupb, bindings_app. apply dupb_app_true.
Qed.

Definition lab_binds (c : pos) (s : stmt) : list binding :=
  match c with Some (_, a) => map (mk_bind a) (s_labels s) | None => [] end.
Definition ext_binds (s : stmt) : list binding :=
  match s_nucleus s with NDir (DExternal l) => [mkB (upper (l_name l)) 0 true (l_start l)] | _ => [] end.
Lemma binds_of_split c s : binds_of (c, s) = lab_binds c s ++ ext_binds s.
Proof. reflexivity. Qed.

(* phase 1 of a step: the labels standing on the statement *)
Lemma p1_labels_phase pre st s :
  cur_rel (p1_cur st) (final None pre) pre -> labels_rep (p1_labels st) (bindings pre) -> consistent (bindings pre) ->
  let c := final None pre in
  match (match s_labels s with
         | [] => AOk (p1_labels st)
         | _ => match p1_cur st with
                | None => AErr UndetAddrLabel (map label_span (s_labels s))
                | Some cur => add_labels (p1_labels st) (s_labels s) (c_lc cur)
                end
         end) with
  | AOk L1 => labels_rep L1 (bindings pre ++ lab_binds c s) /\ consistent (bindings pre ++ lab_binds c s)
              /\ negb (inside c) && has_labels s = false
  | AErr k sp => (k = UndetAddrLabel /\ negb (inside c) && has_labels s = true)
                 \/ (k = OverlappingLabels /\ dupb (bindings pre ++ lab_binds c s) = true)
  | APanic => False
  end.
Proof.
  intros CR R C c. unfold has_labels. destruct (s_labels s) as [|l ls] eqn:EL.
  - unfold lab_binds. rewrite EL. destruct c as [[o a]|]; cbn [map]; rewrite app_nil_r, andb_false_r; (split; [assumption | split; [assumption | reflexivity]]).
  - unfold cur_rel in CR. fold c in CR. destruct (p1_cur st) as [cu|]; destruct c as [[o a]|]; try contradiction.
    + destruct CR as [E _]. rewrite E. unfold lab_binds. rewrite EL.
      pose proof (add_labels_spec (l :: ls) (p1_labels st) (bindings pre) a R C) as S.
      destruct (add_labels (p1_labels st) (l :: ls) a) as [L1|k sp|].
      * destruct S as [S1 S2]. split; [assumption | split; [assumption | reflexivity]].
      * right. destruct S as [S1 [S2 _]]. split; assumption.
      * exact S.
    + left. split; reflexivity.
Qed.

Lemma is_orig_next c s a : s_nucleus s = NDir (DOrig a) -> next c s = Some (a, a).
Proof. unfold next. intros ->. reflexivity. Qed.

Ltac i1_flags :=
  unfold v_undet_label, v_unopened, v_nested, v_reach; rewrite ?v_snoc; cbn [fst snd].

(* the location counter after a statement inside a block *)
Lemma p1_shift_phase cu o a s :
  c_lc cu = a -> c_ovf cu = false -> 0 <= o <= a -> a < 65536 -> typed_stmt s = true ->
  match stmt_len (s_nucleus s) with
  | WLPanic => False
  | WL n =>
      match shift cu n with
      | SOk cu' => c_lc cu' = a + size s /\ c_ovf cu' = false /\ a + size s < 65536 /\ c_orig cu' = c_orig cu /\ 0 <= size s
                   /\ (0 <? size s) && (asm.IO_START <? a + size s) = false
      | SErr k => (k = BlockInIO /\ (0 <? size s) && (asm.IO_START <? a + size s) = true)
                  \/ (k = WrappingBlock /\ (0 <? size s) && (65536 <? a + size s) = true)
      end
  end.
Proof.
  intros E Ho Hoa Ha T. rewrite (stmt_len_size s T). pose proof (size_bounds s T) as B.
  rewrite shift_exact by (try assumption; lia). rewrite E. unfold asm.IO_START.
  destruct (size s =? 0) eqn:E0.
  - apply Z.eqb_eq in E0. rewrite E0. repeat split; try lia. assumption.
  - apply Z.eqb_neq in E0. destruct (a + size s <=? 65024) eqn:E1.
    + cbn [c_lc c_ovf c_orig]. repeat split; lia.
    + destruct (a + size s <=? 65536) eqn:E2; [left | right]; split; try reflexivity; lia.
Qed.


(* phase 3 of a step (no source text): line entry (none), then the location counter *)
Definition p1_tail (st : p1) (s : stmt) (cur2 : option cursor) (labels2 : labmap) (rel2 : list (Z * str)) : ares p1 :=
  match cur2 with
  | None => AOk (mkP1 None labels2 rel2 (p1_lines st))
  | Some cur =>
      abind (match p1_lines st, @None str with
             | Some lines, Some text =>
                 if no_line_entry (s_nucleus s) then AOk (Some lines)
                 else
                   let idx := get_line text (s_start s) in
                   if (0 <=? idx) && (idx <? len lines)
                   then AOk (Some (set_nth lines (Z.to_nat idx) (Some (c_lc cur))))
                   else APanic
             | other, _ => AOk other
             end) (fun lines2 =>
      match stmt_len (s_nucleus s) with
      | WLPanic => APanic
      | WL n =>
          match shift cur n with
          | SOk cur' => AOk (mkP1 (Some cur') labels2 rel2 lines2)
          | SErr k => AErr k [stmt_span s]
          end
      end)
  end.

Lemma p1_tail_inv pre st s cur2 c2 L2 rel2 :
  p1_lines st = None -> typed_stmt s = true ->
  cur_rel cur2 c2 (pre ++ [s]) ->
  final None (pre ++ [s]) = match c2 with Some (o, a) => Some (o, a + size s) | None => None end ->
  (size s = 0 \/ c2 = final None pre) ->
  labels_rep L2 (bindings (pre ++ [s])) -> consistent (bindings (pre ++ [s])) ->
  v_undet_label (pre ++ [s]) = false -> v_unopened (pre ++ [s]) = false -> v_nested (pre ++ [s]) = false ->
  v_reach asm.IO_START pre = false ->
  match p1_tail st s cur2 L2 rel2 with
  | AOk st' => I1 (pre ++ [s]) st' /\ p1_lines st' = None
  | AErr k sp => p1_kind k = true /\ violated (pre ++ [s]) k = true
  | APanic => False
  end.
Proof.
  intros HL T CR NX SZ R C GL GU GN VIO. unfold p1_tail, cur_rel in *.
  destruct cur2 as [cu|]; destruct c2 as [[o a0]|]; try contradiction.
  - destruct CR as [E1 [E2 [E3 [E4 E5]]]]. rewrite HL. cbn [abind].
    pose proof (p1_shift_phase cu o a0 s E1 E2 E3 E4 T) as PS.
    destruct (stmt_len (s_nucleus s)) as [n0|]; [|exact PS].
    destruct (shift cu n0) as [cu'|k].
    + destruct PS as [P1 [P2 [P3 [P4 [P5 P6]]]]]. split; [|reflexivity].
      constructor; cbn [p1_cur p1_labels]; try assumption.
      * unfold cur_rel. rewrite NX. repeat split; try assumption; try lia. rewrite P4. exact E5.
      * unfold v_reach in *. rewrite v_snoc. apply orb_false_iff. split; [exact VIO|]. cbn [fst snd].
        destruct SZ as [SZ|SZ].
        -- destruct (final None pre) as [[o' a']|]; [|reflexivity]. rewrite SZ. reflexivity.
        -- rewrite <- SZ. exact P6.
    + assert (SZ' : final None pre = Some (o, a0)).
      { destruct SZ as [SZ|SZ]; [|symmetry; exact SZ]. exfalso. rewrite SZ in PS.
        destruct PS as [[_ F]|[_ F]]; discriminate F. }
      destruct PS as [[-> F]|[-> F]]; (split; [reflexivity|]); cbn [violated]; unfold v_reach; rewrite v_snoc; cbn [fst snd];
        rewrite SZ'; rewrite F; apply orb_true_r.
  - split; [|exact HL]. constructor; cbn [p1_cur p1_labels]; try assumption.
    + unfold cur_rel. rewrite NX. exact Logic.I.
    + unfold v_reach in *. rewrite v_snoc. apply orb_false_iff. split; [exact VIO|]. cbn [fst snd].
      destruct SZ as [SZ|SZ].
      * destruct (final None pre) as [[o' a']|]; [|reflexivity]. rewrite SZ. reflexivity.
      * rewrite <- SZ. reflexivity.
Qed.

Lemma cur_rel_mono cu c pre r : cur_rel cu c pre -> cur_rel cu c (pre ++ r).
Proof.
  unfold cur_rel. destruct cu as [cu|]; destruct c as [[o a]|]; try tauto.
  intros [E1 [E2 [E3 [E4 E5]]]]. repeat split; try assumption; try lia. rewrite map_app. apply in_or_app. left. exact E5.
Qed.

Lemma p1_step_inv pre st s :
  I1 pre st -> p1_lines st = None -> typed_stmt s = true ->
  match p1_step None st s with
  | AOk st' => I1 (pre ++ [s]) st' /\ p1_lines st' = None
  | AErr k sp => p1_kind k = true /\ violated (pre ++ [s]) k = true
  | APanic => False
  end.
Proof.
  intros [CR R C VL VU VN VIO] HL T.
  pose proof (p1_labels_phase pre st s CR R C) as PA. cbn zeta in PA.
  change (p1_step None st s) with
    (abind (match s_labels s with
            | [] => AOk (p1_labels st)
            | _ => match p1_cur st with
                   | None => AErr UndetAddrLabel (map label_span (s_labels s))
                   | Some cur => add_labels (p1_labels st) (s_labels s) (c_lc cur)
                   end
            end) (fun labels1 =>
     abind (match s_nucleus s with
         | NDir (DOrig a) =>
             match p1_cur st with
             | Some cur => AErr OverlappingOrig [c_orig cur; stmt_span s]
             | None => AOk (Some (mkCur a false (stmt_span s)), labels1, p1_rel st)
             end
         | NDir DEnd =>
             match p1_cur st with
             | Some _ => AOk (None, labels1, p1_rel st)
             | None => AErr UnopenedOrig [stmt_span s]
             end
         | NDir (DExternal l) =>
             abind (add_label labels1 l 0 true) (fun labels2 => AOk (p1_cur st, labels2, p1_rel st))
         | NDir (DFill (PLab l)) =>
             let key := upper (l_name l) in
             match p1_cur st with
             | Some cur => AOk (p1_cur st, labels1, snoc (p1_rel st) (c_lc cur, key))
             | None =>
                 match assoc key labels1 with
                 | Some d => if sd_external d then AErr UndetAddrStmt [stmt_span s] else AOk (p1_cur st, labels1, p1_rel st)
                 | None => AOk (p1_cur st, labels1, p1_rel st)
                 end
             end
         | _ => AOk (p1_cur st, labels1, p1_rel st)
         end) (fun '(cur2, labels2, rel2) => p1_tail st s cur2 labels2 rel2))).
  set (c := final None pre) in *.
  destruct (match s_labels s with [] => AOk (p1_labels st) | _ => _ end) as [L1|k sp|]; cbn [abind].
  2: { destruct PA as [[-> F]|[-> F]]; (split; [reflexivity|]); cbn [violated].
       - unfold v_undet_label. rewrite v_snoc. cbn [fst snd]. fold c. rewrite F. apply orb_true_r.
       - rewrite v_dup_dupb, bindings_snoc, binds_of_split, app_assoc. apply dupb_app_true. exact F. }
  2: { exact PA. }
  destruct PA as [R1 [C1 FL]].
  assert (GL : v_undet_label (pre ++ [s]) = false).
  { unfold v_undet_label. rewrite v_snoc. cbn [fst snd]. fold c. rewrite FL. fold (v_undet_label pre). rewrite VL. reflexivity. }
  assert (BS : bindings (pre ++ [s]) = (bindings pre ++ lab_binds c s) ++ ext_binds s).
  { rewrite bindings_snoc, binds_of_split, app_assoc. reflexivity. }
  assert (GU' : is_end s = false -> v_unopened (pre ++ [s]) = false).
  { intros NE. unfold v_unopened. rewrite v_snoc. cbn [fst snd]. rewrite NE, andb_false_r, orb_false_r. exact VU. }
  assert (GN' : is_orig s = false -> v_nested (pre ++ [s]) = false).
  { intros NO. unfold v_nested. rewrite v_snoc. cbn [fst snd]. rewrite NO, andb_false_r, orb_false_r. exact VN. }
  assert (generic : forall rel2, ext_binds s = [] -> is_orig s = false -> is_end s = false ->
            match p1_tail st s (p1_cur st) L1 rel2 with
            | AOk st' => I1 (pre ++ [s]) st' /\ p1_lines st' = None
            | AErr k _ => p1_kind k = true /\ violated (pre ++ [s]) k = true
            | APanic => False
            end).
  { intros rel2 EB NO NE. apply (p1_tail_inv pre st s (p1_cur st) c); try assumption.
    - apply cur_rel_mono. exact CR.
    - rewrite final_snoc. fold c. unfold next. unfold is_orig in NO. unfold is_end in NE.
      destruct (s_nucleus s) as [i|[a|o|n|t| |l]]; try reflexivity; discriminate.
    - right. reflexivity.
    - rewrite BS, EB, app_nil_r. exact R1.
    - rewrite BS, EB, app_nil_r. exact C1.
    - apply GU'. exact NE.
    - apply GN'. exact NO. }
  destruct (s_nucleus s) as [i|[a|[v|l]|n|t| |l]] eqn:EN; cbn [abind].
  - apply generic; [unfold ext_binds | unfold is_orig | unfold is_end]; rewrite EN; reflexivity.
  - (* .orig *)
    unfold cur_rel in CR. fold c in CR.
    destruct (p1_cur st) as [cu|] eqn:ECU; destruct c as [[o a0]|] eqn:EC; try contradiction; cbn [abind].
    + split; [reflexivity|]. cbn [violated]. unfold v_nested. rewrite v_snoc. cbn [fst snd]. fold c. rewrite EC.
      unfold is_orig. rewrite EN. cbn. apply orb_true_r.
    + assert (SZ : size s = 0) by (unfold size; rewrite EN; reflexivity).
      assert (Ta : 0 <= a < 65536) by (unfold typed_stmt in T; rewrite EN in T; lia).
      apply (p1_tail_inv pre st s _ (Some (a, a))); try assumption.
      * unfold cur_rel. cbn [c_lc c_ovf c_orig]. repeat split; try lia. rewrite map_app. apply in_or_app. right. left. reflexivity.
      * rewrite final_snoc. fold c. unfold next. rewrite EN, SZ, Z.add_0_r. reflexivity.
      * left. exact SZ.
      * rewrite BS. unfold ext_binds. rewrite EN, app_nil_r. exact R1.
      * rewrite BS. unfold ext_binds. rewrite EN, app_nil_r. exact C1.
      * apply GU'. unfold is_end. rewrite EN. reflexivity.
      * unfold v_nested. rewrite v_snoc. cbn [fst snd]. fold c. rewrite EC. cbn [inside andb]. rewrite orb_false_r. exact VN.
  - apply generic; [unfold ext_binds | unfold is_orig | unfold is_end]; rewrite EN; reflexivity.
  - (* .fill LABEL *)
    cbn zeta. unfold cur_rel in CR. fold c in CR.
    destruct (p1_cur st) as [cu|] eqn:ECU.
    + cbn [abind]. apply generic; [unfold ext_binds | unfold is_orig | unfold is_end]; rewrite EN; reflexivity.
    + assert (EC : c = None) by (destruct c as [[? ?]|]; [contradiction|reflexivity]).
      assert (G : match p1_tail st s None L1 (p1_rel st) with
                  | AOk st' => I1 (pre ++ [s]) st' /\ p1_lines st' = None
                  | AErr k _ => p1_kind k = true /\ violated (pre ++ [s]) k = true
                  | APanic => False
                  end).
      { apply generic; [unfold ext_binds | unfold is_orig | unfold is_end]; rewrite EN; reflexivity. }
      destruct (assoc (upper (l_name l)) L1) as [d|]; [|exact G].
      destruct (sd_external d); [|exact G]. cbn [abind].
      split; [reflexivity|]. cbn [violated]. unfold v_undet_stmt. rewrite v_snoc. cbn [fst snd]. fold c. rewrite EC.
      unfold needs_addr. rewrite EN. cbn. apply orb_true_r.
  - apply generic; [unfold ext_binds | unfold is_orig | unfold is_end]; rewrite EN; reflexivity.
  - apply generic; [unfold ext_binds | unfold is_orig | unfold is_end]; rewrite EN; reflexivity.
  - (* .end *)
    unfold cur_rel in CR. fold c in CR.
    destruct (p1_cur st) as [cu|] eqn:ECU; destruct c as [[o a0]|] eqn:EC; try contradiction; cbn [abind].
    + assert (SZ : size s = 0) by (unfold size; rewrite EN; reflexivity).
      apply (p1_tail_inv pre st s None None); try assumption.
      * exact Logic.I.
      * rewrite final_snoc. fold c. unfold next. rewrite EN. reflexivity.
      * left. exact SZ.
      * rewrite BS. unfold ext_binds. rewrite EN, app_nil_r. exact R1.
      * rewrite BS. unfold ext_binds. rewrite EN, app_nil_r. exact C1.
      * unfold v_unopened. rewrite v_snoc. cbn [fst snd]. fold c. rewrite EC. cbn [inside negb andb]. rewrite orb_false_r. exact VU.
      * apply GN'. unfold is_orig. rewrite EN. reflexivity.
    + split; [reflexivity|]. cbn [violated]. unfold v_unopened. rewrite v_snoc. cbn [fst snd]. fold c. rewrite EC.
      unfold is_end. rewrite EN. cbn. apply orb_true_r.
  - (* .external *)
    pose proof (add_label_spec L1 _ l 0 true R1 C1) as S. cbn zeta in S.
    assert (EB : ext_binds s = [mkB (upper (l_name l)) 0 true (l_start l)]) by (unfold ext_binds; rewrite EN; reflexivity).
    destruct (add_label L1 l 0 true) as [L2|k sp|]; cbn [abind].
    + destruct S as [R2 C2]. apply (p1_tail_inv pre st s (p1_cur st) c); try assumption.
      * apply cur_rel_mono. exact CR.
      * rewrite final_snoc. fold c. unfold next. rewrite EN. reflexivity.
      * right. reflexivity.
      * rewrite BS, EB. exact R2.
      * rewrite BS, EB. exact C2.
      * apply GU'. unfold is_end. rewrite EN. reflexivity.
      * apply GN'. unfold is_orig. rewrite EN. reflexivity.
    + destruct S as [-> [D _]]. split; [reflexivity|]. cbn [violated]. rewrite v_dup_dupb, BS, EB. exact D.
    + exact S.
Qed.

Lemma p1_loop_inv suf : forall pre st,
  I1 pre st -> p1_lines st = None -> typed suf = true ->
  match p1_loop None st suf with
  | AOk st' => I1 (pre ++ suf) st' /\ p1_lines st' = None
  | AErr k sp => p1_kind k = true /\ violated (pre ++ suf) k = true
  | APanic => False
  end.
Proof.
  induction suf as [|s suf IH]; intros pre st HI HL T; cbn [p1_loop].
  - rewrite app_nil_r. split; assumption.
  - cbn [typed forallb] in T. apply andb_prop in T. destruct T as [T1 T2].
    pose proof (p1_step_inv pre st s HI HL T1) as S.
    destruct (p1_step None st s) as [st1|k sp|]; cbn [abind].
    + destruct S as [HI1 HL1]. specialize (IH (pre ++ [s]) st1 HI1 HL1 T2).
      rewrite <- app_assoc in IH. exact IH.
    + destruct S as [K V]. split; [exact K|].
      replace (pre ++ s :: suf) with ((pre ++ [s]) ++ suf) by (rewrite <- app_assoc; reflexivity).
      apply violated_mono; assumption.
    + exact S.
Qed.

Lemma I1_init : I1 [] (mkP1 None [] [] None).
Proof.
  constructor; cbn; try reflexivity; try exact Logic.I.
  - split; [constructor|]. intros k. reflexivity.
  - intros b b' [].
Qed.

(* what a successful pass 1 establishes about the whole program *)
Record P1ok (p : list stmt) (L : labmap) : Prop := mkP1ok {
  ok_closed : final None p = None;
  ok_rep : labels_rep L (bindings p);
  ok_cons : consistent (bindings p);
  ok_label : v_undet_label p = false;
  ok_unop : v_unopened p = false;
  ok_nest : v_nested p = false;
  ok_io : v_reach asm.IO_START p = false }.

Lemma pass1_nodebug p : typed p = true ->
  match pass1 p None with
  | AOk sym => P1ok p (st_labels sym) /\ st_debug sym = None
  | AErr k sp => violated p k = true
  | APanic => False
  end.
Proof.
  intros T. unfold pass1.
  pose proof (p1_loop_inv p [] _ I1_init eq_refl T) as S. cbn [app] in S.
  destruct (p1_loop None _ p) as [st|k sp|]; cbn [abind].
  - destruct S as [[CR R C VL VU VN VIO] HL]. unfold cur_rel in CR.
    destruct (p1_cur st) as [cu|] eqn:ECU.
    + destruct (final None p) as [[o a]|] eqn:EF; [|contradiction]. cbn [violated]. unfold v_unclosed. rewrite EF. reflexivity.
    + destruct (final None p) as [[o a]|] eqn:EF; [contradiction|]. rewrite HL. cbn [st_labels st_debug].
      split; [|reflexivity]. constructor; assumption.
  - destruct S as [_ V]. exact V.
  - exact S.
Qed.
