(* AsmPass2.v — pass 2 (`ObjectFile::new`) against the positional specification, for a program
   on which pass 1 succeeded.  [I2]: after any prefix the open block holds exactly the words
   the specification assigns to its statements, the location counter is the positional address,
   the block map holds the non-empty closed blocks (sorted, pairwise disjoint), and no
   condition checked by pass 2 is violated so far; or the error names a violated condition. *)
From Coq Require Import ZArith List Bool Lia Permutation Sorted.
From Gen Require Import Constants.
From Model Require Import Tree Text Bits Instr Offset AsmAst Obj SourceInfo Assembler.
From Spec Require Import LayoutSpec WfSpec.
From Proofs Require Import AsmBase AsmPass1 AsmBlocks.
Import ListNotations.
Open Scope Z_scope.
Ltac Zify.zify_post_hook ::= Z.div_mod_to_equations.

(* ---------- per-statement conditions of pass 2 ---------- *)
Definition f_undet (cs : pos * stmt) : bool := negb (inside (fst cs)) && needs_addr (snd cs).
Definition f_nf (bs : list binding) (cs : pos * stmt) : bool :=
  match operand_of (snd cs) with
  | Some (_, l) => match lookup (l_name l) bs with None => true | Some _ => false end
  | None => false
  end.
Definition f_ext (bs : list binding) (cs : pos * stmt) : bool :=
  match operand_of (snd cs) with
  | Some (n, l) => (0 <? n) && match lookup (l_name l) bs with Some b => b_ext b | None => false end
  | None => false
  end.
Definition f_off (n : Z) (bs : list binding) (cs : pos * stmt) : bool :=
  match fst cs, operand_of (snd cs) with
  | Some (_, a), Some (n', l) =>
      (0 <? n') && (n' =? n) &&
      match lookup (l_name l) bs with
      | Some b => negb (b_ext b) && match field_value n (b_addr b) a with None => true | Some _ => false end
      | None => false
      end
  | _, _ => false
  end.
Lemma v_undet_stmt_f p : v_undet_stmt p = existsb f_undet (placed p). Proof. reflexivity. Qed.
Lemma v_not_found_f p : v_not_found p = existsb (f_nf (bindings p)) (placed p). Proof. reflexivity. Qed.
Lemma v_external_f p : v_external p = existsb (f_ext (bindings p)) (placed p). Proof. reflexivity. Qed.
Lemma v_offset_f n p : v_offset n p = existsb (f_off n (bindings p)) (placed p). Proof. reflexivity. Qed.

(* ---------- label operands ---------- *)
Lemma rep_lookup L bs name : labels_rep L bs -> assoc (upper name) L = option_map sym_of (lookup name bs).
Proof. intros [_ R]. apply R. Qed.

Lemma rpo_spec n o a L bs :
  n = 9 \/ n = 11 -> labels_rep L bs ->
  match replace_pc_offset n o (a + 1) L with
  | AOk v => v = operand_value bs n o a /\
             forall l, o = PLab l -> exists b, lookup (l_name l) bs = Some b /\ b_ext b = false /\ field_value n (b_addr b) a <> None
  | AErr k sp => exists l, o = PLab l /\ sp = [label_span l] /\
                 ((k = CouldNotFindLabel /\ lookup (l_name l) bs = None)
                  \/ (k = OffsetExternal /\ exists b, lookup (l_name l) bs = Some b /\ b_ext b = true)
                  \/ (k = OffsetNewErr (CannotFitSigned n) /\ exists b, lookup (l_name l) bs = Some b /\ b_ext b = false /\ field_value n (b_addr b) a = None))
  | APanic => False
  end.
Proof.
  intros Hn R. unfold replace_pc_offset, operand_value. destruct o as [v|l].
  - split; [reflexivity|]. intros l E. discriminate.
  - rewrite (rep_lookup L bs (l_name l) R). unfold label_addr.
    destruct (lookup (l_name l) bs) as [b|] eqn:E; cbn [option_map].
    + cbn [sym_of sd_external sd_addr]. destruct (b_ext b) eqn:X.
      * exists l. split; [reflexivity|]. split; [reflexivity|]. right. left. split; [reflexivity|]. exists b. split; [first [reflexivity | exact E]|exact X].
      * rewrite (reloff n (b_addr b) a Hn). destruct (field_value n (b_addr b) a) as [f|] eqn:F.
        -- split; [reflexivity|]. intros l' [= <-]. exists b. split; [first [reflexivity | exact E]|]. split; [exact X|]. rewrite F. discriminate.
        -- exists l. split; [reflexivity|]. split; [reflexivity|]. right. right. split; [reflexivity|]. exists b. split; [first [reflexivity | exact E]|]. split; assumption.
    + exists l. split; [reflexivity|]. split; [reflexivity|]. left. split; [reflexivity | first [reflexivity | exact E]].
Qed.

(* the PC-relative operand of an instruction, its width and what is built from the value *)
Definition pc_operand (i : asm_instr) : option (Z * pcoff * (Z -> sim_instr)) :=
  match i with
  | ABR cc o => Some (9, o, SBR cc)
  | AJSR o => Some (11, o, fun v => SJSR (Imm v))
  | ALD dr o => Some (9, o, SLD dr)
  | ALDI dr o => Some (9, o, SLDI dr)
  | ALEA dr o => Some (9, o, SLEA dr)
  | AST sr o => Some (9, o, SST sr)
  | ASTI sr o => Some (9, o, SSTI sr)
  | ANOP o => Some (9, o, SBR 0)
  | _ => None
  end.
Lemma into_sim_pc i pc L :
  into_sim_instr i pc L =
  match pc_operand i with
  | Some (n, o, k) => abind (replace_pc_offset n o pc L) (fun v => AOk (k v))
  | None => AOk (expand [] 0 i)
  end.
Proof. destruct i; reflexivity. Qed.
Lemma expand_pc bs a i :
  expand bs a i = match pc_operand i with Some (n, o, k) => k (operand_value bs n o a) | None => expand [] 0 i end.
Proof. destruct i; reflexivity. Qed.
Lemma operand_of_instr s i : s_nucleus s = NInstr i ->
  operand_of s = match pc_operand i with Some (n, PLab l, _) => Some (n, l) | _ => None end.
Proof. intros E. unfold operand_of. rewrite E. destruct i as [| |? o| |o| |? o|? o| |? o| | | |? o|? o| | |o| | | | | | |]; try reflexivity; destruct o; reflexivity. Qed.
Lemma pc_operand_width i n o k : pc_operand i = Some (n, o, k) -> n = 9 \/ n = 11.
Proof. destruct i; cbn; intros H; try discriminate; injection H as <- _ _; auto. Qed.

Lemma into_sim_spec s i o0 a L bs :
  s_nucleus s = NInstr i -> labels_rep L bs ->
  let cs := (Some (o0, a), s) in
  match into_sim_instr i (a + 1) L with
  | AOk sim => sim = expand bs a i /\ f_nf bs cs = false /\ f_ext bs cs = false /\ f_off 9 bs cs = false /\ f_off 11 bs cs = false
  | AErr k sp => (exists n' l, operand_of s = Some (n', l) /\ sp = [label_span l]) /\
                 ((k = CouldNotFindLabel /\ f_nf bs cs = true)
                  \/ (k = OffsetExternal /\ f_ext bs cs = true)
                  \/ (exists n, k = OffsetNewErr (CannotFitSigned n) /\ f_off n bs cs = true))
  | APanic => False
  end.
Proof.
  intros EN R cs. rewrite into_sim_pc, (expand_pc bs a i).
  unfold f_nf, f_ext, f_off, cs. cbn [fst snd]. rewrite (operand_of_instr s i EN).
  destruct (pc_operand i) as [[[n o] k]|] eqn:EP.
  - pose proof (pc_operand_width i n o k EP) as Hn.
    pose proof (rpo_spec n o a L bs Hn R) as S.
    destruct (replace_pc_offset n o (a + 1) L) as [v|kk sp|]; cbn [abind].
    + destruct S as [-> S]. split; [reflexivity|]. destruct o as [v|l]; [repeat split; reflexivity|].
      destruct (S l eq_refl) as [b [E1 [E2 E3]]]. rewrite E1, E2.
      destruct (field_value n (b_addr b) a) eqn:F; [|congruence].
      destruct Hn as [-> | ->]; rewrite F; repeat split; reflexivity.
    + destruct S as [l [-> [Hsp S]]]. split; [exists n, l; split; [reflexivity|exact Hsp]|].
      assert (Hp : (0 <? n) = true) by (destruct Hn; subst n; reflexivity).
      destruct S as [[-> E]|[[-> [b [E X]]]|[-> [b [E [X F]]]]]].
      * left. split; [reflexivity|]. rewrite E. reflexivity.
      * right. left. split; [reflexivity|]. rewrite E, X, Hp. reflexivity.
      * right. right. exists n. split; [reflexivity|]. rewrite E, X, F, Hp, Z.eqb_refl. reflexivity.
    + exact S.
  - repeat split; reflexivity.
Qed.

Lemma existsb_false_in {A} (f : A -> bool) l x : existsb f l = false -> In x l -> f x = false.
Proof.
  intros H Hx. destruct (f x) eqn:E; [|reflexivity]. exfalso.
  assert (T : existsb f l = true) by (apply existsb_exists; exists x; split; assumption). congruence.
Qed.
Lemma placed_in pre s suf : In (final None pre, s) (placed (pre ++ s :: suf)).
Proof. rewrite placed_app. apply in_or_app. right. left. reflexivity. Qed.

Lemma dir_no_pcrel bs c s d n : s_nucleus s = NDir d -> f_ext bs (c, s) = false /\ f_off n bs (c, s) = false.
Proof.
  intros E. unfold f_ext, f_off, operand_of. cbn [fst snd]. rewrite E.
  destruct d as [a|[v|l]|m|t| |l]; destruct c as [[o a0]|]; split; reflexivity.
Qed.

Lemma write_directive_spec s d o0 a words L bs :
  s_nucleus s = NDir d -> needs_addr s = true -> labels_rep L bs ->
  let cs := (Some (o0, a), s) in
  match write_directive words d L with
  | AOk w' => w' = words ++ stmt_words bs a s /\ f_nf bs cs = false
  | AErr k sp => k = CouldNotFindLabel /\ f_nf bs cs = true /\ exists l, operand_of s = Some (0, l) /\ sp = [label_span l]
  | APanic => False
  end.
Proof.
  intros EN NA R cs. unfold needs_addr in NA. rewrite EN in NA.
  unfold write_directive, stmt_words, f_nf, operand_of, cs, snoc. cbn [fst snd]. rewrite EN.
  destruct d as [a0|[v|l]|m|t| |l]; try discriminate NA.
  - split; reflexivity.
  - unfold lookup_label_map, label_addr. rewrite (rep_lookup L bs (l_name l) R).
    destruct (lookup (l_name l) bs) as [b|]; cbn [option_map].
    + split; reflexivity.
    + split; [reflexivity|]. split; [reflexivity|]. exists l. split; reflexivity.
  - split; reflexivity.
  - split; [|reflexivity]. rewrite <- app_assoc. reflexivity.
Qed.

(* ---------- the blocks of a program, computed positionally ---------- *)
Definition rblock := (Z * list (option Z))%type.
Definition ref_step (bs : list binding) (st : list rblock * list (option Z)) (cs : pos * stmt) : list rblock * list (option Z) :=
  match s_nucleus (snd cs) with
  | NDir (DOrig _) => (fst st, [])
  | NDir DEnd => match fst cs with Some (o, _) => (fst st ++ [(o, snd st)], []) | None => (fst st, []) end
  | _ => match fst cs with Some (_, a) => (fst st, snd st ++ stmt_words bs a (snd cs)) | None => st end
  end.
Definition ref_run (bs : list binding) (pre : list stmt) : list rblock * list (option Z) :=
  fold_left (ref_step bs) (placed pre) ([], []).
Lemma ref_run_snoc bs pre s : ref_run bs (pre ++ [s]) = ref_step bs (ref_run bs pre) (final None pre, s).
Proof. unfold ref_run. rewrite placed_snoc, fold_left_app. reflexivity. Qed.

Definition nonempty (b : rblock) : bool := match snd b with [] => false | _ => true end.
Definition strip (kb : Z * oblock) : rblock := (ob_start (snd kb), ob_words (snd kb)).
Definition brange (b : rblock) : Z * Z := (fst b, fst b + len (snd b)).
Definition bcells (b : rblock) : list (Z * option Z) := cells_from (fst b) (snd b).

Lemma cells_from_app a ws ws' : cells_from a (ws ++ ws') = cells_from a ws ++ cells_from (a + len ws) ws'.
Proof.
  revert a. induction ws as [|w ws IH]; intros a; cbn [cells_from app].
  - unfold len. cbn. rewrite Z.add_0_r. reflexivity.
  - rewrite IH. f_equal. f_equal. f_equal. unfold len. cbn [length]. lia.
Qed.

Definition f_any (bs : list binding) (cs : pos * stmt) : bool :=
  f_undet cs || f_nf bs cs || f_ext bs cs || f_off 9 bs cs || f_off 11 bs cs.

Definition cur2_rel (bs : list binding) (cur : option (Z * oblock)) (pre : list stmt) : Prop :=
  match cur, final None pre with
  | None, None => True
  | Some (lc, blk), Some (o, a) =>
      lc = a /\ ob_start blk = o /\ ob_words blk = snd (ref_run bs pre) /\ len (ob_words blk) = a - o
      /\ 0 <= o < 65536 /\ (a = o \/ a <= asm.IO_START) /\ In (ob_span blk) (map stmt_span pre)
  | _, _ => False
  end.

Record I2 (bs : list binding) (pre : list stmt) (st : p2) : Prop := mkI2 {
  i2_cur : cur2_rel bs (p2_cur st) pre;
  i2_map : map_inv (p2_map st);
  i2_perm : Permutation (map strip (p2_map st)) (filter nonempty (fst (ref_run bs pre)));
  i2_blocks : map brange (fst (ref_run bs pre)) = blocks pre;
  i2_cells : flat_map bcells (fst (ref_run bs pre))
             ++ match final None pre with Some (o, _) => cells_from o (snd (ref_run bs pre)) | None => [] end
             = flat_map (cells_of bs) (placed pre);
  i2_nov : any_pair overlap (blocks pre) = false;
  i2_flags : existsb (f_any bs) (placed pre) = false;
  i2_spans : forall k b, In (k, b) (p2_map st) -> In (ob_span b) (map stmt_span pre) }.

Lemma blocks_snoc pre s :
  blocks (pre ++ [s]) = blocks pre ++ match final None pre with Some oe => if is_end s then [oe] else [] | None => [] end.
Proof. unfold blocks. rewrite placed_snoc, flat_map_app. cbn [flat_map fst snd]. rewrite app_nil_r. reflexivity. Qed.
Lemma blocks_app pre r : exists l, blocks (pre ++ r) = blocks pre ++ l.
Proof. unfold blocks. rewrite placed_app, flat_map_app. eexists. reflexivity. Qed.

Lemma any_pair_snoc {A} (f : A -> A -> bool) l x : any_pair f (l ++ [x]) = any_pair f l || existsb (fun y => f y x) l.
Proof.
  induction l as [|a l IH]; cbn [any_pair app existsb]; [reflexivity|].
  rewrite IH, existsb_snoc. destruct (existsb (f a) l); destruct (f a x); destruct (any_pair f l); reflexivity.
Qed.
Lemma any_pair_app_true {A} (f : A -> A -> bool) l l' : any_pair f l = true -> any_pair f (l ++ l') = true.
Proof.
  induction l as [|a l IH]; cbn [any_pair app]; [discriminate|]. intros H. apply orb_prop in H. destruct H as [H|H].
  - rewrite existsb_app, H. reflexivity.
  - rewrite (IH H). apply orb_true_r.
Qed.
Lemma v_overlap_mono pre r : v_overlap pre = true -> v_overlap (pre ++ r) = true.
Proof. unfold v_overlap. destruct (blocks_app pre r) as [l ->]. apply any_pair_app_true. Qed.

Lemma len_utf8_bytes t : len (utf8_bytes t) = byte_len t.
Proof.
  induction t as [|c t IH]; [reflexivity|]. unfold utf8_bytes in *. cbn [flat_map byte_len]. rewrite len_app, IH. f_equal.
  unfold utf8_encode, utf8_len. repeat match goal with |- context [if ?c then _ else _] => destruct c end; reflexivity.
Qed.
Lemma len_stmt_words bs a s : typed_stmt s = true -> len (stmt_words bs a s) = size s.
Proof.
  unfold typed_stmt, stmt_words, size. destruct (s_nucleus s) as [i|[a0|[v|l]|n|t| |l]]; intros T; try reflexivity.
  - rewrite len_repeat. lia.
  - rewrite len_app, len_map, len_utf8_bytes. reflexivity.
Qed.

Lemma next_plain c s : is_orig s = false -> is_end s = false ->
  next c s = match c with Some (o, a) => Some (o, a + size s) | None => None end.
Proof.
  unfold is_orig, is_end, next. destruct (s_nucleus s) as [i|[a0|o|n|t| |l]]; intros H1 H2; try reflexivity; discriminate.
Qed.
Lemma ref_step_plain bs st c s : is_orig s = false -> is_end s = false ->
  ref_step bs st (c, s) = match c with Some (_, a) => (fst st, snd st ++ stmt_words bs a s) | None => st end.
Proof.
  unfold is_orig, is_end, ref_step. cbn [fst snd]. destruct (s_nucleus s) as [i|[a0|o|n|t| |l]]; intros H1 H2; try reflexivity; discriminate.
Qed.

(* a statement inside a block that appends its words to the open block *)
Lemma I2_append bs pre s st o a lc blk w' :
  I2 bs pre st -> p2_cur st = Some (lc, blk) -> final None pre = Some (o, a) ->
  is_orig s = false -> is_end s = false ->
  w' = ob_words blk ++ stmt_words bs a s -> len (stmt_words bs a s) = size s ->
  (a + size s = o \/ a + size s <= asm.IO_START) ->
  f_any bs (Some (o, a), s) = false ->
  I2 bs (pre ++ [s]) (mkP2 (p2_map st) (Some (a + size s, mkOB (ob_start blk) w' (ob_span blk)))).
Proof.
  intros [CU MI PE BL CE NV FL SP] EC EF NO NE -> LW BD FA.
  unfold cur2_rel in CU. rewrite EC, EF in CU. destruct CU as [U1 [U2 [U3 [U4 [U5 [U6 U7]]]]]].
  assert (RR : ref_run bs (pre ++ [s]) = (fst (ref_run bs pre), snd (ref_run bs pre) ++ stmt_words bs a s)).
  { rewrite ref_run_snoc, EF, ref_step_plain by assumption. reflexivity. }
  assert (FN : final None (pre ++ [s]) = Some (o, a + size s)).
  { rewrite final_snoc, EF, next_plain by assumption. reflexivity. }
  constructor; cbn [p2_cur p2_map].
  - unfold cur2_rel. rewrite FN, RR. cbn [ob_start ob_words ob_span snd]. repeat split; try assumption; try lia.
    + rewrite U3. reflexivity.
    + rewrite len_app, LW, U4. lia.
    + rewrite map_app. apply in_or_app. left. exact U7.
  - exact MI.
  - rewrite RR. exact PE.
  - rewrite RR, blocks_snoc, EF, NE, app_nil_r. exact BL.
  - rewrite RR, FN, placed_snoc, flat_map_app. cbn [fst snd flat_map]. rewrite app_nil_r.
    rewrite EF in CE. rewrite <- CE, <- app_assoc. f_equal.
    rewrite cells_from_app. f_equal. unfold cells_of. cbn [fst snd]. rewrite EF, <- U3, U4. f_equal. lia.
  - rewrite blocks_snoc, EF, NE, app_nil_r. exact NV.
  - rewrite placed_snoc, existsb_snoc, FL, EF. cbn [orb]. exact FA.
  - intros k b Hb. rewrite map_app. apply in_or_app. left. exact (SP k b Hb).
Qed.

(* a statement without effect outside every block *)
Lemma I2_skip bs pre s st :
  I2 bs pre st -> p2_cur st = None -> final None pre = None ->
  is_orig s = false -> is_end s = false -> f_any bs (None, s) = false ->
  I2 bs (pre ++ [s]) st.
Proof.
  intros [CU MI PE BL CE NV FL SP] EC EF NO NE FA.
  assert (RR : ref_run bs (pre ++ [s]) = ref_run bs pre).
  { rewrite ref_run_snoc, EF, ref_step_plain by assumption. reflexivity. }
  assert (FN : final None (pre ++ [s]) = None).
  { rewrite final_snoc, EF, next_plain by assumption. reflexivity. }
  constructor.
  - unfold cur2_rel. rewrite FN, EC. exact Logic.I.
  - exact MI.
  - rewrite RR. exact PE.
  - rewrite RR, blocks_snoc, EF, app_nil_r. exact BL.
  - rewrite RR, FN, placed_snoc, flat_map_app. cbn [fst snd flat_map]. rewrite EF in CE. unfold cells_of at 2. cbn [fst].
    rewrite EF. rewrite !app_nil_r in *. exact CE.
  - rewrite blocks_snoc, EF, app_nil_r. exact NV.
  - rewrite placed_snoc, existsb_snoc, FL, EF. cbn [orb]. exact FA.
  - intros k b Hb. rewrite map_app. apply in_or_app. left. exact (SP k b Hb).
Qed.

Lemma f_any_nonaddr bs c s : needs_addr s = false -> f_any bs (c, s) = false.
Proof.
  unfold f_any, f_undet, f_nf, f_ext, f_off, needs_addr, operand_of. cbn [fst snd].
  destruct (s_nucleus s) as [i|[a0|o|n|t| |l]]; intros H; try discriminate; destruct c as [[? ?]|]; reflexivity.
Qed.

Lemma I2_orig bs pre s st a :
  I2 bs pre st -> p2_cur st = None -> final None pre = None ->
  s_nucleus s = NDir (DOrig a) -> 0 <= a < 65536 ->
  I2 bs (pre ++ [s]) (mkP2 (p2_map st) (Some (a, mkOB a [] (stmt_span s)))).
Proof.
  intros [CU MI PE BL CE NV FL SP] EC EF EN Ha.
  assert (RR : ref_run bs (pre ++ [s]) = (fst (ref_run bs pre), [])).
  { rewrite ref_run_snoc. unfold ref_step. cbn [fst snd]. rewrite EN. reflexivity. }
  assert (FN : final None (pre ++ [s]) = Some (a, a)).
  { rewrite final_snoc. unfold next. rewrite EN. reflexivity. }
  assert (NE : is_end s = false) by (unfold is_end; rewrite EN; reflexivity).
  constructor; cbn [p2_cur p2_map].
  - unfold cur2_rel. rewrite FN, RR. cbn [ob_start ob_words ob_span snd]. repeat split; try lia.
    { unfold len; cbn; lia. } rewrite map_app. apply in_or_app. right. left. reflexivity.
  - exact MI.
  - rewrite RR. exact PE.
  - rewrite RR, blocks_snoc, EF, app_nil_r. exact BL.
  - rewrite RR, FN, placed_snoc, flat_map_app. cbn [fst snd flat_map cells_from]. rewrite EF in CE.
    unfold cells_of at 2. cbn [fst]. rewrite EF. rewrite !app_nil_r in *. exact CE.
  - rewrite blocks_snoc, EF, app_nil_r. exact NV.
  - rewrite placed_snoc, existsb_snoc, FL. cbn [orb]. apply f_any_nonaddr. unfold needs_addr. rewrite EN. reflexivity.
  - intros k b Hb. rewrite map_app. apply in_or_app. left. exact (SP k b Hb).
Qed.

Lemma overlap_brange_ranges b blk o a :
  ob_start blk = o -> len (ob_words blk) = a - o ->
  overlap (brange (strip (ob_start b, b))) (o, a) =
  (0 <? len (ob_words b)) && (o <? a) && ranges_overlap (rng blk) (rng b).
Proof.
  intros E1 E2. unfold overlap, brange, strip, ranges_overlap, rng. cbn [fst snd]. rewrite E1, E2.
  replace (o + (a - o)) with a by lia.
  destruct (ob_start b <? ob_start b + len (ob_words b)) eqn:A; destruct (0 <? len (ob_words b)) eqn:B; try lia;
  destruct (o <? a); destruct (ob_start b <? a); destruct (o <? ob_start b + len (ob_words b)); reflexivity.
Qed.

(* closing a block: the three outcomes of the `.end` arm *)
Lemma I2_end bs pre s st lc blk o a :
  I2 bs pre st -> p2_cur st = Some (lc, blk) -> final None pre = Some (o, a) ->
  s_nucleus s = NDir DEnd ->
  match ob_words blk with
  | [] => I2 bs (pre ++ [s]) (mkP2 (p2_map st) None)
  | _ =>
      match find_overlap blk (neighbours blk (p2_map st)) with
      | AOk None => I2 bs (pre ++ [s]) (mkP2 (bt_insert (ob_start blk) blk (p2_map st)) None)
      | AOk (Some other) => v_overlap (pre ++ [s]) = true /\
                            In (ob_span blk) (map stmt_span pre) /\ In (ob_span other) (map stmt_span pre)
      | AErr _ _ => False
      | APanic => False
      end
  end.
Proof.
  intros [CU MI PE BL CE NV FL SP] EC EF EN.
  unfold cur2_rel in CU. rewrite EC, EF in CU. destruct CU as [U1 [U2 [U3 [U4 [U5 [U6 U7]]]]]].
  assert (RR : ref_run bs (pre ++ [s]) = (fst (ref_run bs pre) ++ [(o, ob_words blk)], [])).
  { rewrite ref_run_snoc. unfold ref_step. cbn [fst snd]. rewrite EN, EF, U3. reflexivity. }
  assert (FN : final None (pre ++ [s]) = None).
  { rewrite final_snoc. unfold next. rewrite EN. reflexivity. }
  assert (IE : is_end s = true) by (unfold is_end; rewrite EN; reflexivity).
  assert (BS : blocks (pre ++ [s]) = blocks pre ++ [(o, a)]) by (rewrite blocks_snoc, EF, IE; reflexivity).
  assert (FA : f_any bs (Some (o, a), s) = false) by (apply f_any_nonaddr; unfold needs_addr; rewrite EN; reflexivity).
  assert (CEL : flat_map bcells (fst (ref_run bs pre) ++ [(o, ob_words blk)]) ++ [] = flat_map (cells_of bs) (placed (pre ++ [s]))).
  { rewrite placed_snoc, !flat_map_app. cbn [flat_map]. rewrite EF in CE. rewrite <- CE, EF.
    unfold cells_of, bcells. cbn [fst snd]. unfold stmt_words. rewrite EN, U3. cbn [cells_from]. rewrite !app_nil_r. reflexivity. }
  assert (common : forall m,
            map_inv m -> Permutation (map strip m) (filter nonempty (fst (ref_run bs pre) ++ [(o, ob_words blk)])) ->
            any_pair overlap (blocks pre ++ [(o, a)]) = false ->
            (forall k b, In (k, b) m -> In (ob_span b) (map stmt_span (pre ++ [s]))) ->
            I2 bs (pre ++ [s]) (mkP2 m None)).
  { intros m M1 M2 M3 M4. constructor; cbn [p2_cur p2_map].
    - unfold cur2_rel. rewrite FN. exact Logic.I.
    - exact M1.
    - rewrite RR. exact M2.
    - rewrite RR, BS. cbn [fst]. rewrite map_app, BL. cbn [map fst snd]. unfold brange. cbn [fst snd]. rewrite U4. do 3 f_equal. lia.
    - rewrite RR, FN. exact CEL.
    - rewrite BS. exact M3.
    - rewrite placed_snoc, existsb_snoc, FL, EF. cbn [orb]. exact FA.
    - exact M4. }
  assert (SPm : forall k b, In (k, b) (p2_map st) -> In (ob_span b) (map stmt_span (pre ++ [s]))).
  { intros k b Hb. rewrite map_app. apply in_or_app. left. exact (SP k b Hb). }
  destruct (ob_words blk) as [|w ws] eqn:EW.
  - (* empty block: dropped *)
    apply common; try assumption.
    + rewrite filter_app. cbn [filter nonempty snd]. rewrite app_nil_r. exact PE.
    + rewrite any_pair_snoc, NV. cbn [orb].
      assert (Eao : a = o) by (unfold len in U4; cbn in U4; lia). rewrite Eao.
      clear. induction (blocks pre) as [|y l IH]; [reflexivity|]. cbn [existsb]. rewrite IH.
      unfold overlap. cbn [fst snd]. rewrite Z.ltb_irrefl, andb_false_r. reflexivity.
  - rewrite <- EW in *.
    assert (NEW : ob_words blk <> []) by (rewrite EW; discriminate).
    pose proof (len_pos _ NEW) as LP.
    assert (Hoa : o < a) by lia.
    assert (Ha : a <= asm.IO_START) by (destruct U6; lia).
    assert (BO : block_ok blk) by (split; [exact NEW|]; rewrite U2, U4; split; lia).
    destruct MI as [S [OK DJ]].
    pose proof (find_overlap_spec blk (neighbours blk (p2_map st))) as FO.
    assert (FO' := FO ltac:(rewrite U2; lia) ltac:(rewrite U2, U4; lia)
                      (fun k b Hb => let H := proj2 (OK k b (neighbours_in blk (p2_map st) S (k, b) Hb)) in conj (proj1 (proj2 H)) (proj2 (proj2 H)))).
    clear FO. destruct (find_overlap blk (neighbours blk (p2_map st))) as [[other|]|k sp|]; try exact FO'.
    + (* an overlapping neighbour *)
      destruct FO' as [[k Hk] OV]. apply (neighbours_in blk _ S) in Hk.
      destruct (OK k other Hk) as [Ek [NEo _]]. subst k. split; [|split; [exact U7 | exact (SP _ _ Hk)]].
      unfold v_overlap. rewrite BS, any_pair_snoc. apply orb_true_iff. right.
      apply existsb_exists. exists (brange (strip (ob_start other, other))). split.
      * rewrite <- BL. apply in_map.
        assert (I : In (strip (ob_start other, other)) (map strip (p2_map st))) by (apply in_map; exact Hk).
        apply (Permutation_in _ PE) in I. apply filter_In in I. exact (proj1 I).
      * rewrite (overlap_brange_ranges other blk o a U2 U4), OV. pose proof (len_pos _ NEo).
        destruct (0 <? len (ob_words other)) eqn:A; destruct (o <? a) eqn:B; first [reflexivity | lia].
    + (* no neighbour overlaps: nothing overlaps *)
      pose proof (neighbour_check_complete blk (p2_map st) (conj S (conj OK DJ)) BO FO') as NC.
      destruct (map_inv_insert blk (p2_map st) (conj S (conj OK DJ)) BO NC) as [MI' PI].
      apply common.
      * exact MI'.
      * assert (NEb : nonempty (o, ob_words blk) = true) by (unfold nonempty; cbn [snd]; destruct (ob_words blk); [congruence|reflexivity]).
        rewrite filter_app. cbn [filter]. rewrite NEb.
        apply perm_trans with (map strip ((ob_start blk, blk) :: p2_map st)); [apply Permutation_map; exact PI|].
        cbn [map]. unfold strip at 1. cbn [snd]. rewrite U2.
        apply perm_trans with ((o, ob_words blk) :: filter nonempty (fst (ref_run bs pre))); [apply perm_skip; exact PE|].
        apply Permutation_cons_append.
      * rewrite any_pair_snoc, NV. cbn [orb].
        destruct (existsb (fun y => overlap y (o, a)) (blocks pre)) eqn:EX; [exfalso|reflexivity].
        apply existsb_exists in EX. destruct EX as [y [Hy Oy]]. rewrite <- BL in Hy. apply in_map_iff in Hy.
        destruct Hy as [d [<- Hd]].
        destruct (nonempty d) eqn:ND.
        -- assert (I : In d (filter nonempty (fst (ref_run bs pre)))) by (apply filter_In; split; assumption).
           apply (Permutation_in _ (Permutation_sym PE)) in I. apply in_map_iff in I. destruct I as [[k b] [<- Hb]].
           destruct (OK k b Hb) as [Ek _]. subst k.
           rewrite (overlap_brange_ranges b blk o a U2 U4), (NC _ b Hb), andb_false_r in Oy. discriminate.
        -- unfold nonempty in ND. unfold overlap, brange in Oy. destruct d as [d0 dw]. cbn [fst snd] in *. destruct dw; [|discriminate].
           unfold len in Oy. cbn in Oy. rewrite Z.add_0_r, Z.ltb_irrefl in Oy. discriminate.
      * intros k b Hb. apply (Permutation_in _ PI) in Hb. destruct Hb as [Hb|Hb].
        -- injection Hb as <- <-. rewrite map_app. apply in_or_app. left. exact U7.
        -- exact (SPm k b Hb).
Qed.

Lemma f_any_inside bs (o a : Z) s :
  f_nf bs (Some (o, a), s) = false -> f_ext bs (Some (o, a), s) = false ->
  f_off 9 bs (Some (o, a), s) = false -> f_off 11 bs (Some (o, a), s) = false ->
  f_any bs (Some (o, a), s) = false.
Proof. unfold f_any, f_undet. cbn [fst snd inside negb andb]. intros -> -> -> ->. reflexivity. Qed.

Lemma typed_in p s : typed p = true -> In s p -> typed_stmt s = true.
Proof. unfold typed. rewrite forallb_forall. auto. Qed.

Lemma f_any_true_violated p c s : In (c, s) (placed p) -> f_any (bindings p) (c, s) = true ->
  v_undet_stmt p = true \/ v_not_found p = true \/ v_external p = true \/ v_offset 9 p = true \/ v_offset 11 p = true.
Proof.
  intros Hin H. unfold f_any in H.
  rewrite v_undet_stmt_f, v_not_found_f, v_external_f, !v_offset_f.
  repeat (apply orb_prop in H; destruct H as [H|H]);
    [left | right; left | right; right; left | right; right; right; left | right; right; right; right];
    apply existsb_exists; exists (c, s); split; assumption.
Qed.

Lemma p2_step_inv p L pre s suf st :
  p = pre ++ s :: suf -> typed p = true -> P1ok p L ->
  I2 (bindings p) pre st ->
  match p2_step L st s with
  | AOk st' => I2 (bindings p) (pre ++ [s]) st'
  | AErr k sp => violated p k = true
  | APanic => False
  end.
Proof.
  intros EP T [_ R _ _ VU VN VIO] HI. set (bs := bindings p) in *.
  set (c := final None pre).
  assert (K1 : In (c, s) (placed p)) by (rewrite EP; apply placed_in).
  assert (Ts : typed_stmt s = true) by (apply (typed_in p); [exact T | rewrite EP; apply in_or_app; right; left; reflexivity]).
  pose proof (existsb_false_in _ _ _ VN K1) as KN. cbn [fst snd] in KN.
  pose proof (existsb_false_in _ _ _ VU K1) as KU. cbn [fst snd] in KU.
  pose proof (existsb_false_in _ _ _ VIO K1) as KIO. cbn [fst snd] in KIO.
  pose proof (i2_cur _ _ _ HI) as CU. unfold cur2_rel in CU. fold c in CU.
  pose proof (size_bounds s Ts) as SB.
  unfold p2_step.
  destruct (s_nucleus s) as [i|d] eqn:EN.
  - (* instruction *)
    assert (NO : is_orig s = false) by (unfold is_orig; rewrite EN; reflexivity).
    assert (NE : is_end s = false) by (unfold is_end; rewrite EN; reflexivity).
    assert (SZ : size s = 1) by (unfold size; rewrite EN; reflexivity).
    destruct (p2_cur st) as [[lc blk]|] eqn:ECU; destruct c as [[o a]|] eqn:EC; try contradiction.
    + destruct CU as [U1 [U2 [U3 [U4 [U5 [U6 U7]]]]]]. subst lc. pose proof (len_nonneg (ob_words blk)) as LNN.
      rewrite SZ in KIO. unfold asm.IO_START in *. 
      assert (A1 : a + 1 <= 65024) by (destruct (65024 <? a + 1) eqn:X; [discriminate KIO | lia]).
      assert (W : wrap16 (a + 1) = a + 1) by (unfold wrap16; rewrite Z.mod_small; lia).
      rewrite W. pose proof (into_sim_spec s i o a L bs EN R) as IS. cbn zeta in IS.
      destruct (into_sim_instr i (a + 1) L) as [sim|k sp|]; cbn [abind].
      * destruct IS as [-> [F1 [F2 [F3 F4]]]]. rewrite <- SZ.
        apply (I2_append bs pre s st o a a blk); try assumption.
        -- unfold snoc, stmt_words. rewrite EN. reflexivity.
        -- apply len_stmt_words. exact Ts.
        -- right. unfold asm.IO_START. lia.
        -- apply f_any_inside; assumption.
      * destruct IS as [_ [[-> F]|[[-> F]|[n [-> F]]]]]; cbn [violated].
        -- rewrite v_not_found_f. apply existsb_exists. exists (Some (o, a), s). split; assumption.
        -- rewrite v_external_f. apply existsb_exists. exists (Some (o, a), s). split; assumption.
        -- rewrite v_offset_f. apply existsb_exists. exists (Some (o, a), s). split; assumption.
      * exact IS.
    + cbn [violated]. rewrite v_undet_stmt_f. apply existsb_exists. exists (None, s). split; [exact K1|].
      unfold f_undet, needs_addr. cbn [fst snd]. rewrite EN. reflexivity.
  - destruct d as [a0|o1|n|t| |l].
    + (* .orig *)
      assert (IO : is_orig s = true) by (unfold is_orig; rewrite EN; reflexivity).
      rewrite IO, andb_true_r in KN.
      destruct c as [[o a]|] eqn:EC; [discriminate KN|].
      destruct (p2_cur st) as [[lc blk]|] eqn:ECU; [contradiction|].
      apply I2_orig; try assumption. unfold typed_stmt in Ts. rewrite EN in Ts. lia.
    + (* .fill *)
      assert (NO : is_orig s = false) by (unfold is_orig; rewrite EN; reflexivity).
      assert (NE : is_end s = false) by (unfold is_end; rewrite EN; reflexivity).
      assert (NA : needs_addr s = true) by (unfold needs_addr; rewrite EN; reflexivity).
      assert (SZ : size s = 1) by (unfold size; rewrite EN; reflexivity).
      destruct (p2_cur st) as [[lc blk]|] eqn:ECU; destruct c as [[o a]|] eqn:EC; try contradiction.
      * destruct CU as [U1 [U2 [U3 [U4 [U5 [U6 U7]]]]]]. subst lc. pose proof (len_nonneg (ob_words blk)) as LNN.
        rewrite SZ in KIO. unfold asm.IO_START in *.
        assert (A1 : a + 1 <= 65024) by (destruct (65024 <? a + 1) eqn:X; [discriminate KIO | lia]).
        cbn [word_len].
        pose proof (write_directive_spec s _ o a (ob_words blk) L bs EN NA R) as WS. cbn zeta in WS.
        destruct (write_directive (ob_words blk) (DFill o1) L) as [w'|k sp|]; cbn [abind].
        -- destruct WS as [-> F1]. destruct (dir_no_pcrel bs (Some (o, a)) s _ 9 EN) as [F2 F3].
           destruct (dir_no_pcrel bs (Some (o, a)) s _ 11 EN) as [_ F4].
           assert (W : wrap16 (a + 1) = a + 1) by (unfold wrap16; rewrite Z.mod_small; lia).
           rewrite W, <- SZ. apply (I2_append bs pre s st o a a blk); try assumption.
           ++ reflexivity.
           ++ apply len_stmt_words. exact Ts.
           ++ right. unfold asm.IO_START. lia.
           ++ apply f_any_inside; assumption.
        -- destruct WS as [-> [F _]]. cbn [violated]. rewrite v_not_found_f. apply existsb_exists. exists (Some (o, a), s). split; assumption.
        -- exact WS.
      * cbn [violated]. rewrite v_undet_stmt_f. apply existsb_exists. exists (None, s). split; [exact K1|].
        unfold f_undet. cbn [fst snd inside negb andb]. exact NA.
    + (* .blkw *)
      assert (NO : is_orig s = false) by (unfold is_orig; rewrite EN; reflexivity).
      assert (NE : is_end s = false) by (unfold is_end; rewrite EN; reflexivity).
      assert (NA : needs_addr s = true) by (unfold needs_addr; rewrite EN; reflexivity).
      assert (SZ : size s = n) by (unfold size; rewrite EN; reflexivity).
      destruct (p2_cur st) as [[lc blk]|] eqn:ECU; destruct c as [[o a]|] eqn:EC; try contradiction.
      * destruct CU as [U1 [U2 [U3 [U4 [U5 [U6 U7]]]]]]. subst lc. pose proof (len_nonneg (ob_words blk)) as LNN.
        cbn [word_len].
        pose proof (write_directive_spec s _ o a (ob_words blk) L bs EN NA R) as WS. cbn zeta in WS.
        destruct (write_directive (ob_words blk) (DBlkw n) L) as [w'|k sp|]; cbn [abind].
        -- destruct WS as [-> F1]. destruct (dir_no_pcrel bs (Some (o, a)) s _ 9 EN) as [F2 F3].
           destruct (dir_no_pcrel bs (Some (o, a)) s _ 11 EN) as [_ F4].
           unfold asm.IO_START in *.
           assert (B : a + n = o \/ a + n <= 65024).
           { rewrite SZ in KIO. destruct (0 <? n) eqn:X0; [|lia]. destruct (65024 <? a + n) eqn:X; [discriminate KIO | lia]. }
           assert (W : wrap16 (a + n) = a + n) by (unfold wrap16; rewrite Z.mod_small; lia).
           rewrite W, <- SZ. apply (I2_append bs pre s st o a a blk); try assumption.
           ++ reflexivity.
           ++ apply len_stmt_words. exact Ts.
           ++ rewrite SZ. exact B.
           ++ apply f_any_inside; assumption.
        -- destruct WS as [-> [F _]]. cbn [violated]. rewrite v_not_found_f. apply existsb_exists. exists (Some (o, a), s). split; assumption.
        -- exact WS.
      * cbn [violated]. rewrite v_undet_stmt_f. apply existsb_exists. exists (None, s). split; [exact K1|].
        unfold f_undet. cbn [fst snd inside negb andb]. exact NA.
    + (* .stringz *)
      assert (NO : is_orig s = false) by (unfold is_orig; rewrite EN; reflexivity).
      assert (NE : is_end s = false) by (unfold is_end; rewrite EN; reflexivity).
      assert (NA : needs_addr s = true) by (unfold needs_addr; rewrite EN; reflexivity).
      pose proof (stmt_len_size s Ts) as SL. rewrite EN in SL. cbn [stmt_len] in SL.
      destruct (p2_cur st) as [[lc blk]|] eqn:ECU; destruct c as [[o a]|] eqn:EC; try contradiction.
      * destruct CU as [U1 [U2 [U3 [U4 [U5 [U6 U7]]]]]]. subst lc. pose proof (len_nonneg (ob_words blk)) as LNN.
        rewrite SL.
        pose proof (write_directive_spec s _ o a (ob_words blk) L bs EN NA R) as WS. cbn zeta in WS.
        destruct (write_directive (ob_words blk) (DStringz t) L) as [w'|k sp|]; cbn [abind].
        -- destruct WS as [-> F1]. destruct (dir_no_pcrel bs (Some (o, a)) s _ 9 EN) as [F2 F3].
           destruct (dir_no_pcrel bs (Some (o, a)) s _ 11 EN) as [_ F4].
           unfold asm.IO_START in *.
           assert (B : a + size s = o \/ a + size s <= 65024).
           { destruct (0 <? size s) eqn:X0; [|lia]. destruct (65024 <? a + size s) eqn:X; [discriminate KIO | lia]. }
           assert (W : wrap16 (a + size s) = a + size s) by (unfold wrap16; rewrite Z.mod_small; lia).
           rewrite W. apply (I2_append bs pre s st o a a blk); try assumption.
           ++ reflexivity.
           ++ apply len_stmt_words. exact Ts.
           ++ apply f_any_inside; assumption.
        -- destruct WS as [-> [F _]]. cbn [violated]. rewrite v_not_found_f. apply existsb_exists. exists (Some (o, a), s). split; assumption.
        -- exact WS.
      * cbn [violated]. rewrite v_undet_stmt_f. apply existsb_exists. exists (None, s). split; [exact K1|].
        unfold f_undet. cbn [fst snd inside negb andb]. exact NA.
    + (* .end *)
      assert (IE : is_end s = true) by (unfold is_end; rewrite EN; reflexivity).
      rewrite IE, andb_true_r in KU.
      destruct c as [[o a]|] eqn:EC; [|discriminate KU].
      destruct (p2_cur st) as [[lc blk]|] eqn:ECU; [|contradiction].
      pose proof (I2_end bs pre s st lc blk o a HI ECU EC EN) as IE2.
      destruct (ob_words blk) as [|w ws] eqn:EW; [exact IE2|].
      fold (neighbours blk (p2_map st)).
      destruct (find_overlap blk (neighbours blk (p2_map st))) as [[other|]|k sp|]; cbn [abind]; try exact IE2; try contradiction.
      destruct IE2 as [OV _]. cbn [violated].
      rewrite EP. replace (pre ++ s :: suf) with ((pre ++ [s]) ++ suf) by (rewrite <- app_assoc; reflexivity).
      apply v_overlap_mono. exact OV.
    + (* .external *)
      assert (NO : is_orig s = false) by (unfold is_orig; rewrite EN; reflexivity).
      assert (NE : is_end s = false) by (unfold is_end; rewrite EN; reflexivity).
      assert (FA : forall c', f_any bs (c', s) = false) by (intros c'; apply f_any_nonaddr; unfold needs_addr; rewrite EN; reflexivity).
      assert (SZ : size s = 0) by (unfold size; rewrite EN; reflexivity).
      destruct (p2_cur st) as [[lc blk]|] eqn:ECU; destruct c as [[o a]|] eqn:EC; try contradiction.
      * destruct CU as [U1 [U2 [U3 [U4 [U5 [U6 U7]]]]]]. subst lc. pose proof (len_nonneg (ob_words blk)) as LNN.
        pose proof (I2_append bs pre s st o a a blk (ob_words blk) HI ECU EC NO NE) as IA.
        assert (SW : stmt_words bs a s = []) by (unfold stmt_words; rewrite EN; reflexivity).
        rewrite SW, app_nil_r, SZ, Z.add_0_r in IA.
        assert (ST : st = mkP2 (p2_map st) (Some (a, mkOB (ob_start blk) (ob_words blk) (ob_span blk)))).
        { destruct st as [m cu]. cbn [p2_cur p2_map] in *. rewrite ECU. destruct blk. reflexivity. }
        rewrite ST. apply IA; try reflexivity.
        -- destruct U6 as [U6|U6]; [left|right]; lia.
        -- apply FA.
      * apply I2_skip; try assumption. apply FA.
Qed.

Lemma p2_loop_inv p L suf : forall pre st,
  p = pre ++ suf -> typed p = true -> P1ok p L -> I2 (bindings p) pre st ->
  match p2_loop L st suf with
  | AOk st' => I2 (bindings p) p st'
  | AErr k sp => violated p k = true
  | APanic => False
  end.
Proof.
  induction suf as [|s suf IH]; intros pre st EP T OK HI; cbn [p2_loop].
  - rewrite app_nil_r in EP. subst pre. exact HI.
  - pose proof (p2_step_inv p L pre s suf st EP T OK HI) as S.
    destruct (p2_step L st s) as [st1|k sp|]; cbn [abind]; try exact S.
    apply (IH (pre ++ [s]) st1); try assumption. rewrite <- app_assoc. exact EP.
Qed.

Lemma I2_init bs : I2 bs [] (mkP2 [] None).
Proof.
  constructor.
  - exact Logic.I.
  - split; [constructor|]. split; intros; contradiction.
  - apply Permutation_refl.
  - reflexivity.
  - reflexivity.
  - reflexivity.
  - reflexivity.
  - intros k b [].
Qed.

(* what a successful pass 2 establishes *)
Lemma pass2_spec p L rel dbg debug : typed p = true -> P1ok p L ->
  match pass2 p (mkSymtab L rel dbg) debug with
  | AOk o => exists st, I2 (bindings p) p st /\ p2_cur st = None /\
                        o_blocks o = map (fun kb => (fst kb, ob_words (snd kb))) (p2_map st)
  | AErr k sp => violated p k = true
  | APanic => False
  end.
Proof.
  intros T OK. unfold pass2. cbn [st_labels].
  pose proof (p2_loop_inv p L p [] (mkP2 [] None) eq_refl T OK (I2_init _)) as S.
  destruct (p2_loop L (mkP2 [] None) p) as [st|k sp|]; cbn [abind]; try exact S.
  exists st. split; [exact S|]. split; [|reflexivity].
  pose proof (i2_cur _ _ _ S) as CU. unfold cur2_rel in CU. rewrite (ok_closed _ _ OK) in CU.
  destruct (p2_cur st) as [[lc blk]|]; [contradiction|reflexivity].
Qed.
