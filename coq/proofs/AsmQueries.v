(* AsmQueries.v — C23: the label queries of the symbol table against the positional bindings. *)
From Coq Require Import ZArith List Bool Lia Permutation.
From Model Require Import Tree Text Bits Instr Offset AsmAst Obj SourceInfo Assembler.
From Spec Require Import LayoutSpec WfSpec.
From Proofs Require Import AsmBase AsmPass1 AsmDebug AsmThms.
Import ListNotations.
Open Scope Z_scope.

(* every label occurrence of a program that binds a name: labels standing on statements inside
   a block and the operands of .external, in program order *)
Definition occ_of (cs : pos * stmt) : list label :=
  (match fst cs with Some _ => s_labels (snd cs) | None => [] end)
  ++ match s_nucleus (snd cs) with NDir (DExternal l) => [l] | _ => [] end.
Definition occurrences (p : list stmt) : list label := flat_map occ_of (placed p).

Lemma lookup_case n1 n2 bs : upper n1 = upper n2 -> lookup n1 bs = lookup n2 bs.
Proof. unfold lookup. intros ->. reflexivity. Qed.

(* the symbol table of a successful pass 1 represents the first bindings, with unique keys *)
Lemma pass1_rep src p sym : typed p = true -> pass1 p src = AOk sym -> labels_rep (st_labels sym) (bindings p).
Proof.
  intros T E. pose proof (pass1_nodebug p T) as P.
  destruct src as [text|].
  - pose proof (pass1_dbg text p) as D. destruct (pass1 p None) as [sym0|k sp|].
    + destruct D as [D|[m D]]; [congruence|]. rewrite D in E. injection E as <-. cbn [st_labels]. exact (ok_rep _ _ (proj1 P)).
    + destruct D as [D|D]; congruence.
    + congruence.
  - rewrite E in P. exact (ok_rep _ _ (proj1 P)).
Qed.

Theorem lookup_spec src p sym : typed p = true -> pass1 p src = AOk sym ->
  forall name, lookup_label sym name = option_map b_addr (spec_label p name).
Proof.
  intros T E name. unfold lookup_label, lookup_label_map. rewrite (labels_spec src p sym T E name).
  destruct (spec_label p name); reflexivity.
Qed.

Theorem lookup_ignores_case (sym : symtab) n1 n2 : upper n1 = upper n2 ->
  lookup_label sym n1 = lookup_label sym n2 /\ option_map fst (get_label_source sym n1) = option_map fst (get_label_source sym n2).
Proof. intros E. unfold lookup_label, lookup_label_map, get_label_source. rewrite E. split; [reflexivity|]. destruct (assoc (upper n2) (st_labels sym)); reflexivity. Qed.

(* a binding comes from a label occurrence with that name (ignoring case) and that source offset *)
Lemma binding_occurrence p b : In b (bindings p) ->
  exists l, In l (occurrences p) /\ b_name b = upper (l_name l) /\ b_src b = l_start l.
Proof.
  unfold bindings, occurrences. intros H. apply in_flat_map in H. destruct H as [[c s] [Hc Hb]].
  unfold binds_of in Hb. cbn [fst snd] in Hb. apply in_app_or in Hb. destruct Hb as [Hb|Hb].
  - destruct c as [[o a]|]; [|contradiction]. apply in_map_iff in Hb. destruct Hb as [l [<- Hl]].
    exists l. split; [|split; reflexivity]. apply in_flat_map. exists (Some (o, a), s). split; [exact Hc|].
    unfold occ_of. cbn [fst snd]. apply in_or_app. left. exact Hl.
  - destruct (s_nucleus s) as [i|[a0|o0|n|t| |l]] eqn:EN; try contradiction. destruct Hb as [<-|[]].
    exists l. split; [|split; reflexivity]. apply in_flat_map. exists (c, s). split; [exact Hc|].
    unfold occ_of. cbn [fst snd]. rewrite EN. apply in_or_app. right. left. reflexivity.
Qed.

Theorem source_spec src p sym : typed p = true -> pass1 p src = AOk sym ->
  forall name,
    get_label_source sym name = option_map (fun b => (b_src b, b_src b + byte_len name)) (spec_label p name)
    /\ (forall b, spec_label p name = Some b ->
          exists l, In l (occurrences p) /\ upper (l_name l) = upper name /\ get_label_source sym name = Some (label_span l)).
Proof.
  intros T E name. unfold get_label_source. rewrite (labels_spec src p sym T E name). split.
  - destruct (spec_label p name); reflexivity.
  - intros b EB. rewrite EB. cbn [option_map sym_of sd_src_start].
    unfold spec_label, lookup in EB. apply find_named_some in EB. destruct EB as [Hb Hn].
    destruct (binding_occurrence p b Hb) as [l [Hl [N1 N2]]]. exists l. split; [exact Hl|]. split; [congruence|].
    unfold label_span. rewrite N2. do 2 f_equal.
    rewrite <- (byte_len_upper name), <- Hn, N1, byte_len_upper. reflexivity.
Qed.

Theorem absent_spec src p sym : typed p = true -> pass1 p src = AOk sym ->
  forall name, spec_label p name = None -> lookup_label sym name = None /\ get_label_source sym name = None.
Proof.
  intros T E name N. rewrite (lookup_spec src p sym T E name). destruct (source_spec src p sym T E name) as [S _].
  rewrite S, N. split; reflexivity.
Qed.

(* the listing: exactly the first binding of every bound name, once *)
Theorem listing_spec src p sym : typed p = true -> pass1 p src = AOk sym ->
  NoDup (map (fun x => fst (fst x)) (label_iter sym)) /\
  forall k a e, In (k, a, e) (label_iter sym) <->
                exists b, find (named k) (bindings p) = Some b /\ a = b_addr b /\ e = b_ext b.
Proof.
  intros T E. destruct (pass1_rep src p sym T E) as [ND R]. unfold label_iter. split.
  - rewrite map_map. cbn [fst]. exact ND.
  - intros k a e. split.
    + intros H. apply in_map_iff in H. destruct H as [[k' d] [Hx Hd]]. cbn [fst snd] in Hx. injection Hx as -> <- <-.
      pose proof (in_assoc_nodup k d _ ND Hd) as A. rewrite R in A.
      destruct (find (named k) (bindings p)) as [b|]; [|discriminate]. cbn in A. injection A as <-. exists b. repeat split.
    + intros [b [F [-> ->]]]. pose proof (R k) as A. rewrite F in A. cbn in A. apply assoc_in in A.
      apply in_map_iff. exists (k, sym_of b). split; [reflexivity|exact A].
Qed.

(* the reverse lookup, for any iteration order of the hash map *)
Theorem rev_spec src p sym : typed p = true -> pass1 p src = AOk sym ->
  forall L' rel dbg a, Permutation L' (st_labels sym) ->
    (forall n, rev_lookup_label (mkSymtab L' rel dbg) a = Some n ->
       exists b, find (named n) (bindings p) = Some b /\ b_addr b = a)
    /\ ((exists name b, spec_label p name = Some b /\ b_addr b = a) -> rev_lookup_label (mkSymtab L' rel dbg) a <> None).
Proof.
  intros T E L' rel dbg a P. destruct (pass1_rep src p sym T E) as [ND R]. unfold rev_lookup_label. cbn [st_labels]. split.
  - intros n H. destruct (find (fun kv => sd_addr (snd kv) =? a) L') as [[k d]|] eqn:F; [|discriminate]. cbn in H. injection H as ->.
    apply find_some in F. destruct F as [F1 F2]. cbn in F2. apply Z.eqb_eq in F2.
    apply (Permutation_in _ P) in F1. pose proof (in_assoc_nodup n d _ ND F1) as A. rewrite R in A.
    destruct (find (named n) (bindings p)) as [b|]; [|discriminate]. cbn in A. injection A as <-. exists b. split; [reflexivity|exact F2].
  - intros [name [b [EB Ea]]] H. destruct (find (fun kv => sd_addr (snd kv) =? a) L') eqn:F; [discriminate|].
    pose proof (R (upper name)) as A. unfold spec_label, lookup in EB. rewrite EB in A. cbn in A. apply assoc_in in A.
    apply (Permutation_in _ (Permutation_sym P)) in A. pose proof (find_none _ _ F _ A) as X. cbn in X. apply Z.eqb_neq in X. congruence.
Qed.
