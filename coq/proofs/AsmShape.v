(* AsmShape.v — the assembler looks neither at source positions nor at the letter case of labels.
   [canon_stmt] erases every position (statement span, label offsets) and upper-cases every label
   name (ASCII).  [assemble_canon]: a program and its canonical form are both rejected with the
   same error kind, or both accepted with the same blocks and the same label table up to source
   offsets.  Hence any two programs with the same canonical form — in particular the same
   [shape_stmt]s (lexparse: positions erased, names kept) — assemble alike.  Proved directly on
   the two passes by a simulation between the two runs. *)
From Coq Require Import ZArith List Bool Lia.
From Gen Require Import Constants.
From Model Require Import Tree Text Bits Instr Offset AsmAst Obj SourceInfo Assembler.
From Spec Require Import LayoutSpec WfSpec.
From Proofs Require Import AsmBase AsmPass1 PrintParseProofs.
Import ListNotations.
Open Scope Z_scope.

Definition canon_label (l : label) : label := mkLabel (upper (l_name l)) 0.
Definition canon_pcoff (o : pcoff) : pcoff := match o with POff v => POff v | PLab l => PLab (canon_label l) end.
Definition canon_instr (i : asm_instr) : asm_instr :=
  match i with
  | ABR cc o => ABR cc (canon_pcoff o) | AJSR o => AJSR (canon_pcoff o)
  | ALD r o => ALD r (canon_pcoff o) | ALDI r o => ALDI r (canon_pcoff o) | ALEA r o => ALEA r (canon_pcoff o)
  | AST r o => AST r (canon_pcoff o) | ASTI r o => ASTI r (canon_pcoff o) | ANOP o => ANOP (canon_pcoff o)
  | _ => i
  end.
Definition canon_directive (d : directive) : directive :=
  match d with DFill o => DFill (canon_pcoff o) | DExternal l => DExternal (canon_label l) | _ => d end.
Definition canon_nucleus (n : nucleus) : nucleus :=
  match n with NInstr i => NInstr (canon_instr i) | NDir d => NDir (canon_directive d) end.
Definition canon_stmt (s : stmt) : stmt :=
  mkStmt (map canon_label (s_labels s)) (canon_nucleus (s_nucleus s)) 0 0.

Lemma canon_label_shape l : canon_label (shape_label l) = canon_label l.
Proof. reflexivity. Qed.
Lemma canon_stmt_shape s : canon_stmt (shape_stmt s) = canon_stmt s.
Proof.
  unfold canon_stmt, shape_stmt. cbn [s_labels s_nucleus]. rewrite map_map. f_equal.
  destruct (s_nucleus s) as [i|d]; cbn [shape_nucleus canon_nucleus].
  - f_equal. destruct i; try reflexivity; destruct o; reflexivity.
  - f_equal. destruct d as [a|o|n|t| |l]; try reflexivity. destruct o; reflexivity.
Qed.
Lemma canon_of_shape l1 l2 : map shape_stmt l1 = map shape_stmt l2 -> map canon_stmt l1 = map canon_stmt l2.
Proof.
  intros H. assert (E : forall l, map canon_stmt l = map canon_stmt (map shape_stmt l)).
  { intros l. rewrite map_map. apply map_ext. intros s. symmetry. apply canon_stmt_shape. }
  rewrite (E l1), (E l2), H. reflexivity.
Qed.

(* ---------- what the two runs share ---------- *)
Definition core (kd : str * symdata) : str * Z * bool := (fst kd, sd_addr (snd kd), sd_external (snd kd)).
Definition lm_rel (L L' : labmap) : Prop := map core L = map core L'.

Lemma lm_rel_assoc L L' k : lm_rel L L' ->
  match assoc k L, assoc k L' with
  | Some d, Some d' => sd_addr d = sd_addr d' /\ sd_external d = sd_external d'
  | None, None => True
  | _, _ => False
  end.
Proof.
  unfold lm_rel. revert L'. induction L as [|[k0 d0] L IH]; intros [|[k1 d1] L'] H; cbn [map] in H; try discriminate; [exact Logic.I|].
  injection H as E1 E2 E3 H. cbn [fst snd] in *. subst k1. cbn [assoc]. destruct (str_eqb k k0); [split; assumption | apply IH; exact H].
Qed.
Lemma lm_rel_snoc L L' k d d' : lm_rel L L' -> sd_addr d = sd_addr d' -> sd_external d = sd_external d' ->
  lm_rel (L ++ [(k, d)]) (L' ++ [(k, d')]).
Proof. unfold lm_rel. intros H E1 E2. rewrite !map_app, H. unfold core at 2 4. cbn [map fst snd]. rewrite E1, E2. reflexivity. Qed.

(* results up to spans / source offsets *)
Definition rr {A B} (R : A -> B -> Prop) (r : ares A) (r' : ares B) : Prop :=
  match r, r' with
  | AOk a, AOk b => R a b
  | AErr k _, AErr k' _ => k = k'
  | APanic, APanic => True
  | _, _ => False
  end.

Lemma add_label_sim L L' l addr ext : lm_rel L L' ->
  rr lm_rel (add_label L l addr ext) (add_label L' (canon_label l) addr ext).
Proof.
  intros H. unfold add_label. cbn [canon_label l_name l_start]. rewrite upper_idem.
  pose proof (lm_rel_assoc L L' (upper (l_name l)) H) as A.
  destruct (assoc (upper (l_name l)) L) as [d|]; destruct (assoc (upper (l_name l)) L') as [d'|]; try contradiction.
  - destruct A as [A1 A2]. rewrite <- A1. destruct (sd_addr d =? addr); [exact H | reflexivity].
  - cbn [rr]. apply lm_rel_snoc; [exact H | reflexivity | reflexivity].
Qed.
Lemma add_labels_sim ls : forall L L' addr, lm_rel L L' ->
  rr lm_rel (add_labels L ls addr) (add_labels L' (map canon_label ls) addr).
Proof.
  induction ls as [|l ls IH]; intros L L' addr H; cbn [add_labels map]; [exact H|].
  pose proof (add_label_sim L L' l addr false H) as S.
  destruct (add_label L l addr false) as [L1|k sp|]; destruct (add_label L' (canon_label l) addr false) as [L1'|k' sp'|]; cbn [rr abind] in *; try contradiction; try exact S.
  apply IH. exact S.
Qed.

(* ---------- pass 1 ---------- *)
Definition cur_sim (c c' : option cursor) : Prop :=
  match c, c' with
  | None, None => True
  | Some a, Some b => c_lc a = c_lc b /\ c_ovf a = c_ovf b
  | _, _ => False
  end.
Definition p1_sim (st st' : p1) : Prop :=
  cur_sim (p1_cur st) (p1_cur st') /\ lm_rel (p1_labels st) (p1_labels st') /\ p1_rel st = p1_rel st'
  /\ p1_lines st = None /\ p1_lines st' = None.

Lemma shift_sim c c' n : c_lc c = c_lc c' -> c_ovf c = c_ovf c' ->
  match shift c n, shift c' n with
  | SOk a, SOk b => c_lc a = c_lc b /\ c_ovf a = c_ovf b
  | SErr k, SErr k' => k = k'
  | _, _ => False
  end.
Proof.
  intros E1 E2. unfold shift. rewrite <- E1, <- E2. destruct (n =? 0); [split; assumption|].
  destruct (c_ovf c); [reflexivity|]. destruct (c_lc c + n <? 65536).
  - destruct (c_lc c + n >? asm.IO_START); [reflexivity | split; reflexivity].
  - destruct (c_lc c =? wrap16 (- n)); reflexivity.
Qed.

Lemma stmt_len_canon n : stmt_len (canon_nucleus n) = stmt_len n.
Proof. destruct n as [i|d]; [reflexivity|]. destruct d as [a|o|m|t| |l]; reflexivity. Qed.

Lemma p1_step_sim st st' s : p1_sim st st' ->
  rr p1_sim (p1_step None st s) (p1_step None st' (canon_stmt s)).
Proof.
  intros [HC [HL [HR [N1 N2]]]]. unfold p1_step. cbn [canon_stmt s_labels s_nucleus s_start s_end stmt_span].
  rewrite N1, N2, <- HR.
  (* phase 1 *)
  assert (PA : rr lm_rel
            (match s_labels s with [] => AOk (p1_labels st) | _ => match p1_cur st with None => AErr UndetAddrLabel (map label_span (s_labels s)) | Some cur => add_labels (p1_labels st) (s_labels s) (c_lc cur) end end)
            (match map canon_label (s_labels s) with [] => AOk (p1_labels st') | _ => match p1_cur st' with None => AErr UndetAddrLabel (map label_span (map canon_label (s_labels s))) | Some cur => add_labels (p1_labels st') (map canon_label (s_labels s)) (c_lc cur) end end)).
  { destruct (s_labels s) as [|l ls] eqn:EL; [exact HL|]. cbn [map]. unfold cur_sim in HC.
    destruct (p1_cur st) as [cu|]; destruct (p1_cur st') as [cu'|]; try contradiction; [|reflexivity].
    destruct HC as [E _]. rewrite <- E. apply (add_labels_sim (l :: ls)). exact HL. }
  destruct (match s_labels s with [] => AOk (p1_labels st) | _ => _ end) as [L1|k sp|];
    destruct (match map canon_label (s_labels s) with [] => AOk (p1_labels st') | _ => _ end) as [L1'|k' sp'|];
    cbn [rr abind] in *; try contradiction; try exact PA.
  (* phase 3 for related outcomes of phase 2 *)
  assert (TAIL : forall nuc cur2 cur2' L2 L2' rel2 sp sp',
            cur_sim cur2 cur2' -> lm_rel L2 L2' ->
            rr p1_sim
              (match cur2 with
               | None => AOk (mkP1 None L2 rel2 None)
               | Some cur => abind (AOk (@None (list (option Z)))) (fun lines2 =>
                   match stmt_len nuc with
                   | WLPanic => APanic
                   | WL n => match shift cur n with SOk cur' => AOk (mkP1 (Some cur') L2 rel2 lines2) | SErr k => AErr k [sp] end
                   end)
               end)
              (match cur2' with
               | None => AOk (mkP1 None L2' rel2 None)
               | Some cur => abind (AOk (@None (list (option Z)))) (fun lines2 =>
                   match stmt_len (canon_nucleus nuc) with
                   | WLPanic => APanic
                   | WL n => match shift cur n with SOk cur' => AOk (mkP1 (Some cur') L2' rel2 lines2) | SErr k => AErr k [sp'] end
                   end)
               end)).
  { intros nuc cur2 cur2' L2 L2' rel2 sp sp' C2 H2. rewrite stmt_len_canon. unfold cur_sim in C2.
    destruct cur2 as [cu|]; destruct cur2' as [cu'|]; try contradiction; cbn [abind].
    - destruct C2 as [E1 E2]. destruct (stmt_len nuc) as [n|]; [|exact Logic.I].
      pose proof (shift_sim cu cu' n E1 E2) as SS. destruct (shift cu n); destruct (shift cu' n); try contradiction; [|exact SS].
      destruct SS as [S1 S2]. split; [split; assumption|]. split; [exact H2|]. repeat split.
    - split; [exact Logic.I|]. split; [exact H2|]. repeat split. }
  set (sp0 := (s_start s, s_end s)).
  destruct (s_nucleus s) as [i|[a|[v|l]|n|t| |l]] eqn:EN; cbn [canon_nucleus canon_instr canon_directive canon_pcoff].
  - exact (TAIL (NInstr i) (p1_cur st) (p1_cur st') L1 L1' (p1_rel st) sp0 (0, 0) HC PA).
  - unfold cur_sim in HC. destruct (p1_cur st) as [cu|]; destruct (p1_cur st') as [cu'|]; try contradiction; [reflexivity|].
    refine (TAIL (NDir (DOrig a)) (Some (mkCur a false sp0)) (Some (mkCur a false (0, 0))) L1 L1' (p1_rel st) sp0 (0, 0) _ PA). split; reflexivity.
  - exact (TAIL (NDir (DFill (POff v))) (p1_cur st) (p1_cur st') L1 L1' (p1_rel st) sp0 (0, 0) HC PA).
  - cbn zeta. cbn [canon_label l_name]. rewrite upper_idem. unfold cur_sim in HC.
    destruct (p1_cur st) as [cu|] eqn:EC; destruct (p1_cur st') as [cu'|] eqn:EC'; try contradiction.
    + destruct HC as [E1 E2]. rewrite <- E1.
      refine (TAIL (NDir (DFill (PLab l))) (Some cu) (Some cu') L1 L1' _ sp0 (0, 0) _ PA). split; assumption.
    + pose proof (lm_rel_assoc L1 L1' (upper (l_name l)) PA) as A.
      destruct (assoc (upper (l_name l)) L1) as [d|]; destruct (assoc (upper (l_name l)) L1') as [d'|]; try contradiction.
      * destruct A as [_ A2]. rewrite <- A2. destruct (sd_external d); [reflexivity|].
        exact (TAIL (NDir (DFill (PLab l))) None None L1 L1' (p1_rel st) sp0 (0, 0) Logic.I PA).
      * exact (TAIL (NDir (DFill (PLab l))) None None L1 L1' (p1_rel st) sp0 (0, 0) Logic.I PA).
  - exact (TAIL (NDir (DBlkw n)) (p1_cur st) (p1_cur st') L1 L1' (p1_rel st) sp0 (0, 0) HC PA).
  - exact (TAIL (NDir (DStringz t)) (p1_cur st) (p1_cur st') L1 L1' (p1_rel st) sp0 (0, 0) HC PA).
  - unfold cur_sim in HC. destruct (p1_cur st) as [cu|]; destruct (p1_cur st') as [cu'|]; try contradiction; [|reflexivity].
    exact (TAIL (NDir DEnd) None None L1 L1' (p1_rel st) sp0 (0, 0) Logic.I PA).
  - pose proof (add_label_sim L1 L1' l 0 true PA) as S.
    destruct (add_label L1 l 0 true) as [L2|k sp|]; destruct (add_label L1' (canon_label l) 0 true) as [L2'|k' sp'|]; cbn [rr abind] in *; try contradiction; try exact S.
    exact (TAIL (NDir (DExternal l)) (p1_cur st) (p1_cur st') L2 L2' (p1_rel st) sp0 (0, 0) HC S).
Qed.
