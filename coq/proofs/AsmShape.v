(* AsmShape.v — the assembler looks neither at source positions nor at the letter case of labels.
   [canon_stmt] erases every position (statement span, label offsets) and upper-cases every label
   name (ASCII).  [assemble_canon]: a program and its canonical form are both rejected with the
   same error kind, or both accepted with the same blocks and the same label table up to source
   offsets.  Hence any two programs with the same canonical form — in particular the same
   [shape_stmt]s (lexparse: positions erased, names kept) — assemble alike.  Proved directly on
   the two passes by a simulation between the two runs. *)
From Coq Require Import ZArith List Bool Lia.
From Gen Require Import Constants.
From Model Require Import Tree Text Bits Instr Offset AsmAst Obj SourceInfo Assembler.
From Spec Require Import LayoutSpec WfSpec.
From Proofs Require Import AsmBase AsmPass1 PrintParseProofs.
Import ListNotations.
Open Scope Z_scope.

Definition canon_label (l : label) : label := mkLabel (upper (l_name l)) 0.
Definition canon_pcoff (o : pcoff) : pcoff := match o with POff v => POff v | PLab l => PLab (canon_label l) end.
Definition canon_instr (i : asm_instr) : asm_instr :=
  match i with
  | ABR cc o => ABR cc (canon_pcoff o) | AJSR o => AJSR (canon_pcoff o)
  | ALD r o => ALD r (canon_pcoff o) | ALDI r o => ALDI r (canon_pcoff o) | ALEA r o => ALEA r (canon_pcoff o)
  | AST r o => AST r (canon_pcoff o) | ASTI r o => ASTI r (canon_pcoff o) | ANOP o => ANOP (canon_pcoff o)
  | _ => i
  end.
Definition canon_directive (d : directive) : directive :=
  match d with DFill o => DFill (canon_pcoff o) | DExternal l => DExternal (canon_label l) | _ => d end.
Definition canon_nucleus (n : nucleus) : nucleus :=
  match n with NInstr i => NInstr (canon_instr i) | NDir d => NDir (canon_directive d) end.
Definition canon_stmt (s : stmt) : stmt :=
  mkStmt (map canon_label (s_labels s)) (canon_nucleus (s_nucleus s)) 0 0.

Lemma canon_label_shape l : canon_label (shape_label l) = canon_label l.
Proof. reflexivity. Qed.
Lemma canon_stmt_shape s : canon_stmt (shape_stmt s) = canon_stmt s.
Proof.
  unfold canon_stmt, shape_stmt. cbn [s_labels s_nucleus]. rewrite map_map. f_equal.
  destruct (s_nucleus s) as [i|d]; cbn [shape_nucleus canon_nucleus].
  - f_equal. destruct i; try reflexivity; destruct o; reflexivity.
  - f_equal. destruct d as [a|o|n|t| |l]; try reflexivity. destruct o; reflexivity.
Qed.
Lemma canon_of_shape l1 l2 : map shape_stmt l1 = map shape_stmt l2 -> map canon_stmt l1 = map canon_stmt l2.
Proof.
  intros H. assert (E : forall l, map canon_stmt l = map canon_stmt (map shape_stmt l)).
  { intros l. rewrite map_map. apply map_ext. intros s. symmetry. apply canon_stmt_shape. }
  rewrite (E l1), (E l2), H. reflexivity.
Qed.

(* ---------- what the two runs share ---------- *)
Definition core (kd : str * symdata) : str * Z * bool := (fst kd, sd_addr (snd kd), sd_external (snd kd)).
Definition lm_rel (L L' : labmap) : Prop := map core L = map core L'.

Lemma lm_rel_assoc L L' k : lm_rel L L' ->
  match assoc k L, assoc k L' with
  | Some d, Some d' => sd_addr d = sd_addr d' /\ sd_external d = sd_external d'
  | None, None => True
  | _, _ => False
  end.
Proof.
  unfold lm_rel. revert L'. induction L as [|[k0 d0] L IH]; intros [|[k1 d1] L'] H; cbn [map] in H; try discriminate; [exact Logic.I|].
  injection H as E1 E2 E3 H. cbn [fst snd] in *. subst k1. cbn [assoc]. destruct (str_eqb k k0); [split; assumption | apply IH; exact H].
Qed.
Lemma lm_rel_snoc L L' k d d' : lm_rel L L' -> sd_addr d = sd_addr d' -> sd_external d = sd_external d' ->
  lm_rel (L ++ [(k, d)]) (L' ++ [(k, d')]).
Proof. unfold lm_rel. intros H E1 E2. rewrite !map_app, H. unfold core at 2 4. cbn [map fst snd]. rewrite E1, E2. reflexivity. Qed.

(* results up to spans / source offsets *)
Definition rr {A B} (R : A -> B -> Prop) (r : ares A) (r' : ares B) : Prop :=
  match r, r' with
  | AOk a, AOk b => R a b
  | AErr k _, AErr k' _ => k = k'
  | APanic, APanic => True
  | _, _ => False
  end.

Lemma add_label_sim L L' l addr ext : lm_rel L L' ->
  rr lm_rel (add_label L l addr ext) (add_label L' (canon_label l) addr ext).
Proof.
  intros H. unfold add_label. cbn [canon_label l_name l_start]. rewrite upper_idem.
  pose proof (lm_rel_assoc L L' (upper (l_name l)) H) as A.
  destruct (assoc (upper (l_name l)) L) as [d|]; destruct (assoc (upper (l_name l)) L') as [d'|]; try contradiction.
  - destruct A as [A1 A2]. rewrite <- A1. destruct (sd_addr d =? addr); [exact H | reflexivity].
  - cbn [rr]. apply lm_rel_snoc; [exact H | reflexivity | reflexivity].
Qed.
Lemma add_labels_sim ls : forall L L' addr, lm_rel L L' ->
  rr lm_rel (add_labels L ls addr) (add_labels L' (map canon_label ls) addr).
Proof.
  induction ls as [|l ls IH]; intros L L' addr H; cbn [add_labels map]; [exact H|].
  pose proof (add_label_sim L L' l addr false H) as S.
  destruct (add_label L l addr false) as [L1|k sp|]; destruct (add_label L' (canon_label l) addr false) as [L1'|k' sp'|]; cbn [rr abind] in *; try contradiction; try exact S.
  apply IH. exact S.
Qed.

(* ---------- pass 1 ---------- *)
Definition cur_sim (c c' : option cursor) : Prop :=
  match c, c' with
  | None, None => True
  | Some a, Some b => c_lc a = c_lc b /\ c_ovf a = c_ovf b
  | _, _ => False
  end.
Definition p1_sim (st st' : p1) : Prop :=
  cur_sim (p1_cur st) (p1_cur st') /\ lm_rel (p1_labels st) (p1_labels st') /\ p1_rel st = p1_rel st'
  /\ p1_lines st = None /\ p1_lines st' = None.

Lemma shift_sim c c' n : c_lc c = c_lc c' -> c_ovf c = c_ovf c' ->
  match shift c n, shift c' n with
  | SOk a, SOk b => c_lc a = c_lc b /\ c_ovf a = c_ovf b
  | SErr k, SErr k' => k = k'
  | _, _ => False
  end.
Proof.
  intros E1 E2. unfold shift. rewrite <- E1, <- E2. destruct (n =? 0); [split; assumption|].
  destruct (c_ovf c); [reflexivity|]. destruct (c_lc c + n <? 65536).
  - destruct (c_lc c + n >? asm.IO_START); [reflexivity | split; reflexivity].
  - destruct (c_lc c =? wrap16 (- n)); reflexivity.
Qed.

Lemma stmt_len_canon n : stmt_len (canon_nucleus n) = stmt_len n.
Proof. destruct n as [i|d]; [reflexivity|]. destruct d as [a|o|m|t| |l]; reflexivity. Qed.

Lemma p1_step_sim st st' s : p1_sim st st' ->
  rr p1_sim (p1_step None st s) (p1_step None st' (canon_stmt s)).
Proof.
  intros [HC [HL [HR [N1 N2]]]]. unfold p1_step. cbn [canon_stmt s_labels s_nucleus s_start s_end stmt_span].
  rewrite N1, N2, <- HR.
  (* phase 1 *)
  assert (PA : rr lm_rel
            (match s_labels s with [] => AOk (p1_labels st) | _ => match p1_cur st with None => AErr UndetAddrLabel (map label_span (s_labels s)) | Some cur => add_labels (p1_labels st) (s_labels s) (c_lc cur) end end)
            (match map canon_label (s_labels s) with [] => AOk (p1_labels st') | _ => match p1_cur st' with None => AErr UndetAddrLabel (map label_span (map canon_label (s_labels s))) | Some cur => add_labels (p1_labels st') (map canon_label (s_labels s)) (c_lc cur) end end)).
  { destruct (s_labels s) as [|l ls] eqn:EL; [exact HL|]. cbn [map]. unfold cur_sim in HC.
    destruct (p1_cur st) as [cu|]; destruct (p1_cur st') as [cu'|]; try contradiction; [|reflexivity].
    destruct HC as [E _]. rewrite <- E. apply (add_labels_sim (l :: ls)). exact HL. }
  destruct (match s_labels s with [] => AOk (p1_labels st) | _ => _ end) as [L1|k sp|];
    destruct (match map canon_label (s_labels s) with [] => AOk (p1_labels st') | _ => _ end) as [L1'|k' sp'|];
    cbn [rr abind] in *; try contradiction; try exact PA.
  (* phase 3 for related outcomes of phase 2 *)
  assert (TAIL : forall nuc cur2 cur2' L2 L2' rel2 sp sp',
            cur_sim cur2 cur2' -> lm_rel L2 L2' ->
            rr p1_sim
              (match cur2 with
               | None => AOk (mkP1 None L2 rel2 None)
               | Some cur => abind (AOk (@None (list (option Z)))) (fun lines2 =>
                   match stmt_len nuc with
                   | WLPanic => APanic
                   | WL n => match shift cur n with SOk cur' => AOk (mkP1 (Some cur') L2 rel2 lines2) | SErr k => AErr k [sp] end
                   end)
               end)
              (match cur2' with
               | None => AOk (mkP1 None L2' rel2 None)
               | Some cur => abind (AOk (@None (list (option Z)))) (fun lines2 =>
                   match stmt_len (canon_nucleus nuc) with
                   | WLPanic => APanic
                   | WL n => match shift cur n with SOk cur' => AOk (mkP1 (Some cur') L2' rel2 lines2) | SErr k => AErr k [sp'] end
                   end)
               end)).
  { intros nuc cur2 cur2' L2 L2' rel2 sp sp' C2 H2. rewrite stmt_len_canon. unfold cur_sim in C2.
    destruct cur2 as [cu|]; destruct cur2' as [cu'|]; try contradiction; cbn [abind].
    - destruct C2 as [E1 E2]. destruct (stmt_len nuc) as [n|]; [|exact Logic.I].
      pose proof (shift_sim cu cu' n E1 E2) as SS. destruct (shift cu n); destruct (shift cu' n); try contradiction; [|exact SS].
      destruct SS as [S1 S2]. split; [split; assumption|]. split; [exact H2|]. repeat split.
    - split; [exact Logic.I|]. split; [exact H2|]. repeat split. }
  set (sp0 := (s_start s, s_end s)).
  destruct (s_nucleus s) as [i|[a|[v|l]|n|t| |l]] eqn:EN; cbn [canon_nucleus canon_instr canon_directive canon_pcoff].
  - exact (TAIL (NInstr i) (p1_cur st) (p1_cur st') L1 L1' (p1_rel st) sp0 (0, 0) HC PA).
  - unfold cur_sim in HC. destruct (p1_cur st) as [cu|]; destruct (p1_cur st') as [cu'|]; try contradiction; [reflexivity|].
    refine (TAIL (NDir (DOrig a)) (Some (mkCur a false sp0)) (Some (mkCur a false (0, 0))) L1 L1' (p1_rel st) sp0 (0, 0) _ PA). split; reflexivity.
  - exact (TAIL (NDir (DFill (POff v))) (p1_cur st) (p1_cur st') L1 L1' (p1_rel st) sp0 (0, 0) HC PA).
  - cbn zeta. cbn [canon_label l_name]. rewrite upper_idem. unfold cur_sim in HC.
    destruct (p1_cur st) as [cu|] eqn:EC; destruct (p1_cur st') as [cu'|] eqn:EC'; try contradiction.
    + destruct HC as [E1 E2]. rewrite <- E1.
      refine (TAIL (NDir (DFill (PLab l))) (Some cu) (Some cu') L1 L1' _ sp0 (0, 0) _ PA). split; assumption.
    + pose proof (lm_rel_assoc L1 L1' (upper (l_name l)) PA) as A.
      destruct (assoc (upper (l_name l)) L1) as [d|]; destruct (assoc (upper (l_name l)) L1') as [d'|]; try contradiction.
      * destruct A as [_ A2]. rewrite <- A2. destruct (sd_external d); [reflexivity|].
        exact (TAIL (NDir (DFill (PLab l))) None None L1 L1' (p1_rel st) sp0 (0, 0) Logic.I PA).
      * exact (TAIL (NDir (DFill (PLab l))) None None L1 L1' (p1_rel st) sp0 (0, 0) Logic.I PA).
  - exact (TAIL (NDir (DBlkw n)) (p1_cur st) (p1_cur st') L1 L1' (p1_rel st) sp0 (0, 0) HC PA).
  - exact (TAIL (NDir (DStringz t)) (p1_cur st) (p1_cur st') L1 L1' (p1_rel st) sp0 (0, 0) HC PA).
  - unfold cur_sim in HC. destruct (p1_cur st) as [cu|]; destruct (p1_cur st') as [cu'|]; try contradiction; [|reflexivity].
    exact (TAIL (NDir DEnd) None None L1 L1' (p1_rel st) sp0 (0, 0) Logic.I PA).
  - pose proof (add_label_sim L1 L1' l 0 true PA) as S.
    destruct (add_label L1 l 0 true) as [L2|k sp|]; destruct (add_label L1' (canon_label l) 0 true) as [L2'|k' sp'|]; cbn [rr abind] in *; try contradiction; try exact S.
    exact (TAIL (NDir (DExternal l)) (p1_cur st) (p1_cur st') L2 L2' (p1_rel st) sp0 (0, 0) HC S).
Qed.

Lemma p1_loop_sim p : forall st st', p1_sim st st' ->
  rr p1_sim (p1_loop None st p) (p1_loop None st' (map canon_stmt p)).
Proof.
  induction p as [|s p IH]; intros st st' H; cbn [p1_loop map]; [exact H|].
  pose proof (p1_step_sim st st' s H) as S.
  destruct (p1_step None st s) as [st1|k sp|]; destruct (p1_step None st' (canon_stmt s)) as [st1'|k' sp'|]; cbn [rr abind] in *; try contradiction; try exact S.
  apply IH. exact S.
Qed.

Definition sym_sim (t t' : symtab) : Prop := lm_rel (st_labels t) (st_labels t') /\ st_rel t = st_rel t' /\ st_debug t = None /\ st_debug t' = None.

Lemma is_external_sim L L' k : lm_rel L L' -> is_external L k = is_external L' k.
Proof.
  intros H. unfold is_external. pose proof (lm_rel_assoc L L' k H) as A.
  destruct (assoc k L); destruct (assoc k L'); try contradiction; [exact (proj2 A) | reflexivity].
Qed.

Lemma pass1_sim p : rr sym_sim (pass1 p None) (pass1 (map canon_stmt p) None).
Proof.
  unfold pass1.
  assert (H0 : p1_sim (mkP1 None [] [] None) (mkP1 None [] [] None)) by (repeat split).
  pose proof (p1_loop_sim p _ _ H0) as S.
  destruct (p1_loop None (mkP1 None [] [] None) p) as [st|k sp|]; destruct (p1_loop None (mkP1 None [] [] None) (map canon_stmt p)) as [st'|k' sp'|];
    cbn [rr abind] in *; try contradiction; try exact S.
  destruct S as [HC [HL [HR [N1 N2]]]]. unfold cur_sim in HC.
  destruct (p1_cur st); destruct (p1_cur st'); try contradiction; [reflexivity|].
  rewrite N1, N2. cbn [rr]. split; [exact HL|]. split; [|split; reflexivity]. cbn [st_rel]. rewrite <- HR.
  unfold rel_of. f_equal. apply filter_ext. intros av. apply is_external_sim. exact HL.
Qed.

(* ---------- pass 2 ---------- *)
Definition ob_sim (b b' : oblock) : Prop := ob_start b = ob_start b' /\ ob_words b = ob_words b'.
Definition bm_sim (m m' : blockmap) : Prop := Forall2 (fun kb kb' => fst kb = fst kb' /\ ob_sim (snd kb) (snd kb')) m m'.
Definition optb_sim (x x' : option (Z * oblock)) : Prop :=
  match x, x' with Some kb, Some kb' => fst kb = fst kb' /\ ob_sim (snd kb) (snd kb') | None, None => True | _, _ => False end.

Lemma bt_le_sim k m m' : bm_sim m m' -> optb_sim (bt_le k m) (bt_le k m').
Proof.
  intros H. induction H as [|[k0 b0] [k0' b0'] m m' [E1 E2] H IH]; cbn [bt_le]; [exact Logic.I|].
  cbn [fst snd] in *. subst k0'. destruct (k0 <=? k); [|exact Logic.I].
  unfold optb_sim in IH. destruct (bt_le k m); destruct (bt_le k m'); try contradiction; [exact IH|]. split; [reflexivity|exact E2].
Qed.
Lemma bt_ge_sim k m m' : bm_sim m m' -> optb_sim (bt_ge k m) (bt_ge k m').
Proof.
  intros H. induction H as [|[k0 b0] [k0' b0'] m m' [E1 E2] H IH]; cbn [bt_ge]; [exact Logic.I|].
  cbn [fst snd] in *. subst k0'. destruct (k <=? k0); [split; [reflexivity|exact E2] | exact IH].
Qed.
Lemma bt_insert_sim k b b' m m' : ob_sim b b' -> bm_sim m m' -> bm_sim (bt_insert k b m) (bt_insert k b' m').
Proof.
  intros Hb H. induction H as [|[k0 b0] [k0' b0'] m m' [E1 E2] H IH]; cbn [bt_insert].
  - constructor; [split; [reflexivity|exact Hb]|constructor].
  - cbn [fst snd] in *. subst k0'. destruct (k <? k0).
    + constructor; [split; [reflexivity|exact Hb]|]. constructor; [split; [reflexivity|exact E2]|exact H].
    + destruct (k =? k0); constructor; try (split; [reflexivity|assumption]); assumption.
Qed.
Lemma ob_range_sim b b' : ob_sim b b' -> ob_range b = ob_range b'.
Proof. intros [E1 E2]. unfold ob_range. rewrite E1, E2. reflexivity. Qed.
Lemma find_overlap_sim blk blk' c c' : ob_sim blk blk' -> bm_sim c c' ->
  match find_overlap blk c, find_overlap blk' c' with
  | AOk None, AOk None => True
  | AOk (Some b), AOk (Some b') => ob_sim b b'
  | APanic, APanic => True
  | _, _ => False
  end.
Proof.
  intros Hb H. induction H as [|[k0 b0] [k0' b0'] c c' [E1 E2] H IH]; cbn [find_overlap]; [exact Logic.I|].
  cbn [fst snd] in *. rewrite <- (ob_range_sim blk blk' Hb), <- (ob_range_sim b0 b0' E2).
  destruct (ob_range blk); [|exact Logic.I]. destruct (ob_range b0); [|exact Logic.I].
  destruct (ranges_overlap p p0); [exact E2 | exact IH].
Qed.

Lemma rpo_sim n o pc L L' : lm_rel L L' ->
  rr eq (replace_pc_offset n o pc L) (replace_pc_offset n (canon_pcoff o) pc L').
Proof.
  intros H. destruct o as [v|l]; cbn [canon_pcoff replace_pc_offset canon_label l_name]; [reflexivity|]. rewrite upper_idem.
  pose proof (lm_rel_assoc L L' (upper (l_name l)) H) as A.
  destruct (assoc (upper (l_name l)) L) as [d|]; destruct (assoc (upper (l_name l)) L') as [d'|]; try contradiction; [|reflexivity].
  destruct A as [A1 A2]. rewrite <- A1, <- A2. destruct (sd_external d); [reflexivity|].
  destruct (new_s n (to_i16 (sd_addr d - pc))); reflexivity.
Qed.
Lemma into_sim_sim i pc L L' : lm_rel L L' ->
  rr eq (into_sim_instr i pc L) (into_sim_instr (canon_instr i) pc L').
Proof.
  intros H. destruct i; cbn [canon_instr into_sim_instr]; try reflexivity;
    match goal with |- rr eq (abind (replace_pc_offset ?n ?o _ _) _) _ =>
      pose proof (rpo_sim n o pc L L' H) as S;
      destruct (replace_pc_offset n o pc L); destruct (replace_pc_offset n (canon_pcoff o) pc L'); cbn [rr abind] in *; try contradiction; try exact S; subst; reflexivity end.
Qed.
Lemma write_directive_sim ws d L L' : lm_rel L L' ->
  rr eq (write_directive ws d L) (write_directive ws (canon_directive d) L').
Proof.
  intros H. destruct d as [a|[v|l]|n|t| |l]; cbn [canon_directive canon_pcoff write_directive]; try reflexivity.
  unfold lookup_label_map. cbn [canon_label l_name]. rewrite upper_idem.
  pose proof (lm_rel_assoc L L' (upper (l_name l)) H) as A.
  destruct (assoc (upper (l_name l)) L) as [d|]; destruct (assoc (upper (l_name l)) L') as [d'|]; try contradiction; cbn [option_map rr]; [|reflexivity].
  rewrite (proj1 A). reflexivity.
Qed.

Definition cur2_sim (c c' : option (Z * oblock)) : Prop :=
  match c, c' with Some (lc, b), Some (lc', b') => lc = lc' /\ ob_sim b b' | None, None => True | _, _ => False end.
Definition p2_sim (st st' : p2) : Prop := bm_sim (p2_map st) (p2_map st') /\ cur2_sim (p2_cur st) (p2_cur st').

Lemma word_len_canon d : word_len (canon_directive d) = word_len d.
Proof. destruct d as [a|o|n|t| |l]; reflexivity. Qed.

Lemma p2_step_sim L L' st st' s : lm_rel L L' -> p2_sim st st' ->
  rr p2_sim (p2_step L st s) (p2_step L' st' (canon_stmt s)).
Proof.
  intros HL [HM HC]. unfold p2_step. cbn [canon_stmt s_nucleus stmt_span s_start s_end]. unfold cur2_sim in HC.
  destruct (s_nucleus s) as [i|d]; cbn [canon_nucleus].
  - destruct (p2_cur st) as [[lc b]|]; destruct (p2_cur st') as [[lc' b']|]; try contradiction; [|reflexivity].
    destruct HC as [-> [E1 E2]]. pose proof (into_sim_sim i (wrap16 (lc' + 1)) L L' HL) as S.
    destruct (into_sim_instr i (wrap16 (lc' + 1)) L); destruct (into_sim_instr (canon_instr i) (wrap16 (lc' + 1)) L'); cbn [rr abind] in *; try contradiction; try exact S.
    subst. split; [exact HM|]. cbn [p2_cur cur2_sim]. split; [reflexivity|]. split; cbn [ob_start ob_words]; [exact E1 | rewrite E2; reflexivity].
  - destruct d as [a|o|n|t| |l]; cbn [canon_directive].
    + destruct (p2_cur st) as [[lc b]|]; destruct (p2_cur st') as [[lc' b']|]; try contradiction; [exact Logic.I|].
      split; [exact HM|]. cbn [p2_cur cur2_sim]. split; [reflexivity|]. split; reflexivity.
    + destruct (p2_cur st) as [[lc b]|]; destruct (p2_cur st') as [[lc' b']|]; try contradiction; [|reflexivity].
      destruct HC as [-> [E1 E2]]. cbn [word_len]. rewrite E2.
      pose proof (write_directive_sim (ob_words b') (DFill o) L L' HL) as S. cbn [canon_directive] in S.
      destruct (write_directive (ob_words b') (DFill o) L); destruct (write_directive (ob_words b') (DFill (canon_pcoff o)) L'); cbn [rr abind] in *; try contradiction; try exact S.
      subst. split; [exact HM|]. cbn [p2_cur cur2_sim]. split; [reflexivity|]. split; [exact E1 | reflexivity].
    + destruct (p2_cur st) as [[lc b]|]; destruct (p2_cur st') as [[lc' b']|]; try contradiction; [|reflexivity].
      destruct HC as [-> [E1 E2]]. cbn [word_len write_directive abind rr]. rewrite E2.
      split; [exact HM|]. cbn [p2_cur cur2_sim]. split; [reflexivity|]. split; [exact E1 | reflexivity].
    + destruct (p2_cur st) as [[lc b]|]; destruct (p2_cur st') as [[lc' b']|]; try contradiction; [|reflexivity].
      destruct HC as [-> [E1 E2]]. destruct (word_len (DStringz t)); [|exact Logic.I]. cbn [write_directive abind rr]. rewrite E2.
      split; [exact HM|]. cbn [p2_cur cur2_sim]. split; [reflexivity|]. split; [exact E1 | reflexivity].
    + destruct (p2_cur st) as [[lc b]|]; destruct (p2_cur st') as [[lc' b']|]; try contradiction; [|reflexivity].
      destruct HC as [_ [E1 E2]]. rewrite <- E2. destruct (ob_words b) eqn:EW; [split; [exact HM|exact Logic.I]|]. rewrite <- EW in *.
      assert (CS : bm_sim (opt_list (bt_le (ob_start b) (p2_map st)) ++ opt_list (bt_ge (ob_start b) (p2_map st)))
                          (opt_list (bt_le (ob_start b') (p2_map st')) ++ opt_list (bt_ge (ob_start b') (p2_map st')))).
      { rewrite <- E1. pose proof (bt_le_sim (ob_start b) _ _ HM) as A. pose proof (bt_ge_sim (ob_start b) _ _ HM) as B.
        unfold optb_sim in A, B. apply Forall2_app.
        - destruct (bt_le (ob_start b) (p2_map st)); destruct (bt_le (ob_start b) (p2_map st')); try contradiction; [constructor; [exact A|constructor]|constructor].
        - destruct (bt_ge (ob_start b) (p2_map st)); destruct (bt_ge (ob_start b) (p2_map st')); try contradiction; [constructor; [exact B|constructor]|constructor]. }
      pose proof (find_overlap_sim b b' _ _ (conj E1 E2) CS) as F.
      destruct (find_overlap b _) as [[o1|]|k sp|]; destruct (find_overlap b' _) as [[o1'|]|k' sp'|]; try contradiction; cbn [abind rr].
      * reflexivity.
      * split; [|exact Logic.I]. cbn [p2_map]. rewrite <- E1. apply bt_insert_sim; [split; assumption | exact HM].
      * exact Logic.I.
    + split; [exact HM | exact HC].
Qed.

Lemma p2_loop_sim L L' p : lm_rel L L' -> forall st st', p2_sim st st' ->
  rr p2_sim (p2_loop L st p) (p2_loop L' st' (map canon_stmt p)).
Proof.
  intros HL. induction p as [|s p IH]; intros st st' H; cbn [p2_loop map]; [exact H|].
  pose proof (p2_step_sim L L' st st' s HL H) as S.
  destruct (p2_step L st s) as [st1|k sp|]; destruct (p2_step L' st' (canon_stmt s)) as [st1'|k' sp'|]; cbn [rr abind] in *; try contradiction; try exact S.
  apply IH. exact S.
Qed.

(* two object files: same blocks, label tables equal up to source offsets, both or neither kept *)
Definition obj_sim (o o' : objfile) : Prop :=
  o_blocks o = o_blocks o' /\
  match o_sym o, o_sym o' with
  | Some t, Some t' => map core (st_labels t) = map core (st_labels t') /\ st_rel t = st_rel t'
  | None, None => True
  | _, _ => False
  end.

Lemma bm_sim_blocks m m' : bm_sim m m' ->
  map (fun kb : Z * oblock => (fst kb, ob_words (snd kb))) m = map (fun kb : Z * oblock => (fst kb, ob_words (snd kb))) m'.
Proof. intros H. induction H as [|x y m m' [E1 [_ E2]] H IH]; [reflexivity|]. cbn [map]. rewrite E1, E2, IH. reflexivity. Qed.

Lemma existsb_ext_core L L' : lm_rel L L' ->
  existsb (fun kv : str * symdata => sd_external (snd kv)) L = existsb (fun kv : str * symdata => sd_external (snd kv)) L'.
Proof.
  unfold lm_rel. revert L'. induction L as [|[k d] L IH]; intros [|[k' d'] L'] H; cbn [map] in H; try discriminate; [reflexivity|].
  injection H as _ _ E H. cbn [existsb snd] in *. rewrite E, (IH L' H). reflexivity.
Qed.

Theorem assemble_canon p : rr obj_sim (assemble false None p) (assemble false None (map canon_stmt p)).
Proof.
  unfold assemble. pose proof (pass1_sim p) as S1.
  destruct (pass1 p None) as [t|k sp|]; destruct (pass1 (map canon_stmt p) None) as [t'|k' sp'|]; cbn [rr abind] in *; try contradiction; try exact S1.
  destruct S1 as [HL [HR _]]. unfold pass2.
  assert (H0 : p2_sim (mkP2 [] None) (mkP2 [] None)) by (split; [constructor | exact Logic.I]).
  pose proof (p2_loop_sim _ _ p HL _ _ H0) as S2.
  destruct (p2_loop (st_labels t) (mkP2 [] None) p) as [st|k sp|]; destruct (p2_loop (st_labels t') (mkP2 [] None) (map canon_stmt p)) as [st'|k' sp'|];
    cbn [rr abind] in *; try contradiction; try exact S2.
  destruct S2 as [HM _]. split; cbn [o_blocks o_sym].
  - apply bm_sim_blocks. exact HM.
  - cbn [orb]. rewrite (existsb_ext_core _ _ HL). destruct (existsb _ (st_labels t')); [|exact Logic.I]. split; [exact HL | exact HR].
Qed.

(* symmetric / transitive use: two programs with the same canonical form *)
Theorem assemble_same_canon l1 l2 : map canon_stmt l1 = map canon_stmt l2 ->
  rr obj_sim (assemble false None l1) (assemble false None l2).
Proof.
  intros E. pose proof (assemble_canon l1) as S1. pose proof (assemble_canon l2) as S2. rewrite E in S1.
  destruct (assemble false None l1) as [o1|k1 sp1|]; destruct (assemble false None (map canon_stmt l2)) as [oc|kc spc|];
    destruct (assemble false None l2) as [o2|k2 sp2|]; cbn [rr] in *; try contradiction; try congruence; try exact Logic.I.
  destruct S1 as [B1 Y1]. destruct S2 as [B2 Y2]. split; [congruence|].
  destruct (o_sym o1) as [t1|]; destruct (o_sym oc) as [tc|]; destruct (o_sym o2) as [t2|]; try contradiction; try exact Logic.I.
  destruct Y1 as [Y1 Z1]. destruct Y2 as [Y2 Z2]. split; congruence.
Qed.

Theorem assemble_same_shape l1 l2 : map shape_stmt l1 = map shape_stmt l2 ->
  rr obj_sim (assemble false None l1) (assemble false None l2).
Proof. intros E. apply assemble_same_canon. apply canon_of_shape. exact E. Qed.

(* typedness is a property of the shape *)
Lemma typed_stmt_canon s : typed_stmt (canon_stmt s) = typed_stmt s.
Proof. unfold typed_stmt, canon_stmt. cbn [s_nucleus]. destruct (s_nucleus s) as [i|[a|o|n|t| |l]]; reflexivity. Qed.
Lemma typed_canon p : typed (map canon_stmt p) = typed p.
Proof. unfold typed. induction p as [|s p IH]; [reflexivity|]. cbn [map forallb]. rewrite typed_stmt_canon, IH. reflexivity. Qed.
Lemma typed_same_canon l1 l2 : map canon_stmt l1 = map canon_stmt l2 -> typed l1 = typed l2.
Proof. intros E. rewrite <- (typed_canon l1), <- (typed_canon l2), E. reflexivity. Qed.

(* the label tables of the two symbol tables of pass 1 (SymbolTable::new) agree as well *)
Theorem pass1_same_canon l1 l2 t1 t2 : map canon_stmt l1 = map canon_stmt l2 ->
  pass1 l1 None = AOk t1 -> pass1 l2 None = AOk t2 ->
  map core (st_labels t1) = map core (st_labels t2) /\ st_rel t1 = st_rel t2.
Proof.
  intros E E1 E2. pose proof (pass1_sim l1) as S1. pose proof (pass1_sim l2) as S2. rewrite E in S1. rewrite E1 in S1. rewrite E2 in S2.
  destruct (pass1 (map canon_stmt l2) None) as [tc|k sp|]; cbn [rr] in *; try contradiction.
  destruct S1 as [A1 [B1 _]]. destruct S2 as [A2 [B2 _]]. unfold lm_rel in *. split; congruence.
Qed.
