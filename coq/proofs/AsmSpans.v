(* AsmSpans.v — C26 (assembler half): where the spans of an assembler error come from.  Every
   error carries at least one span; each span is the span of a statement of the program or of a
   label written in it (a statement label, the operand of .external, a label operand); the spans
   of label errors are label spans.  Proved by two small provenance invariants, independent of the
   layout proofs. *)
From Coq Require Import ZArith List Bool Lia.
From Model Require Import Tree Text Bits Instr Offset AsmAst Obj SourceInfo Assembler.
From Spec Require Import LayoutSpec WfSpec.
From Proofs Require Import AsmBase AsmDebug.
Import ListNotations.
Open Scope Z_scope.

(* every label written in a statement *)
Definition labels_in (s : stmt) : list label :=
  s_labels s
  ++ (match s_nucleus s with NDir (DExternal l) => [l] | _ => [] end)
  ++ (match operand_of s with Some (_, l) => [l] | None => [] end).
Definition label_spans (p : list stmt) : list span := map label_span (flat_map labels_in p).
Definition stmt_spans (p : list stmt) : list span := map stmt_span p.

Definition label_kind (k : err_kind) : bool :=
  match k with
  | UndetAddrLabel | OverlappingLabels | OffsetNewErr _ | OffsetExternal | CouldNotFindLabel => true
  | _ => false
  end.

(* the claim about one error *)
Definition spans_ok (p : list stmt) (k : err_kind) (sp : list span) : Prop :=
  sp <> [] /\
  Forall (fun s => In s (stmt_spans p) \/ In s (label_spans p)) sp /\
  (label_kind k = true -> Forall (fun s => In s (label_spans p)) sp).

Lemma spans_ok_mono pre r k sp : spans_ok pre k sp -> spans_ok (pre ++ r) k sp.
Proof.
  unfold spans_ok, stmt_spans, label_spans. intros [N [F L]]. split; [exact N|]. split.
  - rewrite Forall_forall in *. intros s Hs. specialize (F s Hs). rewrite flat_map_app, !map_app.
    destruct F as [F|F]; [left|right]; apply in_or_app; left; exact F.
  - intros K. specialize (L K). rewrite Forall_forall in *. intros s Hs. rewrite flat_map_app, map_app. apply in_or_app. left. exact (L s Hs).
Qed.
Lemma spans_ok_mono_l pre r k sp : spans_ok r k sp -> spans_ok (pre ++ r) k sp.
Proof.
  unfold spans_ok, stmt_spans, label_spans. intros [N [F L]]. split; [exact N|]. split.
  - rewrite Forall_forall in *. intros s Hs. specialize (F s Hs). rewrite flat_map_app, !map_app.
    destruct F as [F|F]; [left|right]; apply in_or_app; right; exact F.
  - intros K. specialize (L K). rewrite Forall_forall in *. intros s Hs. rewrite flat_map_app, map_app. apply in_or_app. right. exact (L s Hs).
Qed.

Lemma label_span_in s l : In l (labels_in s) -> In (label_span l) (label_spans [s]).
Proof. intros H. unfold label_spans. cbn [flat_map]. rewrite app_nil_r. apply in_map. exact H. Qed.
Lemma stmt_span_in s : In (stmt_span s) (stmt_spans [s]).
Proof. left. reflexivity. Qed.

(* ---------- pass 1 ---------- *)
Definition J1 (pre : list stmt) (st : p1) : Prop :=
  (forall k d, In (k, d) (p1_labels st) ->
     exists l0, In l0 (flat_map labels_in pre) /\ k = upper (l_name l0) /\ sd_src_start d = l_start l0)
  /\ (forall cu, p1_cur st = Some cu -> In (c_orig cu) (stmt_spans pre)).

Definition Jlab (ls : list label) (L : labmap) : Prop :=
  forall k d, In (k, d) L -> exists l0, In l0 ls /\ k = upper (l_name l0) /\ sd_src_start d = l_start l0.

Lemma add_label_spans ls L l addr ext :
  Jlab ls L ->
  match add_label L l addr ext with
  | AOk L' => Jlab (ls ++ [l]) L'
  | AErr k sp => k = OverlappingLabels /\ exists l0, In l0 ls /\ sp = [label_span l0; label_span l]
  | APanic => False
  end.
Proof.
  intros J. unfold add_label. destruct (assoc (upper (l_name l)) L) as [d|] eqn:A.
  - destruct (sd_addr d =? addr).
    + intros k d' H. destruct (J k d' H) as [l0 [H1 H2]]. exists l0. split; [apply in_or_app; left; exact H1 | exact H2].
    + split; [reflexivity|]. apply assoc_in in A. destruct (J _ _ A) as [l0 [H1 [H2 H3]]]. exists l0. split; [exact H1|].
      unfold label_span. rewrite H3, H2, byte_len_upper. reflexivity.
  - intros k d' H. apply in_app_or in H. destruct H as [H|[H|[]]].
    + destruct (J k d' H) as [l0 [H1 H2]]. exists l0. split; [apply in_or_app; left; exact H1 | exact H2].
    + injection H as <- <-. exists l. split; [apply in_or_app; right; left; reflexivity|]. split; reflexivity.
Qed.
Lemma add_labels_spans ls2 : forall ls L addr,
  Jlab ls L ->
  match add_labels L ls2 addr with
  | AOk L' => Jlab (ls ++ ls2) L'
  | AErr k sp => k = OverlappingLabels /\ exists l0 l, In l0 (ls ++ ls2) /\ In l ls2 /\ sp = [label_span l0; label_span l]
  | APanic => False
  end.
Proof.
  induction ls2 as [|l ls2 IH]; intros ls L addr J; cbn [add_labels].
  - rewrite app_nil_r. exact J.
  - pose proof (add_label_spans ls L l addr false J) as S. destruct (add_label L l addr false) as [L1|k sp|]; cbn [abind].
    + specialize (IH (ls ++ [l]) L1 addr S). rewrite <- app_assoc in IH. cbn [app] in IH.
      destruct (add_labels L1 ls2 addr) as [L2|k sp|]; try exact IH.
      destruct IH as [E [l0 [l' [H1 [H2 H3]]]]]. split; [exact E|]. exists l0, l'. split; [exact H1|]. split; [right; exact H2 | exact H3].
    + destruct S as [E [l0 [H1 H2]]]. split; [exact E|]. exists l0, l. split; [apply in_or_app; left; exact H1|]. split; [left; reflexivity | exact H2].
    + exact S.
Qed.

Lemma in_labels_in_stmt s l : In l (s_labels s) -> In l (labels_in s).
Proof. intros H. unfold labels_in. apply in_or_app. left. exact H. Qed.

Lemma p1_step_spans pre st s :
  J1 pre st ->
  match p1_step None st s with
  | AOk st' => J1 (pre ++ [s]) st'
  | AErr k sp => spans_ok (pre ++ [s]) k sp
  | APanic => True
  end.
Proof.
  intros [JL JC]. unfold p1_step.
  assert (SS : forall k, label_kind k = false -> spans_ok (pre ++ [s]) k [stmt_span s]).
  { intros k K. apply spans_ok_mono_l. split; [discriminate|]. split; [constructor; [left; apply stmt_span_in|constructor] | rewrite K; discriminate]. }
  assert (LL : forall k l0 l, In l0 (flat_map labels_in pre ++ labels_in s) -> In l (labels_in s) ->
                 spans_ok (pre ++ [s]) k [label_span l0; label_span l]).
  { intros k l0 l H0 H1. split; [discriminate|].
    assert (A : In (label_span l0) (label_spans (pre ++ [s]))).
    { unfold label_spans. rewrite flat_map_app. cbn [flat_map]. rewrite app_nil_r. apply in_map. exact H0. }
    assert (B : In (label_span l) (label_spans (pre ++ [s]))).
    { unfold label_spans. rewrite flat_map_app. cbn [flat_map]. rewrite app_nil_r. apply in_map. apply in_or_app. right. exact H1. }
    split; [|intros _]; repeat constructor; try (right; assumption); assumption. }
  (* phase 1 *)
  assert (PA : match (match s_labels s with
                      | [] => AOk (p1_labels st)
                      | _ => match p1_cur st with
                             | None => AErr UndetAddrLabel (map label_span (s_labels s))
                             | Some cur => add_labels (p1_labels st) (s_labels s) (c_lc cur)
                             end
                      end) with
               | AOk L1 => Jlab (flat_map labels_in pre ++ s_labels s) L1
               | AErr k sp => spans_ok (pre ++ [s]) k sp
               | APanic => False
               end).
  { destruct (s_labels s) as [|l ls] eqn:EL.
    - rewrite app_nil_r. exact JL.
    - destruct (p1_cur st) as [cu|].
      + pose proof (add_labels_spans (l :: ls) (flat_map labels_in pre) (p1_labels st) (c_lc cu) JL) as S.
        destruct (add_labels (p1_labels st) (l :: ls) (c_lc cu)) as [L1|k sp|]; try exact S.
        destruct S as [-> [l0 [l' [H1 [H2 ->]]]]]. apply LL.
        * apply in_app_or in H1. destruct H1 as [H1|H1]; apply in_or_app; [left; exact H1 | right; apply in_labels_in_stmt; rewrite EL; exact H1].
        * apply in_labels_in_stmt. rewrite EL. exact H2.
      + apply spans_ok_mono_l. split; [discriminate|].
        assert (F : Forall (fun x => In x (label_spans [s])) (map label_span (l :: ls))).
        { rewrite Forall_forall. intros x Hx. apply in_map_iff in Hx. destruct Hx as [l' [<- Hl]]. apply label_span_in. apply in_labels_in_stmt. rewrite EL. exact Hl. }
        split; [|intros _; exact F]. rewrite Forall_forall in *. intros x Hx. right. exact (F x Hx). }
  destruct (match s_labels s with [] => AOk (p1_labels st) | _ => _ end) as [L1|k sp|]; cbn [abind]; [|exact PA|exact Logic.I].
  assert (JL1 : Jlab (flat_map labels_in (pre ++ [s])) L1).
  { intros k d H. destruct (PA k d H) as [l0 [H1 H2]]. exists l0. split; [|exact H2].
    rewrite flat_map_app. cbn [flat_map]. rewrite app_nil_r. apply in_app_or in H1. apply in_or_app.
    destruct H1 as [H1|H1]; [left; exact H1 | right; apply in_labels_in_stmt; exact H1]. }
  assert (JC' : forall cu, p1_cur st = Some cu -> In (c_orig cu) (stmt_spans (pre ++ [s]))).
  { intros cu H. unfold stmt_spans. rewrite map_app. apply in_or_app. left. exact (JC cu H). }
  (* phase 3, for any outcome of phase 2 that satisfies the invariant *)
  assert (TAIL : forall nuc cur2 L2 rel2,
            Jlab (flat_map labels_in (pre ++ [s])) L2 ->
            (forall cu, cur2 = Some cu -> In (c_orig cu) (stmt_spans (pre ++ [s]))) ->
            match (match cur2 with
                   | None => AOk (mkP1 None L2 rel2 (p1_lines st))
                   | Some cur =>
                       abind (match p1_lines st, @None str with
                              | Some lines, Some text =>
                                  if no_line_entry nuc then AOk (Some lines)
                                  else let idx := get_line text (s_start s) in
                                       if (0 <=? idx) && (idx <? len lines)
                                       then AOk (Some (set_nth lines (Z.to_nat idx) (Some (c_lc cur)))) else APanic
                              | other, _ => AOk other
                              end) (fun lines2 =>
                       match stmt_len nuc with
                       | WLPanic => APanic
                       | WL n => match shift cur n with
                                 | SOk cur' => AOk (mkP1 (Some cur') L2 rel2 lines2)
                                 | SErr k => AErr k [stmt_span s]
                                 end
                       end)
                   end) with
            | AOk st' => J1 (pre ++ [s]) st'
            | AErr k sp => spans_ok (pre ++ [s]) k sp
            | APanic => True
            end).
  { intros nuc cur2 L2 rel2 H1 H2. destruct cur2 as [cu|].
    - destruct (p1_lines st); cbn [abind]; (destruct (stmt_len nuc) as [n|]; [|exact Logic.I]);
        unfold shift; repeat match goal with |- context [if ?c then _ else _] => destruct c end;
        try (apply SS; reflexivity); (split; [exact H1|]); cbn [p1_cur]; intros cu' [= <-]; cbn [c_orig]; apply (H2 cu eq_refl).
    - split; [exact H1|]. cbn [p1_cur]. discriminate. }
  destruct (s_nucleus s) as [i|[a|[v|l]|n|t| |l]] eqn:EN.
  - exact (TAIL (NInstr i) (p1_cur st) L1 (p1_rel st) JL1 JC').
  - (* .orig *)
    destruct (p1_cur st) as [cu|] eqn:ECU.
    + split; [discriminate|]. split; [|discriminate].
      constructor; [left; apply JC'; reflexivity|]. constructor; [|constructor]. left. unfold stmt_spans. rewrite map_app. apply in_or_app. right. left. reflexivity.
    + refine (TAIL (NDir (DOrig a)) (Some (mkCur a false (stmt_span s))) L1 (p1_rel st) JL1 _).
      intros cu [= <-]. cbn [c_orig]. unfold stmt_spans. rewrite map_app. apply in_or_app. right. left. reflexivity.
  - exact (TAIL (NDir (DFill (POff v))) (p1_cur st) L1 (p1_rel st) JL1 JC').
  - (* .fill LABEL *)
    cbn zeta. destruct (p1_cur st) as [cu|] eqn:ECU.
    + exact (TAIL (NDir (DFill (PLab l))) (Some cu) L1 _ JL1 JC').
    + destruct (assoc (upper (l_name l)) L1) as [d|]; [|exact (TAIL (NDir (DFill (PLab l))) None L1 (p1_rel st) JL1 JC')].
      destruct (sd_external d); [apply SS; reflexivity | exact (TAIL (NDir (DFill (PLab l))) None L1 (p1_rel st) JL1 JC')].
  - exact (TAIL (NDir (DBlkw n)) (p1_cur st) L1 (p1_rel st) JL1 JC').
  - exact (TAIL (NDir (DStringz t)) (p1_cur st) L1 (p1_rel st) JL1 JC').
  - (* .end *)
    destruct (p1_cur st) as [cu|] eqn:ECU; [|apply SS; reflexivity].
    refine (TAIL (NDir DEnd) None L1 (p1_rel st) JL1 _). discriminate.
  - (* .external *)
    pose proof (add_label_spans (flat_map labels_in pre ++ s_labels s) L1 l 0 true PA) as S.
    assert (IL : In l (labels_in s)) by (unfold labels_in; rewrite EN; apply in_or_app; right; apply in_or_app; left; left; reflexivity).
    destruct (add_label L1 l 0 true) as [L2|k sp|]; [|cbn [abind]|exact Logic.I].
    + refine (TAIL (NDir (DExternal l)) (p1_cur st) L2 (p1_rel st) _ JC'). intros k d H. destruct (S k d H) as [l0 [H1 H2]]. exists l0. split; [|exact H2].
      rewrite flat_map_app. cbn [flat_map]. rewrite app_nil_r. apply in_app_or in H1. apply in_or_app.
      destruct H1 as [H1|[<-|[]]]; [|right; exact IL]. apply in_app_or in H1. destruct H1 as [H1|H1]; [left; exact H1 | right; apply in_labels_in_stmt; exact H1].
    + destruct S as [-> [l0 [H1 ->]]]. apply LL; [|exact IL].
      apply in_app_or in H1. apply in_or_app. destruct H1 as [H1|H1]; [left; exact H1 | right; apply in_labels_in_stmt; exact H1].
Qed.
