(* AsmSpans.v — C26 (assembler half): where the spans of an assembler error come from.  Every
   error carries at least one span; each span is the span of a statement of the program or of a
   label written in it (a statement label, the operand of .external, a label operand); the spans
   of label errors are label spans.  Proved by two small provenance invariants, independent of the
   layout proofs. *)
From Coq Require Import ZArith List Bool Lia.
From Model Require Import Tree Text Bits Instr Offset AsmAst Obj SourceInfo Assembler.
From Spec Require Import LayoutSpec WfSpec.
From Proofs Require Import AsmBase AsmDebug.
Import ListNotations.
Open Scope Z_scope.

(* every label written in a statement *)
Definition labels_in (s : stmt) : list label :=
  s_labels s
  ++ (match s_nucleus s with NDir (DExternal l) => [l] | _ => [] end)
  ++ (match operand_of s with Some (_, l) => [l] | None => [] end).
Definition label_spans (p : list stmt) : list span := map label_span (flat_map labels_in p).
Definition stmt_spans (p : list stmt) : list span := map stmt_span p.

Definition label_kind (k : err_kind) : bool :=
  match k with
  | UndetAddrLabel | OverlappingLabels | OffsetNewErr _ | OffsetExternal | CouldNotFindLabel => true
  | _ => false
  end.

(* the claim about one error *)
Definition spans_ok (p : list stmt) (k : err_kind) (sp : list span) : Prop :=
  sp <> [] /\
  Forall (fun s => In s (stmt_spans p) \/ In s (label_spans p)) sp /\
  (label_kind k = true -> Forall (fun s => In s (label_spans p)) sp).

Lemma spans_ok_mono pre r k sp : spans_ok pre k sp -> spans_ok (pre ++ r) k sp.
Proof.
  unfold spans_ok, stmt_spans, label_spans. intros [N [F L]]. split; [exact N|]. split.
  - rewrite Forall_forall in *. intros s Hs. specialize (F s Hs). rewrite flat_map_app, !map_app.
    destruct F as [F|F]; [left|right]; apply in_or_app; left; exact F.
  - intros K. specialize (L K). rewrite Forall_forall in *. intros s Hs. rewrite flat_map_app, map_app. apply in_or_app. left. exact (L s Hs).
Qed.
Lemma spans_ok_mono_l pre r k sp : spans_ok r k sp -> spans_ok (pre ++ r) k sp.
Proof.
  unfold spans_ok, stmt_spans, label_spans. intros [N [F L]]. split; [exact N|]. split.
  - rewrite Forall_forall in *. intros s Hs. specialize (F s Hs). rewrite flat_map_app, !map_app.
    destruct F as [F|F]; [left|right]; apply in_or_app; right; exact F.
  - intros K. specialize (L K). rewrite Forall_forall in *. intros s Hs. rewrite flat_map_app, map_app. apply in_or_app. right. exact (L s Hs).
Qed.

Lemma label_span_in s l : In l (labels_in s) -> In (label_span l) (label_spans [s]).
Proof. intros H. unfold label_spans. cbn [flat_map]. rewrite app_nil_r. apply in_map. exact H. Qed.
Lemma stmt_span_in s : In (stmt_span s) (stmt_spans [s]).
Proof. left. reflexivity. Qed.

(* ---------- pass 1 ---------- *)
Definition J1 (pre : list stmt) (st : p1) : Prop :=
  (forall k d, In (k, d) (p1_labels st) ->
     exists l0, In l0 (flat_map labels_in pre) /\ k = upper (l_name l0) /\ sd_src_start d = l_start l0)
  /\ (forall cu, p1_cur st = Some cu -> In (c_orig cu) (stmt_spans pre)).

Definition Jlab (ls : list label) (L : labmap) : Prop :=
  forall k d, In (k, d) L -> exists l0, In l0 ls /\ k = upper (l_name l0) /\ sd_src_start d = l_start l0.

Lemma add_label_spans ls L l addr ext :
  Jlab ls L ->
  match add_label L l addr ext with
  | AOk L' => Jlab (ls ++ [l]) L'
  | AErr k sp => k = OverlappingLabels /\ exists l0, In l0 ls /\ sp = [label_span l0; label_span l]
  | APanic => False
  end.
Proof.
  intros J. unfold add_label. destruct (assoc (upper (l_name l)) L) as [d|] eqn:A.
  - destruct (sd_addr d =? addr).
    + intros k d' H. destruct (J k d' H) as [l0 [H1 H2]]. exists l0. split; [apply in_or_app; left; exact H1 | exact H2].
    + split; [reflexivity|]. apply assoc_in in A. destruct (J _ _ A) as [l0 [H1 [H2 H3]]]. exists l0. split; [exact H1|].
      unfold label_span. rewrite H3, H2, byte_len_upper. reflexivity.
  - intros k d' H. apply in_app_or in H. destruct H as [H|[H|[]]].
    + destruct (J k d' H) as [l0 [H1 H2]]. exists l0. split; [apply in_or_app; left; exact H1 | exact H2].
    + injection H as <- <-. exists l. split; [apply in_or_app; right; left; reflexivity|]. split; reflexivity.
Qed.
Lemma add_labels_spans ls2 : forall ls L addr,
  Jlab ls L ->
  match add_labels L ls2 addr with
  | AOk L' => Jlab (ls ++ ls2) L'
  | AErr k sp => k = OverlappingLabels /\ exists l0 l, In l0 (ls ++ ls2) /\ In l ls2 /\ sp = [label_span l0; label_span l]
  | APanic => False
  end.
Proof.
  induction ls2 as [|l ls2 IH]; intros ls L addr J; cbn [add_labels].
  - rewrite app_nil_r. exact J.
  - pose proof (add_label_spans ls L l addr false J) as S. destruct (add_label L l addr false) as [L1|k sp|]; cbn [abind].
    + specialize (IH (ls ++ [l]) L1 addr S). rewrite <- app_assoc in IH. cbn [app] in IH.
      destruct (add_labels L1 ls2 addr) as [L2|k sp|]; try exact IH.
      destruct IH as [E [l0 [l' [H1 [H2 H3]]]]]. split; [exact E|]. exists l0, l'. split; [exact H1|]. split; [right; exact H2 | exact H3].
    + destruct S as [E [l0 [H1 H2]]]. split; [exact E|]. exists l0, l. split; [apply in_or_app; left; exact H1|]. split; [left; reflexivity | exact H2].
    + exact S.
Qed.

Lemma in_labels_in_stmt s l : In l (s_labels s) -> In l (labels_in s).
Proof. intros H. unfold labels_in. apply in_or_app. left. exact H. Qed.

Lemma p1_step_spans pre st s :
  J1 pre st ->
  match p1_step None st s with
  | AOk st' => J1 (pre ++ [s]) st'
  | AErr k sp => spans_ok (pre ++ [s]) k sp
  | APanic => True
  end.
Proof.
  intros [JL JC]. unfold p1_step.
  assert (SS : forall k, label_kind k = false -> spans_ok (pre ++ [s]) k [stmt_span s]).
  { intros k K. apply spans_ok_mono_l. split; [discriminate|]. split; [constructor; [left; apply stmt_span_in|constructor] | rewrite K; discriminate]. }
  assert (LL : forall k l0 l, In l0 (flat_map labels_in pre ++ labels_in s) -> In l (labels_in s) ->
                 spans_ok (pre ++ [s]) k [label_span l0; label_span l]).
  { intros k l0 l H0 H1. split; [discriminate|].
    assert (A : In (label_span l0) (label_spans (pre ++ [s]))).
    { unfold label_spans. rewrite flat_map_app. cbn [flat_map]. rewrite app_nil_r. apply in_map. exact H0. }
    assert (B : In (label_span l) (label_spans (pre ++ [s]))).
    { unfold label_spans. rewrite flat_map_app. cbn [flat_map]. rewrite app_nil_r. apply in_map. apply in_or_app. right. exact H1. }
    split; [|intros _]; repeat constructor; try (right; assumption); assumption. }
  (* phase 1 *)
  assert (PA : match (match s_labels s with
                      | [] => AOk (p1_labels st)
                      | _ => match p1_cur st with
                             | None => AErr UndetAddrLabel (map label_span (s_labels s))
                             | Some cur => add_labels (p1_labels st) (s_labels s) (c_lc cur)
                             end
                      end) with
               | AOk L1 => Jlab (flat_map labels_in pre ++ s_labels s) L1
               | AErr k sp => spans_ok (pre ++ [s]) k sp
               | APanic => False
               end).
  { destruct (s_labels s) as [|l ls] eqn:EL.
    - rewrite app_nil_r. exact JL.
    - destruct (p1_cur st) as [cu|].
      + pose proof (add_labels_spans (l :: ls) (flat_map labels_in pre) (p1_labels st) (c_lc cu) JL) as S.
        destruct (add_labels (p1_labels st) (l :: ls) (c_lc cu)) as [L1|k sp|]; try exact S.
        destruct S as [-> [l0 [l' [H1 [H2 ->]]]]]. apply LL.
        * apply in_app_or in H1. destruct H1 as [H1|H1]; apply in_or_app; [left; exact H1 | right; apply in_labels_in_stmt; rewrite EL; exact H1].
        * apply in_labels_in_stmt. rewrite EL. exact H2.
      + apply spans_ok_mono_l. split; [discriminate|].
        assert (F : Forall (fun x => In x (label_spans [s])) (map label_span (l :: ls))).
        { rewrite Forall_forall. intros x Hx. apply in_map_iff in Hx. destruct Hx as [l' [<- Hl]]. apply label_span_in. apply in_labels_in_stmt. rewrite EL. exact Hl. }
        split; [|intros _; exact F]. rewrite Forall_forall in *. intros x Hx. right. exact (F x Hx). }
  destruct (match s_labels s with [] => AOk (p1_labels st) | _ => _ end) as [L1|k sp|]; cbn [abind]; [|exact PA|exact Logic.I].
  assert (JL1 : Jlab (flat_map labels_in (pre ++ [s])) L1).
  { intros k d H. destruct (PA k d H) as [l0 [H1 H2]]. exists l0. split; [|exact H2].
    rewrite flat_map_app. cbn [flat_map]. rewrite app_nil_r. apply in_app_or in H1. apply in_or_app.
    destruct H1 as [H1|H1]; [left; exact H1 | right; apply in_labels_in_stmt; exact H1]. }
  assert (JC' : forall cu, p1_cur st = Some cu -> In (c_orig cu) (stmt_spans (pre ++ [s]))).
  { intros cu H. unfold stmt_spans. rewrite map_app. apply in_or_app. left. exact (JC cu H). }
  (* phase 3, for any outcome of phase 2 that satisfies the invariant *)
  assert (TAIL : forall nuc cur2 L2 rel2,
            Jlab (flat_map labels_in (pre ++ [s])) L2 ->
            (forall cu, cur2 = Some cu -> In (c_orig cu) (stmt_spans (pre ++ [s]))) ->
            match (match cur2 with
                   | None => AOk (mkP1 None L2 rel2 (p1_lines st))
                   | Some cur =>
                       abind (match p1_lines st, @None str with
                              | Some lines, Some text =>
                                  if no_line_entry nuc then AOk (Some lines)
                                  else let idx := get_line text (s_start s) in
                                       if (0 <=? idx) && (idx <? len lines)
                                       then AOk (Some (set_nth lines (Z.to_nat idx) (Some (c_lc cur)))) else APanic
                              | other, _ => AOk other
                              end) (fun lines2 =>
                       match stmt_len nuc with
                       | WLPanic => APanic
                       | WL n => match shift cur n with
                                 | SOk cur' => AOk (mkP1 (Some cur') L2 rel2 lines2)
                                 | SErr k => AErr k [stmt_span s]
                                 end
                       end)
                   end) with
            | AOk st' => J1 (pre ++ [s]) st'
            | AErr k sp => spans_ok (pre ++ [s]) k sp
            | APanic => True
            end).
  { intros nuc cur2 L2 rel2 H1 H2. destruct cur2 as [cu|].
    - destruct (p1_lines st); cbn [abind]; (destruct (stmt_len nuc) as [n|]; [|exact Logic.I]);
        unfold shift; repeat match goal with |- context [if ?c then _ else _] => destruct c end;
        try (apply SS; reflexivity); (split; [exact H1|]); cbn [p1_cur]; intros cu' [= <-]; cbn [c_orig]; apply (H2 cu eq_refl).
    - split; [exact H1|]. cbn [p1_cur]. discriminate. }
  destruct (s_nucleus s) as [i|[a|[v|l]|n|t| |l]] eqn:EN.
  - exact (TAIL (NInstr i) (p1_cur st) L1 (p1_rel st) JL1 JC').
  - (* .orig *)
    destruct (p1_cur st) as [cu|] eqn:ECU.
    + split; [discriminate|]. split; [|discriminate].
      constructor; [left; apply JC'; reflexivity|]. constructor; [|constructor]. left. unfold stmt_spans. rewrite map_app. apply in_or_app. right. left. reflexivity.
    + refine (TAIL (NDir (DOrig a)) (Some (mkCur a false (stmt_span s))) L1 (p1_rel st) JL1 _).
      intros cu [= <-]. cbn [c_orig]. unfold stmt_spans. rewrite map_app. apply in_or_app. right. left. reflexivity.
  - exact (TAIL (NDir (DFill (POff v))) (p1_cur st) L1 (p1_rel st) JL1 JC').
  - (* .fill LABEL *)
    cbn zeta. destruct (p1_cur st) as [cu|] eqn:ECU.
    + exact (TAIL (NDir (DFill (PLab l))) (Some cu) L1 _ JL1 JC').
    + destruct (assoc (upper (l_name l)) L1) as [d|]; [|exact (TAIL (NDir (DFill (PLab l))) None L1 (p1_rel st) JL1 JC')].
      destruct (sd_external d); [apply SS; reflexivity | exact (TAIL (NDir (DFill (PLab l))) None L1 (p1_rel st) JL1 JC')].
  - exact (TAIL (NDir (DBlkw n)) (p1_cur st) L1 (p1_rel st) JL1 JC').
  - exact (TAIL (NDir (DStringz t)) (p1_cur st) L1 (p1_rel st) JL1 JC').
  - (* .end *)
    destruct (p1_cur st) as [cu|] eqn:ECU; [|apply SS; reflexivity].
    refine (TAIL (NDir DEnd) None L1 (p1_rel st) JL1 _). discriminate.
  - (* .external *)
    pose proof (add_label_spans (flat_map labels_in pre ++ s_labels s) L1 l 0 true PA) as S.
    assert (IL : In l (labels_in s)) by (unfold labels_in; rewrite EN; apply in_or_app; right; apply in_or_app; left; left; reflexivity).
    destruct (add_label L1 l 0 true) as [L2|k sp|]; [|cbn [abind]|exact Logic.I].
    + refine (TAIL (NDir (DExternal l)) (p1_cur st) L2 (p1_rel st) _ JC'). intros k d H. destruct (S k d H) as [l0 [H1 H2]]. exists l0. split; [|exact H2].
      rewrite flat_map_app. cbn [flat_map]. rewrite app_nil_r. apply in_app_or in H1. apply in_or_app.
      destruct H1 as [H1|[<-|[]]]; [|right; exact IL]. apply in_app_or in H1. destruct H1 as [H1|H1]; [left; exact H1 | right; apply in_labels_in_stmt; exact H1].
    + destruct S as [-> [l0 [H1 ->]]]. apply LL; [|exact IL].
      apply in_app_or in H1. apply in_or_app. destruct H1 as [H1|H1]; [left; exact H1 | right; apply in_labels_in_stmt; exact H1].
Qed.

Lemma p1_loop_spans suf : forall pre st,
  J1 pre st ->
  match p1_loop None st suf with
  | AOk st' => J1 (pre ++ suf) st'
  | AErr k sp => spans_ok (pre ++ suf) k sp
  | APanic => True
  end.
Proof.
  induction suf as [|s suf IH]; intros pre st J; cbn [p1_loop].
  - rewrite app_nil_r. exact J.
  - pose proof (p1_step_spans pre st s J) as S. destruct (p1_step None st s) as [st1|k sp|]; cbn [abind]; [| |exact Logic.I].
    + specialize (IH (pre ++ [s]) st1 S). rewrite <- app_assoc in IH. exact IH.
    + replace (pre ++ s :: suf) with ((pre ++ [s]) ++ suf) by (rewrite <- app_assoc; reflexivity). apply spans_ok_mono. exact S.
Qed.

Lemma pass1_spans p k sp : pass1 p None = AErr k sp -> spans_ok p k sp.
Proof.
  unfold pass1. intros E.
  assert (J0 : J1 [] (mkP1 None [] [] None)) by (split; [intros ? ? [] | discriminate]).
  pose proof (p1_loop_spans p [] _ J0) as S. cbn [app] in S.
  destruct (p1_loop None (mkP1 None [] [] None) p) as [st|k0 sp0|]; cbn [abind] in E; [|injection E as <- <-; exact S|discriminate].
  destruct (p1_cur st) as [cu|] eqn:ECU.
  - injection E as <- <-. destruct S as [_ JC]. split; [discriminate|]. split; [|discriminate].
    constructor; [left; exact (JC cu ECU)|constructor].
  - destruct (p1_lines st); discriminate.
Qed.

(* ---------- pass 2 ---------- *)
Lemma bt_insert_in {V} (m : list (Z * V)) k v x : In x (bt_insert k v m) -> x = (k, v) \/ In x m.
Proof.
  induction m as [|[k0 v0] m IH]; cbn [bt_insert]; intros H.
  - destruct H as [<-|[]]. left; reflexivity.
  - destruct (k <? k0); [destruct H as [<-|H]; [left; reflexivity | right; exact H]|].
    destruct (k =? k0); [destruct H as [<-|H]; [left; reflexivity | right; right; exact H]|].
    destruct H as [<-|H]; [right; left; reflexivity|]. destruct (IH H) as [->|H']; [left; reflexivity | right; right; exact H'].
Qed.
Lemma bt_le_in {V} (m : list (Z * V)) k x : bt_le k m = Some x -> In x m.
Proof.
  induction m as [|[k0 v0] m IH]; cbn [bt_le]; [discriminate|]. destruct (k0 <=? k); [|discriminate].
  destruct (bt_le k m) as [y|]; intros [= <-]; [right; apply IH; reflexivity | left; reflexivity].
Qed.
Lemma bt_ge_in {V} (m : list (Z * V)) k x : bt_ge k m = Some x -> In x m.
Proof.
  induction m as [|[k0 v0] m IH]; cbn [bt_ge]; [discriminate|]. destruct (k <=? k0); [intros [= <-]; left; reflexivity | intros H; right; exact (IH H)].
Qed.
Lemma find_overlap_in blk cands b : find_overlap blk cands = AOk (Some b) -> exists k, In (k, b) cands.
Proof.
  induction cands as [|[k0 b0] cands IH]; cbn [find_overlap]; [discriminate|].
  destruct (ob_range blk); [|discriminate]. destruct (ob_range b0); [|discriminate].
  destruct (ranges_overlap p p0); [intros [= <-]; exists k0; left; reflexivity|].
  intros H. destruct (IH H) as [k Hk]. exists k. right. exact Hk.
Qed.

Lemma find_overlap_no_err blk cands k sp : find_overlap blk cands <> AErr k sp.
Proof.
  induction cands as [|[k0 b0] cands IH]; cbn [find_overlap]; [discriminate|].
  destruct (ob_range blk); [|discriminate]. destruct (ob_range b0); [|discriminate].
  destruct (ranges_overlap p p0); [discriminate | exact IH].
Qed.

Definition J2 (pre : list stmt) (st : p2) : Prop :=
  (forall lc blk, p2_cur st = Some (lc, blk) -> In (ob_span blk) (stmt_spans pre))
  /\ (forall k b, In (k, b) (p2_map st) -> In (ob_span b) (stmt_spans pre)).

Lemma rpo_spans n o pc L k sp : replace_pc_offset n o pc L = AErr k sp ->
  label_kind k = true /\ exists l, o = PLab l /\ sp = [label_span l].
Proof.
  unfold replace_pc_offset. destruct o as [v|l]; [discriminate|].
  destruct (assoc (upper (l_name l)) L) as [d|].
  - destruct (sd_external d); [intros [= <- <-]; split; [reflexivity | exists l; split; reflexivity]|].
    destruct (new_s n (to_i16 (sd_addr d - pc))); try discriminate. intros [= <- <-]. split; [reflexivity | exists l; split; reflexivity].
  - intros [= <- <-]. split; [reflexivity | exists l; split; reflexivity].
Qed.

Lemma into_sim_spans s i pc L k sp : s_nucleus s = NInstr i -> into_sim_instr i pc L = AErr k sp ->
  label_kind k = true /\ exists l, In l (labels_in s) /\ sp = [label_span l].
Proof.
  intros EN E.
  assert (G : forall n o (f : Z -> sim_instr), operand_of s = match o with PLab l => Some (n, l) | _ => None end ->
                abind (replace_pc_offset n o pc L) (fun v => AOk (f v)) = AErr k sp ->
                label_kind k = true /\ exists l, In l (labels_in s) /\ sp = [label_span l]).
  { intros n o f EO H. destruct (replace_pc_offset n o pc L) as [v|k0 sp0|] eqn:R; cbn [abind] in H; try discriminate.
    injection H as <- <-. destruct (rpo_spans _ _ _ _ _ _ R) as [K [l [-> ->]]]. split; [exact K|]. exists l. split; [|reflexivity].
    unfold labels_in. rewrite EO. apply in_or_app. right. apply in_or_app. right. left. reflexivity. }
  unfold operand_of in G. rewrite EN in G.
  destruct i; cbn [into_sim_instr] in E; try discriminate;
    match type of E with abind (replace_pc_offset ?n ?o _ _) (fun v => AOk (@?f v)) = _ => apply (G n o f); [destruct o; reflexivity | exact E] end.
Qed.

Lemma p2_step_spans L pre st s :
  J2 pre st ->
  match p2_step L st s with
  | AOk st' => J2 (pre ++ [s]) st'
  | AErr k sp => spans_ok (pre ++ [s]) k sp
  | APanic => True
  end.
Proof.
  intros [JC JM].
  assert (SS : forall k, label_kind k = false -> spans_ok (pre ++ [s]) k [stmt_span s]).
  { intros k K. apply spans_ok_mono_l. split; [discriminate|]. split; [constructor; [left; apply stmt_span_in|constructor] | rewrite K; discriminate]. }
  assert (LS : forall k l, label_kind k = true -> In l (labels_in s) -> spans_ok (pre ++ [s]) k [label_span l]).
  { intros k l K Hl. apply spans_ok_mono_l. split; [discriminate|].
    split; [|intros _]; constructor; try constructor; try right; apply label_span_in; exact Hl. }
  assert (MONO : forall x, In x (stmt_spans pre) -> In x (stmt_spans (pre ++ [s]))).
  { intros x H. unfold stmt_spans. rewrite map_app. apply in_or_app. left. exact H. }
  assert (KEEP : forall lc' w', forall lc blk, p2_cur st = Some (lc, blk) ->
            J2 (pre ++ [s]) (mkP2 (p2_map st) (Some (lc', mkOB (ob_start blk) w' (ob_span blk))))).
  { intros lc' w' lc blk EC. split.
    - intros lc0 blk0 [= <- <-]. cbn [ob_span]. apply MONO. exact (JC lc blk EC).
    - intros k b H. apply MONO. exact (JM k b H). }
  unfold p2_step. destruct (s_nucleus s) as [i|d] eqn:EN.
  - destruct (p2_cur st) as [[lc blk]|] eqn:EC; [|apply SS; reflexivity].
    destruct (into_sim_instr i (wrap16 (lc + 1)) L) as [sim|k sp|] eqn:EI; cbn [abind]; [|idtac|exact Logic.I].
    + apply (KEEP _ _ lc blk eq_refl).
    + destruct (into_sim_spans s i _ L k sp EN EI) as [K [l [Hl ->]]]. apply LS; assumption.
  - destruct d as [a|o|n|t| |l].
    + destruct (p2_cur st) as [[lc blk]|] eqn:EC; [exact Logic.I|]. split.
      * intros lc0 blk0 [= <- <-]. cbn [ob_span]. unfold stmt_spans. rewrite map_app. apply in_or_app. right. left. reflexivity.
      * intros k b H. apply MONO. exact (JM k b H).
    + destruct (p2_cur st) as [[lc blk]|] eqn:EC; [|apply SS; reflexivity]. cbn [word_len].
      destruct o as [v|l]; cbn [write_directive abind]; [apply (KEEP _ _ lc blk eq_refl)|].
      destruct (lookup_label_map L (l_name l)); cbn [abind]; [apply (KEEP _ _ lc blk eq_refl)|].
      apply LS; [reflexivity|]. unfold labels_in, operand_of. rewrite EN. apply in_or_app. right. left. reflexivity.
    + destruct (p2_cur st) as [[lc blk]|] eqn:EC; [|apply SS; reflexivity]. cbn [word_len write_directive abind]. apply (KEEP _ _ lc blk eq_refl).
    + destruct (p2_cur st) as [[lc blk]|] eqn:EC; [|apply SS; reflexivity].
      destruct (word_len (DStringz t)); [|exact Logic.I]. cbn [write_directive abind]. apply (KEEP _ _ lc blk eq_refl).
    + destruct (p2_cur st) as [[lc blk]|] eqn:EC; [|apply SS; reflexivity].
      assert (JN : forall m, (forall k b, In (k, b) m -> In (ob_span b) (stmt_spans pre)) -> J2 (pre ++ [s]) (mkP2 m None)).
      { intros m H. split; [discriminate|]. intros k b Hb. apply MONO. exact (H k b Hb). }
      destruct (ob_words blk); [apply JN; exact JM|].
      destruct (find_overlap blk _) as [[other|]|k sp|] eqn:FO; cbn [abind]; [| |exfalso; exact (find_overlap_no_err _ _ _ _ FO)|exact Logic.I].
      * destruct (find_overlap_in _ _ _ FO) as [k Hk]. apply in_app_or in Hk.
        assert (Ho : In (ob_span other) (stmt_spans pre)).
        { destruct Hk as [Hk|Hk].
          - destruct (bt_le (ob_start blk) (p2_map st)) as [x|] eqn:B; [|contradiction]. destruct Hk as [->|[]]. exact (JM _ _ (bt_le_in _ _ _ B)).
          - destruct (bt_ge (ob_start blk) (p2_map st)) as [x|] eqn:B; [|contradiction]. destruct Hk as [->|[]]. exact (JM _ _ (bt_ge_in _ _ _ B)). }
        pose proof (JC lc blk eq_refl) as Hb.
        split; [destruct (fst (ob_span blk) <=? fst (ob_span other)); discriminate|]. split; [|discriminate].
        destruct (fst (ob_span blk) <=? fst (ob_span other)); (constructor; [left; apply MONO; assumption|]); (constructor; [left; apply MONO; assumption|]); constructor.
      * apply JN. intros k b H. apply bt_insert_in in H. destruct H as [E|H]; [injection E as -> ->; exact (JC lc blk eq_refl) | exact (JM k b H)].
    + split; [intros lc blk H; apply MONO; exact (JC lc blk H) | intros k b H; apply MONO; exact (JM k b H)].
Qed.

Lemma p2_loop_spans L suf : forall pre st,
  J2 pre st ->
  match p2_loop L st suf with
  | AOk st' => J2 (pre ++ suf) st'
  | AErr k sp => spans_ok (pre ++ suf) k sp
  | APanic => True
  end.
Proof.
  induction suf as [|s suf IH]; intros pre st J; cbn [p2_loop].
  - rewrite app_nil_r. exact J.
  - pose proof (p2_step_spans L pre st s J) as S. destruct (p2_step L st s) as [st1|k sp|]; cbn [abind]; [| |exact Logic.I].
    + specialize (IH (pre ++ [s]) st1 S). rewrite <- app_assoc in IH. exact IH.
    + replace (pre ++ s :: suf) with ((pre ++ [s]) ++ suf) by (rewrite <- app_assoc; reflexivity). apply spans_ok_mono. exact S.
Qed.

(* ---------- assemble ---------- *)
Theorem assemble_spans_plain p k sp : assemble false None p = AErr k sp -> spans_ok p k sp.
Proof.
  unfold assemble. destruct (pass1 p None) as [sym|k0 sp0|] eqn:P1; cbn [abind]; [|intros [= <- <-]; exact (pass1_spans p k0 sp0 P1)|discriminate].
  unfold pass2. assert (J0 : J2 [] (mkP2 [] None)) by (split; [discriminate | intros ? ? []]).
  pose proof (p2_loop_spans (st_labels sym) p [] _ J0) as S. cbn [app] in S.
  destruct (p2_loop (st_labels sym) (mkP2 [] None) p) as [st|k0 sp0|]; cbn [abind]; [discriminate|intros [= <- <-]; exact S|discriminate].
Qed.
Theorem assemble_spans_debug text p k sp : assemble true (Some text) p = AErr k sp -> spans_ok p k sp.
Proof.
  intros E. pose proof (assemble_dbg text p) as D. destruct (assemble false None p) as [o0|k0 sp0|] eqn:E0.
  - destruct D as [D|[o1 [D _]]]; congruence.
  - destruct D as [D|D]; [congruence|]. rewrite D in E. injection E as <- <-. exact (assemble_spans_plain p k0 sp0 E0).
  - congruence.
Qed.
