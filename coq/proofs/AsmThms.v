(* AsmThms.v — the assembler theorems (C01, C02) assembled from the two pass invariants. *)
From Coq Require Import ZArith List Bool Lia Permutation Sorted.
From Gen Require Import Constants.
From Model Require Import Tree Text Bits Instr Offset AsmAst Obj SourceInfo Assembler.
From Spec Require Import LayoutSpec WfSpec.
From Proofs Require Import AsmBase AsmPass1 AsmBlocks AsmPass2.
Import ListNotations.
Open Scope Z_scope.
Ltac Zify.zify_post_hook ::= Z.div_mod_to_equations.

(* ---------- wf from the two invariants ---------- *)
Lemma existsb_le {A} (f g : A -> bool) l : (forall x, f x = true -> g x = true) -> existsb g l = false -> existsb f l = false.
Proof.
  intros H G. destruct (existsb f l) eqn:E; [|reflexivity]. exfalso.
  apply existsb_exists in E. destruct E as [x [Hx Fx]].
  assert (existsb g l = true) by (apply existsb_exists; exists x; split; [exact Hx | apply H; exact Fx]). congruence.
Qed.

Lemma wf_of_invariants p L st : P1ok p L -> I2 (bindings p) p st -> wf p = true.
Proof.
  intros [CL R C VL VU VN VIO] HI. pose proof (i2_flags _ _ _ HI) as FL. pose proof (i2_nov _ _ _ HI) as NV.
  unfold wf, v_unclosed. rewrite CL, VL, VU, VN, VIO. cbn [inside negb andb].
  assert (D : v_dup p = false) by (rewrite v_dup_dupb; apply dupb_false_consistent; exact C). rewrite D.
  unfold v_overlap. rewrite NV.
  rewrite v_undet_stmt_f, v_not_found_f, v_external_f, !v_offset_f.
  rewrite (existsb_le f_undet (f_any (bindings p)) _ ltac:(intros x H; unfold f_any; rewrite H; reflexivity) FL).
  rewrite (existsb_le (f_nf (bindings p)) (f_any (bindings p)) _ ltac:(intros x H; unfold f_any; rewrite H, ?orb_true_r; reflexivity) FL).
  rewrite (existsb_le (f_ext (bindings p)) (f_any (bindings p)) _ ltac:(intros x H; unfold f_any; rewrite H, ?orb_true_r; reflexivity) FL).
  rewrite (existsb_le (f_off 9 (bindings p)) (f_any (bindings p)) _ ltac:(intros x H; unfold f_any; rewrite H, ?orb_true_r; reflexivity) FL).
  rewrite (existsb_le (f_off 11 (bindings p)) (f_any (bindings p)) _ ltac:(intros x H; unfold f_any; rewrite H, ?orb_true_r; reflexivity) FL).
  reflexivity.
Qed.

(* ---------- a violated condition makes the program ill-formed ---------- *)
Lemma operand_width s n l : operand_of s = Some (n, l) -> n = 0 \/ n = 9 \/ n = 11.
Proof.
  unfold operand_of. destruct (s_nucleus s) as [i|d].
  - destruct i as [| |? o| |o| |? o|? o| |? o| | | |? o|? o| | |o| | | | | | |]; try discriminate; destruct o; try discriminate; intros [= <- _]; auto.
  - destruct d as [a|[v|l']|m|t| |l']; try discriminate. intros [= <- _]. auto.
Qed.

Lemma wf_no_violation p k : wf p = true -> violated p k = false.
Proof.
  unfold wf. intros H. repeat (apply andb_prop in H; destruct H as [H ?]).
  repeat match goal with H : negb _ = true |- _ => apply negb_true_iff in H end.
  destruct k as [| | | | | | | | |[n|n]| |]; cbn [violated]; try assumption; try reflexivity.
  - (* wrapping is reaching further *)
    match goal with H : v_reach asm.IO_START p = false |- _ => revert H end.
    unfold v_reach. apply existsb_le. intros [[[o a]|] s]; cbn [fst snd]; [|discriminate].
    unfold asm.IO_START. intros X. apply andb_prop in X. destruct X as [X1 X2]. rewrite X1. cbn [andb]. lia.
  - (* only widths 9 and 11 exist *)
    destruct (Z.eq_dec n 9) as [->|N9]; [assumption|]. destruct (Z.eq_dec n 11) as [->|N11]; [assumption|].
    unfold v_offset. match goal with |- ?e = false => destruct e eqn:E end; [|reflexivity]. exfalso.
    apply existsb_exists in E. destruct E as [[[[o a]|] s] [_ E]]; cbn [fst snd] in E; [|discriminate].
    destruct (operand_of s) as [[n' l]|] eqn:EO; [|discriminate].
    destruct (operand_width s n' l EO) as [E0|[E0|E0]]; subst n'.
    + discriminate E.
    + assert (X : (9 =? n) = false) by (apply Z.eqb_neq; lia). rewrite X, andb_false_r in E. discriminate E.
    + assert (X : (11 =? n) = false) by (apply Z.eqb_neq; lia). rewrite X, andb_false_r in E. discriminate E.
Qed.

(* ---------- assemble without debug symbols ---------- *)
Lemma assemble_plain_spec p : typed p = true ->
  match assemble false None p with
  | AOk o => wf p = true /\ exists L st, P1ok p L /\ I2 (bindings p) p st /\
                         o_blocks o = map (fun kb => (fst kb, ob_words (snd kb))) (p2_map st)
  | AErr k sp => violated p k = true
  | APanic => False
  end.
Proof.
  intros T. unfold assemble. pose proof (pass1_nodebug p T) as P1.
  destruct (pass1 p None) as [[L rel dbg]|k sp|]; cbn [abind]; try exact P1.
  destruct P1 as [OK _]. cbn [st_labels] in OK.
  pose proof (pass2_spec p L rel dbg false T OK) as P2.
  destruct (pass2 p _ false) as [o|k sp|]; try exact P2.
  destruct P2 as [st [HI [_ EB]]]. split; [exact (wf_of_invariants p L st OK HI)|].
  exists L, st. split; [exact OK | split; [exact HI | exact EB]].
Qed.

Theorem accepts_iff_plain p : typed p = true -> ((exists o, assemble false None p = AOk o) <-> wf p = true).
Proof.
  intros T. pose proof (assemble_plain_spec p T) as S. split.
  - intros [o E]. rewrite E in S. exact (proj1 S).
  - intros W. destruct (assemble false None p) as [o|k sp|]; [exists o; reflexivity | | contradiction].
    rewrite (wf_no_violation p k W) in S. discriminate.
Qed.
Theorem error_names_violation_plain p k sp : typed p = true -> assemble false None p = AErr k sp -> violated p k = true.
Proof. intros T E. pose proof (assemble_plain_spec p T) as S. rewrite E in S. exact S. Qed.
Theorem total_plain p : typed p = true -> assemble false None p <> APanic.
Proof. intros T E. pose proof (assemble_plain_spec p T) as S. rewrite E in S. exact S. Qed.

(* ---------- the image ---------- *)
Definition image (o : objfile) (a : Z) : option (option Z) := cell_at a (addr_iter o).

Lemma enum_from_cells a (ws : list (option Z)) : enum_from a ws = cells_from a ws.
Proof. revert a. induction ws as [|w ws IH]; intros a; cbn; [reflexivity|]. rewrite IH. reflexivity. Qed.
Lemma cells_from_keys a ws x w : In (x, w) (cells_from a ws) -> a <= x < a + len ws.
Proof.
  revert a. induction ws as [|w0 ws IH]; intros a H; cbn [cells_from] in H; [contradiction|].
  unfold len in *. cbn [length]. destruct H as [H|H].
  - injection H as <- _. lia.
  - specialize (IH _ H). lia.
Qed.
Lemma cells_from_nodup a ws : NoDup (map fst (cells_from a ws)).
Proof.
  revert a. induction ws as [|w ws IH]; intros a; cbn [cells_from map fst]; constructor; [|apply IH].
  intros H. apply in_map_iff in H. destruct H as [[x w'] [E H]]. cbn in E. subst x.
  apply cells_from_keys in H. lia.
Qed.
Lemma flat_map_bcells_filter l : flat_map bcells (filter nonempty l) = flat_map bcells l.
Proof.
  induction l as [|[o ws] l IH]; [reflexivity|]. cbn [filter flat_map]. unfold nonempty at 1. cbn [snd].
  destruct ws; cbn [flat_map]; rewrite IH; reflexivity.
Qed.

Lemma map_cells_nodup m : map_inv m -> NoDup (map fst (flat_map bcells (map strip m))).
Proof.
  intros [S [OK DJ]]. induction m as [|[k b] m IH]; [constructor|].
  cbn [map flat_map]. rewrite map_app. apply ksorted_inv in S. destruct S as [S F]. rewrite Forall_forall in F.
  assert (IH' : NoDup (map fst (flat_map bcells (map strip m)))).
  { apply IH; [exact S | intros; apply (OK k0 b0); right; assumption | intros; apply (DJ k0 b0 k' b'); try (right; assumption); assumption]. }
  clear IH. apply NoDup_app_disjoint; [apply cells_from_nodup | exact IH' |].
  intros x H1 H2. apply in_map_iff in H1, H2. destruct H1 as [[x1 w1] [E1 H1]]. destruct H2 as [[x2 w2] [E2 H2]]. cbn in E1, E2. subst x1 x2.
  unfold bcells, strip in H1. cbn [fst snd] in H1. apply cells_from_keys in H1.
  apply in_flat_map in H2. destruct H2 as [d [Hd H2]]. apply in_map_iff in Hd. destruct Hd as [[k' b'] [<- Hb']].
  unfold bcells, strip in H2. cbn [fst snd] in H2. apply cells_from_keys in H2.
  destruct (OK k b (or_introl eq_refl)) as [Ek _]. destruct (OK k' b' (or_intror Hb')) as [Ek' _].
  specialize (F _ Hb'). unfold key_lt in F. cbn in F.
  assert (D : ranges_overlap (rng b) (rng b') = false) by (apply (DJ k b k' b'); [left; reflexivity | right; exact Hb' | lia]).
  apply ranges_overlap_false in D. unfold rng in D. cbn [fst snd] in D. lia.
Qed.

Lemma cell_at_in {A} (l : list (Z * A)) a v : NoDup (map fst l) -> (cell_at a l = Some v <-> In (a, v) l).
Proof.
  induction l as [|[k w] l IH]; intros N; cbn [cell_at]; [split; [discriminate|contradiction]|].
  cbn [map fst] in N. inversion N as [|? ? N1 N2]; subst. destruct (k =? a) eqn:E.
  - apply Z.eqb_eq in E. subst k. split.
    + intros [= ->]. left. reflexivity.
    + intros [H|H]; [congruence|]. exfalso. apply N1. apply (in_map fst) in H. exact H.
  - apply Z.eqb_neq in E. rewrite (IH N2). split; [intros H; right; exact H|]. intros [H|H]; [congruence|exact H].
Qed.
Lemma cell_at_perm {A} (l l' : list (Z * A)) a : NoDup (map fst l) -> Permutation l l' -> cell_at a l = cell_at a l'.
Proof.
  intros N P. assert (N' : NoDup (map fst l')) by (apply (Permutation_NoDup (Permutation_map fst P)); exact N).
  destruct (cell_at a l) as [v|] eqn:E.
  - apply (cell_at_in l a v N) in E. apply (Permutation_in _ P) in E. apply (cell_at_in l' a v N') in E. congruence.
  - destruct (cell_at a l') as [v|] eqn:E'; [|reflexivity].
    apply (cell_at_in l' a v N') in E'. apply (Permutation_in _ (Permutation_sym P)) in E'. apply (cell_at_in l a v N) in E'. congruence.
Qed.

Lemma addr_iter_cells m :
  map_inv m ->
  flat_map (fun b : Z * list (option Z) => map (fun iw => (wrap16 (fst iw), snd iw)) (enum_from (fst b) (snd b)))
           (map (fun kb : Z * oblock => (fst kb, ob_words (snd kb))) m)
  = flat_map bcells (map strip m).
Proof.
  intros [_ [OK _]]. induction m as [|[k b] m IH]; [reflexivity|]. cbn [map flat_map fst snd].
  rewrite IH by (intros; apply (OK k0 b0); right; assumption). f_equal.
  destruct (OK k b (or_introl eq_refl)) as [-> [_ [B0 B1]]]. unfold bcells, strip. cbn [fst snd].
  rewrite enum_from_cells. unfold asm.IO_START in B1.
  assert (G : forall l, (forall x w, In (x, w) l -> 0 <= x < 65536) -> map (fun iw : Z * option Z => (wrap16 (fst iw), snd iw)) l = l).
  { induction l as [|[x w] l IHl]; intros H; [reflexivity|]. cbn [map fst snd]. rewrite IHl by (intros; apply (H x0 w0); right; assumption).
    unfold wrap16. rewrite Z.mod_small by (apply (H x w); left; reflexivity). reflexivity. }
  apply G. intros x w H. apply cells_from_keys in H. lia.
Qed.

Theorem image_plain p : wf p = true -> typed p = true ->
  exists o, assemble false None p = AOk o /\ forall a, image o a = spec_image p a.
Proof.
  intros W T. pose proof (assemble_plain_spec p T) as S.
  destruct (assemble false None p) as [o|k sp|]; [|rewrite (wf_no_violation p k W) in S; discriminate|contradiction].
  exists o. split; [reflexivity|]. intros a. destruct S as [_ [L [st [OK [HI EB]]]]].
  unfold image, addr_iter, spec_image, spec_cells. rewrite EB.
  pose proof (i2_map _ _ _ HI) as MI. rewrite (addr_iter_cells _ MI).
  pose proof (i2_cells _ _ _ HI) as CE. rewrite (ok_closed _ _ OK), app_nil_r in CE. rewrite <- CE.
  rewrite <- (flat_map_bcells_filter (fst (ref_run (bindings p) p))).
  apply cell_at_perm; [apply map_cells_nodup; exact MI|].
  apply Permutation_flat_map. exact (i2_perm _ _ _ HI).
Qed.

(* ---------- with debug symbols ---------- *)
From Proofs Require Import AsmDebug.

Lemma image_blocks o o' : o_blocks o = o_blocks o' -> forall a, image o a = image o' a.
Proof. intros E a. unfold image, addr_iter. rewrite E. reflexivity. Qed.

Theorem image_debug text p : wf p = true -> typed p = true -> assemble true (Some text) p <> APanic ->
  exists o, assemble true (Some text) p = AOk o /\ forall a, image o a = spec_image p a.
Proof.
  intros W T NP. destruct (image_plain p W T) as [o0 [E0 I0]].
  pose proof (assemble_dbg text p) as D. rewrite E0 in D. destruct D as [D|[o1 [E1 B]]]; [contradiction|].
  exists o1. split; [exact E1|]. intros a. rewrite (image_blocks o1 o0 B). apply I0.
Qed.

Theorem accepts_iff_debug text p : typed p = true -> assemble true (Some text) p <> APanic ->
  ((exists o, assemble true (Some text) p = AOk o) <-> wf p = true).
Proof.
  intros T NP. pose proof (assemble_dbg text p) as D. pose proof (assemble_plain_spec p T) as S. split.
  - intros [o E]. destruct (assemble false None p) as [o0|k sp|].
    + exact (proj1 S).
    + destruct D as [D|D]; congruence.
    + contradiction.
  - intros W. destruct (image_debug text p W T NP) as [o [E _]]. exists o. exact E.
Qed.
Theorem error_names_violation_debug text p k sp : typed p = true ->
  assemble true (Some text) p = AErr k sp -> violated p k = true.
Proof.
  intros T E. pose proof (assemble_dbg text p) as D. pose proof (assemble_plain_spec p T) as S.
  destruct (assemble false None p) as [o0|k0 sp0|].
  - destruct D as [D|[o1 [D _]]]; congruence.
  - destruct D as [D|D]; [congruence|]. rewrite D in E. injection E as <- <-. exact S.
  - contradiction.
Qed.
Theorem debug_irrelevant text p :
  (forall o1, assemble true (Some text) p = AOk o1 ->
     exists o0, assemble false None p = AOk o0 /\ o_blocks o1 = o_blocks o0 /\ forall a, image o1 a = image o0 a)
  /\ (forall k sp, assemble true (Some text) p = AErr k sp -> assemble false None p = AErr k sp).
Proof.
  pose proof (assemble_dbg text p) as D. split.
  - intros o1 E. destruct (assemble false None p) as [o0|k sp|].
    + destruct D as [D|[o1' [D B]]]; [congruence|]. rewrite D in E. injection E as <-. exists o0. split; [reflexivity|]. split; [exact B|].
      apply image_blocks. exact B.
    + destruct D as [D|D]; congruence.
    + congruence.
  - intros k sp E. destruct (assemble false None p) as [o0|k0 sp0|].
    + destruct D as [D|[o1 [D _]]]; congruence.
    + destruct D as [D|D]; congruence.
    + congruence.
Qed.

(* ---------- labels ---------- *)
Theorem labels_spec src p sym : typed p = true -> pass1 p src = AOk sym ->
  forall name, assoc (upper name) (st_labels sym) = option_map sym_of (spec_label p name).
Proof.
  intros T E name. pose proof (pass1_nodebug p T) as P.
  assert (G : forall sym0, pass1 p None = AOk sym0 -> st_labels sym0 = st_labels sym ->
                 assoc (upper name) (st_labels sym) = option_map sym_of (spec_label p name)).
  { intros sym0 E0 EL. rewrite E0 in P. destruct P as [OK _]. rewrite <- EL. apply rep_lookup. exact (ok_rep _ _ OK). }
  destruct src as [text|].
  - pose proof (pass1_dbg text p) as D. destruct (pass1 p None) as [sym0|k sp|].
    + destruct D as [D|[m D]]; [congruence|]. rewrite D in E. injection E as <-. apply (G sym0 eq_refl). reflexivity.
    + destruct D as [D|D]; congruence.
    + congruence.
  - apply (G sym E). reflexivity.
Qed.

(* ---------- PC-relative operands ---------- *)
Lemma field_value_sound n t a f : n = 9 \/ n = 11 -> field_value n t a = Some f ->
  - 2 ^ (n - 1) <= f < 2 ^ (n - 1) /\ (a + 1 + f) mod 65536 = t mod 65536.
Proof.
  intros Hn. unfold field_value. set (d := (t - (a + 1)) mod 65536).
  assert (Hd : 0 <= d < 65536) by (unfold d; lia).
  assert (Hc : (a + 1 + d) mod 65536 = t mod 65536).
  { unfold d. rewrite Zplus_mod_idemp_r. f_equal. lia. }
  destruct Hn as [-> | ->]; [change (2 ^ (9 - 1)) with 256 | change (2 ^ (11 - 1)) with 1024];
  repeat match goal with |- context [if ?c then _ else _] => destruct c eqn:? end; intros E; try discriminate E; injection E as <-;
  (split; [lia|]); try exact Hc; rewrite <- Hc; replace (a + 1 + (d - 65536)) with (a + 1 + d + (-1) * 65536) by lia; apply Z_mod_plus_full.
Qed.

Theorem offset_spec p c s n l : wf p = true -> In (c, s) (placed p) -> operand_of s = Some (n, l) -> 0 < n ->
  exists o a b f, c = Some (o, a) /\ spec_label p (l_name l) = Some b /\ b_ext b = false /\
    field_value n (b_addr b) a = Some f /\ - 2 ^ (n - 1) <= f < 2 ^ (n - 1) /\ (a + 1 + f) mod 65536 = b_addr b mod 65536.
Proof.
  intros W Hin EO Hn. unfold wf in W. repeat (apply andb_prop in W; destruct W as [W ?]).
  repeat match goal with H : negb _ = true |- _ => apply negb_true_iff in H end.
  assert (Hw : n = 9 \/ n = 11) by (destruct (operand_width s n l EO) as [E0|[E0|E0]]; [lia|auto|auto]).
  match goal with H : v_undet_stmt p = false |- _ => pose proof (existsb_false_in _ _ _ H Hin) as K1 end.
  match goal with H : v_not_found p = false |- _ => pose proof (existsb_false_in _ _ _ H Hin) as K2 end.
  match goal with H : v_external p = false |- _ => pose proof (existsb_false_in _ _ _ H Hin) as K3 end.
  cbn [fst snd] in K1, K2, K3. rewrite EO in K2, K3.
  assert (NA : needs_addr s = true).
  { unfold operand_of in EO. unfold needs_addr. destruct (s_nucleus s) as [i|[?|?|?|?| |?]]; try reflexivity; discriminate. }
  rewrite NA, andb_true_r in K1. destruct c as [[o a]|]; [|discriminate K1].
  unfold spec_label. destruct (lookup (l_name l) (bindings p)) as [b|] eqn:EL; [|discriminate K2].
  assert (Hp : (0 <? n) = true) by lia. rewrite Hp in K3. cbn [andb] in K3.
  assert (K4 : f_off n (bindings p) (Some (o, a), s) = false).
  { destruct Hw as [E0 | E0]; subst n; match goal with H : v_offset ?m p = false |- f_off ?m _ _ = false => exact (existsb_false_in _ _ _ H Hin) end. }
  unfold f_off in K4. cbn [fst snd] in K4. rewrite EO, EL, Hp, Z.eqb_refl, K3 in K4. cbn [andb negb] in K4.
  destruct (field_value n (b_addr b) a) as [f|] eqn:F; [|discriminate K4].
  destruct (field_value_sound n (b_addr b) a f Hw F) as [R1 R2].
  exists o, a, b, f. repeat split; try assumption; lia.
Qed.

(* ---------- no address is occupied twice in a well-formed program ---------- *)
Theorem wf_cells_nodup p : typed p = true -> wf p = true -> NoDup (map fst (spec_cells p)).
Proof.
  intros T W. pose proof (assemble_plain_spec p T) as S.
  destruct (assemble false None p) as [o|k sp|]; [|rewrite (wf_no_violation p k W) in S; discriminate|contradiction].
  destruct S as [_ [L [st [OK [HI EB]]]]]. unfold spec_cells.
  pose proof (i2_map _ _ _ HI) as MI.
  pose proof (i2_cells _ _ _ HI) as CE. rewrite (ok_closed _ _ OK), app_nil_r in CE. rewrite <- CE.
  rewrite <- (flat_map_bcells_filter (fst (ref_run (bindings p) p))).
  apply (Permutation_NoDup (l := map fst (flat_map bcells (map strip (p2_map st))))); [|apply map_cells_nodup; exact MI].
  apply Permutation_map. apply Permutation_flat_map. exact (i2_perm _ _ _ HI).
Qed.

Theorem pass1_ok src p sym : typed p = true -> pass1 p src = AOk sym -> P1ok p (st_labels sym).
Proof.
  intros T E. pose proof (pass1_nodebug p T) as P. destruct src as [text|].
  - pose proof (pass1_dbg text p) as D. destruct (pass1 p None) as [sym0|k sp|].
    + destruct D as [D|[m D]]; [congruence|]. rewrite D in E. injection E as <-. exact (proj1 P).
    + destruct D as [D|D]; congruence.
    + congruence.
  - rewrite E in P. exact (proj1 P).
Qed.

(* assemble_debug stores exactly the symbol table of pass 1 *)
Theorem debug_keeps_symtab text p o : assemble true (Some text) p = AOk o ->
  exists sym, pass1 p (Some text) = AOk sym /\ o_sym o = Some sym.
Proof.
  unfold assemble. destruct (pass1 p (Some text)) as [sym|k sp|]; cbn [abind]; try discriminate.
  unfold pass2. destruct (p2_loop (st_labels sym) (mkP2 [] None) p) as [st|k sp|]; cbn [abind]; try discriminate.
  intros [= <-]. exists sym. split; reflexivity.
Qed.
