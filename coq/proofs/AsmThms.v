(* AsmThms.v — the assembler theorems (C01, C02) assembled from the two pass invariants. *)
From Coq Require Import ZArith List Bool Lia Permutation Sorted.
From Gen Require Import Constants.
From Model Require Import Tree Text Bits Instr Offset AsmAst Obj SourceInfo Assembler.
From Spec Require Import LayoutSpec WfSpec.
From Proofs Require Import AsmBase AsmPass1 AsmBlocks AsmPass2.
Import ListNotations.
Open Scope Z_scope.
Ltac Zify.zify_post_hook ::= Z.div_mod_to_equations.

(* ---------- wf from the two invariants ---------- *)
Lemma existsb_le {A} (f g : A -> bool) l : (forall x, f x = true -> g x = true) -> existsb g l = false -> existsb f l = false.
Proof.
  intros H G. destruct (existsb f l) eqn:E; [|reflexivity]. exfalso.
  apply existsb_exists in E. destruct E as [x [Hx Fx]].
  assert (existsb g l = true) by (apply existsb_exists; exists x; split; [exact Hx | apply H; exact Fx]). congruence.
Qed.

Lemma wf_of_invariants p L st : P1ok p L -> I2 (bindings p) p st -> wf p = true.
Proof.
  intros [CL R C VL VU VN VIO] HI. pose proof (i2_flags _ _ _ HI) as FL. pose proof (i2_nov _ _ _ HI) as NV.
  unfold wf, v_unclosed. rewrite CL, VL, VU, VN, VIO. cbn [inside negb andb].
  assert (D : v_dup p = false) by (rewrite v_dup_dupb; apply dupb_false_consistent; exact C). rewrite D.
  unfold v_overlap. rewrite NV.
  rewrite v_undet_stmt_f, v_not_found_f, v_external_f, !v_offset_f.
  rewrite (existsb_le f_undet (f_any (bindings p)) _ ltac:(intros x H; unfold f_any; rewrite H; reflexivity) FL).
  rewrite (existsb_le (f_nf (bindings p)) (f_any (bindings p)) _ ltac:(intros x H; unfold f_any; rewrite H, ?orb_true_r; reflexivity) FL).
  rewrite (existsb_le (f_ext (bindings p)) (f_any (bindings p)) _ ltac:(intros x H; unfold f_any; rewrite H, ?orb_true_r; reflexivity) FL).
  rewrite (existsb_le (f_off 9 (bindings p)) (f_any (bindings p)) _ ltac:(intros x H; unfold f_any; rewrite H, ?orb_true_r; reflexivity) FL).
  rewrite (existsb_le (f_off 11 (bindings p)) (f_any (bindings p)) _ ltac:(intros x H; unfold f_any; rewrite H, ?orb_true_r; reflexivity) FL).
  reflexivity.
Qed.

(* ---------- a violated condition makes the program ill-formed ---------- *)
Lemma operand_width s n l : operand_of s = Some (n, l) -> n = 0 \/ n = 9 \/ n = 11.
Proof.
  unfold operand_of. destruct (s_nucleus s) as [i|d].
  - destruct i as [| |? o| |o| |? o|? o| |? o| | | |? o|? o| | |o| | | | | | |]; try discriminate; destruct o; try discriminate; intros [= <- _]; auto.
  - destruct d as [a|[v|l']|m|t| |l']; try discriminate. intros [= <- _]. auto.
Qed.

Lemma wf_no_violation p k : wf p = true -> violated p k = false.
Proof.
  unfold wf. intros H. repeat (apply andb_prop in H; destruct H as [H ?]).
  repeat match goal with H : negb _ = true |- _ => apply negb_true_iff in H end.
  destruct k as [| | | | | | | | |[n|n]| |]; cbn [violated]; try assumption; try reflexivity.
  - (* wrapping is reaching further *)
    match goal with H : v_reach asm.IO_START p = false |- _ => revert H end.
    unfold v_reach. apply existsb_le. intros [[[o a]|] s]; cbn [fst snd]; [|discriminate].
    unfold asm.IO_START. intros X. apply andb_prop in X. destruct X as [X1 X2]. rewrite X1. cbn [andb]. lia.
  - (* only widths 9 and 11 exist *)
    destruct (Z.eq_dec n 9) as [->|N9]; [assumption|]. destruct (Z.eq_dec n 11) as [->|N11]; [assumption|].
    unfold v_offset. match goal with |- ?e = false => destruct e eqn:E end; [|reflexivity]. exfalso.
    apply existsb_exists in E. destruct E as [[[[o a]|] s] [_ E]]; cbn [fst snd] in E; [|discriminate].
    destruct (operand_of s) as [[n' l]|] eqn:EO; [|discriminate].
    destruct (operand_width s n' l EO) as [E0|[E0|E0]]; subst n'.
    + discriminate E.
    + assert (X : (9 =? n) = false) by (apply Z.eqb_neq; lia). rewrite X, andb_false_r in E. discriminate E.
    + assert (X : (11 =? n) = false) by (apply Z.eqb_neq; lia). rewrite X, andb_false_r in E. discriminate E.
Qed.

(* ---------- assemble without debug symbols ---------- *)
Lemma assemble_plain_spec p : typed p = true ->
  match assemble false None p with
  | AOk o => wf p = true /\ exists L st, P1ok p L /\ I2 (bindings p) p st /\
                         o_blocks o = map (fun kb => (fst kb, ob_words (snd kb))) (p2_map st)
  | AErr k sp => violated p k = true
  | APanic => False
  end.
Proof.
  intros T. unfold assemble. pose proof (pass1_nodebug p T) as P1.
  destruct (pass1 p None) as [[L rel dbg]|k sp|]; cbn [abind]; try exact P1.
  destruct P1 as [OK _]. cbn [st_labels] in OK.
  pose proof (pass2_spec p L rel dbg false T OK) as P2.
  destruct (pass2 p _ false) as [o|k sp|]; try exact P2.
  destruct P2 as [st [HI [_ EB]]]. split; [exact (wf_of_invariants p L st OK HI)|].
  exists L, st. split; [exact OK | split; [exact HI | exact EB]].
Qed.

Theorem accepts_iff_plain p : typed p = true -> ((exists o, assemble false None p = AOk o) <-> wf p = true).
Proof.
  intros T. pose proof (assemble_plain_spec p T) as S. split.
  - intros [o E]. rewrite E in S. exact (proj1 S).
  - intros W. destruct (assemble false None p) as [o|k sp|]; [exists o; reflexivity | | contradiction].
    rewrite (wf_no_violation p k W) in S. discriminate.
Qed.
Theorem error_names_violation_plain p k sp : typed p = true -> assemble false None p = AErr k sp -> violated p k = true.
Proof. intros T E. pose proof (assemble_plain_spec p T) as S. rewrite E in S. exact S. Qed.
Theorem total_plain p : typed p = true -> assemble false None p <> APanic.
Proof. intros T E. pose proof (assemble_plain_spec p T) as S. rewrite E in S. exact S. Qed.
