(* DevHandlerProofs.v — proofs about model/DevHandler.v for C32: invariant of the device handler,
   refinement to the port table of spec/PortSpec.v over arbitrary histories, dispatch of reads
   and writes, add/remove characterisations, freshness of ids. *)
From Coq Require Import ZArith List Bool Lia Arith Sorted.
From Gen Require Import Constants.
From Model Require Import Tree DevHandler.
From Spec Require Import PortSpec.
Import ListNotations.
Open Scope Z_scope.

(* ------------------------------------------------------------------ constants *)
Lemma IO_START_val : IO_START = 65024. Proof. reflexivity. Qed.
Lemma is_io_io_addr a : is_io a = io_addr a. Proof. reflexivity. Qed.
Lemma is_io_iff a : is_io a = true <-> 65024 <= a <= 65535.
Proof. unfold is_io. rewrite IO_START_val, andb_true_iff, !Z.leb_le. tauto. Qed.
Lemma is_io_false a : is_io a = false <-> ~ (65024 <= a <= 65535).
Proof.
  rewrite <- is_io_iff. destruct (is_io a); split; intros H.
  - discriminate.
  - exfalso. apply H. reflexivity.
  - intros H2. discriminate.
  - reflexivity.
Qed.

(* ------------------------------------------------------------------ lists *)
Lemma set_nth_length {A} (x : A) : forall l k, length (set_nth k x l) = length l.
Proof. induction l as [|a l IH]; intros [|k]; cbn [set_nth length]; auto. Qed.
Lemma set_nth_same {A} (x : A) : forall l k, (k < length l)%nat -> nth_error (set_nth k x l) k = Some x.
Proof.
  induction l as [|a l IH]; intros [|k] H; cbn [set_nth length nth_error] in *; try lia; auto.
  apply IH. lia.
Qed.
Lemma set_nth_other {A} (x : A) : forall l k j, j <> k -> nth_error (set_nth k x l) j = nth_error l j.
Proof.
  induction l as [|a l IH]; intros [|k] [|j] H; cbn [set_nth nth_error]; try congruence; auto.
Qed.

Lemma forallb_ext' {A} (f g : A -> bool) : (forall x, f x = g x) -> forall l, forallb f l = forallb g l.
Proof. intros H. induction l as [|a l IH]; cbn [forallb]; [reflexivity|]. rewrite H, IH. reflexivity. Qed.

Lemma mem_z_in p l : mem_z p l = true <-> In p l.
Proof.
  unfold mem_z. rewrite existsb_exists. split.
  - intros (x & Hx & E). apply Z.eqb_eq in E. subst. exact Hx.
  - intros H. exists p. split; [exact H|apply Z.eqb_refl].
Qed.

(* ------------------------------------------------------------------ slots *)
Section Slots.
Context {D : Type}.
Implicit Types h hh : handler D.

Lemma slot_some h id x : slot h id = Some x -> 0 <= id < dev_len h.
Proof.
  unfold slot, dev_len. destruct (id <? 0) eqn:E; [discriminate|]. apply Z.ltb_ge in E.
  intros H. assert (nth_error (h_devs h) (Z.to_nat id) <> None) by congruence.
  apply nth_error_Some in H0. lia.
Qed.
Lemma slot_in_range h id : 0 <= id < dev_len h -> exists x, slot h id = Some x.
Proof.
  unfold slot, dev_len. intros H. destruct (id <? 0) eqn:E; [apply Z.ltb_lt in E; lia|].
  destruct (nth_error (h_devs h) (Z.to_nat id)) eqn:E1; [eauto|].
  apply nth_error_None in E1. lia.
Qed.

(* ------------------------------------------------------------------ the invariant *)
Record h_inv h : Prop := mk_h_inv {
  inv_len : 3 <= dev_len h <= 65536;                       (* slots 0,1,2 exist; ids fit u16 *)
  inv_null : nth_error (h_devs h) 0 = Some None;           (* slot 0 is the null device *)
  inv_range : forall p, 0 <= h_ports h p < dev_len h;       (* every mapped id is a slot *)
  inv_io : forall p, is_io p = false -> h_ports h p = 0;    (* only I/O addresses are mapped *)
  inv_kb : forall p, h_ports h p = 1 <-> (p = 65024 \/ p = 65026);   (* keyboard ports reserved, only they *)
  inv_ds : forall p, h_ports h p = 2 <-> (p = 65028 \/ p = 65030)    (* display ports reserved, only they *)
}.

Lemma new_handler_ports p :
  h_ports (new_handler D) p =
  if p =? 65030 then 2 else if p =? 65028 then 2 else if p =? 65026 then 1 else if p =? 65024 then 1 else 0.
Proof. reflexivity. Qed.
Lemma new_handler_devs : h_devs (new_handler D) = [None; None; None].
Proof. reflexivity. Qed.

Lemma new_handler_inv : h_inv (new_handler D).
Proof.
  split; unfold dev_len; try rewrite new_handler_devs; try (intros p; rewrite new_handler_ports).
  - cbn. lia.
  - reflexivity.
  - cbn [length]. repeat (destruct (p =? _)); lia.
  - intros Hp. apply is_io_false in Hp.
    destruct (p =? 65030) eqn:E1; [apply Z.eqb_eq in E1; lia|].
    destruct (p =? 65028) eqn:E2; [apply Z.eqb_eq in E2; lia|].
    destruct (p =? 65026) eqn:E3; [apply Z.eqb_eq in E3; lia|].
    destruct (p =? 65024) eqn:E4; [apply Z.eqb_eq in E4; lia|]. reflexivity.
  - destruct (p =? 65030) eqn:E1; [apply Z.eqb_eq in E1; lia|].
    destruct (p =? 65028) eqn:E2; [apply Z.eqb_eq in E2; lia|].
    destruct (p =? 65026) eqn:E3; [apply Z.eqb_eq in E3; lia|].
    destruct (p =? 65024) eqn:E4; [apply Z.eqb_eq in E4; lia|].
    apply Z.eqb_neq in E1, E2, E3, E4. lia.
  - destruct (p =? 65030) eqn:E1; [apply Z.eqb_eq in E1; lia|].
    destruct (p =? 65028) eqn:E2; [apply Z.eqb_eq in E2; lia|].
    destruct (p =? 65026) eqn:E3; [apply Z.eqb_eq in E3; lia|].
    destruct (p =? 65024) eqn:E4; [apply Z.eqb_eq in E4; lia|].
    apply Z.eqb_neq in E1, E2, E3, E4. lia.
Qed.

(* ------------------------------------------------------------------ set_port, add_device *)
Lemma set_port_devs h p id : h_devs (set_port h p id) = h_devs h.
Proof. unfold set_port. destruct (is_io p && (h_ports h p =? 0) && (id <? dev_len h)); reflexivity. Qed.

Lemma set_port_ports h p id q :
  h_ports (set_port h p id) q =
  if (q =? p) && (is_io p && (h_ports h p =? 0) && (id <? dev_len h)) then id else h_ports h q.
Proof.
  unfold set_port, upd. destruct (is_io p && (h_ports h p =? 0) && (id <? dev_len h)); cbn [h_ports].
  - rewrite andb_true_r. reflexivity.
  - rewrite andb_false_r. reflexivity.
Qed.

Lemma port_free_iff h p : port_free h p = true <-> is_io p = true /\ h_ports h p = 0.
Proof.
  unfold port_free, get_dev_id. destruct (is_io p).
  - rewrite Z.eqb_eq. tauto.
  - split; [discriminate|intros [H _]; discriminate].
Qed.

Lemma fold_set_port id : forall addrs (hh : handler D), id < dev_len hh -> id <> 0 ->
  (forall p, In p addrs -> is_io p = true /\ (h_ports hh p = 0 \/ h_ports hh p = id)) ->
  h_devs (fold_left (fun x p => set_port x p id) addrs hh) = h_devs hh /\
  forall q, h_ports (fold_left (fun x p => set_port x p id) addrs hh) q =
            if mem_z q addrs then id else h_ports hh q.
Proof.
  induction addrs as [|p rest IH]; intros hh Hlt Hnz Hall.
  - split; reflexivity.
  - cbn [fold_left].
    destruct (Hall p (or_introl eq_refl)) as [Hio Hp].
    destruct (IH (set_port hh p id)) as [Hd Hq].
    + unfold dev_len in *. rewrite set_port_devs. exact Hlt.
    + exact Hnz.
    + intros p' Hin. destruct (Hall p' (or_intror Hin)) as [Hio' Hp']. split; [exact Hio'|].
      rewrite set_port_ports. destruct ((p' =? p) && _); [right; reflexivity|exact Hp'].
    + split; [rewrite Hd; apply set_port_devs|].
      intros q. rewrite Hq. unfold mem_z. cbn [existsb]. fold (mem_z q rest).
      destruct (mem_z q rest); [rewrite orb_true_r; reflexivity|]. rewrite orb_false_r.
      rewrite set_port_ports. destruct (q =? p) eqn:E; cbn [andb]; [|reflexivity].
      apply Z.eqb_eq in E. subst q. rewrite Hio. cbn [andb].
      destruct Hp as [Hp|Hp]; rewrite Hp.
      * cbn [Z.eqb andb]. destruct (id <? dev_len hh) eqn:E2; [reflexivity|]. apply Z.ltb_ge in E2. lia.
      * destruct (id =? 0) eqn:E2; [apply Z.eqb_eq in E2; lia|]. reflexivity.
Qed.

Lemma add_device_ok h d addrs :
  3 <= dev_len h <= 65535 -> forallb (port_free h) addrs = true ->
  exists h', add_device h d addrs = (h', Some (dev_len h)) /\
             h_devs h' = h_devs h ++ [d] /\
             forall q, h_ports h' q = if mem_z q addrs then dev_len h else h_ports h q.
Proof.
  intros Hlen Hfree. unfold add_device.
  destruct (dev_len h <=? 65535) eqn:E; [|apply Z.leb_gt in E; lia]. rewrite Hfree.
  set (h1 := mk_handler (h_devs h ++ [d]) (h_ports h)).
  destruct (fold_set_port (dev_len h) addrs h1) as [Hd Hq].
  - unfold dev_len, h1. cbn [h_devs]. rewrite app_length. cbn [length]. lia.
  - lia.
  - intros p Hin. rewrite forallb_forall in Hfree. apply Hfree, port_free_iff in Hin.
    destruct Hin as [Hio Hz]. split; [exact Hio|left; exact Hz].
  - eexists. split; [reflexivity|]. split; [exact Hd|exact Hq].
Qed.

Lemma add_device_fail h d addrs :
  (dev_len h <=? 65535) && forallb (port_free h) addrs = false -> add_device h d addrs = (h, None).
Proof.
  unfold add_device. destruct (dev_len h <=? 65535); cbn [andb]; [|reflexivity]. intros ->. reflexivity.
Qed.

(* ------------------------------------------------------------------ the invariant is kept *)
Lemma inv_same_ports h h' :
  h_inv h -> h_ports h' = h_ports h -> length (h_devs h') = length (h_devs h) ->
  nth_error (h_devs h') 0 = Some None -> h_inv h'.
Proof.
  intros [H1 H2 H3 H4 H5 H6] Hp Hl Hn. unfold dev_len in *.
  split; unfold dev_len; rewrite ?Hp, ?Hl; assumption.
Qed.

Lemma set_slot_inv h id d h' : h_inv h -> id <> 0 -> set_slot h id d = Some h' -> h_inv h'.
Proof.
  intros Hi Hnz. unfold set_slot. destruct (slot h id) as [x|] eqn:E; [|discriminate].
  intros H. injection H as <-. apply slot_some in E.
  eapply inv_same_ports; [exact Hi| | |]; cbn [h_ports h_devs]; [reflexivity|apply set_nth_length|].
  rewrite set_nth_other by lia. apply Hi.
Qed.

Lemma add_device_inv h d addrs : h_inv h -> h_inv (fst (add_device h d addrs)).
Proof.
  intros Hi. destruct ((dev_len h <=? 65535) && forallb (port_free h) addrs) eqn:E.
  - apply andb_true_iff in E. destruct E as [E1 E2]. apply Z.leb_le in E1.
    destruct (add_device_ok h d addrs) as (h' & Ea & Hd & Hq); [pose proof (inv_len _ Hi); lia|exact E2|].
    rewrite Ea. cbn [fst].
    assert (Hfree : forall q, mem_z q addrs = true -> is_io q = true /\ h_ports h q = 0).
    { intros q Hq'. apply mem_z_in in Hq'. rewrite forallb_forall in E2. apply port_free_iff, E2, Hq'. }
    assert (Hl : dev_len h' = dev_len h + 1).
    { unfold dev_len. rewrite Hd, app_length. cbn [length]. lia. }
    destruct Hi as [H1 H2 H3 H4 H5 H6].
    split.
    + lia.
    + rewrite Hd. destruct (h_devs h) as [|x r] eqn:Eh; [discriminate H2|exact H2].
    + intros p. rewrite Hq, Hl. specialize (H3 p). destruct (mem_z p addrs); lia.
    + intros p Hp. rewrite Hq. destruct (mem_z p addrs) eqn:Em; [|apply H4, Hp].
      destruct (Hfree p Em) as [Hio _]. congruence.
    + intros p. rewrite Hq. destruct (mem_z p addrs) eqn:Em; [|apply H5].
      destruct (Hfree p Em) as [_ Hz]. rewrite <- H5, Hz. lia.
    + intros p. rewrite Hq. destruct (mem_z p addrs) eqn:Em; [|apply H6].
      destruct (Hfree p Em) as [_ Hz]. rewrite <- H6, Hz. lia.
  - rewrite (add_device_fail h d addrs E). exact Hi.
Qed.

Lemma remove_device_ports h id p :
  h_ports (remove_device h id) p =
  if (0 <=? id) && (id <? dev_len h) && negb (is_fixed id) && (h_ports h p =? id) then 0 else h_ports h p.
Proof.
  unfold remove_device. destruct (slot h id) as [x|] eqn:E.
  - apply slot_some in E. destruct (0 <=? id) eqn:E1; [|apply Z.leb_gt in E1; lia].
    destruct (id <? dev_len h) eqn:E2; [|apply Z.ltb_ge in E2; lia]. cbn [andb h_ports].
    destruct (is_fixed id); cbn [negb andb]; reflexivity.
  - destruct ((0 <=? id) && (id <? dev_len h)) eqn:E1; [|reflexivity].
    apply andb_true_iff in E1. destruct E1 as [E1 E2]. apply Z.leb_le in E1. apply Z.ltb_lt in E2.
    destruct (slot_in_range h id) as [x Hx]; [lia|congruence].
Qed.

Lemma remove_device_len h id : length (h_devs (remove_device h id)) = length (h_devs h).
Proof. unfold remove_device. destruct (slot h id); [apply set_nth_length|reflexivity]. Qed.

Lemma is_fixed_false id : is_fixed id = false <-> id <> 0 /\ id <> 1 /\ id <> 2.
Proof.
  unfold is_fixed, NULL_DEV, KB_DEV, DS_DEV, sim_device.NULL_DEV, sim_device.KB_DEV, sim_device.DS_DEV.
  rewrite !orb_false_iff, !Z.eqb_neq. tauto.
Qed.

Lemma remove_device_inv h id : h_inv h -> h_inv (remove_device h id).
Proof.
  intros Hi. pose proof (remove_device_ports h id) as Hp. pose proof (remove_device_len h id) as Hl.
  assert (Hn : nth_error (h_devs (remove_device h id)) 0 = Some None).
  { unfold remove_device. destruct (slot h id) as [x|] eqn:E; [|apply Hi]. cbn [h_devs].
    apply slot_some in E. destruct (Z.to_nat id) as [|k] eqn:Ek.
    - apply set_nth_same. pose proof (inv_len _ Hi). unfold dev_len in *. lia.
    - rewrite set_nth_other by lia. apply Hi. }
  destruct Hi as [H1 H2 H3 H4 H5 H6].
  split; unfold dev_len in *; rewrite ?Hl; try assumption; intros p; rewrite Hp.
  - specialize (H3 p). destruct (_ && _ && _ && _); lia.
  - intros Hio. specialize (H4 p Hio). destruct (_ && _ && _ && _); [reflexivity|exact H4].
  - destruct ((0 <=? id) && (id <? Z.of_nat (length (h_devs h))) && negb (is_fixed id) && (h_ports h p =? id)) eqn:E; [|apply H5].
    apply andb_true_iff in E. destruct E as [E E4]. apply andb_true_iff in E. destruct E as [E E3].
    apply negb_true_iff, is_fixed_false in E3. apply Z.eqb_eq in E4. rewrite <- H5. lia.
  - destruct ((0 <=? id) && (id <? Z.of_nat (length (h_devs h))) && negb (is_fixed id) && (h_ports h p =? id)) eqn:E; [|apply H6].
    apply andb_true_iff in E. destruct E as [E E4]. apply andb_true_iff in E. destruct E as [E E3].
    apply negb_true_iff, is_fixed_false in E3. apply Z.eqb_eq in E4. rewrite <- H6. lia.
Qed.
End Slots.

(* ------------------------------------------------------------------ dispatch inside the handler *)
Section Dispatch.
Context {D : Type}.
Implicit Types h : handler D.
Implicit Types b : bus D.

Lemma touch_inv h id d d' :
  h_inv h -> slot h id = Some (Some d) ->
  h_inv (mk_handler (set_nth (Z.to_nat id) (Some d') (h_devs h)) (h_ports h)).
Proof.
  intros Hi Hs. eapply inv_same_ports; [exact Hi| | |]; cbn [h_ports h_devs];
    [reflexivity|apply set_nth_length|].
  pose proof (slot_some _ _ _ Hs) as Hr.
  destruct (Z.to_nat id) as [|k] eqn:Ek.
  - exfalso. assert (id = 0) by lia. subst id. unfold slot in Hs. rewrite Z.ltb_irrefl in Hs.
    change (Z.to_nat 0) with O in Hs. rewrite (inv_null _ Hi) in Hs. discriminate.
  - rewrite set_nth_other by lia. apply Hi.
Qed.

Lemma io_read_ok ops h a eff : h_inv h ->
  exists h' r, io_read ops h a eff = Some (h', r) /\ h_inv h' /\ h_ports h' = h_ports h /\
               length (h_devs h') = length (h_devs h).
Proof.
  intros Hi. unfold io_read, get_dev_id. destruct (is_io a).
  - destruct (slot_in_range h (h_ports h a) (inv_range _ Hi a)) as [x Hx]. rewrite Hx.
    destruct x as [d|].
    + destruct (d_read ops d a eff) as [d' r]. eexists _, _. split; [reflexivity|].
      split; [eapply touch_inv; eauto|]. split; [reflexivity|apply set_nth_length].
    + eexists _, _. split; [reflexivity|]. auto.
  - eexists _, _. split; [reflexivity|]. auto.
Qed.

Lemma io_write_ok ops h a data : h_inv h ->
  exists h' r, io_write ops h a data = Some (h', r) /\ h_inv h' /\ h_ports h' = h_ports h /\
               length (h_devs h') = length (h_devs h).
Proof.
  intros Hi. unfold io_write, get_dev_id. destruct (is_io a).
  - destruct (slot_in_range h (h_ports h a) (inv_range _ Hi a)) as [x Hx]. rewrite Hx.
    destruct x as [d|].
    + destruct (d_write ops d a data) as [d' r]. eexists _, _. split; [reflexivity|].
      split; [eapply touch_inv; eauto|]. split; [reflexivity|apply set_nth_length].
    + eexists _, _. split; [reflexivity|]. auto.
  - eexists _, _. split; [reflexivity|]. auto.
Qed.

Lemma io_reset_inv ops h : h_inv h -> h_inv (io_reset ops h).
Proof.
  intros Hi. eapply inv_same_ports; [exact Hi| | |]; unfold io_reset; cbn [h_ports h_devs];
    [reflexivity|apply map_length|].
  exact (map_nth_error (fun s : option D => match s with Some d => Some (d_reset ops d) | None => None end)
           0%nat (h_devs h) (inv_null _ Hi)).
Qed.

Lemma poll_devs_shape ops : forall (l : list (option D)) best,
  length (fst (poll_devs ops l best)) = length l /\
  (nth_error l 0 = Some None -> nth_error (fst (poll_devs ops l best)) 0 = Some None).
Proof.
  induction l as [|x r IH]; intros best; [split; [reflexivity|intros H; discriminate H]|].
  cbn [poll_devs]. destruct x as [d|].
  - destruct (d_poll ops d) as [d' i].
    destruct (poll_devs ops r (match i with Some x => better best x | None => best end)) as [r' bb] eqn:E.
    pose proof (proj1 (IH (match i with Some x => better best x | None => best end))) as Hl.
    rewrite E in Hl. cbn [fst] in *. split; [cbn [length]; lia|intros H; discriminate H].
  - destruct (poll_devs ops r best) as [r' bb] eqn:E.
    pose proof (proj1 (IH best)) as Hl. rewrite E in Hl. cbn [fst] in *.
    split; [cbn [length]; lia|reflexivity].
Qed.

Lemma poll_interrupt_inv ops h : h_inv h -> h_inv (fst (poll_interrupt ops h)).
Proof.
  intros Hi. unfold poll_interrupt.
  pose proof (poll_devs_shape ops (h_devs h) None) as [Hl Hn].
  destruct (poll_devs ops (h_devs h) None) as [l bb]. cbn [fst] in *.
  eapply inv_same_ports; [exact Hi| | |]; cbn [h_ports h_devs]; [reflexivity|exact Hl|].
  apply Hn, Hi.
Qed.

(* ------------------------------------------------------------------ internal register map *)
Lemma imap_get_remove (m : imap) a q :
  imap_get (imap_remove m a) q = if q =? a then None else imap_get m q.
Proof.
  induction m as [|[k r] m IH]; cbn [imap_remove imap_get]; [destruct (q =? a); reflexivity|].
  destruct (k =? a) eqn:E1.
  - apply Z.eqb_eq in E1. subst k. rewrite IH. rewrite (Z.eqb_sym a q). destruct (q =? a); reflexivity.
  - cbn [imap_get]. rewrite IH. destruct (k =? q) eqn:E2; [|reflexivity].
    apply Z.eqb_eq in E2. subst k. rewrite E1. reflexivity.
Qed.

(* ------------------------------------------------------------------ refinement to the port table *)
Definition owner_of (id : Z) : owner :=
  if id =? 0 then Nobody else if id =? 1 then Keyboard else if id =? 2 then Display else Added id.

Record refines b (t : ptable ireg) : Prop := mk_refines {
  ref_reg : forall a, imap_get (b_imap b) a = pt_reg t a;
  ref_owner : forall p, owner_of (h_ports (b_h b) p) = pt_owner t p;
  ref_next : pt_next t = dev_len (b_h b)
}.

(* the registers mapped on a fresh machine: PSR at xFFFC, MCR at xFFFE *)
Definition regs0 : Z -> option ireg :=
  fun a => if a =? 65532 then Some RegPSR else if a =? 65534 then Some RegMCR else None.

Lemma new_bus_refines m0 : refines (new_bus D m0) (pt_init regs0).
Proof.
  split.
  - intros a. unfold new_bus, regs0. cbn [b_imap default_imap imap_get].
    change sim.PSR_ADDR with 65532. change sim.MCR_ADDR with 65534.
    rewrite (Z.eqb_sym 65532 a), (Z.eqb_sym 65534 a). reflexivity.
  - intros p. unfold new_bus. cbn [b_h]. rewrite new_handler_ports. unfold pt_init. cbn [pt_owner].
    destruct (p =? 65030) eqn:E1; [apply Z.eqb_eq in E1; subst; reflexivity|].
    destruct (p =? 65028) eqn:E2; [apply Z.eqb_eq in E2; subst; reflexivity|].
    destruct (p =? 65026) eqn:E3; [apply Z.eqb_eq in E3; subst; reflexivity|].
    destruct (p =? 65024) eqn:E4; [apply Z.eqb_eq in E4; subst; reflexivity|]. reflexivity.
  - reflexivity.
Qed.

(* the port table follows the same history *)
Inductive sres := SAdd (r : option Z) | SMmap (e : option map_err) | SMunmap (ok : bool) | SQuiet.
Definition pt_step (t : ptable ireg) (o : bop D) : ptable ireg * sres :=
  match o with
  | BAdd _ addrs => let (t', r) := pt_add t addrs in (t', SAdd r)
  | BRemove id => (pt_remove t id, SQuiet)
  | BMmap a r => let (t', e) := pt_mmap t a r in (t', SMmap e)
  | BMunmap a => let (t', ok) := pt_munmap t a in (t', SMunmap ok)
  | _ => (t, SQuiet)
  end.
Fixpoint pt_run (t : ptable ireg) (l : list (bop D)) : ptable ireg * list sres :=
  match l with
  | [] => (t, [])
  | o :: r => let (t1, x) := pt_step t o in let (t2, xs) := pt_run t1 r in (t2, x :: xs)
  end.
Definition abstract (r : bres) : sres :=
  match r with
  | RAdd x => SAdd x
  | RMmap None => SMmap None
  | RMmap (Some NotInIORange) => SMmap (Some ErrNotIO)
  | RMmap (Some AddrAlreadyMapped) => SMmap (Some ErrMapped)
  | RMunmap ok => SMunmap ok
  | _ => SQuiet
  end.

Lemma owner_of_nobody v : nobody (owner_of v) = (v =? 0).
Proof. unfold owner_of. destruct (v =? 0); [reflexivity|]. destruct (v =? 1); [reflexivity|]. destruct (v =? 2); reflexivity. Qed.

Lemma owner_remove v id : 3 <= id ->
  match owner_of v with Added i => if i =? id then Nobody else Added i | o => o end =
  if v =? id then Nobody else owner_of v.
Proof.
  intros H. unfold owner_of.
  destruct (v =? 0) eqn:Z0; [apply Z.eqb_eq in Z0; destruct (v =? id) eqn:E; [apply Z.eqb_eq in E; lia|reflexivity]|].
  destruct (v =? 1) eqn:Z1; [apply Z.eqb_eq in Z1; destruct (v =? id) eqn:E; [apply Z.eqb_eq in E; lia|reflexivity]|].
  destruct (v =? 2) eqn:Z2; [apply Z.eqb_eq in Z2; destruct (v =? id) eqn:E; [apply Z.eqb_eq in E; lia|reflexivity]|].
  destruct (v =? id); reflexivity.
Qed.

Lemma port_free_spec b t p : refines b t -> port_free (b_h b) p = io_addr p && nobody (pt_owner t p).
Proof.
  intros Hr. rewrite <- (ref_owner _ _ Hr), owner_of_nobody, <- is_io_io_addr.
  unfold port_free, get_dev_id. destruct (is_io p); reflexivity.
Qed.

Lemma can_add_spec b t addrs : refines b t ->
  (dev_len (b_h b) <=? 65535) && forallb (port_free (b_h b)) addrs = pt_can_add t addrs.
Proof.
  intros Hr. unfold pt_can_add. rewrite (ref_next _ _ Hr). f_equal.
  apply forallb_ext'. intros p. apply port_free_spec, Hr.
Qed.

Lemma same_table_refines b b' t :
  refines b t -> b_imap b' = b_imap b -> h_ports (b_h b') = h_ports (b_h b) ->
  length (h_devs (b_h b')) = length (h_devs (b_h b)) -> refines b' t.
Proof.
  intros [H1 H2 H3] Hm Hp Hl. split; unfold dev_len; rewrite ?Hm, ?Hp, ?Hl; assumption.
Qed.

Lemma bus_eta b : mk_bus (b_imap b) (b_regs b) (b_h b) (b_mem b) = b.
Proof. destruct b. reflexivity. Qed.

(* one operation: invariant kept, refinement kept, results agree, no panic *)
Lemma bstep_refines ops b t o :
  h_inv (b_h b) -> refines b t ->
  h_inv (b_h (fst (bstep ops b o))) /\
  refines (fst (bstep ops b o)) (fst (pt_step t o)) /\
  abstract (snd (bstep ops b o)) = snd (pt_step t o) /\
  snd (bstep ops b o) <> RPanic.
Proof.
  intros Hi Hr. destruct o as [d addrs|id|d|d|a r|a|a eff|a data| |]; cbn [bstep pt_step]; unfold with_h, with_imap.
  - (* add *)
    pose proof (can_add_spec b t addrs Hr) as Hc.
    pose proof (add_device_inv (b_h b) d addrs Hi) as Hi'.
    unfold pt_add. rewrite <- Hc.
    destruct ((dev_len (b_h b) <=? 65535) && forallb (port_free (b_h b)) addrs) eqn:E.
    + apply andb_true_iff in E. destruct E as [E1 E2]. apply Z.leb_le in E1.
      destruct (add_device_ok (b_h b) d addrs) as (h' & Ea & Hd & Hq);
        [pose proof (inv_len _ Hi); lia|exact E2|].
      rewrite Ea in *. cbn [fst snd with_h b_h b_imap] in *.
      split; [exact Hi'|]. split; [|split; [rewrite (ref_next _ _ Hr); reflexivity|discriminate]].
      split; cbn [pt_reg pt_owner pt_next b_imap b_h].
      * apply Hr.
      * intros p. rewrite Hq, (ref_next _ _ Hr). destruct (mem_z p addrs); [|apply Hr].
        unfold owner_of. pose proof (inv_len _ Hi).
        destruct (dev_len (b_h b) =? 0) eqn:Z0; [apply Z.eqb_eq in Z0; lia|].
        destruct (dev_len (b_h b) =? 1) eqn:Z1; [apply Z.eqb_eq in Z1; lia|].
        destruct (dev_len (b_h b) =? 2) eqn:Z2; [apply Z.eqb_eq in Z2; lia|]. reflexivity.
      * rewrite (ref_next _ _ Hr). unfold dev_len, with_h. cbn [b_h]. rewrite Hd, app_length. cbn [length]. lia.
    + rewrite (add_device_fail _ d addrs E) in *. cbn [fst snd with_h b_h] in *.
      split; [exact Hi|]. split; [|split; [reflexivity|discriminate]].
      eapply same_table_refines; [exact Hr| | |]; reflexivity.
  - (* remove *)
    cbn [fst snd with_h b_h]. split; [apply remove_device_inv, Hi|].
    split; [|split; [reflexivity|discriminate]].
    split; cbn [b_imap b_h].
    + intros a. unfold pt_remove. destruct (3 <=? id); apply Hr.
    + intros p. rewrite remove_device_ports.
      pose proof (ref_owner _ _ Hr p) as Ho. pose proof (inv_range _ Hi p) as Hrg.
      set (v := h_ports (b_h b) p) in *.
      unfold pt_remove. destruct (3 <=? id) eqn:E3.
      * apply Z.leb_le in E3. cbn [pt_owner]. rewrite <- Ho, (owner_remove v id E3).
        assert (Hf : is_fixed id = false) by (apply is_fixed_false; lia). rewrite Hf. cbn [negb].
        destruct (0 <=? id) eqn:E0; [|apply Z.leb_gt in E0; lia]. cbn [andb]. rewrite andb_true_r.
        destruct (id <? dev_len (b_h b)) eqn:E1; cbn [andb].
        -- destruct (v =? id); reflexivity.
        -- apply Z.ltb_ge in E1. destruct (v =? id) eqn:E2; [apply Z.eqb_eq in E2; lia|reflexivity].
      * apply Z.leb_gt in E3. rewrite <- Ho.
        destruct ((0 <=? id) && (id <? dev_len (b_h b)) && negb (is_fixed id) && (v =? id)) eqn:E; [|reflexivity].
        apply andb_true_iff in E. destruct E as [E _]. apply andb_true_iff in E. destruct E as [E Ef].
        apply andb_true_iff in E. destruct E as [E0 _]. apply Z.leb_le in E0.
        apply negb_true_iff, is_fixed_false in Ef. lia.
    + unfold pt_remove. destruct (3 <=? id); cbn [pt_next]; rewrite (ref_next _ _ Hr);
        unfold dev_len; rewrite remove_device_len; reflexivity.
  - (* set_keyboard *)
    unfold set_keyboard. destruct (slot_in_range (b_h b) KB_DEV) as [x Hx];
      [pose proof (inv_len _ Hi); unfold KB_DEV, sim_device.KB_DEV; lia|].
    unfold set_slot. rewrite Hx. cbn [fst snd with_h b_h].
    assert (Hs : set_slot (b_h b) KB_DEV d = Some (mk_handler (set_nth (Z.to_nat KB_DEV) d (h_devs (b_h b))) (h_ports (b_h b))))
      by (unfold set_slot; rewrite Hx; reflexivity).
    split; [eapply set_slot_inv; [exact Hi| |exact Hs]; discriminate|].
    split; [|split; [reflexivity|discriminate]].
    eapply same_table_refines; [exact Hr|reflexivity|reflexivity|]. cbn [b_h h_devs]. apply set_nth_length.
  - (* set_display *)
    unfold set_display. destruct (slot_in_range (b_h b) DS_DEV) as [x Hx];
      [pose proof (inv_len _ Hi); unfold DS_DEV, sim_device.DS_DEV; lia|].
    unfold set_slot. rewrite Hx. cbn [fst snd with_h b_h].
    assert (Hs : set_slot (b_h b) DS_DEV d = Some (mk_handler (set_nth (Z.to_nat DS_DEV) d (h_devs (b_h b))) (h_ports (b_h b))))
      by (unfold set_slot; rewrite Hx; reflexivity).
    split; [eapply set_slot_inv; [exact Hi| |exact Hs]; discriminate|].
    split; [|split; [reflexivity|discriminate]].
    eapply same_table_refines; [exact Hr|reflexivity|reflexivity|]. cbn [b_h h_devs]. apply set_nth_length.
  - (* mmap_internal *)
    unfold mmap_internal, pt_mmap. rewrite IO_START_val, <- (ref_reg _ _ Hr a).
    destruct (a <? 65024); [|destruct (imap_get (b_imap b) a) eqn:Eg]; cbn [fst snd with_imap b_h];
      (split; [exact Hi|]); (split; [|split; [reflexivity|discriminate]]).
    + eapply same_table_refines; [exact Hr| | |]; reflexivity.
    + eapply same_table_refines; [exact Hr| | |]; reflexivity.
    + split; cbn [b_imap b_h pt_reg pt_owner pt_next]; [|apply Hr|apply Hr].
      intros q. cbn [imap_get]. rewrite (Z.eqb_sym a q). destruct (q =? a); [reflexivity|apply Hr].
  - (* munmap_internal *)
    unfold munmap_internal, pt_munmap. rewrite <- (ref_reg _ _ Hr a).
    destruct (imap_get (b_imap b) a) eqn:Eg; cbn [fst snd with_imap b_h];
      (split; [exact Hi|]); (split; [|split; [reflexivity|discriminate]]).
    + split; cbn [b_imap b_h pt_reg pt_owner pt_next]; [|apply Hr|apply Hr].
      intros q. rewrite imap_get_remove. destruct (q =? a); [reflexivity|apply Hr].
    + eapply same_table_refines; [exact Hr| | |]; reflexivity.
  - (* read *)
    unfold bus_read. destruct (IO_START <=? a).
    + destruct (imap_get (b_imap b) a).
      * cbn [fst snd b_h]. split; [exact Hi|]. split; [|split; [reflexivity|discriminate]].
        eapply same_table_refines; [exact Hr| | |]; reflexivity.
      * destruct (io_read_ok ops (b_h b) a eff Hi) as (h' & r & E & Hi' & Hp & Hl). rewrite E.
        destruct r; cbn [fst snd b_h]; (split; [exact Hi'|]); (split; [|split; [reflexivity|discriminate]]);
          (eapply same_table_refines; [exact Hr|reflexivity|exact Hp|exact Hl]).
    + cbn [fst snd]. split; [exact Hi|]. split; [exact Hr|]. split; [reflexivity|discriminate].
  - (* write *)
    unfold bus_write. destruct (IO_START <=? a).
    + destruct (imap_get (b_imap b) a).
      * cbn [fst snd b_h]. split; [exact Hi|]. split; [|split; [reflexivity|discriminate]].
        eapply same_table_refines; [exact Hr| | |]; reflexivity.
      * destruct (io_write_ok ops (b_h b) a data Hi) as (h' & r & E & Hi' & Hp & Hl). rewrite E.
        destruct r; cbn [fst snd b_h]; (split; [exact Hi'|]); (split; [|split; [reflexivity|discriminate]]);
          (eapply same_table_refines; [exact Hr|reflexivity|exact Hp|exact Hl]).
    + cbn [fst snd b_h]. split; [exact Hi|]. split; [|split; [reflexivity|discriminate]].
      eapply same_table_refines; [exact Hr| | |]; reflexivity.
  - (* io_reset *)
    cbn [fst snd with_h b_h]. split; [apply io_reset_inv, Hi|]. split; [|split; [reflexivity|discriminate]].
    eapply same_table_refines; [exact Hr|reflexivity|reflexivity|]. cbn [b_h with_h]. unfold io_reset. cbn [h_devs]. apply map_length.
  - (* poll_interrupt *)
    pose proof (poll_interrupt_inv ops (b_h b) Hi) as Hi'.
    unfold poll_interrupt in *. pose proof (poll_devs_shape ops (h_devs (b_h b)) None) as [Hl _].
    destruct (poll_devs ops (h_devs (b_h b)) None) as [l bb]. cbn [fst snd with_h b_h] in *.
    split; [exact Hi'|]. split; [|split; [reflexivity|discriminate]].
    eapply same_table_refines; [exact Hr|reflexivity|reflexivity|exact Hl].
Qed.

(* any history *)
Lemma brun_refines ops : forall l b t,
  h_inv (b_h b) -> refines b t ->
  h_inv (b_h (fst (brun ops b l))) /\
  refines (fst (brun ops b l)) (fst (pt_run t l)) /\
  map abstract (snd (brun ops b l)) = snd (pt_run t l) /\
  ~ In RPanic (snd (brun ops b l)).
Proof.
  induction l as [|o r IH]; intros b t Hi Hr.
  - cbn. auto.
  - cbn [brun pt_run].
    destruct (bstep_refines ops b t o Hi Hr) as (Hi1 & Hr1 & Ha & Hp).
    destruct (bstep ops b o) as [b1 x]. destruct (pt_step t o) as [t1 y]. cbn [fst snd] in *.
    destruct (IH b1 t1 Hi1 Hr1) as (Hi2 & Hr2 & Ha2 & Hp2).
    destruct (brun ops b1 r) as [b2 xs]. destruct (pt_run t1 r) as [t2 ys]. cbn [fst snd map] in *.
    split; [exact Hi2|]. split; [exact Hr2|]. split; [congruence|].
    intros [H|H]; [apply Hp; auto|apply Hp2, H].
Qed.
End Dispatch.

(* ------------------------------------------------------------------ what an access reaches *)
Section Reach.
Context {D : Type}.
Implicit Types h : handler D.
Implicit Types b : bus D.

(* the device in a slot, and the bus after that device changed state *)
Definition slot_dev b (id : Z) : option D :=
  match nth_error (h_devs (b_h b)) (Z.to_nat id) with Some (Some d) => Some d | _ => None end.
Definition put_dev b (id : Z) (d : D) (mem : Z -> Z) : bus D :=
  mk_bus (b_imap b) (b_regs b)
         (mk_handler (set_nth (Z.to_nat id) (Some d) (h_devs (b_h b))) (h_ports (b_h b))) mem.

(* a read through a given target: the register value / the device's answer is also stored in the
   memory word; with no answer the memory word is returned *)
Definition read_via (ops : dev_ops D) b (tg : target ireg) (a : Z) (eff : bool) : bus D * Z :=
  match tg with
  | ToReg r =>
    let v := ireg_read r (b_regs b) in
    (mk_bus (b_imap b) (b_regs b) (b_h b) (upd (b_mem b) a v), v)
  | ToSlot id =>
    match slot_dev b id with
    | Some d =>
      let (d', r) := d_read ops d a eff in
      match r with
      | Some v => (put_dev b id d' (upd (b_mem b) a v), v)
      | None => (put_dev b id d' (b_mem b), b_mem b a)
      end
    | None => (b, b_mem b a)
    end
  | ToNothing | ToMemory => (b, b_mem b a)
  end.

(* a write through a given target, and whether it was taken: the memory word changes only if it was *)
Definition write_via (ops : dev_ops D) b (tg : target ireg) (a data : Z) : bus D * bool :=
  match tg with
  | ToReg r =>
    (mk_bus (b_imap b) (ireg_write r (b_regs b) data) (b_h b) (upd (b_mem b) a data), true)
  | ToSlot id =>
    match slot_dev b id with
    | Some d =>
      let (d', taken) := d_write ops d a data in
      if taken then (put_dev b id d' (upd (b_mem b) a data), true)
      else (put_dev b id d' (b_mem b), false)
    | None => (b, false)
    end
  | ToNothing => (b, false)
  | ToMemory => (mk_bus (b_imap b) (b_regs b) (b_h b) (upd (b_mem b) a data), true)
  end.

Lemma target_of b t a : h_inv (b_h b) -> refines b t -> is_io a = true ->
  imap_get (b_imap b) a = None ->
  pt_target t a = if h_ports (b_h b) a =? 0 then ToNothing else ToSlot (h_ports (b_h b) a).
Proof.
  intros Hi Hr Hio Hg. unfold pt_target. rewrite <- is_io_io_addr, Hio, <- (ref_reg _ _ Hr), Hg.
  rewrite <- (ref_owner _ _ Hr). unfold owner_of.
  destruct (h_ports (b_h b) a =? 0); [reflexivity|].
  destruct (h_ports (b_h b) a =? 1) eqn:E1; [apply Z.eqb_eq in E1; rewrite E1; reflexivity|].
  destruct (h_ports (b_h b) a =? 2) eqn:E2; [apply Z.eqb_eq in E2; rewrite E2; reflexivity|]. reflexivity.
Qed.

Lemma slot_as_nth h id : 0 <= id -> slot h id = nth_error (h_devs h) (Z.to_nat id).
Proof. intros H. unfold slot. destruct (id <? 0) eqn:E; [apply Z.ltb_lt in E; lia|reflexivity]. Qed.

Lemma bus_read_dispatch ops b t a eff :
  h_inv (b_h b) -> refines b t -> 0 <= a <= 65535 ->
  bus_read ops b a eff = Some (read_via ops b (pt_target t a) a eff).
Proof.
  intros Hi Hr Ha. unfold bus_read. destruct (is_io a) eqn:Hio.
  - assert (E : IO_START <=? a = true) by (apply is_io_iff in Hio; rewrite IO_START_val; apply Z.leb_le; lia).
    rewrite E. destruct (imap_get (b_imap b) a) as [r|] eqn:Hg.
    + unfold pt_target. rewrite <- is_io_io_addr, Hio, <- (ref_reg _ _ Hr), Hg. reflexivity.
    + rewrite (target_of b t a Hi Hr Hio Hg). unfold io_read, get_dev_id. rewrite Hio.
      pose proof (inv_range _ Hi a) as Hrg. set (v := h_ports (b_h b) a) in *.
      rewrite slot_as_nth by lia.
      destruct (v =? 0) eqn:E0.
      * apply Z.eqb_eq in E0. rewrite E0. change (Z.to_nat 0) with O. rewrite (inv_null _ Hi).
        cbn [read_via]. rewrite bus_eta. reflexivity.
      * destruct (slot_in_range (b_h b) v Hrg) as [x Hx]. rewrite slot_as_nth in Hx by lia.
        cbn [read_via]. unfold slot_dev. rewrite Hx. destruct x as [d|].
        -- destruct (d_read ops d a eff) as [d' [w|]]; reflexivity.
        -- rewrite bus_eta. reflexivity.
  - assert (E : IO_START <=? a = false) by (apply is_io_false in Hio; rewrite IO_START_val; apply Z.leb_gt; lia).
    rewrite E. unfold pt_target. rewrite <- is_io_io_addr, Hio. reflexivity.
Qed.

Lemma bus_write_dispatch ops b t a data :
  h_inv (b_h b) -> refines b t -> 0 <= a <= 65535 ->
  bus_write ops b a data = Some (write_via ops b (pt_target t a) a data).
Proof.
  intros Hi Hr Ha. unfold bus_write. destruct (is_io a) eqn:Hio.
  - assert (E : IO_START <=? a = true) by (apply is_io_iff in Hio; rewrite IO_START_val; apply Z.leb_le; lia).
    rewrite E. destruct (imap_get (b_imap b) a) as [r|] eqn:Hg.
    + unfold pt_target. rewrite <- is_io_io_addr, Hio, <- (ref_reg _ _ Hr), Hg. reflexivity.
    + rewrite (target_of b t a Hi Hr Hio Hg). unfold io_write, get_dev_id. rewrite Hio.
      pose proof (inv_range _ Hi a) as Hrg. set (v := h_ports (b_h b) a) in *.
      rewrite slot_as_nth by lia.
      destruct (v =? 0) eqn:E0.
      * apply Z.eqb_eq in E0. rewrite E0. change (Z.to_nat 0) with O. rewrite (inv_null _ Hi).
        cbn [write_via]. rewrite bus_eta. reflexivity.
      * destruct (slot_in_range (b_h b) v Hrg) as [x Hx]. rewrite slot_as_nth in Hx by lia.
        cbn [write_via]. unfold slot_dev. rewrite Hx. destruct x as [d|].
        -- destruct (d_write ops d a data) as [d' [|]]; reflexivity.
        -- rewrite bus_eta. reflexivity.
  - assert (E : IO_START <=? a = false) by (apply is_io_false in Hio; rewrite IO_START_val; apply Z.leb_gt; lia).
    rewrite E. unfold pt_target. rewrite <- is_io_io_addr, Hio. reflexivity.
Qed.

(* ------------------------------------------------------------------ reachable states *)
Definition reach (ops : dev_ops D) (m0 : Z -> Z) (l : list (bop D)) : bus D := fst (brun ops (new_bus D m0) l).
Definition results (ops : dev_ops D) (m0 : Z -> Z) (l : list (bop D)) : list bres := snd (brun ops (new_bus D m0) l).
Definition table (l : list (bop D)) : ptable ireg := fst (pt_run (pt_init regs0) l).

Lemma reach_ok ops m0 l :
  h_inv (b_h (reach ops m0 l)) /\ refines (reach ops m0 l) (table l) /\
  map abstract (results ops m0 l) = snd (pt_run (pt_init regs0) l) /\
  ~ In RPanic (results ops m0 l).
Proof.
  apply brun_refines; [apply (new_handler_inv (D := D))|apply new_bus_refines].
Qed.

(* add succeeds exactly when ... *)
Lemma add_iff ops m0 l d addrs :
  snd (add_device (b_h (reach ops m0 l)) d addrs) <> None <->
  (pt_next (table l) <= 65535 /\ forall p, In p addrs -> io_addr p = true /\ pt_owner (table l) p = Nobody).
Proof.
  destruct (reach_ok ops m0 l) as (Hi & Hr & _).
  pose proof (can_add_spec _ _ addrs Hr) as Hc.
  assert (Hspec : pt_can_add (table l) addrs = true <->
          (pt_next (table l) <= 65535 /\ forall p, In p addrs -> io_addr p = true /\ pt_owner (table l) p = Nobody)).
  { unfold pt_can_add. rewrite andb_true_iff, Z.leb_le, forallb_forall.
    split; intros [H1 H2]; (split; [exact H1|]); intros p Hp; specialize (H2 p Hp).
    - apply andb_true_iff in H2. destruct H2 as [Ha Hb]. split; [exact Ha|].
      destruct (pt_owner (table l) p); try discriminate; reflexivity.
    - destruct H2 as [Ha Hb]. rewrite Ha, Hb. reflexivity. }
  rewrite <- Hspec, <- Hc.
  destruct ((dev_len (b_h (reach ops m0 l)) <=? 65535) && forallb (port_free (b_h (reach ops m0 l))) addrs) eqn:E.
  - apply andb_true_iff in E. destruct E as [E1 E2]. apply Z.leb_le in E1.
    destruct (add_device_ok (b_h (reach ops m0 l)) d addrs) as (h' & Ea & _);
      [pose proof (inv_len _ Hi); lia|exact E2|].
    rewrite Ea. cbn [snd]. split; [reflexivity|discriminate].
  - rewrite (add_device_fail _ d addrs E). cbn [snd]. split; [intros H; exfalso; apply H; reflexivity|discriminate].
Qed.

(* ... and then the device owns exactly the requested ports in addition, under the fresh id *)
Lemma add_effect ops m0 l d addrs h' id :
  add_device (b_h (reach ops m0 l)) d addrs = (h', Some id) ->
  id = pt_next (table l) /\ h_devs h' = h_devs (b_h (reach ops m0 l)) ++ [d] /\
  forall p, h_ports h' p = if mem_z p addrs then id else h_ports (b_h (reach ops m0 l)) p.
Proof.
  destruct (reach_ok ops m0 l) as (Hi & Hr & _). intros H.
  destruct ((dev_len (b_h (reach ops m0 l)) <=? 65535) && forallb (port_free (b_h (reach ops m0 l))) addrs) eqn:E.
  - apply andb_true_iff in E. destruct E as [E1 E2]. apply Z.leb_le in E1.
    destruct (add_device_ok (b_h (reach ops m0 l)) d addrs) as (h2 & Ea & Hd & Hq);
      [pose proof (inv_len _ Hi); lia|exact E2|].
    rewrite Ea in H. injection H as <- <-. rewrite (ref_next _ _ Hr). auto.
  - rewrite (add_device_fail _ d addrs E) in H. discriminate.
Qed.

(* removing an added device frees exactly its ports; removing keyboard/display (or slot 0) keeps every port *)
Lemma remove_frees ops m0 l id p :
  let h := b_h (reach ops m0 l) in
  h_ports (remove_device h id) p =
  if (3 <=? id) && (h_ports h p =? id) then 0 else h_ports h p.
Proof.
  intros h. destruct (reach_ok ops m0 l) as (Hi & _). fold h in Hi.
  rewrite remove_device_ports. pose proof (inv_range _ Hi p) as Hrg.
  destruct (3 <=? id) eqn:E3; cbn [andb].
  - apply Z.leb_le in E3. assert (Hf : is_fixed id = false) by (apply is_fixed_false; lia).
    rewrite Hf. cbn [negb]. destruct (0 <=? id) eqn:E0; [|apply Z.leb_gt in E0; lia]. cbn [andb].
    rewrite andb_true_r. destruct (id <? dev_len h) eqn:E1; cbn [andb]; [reflexivity|].
    apply Z.ltb_ge in E1. destruct (h_ports h p =? id) eqn:E2; [apply Z.eqb_eq in E2; lia|reflexivity].
  - apply Z.leb_gt in E3.
    destruct ((0 <=? id) && (id <? dev_len h) && negb (is_fixed id) && (h_ports h p =? id)) eqn:E; [|reflexivity].
    apply andb_true_iff in E. destruct E as [E _]. apply andb_true_iff in E. destruct E as [E Ef].
    apply andb_true_iff in E. destruct E as [E0 _]. apply Z.leb_le in E0.
    apply negb_true_iff, is_fixed_false in Ef. lia.
Qed.

(* ------------------------------------------------------------------ ids are never reused *)
Fixpoint added_ids (rs : list bres) : list Z :=
  match rs with
  | [] => []
  | RAdd (Some id) :: r => id :: added_ids r
  | _ :: r => added_ids r
  end.

Lemma add_device_shape h d addrs :
  (add_device h d addrs = (h, None)) \/
  (exists h', add_device h d addrs = (h', Some (dev_len h)) /\ h_devs h' = h_devs h ++ [d]).
Proof.
  unfold add_device. destruct (dev_len h <=? 65535); [|left; reflexivity].
  destruct (forallb (port_free h) addrs); [|left; reflexivity].
  right. eexists. split; [reflexivity|].
  assert (Hd : forall addrs' (hh : handler D),
            h_devs (fold_left (fun x p => set_port x p (dev_len h)) addrs' hh) = h_devs hh).
  { induction addrs' as [|p r IH]; intros hh; [reflexivity|]. cbn [fold_left]. rewrite IH. apply set_port_devs. }
  rewrite Hd. reflexivity.
Qed.

Lemma bstep_len ops b o :
  dev_len (b_h b) <= dev_len (b_h (fst (bstep ops b o))) /\
  match snd (bstep ops b o) with
  | RAdd (Some id) => id = dev_len (b_h b) /\ dev_len (b_h (fst (bstep ops b o))) = id + 1
  | _ => True
  end.
Proof.
  destruct o as [d addrs|id|d|d|a r|a|a eff|a data| |]; cbn [bstep]; unfold with_h, with_imap.
  - destruct (add_device_shape (b_h b) d addrs) as [E|(h' & E & Hd)]; rewrite E; cbn [fst snd b_h].
    + split; [lia|exact Logic.I].
    + assert (dev_len h' = dev_len (b_h b) + 1) by (unfold dev_len; rewrite Hd, app_length; cbn [length]; lia).
      split; [lia|split; [reflexivity|assumption]].
  - unfold dev_len.
cbn [fst snd b_h]. rewrite remove_device_len. split; [lia|exact Logic.I].
  - unfold dev_len. unfold set_keyboard, set_slot. destruct (slot (b_h b) KB_DEV); cbn [fst snd b_h h_devs];
      rewrite ?set_nth_length; split; try lia; exact Logic.I.
  - unfold dev_len. unfold set_display, set_slot. destruct (slot (b_h b) DS_DEV); cbn [fst snd b_h h_devs];
      rewrite ?set_nth_length; split; try lia; exact Logic.I.
  - unfold dev_len. destruct (mmap_internal (b_imap b) a r). cbn. split; [lia|exact Logic.I].
  - unfold dev_len. destruct (munmap_internal (b_imap b) a). cbn. split; [lia|exact Logic.I].
  - unfold dev_len. unfold bus_read. destruct (IO_START <=? a); [|cbn; split; [lia|exact Logic.I]].
    destruct (imap_get (b_imap b) a); [cbn; split; [lia|exact Logic.I]|].
    unfold io_read. destruct (get_dev_id (b_h b) a) as [id|]; [|cbn; split; [lia|exact Logic.I]].
    destruct (slot (b_h b) id) as [[d|]|]; [|cbn; split; [lia|exact Logic.I]|cbn; split; [lia|exact Logic.I]].
    destruct (d_read ops d a eff) as [d' [w|]]; cbn [fst snd b_h h_devs]; rewrite set_nth_length; split; try lia; exact Logic.I.
  - unfold dev_len. unfold bus_write. destruct (IO_START <=? a); [|cbn; split; [lia|exact Logic.I]].
    destruct (imap_get (b_imap b) a); [cbn; split; [lia|exact Logic.I]|].
    unfold io_write. destruct (get_dev_id (b_h b) a) as [id|]; [|cbn; split; [lia|exact Logic.I]].
    destruct (slot (b_h b) id) as [[d|]|]; [|cbn; split; [lia|exact Logic.I]|cbn; split; [lia|exact Logic.I]].
    destruct (d_write ops d a data) as [d' [|]]; cbn [fst snd b_h h_devs]; rewrite set_nth_length; split; try lia; exact Logic.I.
  - unfold dev_len. cbn [fst snd b_h]. unfold io_reset. cbn [h_devs]. rewrite map_length. split; [lia|exact Logic.I].
  - unfold dev_len. unfold poll_interrupt. pose proof (poll_devs_shape ops (h_devs (b_h b)) None) as [Hl _].
    destruct (poll_devs ops (h_devs (b_h b)) None) as [l0 bb]. cbn [fst snd b_h h_devs] in *. split; [lia|exact Logic.I].
Qed.

Lemma ids_fresh_from ops : forall l b,
  dev_len (b_h b) <= dev_len (b_h (fst (brun ops b l))) /\
  Forall (fun id => dev_len (b_h b) <= id < dev_len (b_h (fst (brun ops b l)))) (added_ids (snd (brun ops b l))) /\
  StronglySorted Z.lt (added_ids (snd (brun ops b l))).
Proof.
  induction l as [|o r IH]; intros b.
  - cbn. split; [lia|]. split; constructor.
  - cbn [brun]. pose proof (bstep_len ops b o) as [H1 H2].
    destruct (bstep ops b o) as [b1 x]. cbn [fst snd] in *.
    destruct (IH b1) as (H3 & H4 & H5). destruct (brun ops b1 r) as [b2 xs]. cbn [fst snd] in *.
    split; [lia|].
    assert (Hw : Forall (fun id => dev_len (b_h b) <= id < dev_len (b_h b2)) (added_ids xs)).
    { eapply Forall_impl; [|exact H4]. cbn beta. intros; lia. }
    destruct x as [[id|]| | | | | | |]; cbn [added_ids]; try (split; assumption).
    destruct H2 as [-> H2]. split.
    + constructor; [lia|exact Hw].
    + constructor; [exact H5|]. eapply Forall_impl; [|exact H4]. cbn beta. intros; lia.
Qed.

Lemma ids_fresh ops m0 l :
  StronglySorted Z.lt (added_ids (results ops m0 l)) /\ Forall (fun id => 3 <= id) (added_ids (results ops m0 l)).
Proof.
  destruct (ids_fresh_from ops l (new_bus D m0)) as (_ & H2 & H3). split; [exact H3|].
  eapply Forall_impl; [|exact H2]. cbn beta. intros id H. change (dev_len (b_h (new_bus D m0))) with 3 in H. lia.
Qed.
End Reach.
