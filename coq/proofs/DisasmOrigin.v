(* DisasmOrigin.v — C07 at EVERY origin: the text ".orig x<OOOO> / <disassembled word> / .end"
   parses to [.orig o; s; .end] where the statement s and its span do not depend on o (the header
   has the same length for every origin), s is label-free and encodes to the word — one sweep over
   the 65536 words for the origin-independent part, a symbolic lemma for the header — and a
   label-free statement assembles to the same word at every origin (AsmOrigin.single_statement). *)
From Coq Require Import ZArith List Bool Lia String.
From Model Require Import Tree Bits Text Instr Offset AsmAst Obj Lexer Parser Print Assembler Disasm.
From Proofs Require Import Ranges AsmBase LexerProofs PiecesProofs PrintParseProofs OffsetProofs AsmOrigin.
Import ListNotations.
Open Scope Z_scope.

(* ---------- the text as pieces ---------- *)
Definition hdr (o : Z) : list piece := [Wdir "orig"; Sp; Whex 4 o; Nl false].
Definition ftr : list piece := [Nl false; Wdir "end"].
Definition body (w : Z) : list piece := stmt_pieces (disassemble w) ++ ftr.

Definition hex_chk (o : Z) : bool := str_eqb (hex4 o) (hex_pad 4 o) && (byte_len (hex_pad 4 o) =? 4).
Lemma hex_sweep : forallb hex_chk (zrange 0 (Z.to_nat 65536)) = true.
Proof. vm_compute. reflexivity. Qed.
Lemma hex4_pad o : 0 <= o < 65536 -> hex4 o = hex_pad 4 o /\ byte_len (hex_pad 4 o) = 4.
Proof.
  intros H. pose proof (forall_range' _ 0 65536 hex_sweep o H) as C. unfold hex_chk in C.
  apply andb_prop in C. destruct C as [C1 C2]. split; [apply str_eqb_eq; exact C1 | apply Z.eqb_eq; exact C2].
Qed.

Lemma wrap_pieces o w : 0 <= o < 65536 -> wrap_text o (disasm_text w) = text_of (hdr o ++ body w).
Proof.
  intros H. unfold wrap_text, disasm_text, body. rewrite !text_of_app, <- print_stmt_pieces.
  destruct (hex4_pad o H) as [-> _].
  assert (EH : text_of (hdr o) = [46; 111; 114; 105; 103; 32; 120] ++ hex_pad 4 o ++ [10]).
  { unfold hdr, text_of. cbn [flat_map piece_text Wdir Whex nl_text].
    change (zs "orig") with [111; 114; 105; 103]. cbn [app]. rewrite ?app_nil_r. reflexivity. }
  assert (EF : text_of ftr = [10; 46; 101; 110; 100]) by reflexivity.
  rewrite EH, EF, <- !app_assoc. reflexivity.
Qed.

Lemma delim_next_app r b : delim_next r -> delim_next b -> delim_next (r ++ b).
Proof.
  induction r as [|p r IH]; intros H Hb; [exact Hb|]. destruct p as [x t| | |x v|bs| |crlf|bd]; cbn [app delim_next] in *; try exact Logic.I; try contradiction.
  destruct bs; [apply IH; assumption | exact Logic.I].
Qed.
Lemma eol_next_app r b : eol_next r -> eol_next b -> eol_next (r ++ b).
Proof.
  induction r as [|p r IH]; intros H Hb; [exact Hb|]. destruct p as [x t| | |x v|bs| |crlf|bd]; cbn [app eol_next] in *; try contradiction.
  - destruct bs; [apply IH; assumption | contradiction].
  - exact H.
Qed.
Lemma pieces_ok_app a b : pieces_ok a -> pieces_ok b -> delim_next b -> eol_next b -> pieces_ok (a ++ b).
Proof.
  induction a as [|p a IH]; intros Ha Hb D E; [exact Hb|].
  destruct p as [x t| | |x v|bs| |crlf|bd]; cbn [app pieces_ok] in *.
  - destruct Ha as [H1 [H2 H3]]. split; [exact H1|]. split; [apply delim_next_app; assumption | apply IH; assumption].
  - apply IH; assumption.
  - apply IH; assumption.
  - destruct Ha as [H1 H3]. split; [exact H1 | apply IH; assumption].
  - destruct Ha as [H1 H3]. split; [exact H1 | apply IH; assumption].
  - apply IH; assumption.
  - apply IH; assumption.
  - destruct Ha as [H1 [H2 H3]]. split; [exact H1|]. split; [apply eol_next_app; assumption | apply IH; assumption].
Qed.

(* ---------- the header, for every origin ---------- *)
Lemma hdr_parse o R f : 0 <= o < 65536 ->
  match R with (TNewLine, _) :: _ => False | [] => False | _ => True end ->
  p_stmts (S f) ((TDirective (zs "orig"), (0, 5)) :: (TUnsigned o, (6, 11)) :: (TNewLine, (11, 12)) :: R, (0, 0))
  = (let* l := p_stmts f (R, (11, 12)) in POk (mkStmt [] (NDir (DOrig o)) 0 11 :: l)).
Proof.
  intros Ho HR. cbn [p_stmts all_nl forallb fst is_newline andb].
  unfold p_stmt. cbn [fst snd skip_labels all_nl forallb is_newline andb Parser.cursor p_nucleus p_directive].
  unfold p_directive. rewrite dir_lookup_orig. rewrite p_off_u_tok by (try lia; unfold fits_u; lia).
  cbn [pbind p_end fst snd].
  assert (SK : skip_nl R (11, 12) = (R, (11, 12))).
  { destruct R as [|[t sp] R']; [contradiction|]. destruct t; try contradiction; reflexivity. }
  rewrite SK. reflexivity.
Qed.

(* ---------- the origin-independent part: one sweep ---------- *)
Definition rest_toks (w : Z) : list tok := toks_of 12 (body w).
Definition tail_parse (w : Z) : pres (list stmt) :=
  p_stmts (3 + List.length (rest_toks w)) (rest_toks w, (11, 12)).
Definition is_end_stmt (s : stmt) : bool :=
  match s_labels s, s_nucleus s with [], NDir DEnd => true | _, _ => false end.
Definition tail_chk (w : Z) : bool :=
  in_parser_image (disassemble w) && printable_strings (disassemble w)
  && match rest_toks w with (TNewLine, _) :: _ => false | [] => false | _ => true end
  && match tail_parse w with
     | POk [s1; s2] =>
         match s_labels s1 with [] => true | _ => false end
         && label_free (s_nucleus s1) && (word_of (s_nucleus s1) =? w) && is_end_stmt s2
     | _ => false
     end.
Lemma tail_sweep : forallb tail_chk (zrange 0 (Z.to_nat 65536)) = true.
Proof. vm_compute. reflexivity. Qed.

Theorem parse_at_origin o w : 0 <= o < 65536 -> 0 <= w < 65536 ->
  exists n c d e f,
    parse_ast (wrap_text o (disasm_text w))
    = POk [mkStmt [] (NDir (DOrig o)) 0 11; mkStmt [] n c d; mkStmt [] (NDir DEnd) e f]
    /\ label_free n = true /\ word_of n = w.
Proof.
  intros Ho Hw. pose proof (forall_range' _ 0 65536 tail_sweep w Hw) as C. unfold tail_chk in C.
  apply andb_prop in C. destruct C as [C C4]. apply andb_prop in C. destruct C as [C C3]. apply andb_prop in C. destruct C as [C1 C2].
  destruct (hex4_pad o Ho) as [_ HB].
  (* lexing *)
  assert (OK : pieces_ok (hdr o ++ body w)).
  { cbn [hdr app pieces_ok]. split; [apply word_ok_directive; reflexivity|]. split; [exact Logic.I|].
    split; [apply word_ok_hex; lia|]. split; [exact Logic.I|].
    unfold body. apply pieces_ok_app; [apply stmt_pieces_ok; assumption | | exact Logic.I | exact Logic.I].
    cbn [ftr pieces_ok]. split; [apply word_ok_directive; reflexivity|]. split; exact Logic.I. }
  unfold parse_ast, parse_ast_with. rewrite lex_with_at, (wrap_pieces o w Ho), (lex_pieces _ 0 OK).
  unfold parse_tokens. rewrite filter_toks.
  2: { rewrite forallb_app. apply andb_true_intro. split; [reflexivity|]. unfold body. rewrite forallb_app, stmt_pieces_no_comment. reflexivity. }
  assert (TK : toks_of 0 (hdr o ++ body w)
               = (TDirective (zs "orig"), (0, 5)) :: (TUnsigned o, (6, 11)) :: (TNewLine, (11, 12)) :: rest_toks w).
  { cbn [hdr app toks_of Wdir Whex byte_len nl_text]. cbn [byte_len] in HB. rewrite HB. reflexivity. }
  rewrite TK. cbn [List.length].
  rewrite hdr_parse; [|exact Ho|destruct (rest_toks w) as [|[t sp] r]; [discriminate C3|destruct t; try exact Logic.I; discriminate C3]].
  match goal with |- context [pbind ?X _] => replace X with (tail_parse w) by reflexivity end.
  destruct (tail_parse w) as [[|s1 [|s2 [|s3 l]]]| |]; try discriminate C4.
  apply andb_prop in C4. destruct C4 as [C4 E2]. apply andb_prop in C4. destruct C4 as [C4 E1]. apply andb_prop in C4. destruct C4 as [L1 LF].
  destruct s1 as [ls1 n1 c d]. destruct s2 as [ls2 n2 e f]. cbn [s_labels s_nucleus] in *.
  destruct ls1; [|discriminate L1]. unfold is_end_stmt in E2. cbn [s_labels s_nucleus] in E2.
  destruct ls2; [|discriminate E2]. destruct n2 as [?|[?|?|?|?| |?]]; try discriminate E2.
  exists n1, c, d, e, f. cbn [pbind]. split; [reflexivity|]. split; [exact LF | apply Z.eqb_eq; exact E1].
Qed.

(* the round trip at every origin below the I/O page *)
Theorem roundtrip_every_origin o w : 0 <= o <= 65023 -> 0 <= w < 65536 ->
  exists p obj, parse_ast (wrap_text o (disasm_text w)) = POk p /\ assemble false None p = AOk obj
                /\ o_blocks obj = [(o, [Some w])] /\ o_sym obj = None.
Proof.
  intros Ho Hw. destruct (parse_at_origin o w ltac:(lia) Hw) as [n [c [d [e [f [P [LF WO]]]]]]].
  eexists. eexists. split; [exact P|]. rewrite (single_statement o n 0 11 c d e f Ho LF). rewrite WO.
  split; [reflexivity|]. split; reflexivity.
Qed.
