(* DisasmProofs.v — C07 by complete finite sweeps (all 65536 words), computed by the kernel on the
   models of the disassembler, the printer, the lexer, the parser and the two-pass assembler. *)
From Coq Require Import ZArith List Bool Lia.
From Model Require Import Tree Bits Text Instr AsmAst Obj Lexer Parser Print Assembler Disasm.
From Proofs Require Import Ranges InstrProofs.
Import ListNotations.
Open Scope Z_scope.

Lemma sweep_0000 : forallb (roundtrip_ok 0) (zrange 0 (Z.to_nat 65536)) = true.
Proof. vm_compute. reflexivity. Qed.
Lemma sweep_3000 : forallb (roundtrip_ok 12288) (zrange 0 (Z.to_nat 65536)) = true.
Proof. vm_compute. reflexivity. Qed.
Lemma sweep_FDFF : forallb (roundtrip_ok 65023) (zrange 0 (Z.to_nat 65536)) = true.
Proof. vm_compute. reflexivity. Qed.
Lemma sweep_8000 : forallb (roundtrip_ok 32768) (zrange 0 (Z.to_nat 65536)) = true.
Proof. vm_compute. reflexivity. Qed.

Lemma roundtrip_meaning o w : roundtrip_ok o w = true ->
  exists p obj, parse_ast (wrap_text o (disasm_text w)) = POk p /\ assemble false None p = AOk obj
                /\ o_blocks obj = [(o, [Some w])].
Proof.
  unfold roundtrip_ok, reassemble. destruct (parse_ast (wrap_text o (disasm_text w))) as [p| |] eqn:P; try discriminate.
  destruct (assemble false None p) as [obj| |] eqn:A; try discriminate.
  unfold block1_eqb. destruct (o_blocks obj) as [|[a [|[v|] [|? ?]]] [|? ?]] eqn:B; try discriminate.
  intros H. apply andb_prop in H. destruct H as [H1 H2]. apply Z.eqb_eq in H1. apply Z.eqb_eq in H2. subst.
  exists p, obj. split; [reflexivity|]. split; [exact A|exact B].
Qed.

Definition is_fill (s : stmt) : bool := match s_nucleus s with NDir (DFill (POff _)) => true | _ => false end.
Definition decodes (w : Z) : bool := match decode w with DOk _ => true | _ => false end.

(* words below x0200 and non-instructions come back as .fill <the word>; everything else as an instruction *)
Definition fill_chk (w : Z) : bool :=
  if (w <? 512) || negb (decodes w)
  then match s_nucleus (disassemble w) with NDir (DFill (POff v)) => v =? w | _ => false end
  else match s_nucleus (disassemble w) with NInstr _ => true | _ => false end.
Lemma fill_sweep : forallb fill_chk (zrange 0 (Z.to_nat 65536)) = true.
Proof. vm_compute. reflexivity. Qed.

(* the printed text never contains a label operand and the statement carries no label *)
Definition alias_chk (w : Z) : bool :=
  let t := disasm_text w in
  if w =? 49600 then str_eqb t [82; 69; 84]                       (* RET *)
  else if w =? 61472 then str_eqb t [71; 69; 84; 67]              (* GETC *)
  else if w =? 61473 then str_eqb t [80; 85; 84; 67]              (* PUTC *)
  else if w =? 61474 then str_eqb t [80; 85; 84; 83]              (* PUTS *)
  else if w =? 61475 then str_eqb t [73; 78]                      (* IN *)
  else if w =? 61476 then str_eqb t [80; 85; 84; 83; 80]          (* PUTSP *)
  else if w =? 61477 then str_eqb t [72; 65; 76; 84]              (* HALT *)
  else if w =? 32768 then str_eqb t [82; 84; 73]                  (* RTI *)
  else true.
Lemma alias_sweep : forallb alias_chk (zrange 0 (Z.to_nat 65536)) = true.
Proof. vm_compute. reflexivity. Qed.
