(* ImageProofs.v — the model parser only returns statements of the parser's image
   ([in_parser_image], the hypothesis of C36): registers 0..7, operands inside their fields, label
   names that satisfy the identifier conditions, string literals below the size limit.
   Two invariants: every token the lexer produces is well formed ([tok_wf]); every parser
   component turns well-formed tokens into well-formed AST parts. *)
From Coq Require Import ZArith List Bool Lia.
From Model Require Import Tree Text Bits Offset Instr AsmAst Lexer Parser Print.
From Proofs Require Import LexerProofs LexStepProofs OffsetProofs PiecesProofs PrintParseProofs.
Import ListNotations.
Open Scope Z_scope.

(* ---------- tokens ---------- *)
Definition tok_wf (t : token) : Prop :=
  match t with
  | TReg r => 0 <= r < 8
  | TUnsigned v => 0 <= v <= 65535
  | TSigned v => -32768 <= v <= 32767
  | TIdent (ILabel s) => label_name_ok s = true
  | TString s => byte_len s <? 65535 = true
  | _ => True
  end.
Definition res_wf (r : step_res) : Prop := match r with SOk t => tok_wf t | _ => True end.

Lemma to_digit_range radix c d : to_digit radix c = Some d -> 0 <= d < radix.
Proof.
  unfold to_digit. set (x := if is_digit c then c - 48 else if is_lower c then c - 87 else if is_upper c then c - 55 else radix).
  destruct (x <? radix) eqn:E; [|discriminate]. intros H. injection H as <-. apply Z.ltb_lt in E. split; [|exact E].
  unfold x, is_digit, is_lower, is_upper.
  destruct ((48 <=? c) && (c <=? 57)) eqn:E1; [apply andb_prop in E1; destruct E1 as [A _]; apply Z.leb_le in A; lia|].
  destruct ((97 <=? c) && (c <=? 122)) eqn:E2; [apply andb_prop in E2; destruct E2 as [A _]; apply Z.leb_le in A; lia|].
  destruct ((65 <=? c) && (c <=? 90)) eqn:E3; [apply andb_prop in E3; destruct E3 as [A _]; apply Z.leb_le in A; lia|].
  unfold x, is_digit, is_lower, is_upper in E. rewrite E1, E2, E3 in E. lia.
Qed.

Lemma pi_pos_range radix hi : 0 < radix -> forall s acc v, 0 <= acc <= hi -> pi_pos radix hi acc s = IOk v -> 0 <= v <= hi.
Proof.
  intros Hr. induction s as [|c r IH]; intros acc v Ha H; cbn [pi_pos] in H.
  - injection H as <-. exact Ha.
  - destruct (to_digit radix c) as [d|] eqn:Ed; [|discriminate]. apply to_digit_range in Ed.
    destruct (acc * radix >? hi) eqn:E1; [discriminate|]. destruct (acc * radix + d >? hi) eqn:E2; [discriminate|].
    rewrite Z.gtb_ltb in E1, E2. apply Z.ltb_ge in E1. apply Z.ltb_ge in E2.
    apply (IH (acc * radix + d) v); [nia|exact H].
Qed.
Lemma pi_neg_range radix lo : 0 < radix -> forall s acc v, lo <= acc <= 0 -> pi_neg radix lo acc s = IOk v -> lo <= v <= 0.
Proof.
  intros Hr. induction s as [|c r IH]; intros acc v Ha H; cbn [pi_neg] in H.
  - injection H as <-. exact Ha.
  - destruct (to_digit radix c) as [d|] eqn:Ed; [|discriminate]. apply to_digit_range in Ed.
    destruct (acc * radix <? lo) eqn:E1; [discriminate|]. destruct (acc * radix - d <? lo) eqn:E2; [discriminate|].
    apply Z.ltb_ge in E1. apply Z.ltb_ge in E2.
    apply (IH (acc * radix - d) v); [nia|exact H].
Qed.
Lemma parse_int_range radix lo hi s v : 0 < radix -> lo <= 0 <= hi -> parse_int radix lo hi s = IOk v -> lo <= v <= hi.
Proof.
  intros Hr Hb H. unfold parse_int in H. destruct s as [|c r]; [discriminate|].
  destruct (((c =? 43) || (c =? 45)) && is_nil r); [discriminate|].
  destruct (c =? 43).
  { apply pi_pos_range in H; lia. }
  destruct ((c =? 45) && (lo <? 0)).
  { apply pi_neg_range in H; lia. }
  apply pi_pos_range in H; lia.
Qed.

Lemma conv_int_wf mk r a b c s lo hi radix src :
  r = parse_int radix lo hi src -> 0 < radix -> lo <= 0 <= hi -> (forall v, lo <= v <= hi -> tok_wf (mk v)) ->
  res_wf (conv_int mk r a b c s).
Proof.
  intros -> Hr Hb Hmk. unfold conv_int. destruct (parse_int radix lo hi src) as [v| | | |] eqn:E; cbn [res_wf]; trivial.
  - apply Hmk. eapply parse_int_range; eassumption.
  - destruct (str_eqb s [45]); exact Logic.I.
Qed.

Lemma lex_unsigned_dec_wf s : res_wf (lex_unsigned_dec s).
Proof. unfold lex_unsigned_dec, parse_u16. eapply conv_int_wf; [reflexivity|lia|lia|]. intros v Hv. exact Hv. Qed.
Lemma lex_signed_dec_wf s : res_wf (lex_signed_dec s).
Proof. unfold lex_signed_dec, parse_i16. eapply conv_int_wf; [reflexivity|lia|lia|]. intros v Hv. exact Hv. Qed.
Lemma lex_unsigned_hex_wf s : res_wf (lex_unsigned_hex s).
Proof.
  unfold lex_unsigned_hex. destruct s as [|c hex]; [exact Logic.I|]. destruct (is_x c); [|exact Logic.I].
  unfold parse_u16. eapply conv_int_wf; [reflexivity|lia|lia|]. intros v Hv. exact Hv.
Qed.
Lemma lex_signed_hex_wf s : res_wf (lex_signed_hex s).
Proof.
  unfold lex_signed_hex. destruct s as [|c hex]; [exact Logic.I|]. destruct (is_x c); [|exact Logic.I].
  unfold parse_i16. eapply conv_int_wf; [reflexivity|lia|lia|]. intros v Hv. exact Hv.
Qed.
Lemma lex_reg_wf s : res_wf (lex_reg s).
Proof.
  unfold lex_reg. destruct s as [|c ds]; [exact Logic.I|]. destruct (c <? 128); [|exact Logic.I].
  destruct (parse_u8 10 ds) as [r| | | |] eqn:E; try exact Logic.I.
  unfold parse_u8 in E. apply parse_int_range in E; [|lia|lia].
  destruct (r <? 8) eqn:E8; [|exact Logic.I]. apply Z.ltb_lt in E8. cbn [res_wf tok_wf]. lia.
Qed.

(* an identifier text taken by the identifier rule is a valid label name whenever it is no keyword *)
Lemma ident_wf c w : is_alpha_us c = true -> forallb is_word w = true ->
  (is_x c = true -> match w with [] => True | d :: _ => is_dec d || is_hex_letter d = false end) ->
  (is_r c = true -> negb (is_nil w) && forallb is_dec w = false) ->
  tok_wf (TIdent (ident_of (c :: w))).
Proof.
  intros Ha Hw Hx Hr. cbn [tok_wf]. destruct (ident_of (c :: w)) as [k|s] eqn:E; [exact Logic.I|].
  assert (Hs : s = c :: w).
  { unfold ident_of in E. destruct (assoc_str (kw_upper (c :: w)) kw_table); [discriminate|]. injection E as <-. reflexivity. }
  subst s. unfold label_name_ok. rewrite Ha, Hw, E. cbn [andb].
  destruct (is_x c) eqn:Ex; cbn [negb orb].
  - specialize (Hx eq_refl). destruct w as [|d w']; [|rewrite Hx]; cbn [negb andb];
      (destruct (is_r c) eqn:Er; cbn [negb orb]; [rewrite (Hr eq_refl)|]; reflexivity).
  - destruct (is_r c) eqn:Er; cbn [negb orb]; [rewrite (Hr eq_refl)|]; reflexivity.
Qed.

Lemma word_tok_wf f pre npre r res n rest :
  (forall w, forallb is_word w = true -> res_wf (f (pre ++ w))) -> word_tok f pre npre r = (res, n, rest) -> res_wf res.
Proof.
  intros Hf H. unfold word_tok, span_word in H. destruct (span_p is_word r) as [w rest'] eqn:E.
  apply triple_inj in H. destruct H as [<- _]. apply Hf. eapply span_p_all. exact E.
Qed.

Lemma lex_step_wf c r res n rest : lex_step true c r = (res, n, rest) -> res_wf res.
Proof.
  unfold lex_step. intros H.
  assert (Hsd : forall pre w, res_wf (lex_signed_dec (pre ++ w))) by (intros; apply lex_signed_dec_wf).
  assert (Hud : forall pre w, res_wf (lex_unsigned_dec (pre ++ w))) by (intros; apply lex_unsigned_dec_wf).
  destruct (c =? 10). { apply triple_inj in H. destruct H as [<- _]. exact Logic.I. }
  destruct (c =? 13).
  { destruct r as [|d r']; [apply triple_inj in H; destruct H as [<- _]; exact Logic.I|].
    destruct (d =? 10); apply triple_inj in H; destruct H as [<- _]; exact Logic.I. }
  destruct (c =? 59).
  { destruct (span_p (fun x => negb (x =? 10)) r). apply triple_inj in H. destruct H as [<- _]. exact Logic.I. }
  destruct (c =? 58). { apply triple_inj in H. destruct H as [<- _]. exact Logic.I. }
  destruct (c =? 44). { apply triple_inj in H. destruct H as [<- _]. exact Logic.I. }
  destruct (c =? 34).
  { unfold lex_str_literal in H. destruct (scan_str true r); apply triple_inj in H; destruct H as [<- _]; try exact Logic.I.
    destruct (byte_len buf <? 65535) eqn:E; [exact E|exact Logic.I]. }
  destruct (c =? 46). { eapply word_tok_wf; [|exact H]. intros w _. exact Logic.I. }
  destruct (c =? 35).
  { destruct r as [|d r1]; [eapply word_tok_wf; [|exact H]; intros; apply Hud|].
    destruct (d =? 45); [eapply word_tok_wf; [|exact H]; intros; apply Hsd|].
    destruct (d =? 35); [|eapply word_tok_wf; [|exact H]; intros; apply Hud].
    destruct (span_p (fun x => x =? 35) r1) as [hs r2].
    destruct r2 as [|m r3]; [eapply word_tok_wf; [|exact H]; intros; apply Hsd|].
    destruct (m =? 45); (eapply word_tok_wf; [|exact H]; intros; apply Hsd). }
  destruct (c =? 45).
  { destruct r as [|d r1]; [eapply word_tok_wf; [|exact H]; intros; apply Hsd|].
    destruct (d =? 35); [|eapply word_tok_wf; [|exact H]; intros; apply Hsd].
    destruct (span_p (fun x => x =? 35) r1) as [hs r2]. eapply word_tok_wf; [|exact H]. intros; apply Hsd. }
  destruct (is_dec c). { eapply word_tok_wf; [|exact H]. intros; apply Hud. }
  destruct (is_alpha_us c) eqn:Eal; [|apply triple_inj in H; destruct H as [<- _]; exact Logic.I].
  destruct (is_x c) eqn:Ex.
  { destruct r as [|d r1].
    - apply triple_inj in H. destruct H as [<- _]. cbn [res_wf].
      apply ident_wf; [exact Eal|reflexivity|intros _; exact Logic.I|intros Hr; rewrite (is_x_not_r c Ex) in Hr; discriminate].
    - destruct (d =? 45) eqn:E45; [eapply word_tok_wf; [|exact H]; intros; apply lex_signed_hex_wf|].
      destruct (is_dec d || is_hex_letter d) eqn:Ed; [eapply word_tok_wf; [|exact H]; intros; apply lex_unsigned_hex_wf|].
      (* identifier starting with x: the word is what span_word returns; its first character is d if d is a word character *)
      unfold word_tok, span_word in H. destruct (span_p is_word (d :: r1)) as [w rest'] eqn:E.
      apply triple_inj in H. destruct H as [<- _]. cbn [res_wf app].
      apply ident_wf; [exact Eal|eapply span_p_all; exact E| |intros Hr; rewrite (is_x_not_r c Ex) in Hr; discriminate].
      intros _. cbn [span_p] in E. destruct (is_word d).
      + destruct (span_p is_word r1). injection E as <- _. exact Ed.
      + injection E as <- _. exact Logic.I. }
  destruct (is_r c) eqn:Er.
  { destruct (span_word r) as [w rest'] eqn:E. unfold span_word in E. apply triple_inj in H. destruct H as [<- _].
    destruct (negb (is_nil w) && forallb is_dec w) eqn:Ed; [apply lex_reg_wf|].
    cbn [res_wf]. apply ident_wf; [exact Eal|eapply span_p_all; exact E|intros Hx; rewrite Hx in Ex; discriminate|intros _; exact Ed]. }
  unfold word_tok, span_word in H. destruct (span_p is_word r) as [w rest'] eqn:E.
  apply triple_inj in H. destruct H as [<- _]. cbn [res_wf app].
  apply ident_wf; [exact Eal|eapply span_p_all; exact E|intros Hx; rewrite Hx in Ex; discriminate|intros Hr; rewrite Hr in Er; discriminate].
Qed.

Definition toks_wf (l : list tok) : Prop := Forall (fun t : tok => tok_wf (fst t)) l.

Lemma lex_at_wf : forall k s pos, (length s <= k)%nat ->
  match lex_at true pos s with LexOk l => toks_wf l | _ => True end.
Proof.
  induction k as [|k IH]; intros s pos Hk.
  - destruct s; [|cbn [length] in Hk; lia]. rewrite lex_at_nil. constructor.
  - destruct s as [|c r]; [rewrite lex_at_nil; constructor|]. cbn [length] in Hk.
    rewrite lex_at_cons. destruct (is_blank c); [apply IH; lia|].
    destruct (lex_step true c r) as [[res n] rest] eqn:E.
    pose proof (lex_step_shorter _ _ _ _ _ _ E) as Hl. pose proof (lex_step_wf _ _ _ _ _ E) as Hw.
    destruct res; try exact Logic.I.
    specialize (IH rest (pos + n) ltac:(lia)). destruct (lex_at true (pos + n) rest); cbn [lex_cons]; try exact Logic.I.
    constructor; [exact Hw|exact IH].
Qed.

(* ---------- the parser ---------- *)
Definition pos_wf (p : ppos) : Prop := toks_wf (fst p).
Definition rq {A} (Q : A -> Prop) (r : pres A) : Prop := match r with POk a => Q a | _ => True end.
Lemma rq_bind {A B} (Q : A -> Prop) (R : B -> Prop) (r : pres A) (f : A -> pres B) :
  rq Q r -> (forall a, Q a -> rq R (f a)) -> rq R (pbind r f).
Proof. destruct r; cbn [rq pbind]; intros H Hf; [apply Hf; exact H|exact Logic.I|exact Logic.I]. Qed.

Definition qa {A} (Q : A -> Prop) (x : A * ppos) : Prop := Q (fst x) /\ pos_wf (snd x).

Lemma pos_wf_tail t sp ts prev : pos_wf ((t, sp) :: ts, prev) -> tok_wf t /\ forall prev', pos_wf (ts, prev').
Proof. unfold pos_wf, toks_wf. cbn [fst]. intros H. inversion H; subst. split; [assumption|intros; assumption]. Qed.

Ltac head_wf p Hp :=
  destruct p as [[|[t sp] ts] prev]; cbn [fst snd];
  [ | destruct (pos_wf_tail _ _ _ _ Hp) as [Ht Hts] ].

Lemma p_tok_wf want m p : pos_wf p -> rq pos_wf (p_tok want m p).
Proof. intros Hp. unfold p_tok. head_wf p Hp; [exact Logic.I|]. destruct (want t); [apply Hts|exact Logic.I]. Qed.
Lemma p_end_wf p : pos_wf p -> rq pos_wf (p_end p).
Proof. intros Hp. unfold p_end. pose proof Hp as Hp0. head_wf p Hp; [exact Hp0|]. destruct t; try exact Logic.I. apply Hts. Qed.
Lemma p_reg_wf p : pos_wf p -> rq (qa (fun r => reg_okb r = true)) (p_reg p).
Proof.
  intros Hp. unfold p_reg. head_wf p Hp; [exact Logic.I|]. destruct t; try exact Logic.I.
  destruct ((0 <=? r) && (r <? 8)) eqn:E; [|exact Logic.I]. split; [exact E|apply Hts].
Qed.
Lemma p_label_wf p : pos_wf p -> rq (qa (fun l => label_okb l = true)) (p_label p).
Proof.
  intros Hp. unfold p_label. head_wf p Hp; [exact Logic.I|]. destruct t; try exact Logic.I. destruct i; try exact Logic.I.
  split; [exact Ht|apply Hts].
Qed.
Lemma p_str_wf p : pos_wf p -> rq (qa (fun s => byte_len s <? 65535 = true)) (p_str p).
Proof.
  intros Hp. unfold p_str. head_wf p Hp; [exact Logic.I|]. destruct t; try exact Logic.I. split; [exact Ht|apply Hts].
Qed.

Lemma new_s_fits n v w : 1 <= n <= 16 -> -32768 <= v < 32768 -> off_res (new_s n v) (0, 0) = POk w -> w = v /\ fits_s n v = true.
Proof.
  intros Hn Hv H. rewrite new_s_spec in H by assumption. destruct (fits_s n v); cbn [off_res] in H; [|discriminate].
  injection H as <-. split; reflexivity.
Qed.
Lemma off_res_span (r : Offset.res Z) sp sp' (w : Z) : off_res r sp = POk w -> off_res r sp' = POk w.
Proof. destruct r as [v|e|]; cbn [off_res]; [trivial|destruct e; discriminate|discriminate]. Qed.

Lemma conv_s_wf n t sp r : 1 <= n <= 16 -> tok_wf t -> conv_s n t sp = Some r -> rq (fun v => fits_s n v = true) r.
Proof.
  intros Hn Ht H. destruct t; cbn [conv_s] in H; inversion H; subst; cbn [tok_wf] in Ht.
  - destruct (v <? 32768) eqn:E; [|exact Logic.I]. apply Z.ltb_lt in E.
    destruct (off_res (new_s n v) sp) as [w| |] eqn:Eo; try exact Logic.I.
    apply (off_res_span _ _ (0, 0)) in Eo. apply new_s_fits in Eo; [|exact Hn|lia]. destruct Eo as [-> Hf]. exact Hf.
  - destruct (off_res (new_s n v) sp) as [w| |] eqn:Eo; try exact Logic.I.
    apply (off_res_span _ _ (0, 0)) in Eo. apply new_s_fits in Eo; [|exact Hn|lia]. destruct Eo as [-> Hf]. exact Hf.
Qed.
Lemma conv_u_wf n t sp r : 1 <= n <= 16 -> tok_wf t -> conv_u n t sp = Some r -> rq (fun v => fits_u n v = true) r.
Proof.
  intros Hn Ht H.
  assert (Hu : forall v, 0 <= v < 65536 -> rq (fun v => fits_u n v = true) (off_res (new_u n v) sp)).
  { intros v Hv. rewrite new_u_spec by assumption. destruct (fits_u n v) eqn:E; cbn [off_res rq]; [exact E|exact Logic.I]. }
  destruct t; cbn [conv_u] in H; inversion H; subst; cbn [tok_wf] in Ht.
  - apply Hu. lia.
  - destruct (0 <=? v) eqn:E; [|exact Logic.I]. apply Z.leb_le in E. apply Hu. lia.
Qed.

Lemma p_off_wf (Q : Z -> Prop) conv p :
  (forall t sp r, tok_wf t -> conv t sp = Some r -> rq Q r) -> pos_wf p -> rq (qa Q) (p_off conv p).
Proof.
  intros Hc Hp. unfold p_off. head_wf p Hp; [exact Logic.I|].
  destruct (conv t sp) as [r|] eqn:E; [|exact Logic.I].
  eapply rq_bind; [eapply Hc; eassumption|]. intros v Hv. split; [exact Hv|apply Hts].
Qed.
Lemma p_ior_wf p : pos_wf p -> rq (qa (fun o => ior_okb o = true)) (p_ior 5 p).
Proof.
  intros Hp. unfold p_ior. head_wf p Hp; [exact Logic.I|].
  destruct (conv_s 5 t sp) as [r|] eqn:E.
  - eapply rq_bind; [eapply (conv_s_wf 5); [lia|exact Ht|exact E]|]. intros v Hv. split; [exact Hv|apply Hts].
  - destruct t; try exact Logic.I. destruct ((0 <=? r) && (r <? 8)) eqn:Er; [|exact Logic.I]. split; [exact Er|apply Hts].
Qed.
Lemma p_pcoff_wf n p : 1 <= n <= 16 -> pos_wf p -> rq (qa (fun o => pcoff_okb n o = true)) (p_pcoff n p).
Proof.
  intros Hn Hp. unfold p_pcoff. head_wf p Hp; [exact Logic.I|].
  destruct (conv_s n t sp) as [r|] eqn:E.
  - eapply rq_bind; [eapply (conv_s_wf n); [exact Hn|exact Ht|exact E]|]. intros v Hv. split; [exact Hv|apply Hts].
  - destruct t; try exact Logic.I. destruct i; try exact Logic.I. split; [exact Ht|apply Hts].
Qed.
Lemma p_reg_comma_wf p : pos_wf p -> rq (qa (fun r => reg_okb r = true)) (p_reg_comma p).
Proof.
  intros Hp. unfold p_reg_comma. eapply rq_bind; [apply p_reg_wf; exact Hp|]. intros [r p1] [Hr Hp1]. cbn [fst snd] in *. cbn beta iota.
  eapply rq_bind; [apply p_tok_wf; exact Hp1|]. intros p2 Hp2. split; [exact Hr|exact Hp2].
Qed.

Ltac wstep L :=
  eapply rq_bind; [apply L; try lia; try assumption|];
  let a := fresh "a" in let q := fresh "q" in let Ha := fresh "Ha" in let Hq := fresh "Hq" in
  intros [a q] [Ha Hq]; cbn [fst snd] in Ha, Hq; cbn beta iota.
Ltac wdone := unfold rq, qa; cbn beta; cbn [fst snd]; cbn [instr_okb directive_okb]; split; [repeat match goal with H : ?x = true |- context [?x] => rewrite H end; reflexivity|assumption].

Lemma p_br_wf cc p : 1 <= cc <= 7 -> pos_wf p -> rq (qa (fun i => instr_okb i = true)) (p_br cc p).
Proof.
  intros Hc Hp. unfold p_br. wstep p_pcoff_wf. unfold rq, qa; cbn beta; cbn [fst snd]; cbn [instr_okb]. split; [|assumption].
  replace (1 <=? cc) with true by (symmetry; apply Z.leb_le; lia). replace (cc <=? 7) with true by (symmetry; apply Z.leb_le; lia). exact Ha.
Qed.

Lemma p_operands_wf k p : pos_wf p -> rq (qa (fun i => instr_okb i = true)) (p_operands k p).
Proof.
  intros Hp. destruct k; cbn [p_operands]; try (apply p_br_wf; [lia|exact Hp]); try (split; [reflexivity|exact Hp]).
  - wstep p_reg_comma_wf. wstep p_reg_comma_wf. wstep p_ior_wf. wdone.
  - wstep p_reg_comma_wf. wstep p_reg_comma_wf. wstep p_ior_wf. wdone.
  - wstep p_reg_comma_wf. wstep p_reg_wf. wdone.
  - wstep p_reg_wf. wdone.
  - wstep p_pcoff_wf. wdone.
  - wstep p_reg_wf. wdone.
  - wstep p_reg_comma_wf. wstep p_pcoff_wf. wdone.
  - wstep p_reg_comma_wf. wstep p_pcoff_wf. wdone.
  - wstep p_reg_comma_wf. wstep p_reg_comma_wf.
    eapply rq_bind; [apply (p_off_wf (fun v => fits_s 6 v = true)); [intros; eapply (conv_s_wf 6); try eassumption; lia|assumption]|].
    intros [v q1] [Hv Hq1]. cbn [fst snd] in *. cbn beta iota. wdone.
  - wstep p_reg_comma_wf. wstep p_pcoff_wf. wdone.
  - wstep p_reg_comma_wf. wstep p_pcoff_wf. wdone.
  - wstep p_reg_comma_wf. wstep p_pcoff_wf. wdone.
  - wstep p_reg_comma_wf. wstep p_reg_comma_wf.
    eapply rq_bind; [apply (p_off_wf (fun v => fits_s 6 v = true)); [intros; eapply (conv_s_wf 6); try eassumption; lia|assumption]|].
    intros [v q1] [Hv Hq1]. cbn [fst snd] in *. cbn beta iota. wdone.
  - eapply rq_bind; [apply (p_off_wf (fun v => fits_u 8 v = true)); [intros; eapply (conv_u_wf 8); try eassumption; lia|assumption]|].
    intros [v q1] [Hv Hq1]. cbn [fst snd] in *. cbn beta iota. wdone.
  - (* NOP *)
    assert (Hdef : rq (qa (fun i => instr_okb i = true)) (let* v := off_res (new_trunc_s 9 0) (snd p) in POk (ANOP (POff v), p))).
    { change (off_res (new_trunc_s 9 0) (snd p)) with (@POk Z 0). cbn [pbind rq qa fst snd instr_okb pcoff_okb]. split; [reflexivity|exact Hp]. }
    destruct p as [[|[t sp] ts] prev]; cbn [fst]; [exact Hdef|].
    destruct t; try exact Hdef; try (wstep p_pcoff_wf; wdone).
    destruct i; try exact Hdef. wstep p_pcoff_wf. wdone.
Qed.

Lemma p_directive_wf name dsp p : pos_wf p -> rq (qa (fun d => directive_okb d = true)) (p_directive name dsp p).
Proof.
  intros Hp. unfold p_directive.
  destruct (assoc_str (kw_upper name) dir_names) as [z|]; [|exact Logic.I].
  destruct z as [|z|z]; [| |exact Logic.I].
  - eapply rq_bind; [apply (p_off_wf (fun v => fits_u 16 v = true)); [intros; eapply (conv_u_wf 16); try eassumption; lia|assumption]|].
    intros [v q1] [Hv Hq1]. cbn [fst snd] in *. cbn beta iota. wdone.
  - destruct z as [z|z|]; try destruct z as [z|z|]; try destruct z as [z|z|]; try exact Logic.I.
    + (* EXTERNAL *) wstep p_label_wf. wdone.
    + (* STRINGZ *) wstep p_str_wf. wdone.
    + (* END *) split; [reflexivity|exact Hp].
    + (* BLKW *)
      eapply rq_bind; [apply (p_off_wf (fun v => fits_u 16 v = true)); [intros; eapply (conv_u_wf 16); try eassumption; lia|assumption]|].
      intros [v q1] [Hv Hq1]. cbn [fst snd] in *. cbn beta iota.
      destruct (v =? 0) eqn:E0; [exact Logic.I|]. unfold rq, qa; cbn beta; cbn [fst snd]; cbn [directive_okb]. rewrite Hv, E0. split; [reflexivity|assumption].
    + (* FILL *)
      head_wf p Hp; [exact Logic.I|]. destruct t; try exact Logic.I; cbn [tok_wf] in Ht.
      * rewrite new_trunc_u_spec by lia. cbn [off_res pbind rq qa fst snd directive_okb]. split; [apply zext_fits; lia|apply Hts].
      * unfold to_u16, wrap16. rewrite new_trunc_u_spec by (try lia; apply Z.mod_pos_bound; lia).
        cbn [off_res pbind rq qa fst snd directive_okb]. split; [apply zext_fits; lia|apply Hts].
      * destruct i; try exact Logic.I. split; [exact Ht|apply Hts].
Qed.

Lemma skip_labels_wf : forall n ts prev last, (length ts <= n)%nat -> pos_wf (ts, prev) ->
  let '(ls, last', p') := skip_labels ts prev last in forallb label_okb ls = true /\ pos_wf p'.
Proof.
  induction n as [|n IH]; intros ts prev last Hn Hp.
  - destruct ts; [|cbn [length] in Hn; lia]. cbn. split; [reflexivity|exact Hp].
  - destruct ts as [|[t sp] ts1]; [cbn; split; [reflexivity|exact Hp]|].
    cbn [length] in Hn. unfold skip_labels; fold skip_labels.
    assert (Hstop : forallb label_okb [] = true /\ pos_wf ((t, sp) :: ts1, prev)) by (split; [reflexivity|exact Hp]).
    destruct (all_nl (_ :: _)); [exact Hstop|].
    destruct (pos_wf_tail _ _ _ _ Hp) as [Ht Hts].
    destruct t; try exact Hstop.
    + destruct i; [exact Hstop|]. cbn [tok_wf] in Ht.
      assert (Hone : let '(ls, last', p') := (let '(ls, last', p) := skip_labels ts1 sp (Some sp) in (mkLabel s (fst sp) :: ls, last', p)) in
                     forallb label_okb ls = true /\ pos_wf p').
      { specialize (IH ts1 sp (Some sp) ltac:(lia) (Hts sp)). destruct (skip_labels ts1 sp (Some sp)) as [[ls last'] p']. destruct IH as [H1 H2].
        cbn beta iota zeta. split; [cbn [forallb]; unfold label_okb at 1; cbn [l_name]; rewrite Ht, H1; reflexivity|exact H2]. }
      destruct ts1 as [|[t2 sp2] ts2]; [exact Hone|]. destruct t2; try exact Hone.
      destruct (pos_wf_tail _ _ _ _ (Hts sp)) as [_ Hts2].
      specialize (IH ts2 sp2 (Some sp) ltac:(cbn [length] in *; lia) (Hts2 sp2)). destruct (skip_labels ts2 sp2 (Some sp)) as [[ls last'] p']. destruct IH as [H1 H2].
      cbn beta iota zeta. split; [cbn [forallb]; unfold label_okb at 1; cbn [l_name]; rewrite Ht, H1; reflexivity|exact H2].
    + specialize (IH ts1 sp last ltac:(lia) (Hts sp)). exact IH.
Qed.

Lemma skip_nl_wf : forall ts prev, pos_wf (ts, prev) -> pos_wf (skip_nl ts prev).
Proof.
  induction ts as [|[t sp] ts IH]; intros prev Hp; [exact Hp|].
  unfold skip_nl; fold skip_nl. destruct (all_nl (_ :: _)); [exact Hp|]. destruct t; try exact Hp.
  destruct (pos_wf_tail _ _ _ _ Hp) as [_ Hts]. apply IH. apply Hts.
Qed.

Lemma p_nucleus_wf last p : pos_wf p -> rq (qa (fun n => nucleus_okb n = true)) (p_nucleus last p).
Proof.
  intros Hp. unfold p_nucleus. head_wf p Hp; [exact Logic.I|]. destruct t; try exact Logic.I.
  - destruct i; [|exact Logic.I]. eapply rq_bind; [apply p_operands_wf; apply Hts|]. intros [a q] [Ha Hq]. cbn [fst snd] in *. cbn beta iota.
    split; [exact Ha|exact Hq].
  - eapply rq_bind; [apply p_directive_wf; apply Hts|]. intros [a q] [Ha Hq]. cbn [fst snd] in *. cbn beta iota. split; [exact Ha|exact Hq].
Qed.

Lemma p_stmt_wf p : pos_wf p -> rq (qa (fun s => in_parser_image s = true)) (p_stmt p).
Proof.
  intros Hp. unfold p_stmt. destruct p as [ts prev]. cbn [fst snd].
  pose proof (skip_labels_wf (length ts) ts prev None (le_n _) Hp) as Hs.
  destruct (skip_labels ts prev None) as [[labels last] p1]. destruct Hs as [Hl Hp1].
  eapply rq_bind; [apply p_nucleus_wf; exact Hp1|]. intros [n p2] [Hn Hp2]. cbn [fst snd] in *. cbn beta iota.
  eapply rq_bind; [apply p_end_wf; exact Hp2|]. intros p3 Hp3. unfold rq, qa; cbn beta; cbn [fst snd].
  split; [unfold in_parser_image; cbn [s_labels s_nucleus]; rewrite Hl, Hn; reflexivity|].
  destruct p3 as [ts3 prev3]. apply skip_nl_wf. exact Hp3.
Qed.

Lemma p_stmts_wf : forall fuel p, pos_wf p -> rq (fun l => forallb in_parser_image l = true) (p_stmts fuel p).
Proof.
  induction fuel as [|f IH]; intros p Hp; cbn [p_stmts]; destruct (all_nl (fst p)); try exact Logic.I; try reflexivity.
  eapply rq_bind; [apply p_stmt_wf; exact Hp|]. intros [s p'] [Hs Hp']. cbn [fst snd] in *. cbn beta iota.
  eapply rq_bind; [apply IH; exact Hp'|]. intros l Hl. cbn [rq forallb]. rewrite Hs, Hl. reflexivity.
Qed.

Lemma toks_wf_filter (f : tok -> bool) l : toks_wf l -> toks_wf (filter f l).
Proof.
  unfold toks_wf. induction 1 as [|t ts Ht _ IH]; cbn [filter]; [constructor|]. destruct (f t); [constructor; assumption|assumption].
Qed.

Theorem parse_ast_image s l : parse_ast s = POk l -> forallb in_parser_image l = true.
Proof.
  unfold parse_ast, parse_ast_with. rewrite lex_with_at.
  pose proof (lex_at_wf (length s) s 0 (le_n _)) as Hw.
  destruct (lex_at true 0 s) as [toks|toks e sp|]; try discriminate.
  unfold parse_tokens. intros H.
  assert (Hp : pos_wf (filter (fun t : tok => negb (is_comment (fst t))) toks, (0, 0))) by (apply toks_wf_filter; exact Hw).
  pose proof (p_stmts_wf (S (length (filter (fun t : tok => negb (is_comment (fst t))) toks))) _ Hp) as Hq.
  change (rq (fun l0 => forallb in_parser_image l0 = true) (POk l)). rewrite <- H. exact Hq.
Qed.
