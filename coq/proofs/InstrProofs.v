(* InstrProofs.v — C06: decode/encode are mutually inverse on canonical words / valid
   instructions.  The domains are finite; every statement is proved by computing a boolean
   check over the whole domain (vm_compute) and lifting it with [forall_range]. *)
From Coq Require Import ZArith List Bool Lia.
From Gen Require Import Constants.
From Model Require Import Tree Bits Instr.
From Spec Require Import IsaEncoding.
From Proofs Require Import Ranges.
Import ListNotations.
Open Scope Z_scope.

Definition is_canonical (w : Z) : bool := match classify w with Canonical => true | _ => false end.

Definition word_check (w : Z) : bool :=
  match decode w, classify w with
  | DOk i, Canonical => (encode i =? w) && valid i
  | DIllegalOpcode, Reserved => true
  | DInvalidFormat, BadBits => true
  | _, _ => false
  end.

Lemma word_sweep : forallb word_check (zrange 0 (Z.to_nat 65536)) = true.
Proof. vm_compute. reflexivity. Qed.

Lemma word_check_all w : 0 <= w < 65536 -> word_check w = true.
Proof. intros H. apply (forall_range' word_check 0 65536); [exact word_sweep | exact H]. Qed.

Lemma decode_class w : 0 <= w < 65536 ->
  match classify w with
  | Canonical => exists i, decode w = DOk i /\ encode i = w /\ valid i = true
  | Reserved => decode w = DIllegalOpcode
  | BadBits => decode w = DInvalidFormat
  end.
Proof.
  intros H. pose proof (word_check_all w H) as C. unfold word_check in C.
  destruct (decode w) as [i| | |]; destruct (classify w); try discriminate C; try reflexivity.
  apply andb_prop in C. destruct C as [C1 C2]. exists i. repeat split; [apply Z.eqb_eq; exact C1 | exact C2].
Qed.

Lemma decode_ok_iff w : 0 <= w < 65536 -> ((exists i, decode w = DOk i) <-> classify w = Canonical).
Proof.
  intros H. pose proof (decode_class w H) as C. destruct (classify w).
  - split; [reflexivity|]. intros _. destruct C as [i [E _]]. exists i; exact E.
  - split; [intros [i E]; rewrite C in E; discriminate | discriminate].
  - split; [intros [i E]; rewrite C in E; discriminate | discriminate].
Qed.

Lemma enc_dec w i : 0 <= w < 65536 -> decode w = DOk i -> encode i = w /\ valid i = true.
Proof.
  intros H E. pose proof (decode_class w H) as C. destruct (classify w).
  - destruct C as [j [E' [F V]]]. rewrite E in E'. injection E' as <-. split; assumption.
  - rewrite C in E; discriminate.
  - rewrite C in E; discriminate.
Qed.

Lemma decode_no_panic w : 0 <= w < 65536 -> decode w <> DPanic.
Proof.
  intros H. pose proof (decode_class w H) as C. destruct (classify w).
  - destruct C as [j [E' _]]. rewrite E'. discriminate.
  - rewrite C. discriminate.
  - rewrite C. discriminate.
Qed.

(* ---------- decode (encode i) = i for every valid instruction ---------- *)
Definition rt (i : sim_instr) : bool :=
  match decode (encode i) with DOk j => instr_eqb j i | _ => false end.

Lemma ior_eqb_eq a b : ior_eqb a b = true -> a = b.
Proof. destruct a, b; cbn; intros H; try discriminate; apply Z.eqb_eq in H; subst; reflexivity. Qed.

Lemma instr_eqb_eq a b : instr_eqb a b = true -> a = b.
Proof.
  destruct a, b; cbn; intros H; try discriminate; try reflexivity;
  repeat match goal with
  | H : _ && _ = true |- _ => apply andb_prop in H; destruct H
  | H : (_ =? _) = true |- _ => apply Z.eqb_eq in H; subst
  | H : ior_eqb _ _ = true |- _ => apply ior_eqb_eq in H; subst
  end; reflexivity.
Qed.

Lemma rt_sound i : rt i = true -> decode (encode i) = DOk i.
Proof.
  unfold rt. destruct (decode (encode i)); try discriminate. intros H. apply instr_eqb_eq in H. subst. reflexivity.
Qed.

Definition R8 := zrange 0 8.
Definition all2 (f : Z -> Z -> bool) (la lb : list Z) := forallb (fun a => forallb (f a) lb) la.
Definition all3 (f : Z -> Z -> Z -> bool) (la lb lc : list Z) := forallb (fun a => all2 (f a) lb lc) la.

Lemma rng_range lo hi v : rng lo hi v = true -> lo <= v < hi.
Proof. unfold rng. lia. Qed.

Ltac lift1 H := intros; apply (forall_range' _ _ _ H); auto using rng_range.

Lemma sw_br : all2 (fun a v => rt (SBR a v)) R8 (zrange (-256) 512) = true. Proof. vm_compute; reflexivity. Qed.
Lemma sw_ld : all2 (fun a v => rt (SLD a v)) R8 (zrange (-256) 512) = true. Proof. vm_compute; reflexivity. Qed.
Lemma sw_st : all2 (fun a v => rt (SST a v)) R8 (zrange (-256) 512) = true. Proof. vm_compute; reflexivity. Qed.
Lemma sw_ldi : all2 (fun a v => rt (SLDI a v)) R8 (zrange (-256) 512) = true. Proof. vm_compute; reflexivity. Qed.
Lemma sw_sti : all2 (fun a v => rt (SSTI a v)) R8 (zrange (-256) 512) = true. Proof. vm_compute; reflexivity. Qed.
Lemma sw_lea : all2 (fun a v => rt (SLEA a v)) R8 (zrange (-256) 512) = true. Proof. vm_compute; reflexivity. Qed.
Lemma sw_addi : all3 (fun a b v => rt (SADD a b (Imm v))) R8 R8 (zrange (-16) 32) = true. Proof. vm_compute; reflexivity. Qed.
Lemma sw_addr : all3 (fun a b c => rt (SADD a b (RegOp c))) R8 R8 R8 = true. Proof. vm_compute; reflexivity. Qed.
Lemma sw_andi : all3 (fun a b v => rt (SAND a b (Imm v))) R8 R8 (zrange (-16) 32) = true. Proof. vm_compute; reflexivity. Qed.
Lemma sw_andr : all3 (fun a b c => rt (SAND a b (RegOp c))) R8 R8 R8 = true. Proof. vm_compute; reflexivity. Qed.
Lemma sw_ldr : all3 (fun a b v => rt (SLDR a b v)) R8 R8 (zrange (-32) 64) = true. Proof. vm_compute; reflexivity. Qed.
Lemma sw_str : all3 (fun a b v => rt (SSTR a b v)) R8 R8 (zrange (-32) 64) = true. Proof. vm_compute; reflexivity. Qed.
Lemma sw_not : all2 (fun a b => rt (SNOT a b)) R8 R8 = true. Proof. vm_compute; reflexivity. Qed.
Lemma sw_jsri : forallb (fun v => rt (SJSR (Imm v))) (zrange (-1024) 2048) = true. Proof. vm_compute; reflexivity. Qed.
Lemma sw_jsrr : forallb (fun a => rt (SJSR (RegOp a))) R8 = true. Proof. vm_compute; reflexivity. Qed.
Lemma sw_jmp : forallb (fun a => rt (SJMP a)) R8 = true. Proof. vm_compute; reflexivity. Qed.
Lemma sw_trap : forallb (fun v => rt (STRAP v)) (zrange 0 256) = true. Proof. vm_compute; reflexivity. Qed.
Lemma sw_rti : rt SRTI = true. Proof. vm_compute; reflexivity. Qed.

Lemma in_rng lo hi v : rng lo hi v = true -> In v (zrange lo (Z.to_nat (hi - lo))).
Proof. intros H. apply zrange_in. apply rng_range in H. lia. Qed.

Lemma all2_elim f la lb a b : all2 f la lb = true -> In a la -> In b lb -> f a b = true.
Proof.
  unfold all2. intros H Ha Hb. rewrite forallb_forall in H. specialize (H a Ha).
  rewrite forallb_forall in H. exact (H b Hb).
Qed.
Lemma all3_elim f la lb lc a b c : all3 f la lb lc = true -> In a la -> In b lb -> In c lc -> f a b c = true.
Proof.
  unfold all3. intros H Ha Hb Hc. rewrite forallb_forall in H. specialize (H a Ha).
  exact (all2_elim _ _ _ _ _ H Hb Hc).
Qed.
Lemma all1_elim (f : Z -> bool) la a : forallb f la = true -> In a la -> f a = true.
Proof. intros H Ha. rewrite forallb_forall in H. exact (H a Ha). Qed.

Lemma rt_all i : valid i = true -> rt i = true.
Proof.
  destruct i as [cc off|dr sr1 o|dr off|sr off|o|dr sr1 o|dr br off|sr br off| |dr sr|dr off|sr off|br|dr off|v];
  cbn [valid valid_ior]; intros H;
  repeat match goal with
  | H : _ && _ = true |- _ => apply andb_prop in H; destruct H
  end;
  try match goal with o : imm_or_reg |- _ => destruct o; cbn [valid_ior] in * end;
  repeat match goal with
  | H : rng _ _ _ = true |- _ => apply in_rng in H
  end.
  - exact (all2_elim _ _ _ _ _ sw_br H H0).
  - exact (all3_elim _ _ _ _ _ _ _ sw_addi H H1 H0).
  - exact (all3_elim _ _ _ _ _ _ _ sw_addr H H1 H0).
  - exact (all2_elim _ _ _ _ _ sw_ld H H0).
  - exact (all2_elim _ _ _ _ _ sw_st H H0).
  - exact (all1_elim _ _ _ sw_jsri H).
  - exact (all1_elim _ _ _ sw_jsrr H).
  - exact (all3_elim _ _ _ _ _ _ _ sw_andi H H1 H0).
  - exact (all3_elim _ _ _ _ _ _ _ sw_andr H H1 H0).
  - exact (all3_elim _ _ _ _ _ _ _ sw_ldr H H1 H0).
  - exact (all3_elim _ _ _ _ _ _ _ sw_str H H1 H0).
  - exact sw_rti.
  - exact (all2_elim _ _ _ _ _ sw_not H H0).
  - exact (all2_elim _ _ _ _ _ sw_ldi H H0).
  - exact (all2_elim _ _ _ _ _ sw_sti H H0).
  - exact (all1_elim _ _ _ sw_jmp H).
  - exact (all2_elim _ _ _ _ _ sw_lea H H0).
  - exact (all1_elim _ _ _ sw_trap H).
Qed.

Lemma dec_enc i : valid i = true -> decode (encode i) = DOk i.
Proof. intros H. apply rt_sound. apply rt_all. exact H. Qed.

