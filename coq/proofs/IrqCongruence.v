(* IrqCongruence.v — C10 transparency across instruction boundaries for user-mode code.
   Two machine states that show a user program the same things ([veq]: registers, PC, PSR, saved
   SP, user memory, flags, ...) and may differ in everything an interrupt handler leaves behind
   (supervisor memory, instructions_run, observer, frames, consumed device scripts) execute any
   non-TRAP instruction with the same result and end in states that again show the program the
   same things.  A two-run relational Hoare rule for [bind]; non-strict mode (in strict mode the
   jump check peeks at the target word, which may be supervisor memory). *)
From Coq Require Import ZArith List Bool Lia FMapPositive.
From Gen Require Import Constants.
From Model Require Import Tree Bits Word Instr Sim.
From Proofs Require Import Ranges SimHoare SimAccess SimUser IrqProofs.
Import ListNotations.
Open Scope Z_scope.

Definition veq (s t : sim) : Prop :=
  s_regs t = s_regs s /\ s_pc t = s_pc s /\ s_psr t = s_psr s /\ s_saved_sp t = s_saved_sp s /\
  s_mcr t = s_mcr s /\ s_flags t = s_flags s /\ s_ireg t = s_ireg s /\ s_alloca t = s_alloca s /\
  s_prefetch t = s_prefetch s /\ same_io (s_devs s) (s_devs t) /\
  (forall a, in_user a = true -> mget (s_mem t) a = mget (s_mem s) a).

(* user mode, privilege checks on, non-strict, 16-bit PSR *)
Definition uok (s : sim) : Prop :=
  32768 <= s_psr s < 65536 /\ fl_ignore_priv (s_flags s) = false /\ fl_strict (s_flags s) = false.

Lemma uok_ctx s : uok s -> c_priv (default_ctx s) = false.
Proof.
  intros (P & I & _). unfold default_ctx. cbn [c_priv]. rewrite (user_psr_not_priv _ P), I. reflexivity.
Qed.

Definition R2 {A} (m1 m2 : M A) (s t : sim) : Prop :=
  snd (m2 t) = snd (m1 s) /\ veq (fst (m1 s)) (fst (m2 t)) /\ uok (fst (m1 s)).
Definition Cong {A} (m : M A) : Prop := forall s t, veq s t -> uok s -> R2 m m s t.

Lemma cong_ret {A} (a : A) : Cong (ret a).
Proof. intros s t V U. repeat split; assumption || apply V || apply U. Qed.
Lemma cong_fail {A} b : Cong (@fail A b).
Proof. intros s t V U. repeat split; assumption || apply V || apply U. Qed.
Lemma cong_err {A} x : Cong (@err A x).
Proof. apply cong_fail. Qed.
Lemma cong_of_opt {A} (o : option A) x : Cong (of_opt o x).
Proof. destruct o; [apply cong_ret|apply cong_err]. Qed.
Lemma cong_modify f :
  (forall s t, veq s t -> veq (f s) (f t)) -> (forall s, uok s -> uok (f s)) -> Cong (modify f).
Proof. intros H1 H2 s t V U. unfold R2, modify. cbn [fst snd]. split; [reflexivity|]. split; [apply H1, V|apply H2, U]. Qed.

Lemma cong_bind {A B} (m : M A) (k : A -> M B) : Cong m -> (forall a, Cong (k a)) -> Cong (bind m k).
Proof.
  intros Hm Hk s t V U. specialize (Hm s t V U). unfold R2, bind in *.
  destruct (m s) as [s1 [a|b]], (m t) as [t1 r]; cbn [fst snd] in *; destruct Hm as (E & V1 & U1); subst r.
  - apply (Hk a s1 t1 V1 U1).
  - cbn [fst snd]. repeat split; assumption || apply V1 || apply U1.
Qed.

Lemma cong_bind_get {B} (k : sim -> M B) :
  (forall s0, uok s0 -> Cong (k s0)) ->
  (forall s0 t0, veq s0 t0 -> uok s0 -> forall x, k t0 x = k s0 x) -> Cong (bind get k).
Proof.
  intros Hk He s t V U. unfold R2.
  change (bind get k s) with (k s s). change (bind get k t) with (k t t). rewrite (He s t V U).
  apply (Hk s U s t V U).
Qed.
Lemma cong_if {A} (b : bool) (m1 m2 : M A) : Cong m1 -> Cong m2 -> Cong (if b then m1 else m2).
Proof. destruct b; auto. Qed.

(* ---------- memory: unprivileged accesses see user memory only ---------- *)
Lemma veq_obs s t o : veq s t -> veq (upd_obs s o) t.
Proof. intros V. exact V. Qed.

Lemma cong_read e a c : c_priv c = false -> Cong (read_mem e a c).
Proof.
  intros P s t V U. unfold R2. destruct (in_user a) eqn:Ua.
  - rewrite (read_user e a c s P Ua), (read_user e a c t P Ua). cbn [fst snd].
    split; [f_equal; destruct (c_track c); apply V; exact Ua|].
    split; [|destruct (c_track c); exact U].
    destruct (c_track c); exact V.
  - rewrite (read_denied e a c s P Ua), (read_denied e a c t P Ua). cbn [fst snd].
    repeat split; assumption || apply V || apply U.
Qed.

Lemma in_user_nonneg a : in_user a = true -> 0 <= a.
Proof.
  unfold in_user, USER_START, sim.USER_START. intros H. apply andb_prop in H. destruct H as [H _]. apply Z.leb_le in H. lia.
Qed.

Lemma write_user_eq e a w c s : c_priv c = false -> in_user a = true ->
  write_mem e a w c s =
  match set_if_init w (c_strict c) with
  | Some w' =>
      let s2 := if c_track c then
                  upd_obs s (let o := obs_update (s_obs s) a OBS_WRITTEN in
                             if negb (word_eqb (mget (s_mem s) a) w) then obs_update o a OBS_MODIFIED else o)
                else s in
      (upd_mem s2 (mset (s_mem s2) a w'), inl tt)
  | None =>
      ((if c_track c then
          upd_obs s (let o := obs_update (s_obs s) a OBS_WRITTEN in
                     if negb (word_eqb (mget (s_mem s) a) w) then obs_update o a OBS_MODIFIED else o)
        else s), inr (BErr StrictMemSetUninit))
  end.
Proof.
  intros P Ua. unfold write_mem. rewrite P, Ua. cbn [negb andb]. rewrite (in_user_below_io a Ua).
  destruct (set_if_init w (c_strict c)); destruct (c_track c); reflexivity.
Qed.

Lemma cong_write e a w c : c_priv c = false -> Cong (write_mem e a w c).
Proof.
  intros P s t V U. unfold R2. destruct (in_user a) eqn:Ua.
  - rewrite (write_user_eq e a w c s P Ua), (write_user_eq e a w c t P Ua).
    destruct V as (E1 & E2 & E3 & E4 & E5 & E6 & E7 & E8 & E9 & E10 & E11).
    destruct (set_if_init w (c_strict c)) as [w'|]; destruct (c_track c); cbn [fst snd];
      (split; [reflexivity|]); (split; [|exact U]);
      unfold veq; cbn [upd_mem upd_obs s_mem s_regs s_pc s_psr s_saved_sp s_mcr s_flags s_ireg s_alloca s_prefetch s_devs];
      repeat (split; [assumption|]); try exact E11;
      intros b Hb; (destruct (Z.eq_dec b a) as [->|Hne];
        [rewrite !mget_mset_same; reflexivity
        |rewrite !IrqProofs.mget_mset_other by (try apply in_user_nonneg; auto); apply E11; exact Hb]).
  - rewrite (write_denied e a w c s P Ua), (write_denied e a w c t P Ua). cbn [fst snd].
    repeat split; assumption || apply V || apply U.
Qed.

(* ---------- state updates ---------- *)
Ltac veq_upd :=
  let s := fresh "s" in let t := fresh "t" in let V := fresh "V" in
  intros s t V; destruct V as (E1 & E2 & E3 & E4 & E5 & E6 & E7 & E8 & E9 & E10 & E11);
  unfold veq;
  cbn [upd_mem upd_regs upd_pc upd_psr upd_saved_sp upd_frames upd_instrs upd_prefetch upd_obs upd_mcr upd_devs upd_alloca
       s_mem s_regs s_pc s_psr s_saved_sp s_mcr s_flags s_ireg s_alloca s_prefetch s_devs];
  rewrite ?E1, ?E2, ?E3, ?E4, ?E5, ?E6, ?E7, ?E8, ?E9; repeat (split; [first [reflexivity|assumption]|]); assumption.
Ltac uok_upd :=
  let s := fresh "s" in let U := fresh "U" in
  intros s U; exact U.

Lemma cong_set_cc r : Cong (set_cc r).
Proof.
  unfold set_cc. apply cong_modify; [veq_upd|].
  intros s (P & I & S). split; [|split; assumption]. cbn [upd_psr s_psr]. apply psr_set_cc_user. exact P.
Qed.
Lemma set_pc_lax w b s : fl_strict (s_flags s) = false -> set_pc w b s = (upd_pc s (w_data w), inl tt).
Proof.
  intros H. unfold set_pc. rewrite bind_get_eq. unfold strict. rewrite H.
  cbn [get_if_init negb orb of_opt andb]. rewrite !bind_ret_eq. reflexivity.
Qed.
Lemma cong_set_pc w b : Cong (set_pc w b).
Proof.
  intros s t V U. unfold R2.
  assert (St : fl_strict (s_flags t) = false).
  { destruct V as (_ & _ & _ & _ & _ & E6 & _). rewrite E6. apply U. }
  rewrite (set_pc_lax w b s) by apply U. rewrite (set_pc_lax w b t St). cbn [fst snd].
  split; [reflexivity|]. split; [|exact U]. revert s t V U St. intros s t V _ _. revert s t V. veq_upd.
Qed.
Lemma cong_offset_pc o b : Cong (offset_pc o b).
Proof.
  unfold offset_pc. apply cong_bind_get; [intros s0 _; apply cong_set_pc|].
  intros s0 t0 V _ x. destruct V as (_ & E2 & _). rewrite E2. reflexivity.
Qed.
Lemma cong_set_reg dr v st : Cong (set_reg_if_init dr v st).
Proof.
  unfold set_reg_if_init. apply cong_bind; [apply cong_of_opt|intro w]. apply cong_modify; [veq_upd|uok_upd].
Qed.
Lemma cong_push_frame a b c : Cong (push_frame a b c).
Proof.
  unfold push_frame. apply cong_modify.
  - intros s t V. destruct (s_frames s), (s_frames t);
      repeat match goal with |- context [let '(_, _) := ?x in _] => destruct x end; revert s t V; veq_upd.
  - intros s U. destruct (s_frames s); repeat match goal with |- context [let '(_, _) := ?x in _] => destruct x end; exact U.
Qed.
Lemma cong_pop_frame : Cong pop_frame.
Proof. unfold pop_frame. apply cong_modify; [veq_upd|uok_upd]. Qed.

(* ---------- instructions ---------- *)
Ltac veq_rw :=
  let s0 := fresh "s0" in let t0 := fresh "t0" in let V := fresh "V" in let U0 := fresh "U0" in let x := fresh "x" in
  intros s0 t0 V U0 x; destruct V as (E1 & E2 & E3 & E4 & E5 & E6 & E7 & E8 & E9 & E10 & E11);
  unfold default_ctx, strict, operand, in_alloca, prefetch_pc;
  rewrite ?E1, ?E2, ?E3, ?E4, ?E5, ?E6, ?E7, ?E8, ?E9; reflexivity.
Ltac ctx_side := first [ apply uok_ctx; assumption | (cbn [c_priv]; apply uok_ctx; assumption) ].

Create HintDb cg discriminated.
#[export] Hint Constants Opaque : cg.
#[export] Hint Resolve cong_set_cc cong_set_pc cong_offset_pc cong_set_reg cong_push_frame cong_pop_frame : cg.

Ltac cg1 :=
  lazymatch goal with
  | |- Cong (ret _) => apply cong_ret
  | |- Cong (fail _) => apply cong_fail
  | |- Cong (err _) => apply cong_err
  | |- Cong (of_opt _ _) => apply cong_of_opt
  | |- Cong (read_mem _ _ _) => apply cong_read; ctx_side
  | |- Cong (write_mem _ _ _ _) => apply cong_write; ctx_side
  | |- Cong (modify _) => apply cong_modify; [veq_upd|uok_upd]
  | |- Cong (bind get _) => apply cong_bind_get; [intros ? ?|veq_rw]
  | |- Cong (bind _ _) => apply cong_bind; [ | intro ]
  | |- Cong (if _ then _ else _) => apply cong_if
  | |- Cong (match ?x with _ => _ end) => destruct x
  | |- Cong _ => solve [auto 1 with cg nocore]
  end.
Ltac cg := repeat cg1.

Lemma cong_call_subroutine a : Cong (call_subroutine a).
Proof. unfold call_subroutine. cg. Qed.
#[export] Hint Resolve cong_call_subroutine : cg.

Theorem cong_exec e i : is_trap i = false -> Cong (exec e i).
Proof.
  intros NT. unfold exec. apply cong_bind_get; [intros s0 U0|veq_rw]. cbv zeta.
  destruct i; try discriminate NT; try solve [cg].
  (* RTI: user mode, a privilege violation in both runs *)
  destruct U0 as (P & I & S). rewrite (user_psr_not_priv _ P), I. cbn [orb]. apply cong_err.
Qed.

(* ---------- fetch and execute ---------- *)
Definition fe_tail (e : env) (i : sim_instr) : M unit :=
  offset_pc 1 false ;;; modify (fun s => upd_prefetch s false) ;;; exec e i ;;;
  modify (fun s => upd_instrs s ((s_instrs s + 1) mod 18446744073709551616)).
Lemma cong_fe_tail e i : is_trap i = false -> Cong (fe_tail e i).
Proof.
  intros NT. unfold fe_tail.
  apply cong_bind; [apply cong_offset_pc|intros _].
  apply cong_bind; [apply cong_modify; [veq_upd|uok_upd]|intros _].
  apply cong_bind; [apply cong_exec; exact NT|intros _].
  apply cong_modify; [veq_upd|uok_upd].
Qed.

Lemma cong_ext {A} (m1 m2 : M A) : (forall s, m1 s = m2 s) -> Cong m2 -> Cong m1.
Proof. intros He H s t V U. unfold R2. rewrite !He. apply H; assumption. Qed.

Lemma cong_after_fetch e w :
  (forall i, decode (w_data w) = DOk i -> is_trap i = false) ->
  Cong (word <- of_opt (get_if_init w false) StrictPCCurrUninit ;; instr <- decode_m word ;; fe_tail e instr).
Proof.
  intros NT. cbn [get_if_init negb orb of_opt].
  apply (cong_ext _ (instr <- decode_m (w_data w) ;; fe_tail e instr)); [intros; reflexivity|].
  unfold decode_m. destruct (decode (w_data w)) as [i| | |] eqn:D.
  - apply (cong_ext _ (fe_tail e i)); [intros; reflexivity|]. apply cong_fe_tail. apply NT. reflexivity.
  - apply (cong_ext _ (err IllegalOpcode)); [intros; reflexivity|]. apply cong_err.
  - apply (cong_ext _ (err InvalidInstrFormat)); [intros; reflexivity|]. apply cong_err.
  - apply (cong_ext _ (fail BPanic)); [intros; reflexivity|]. apply cong_fail.
Qed.

Lemma R2_bind_cong {A B} (m : M A) (k : A -> M B) s t :
  R2 m m s t -> (forall a, snd (m s) = inl a -> Cong (k a)) -> R2 (bind m k) (bind m k) s t.
Proof.
  intros Hm Hk. unfold R2, bind in *.
  destruct (m s) as [s1 [a|b]], (m t) as [t1 r]; cbn [fst snd] in *; destruct Hm as (E & V1 & U1); subst r.
  - apply (Hk a eq_refl s1 t1 V1 U1).
  - cbn [fst snd]. repeat split; assumption || apply V1 || apply U1.
Qed.

Theorem cong_fetch_exec e s t :
  veq s t -> uok s ->
  (forall i, decode (w_data (mget (s_mem s) (s_pc s))) = DOk i -> is_trap i = false) ->
  R2 (fetch_exec e) (fetch_exec e) s t.
Proof.
  intros V U NT.
  pose proof V as (E1 & E2 & E3 & E4 & E5 & E6 & E7 & E8 & E9 & E10 & E11).
  assert (Ct : default_ctx t = default_ctx s) by (unfold default_ctx; rewrite E3, E6; reflexivity).
  assert (St : strict t = strict s) by (unfold strict; rewrite E6; reflexivity).
  assert (Ss : strict s = false) by apply U.
  pose proof (uok_ctx s U) as PC.
  set (m := read_mem e (s_pc s) (default_ctx s)).
  set (k := fun w : word => word <- of_opt (get_if_init w false) StrictPCCurrUninit ;; instr <- decode_m word ;; fe_tail e instr).
  assert (Hs : fetch_exec e s = bind m k s).
  { unfold fetch_exec. rewrite bind_get_eq. subst m k. cbv beta. rewrite Ss. reflexivity. }
  assert (Ht : fetch_exec e t = bind m k t).
  { unfold fetch_exec. rewrite bind_get_eq. subst m k. cbv beta. rewrite Ct, St, E2, Ss. reflexivity. }
  unfold R2. rewrite Hs, Ht. apply R2_bind_cong.
  - subst m. apply cong_read; assumption.
  - intros w Hw. subst k. cbv beta. apply cong_after_fetch.
    subst m. destruct (in_user (s_pc s)) eqn:Ua.
    + rewrite (read_user e _ _ s PC Ua) in Hw. cbn [snd] in Hw. inversion Hw; subst w. exact NT.
    + rewrite (read_denied e _ _ s PC Ua) in Hw. discriminate Hw.
Qed.

(* ------------------------------------------------------------------ whole runs of user code *)
Lemma same_io_polled e : forall ds dr, same_io ds (polled_devs e ds dr).
Proof.
  induction ds as [|d r IH]; intros dr; cbn [polled_devs]; [constructor|].
  destruct (dev_poll e d dr) as [[d' i] dr'] eqn:Hp. constructor; [|apply IH].
  destruct d as [|q ie|b|tm|l]; cbn [dev_poll] in Hp.
  - inversion Hp; subst. exact Logic.I.
  - inversion Hp; subst. split; reflexivity.
  - inversion Hp; subst. reflexivity.
  - destruct (negb (t_enabled tm)); [inversion Hp; subst; exact Logic.I|].
    destruct (t_time tm =? 0); [destruct dr; inversion Hp; subst; exact Logic.I|].
    destruct (t_time tm =? 1); inversion Hp; subst; exact Logic.I.
  - destruct l; inversion Hp; subst; exact Logic.I.
Qed.
Lemma peq_after_poll e s : peq s (after_poll e s).
Proof. constructor; try reflexivity. apply same_io_polled. Qed.

(* interrupts serviced at one boundary, at the level of whole steps: the gate takes the request
   (env e), the handler runs to its RTI meeting HandlerOK, the RTI executes (env e') *)
Inductive Svc : sim -> sim -> Prop :=
| svc_nil s : Svc s s
| svc_cons e e' s v p s1 s2 s3 s' :
    takes_irq e s v p -> entry_pre s v p -> step_inner e s = (s1, inl tt) ->
    HandlerOK (after_poll e s) s1 s2 ->
    (exists d, entry_sp s = new_init d /\ 2 <= d <= 12288) ->
    exec e' SRTI s2 = (s3, inl tt) -> Svc s3 s' -> Svc s s'.

Lemma svc_peq s s' : Svc s s' -> peq s s'.
Proof.
  induction 1 as [s|e e' s v p s1 s2 s3 s' Ht Hpre Hstep Hok Hsp Hrti Hrest IH]; [apply peq_refl|].
  rewrite (gate_taken _ _ _ _ Ht) in Hstep.
  pose proof (entry_pre_after_poll e s v p Hpre) as Hpre'.
  destruct (handle_interrupt_entry e (after_poll e s) v p Hpre') as (s1' & Hent & Hpost).
  rewrite Hstep in Hent. inversion Hent; subst s1'.
  destruct (serviced_once e' (after_poll e s) v p s1 s2 Hpre' Hpost Hok Hsp) as (s3' & Hrti' & Hpeq & _).
  rewrite Hrti in Hrti'. inversion Hrti'; subst s3'.
  eapply peq_trans; [apply (peq_after_poll e s)|]. eapply peq_trans; eassumption.
Qed.

Definition nontrap_at (s : sim) : Prop :=
  forall i, decode (w_data (mget (s_mem s) (s_pc s))) = DOk i -> is_trap i = false.

(* the interrupted run: n instructions of user code; before each of them any number of
   interrupts may be serviced *)
Inductive IRun : nat -> sim -> sim -> Prop :=
| ir_done s : IRun O s s
| ir_service n s s1 s' : Svc s s1 -> IRun n s1 s' -> IRun n s s'
| ir_step e n s s1 s' :
    pending e s = None -> nontrap_at s -> step_inner e s = (s1, inl tt) -> IRun n s1 s' -> IRun (S n) s s'.
(* the uninterrupted run: the same n instructions, nothing else *)
Inductive URun : nat -> sim -> sim -> Prop :=
| ur_done t : URun O t t
| ur_step e n t t1 t' : fetch_exec e (upd_prefetch t true) = (t1, inl tt) -> URun n t1 t' -> URun (S n) t t'.

Lemma peq_uok s s' : peq s s' -> uok s -> uok s'.
Proof. intros [_ P _ _ _ _ _ F _ _] (A & B & C). unfold uok. rewrite P, F. auto. Qed.
Lemma peq_sym_io a b : same_io a b -> same_io b a.
Proof.
  induction 1; constructor; [|assumption].
  destruct x, y; cbn in *; try tauto; try (destruct H; subst; auto); congruence.
Qed.

Lemma peq_veq_step e s t : peq s t -> veq (after_poll e s) (upd_prefetch t true).
Proof.
  intros [A1 A2 A3 A4 A5 A6 A7 A8 A9 A10]. unfold veq, after_poll.
  cbn [upd_devs upd_prefetch s_regs s_pc s_psr s_saved_sp s_mcr s_flags s_ireg s_alloca s_prefetch s_devs s_mem].
  repeat (split; [first [assumption|reflexivity]|]). split; [|exact A5].
  eapply same_io_trans; [apply peq_sym_io, same_io_polled|exact A6].
Qed.
Lemma veq_peq s t : veq s t -> peq s t.
Proof. intros (E1 & E2 & E3 & E4 & E5 & E6 & E7 & E8 & E9 & E10 & E11). constructor; assumption. Qed.

Lemma nontrap_peq s s' : peq s s' -> in_user (s_pc s) = true -> nontrap_at s' -> nontrap_at s.
Proof.
  intros [P _ _ _ M _ _ _ _ _] Hu H i Hi. apply H. rewrite P, (M _ Hu). exact Hi.
Qed.

(* Transparency for user code: whatever interrupts are serviced between its instructions, the
   interrupted run of n non-TRAP user instructions shows the program, at the end, exactly what
   the uninterrupted run of the same n instructions shows. *)
Theorem user_run_transparent : forall n s s', IRun n s s' ->
  forall t, peq s t -> uok s -> exists t', URun n t t' /\ peq s' t' /\ uok s'.
Proof.
  induction 1 as [s|n s s1 s' Hsvc Hrun IH|e n s s1 s' Hp Hnt Hstep Hrun IH]; intros t Hpeq Hu.
  - exists t. split; [constructor|]. split; assumption.
  - pose proof (svc_peq _ _ Hsvc) as H1.
    assert (Hpeq1 : peq s1 t).
    { destruct H1 as [B1 B2 B3 B4 B5 B6 B7 B8 B9 B10]. destruct Hpeq as [A1 A2 A3 A4 A5 A6 A7 A8 A9 A10].
      constructor; try congruence.
      - intros a Ha. rewrite A5 by exact Ha. symmetry. apply B5. exact Ha.
      - eapply same_io_trans; [apply peq_sym_io; exact B6|exact A6]. }
    apply IH; [exact Hpeq1|eapply peq_uok; eassumption].
  - rewrite step_inner_cases, Hp in Hstep.
    pose proof (peq_veq_step e s t Hpeq) as V.
    assert (U1 : uok (after_poll e s)) by exact Hu.
    pose proof (cong_fetch_exec e (after_poll e s) (upd_prefetch t true) V U1 Hnt) as (R & V' & U').
    rewrite Hstep in R, V', U'. cbn [fst snd] in R, V', U'.
    destruct (fetch_exec e (upd_prefetch t true)) as [t1 r] eqn:Ht. cbn [fst snd] in R, V'. subst r.
    destruct (IH t1 (veq_peq _ _ V') U') as (t' & Hur & Hpq & Hu').
    exists t'. split; [econstructor; eassumption|]. split; assumption.
Qed.
