(* IrqProofs.v — proofs about interrupt arbitration, the priority gate, interrupt entry and RTI
   (C10), over the simulator model of model/Sim.v.  No definition of the model is changed; the
   few definitions here only NAME parts of the model (e.g. the fetch-and-execute half of
   [step_inner]) so that the theorems can mention them. *)
From Coq Require Import ZArith List Bool Lia FMapPositive.
From Gen Require Import Constants.
From Model Require Import Tree Bits Word Instr Sim.
Import ListNotations.
Open Scope Z_scope.
Ltac Zify.zify_post_hook ::= Z.div_mod_to_equations.

(* ------------------------------------------------------------------ arbitration *)
(* the requests delivered by the devices at one poll, in device order *)
Fixpoint polled (e : env) (ds : list dev) (draws : list Z) : list irq :=
  match ds with
  | [] => []
  | d :: r =>
      let '(_, i, draws') := dev_poll e d draws in
      match i with Some x => x :: polled e r draws' | None => polled e r draws' end
  end.
(* the devices after the poll *)
Fixpoint polled_devs (e : env) (ds : list dev) (draws : list Z) : list dev :=
  match ds with
  | [] => []
  | d :: r => let '(d', _, draws') := dev_poll e d draws in d' :: polled_devs e r draws'
  end.

Definition pick_list (best : option irq) (l : list irq) : option irq :=
  fold_left (fun b x => pick_irq b (Some x)) l best.

Lemma poll_all_spec e : forall ds draws best,
  fst (poll_all e ds draws best) = (polled_devs e ds draws, pick_list best (polled e ds draws)).
Proof.
  induction ds as [|d r IH]; intros draws best; cbn [poll_all polled polled_devs].
  - reflexivity.
  - destruct (dev_poll e d draws) as [[d' i] draws'] eqn:Hp.
    specialize (IH draws' (pick_irq best i)).
    destruct (poll_all e r draws' (pick_irq best i)) as [[r' b'] dr'] eqn:Hr.
    cbn [fst] in *. inversion IH; subst. f_equal.
    destruct i as [x|]; [reflexivity|]. destruct best; reflexivity.
Qed.

(* x wins arbitration over l: it is in l, nothing in l has a larger key, and everything delivered
   after it has a strictly smaller key (the LAST maximum wins) *)
Definition last_max (l : list irq) (x : irq) : Prop :=
  exists l1 l2, l = l1 ++ x :: l2 /\
    (forall y, In y l1 -> irq_key y <= irq_key x) /\
    (forall y, In y l2 -> irq_key y < irq_key x).

Lemma pick_list_some : forall l b, exists x, pick_list (Some b) l = Some x.
Proof.
  induction l as [|y l IH]; intros b; cbn [pick_list fold_left].
  - eexists; reflexivity.
  - cbn [pick_irq]. destruct (irq_key b <=? irq_key y); apply IH.
Qed.

(* with a current best b: the result is b (everything later is strictly smaller) or a last maximum of l that is >= b *)
Lemma pick_list_inv : forall l b x, pick_list (Some b) l = Some x ->
  (x = b /\ forall y, In y l -> irq_key y < irq_key b) \/
  (last_max l x /\ irq_key b <= irq_key x).
Proof.
  induction l as [|y l IH]; intros b x H; cbn [pick_list fold_left] in H.
  - left. inversion H; subst. split; [reflexivity|]. intros ? [].
  - cbn [pick_irq] in H. destruct (irq_key b <=? irq_key y) eqn:Hk.
    + apply Z.leb_le in Hk. apply IH in H. destruct H as [[-> Hs]|[(l1 & l2 & -> & H1 & H2) Hb]].
      * right. split; [|exact Hk]. exists [], l. split; [reflexivity|]. split; [intros ? []|exact Hs].
      * right. split; [|lia]. exists (y :: l1), l2. split; [reflexivity|]. split; [|exact H2].
        intros z [<-|Hz]; [exact Hb|apply H1, Hz].
    + apply Z.leb_gt in Hk. apply IH in H. destruct H as [[-> Hs]|[(l1 & l2 & -> & H1 & H2) Hb]].
      * left. split; [reflexivity|]. intros z [<-|Hz]; [exact Hk|apply Hs, Hz].
      * right. split; [|exact Hb]. exists (y :: l1), l2. split; [reflexivity|]. split; [|exact H2].
        intros z [<-|Hz]; [lia|apply H1, Hz].
Qed.

Lemma pick_list_none : forall l, pick_list None l = None <-> l = [].
Proof.
  destruct l as [|y l]; cbn [pick_list fold_left pick_irq].
  - split; reflexivity.
  - split; [|discriminate]. intros H. destruct (pick_list_some l y) as [x Hx].
    unfold pick_list in Hx. rewrite Hx in H. discriminate.
Qed.

Lemma pick_list_last_max : forall l x, pick_list None l = Some x -> last_max l x.
Proof.
  destruct l as [|y l]; intros x H; cbn [pick_list fold_left pick_irq] in H; [discriminate|].
  apply pick_list_inv in H. destruct H as [[-> Hs]|[(l1 & l2 & -> & H1 & H2) Hb]].
  - exists [], l. split; [reflexivity|]. split; [intros ? []|exact Hs].
  - exists (y :: l1), l2. split; [reflexivity|]. split; [|exact H2].
    intros z [<-|Hz]; [exact Hb|apply H1, Hz].
Qed.

(* conversely a last maximum is what arbitration returns (so the winner is unique) *)
Lemma pick_list_app : forall l1 l2 b, pick_list b (l1 ++ l2) = pick_list (pick_list b l1) l2.
Proof. intros. unfold pick_list. apply fold_left_app. Qed.

Lemma pick_list_below : forall l b, (forall y, In y l -> irq_key y < irq_key b) -> pick_list (Some b) l = Some b.
Proof.
  induction l as [|y l IH]; intros b H; cbn [pick_list fold_left pick_irq]; [reflexivity|].
  assert (Hy : irq_key y < irq_key b) by (apply H; left; reflexivity).
  apply Z.leb_gt in Hy. rewrite Hy. apply IH. intros z Hz. apply H. right. exact Hz.
Qed.

Lemma pick_list_complete : forall l x, last_max l x -> pick_list None l = Some x.
Proof.
  intros l x (l1 & l2 & -> & H1 & H2). rewrite pick_list_app.
  assert (Hm : forall b, (match b with Some b => irq_key b <= irq_key x | None => True end) ->
               pick_list b (x :: l2) = Some x).
  { intros b Hb. cbn [pick_list fold_left].
    assert (pick_irq b (Some x) = Some x) as ->.
    { destruct b as [b|]; cbn [pick_irq]; [|reflexivity]. apply Z.leb_le in Hb. rewrite Hb. reflexivity. }
    apply pick_list_below. exact H2. }
  apply Hm.
  destruct (pick_list None l1) as [b|] eqn:Hb; [|exact Logic.I].
  apply pick_list_last_max in Hb. destruct Hb as (a1 & a2 & -> & _ & _).
  apply H1. apply in_or_app. right. left. reflexivity.
Qed.

(* the request pending at a boundary *)
Definition pending (e : env) (s : sim) : option irq :=
  snd (fst (poll_all e (s_devs s) (e_draws e) None)).

Lemma pending_spec e s : pending e s = pick_list None (polled e (s_devs s) (e_draws e)).
Proof. unfold pending. rewrite poll_all_spec. reflexivity. Qed.

Theorem pending_is_last_max e s x :
  pending e s = Some x <-> last_max (polled e (s_devs s) (e_draws e)) x.
Proof.
  rewrite pending_spec. split; [apply pick_list_last_max|apply pick_list_complete].
Qed.
Theorem pending_none e s : pending e s = None <-> polled e (s_devs s) (e_draws e) = [].
Proof. rewrite pending_spec. apply pick_list_none. Qed.

(* ------------------------------------------------------------------ the gate *)
(* the machine after the poll of [step_inner] *)
Definition after_poll (e : env) (s : sim) : sim :=
  upd_devs (upd_prefetch s true) (polled_devs e (s_devs s) (e_draws e)).

(* the fetch-and-execute half of [step_inner] (the same term as in the model) *)
Definition fetch_exec (e : env) : M unit :=
  s <- get ;;
  w <- read_mem e (s_pc s) (default_ctx s) ;;
  word <- of_opt (get_if_init w (strict s)) StrictPCCurrUninit ;;
  instr <- decode_m word ;;
  offset_pc 1 false ;;;
  modify (fun s => upd_prefetch s false) ;;;
  exec e instr ;;;
  modify (fun s => upd_instrs s ((s_instrs s + 1) mod 18446744073709551616)).

Definition takes_irq (e : env) (s : sim) (v p : Z) : Prop :=
  pending e s = Some (IVec v p) /\ psr_priority (s_psr s) < p.

Lemma step_inner_cases e s :
  step_inner e s =
  match pending e s with
  | Some (IVec v p) =>
      if psr_priority (s_psr s) <? p then handle_interrupt e (256 + v) (Some p) (after_poll e s)
      else fetch_exec e (after_poll e s)
  | Some IExt => (after_poll e s, inr (BErr InterruptErr))
  | None => fetch_exec e (after_poll e s)
  end.
Proof.
  unfold step_inner, pending, after_poll.
  unfold bind at 1. unfold modify at 1. unfold bind at 1. unfold get at 1.
  cbn [s_devs upd_prefetch].
  pose proof (poll_all_spec e (s_devs s) (e_draws e) None) as Hp.
  destruct (poll_all e (s_devs s) (e_draws e) None) as [[ds i] dr]. cbn [fst snd] in *.
  inversion Hp; subst. clear Hp.
  unfold bind at 1. unfold modify at 1. cbn [s_psr upd_prefetch].
  destruct (pick_list None (polled e (s_devs s) (e_draws e))) as [[v p|]|];
    [destruct (psr_priority (s_psr s) <? p)|..]; reflexivity.
Qed.

(* ------------------------------------------------------------------ memory / register lemmas *)
Lemma mkey_inj a b : 0 <= a -> 0 <= b -> mkey a = mkey b -> a = b.
Proof. unfold mkey. intros Ha Hb H. apply (f_equal Zpos) in H. rewrite !Z2Pos.id in H by lia. lia. Qed.

Lemma mget_mset_same m a w : mget (mset m a w) a = w.
Proof. unfold mget, mset. cbn [m_over m_fill]. rewrite PositiveMap.gss. reflexivity. Qed.

Lemma mget_mset_other m a b w : 0 <= a -> 0 <= b -> a <> b -> mget (mset m a w) b = mget m b.
Proof.
  intros Ha Hb Hne. unfold mget, mset. cbn [m_over m_fill].
  rewrite PositiveMap.gso; [reflexivity|]. intros H. apply Hne. symmetry. apply mkey_inj; assumption.
Qed.

Lemma set_nth_length {A} (l : list A) : forall n x, length (set_nth l n x) = length l.
Proof. induction l as [|h t IH]; intros [|n] x; cbn [set_nth length]; try reflexivity. rewrite IH. reflexivity. Qed.
Lemma nth_set_nth_same {A} (l : list A) : forall n x d, (n < length l)%nat -> nth n (set_nth l n x) d = x.
Proof.
  induction l as [|h t IH]; intros [|n] x d H; cbn [set_nth nth length] in *; try lia; [reflexivity|].
  apply IH. lia.
Qed.
Lemma nth_set_nth_other {A} (l : list A) : forall n k x d, n <> k -> nth k (set_nth l n x) d = nth k l d.
Proof.
  induction l as [|h t IH]; intros [|n] [|k] x d H; cbn [set_nth nth]; try reflexivity; try congruence.
  apply IH. congruence.
Qed.
Lemma rget_rset_same rs r w : 0 <= r -> (Z.to_nat r < length rs)%nat -> rget (rset rs r w) r = w.
Proof. intros. unfold rget, rset. apply nth_set_nth_same. assumption. Qed.
Lemma rget_rset_other rs r k w : 0 <= r -> 0 <= k -> r <> k -> rget (rset rs r w) k = rget rs k.
Proof. intros. unfold rget, rset. apply nth_set_nth_other. lia. Qed.

Lemma wrap16_range z : 0 <= wrap16 z < 65536.
Proof. unfold wrap16. lia. Qed.

(* ------------------------------------------------------------------ PSR facts (PSR is a 16-bit value) *)
From Proofs Require Import Ranges.

Definition entry_psr (psr p : Z) : Z := psr_set_priority (psr_set_cc (psr_set_privileged psr true) 2) p.

Definition psr_facts_b (psr : Z) : bool :=
  psr_privileged (psr_set_privileged psr true) &&
  forallb (fun p =>
    let x := entry_psr psr p in
    psr_privileged x && (psr_priority x =? p) && (psr_cc x =? 2) &&
    (x =? Z.land psr 30968 + 256 * p + 2)) (zrange 0 8).

Lemma psr_facts_all : forallb psr_facts_b (zrange 0 (Z.to_nat (65536 - 0))) = true.
Proof. vm_compute. reflexivity. Qed.

Lemma psr_facts psr p : 0 <= psr < 65536 -> 0 <= p < 8 ->
  psr_privileged (psr_set_privileged psr true) = true /\
  psr_privileged (entry_psr psr p) = true /\ psr_priority (entry_psr psr p) = p /\
  psr_cc (entry_psr psr p) = 2 /\ entry_psr psr p = Z.land psr 30968 + 256 * p + 2.
Proof.
  intros Hpsr Hp. pose proof (forall_range' _ _ _ psr_facts_all psr Hpsr) as H.
  unfold psr_facts_b in H. apply andb_true_iff in H. destruct H as [H0 H].
  pose proof (forall_range' (fun p => let x := entry_psr psr p in
    psr_privileged x && (psr_priority x =? p) && (psr_cc x =? 2) && (x =? Z.land psr 30968 + 256 * p + 2)) 0 8 H p Hp) as H1.
  cbv zeta in H1. repeat (apply andb_true_iff in H1; destruct H1 as [H1 ?]).
  repeat split; try assumption; apply Z.eqb_eq; assumption.
Qed.

(* ------------------------------------------------------------------ evaluating the monad step by step *)
Lemma write_mem_plain e a w c s :
  c_priv c = true -> c_strict c = false -> (IO_START <=? a) = false ->
  write_mem e a w c s =
  (let s2 := if c_track c then
               upd_obs s (let o := obs_update (s_obs s) a OBS_WRITTEN in
                          if negb (word_eqb (mget (s_mem s) a) w) then obs_update o a OBS_MODIFIED else o)
             else s in
   upd_mem s2 (mset (s_mem s2) a w), inl tt).
Proof.
  intros Hp Hs Hio. unfold write_mem. rewrite Hp, Hs, Hio. cbn [negb andb set_if_init orb].
  destruct (c_track c); reflexivity.
Qed.

Lemma read_mem_plain e a c s :
  c_priv c = true -> (IO_START <=? a) = false ->
  read_mem e a c s =
  (let s2 := if c_track c then upd_obs s (obs_update (s_obs s) a OBS_READ) else s in
   (s2, inl (mget (s_mem s2) a))).
Proof.
  intros Hp Hio. unfold read_mem. rewrite Hp, Hio. cbn [negb andb]. reflexivity.
Qed.


Lemma bind_get_eq {B} (k : sim -> M B) s : bind get k s = k s s.
Proof. reflexivity. Qed.
Lemma bind_modify_eq {B} f (k : unit -> M B) s : bind (modify f) k s = k tt (f s).
Proof. reflexivity. Qed.
Lemma bind_ret_eq {A B} (a : A) (k : A -> M B) s : bind (ret a) k s = k a s.
Proof. reflexivity. Qed.
Lemma bind_val {A B} (m : M A) (k : A -> M B) s s' a : m s = (s', inl a) -> bind m k s = k a s'.
Proof. intros H. unfold bind. rewrite H. reflexivity. Qed.
Lemma bind_fail {A B} (m : M A) (k : A -> M B) s s' b : m s = (s', inr b) -> bind m k s = (s', inr b).
Proof. intros H. unfold bind. rewrite H. reflexivity. Qed.

Ltac mred := repeat (first [rewrite bind_get_eq | rewrite bind_modify_eq | rewrite bind_ret_eq]; cbv beta zeta).


Ltac simp_st :=
  cbv beta delta [upd_mem upd_regs upd_pc upd_psr upd_saved_sp upd_frames upd_instrs upd_prefetch upd_obs upd_mcr upd_devs upd_alloca default_ctx strict];
  cbn [s_mem s_regs s_pc s_psr s_saved_sp s_frame_no s_frames s_sr_defns s_alloca s_instrs s_prefetch s_obs s_mcr s_flags s_ireg s_devs
       fl_strict fl_real fl_debug_frames fl_ignore_priv c_priv c_strict c_io c_track].
Ltac mstep := first [rewrite bind_get_eq | rewrite bind_modify_eq | rewrite bind_ret_eq]; cbv beta zeta; simp_st.


Definition wm_state (s : sim) (a : Z) (w : word) (c : ctx) : sim :=
  let s2 := if c_track c then
              upd_obs s (let o := obs_update (s_obs s) a OBS_WRITTEN in
                         if negb (word_eqb (mget (s_mem s) a) w) then obs_update o a OBS_MODIFIED else o)
            else s in
  upd_mem s2 (mset (s_mem s2) a w).
Definition rm_state (s : sim) (a : Z) (c : ctx) : sim :=
  if c_track c then upd_obs s (obs_update (s_obs s) a OBS_READ) else s.

Lemma bind_write_plain {B} e a w c (k : unit -> M B) s :
  c_priv c = true -> c_strict c = false -> (IO_START <=? a) = false ->
  bind (write_mem e a w c) k s = k tt (wm_state s a w c).
Proof. intros. apply bind_val. apply write_mem_plain; assumption. Qed.
Lemma bind_read_plain {B} e a c (k : word -> M B) s :
  c_priv c = true -> (IO_START <=? a) = false ->
  bind (read_mem e a c) k s = k (mget (s_mem (rm_state s a c)) a) (rm_state s a c).
Proof. intros. apply bind_val. apply read_mem_plain; assumption. Qed.

Definition regs8 (rs : regs) : Prop := length rs = 8%nat.


(* ------------------------------------------------------------------ interrupt entry *)
(* the stack pointer the entry pushes on: the saved (supervisor) SP when coming from user mode *)
Definition entry_sp (s : sim) : word :=
  if psr_privileged (s_psr s) then rget (s_regs s) 6 else s_saved_sp s.
Definition entry_mem (s : sim) : mem :=
  let sp := w_data (entry_sp s) in
  mset (mset (s_mem s) (wrap16 (sp - 1)) (new_init (s_psr s))) (wrap16 (sp - 2)) (new_init (s_pc s)).

(* hypotheses of the closed-form entry: not strict, 16-bit PSR, 8 registers, the two stack slots are
   ordinary memory (below the I/O page) *)
Record entry_pre (s : sim) (v p : Z) : Prop := {
  ep_strict : fl_strict (s_flags s) = false;
  ep_psr : 0 <= s_psr s < 65536;
  ep_regs : regs8 (s_regs s);
  ep_v : 0 <= v < 256;
  ep_p : 0 <= p < 8;
  ep_gate : psr_priority (s_psr s) < p;
  ep_io1 : (IO_START <=? wrap16 (w_data (entry_sp s) - 1)) = false;
  ep_io2 : (IO_START <=? wrap16 (w_data (entry_sp s) - 2)) = false }.

Record entry_post (s s' : sim) (v p : Z) : Prop := {
  eq_mem : s_mem s' = entry_mem s;
  eq_psr : s_psr s' = entry_psr (s_psr s) p;
  eq_pc : s_pc s' = w_data (mget (entry_mem s) (256 + v));
  eq_regs : s_regs s' = rset (s_regs s) 6 (w_sub (entry_sp s) (new_init 2));
  eq_ssp : s_saved_sp s' = if psr_privileged (s_psr s) then s_saved_sp s else rget (s_regs s) 6;
  eq_instrs : s_instrs s' = s_instrs s;
  eq_frame_no : s_frame_no s' = s_frame_no s + 1;
  eq_flags : s_flags s' = s_flags s;
  eq_devs : s_devs s' = s_devs s;
  eq_mcr : s_mcr s' = s_mcr s;
  eq_prefetch : s_prefetch s' = s_prefetch s;
  eq_ireg : s_ireg s' = s_ireg s;
  eq_alloca : s_alloca s' = s_alloca s;
  eq_srd : s_sr_defns s' = s_sr_defns s }.

Ltac mgo := repeat first [mstep | progress cbn [get_if_init negb orb andb of_opt new_init is_init w_data w_init]].
Ltac side := first [reflexivity | assumption | (unfold IO_START, sim.IO_START; apply Z.leb_gt; lia)].

Lemma handle_interrupt_entry e s v p : entry_pre s v p ->
  exists s', handle_interrupt e (256 + v) (Some p) s = (s', inl tt) /\ entry_post s s' v p.
Proof.
  intros [Hst Hpsr Hrs Hv Hp Hg Hio1 Hio2].
  destruct s as [m rs pc psr ssp fno frs srd al ins pf ob mcr [fst frl fdf fip] ir dv].
  unfold entry_sp, regs8 in *. cbn [s_flags fl_strict s_psr s_saved_sp s_regs] in *. subst fst.
  destruct rs as [|r0 [|r1 [|r2 [|r3 [|r4 [|r5 [|r6 [|r7 [|]]]]]]]]]; try discriminate Hrs. clear Hrs.
  destruct (psr_facts psr p Hpsr Hp) as (Hpr & Hpe & _).
  assert (Hg' : (p <=? psr_priority psr) = false) by (apply Z.leb_gt; exact Hg).
  destruct (psr_privileged psr) eqn:Hu;
  destruct frs as [fs|]; [destruct (assoc srd (256 + v)) as [[k|prs]|] eqn:Has | | destruct (assoc srd (256 + v)) as [[k|prs]|] eqn:Has | ];
  (eexists; split;
   [ unfold handle_interrupt; repeat mstep; rewrite Hg', Hu; cbn [negb]; unfold swap_sp; repeat mstep;
     cbn [get_if_init negb orb of_opt]; repeat mstep;
     rewrite Hpr; cbn [orb];
     change (rget (rset [r0; r1; r2; r3; r4; r5; r6; r7] 6 ssp) 6) with ssp;
     change (rget [r0; r1; r2; r3; r4; r5; r6; r7] 6) with r6 in *;
     rewrite bind_write_plain by side; unfold wm_state; simp_st;
     rewrite bind_write_plain by side; unfold wm_state; simp_st; repeat mstep;
     unfold call_interrupt; repeat mstep;
     fold (entry_psr psr p); rewrite Hpe; cbn [orb];
     rewrite bind_read_plain by side; unfold rm_state; simp_st; mgo;
     unfold push_frame; mgo; rewrite ?Has; cbv iota beta; simp_st; unfold set_pc; mgo; reflexivity
   | constructor; cbn [s_mem s_regs s_pc s_psr s_saved_sp s_frame_no s_frames s_sr_defns s_alloca s_instrs s_prefetch s_obs s_mcr s_flags s_ireg s_devs];
     unfold entry_mem, entry_sp; cbn [s_mem s_regs s_pc s_psr s_saved_sp]; rewrite ?Hu; reflexivity ]).
Qed.

(* ------------------------------------------------------------------ RTI undoes the entry *)
(* what the handler must leave behind when it reaches its RTI (s1: state after entry, s2: state at the RTI) *)
Record handler_returned (s s1 s2 : sim) : Prop := {
  hr_r6 : rget (s_regs s2) 6 = rget (s_regs s1) 6;
  hr_ssp : s_saved_sp s2 = s_saved_sp s1;
  hr_regs8 : regs8 (s_regs s2);
  hr_pc_slot : mget (s_mem s2) (wrap16 (w_data (entry_sp s) - 2)) = new_init (s_pc s);
  hr_psr_slot : mget (s_mem s2) (wrap16 (w_data (entry_sp s) - 1)) = new_init (s_psr s);
  hr_priv : psr_privileged (s_psr s2) = true;
  hr_strict : fl_strict (s_flags s2) = false }.

Lemma w_data_sub2 w : w_data (w_sub w (new_init 2)) = wrap16 (w_data w - 2).
Proof. unfold w_sub. cbn [new_init w_data w_init]. reflexivity. Qed.

Lemma w_sub2_eq w : w_sub w (new_init 2) = mkWord (wrap16 (w_data w - 2)) (both_init w (new_init 2)).
Proof. reflexivity. Qed.
Lemma w_add_sub2 w : 0 <= w_data w < 65536 -> w_data (w_add (w_sub w (new_init 2)) (new_init 2)) = w_data w.
Proof.
  intros H. rewrite w_sub2_eq. unfold w_add. change (w_data (new_init 2)) with 2. change (2 =? 0) with false.
  cbn [andb w_data w_init].
  destruct ((wrap16 (w_data w - 2) =? 0) && _) eqn:E; cbn [w_data new_init].
  - apply andb_true_iff in E. destruct E as [E _]. apply Z.eqb_eq in E. unfold wrap16 in E. lia.
  - unfold wrap16. lia.
Qed.

Lemma set_pc_plain a b s : fl_strict (s_flags s) = false -> set_pc (new_init a) b s = (upd_pc s a, inl tt).
Proof. intros H. unfold set_pc. mgo. rewrite H. mgo. reflexivity. Qed.
Lemma bind_set_pc_plain {B} a b (k : unit -> M B) s : fl_strict (s_flags s) = false ->
  bind (set_pc (new_init a) b) k s = k tt (upd_pc s a).
Proof. intros. apply bind_val. apply set_pc_plain. assumption. Qed.

Lemma rti_restores e s v p s1 s2 :
  entry_pre s v p -> entry_post s s1 v p -> handler_returned s s1 s2 ->
  0 <= w_data (entry_sp s) < 65536 ->
  exists s3, exec e SRTI s2 = (s3, inl tt) /\
    s_pc s3 = s_pc s /\ s_psr s3 = s_psr s /\
    w_data (rget (s_regs s3) 6) = w_data (rget (s_regs s) 6) /\
    w_data (s_saved_sp s3) = w_data (s_saved_sp s) /\
    (psr_privileged (s_psr s) = false -> rget (s_regs s3) 6 = rget (s_regs s) 6) /\
    (psr_privileged (s_psr s) = true -> s_saved_sp s3 = s_saved_sp s) /\
    (forall k, 0 <= k -> k <> 6 -> rget (s_regs s3) k = rget (s_regs s2) k) /\
    s_mem s3 = s_mem s2 /\ s_instrs s3 = s_instrs s2 /\ s_devs s3 = s_devs s2 /\ s_flags s3 = s_flags s2 /\
    regs8 (s_regs s3) /\ s_mcr s3 = s_mcr s2 /\ s_ireg s3 = s_ireg s2 /\ s_alloca s3 = s_alloca s2 /\
    rget (s_regs s3) 6 = (if psr_privileged (s_psr s) then w_add (w_sub (entry_sp s) (new_init 2)) (new_init 2) else rget (s_regs s) 6) /\
    s_saved_sp s3 = (if psr_privileged (s_psr s) then s_saved_sp s else w_add (w_sub (entry_sp s) (new_init 2)) (new_init 2)).
Proof.
  intros Hpre Hpost [Hr6 Hssp Hr8 Hpcs Hpsrs Hpriv Hst] Hsp.
  destruct Hpre as [_ _ Hrs _ _ _ Hio1 Hio2].
  pose proof (eq_regs _ _ _ _ Hpost) as Hregs1. pose proof (eq_ssp _ _ _ _ Hpost) as Hssp1.
  rewrite Hregs1 in Hr6. rewrite Hssp1 in Hssp. clear Hpost Hregs1 Hssp1 s1.
  destruct s as [m rs pc psr ssp fno frs srd al ins pf ob mcr fl ir dv].
  destruct s2 as [m2 rs2 pc2 psr2 ssp2 fno2 frs2 srd2 al2 ins2 pf2 ob2 mcr2 [fst2 frl2 fdf2 fip2] ir2 dv2].
  unfold entry_sp, regs8 in *. cbn [s_flags fl_strict s_psr s_saved_sp s_regs s_mem s_pc] in *. subst fst2.
  destruct rs as [|r0 [|r1 [|r2 [|r3 [|r4 [|r5 [|r6 [|r7 [|]]]]]]]]]; try discriminate Hrs. clear Hrs.
  destruct rs2 as [|q0 [|q1 [|q2 [|q3 [|q4 [|q5 [|q6 [|q7 [|]]]]]]]]]; try discriminate Hr8. clear Hr8.
  change (rget [q0; q1; q2; q3; q4; q5; q6; q7] 6) with q6 in Hr6.
  change (rget [r0; r1; r2; r3; r4; r5; r6; r7] 6) with r6 in *.
  set (src := if psr_privileged psr then r6 else ssp) in *.
  change (rget (rset [r0; r1; r2; r3; r4; r5; r6; r7] 6 (w_sub src (new_init 2))) 6) with (w_sub src (new_init 2)) in Hr6.
  subst q6.
  assert (Ha2 : wrap16 (w_data (w_sub src (new_init 2)) + 1) = wrap16 (w_data src - 1)).
  { rewrite w_data_sub2. unfold wrap16. lia. }
  assert (Hsrc : w_data (w_add (w_sub src (new_init 2)) (new_init 2)) = w_data src) by (apply w_add_sub2; exact Hsp).
  subst ssp2.
  destruct (psr_privileged psr) eqn:Hu; subst src.
  - eexists. split.
    { unfold exec. mgo. rewrite Hpriv. cbn [orb]. mgo.
      change (rget [q0; q1; q2; q3; q4; q5; w_sub r6 (new_init 2); q7] 6) with (w_sub r6 (new_init 2)).
      rewrite w_data_sub2.
      rewrite bind_read_plain by side. unfold rm_state. simp_st. rewrite Hpcs. mgo.
      rewrite <- w_data_sub2, Ha2.
      rewrite bind_read_plain by side. unfold rm_state. simp_st. rewrite Hpsrs. mgo.
      rewrite bind_set_pc_plain by reflexivity. simp_st. mgo. rewrite Hu. cbn [negb]. mgo.
      unfold pop_frame, modify. simp_st. reflexivity. }
    cbn [s_mem s_regs s_pc s_psr s_saved_sp s_frame_no s_frames s_sr_defns s_alloca s_instrs s_prefetch s_obs s_mcr s_flags s_ireg s_devs].
    change (rget (rset [q0; q1; q2; q3; q4; q5; w_sub r6 (new_init 2); q7] 6 ?x) 6) with x.
    repeat split; try reflexivity; try assumption; try discriminate.
    intros k Hk Hk6. apply rget_rset_other; lia.
  - eexists. split.
    { unfold exec. mgo. rewrite Hpriv. cbn [orb]. mgo.
      change (rget [q0; q1; q2; q3; q4; q5; w_sub ssp (new_init 2); q7] 6) with (w_sub ssp (new_init 2)).
      rewrite w_data_sub2.
      rewrite bind_read_plain by side. unfold rm_state. simp_st. rewrite Hpcs. mgo.
      rewrite <- w_data_sub2, Ha2.
      rewrite bind_read_plain by side. unfold rm_state. simp_st. rewrite Hpsrs. mgo.
      rewrite bind_set_pc_plain by reflexivity. simp_st. mgo. rewrite Hu. cbn [negb]. unfold swap_sp. mgo.
      unfold pop_frame, modify. simp_st. reflexivity. }
    cbn [s_mem s_regs s_pc s_psr s_saved_sp s_frame_no s_frames s_sr_defns s_alloca s_instrs s_prefetch s_obs s_mcr s_flags s_ireg s_devs].
    change (rget (rset [q0; q1; q2; q3; q4; q5; w_sub ssp (new_init 2); q7] 6 ?x) 6) with x.
    repeat split; try reflexivity; try assumption; try discriminate.
    intros k Hk Hk6. rewrite !rget_rset_other by lia. reflexivity.
Qed.

(* ------------------------------------------------------------------ C10 at the level of a step *)
Lemma polled_prio_range e : forall ds draws v p, In (IVec v p) (polled e ds draws) -> 0 <= p < 8.
Proof.
  assert (Hc : forall x, 0 <= clamp7 x < 8).
  { intros x. unfold clamp7. destruct (x <? 0) eqn:A; [lia|]. destruct (7 <? x) eqn:B; [lia|].
    apply Z.ltb_ge in A, B. lia. }
  induction ds as [|d r IH]; intros draws v p H; cbn [polled] in H; [destruct H|].
  destruct (dev_poll e d draws) as [[d' i] dr] eqn:Hp.
  assert (Hi : forall v p, i = Some (IVec v p) -> 0 <= p < 8).
  { intros v0 p0 ->. destruct d as [|q ie|b|t|l]; cbn [dev_poll] in Hp.
    - inversion Hp.
    - inversion Hp as [[Hd Hi Hr]]. destruct (_ && ie); inversion Hi. subst. vm_compute. split; [discriminate|reflexivity].
    - inversion Hp.
    - destruct (negb (t_enabled t)); [inversion Hp|].
      destruct (t_time t =? 0).
      { destruct draws as [|x dr0]; inversion Hp as [[Hd Hi Hr]]. destruct (x =? 0); inversion Hi. apply Hc. }
      destruct (t_time t =? 1); inversion Hp. apply Hc.
    - destruct l as [|x l]; [inversion Hp|]. inversion Hp as [[Hd Hi Hr]].
      destruct x as [[v1 p1|]|]; inversion Hi. apply Hc. }
  destruct i as [x|]; [|eapply IH; exact H].
  destruct H as [->|H]; [eapply Hi; reflexivity|eapply IH; exact H].
Qed.

Lemma pending_prio_range e s v p : pending e s = Some (IVec v p) -> 0 <= p < 8.
Proof.
  intros H. apply pending_is_last_max in H. destruct H as (l1 & l2 & Hl & _).
  eapply polled_prio_range with (ds := s_devs s) (draws := e_draws e) (v := v).
  rewrite Hl. apply in_or_app. right. left. reflexivity.
Qed.

(* gate: the interrupt branch is taken exactly when the winner of the arbitration is a vectored
   request whose priority is strictly above the PSR priority *)
Theorem gate_taken e s v p : takes_irq e s v p ->
  step_inner e s = handle_interrupt e (256 + v) (Some p) (after_poll e s).
Proof.
  intros [Hp Hg]. rewrite step_inner_cases, Hp. apply Z.ltb_lt in Hg. rewrite Hg. reflexivity.
Qed.
Theorem gate_not_taken e s : (forall v p, ~ takes_irq e s v p) ->
  step_inner e s = match pending e s with
                   | Some IExt => (after_poll e s, inr (BErr InterruptErr))
                   | _ => fetch_exec e (after_poll e s)
                   end.
Proof.
  intros H. rewrite step_inner_cases. destruct (pending e s) as [[v p|]|] eqn:Hp; try reflexivity.
  destruct (psr_priority (s_psr s) <? p) eqn:Hg; [|reflexivity].
  exfalso. apply (H v p). split; [exact Hp|apply Z.ltb_lt; exact Hg].
Qed.
(* the re-check inside handle_interrupt never vetoes a request that passed the gate *)
Lemma handle_interrupt_no_early_return (s : sim) (p : Z) : psr_priority (s_psr s) < p ->
  (p <=? psr_priority (s_psr s)) = false.
Proof. intros. apply Z.leb_gt. assumption. Qed.

Lemma entry_pre_after_poll e s v p : entry_pre s v p -> entry_pre (after_poll e s) v p.
Proof. intros [A B C D E F G H]. constructor; assumption. Qed.

Theorem step_entry e s v p : takes_irq e s v p ->
  fl_strict (s_flags s) = false -> 0 <= s_psr s < 65536 -> regs8 (s_regs s) -> 0 <= v < 256 ->
  (IO_START <=? wrap16 (w_data (entry_sp s) - 1)) = false ->
  (IO_START <=? wrap16 (w_data (entry_sp s) - 2)) = false ->
  exists s', step_inner e s = (s', inl tt) /\ entry_post (after_poll e s) s' v p.
Proof.
  intros Ht Hst Hpsr Hr Hv H1 H2. rewrite (gate_taken _ _ _ _ Ht).
  apply handle_interrupt_entry. apply entry_pre_after_poll.
  destruct Ht as [Hp Hg]. constructor; try assumption. eapply pending_prio_range; exact Hp.
Qed.

(* ------------------------------------------------------------------ boundary: entry never counts as an instruction *)
(* [KI m]: m leaves instructions_run alone — on every path, in every state (strict or not,
   wherever the stack pointer points) *)
Definition KI {A} (m : M A) : Prop := forall s, s_instrs (fst (m s)) = s_instrs s.

Lemma KI_ret {A} (a : A) : KI (ret a). Proof. intro; reflexivity. Qed.
Lemma KI_fail {A} b : KI (@fail A b). Proof. intro; reflexivity. Qed.
Lemma KI_err {A} x : KI (@err A x). Proof. intro; reflexivity. Qed.
Lemma KI_of_opt {A} (o : option A) x : KI (of_opt o x). Proof. destruct o; intro; reflexivity. Qed.
Lemma KI_modify f : (forall s, s_instrs (f s) = s_instrs s) -> KI (modify f).
Proof. intros H s. apply H. Qed.
Lemma KI_bind {A B} (m : M A) (k : A -> M B) : KI m -> (forall a, KI (k a)) -> KI (bind m k).
Proof.
  intros Hm Hk s. specialize (Hm s). unfold bind. destruct (m s) as [s1 [a|b]]; cbn [fst] in *; [|exact Hm].
  rewrite Hk. exact Hm.
Qed.
Lemma KI_bind_get {B} (k : sim -> M B) : (forall s0, KI (k s0)) -> KI (bind get k).
Proof. intros H s. apply H. Qed.
Lemma KI_if {A} (b : bool) (m1 m2 : M A) : KI m1 -> KI m2 -> KI (if b then m1 else m2).
Proof. destruct b; auto. Qed.

Lemma KI_read_mem e a c : KI (read_mem e a c).
Proof.
  intro s. unfold read_mem. destruct (negb (c_priv c) && negb (in_user a)); [reflexivity|]. cbn [fst].
  destruct (IO_START <=? a).
  - destruct (assoc (s_ireg s) a) as [r|].
    + destruct (c_track c); reflexivity.
    + destruct (dev_read e (nth_dev (s_devs s) (port_dev a)) a (c_io c)) as [d' [v|]]; destruct (c_track c); reflexivity.
  - destruct (c_track c); reflexivity.
Qed.
Lemma KI_write_mem e a w c : KI (write_mem e a w c).
Proof.
  intro s. unfold write_mem. destruct (negb (c_priv c) && negb (in_user a)); [reflexivity|].
  destruct (IO_START <=? a).
  - destruct (get_if_init w (c_strict c)) as [d|]; [|reflexivity].
    destruct (assoc (s_ireg s) a) as [r|].
    + destruct r; destruct (c_track c); destruct (set_if_init w (c_strict c)); reflexivity.
    + destruct (dev_write e (nth_dev (s_devs s) (port_dev a)) a d) as [d' [|]]; [|reflexivity].
      destruct (c_track c); destruct (set_if_init w (c_strict c)); reflexivity.
  - destruct (c_track c); destruct (set_if_init w (c_strict c)); reflexivity.
Qed.

Create HintDb ki discriminated.
#[export] Hint Constants Opaque : ki.
Ltac ki1 :=
  lazymatch goal with
  | |- KI (ret _) => apply KI_ret
  | |- KI (fail _) => apply KI_fail
  | |- KI (err _) => apply KI_err
  | |- KI (of_opt _ _) => apply KI_of_opt
  | |- KI (read_mem _ _ _) => apply KI_read_mem
  | |- KI (write_mem _ _ _ _) => apply KI_write_mem
  | |- KI (modify _) => apply KI_modify; intros; reflexivity
  | |- KI (bind get _) => apply KI_bind_get; intro
  | |- KI (bind _ _) => apply KI_bind; [ | intro ]
  | |- KI (if _ then _ else _) => apply KI_if
  | |- KI (match ?x with _ => _ end) => destruct x
  | |- KI _ => solve [auto 1 with ki nocore]
  end.
Ltac ki := repeat ki1.

Lemma KI_set_pc w b : KI (set_pc w b). Proof. unfold set_pc. ki. Qed.
Lemma KI_push_frame a b c : KI (push_frame a b c).
Proof.
  unfold push_frame. apply KI_modify. intros s. destruct (s_frames s); [|reflexivity].
  destruct (match c with FSubroutine => _ | _ => _ end) as [[?k|?l]|]; reflexivity.
Qed.
Lemma KI_swap_sp : KI swap_sp. Proof. unfold swap_sp. ki. Qed.
#[export] Hint Resolve KI_set_pc KI_push_frame KI_swap_sp : ki.
Lemma KI_call_interrupt e v ft : KI (call_interrupt e v ft). Proof. unfold call_interrupt. ki. Qed.
#[export] Hint Resolve KI_call_interrupt : ki.
Lemma KI_handle_some e v p : KI (handle_interrupt e v (Some p)).
Proof. unfold handle_interrupt. ki. Qed.

(* a taken interrupt replaces the fetch: the step IS the entry, nothing is fetched or counted *)
Theorem boundary e s v p : takes_irq e s v p ->
  step_inner e s = handle_interrupt e (256 + v) (Some p) (after_poll e s) /\
  s_instrs (fst (step_inner e s)) = s_instrs s.
Proof.
  intros Ht. rewrite (gate_taken _ _ _ _ Ht). split; [reflexivity|].
  rewrite KI_handle_some. reflexivity.
Qed.


Lemma entry_fields s s' v p : entry_post s s' v p -> 0 <= s_psr s < 65536 -> 0 <= p < 8 -> regs8 (s_regs s) ->
  let sp := w_data (entry_sp s) in
  mget (s_mem s') (wrap16 (sp - 1)) = new_init (s_psr s) /\
  mget (s_mem s') (wrap16 (sp - 2)) = new_init (s_pc s) /\
  s_pc s' = w_data (mget (s_mem s') (256 + v)) /\
  psr_privileged (s_psr s') = true /\ psr_priority (s_psr s') = p /\ psr_cc (s_psr s') = 2 /\
  s_psr s' = Z.land (s_psr s) 30968 + 256 * p + 2 /\
  w_data (rget (s_regs s') 6) = wrap16 (sp - 2) /\
  (psr_privileged (s_psr s) = false -> s_saved_sp s' = rget (s_regs s) 6) /\
  (psr_privileged (s_psr s) = true -> s_saved_sp s' = s_saved_sp s) /\
  s_instrs s' = s_instrs s.
Proof.
  intros [Hm Hpsr Hpc Hr Hs Hi _ _ _ _ _ _ _ _] Hp16 Hp Hr8. cbv zeta.
  destruct (psr_facts (s_psr s) p Hp16 Hp) as (_ & F1 & F2 & F3 & F4).
  rewrite Hm, Hpsr, Hpc, Hr, Hs, Hi. unfold entry_mem.
  pose proof (wrap16_range (w_data (entry_sp s) - 1)) as R1.
  pose proof (wrap16_range (w_data (entry_sp s) - 2)) as R2.
  assert (Hne : wrap16 (w_data (entry_sp s) - 2) <> wrap16 (w_data (entry_sp s) - 1)) by (unfold wrap16; lia).
  repeat split; try assumption.
  - rewrite mget_mset_other by lia. apply mget_mset_same.
  - apply mget_mset_same.
  - rewrite rget_rset_same by (try lia; unfold regs8 in Hr8; rewrite Hr8; cbn; lia). apply w_data_sub2.
  - intros Hu. rewrite Hu. reflexivity.
  - intros Hu. rewrite Hu. reflexivity.
Qed.

(* ------------------------------------------------------------------ transparency of serviced interrupts *)
(* keyboard queue / interrupt-enable bit and display buffer of corresponding devices agree *)
Definition same_io_dev (d d' : dev) : Prop :=
  match d, d' with
  | DKb q ie, DKb q' ie' => q = q' /\ ie = ie'
  | DDs b, DDs b' => b = b'
  | DKb _ _, _ | _, DKb _ _ | DDs _, _ | _, DDs _ => False
  | _, _ => True
  end.
Definition same_io (ds ds' : list dev) : Prop := Forall2 same_io_dev ds ds'.
Lemma same_io_dev_refl d : same_io_dev d d.
Proof. destruct d; cbn; auto. Qed.
Lemma same_io_refl ds : same_io ds ds.
Proof. induction ds; constructor; [apply same_io_dev_refl|assumption]. Qed.
Lemma same_io_dev_trans a b c : same_io_dev a b -> same_io_dev b c -> same_io_dev a c.
Proof.
  destruct a, b, c; cbn; try tauto; try (intros [-> ->] [-> ->]; auto); try congruence.
Qed.
Lemma same_io_trans a : forall b c, same_io a b -> same_io b c -> same_io a c.
Proof.
  induction a as [|x a IH]; intros b c H1 H2; inversion H1; subst; inversion H2; subst; constructor.
  - eapply same_io_dev_trans; eassumption.
  - eapply IH; eassumption.
Qed.

(* what the interrupted program can see: PC, PSR (CC, privilege, priority), all registers, the other
   stack pointer, user memory, keyboard and display, MCR, flags, internal-register map *)
Record peq (s s' : sim) : Prop := {
  pq_pc : s_pc s' = s_pc s;
  pq_psr : s_psr s' = s_psr s;
  pq_regs : s_regs s' = s_regs s;
  pq_ssp : s_saved_sp s' = s_saved_sp s;
  pq_umem : forall a, in_user a = true -> mget (s_mem s') a = mget (s_mem s) a;
  pq_io : same_io (s_devs s) (s_devs s');
  pq_mcr : s_mcr s' = s_mcr s;
  pq_flags : s_flags s' = s_flags s;
  pq_ireg : s_ireg s' = s_ireg s;
  pq_alloca : s_alloca s' = s_alloca s }.
Lemma peq_refl s : peq s s.
Proof. constructor; auto. apply same_io_refl. Qed.
Lemma peq_trans a b c : peq a b -> peq b c -> peq a c.
Proof.
  intros [A1 A2 A3 A4 A5 A6 A7 A8 A9 A10] [B1 B2 B3 B4 B5 B6 B7 B8 B9 B10]. constructor; try congruence.
  - intros x Hx. rewrite B5, A5 by exact Hx. reflexivity.
  - eapply same_io_trans; eassumption.
Qed.

(* HandlerOK: the contract of a well-behaved handler, from the state s1 right after the entry to the
   state s2 in which it executes its RTI: it is back at its entry stack pointer with the two saved
   words intact and the saved SP untouched, still privileged and non-strict; it restored every
   register; it did not write user memory (outside the two slots when the supervisor stack lies in
   user space), did not touch keyboard or display, MCR, flags or internal-register mappings. *)
Record HandlerOK (s s1 s2 : sim) : Prop := {
  hk_ret : handler_returned s s1 s2;
  hk_regs : forall k, 0 <= k -> k <> 6 -> rget (s_regs s2) k = rget (s_regs s1) k;
  hk_umem : forall a, in_user a = true -> mget (s_mem s2) a = mget (s_mem s1) a;
  hk_io : same_io (s_devs s1) (s_devs s2);
  hk_mcr : s_mcr s2 = s_mcr s1;
  hk_flags : s_flags s2 = s_flags s1;
  hk_ireg : s_ireg s2 = s_ireg s1;
  hk_alloca : s_alloca s2 = s_alloca s1 }.

Lemma regs8_ext (a b : regs) : regs8 a -> regs8 b -> (forall k, 0 <= k < 8 -> rget a k = rget b k) -> a = b.
Proof.
  unfold regs8. intros Ha Hb H.
  destruct a as [|a0 [|a1 [|a2 [|a3 [|a4 [|a5 [|a6 [|a7 [|]]]]]]]]]; try discriminate Ha.
  destruct b as [|b0 [|b1 [|b2 [|b3 [|b4 [|b5 [|b6 [|b7 [|]]]]]]]]]; try discriminate Hb.
  pose proof (H 0 ltac:(lia)) as E0. pose proof (H 1 ltac:(lia)) as E1. pose proof (H 2 ltac:(lia)) as E2.
  pose proof (H 3 ltac:(lia)) as E3. pose proof (H 4 ltac:(lia)) as E4. pose proof (H 5 ltac:(lia)) as E5.
  pose proof (H 6 ltac:(lia)) as E6. pose proof (H 7 ltac:(lia)) as E7.
  change (a0 = b0) in E0. change (a1 = b1) in E1. change (a2 = b2) in E2. change (a3 = b3) in E3.
  change (a4 = b4) in E4. change (a5 = b5) in E5. change (a6 = b6) in E6. change (a7 = b7) in E7.
  subst. reflexivity.
Qed.

Lemma w_add_sub2_init d : 0 <= d < 65536 -> w_add (w_sub (new_init d) (new_init 2)) (new_init 2) = new_init d.
Proof.
  intros H. rewrite w_sub2_eq. unfold w_add, both_init. cbn [w_data w_init new_init].
  change (2 =? 0) with false. change (ALL_BITS =? ALL_BITS) with true. cbn [andb].
  destruct (wrap16 (d - 2) =? 0) eqn:E; change (ALL_BITS =? ALL_BITS) with true; cbn [andb]; unfold new_init.
  - apply Z.eqb_eq in E. unfold wrap16 in E. f_equal. lia.
  - f_equal. unfold wrap16. lia.
Qed.

(* one serviced interrupt: entry, a handler meeting its contract, RTI — the interrupted program's
   state is back.  The stack pointer the entry pushes on must be an initialised 16-bit word (the
   -2/+2 round trip then restores it exactly) below the user area (the two slots are then not user memory). *)
Theorem serviced_once e s v p s1 s2 :
  entry_pre s v p -> entry_post s s1 v p -> HandlerOK s s1 s2 ->
  (exists d, entry_sp s = new_init d /\ 2 <= d <= 12288) ->
  exists s3, exec e SRTI s2 = (s3, inl tt) /\ peq s s3 /\ s_instrs s3 = s_instrs s2.
Proof.
  intros Hpre Hpost [Hret Hregs Humem Hio Hmcr Hfl Hir Hal] (d & Hd & Hdr).
  destruct (rti_restores e s v p s1 s2 Hpre Hpost Hret) as
    (s3 & Hx & Hpc & Hpsr & _ & _ & _ & _ & Hoth & Hmem & Hins & Hdev & Hflg & Hr8' & Hmcr3 & Hir3 & Hal3 & Hr6 & Hssp).
  { rewrite Hd. cbn [w_data new_init]. lia. }
  exists s3. split; [exact Hx|]. split; [|exact Hins].
  pose proof (ep_regs _ _ _ Hpre) as Hr8.
  rewrite Hd, w_add_sub2_init in Hr6, Hssp by lia.
  assert (Hsp6 : psr_privileged (s_psr s) = true -> rget (s_regs s) 6 = new_init d).
  { intros Hu. unfold entry_sp in Hd. rewrite Hu in Hd. exact Hd. }
  assert (Hspu : psr_privileged (s_psr s) = false -> s_saved_sp s = new_init d).
  { intros Hu. unfold entry_sp in Hd. rewrite Hu in Hd. exact Hd. }
  constructor.
  - exact Hpc.
  - exact Hpsr.
  - apply regs8_ext; [exact Hr8'|exact Hr8|]. intros k Hk.
    destruct (Z.eq_dec k 6) as [->|Hk6].
    + rewrite Hr6. destruct (psr_privileged (s_psr s)) eqn:Hu; [symmetry; apply Hsp6; reflexivity|reflexivity].
    + rewrite Hoth by lia. rewrite Hregs by lia. rewrite (eq_regs _ _ _ _ Hpost).
      apply rget_rset_other; lia.
  - rewrite Hssp. destruct (psr_privileged (s_psr s)) eqn:Hu; [reflexivity|symmetry; apply Hspu; reflexivity].
  - intros a Ha. rewrite Hmem, Humem by exact Ha. rewrite (eq_mem _ _ _ _ Hpost). unfold entry_mem.
    rewrite Hd. cbn [w_data new_init].
    assert (12288 <= a < 65024).
    { unfold in_user, USER_START, IO_START, sim.USER_START, sim.IO_START in Ha. apply andb_prop in Ha. destruct Ha as [A B].
      apply Z.leb_le in A. apply Z.ltb_lt in B. lia. }
    pose proof (wrap16_range (d - 1)). pose proof (wrap16_range (d - 2)).
    rewrite !mget_mset_other; try lia; try reflexivity; unfold wrap16; lia.
  - rewrite Hdev. rewrite <- (eq_devs _ _ _ _ Hpost). exact Hio.
  - rewrite Hmcr3, Hmcr. apply (eq_mcr _ _ _ _ Hpost).
  - rewrite Hflg, Hfl. apply (eq_flags _ _ _ _ Hpost).
  - rewrite Hir3, Hir. apply (eq_ireg _ _ _ _ Hpost).
  - rewrite Hal3, Hal. apply (eq_alloca _ _ _ _ Hpost).
Qed.

(* any number of interrupts serviced one after the other at the same boundary (each: taken by the
   gate, handler meets HandlerOK, RTI) *)
Inductive Serviced (e : env) : sim -> sim -> Prop :=
| sv_nil s : Serviced e s s
| sv_cons s v p s1 s2 s3 s' :
    entry_pre s v p -> handle_interrupt e (256 + v) (Some p) s = (s1, inl tt) -> HandlerOK s s1 s2 ->
    (exists d, entry_sp s = new_init d /\ 2 <= d <= 12288) ->
    exec e SRTI s2 = (s3, inl tt) -> Serviced e s3 s' -> Serviced e s s'.

Theorem serviced_transparent e s s' : Serviced e s s' -> peq s s'.
Proof.
  induction 1 as [s|s v p s1 s2 s3 s' Hpre Hent Hok Hsp Hrti Hrest IH]; [apply peq_refl|].
  destruct (handle_interrupt_entry e s v p Hpre) as (s1' & Hent' & Hpost).
  rewrite Hent in Hent'. inversion Hent'; subst s1'.
  destruct (serviced_once e s v p s1 s2 Hpre Hpost Hok Hsp) as (s3' & Hrti' & Hpeq & _).
  rewrite Hrti in Hrti'. inversion Hrti'; subst s3'.
  eapply peq_trans; eassumption.
Qed.
