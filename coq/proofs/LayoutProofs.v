(* LayoutProofs.v — C03: the parser returns exactly the statements written, whatever the layout.
   Part 1: every spelling of a numeral, register, keyword, label, directive lexes to its token
           when a delimiter follows (word_ok), so [lex_pieces] covers letter case, blanks and tabs,
           comments, LF / CR LF line ends, colons, every numeric notation and leading zeros.
   Part 2: the nucleus parser on the tokens of an instruction / directive, for arbitrary spans and
           either signedness of the numeric token.
   Part 3: statements (labels with optional colons and line breaks after them, blank lines) and
           whole programs, by induction over the statement list.
   Part 4: composition: parse_ast (text of the pieces) = the written statements with the spans of
           their texts. *)
From Coq Require Import ZArith List Bool Lia.
From Model Require Import Tree Text Bits Offset Instr AsmAst Lexer Parser Print.
From Spec Require Import Numerals.
From Proofs Require Import LexerProofs LexStepProofs LexNumProofs OffsetProofs PiecesProofs PrintParseProofs.
Import ListNotations.
Open Scope Z_scope.

(* ================= Part 1: spellings ================= *)
Lemma word_ok_dec ds : ds <> [] -> Forall dec_digit ds -> value_of 10 ds <= 65535 ->
  word_ok ds (TUnsigned (value_of 10 ds)).
Proof.
  intros Hne H Hv. destruct ds as [|c w]; [congruence|].
  assert (Hc : dec_digit c) by (inversion H; assumption).
  exists c, w. split; [reflexivity|]. split; [apply not_blank_digit, dec_hex, Hc|].
  intros fx rest Hd. rewrite step_digit; [|apply dec_digit_is_digit; exact Hc|apply Forall_word, Forall_dec_hex; inversion H; assumption|apply delim_stops; exact Hd].
  rewrite lex_unsigned_dec_digits by exact H. unfold unsigned_result.
  replace (value_of 10 (c :: w) <=? 65535) with true by (symmetry; apply Z.leb_le; exact Hv).
  cbn [byte_len]. rewrite (utf8_len_ascii c) by (unfold dec_digit in Hc; lia). reflexivity.
Qed.

Lemma word_ok_hash_dec ds : ds <> [] -> Forall dec_digit ds -> value_of 10 ds <= 65535 ->
  word_ok (35 :: ds) (TUnsigned (value_of 10 ds)).
Proof.
  intros Hne H Hv. exists 35, ds. split; [reflexivity|]. split; [reflexivity|].
  intros fx rest Hd. destruct ds as [|c w]; [congruence|].
  assert (Hc : dec_digit c) by (inversion H; assumption). unfold dec_digit in Hc.
  cbn [app]. rewrite step_hash; [|lia|lia|apply Forall_word, Forall_dec_hex; exact H|apply delim_stops; exact Hd].
  rewrite lex_unsigned_hash_digits by exact H. unfold unsigned_result.
  replace (value_of 10 (c :: w) <=? 65535) with true by (symmetry; apply Z.leb_le; exact Hv). reflexivity.
Qed.

Lemma word_ok_minus_dec ds : ds <> [] -> Forall dec_digit ds -> value_of 10 ds <= 32768 ->
  word_ok (45 :: ds) (TSigned (- value_of 10 ds)).
Proof.
  intros Hne H Hv. exists 45, ds. split; [reflexivity|]. split; [reflexivity|].
  intros fx rest Hd. destruct ds as [|c w]; [congruence|].
  assert (Hc : dec_digit c) by (inversion H; assumption). unfold dec_digit in Hc.
  cbn [app]. rewrite step_minus; [|lia|apply Forall_word, Forall_dec_hex; exact H|apply delim_stops; exact Hd].
  rewrite lex_signed_dec_digits by (congruence || exact H). unfold signed_result.
  replace (value_of 10 (c :: w) <=? 32768) with true by (symmetry; apply Z.leb_le; exact Hv). reflexivity.
Qed.

Lemma word_ok_hash_minus_dec ds : ds <> [] -> Forall dec_digit ds -> value_of 10 ds <= 32768 ->
  word_ok (35 :: 45 :: ds) (TSigned (- value_of 10 ds)).
Proof.
  intros Hne H Hv. exists 35, (45 :: ds). split; [reflexivity|]. split; [reflexivity|].
  intros fx rest Hd. cbn [app].
  rewrite step_hash_minus; [|apply Forall_word, Forall_dec_hex; exact H|apply delim_stops; exact Hd].
  rewrite lex_signed_hash_digits by assumption. unfold signed_result.
  replace (value_of 10 ds <=? 32768) with true by (symmetry; apply Z.leb_le; exact Hv).
  cbn [byte_len]. change (utf8_len 35) with 1. change (utf8_len 45) with 1.
  replace (1 + (1 + byte_len ds)) with (2 + byte_len ds) by lia. reflexivity.
Qed.

Lemma word_ok_hex_digits x ds : is_x x = true -> ds <> [] -> Forall hex_digit ds -> value_of 16 ds <= 65535 ->
  word_ok (x :: ds) (TUnsigned (value_of 16 ds)).
Proof.
  intros Hx Hne H Hv. exists x, ds. split; [reflexivity|]. split; [apply is_x_not_blank; exact Hx|].
  intros fx rest Hd. destruct ds as [|c w]; [congruence|].
  assert (Hc : hex_digit c) by (inversion H; assumption).
  cbn [app]. rewrite step_x_hex; [|exact Hx| | |apply Forall_word; exact H|apply delim_stops; exact Hd].
  - rewrite lex_unsigned_hex_digits by assumption. unfold unsigned_result.
    replace (value_of 16 (c :: w) <=? 65535) with true by (symmetry; apply Z.leb_le; exact Hv).
    cbn [byte_len]. rewrite (is_x_len x Hx). reflexivity.
  - unfold hex_digit in Hc. lia.
  - destruct (hex_digit_cases c Hc) as [E|E]; [rewrite (is_digit_dec c E); reflexivity|rewrite E; apply orb_true_r].
Qed.

Lemma word_ok_hex_minus_digits x ds : is_x x = true -> ds <> [] -> Forall hex_digit ds -> value_of 16 ds <= 32768 ->
  word_ok (x :: 45 :: ds) (TSigned (- value_of 16 ds)).
Proof.
  intros Hx Hne H Hv. exists x, (45 :: ds). split; [reflexivity|]. split; [apply is_x_not_blank; exact Hx|].
  intros fx rest Hd. cbn [app].
  rewrite step_x_minus; [|exact Hx|apply Forall_word; exact H|apply delim_stops; exact Hd].
  rewrite lex_signed_hex_digits by assumption. unfold signed_result.
  replace (value_of 16 ds <=? 32768) with true by (symmetry; apply Z.leb_le; exact Hv).
  cbn [byte_len]. rewrite (is_x_len x Hx). change (utf8_len 45) with 1.
  replace (1 + (1 + byte_len ds)) with (2 + byte_len ds) by lia. reflexivity.
Qed.

Lemma word_ok_reg_digits r ds : is_r r = true -> ds <> [] -> Forall dec_digit ds -> value_of 10 ds <= 7 ->
  word_ok (r :: ds) (TReg (value_of 10 ds)).
Proof.
  intros Hr Hne H Hv. exists r, ds. split; [reflexivity|].
  split; [unfold is_r in Hr; apply orb_prop in Hr; destruct Hr as [E|E]; apply Z.eqb_eq in E; subst; reflexivity|].
  intros fx rest Hd. rewrite step_reg; [|exact Hr|exact Hne|apply Forall_is_digit; exact H|apply delim_stops; exact Hd].
  destruct ds as [|c w]; [congruence|]. rewrite lex_reg_digits by assumption. unfold reg_result.
  replace (value_of 10 (c :: w) <=? 7) with true by (symmetry; apply Z.leb_le; exact Hv).
  cbn [byte_len]. rewrite (utf8_len_ascii r) by (apply alpha_ascii, is_r_alpha, Hr). reflexivity.
Qed.

(* ================= Part 2: the nucleus, for arbitrary spans ================= *)
Lemma p_ior_num' t v sp ts prev : num_tok t v -> fits_s 5 v = true ->
  p_ior 5 ((t, sp) :: ts, prev) = POk (Imm v, (ts, sp)).
Proof.
  intros Ht Hf. pose proof (p_ior_num t v sp ts prev Ht) as H. cbn [fits] in H.
  rewrite signed_fits_fits_s in H by lia. unfold op_result in H. rewrite Hf in H. exact H.
Qed.
Lemma p_pcoff_num' n t v sp ts prev : 1 <= n <= 16 -> num_tok t v -> fits_s n v = true ->
  p_pcoff n ((t, sp) :: ts, prev) = POk (POff v, (ts, sp)).
Proof.
  intros Hn Ht Hf. pose proof (p_pcoff_num n t v sp ts prev Hn Ht) as H.
  rewrite signed_fits_fits_s in H by lia. unfold op_result in H. rewrite Hf in H. exact H.
Qed.
Lemma p_off_s_num' n t v sp ts prev : 1 <= n <= 16 -> num_tok t v -> fits_s n v = true ->
  p_off (conv_s n) ((t, sp) :: ts, prev) = POk (v, (ts, sp)).
Proof.
  intros Hn Ht Hf. pose proof (p_off_s_num n t v sp ts prev Hn Ht) as H.
  rewrite signed_fits_fits_s in H by lia. unfold op_result in H. rewrite Hf in H. exact H.
Qed.
Lemma p_off_u_num' n t v sp ts prev : 1 <= n <= 16 -> num_tok t v -> fits_u n v = true ->
  p_off (conv_u n) ((t, sp) :: ts, prev) = POk (v, (ts, sp)).
Proof.
  intros Hn Ht Hf. pose proof (p_off_u_num n t v sp ts prev Hn Ht) as H.
  rewrite unsigned_fits_fits_u in H by lia. unfold op_result in H. rewrite Hf in H. exact H.
Qed.

(* which keyword spells which instruction *)
Definition br_cc (k : kw) : option Z :=
  match k with
  | KBR => Some 7 | KBRP => Some 1 | KBRZ => Some 2 | KBRZP => Some 3 | KBRN => Some 4
  | KBRNP => Some 5 | KBRNZ => Some 6 | KBRNZP => Some 7 | _ => None
  end.
Definition instr_kw_ok (i : asm_instr) (k : kw) : bool :=
  match i, k with
  | AADD _ _ _, KADD | AAND _ _ _, KAND | AJMP _, KJMP | AJSR _, KJSR | AJSRR _, KJSRR | ALD _ _, KLD
  | ALDI _ _, KLDI | ALDR _ _ _, KLDR | ALEA _ _, KLEA | ANOT _ _, KNOT | ARET, KRET | ARTI, KRTI
  | AST _ _, KST | ASTI _ _, KSTI | ASTR _ _ _, KSTR | ATRAP _, KTRAP | ANOP _, KNOP
  | AGETC, KGETC | AOUT, KOUT | APUTC, KPUTC | APUTS, KPUTS | AIN, KIN | APUTSP, KPUTSP | AHALT, KHALT => true
  | ABR cc _, k => match br_cc k with Some c => c =? cc | None => false end
  | _, _ => false
  end.

(* the operand tokens of an instruction; [nt] is the numeric token written for its numeric operand
   (either signedness), [bare] says that NOP was written without operand *)
Definition pc_tok (o : pcoff) (nt : token) : token :=
  match o with POff _ => nt | PLab l => TIdent (ILabel (l_name l)) end.
Definition instr_ops (i : asm_instr) (nt : token) (bare : bool) : list token :=
  match i with
  | AADD dr sr o | AAND dr sr o =>
      [TReg dr; TComma; TReg sr; TComma; match o with Imm _ => nt | RegOp r => TReg r end]
  | ABR _ o | AJSR o => [pc_tok o nt]
  | AJMP r | AJSRR r => [TReg r]
  | ALD r o | ALDI r o | ALEA r o | AST r o | ASTI r o => [TReg r; TComma; pc_tok o nt]
  | ALDR a b _ | ASTR a b _ => [TReg a; TComma; TReg b; TComma; nt]
  | ANOT a b => [TReg a; TComma; TReg b]
  | ATRAP _ => [nt]
  | ANOP o => if bare then [] else [pc_tok o nt]
  | _ => []
  end.
(* the value the numeric token must denote *)
Definition instr_num (i : asm_instr) : option Z :=
  match i with
  | AADD _ _ (Imm v) | AAND _ _ (Imm v) => Some v
  | ABR _ (POff v) | AJSR (POff v) | ALD _ (POff v) | ALDI _ (POff v) | ALEA _ (POff v)
  | AST _ (POff v) | ASTI _ (POff v) | ANOP (POff v) => Some v
  | ALDR _ _ v | ASTR _ _ v | ATRAP v => Some v
  | _ => None
  end.
Definition bare_ok (i : asm_instr) (bare : bool) : Prop :=
  bare = true -> i = ANOP (POff 0).

(* labels as operands sit where their token is *)
Definition reloc_pcoff (o : pcoff) (sp : span) : pcoff :=
  match o with POff v => POff v | PLab l => PLab (mkLabel (l_name l) (fst sp)) end.
Definition reloc_instr (i : asm_instr) (sp : span) : asm_instr :=
  match i with
  | ABR cc o => ABR cc (reloc_pcoff o sp) | AJSR o => AJSR (reloc_pcoff o sp)
  | ALD r o => ALD r (reloc_pcoff o sp) | ALDI r o => ALDI r (reloc_pcoff o sp) | ALEA r o => ALEA r (reloc_pcoff o sp)
  | AST r o => AST r (reloc_pcoff o sp) | ASTI r o => ASTI r (reloc_pcoff o sp) | ANOP o => ANOP (reloc_pcoff o sp)
  | _ => i
  end.

(* after a NOP written without operand the next token is not a number or a label *)
Definition not_operand (rest : list tok) : Prop :=
  match rest with
  | (TUnsigned _, _) :: _ | (TSigned _, _) :: _ | (TIdent (ILabel _), _) :: _ => False
  | _ => True
  end.

Ltac dspans spans Hlen :=
  cbn [length] in Hlen;
  repeat (destruct spans as [|? spans]; [discriminate Hlen|]);
  destruct spans; [|discriminate Hlen]; clear Hlen.

Ltac run_gen :=
  repeat first
    [ rewrite p_reg_comma_tok by assumption
    | rewrite p_reg_tok by assumption
    | erewrite p_ior_num' by eassumption
    | rewrite p_ior_reg by assumption
    | erewrite p_pcoff_num' by (try lia; eassumption)
    | rewrite p_pcoff_lab
    | erewrite p_off_s_num' by (try lia; eassumption)
    | erewrite p_off_u_num' by (try lia; eassumption)
    | (rewrite pbind_ok; cbn beta iota) ].

Lemma instr_parse_gen i k nt bare ksp spans rest prev last :
  instr_okb i = true -> instr_kw_ok i k = true -> bare_ok i bare ->
  (forall v, instr_num i = Some v -> bare = false -> num_tok nt v) ->
  (bare = true -> not_operand rest) ->
  length spans = length (instr_ops i nt bare) ->
  p_nucleus last ((TIdent (IKw k), ksp) :: combine (instr_ops i nt bare) spans ++ rest, prev) =
    POk (NInstr (reloc_instr i (List.last spans ksp)), (rest, List.last spans ksp)).
Proof.
  intros Hok Hkw Hbare Hnt Hrest Hlen.
  destruct i; cbn [instr_okb] in Hok; split_andb;
    destruct k; try discriminate Hkw;
    try (cbn [instr_kw_ok br_cc] in Hkw; apply Z.eqb_eq in Hkw; subst cc); try clear Hkw;
    try destruct o; cbn [ior_okb pcoff_okb instr_ops pc_tok instr_num] in *;
    try (destruct bare; [specialize (Hbare eq_refl); try discriminate Hbare|]);
    try (assert (Hn : num_tok nt v) by (apply Hnt; reflexivity));
    try (assert (Hn : num_tok nt off) by (apply Hnt; reflexivity));
    try (assert (Hn : num_tok nt vect) by (apply Hnt; reflexivity));
    dspans spans Hlen;
    cbn [combine app List.last p_nucleus fst snd p_operands reloc_instr reloc_pcoff]; unfold p_br;
    run_gen; try reflexivity.
  - (* NOP without operand *)
    injection Hbare as ->. specialize (Hrest eq_refl).
    destruct rest as [|[t sp] rest']; [reflexivity|].
    destruct t; try reflexivity; try contradiction. destruct i; [reflexivity|contradiction].
  - (* NOP with a numeric operand: the parser looks at the token first *)
    destruct Hn as [[-> _]|[-> _]]; reflexivity.
Qed.

(* ---------- directives ---------- *)
Definition dir_ops (d : directive) (nt : token) : list token :=
  match d with
  | DOrig _ | DBlkw _ => [nt]
  | DFill (POff _) => [nt]
  | DFill (PLab l) => [TIdent (ILabel (l_name l))]
  | DStringz s => [TString s]
  | DEnd => []
  | DExternal l => [TIdent (ILabel (l_name l))]
  end.
Definition dir_index (d : directive) : Z :=
  match d with DOrig _ => 0 | DFill _ => 1 | DBlkw _ => 2 | DStringz _ => 3 | DEnd => 4 | DExternal _ => 5 end.
(* the numeric token denotes the operand; .fill stores the written value modulo 2^16 *)
Definition dir_num_ok (d : directive) (nt : token) : Prop :=
  match d with
  | DOrig a => num_tok nt a
  | DBlkw n => num_tok nt n
  | DFill (POff v) => exists w, num_tok nt w /\ v = w mod 65536
  | _ => True
  end.
Definition reloc_dir (d : directive) (sp : span) : directive :=
  match d with
  | DFill o => DFill (reloc_pcoff o sp)
  | DExternal l => DExternal (mkLabel (l_name l) (fst sp))
  | _ => d
  end.

Ltac rew_dir H :=
  match type of H with _ = ?r =>
    match goal with |- context [p_directive ?a ?b ?c] => replace (p_directive a b c) with r by (symmetry; exact H) end
  end.

Lemma directive_parse_gen d name nt dsp spans rest prev last :
  directive_okb d = true -> assoc_str (kw_upper name) dir_names = Some (dir_index d) -> dir_num_ok d nt ->
  length spans = length (dir_ops d nt) ->
  p_nucleus last ((TDirective name, dsp) :: combine (dir_ops d nt) spans ++ rest, prev) =
    POk (NDir (reloc_dir d (List.last spans dsp)), (rest, List.last spans dsp)).
Proof.
  intros Hok Hidx Hnum Hlen.
  destruct d; try destruct o; cbn [directive_okb dir_ops dir_index dir_num_ok] in *; split_andb;
    dspans spans Hlen; cbn [combine app List.last p_nucleus fst snd reloc_dir reloc_pcoff].
  - (* .orig *)
    pose proof (operand_orig name dsp nt addr s rest dsp Hidx Hnum) as H. cbn [fits stored] in H.
    rewrite unsigned_fits_fits_u in H by lia. unfold op_result in H. rewrite Hok in H. rew_dir H. reflexivity.
  - (* .fill number *)
    destruct Hnum as [w [Hw ->]].
    destruct (operand_fill name dsp nt w s rest dsp Hidx Hw) as [_ Hf]. cbn [stored] in Hf. rew_dir Hf. reflexivity.
  - (* .fill label *)
    unfold p_directive. rewrite Hidx. reflexivity.
  - (* .blkw *)
    pose proof (operand_blkw name dsp nt n s rest dsp Hidx Hnum) as Hb. cbn [fits stored] in Hb.
    rewrite unsigned_fits_fits_u in Hb by lia. unfold op_result in Hb.
    match goal with H1 : fits_u 16 n = true, H2 : negb (n =? 0) = true |- _ => rewrite H1, H2 in Hb end.
    cbn [andb] in Hb. rew_dir Hb. reflexivity.
  - (* .stringz *) unfold p_directive. rewrite Hidx. reflexivity.
  - (* .end *) unfold p_directive. rewrite Hidx. reflexivity.
  - (* .external *) unfold p_directive. rewrite Hidx. reflexivity.
Qed.

(* ================= Part 3: statements and programs ================= *)
(* a nucleus written as tokens: [nuc] with [first] its first token; parsing it in any context
   returns [n] and leaves the position after its last token, whose span is [lsp] *)
Definition nucleus_reads (nuc : list tok) (n : nucleus) (lsp : span) : Prop :=
  starts_nucleus nuc /\
  forall rest prev last, not_operand rest ->
    p_nucleus last (nuc ++ rest, prev) = POk (n, (rest, lsp)).

Definition nl_toks (sps : list span) : list tok := map (fun sp => (TNewLine, sp)) sps.

(* a written label: its token, an optional colon, and the line breaks after it *)
Record wlabel := mkWLabel { wl_name : str; wl_sp : span; wl_colon : option span; wl_nls : list span }.
Definition wlabel_toks (w : wlabel) : list tok :=
  (TIdent (ILabel (wl_name w)), wl_sp w)
    :: (match wl_colon w with Some c => [(TColon, c)] | None => [] end) ++ nl_toks (wl_nls w).
Definition wlabel_label (w : wlabel) : label := mkLabel (wl_name w) (fst (wl_sp w)).

Lemma all_nl_cons_false t sp ts : is_newline t = false -> all_nl ((t, sp) :: ts) = false.
Proof. intros H. unfold all_nl. cbn [forallb fst]. rewrite H. reflexivity. Qed.
Lemma all_nl_nl_toks sps ts : all_nl (nl_toks sps ++ ts) = all_nl ts.
Proof. induction sps as [|sp sps IH]; [reflexivity|]. cbn [nl_toks map app]. unfold all_nl in *. cbn [forallb fst is_newline andb]. exact IH. Qed.

Lemma starts_nucleus_not_nl nuc rest : starts_nucleus nuc -> all_nl (nuc ++ rest) = false.
Proof.
  destruct nuc as [|[t sp] nuc]; [contradiction|]. cbn [starts_nucleus app]. destruct t; try contradiction.
  - destruct i; [|contradiction]. intros _. apply all_nl_cons_false. reflexivity.
  - intros _. apply all_nl_cons_false. reflexivity.
Qed.

(* the label loop skips line breaks as long as something other than line breaks follows *)
Lemma skip_labels_nls sps : forall ts prev last, all_nl ts = false ->
  exists prev', skip_labels (nl_toks sps ++ ts) prev last = skip_labels ts prev' last.
Proof.
  induction sps as [|sp sps IH]; intros ts prev last Hts; [exists prev; reflexivity|].
  cbn [nl_toks map app]. fold (nl_toks sps).
  destruct (IH ts sp last Hts) as [prev' H]. exists prev'. rewrite <- H.
  unfold skip_labels at 1; fold skip_labels.
  destruct (all_nl (_ :: _)) eqn:E; [|reflexivity].
  change (all_nl (nl_toks (sp :: sps) ++ ts) = true) in E. rewrite all_nl_nl_toks in E. congruence.
Qed.

Lemma skip_labels_wlabels ws : forall nuc rest prev last, starts_nucleus nuc ->
  exists last' prev',
    skip_labels (flat_map wlabel_toks ws ++ nuc ++ rest) prev last =
      (map wlabel_label ws, last', (nuc ++ rest, prev')).
Proof.
  induction ws as [|w ws IH]; intros nuc rest prev last Hs.
  - cbn [flat_map app map]. exists last, prev. apply skip_labels_stop.
    destruct nuc as [|[t sp] nuc]; [contradiction|]. exact Hs.
  - cbn [flat_map map]. rewrite <- app_assoc. unfold wlabel_toks at 1. cbn [app].
    assert (Hnn : all_nl (flat_map wlabel_toks ws ++ nuc ++ rest) = false).
    { destruct ws as [|w2 ws2]; [cbn [flat_map app]; apply starts_nucleus_not_nl; exact Hs|]. reflexivity. }
    destruct (wl_colon w) as [c|]; cbn [app].
    + (* label, colon, line breaks *)
      destruct (skip_labels_nls (wl_nls w) (flat_map wlabel_toks ws ++ nuc ++ rest) c (Some (wl_sp w)) Hnn) as [pv Hnl].
      destruct (IH nuc rest pv (Some (wl_sp w)) Hs) as [last' [prev' H]].
      exists last', prev'. unfold skip_labels at 1; fold skip_labels.
      rewrite all_nl_cons_false by reflexivity. rewrite Hnl, H. reflexivity.
    + destruct (skip_labels_nls (wl_nls w) (flat_map wlabel_toks ws ++ nuc ++ rest) (wl_sp w) (Some (wl_sp w)) Hnn) as [pv Hnl].
      destruct (IH nuc rest pv (Some (wl_sp w)) Hs) as [last' [prev' H]].
      exists last', prev'. rewrite skip_labels_label.
      * rewrite Hnl, H. reflexivity.
      * (* what follows the label is a line break, a label or the nucleus: not a colon *)
        destruct (wl_nls w) as [|sp sps]; cbn [nl_toks map app]; [|exact Logic.I].
        destruct ws as [|w2 ws2]; cbn [flat_map app]; [|exact Logic.I].
        destruct nuc as [|[t sp] nuc]; [contradiction|]. cbn [starts_nucleus app] in Hs |- *. destruct t; try contradiction; exact Logic.I.
Qed.

(* a written statement: labels, nucleus tokens, the line breaks that end it *)
Record wstmt := mkWStmt {
  ws_labels : list wlabel; ws_nuc : list tok; ws_n : nucleus; ws_start : Z; ws_lsp : span; ws_post : list span }.
Definition wstmt_toks (w : wstmt) : list tok :=
  flat_map wlabel_toks (ws_labels w) ++ ws_nuc w ++ nl_toks (ws_post w).
Definition wstmt_stmt (w : wstmt) : stmt :=
  mkStmt (map wlabel_label (ws_labels w)) (ws_n w) (ws_start w) (snd (ws_lsp w)).
Definition wstmt_ok (w : wstmt) : Prop :=
  nucleus_reads (ws_nuc w) (ws_n w) (ws_lsp w) /\
  match ws_nuc w with (_, sp) :: _ => ws_start w = fst sp | [] => False end.

Lemma skip_nl_nls sps : forall ts prev, all_nl ts = false -> (match ts with (TNewLine, _) :: _ => False | _ => True end) ->
  exists prev', skip_nl (nl_toks sps ++ ts) prev = (ts, prev').
Proof.
  induction sps as [|sp sps IH]; intros ts prev Hts Hh.
  - cbn [nl_toks map app]. exists prev. destruct ts as [|[t s] ts]; [discriminate Hts|].
    unfold skip_nl; fold skip_nl. rewrite Hts. destruct t; try reflexivity. contradiction.
  - cbn [nl_toks map app]. fold (nl_toks sps). destruct (IH ts sp Hts Hh) as [prev' H]. exists prev'.
    unfold skip_nl at 1; fold skip_nl.
    destruct (all_nl (_ :: _)) eqn:E; [|exact H].
    change (all_nl (nl_toks (sp :: sps) ++ ts) = true) in E. rewrite all_nl_nl_toks in E. congruence.
Qed.

Lemma not_operand_nl sps ts : not_operand (nl_toks sps ++ ts) \/ sps = [].
Proof. destruct sps; [right; reflexivity|left; exact Logic.I]. Qed.

(* a statement followed by further statements: it must end with at least one line break, and
   what follows starts with a label, a keyword or a directive *)
Definition starts_stmt (ts : list tok) : Prop :=
  match ts with
  | (TIdent _, _) :: _ | (TDirective _, _) :: _ => True
  | _ => False
  end.
Lemma starts_stmt_facts ts : starts_stmt ts -> all_nl ts = false /\ match ts with (TNewLine, _) :: _ => False | _ => True end.
Proof.
  destruct ts as [|[t sp] ts]; [contradiction|]. cbn [starts_stmt]. destruct t; try contradiction; intros _;
    (split; [apply all_nl_cons_false; reflexivity|exact Logic.I]).
Qed.

Lemma p_stmt_mid w ts prev : wstmt_ok w -> ws_post w <> [] -> starts_stmt ts ->
  exists prev', p_stmt (wstmt_toks w ++ ts, prev) = POk (wstmt_stmt w, (ts, prev')).
Proof.
  intros [[Hst Hread] Hstart] Hpost Hts. destruct (starts_stmt_facts ts Hts) as [Hnn Hh].
  unfold p_stmt, wstmt_toks. cbn [fst snd]. rewrite <- !app_assoc.
  destruct (skip_labels_wlabels (ws_labels w) (ws_nuc w) (nl_toks (ws_post w) ++ ts) prev None Hst) as [last' [prev' Hsk]].
  rewrite Hsk. cbn [fst snd].
  rewrite Hread by (destruct (ws_post w); [congruence|exact Logic.I]). cbn [pbind].
  destruct (ws_post w) as [|sp sps] eqn:Ep; [congruence|]. cbn [nl_toks map app p_end fst snd pbind]. fold (nl_toks sps).
  destruct (skip_nl_nls sps ts sp Hnn Hh) as [prev'' Hs]. rewrite Hs. exists prev''.
  unfold wstmt_stmt. f_equal. f_equal. f_equal.
  destruct (ws_nuc w) as [|[t s] nuc]; [contradiction|]. cbn [app cursor fst]. symmetry. exact Hstart.
Qed.

Lemma skip_nl_all ts prev : all_nl ts = true -> skip_nl ts prev = (ts, prev).
Proof. destruct ts as [|t ts]; [reflexivity|]. intros H. unfold skip_nl; fold skip_nl. rewrite H. reflexivity. Qed.

(* the last statement: any number of line breaks, then the end of the text *)
Lemma p_stmt_last w prev : wstmt_ok w ->
  exists p', p_stmt (wstmt_toks w, prev) = POk (wstmt_stmt w, p') /\ all_nl (fst p') = true.
Proof.
  intros [[Hst Hread] Hstart].
  unfold p_stmt, wstmt_toks. cbn [fst snd].
  destruct (skip_labels_wlabels (ws_labels w) (ws_nuc w) (nl_toks (ws_post w)) prev None Hst) as [last' [prev' Hsk]].
  rewrite Hsk. cbn [fst snd].
  rewrite Hread by (destruct (ws_post w); exact Logic.I). cbn [pbind].
  assert (Hstart' : fst (cursor (ws_nuc w ++ nl_toks (ws_post w)) prev') = ws_start w).
  { destruct (ws_nuc w) as [|[t s] nuc]; [contradiction|]. cbn [app cursor fst]. symmetry. exact Hstart. }
  assert (Hall : forall sps, all_nl (nl_toks sps) = true).
  { intros sps. rewrite <- (app_nil_r (nl_toks sps)). rewrite all_nl_nl_toks. reflexivity. }
  destruct (ws_post w) as [|sp sps] eqn:Ep; cbn [nl_toks map app p_end fst snd pbind]; try fold (nl_toks sps).
  - eexists. split.
    + unfold wstmt_stmt. cbn [nl_toks map] in Hstart'. rewrite Hstart'. reflexivity.
    + reflexivity.
  - assert (Hsk2 : skip_nl (nl_toks sps) sp = (nl_toks sps, sp)).
    { apply skip_nl_all. apply Hall. }
    rewrite Hsk2. eexists. split.
    + unfold wstmt_stmt.
      change ((TNewLine, sp) :: nl_toks sps) with (nl_toks (sp :: sps)). rewrite Hstart'. reflexivity.
    + apply Hall.
Qed.

(* programs: every statement but the last ends with a line break *)
Fixpoint prog_toks (ws : list wstmt) : list tok :=
  match ws with [] => [] | w :: r => wstmt_toks w ++ prog_toks r end.
Fixpoint prog_ok (ws : list wstmt) : Prop :=
  match ws with
  | [] => True
  | [w] => wstmt_ok w
  | w :: r => wstmt_ok w /\ ws_post w <> [] /\ prog_ok r
  end.

Lemma wstmt_toks_starts w rest : wstmt_ok w -> starts_stmt (wstmt_toks w ++ rest).
Proof.
  intros [[Hst _] _]. unfold wstmt_toks. destruct (ws_labels w) as [|l ls]; cbn [flat_map app].
  - destruct (ws_nuc w) as [|[t sp] nuc]; [contradiction|]. cbn [starts_nucleus app starts_stmt] in *.
    destruct t; try contradiction; exact Logic.I.
  - exact Logic.I.
Qed.

Lemma wstmt_toks_not_nl w rest : wstmt_ok w -> all_nl (wstmt_toks w ++ rest) = false.
Proof. intros H. apply (starts_stmt_facts _ (wstmt_toks_starts w rest H)). Qed.

Lemma wstmt_toks_len w : wstmt_ok w -> (1 <= length (wstmt_toks w))%nat.
Proof.
  intros [[Hst _] _]. unfold wstmt_toks. rewrite !app_length.
  destruct (ws_nuc w) as [|t nuc]; [contradiction|]. cbn [length]. lia.
Qed.

Lemma p_stmts_all_nl f p : all_nl (fst p) = true -> p_stmts f p = POk [].
Proof. intros H. destruct f; cbn [p_stmts]; rewrite H; reflexivity. Qed.

Theorem p_stmts_program : forall ws f prev, prog_ok ws -> (length (prog_toks ws) < f)%nat ->
  p_stmts f (prog_toks ws, prev) = POk (map wstmt_stmt ws).
Proof.
  induction ws as [|w r IH]; intros f prev Hok Hf.
  - cbn [prog_toks map]. apply p_stmts_all_nl. reflexivity.
  - destruct f as [|f]; [lia|]. cbn [p_stmts fst prog_toks].
    destruct r as [|w2 r2].
    + cbn [prog_toks prog_ok] in *. rewrite app_nil_r in *.
      pose proof (wstmt_toks_not_nl w [] Hok) as Hn. rewrite app_nil_r in Hn. rewrite Hn.
      destruct (p_stmt_last w prev Hok) as [p' [H1 H2]]. rewrite H1. cbn [pbind].
      rewrite p_stmts_all_nl by exact H2. reflexivity.
    + cbn [prog_ok] in Hok. destruct Hok as [Hw [Hpost Hr]].
      rewrite wstmt_toks_not_nl by exact Hw.
      assert (Hs2 : starts_stmt (prog_toks (w2 :: r2))).
      { cbn [prog_toks]. apply wstmt_toks_starts. destruct r2; [exact Hr|apply Hr]. }
      destruct (p_stmt_mid w (prog_toks (w2 :: r2)) prev Hw Hpost Hs2) as [prev' H1]. rewrite H1. cbn [pbind].
      rewrite IH; [reflexivity|exact Hr|].
      cbn [prog_toks] in Hf. rewrite app_length in Hf. pose proof (wstmt_toks_len w Hw). cbn [prog_toks]. lia.
Qed.

(* line breaks before the first statement *)
Lemma p_stmt_lead sps ts prev : all_nl ts = false ->
  exists prev', p_stmt (nl_toks sps ++ ts, prev) = p_stmt (ts, prev').
Proof.
  intros Hts. destruct (skip_labels_nls sps ts prev None Hts) as [prev' H]. exists prev'.
  unfold p_stmt. cbn [fst snd]. rewrite H. reflexivity.
Qed.

(* ================= Part 4: composition ================= *)
Lemma nucleus_reads_instr i k nt bare ksp spans :
  instr_okb i = true -> instr_kw_ok i k = true -> bare_ok i bare ->
  (forall v, instr_num i = Some v -> bare = false -> num_tok nt v) ->
  length spans = length (instr_ops i nt bare) ->
  nucleus_reads ((TIdent (IKw k), ksp) :: combine (instr_ops i nt bare) spans)
                (NInstr (reloc_instr i (List.last spans ksp))) (List.last spans ksp).
Proof.
  intros H1 H2 H3 H4 H5. split; [exact Logic.I|]. intros rest prev last Hr.
  cbn [app]. apply instr_parse_gen; try assumption. intros _. exact Hr.
Qed.

Lemma nucleus_reads_directive d name nt dsp spans :
  directive_okb d = true -> assoc_str (kw_upper name) dir_names = Some (dir_index d) -> dir_num_ok d nt ->
  length spans = length (dir_ops d nt) ->
  nucleus_reads ((TDirective name, dsp) :: combine (dir_ops d nt) spans)
                (NDir (reloc_dir d (List.last spans dsp))) (List.last spans dsp).
Proof.
  intros H1 H2 H3 H4. split; [exact Logic.I|]. intros rest prev last _.
  cbn [app]. apply directive_parse_gen; assumption.
Qed.

Lemma p_stmts_lead f sps ts prev : all_nl ts = false ->
  exists prev', p_stmts (S f) (nl_toks sps ++ ts, prev) = p_stmts (S f) (ts, prev').
Proof.
  intros Hts. destruct (p_stmt_lead sps ts prev Hts) as [prev' H]. exists prev'.
  cbn [p_stmts fst]. rewrite all_nl_nl_toks, Hts, H. reflexivity.
Qed.

Lemma prog_toks_not_nl ws : ws <> [] -> prog_ok ws -> all_nl (prog_toks ws) = false.
Proof.
  destruct ws as [|w r]; [congruence|]. intros _ Hok. cbn [prog_toks]. apply wstmt_toks_not_nl.
  destruct r; [exact Hok|apply Hok].
Qed.

(* the text of the pieces parses to the written statements: every statement has the labels at the
   offsets of their texts and the span from the first to the last token of its nucleus *)
Theorem parse_layout ps lead ws : pieces_ok ps ->
  filter (fun t : tok => negb (is_comment (fst t))) (toks_of 0 ps) = nl_toks lead ++ prog_toks ws ->
  prog_ok ws ->
  parse_ast (text_of ps) = POk (map wstmt_stmt ws).
Proof.
  intros Hps Htoks Hok. unfold parse_ast, parse_ast_with. rewrite lex_with_at, lex_pieces by exact Hps.
  unfold parse_tokens.
  match goal with |- context [filter ?f (toks_of 0 ps)] =>
    replace (filter f (toks_of 0 ps)) with (nl_toks lead ++ prog_toks ws) by (symmetry; exact Htoks) end.
  destruct ws as [|w r].
  - cbn [prog_toks map]. rewrite app_nil_r. apply p_stmts_all_nl. cbn [fst].
    rewrite <- (app_nil_r (nl_toks lead)). rewrite all_nl_nl_toks. reflexivity.
  - destruct (p_stmts_lead (length (nl_toks lead ++ prog_toks (w :: r))) lead (prog_toks (w :: r)) (0, 0)) as [prev' H].
    { apply prog_toks_not_nl; [discriminate|exact Hok]. }
    etransitivity; [exact H|]. apply p_stmts_program; [exact Hok|]. rewrite app_length. lia.
Qed.

(* two layouts of the same written program give the same statements up to source positions *)
Theorem parse_layout_shape ps1 lead1 ws1 ps2 lead2 ws2 :
  pieces_ok ps1 -> filter (fun t : tok => negb (is_comment (fst t))) (toks_of 0 ps1) = nl_toks lead1 ++ prog_toks ws1 -> prog_ok ws1 ->
  pieces_ok ps2 -> filter (fun t : tok => negb (is_comment (fst t))) (toks_of 0 ps2) = nl_toks lead2 ++ prog_toks ws2 -> prog_ok ws2 ->
  map (fun w => shape_stmt (wstmt_stmt w)) ws1 = map (fun w => shape_stmt (wstmt_stmt w)) ws2 ->
  exists l1 l2, parse_ast (text_of ps1) = POk l1 /\ parse_ast (text_of ps2) = POk l2 /\ map shape_stmt l1 = map shape_stmt l2.
Proof.
  intros A1 A2 A3 B1 B2 B3 Hs. exists (map wstmt_stmt ws1), (map wstmt_stmt ws2).
  split; [apply (parse_layout ps1 lead1); assumption|]. split; [apply (parse_layout ps2 lead2); assumption|].
  rewrite !map_map. exact Hs.
Qed.
