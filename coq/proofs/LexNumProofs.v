(* LexNumProofs.v — C05: numeric and register tokens denote exactly their written value, for
   digit strings of any length (hence for every integer and every number of leading zeros), and
   an operand is accepted exactly when its value fits the field. *)
From Coq Require Import ZArith List Bool Lia.
From Model Require Import Tree Text Bits Offset Instr AsmAst Lexer Parser Print.
From Spec Require Import Numerals.
From Proofs Require Import LexerProofs LexStepProofs OffsetProofs.
Import ListNotations.
Open Scope Z_scope.

(* ---------- digit characters ---------- *)
Lemma dec_digit_is_digit c : dec_digit c -> is_digit c = true.
Proof. intros H. apply is_digit_bounds. exact H. Qed.

Lemma hex_digit_cases c : hex_digit c -> is_digit c = true \/ is_hex_letter c = true.
Proof.
  unfold hex_digit, is_hex_letter. intros [H|[H|H]].
  - left. apply is_digit_bounds. exact H.
  - right. replace (65 <=? c) with true by (symmetry; apply Z.leb_le; lia).
    replace (c <=? 70) with true by (symmetry; apply Z.leb_le; lia). reflexivity.
  - right. replace (97 <=? c) with true by (symmetry; apply Z.leb_le; lia).
    replace (c <=? 102) with true by (symmetry; apply Z.leb_le; lia). apply orb_true_r.
Qed.
Lemma hex_digit_word c : hex_digit c -> is_word c = true.
Proof. intros H. destruct (hex_digit_cases c H); [apply is_digit_word|apply hex_letter_word]; assumption. Qed.
Lemma dec_hex c : dec_digit c -> hex_digit c.
Proof. unfold dec_digit, hex_digit. lia. Qed.

Lemma Forall_word ds : Forall hex_digit ds -> forallb is_word ds = true.
Proof.
  induction 1 as [|c ds Hc _ IH]; [reflexivity|]. cbn [forallb]. rewrite (hex_digit_word c Hc), IH. reflexivity.
Qed.
Lemma Forall_dec_hex ds : Forall dec_digit ds -> Forall hex_digit ds.
Proof. intros H. eapply Forall_impl; [|exact H]. apply dec_hex. Qed.
Lemma Forall_is_digit ds : Forall dec_digit ds -> forallb is_digit ds = true.
Proof.
  induction 1 as [|c ds Hc _ IH]; [reflexivity|]. cbn [forallb]. rewrite (dec_digit_is_digit c Hc), IH. reflexivity.
Qed.

(* to_digit on digit characters *)
Lemma to_digit_dec c : dec_digit c -> to_digit 10 c = Some (digit_value c) /\ 0 <= digit_value c < 10.
Proof.
  unfold dec_digit. intros H. unfold to_digit, digit_value.
  rewrite (proj2 (is_digit_bounds c)) by lia.
  replace (c <=? 57) with true by (symmetry; apply Z.leb_le; lia).
  replace (c - 48 <? 10) with true by (symmetry; apply Z.ltb_lt; lia). split; [reflexivity|lia].
Qed.
Lemma to_digit_hex c : hex_digit c -> to_digit 16 c = Some (digit_value c) /\ 0 <= digit_value c < 16.
Proof.
  unfold hex_digit. intros H. unfold to_digit, digit_value, is_digit, is_lower, is_upper.
  destruct H as [H|[H|H]].
  - replace (48 <=? c) with true by (symmetry; apply Z.leb_le; lia).
    replace (c <=? 57) with true by (symmetry; apply Z.leb_le; lia). cbn [andb].
    replace (c - 48 <? 16) with true by (symmetry; apply Z.ltb_lt; lia). split; [reflexivity|lia].
  - replace (c <=? 57) with false by (symmetry; apply Z.leb_gt; lia). rewrite andb_false_r.
    replace (97 <=? c) with false by (symmetry; apply Z.leb_gt; lia). cbn [andb].
    replace (65 <=? c) with true by (symmetry; apply Z.leb_le; lia).
    replace (c <=? 90) with true by (symmetry; apply Z.leb_le; lia). cbn [andb].
    replace (c <=? 70) with true by (symmetry; apply Z.leb_le; lia).
    replace (c - 55 <? 16) with true by (symmetry; apply Z.ltb_lt; lia). split; [reflexivity|lia].
  - replace (c <=? 57) with false by (symmetry; apply Z.leb_gt; lia). rewrite andb_false_r.
    replace (97 <=? c) with true by (symmetry; apply Z.leb_le; lia).
    replace (c <=? 122) with true by (symmetry; apply Z.leb_le; lia). cbn [andb].
    replace (c <=? 70) with false by (symmetry; apply Z.leb_gt; lia).
    replace (c - 87 <? 16) with true by (symmetry; apply Z.ltb_lt; lia). split; [reflexivity|lia].
Qed.

(* ---------- the digit loops compute the positional value or report overflow ---------- *)
Definition valid_digits (radix : Z) (ds : str) : Prop :=
  Forall (fun c => to_digit radix c = Some (digit_value c) /\ 0 <= digit_value c < radix) ds.

Lemma valid_dec ds : Forall dec_digit ds -> valid_digits 10 ds.
Proof. intros H. eapply Forall_impl; [|exact H]. apply to_digit_dec. Qed.
Lemma valid_hex ds : Forall hex_digit ds -> valid_digits 16 ds.
Proof. intros H. eapply Forall_impl; [|exact H]. apply to_digit_hex. Qed.

Lemma numeral_value_ge radix ds : 1 <= radix -> valid_digits radix ds ->
  forall acc, 0 <= acc -> acc <= numeral_value radix acc ds.
Proof.
  intros Hr. induction 1 as [|c ds [_ Hc] _ IH]; intros acc Ha; cbn [numeral_value]; [lia|].
  assert (H1 : acc <= acc * radix + digit_value c) by nia.
  specialize (IH (acc * radix + digit_value c) ltac:(lia)). lia.
Qed.

Lemma pi_pos_value radix hi ds : 1 <= radix -> valid_digits radix ds ->
  forall acc, 0 <= acc <= hi ->
  pi_pos radix hi acc ds =
    if numeral_value radix acc ds <=? hi then IOk (numeral_value radix acc ds) else IPosOverflow.
Proof.
  intros Hr. induction 1 as [|c ds [Hd Hc] Hds IH]; intros acc Ha; cbn [pi_pos numeral_value].
  - replace (acc <=? hi) with true by (symmetry; apply Z.leb_le; lia). reflexivity.
  - rewrite Hd.
    assert (Hge : acc * radix + digit_value c <= numeral_value radix (acc * radix + digit_value c) ds).
    { apply numeral_value_ge; [exact Hr|exact Hds|nia]. }
    destruct (acc * radix >? hi) eqn:E1.
    { apply Z.gtb_lt in E1. replace (numeral_value radix (acc * radix + digit_value c) ds <=? hi) with false; [reflexivity|].
      symmetry. apply Z.leb_gt. lia. }
    destruct (acc * radix + digit_value c >? hi) eqn:E2.
    { apply Z.gtb_lt in E2. replace (numeral_value radix (acc * radix + digit_value c) ds <=? hi) with false; [reflexivity|].
      symmetry. apply Z.leb_gt. lia. }
    apply IH. rewrite Z.gtb_ltb in E1, E2. apply Z.ltb_ge in E1. apply Z.ltb_ge in E2. nia.
Qed.

(* the negative loop accumulates the negated value *)
Lemma pi_neg_value radix lo ds : 1 <= radix -> valid_digits radix ds ->
  forall acc, lo <= acc <= 0 ->
  pi_neg radix lo acc ds =
    if lo <=? - numeral_value radix (- acc) ds then IOk (- numeral_value radix (- acc) ds) else INegOverflow.
Proof.
  intros Hr. induction 1 as [|c ds [Hd Hc] Hds IH]; intros acc Ha; cbn [pi_neg numeral_value].
  - rewrite Z.opp_involutive. replace (lo <=? acc) with true by (symmetry; apply Z.leb_le; lia). reflexivity.
  - rewrite Hd.
    assert (Hge : - acc * radix + digit_value c <= numeral_value radix (- acc * radix + digit_value c) ds).
    { apply numeral_value_ge; [exact Hr|exact Hds|nia]. }
    destruct (acc * radix <? lo) eqn:E1.
    { apply Z.ltb_lt in E1. replace (lo <=? - numeral_value radix (- acc * radix + digit_value c) ds) with false; [reflexivity|].
      symmetry. apply Z.leb_gt. lia. }
    destruct (acc * radix - digit_value c <? lo) eqn:E2.
    { apply Z.ltb_lt in E2. replace (lo <=? - numeral_value radix (- acc * radix + digit_value c) ds) with false; [reflexivity|].
      symmetry. apply Z.leb_gt. lia. }
    apply Z.ltb_ge in E1. apply Z.ltb_ge in E2.
    rewrite IH by nia. replace (- (acc * radix - digit_value c)) with (- acc * radix + digit_value c) by lia. reflexivity.
Qed.

(* parse_int on a non-empty digit string, unsigned reading and '-' reading *)
Lemma not_sign_dec c : hex_digit c -> c <> 43 /\ c <> 45.
Proof. unfold hex_digit. lia. Qed.

Lemma parse_pos radix lo hi c ds : 1 <= radix -> hex_digit c -> valid_digits radix (c :: ds) -> 0 <= hi ->
  parse_int radix lo hi (c :: ds) =
    if value_of radix (c :: ds) <=? hi then IOk (value_of radix (c :: ds)) else IPosOverflow.
Proof.
  intros Hr Hc Hv Hhi. destruct (not_sign_dec c Hc) as [H43 H45]. unfold parse_int.
  replace (c =? 43) with false by (symmetry; apply Z.eqb_neq; exact H43).
  replace (c =? 45) with false by (symmetry; apply Z.eqb_neq; exact H45). cbn [orb andb].
  unfold value_of. apply pi_pos_value; [exact Hr|exact Hv|lia].
Qed.

Lemma parse_neg radix lo hi ds : 1 <= radix -> ds <> [] -> valid_digits radix ds -> lo < 0 ->
  parse_int radix lo hi (45 :: ds) =
    if lo <=? - value_of radix ds then IOk (- value_of radix ds) else INegOverflow.
Proof.
  intros Hr Hne Hv Hlo. unfold parse_int. cbn [Z.eqb Pos.eqb orb andb].
  destruct ds as [|d ds]; [congruence|]. cbn [is_nil].
  replace (lo <? 0) with true by (symmetry; apply Z.ltb_lt; exact Hlo).
  unfold value_of. rewrite (pi_neg_value radix lo (d :: ds) Hr Hv 0) by lia. reflexivity.
Qed.

(* ---------- token callbacks on well-formed numerals ---------- *)
Definition unsigned_result (v : Z) : step_res :=
  if v <=? 65535 then SOk (TUnsigned v) else SErr DoesNotFitU16.
Definition signed_result (v : Z) : step_res :=        (* v = the magnitude after the '-' *)
  if v <=? 32768 then SOk (TSigned (- v)) else SErr DoesNotFitI16.

Lemma lex_unsigned_dec_digits c ds : Forall dec_digit (c :: ds) ->
  lex_unsigned_dec (c :: ds) = unsigned_result (value_of 10 (c :: ds)).
Proof.
  intros H. unfold lex_unsigned_dec, strip_hash.
  assert (Hc : dec_digit c) by (inversion H; assumption).
  replace (c =? 35) with false by (symmetry; apply Z.eqb_neq; unfold dec_digit in Hc; lia).
  unfold parse_u16. rewrite parse_pos; [|lia|apply dec_hex; exact Hc|apply valid_dec; exact H|lia].
  unfold unsigned_result. destruct (value_of 10 (c :: ds) <=? 65535); reflexivity.
Qed.
Lemma lex_unsigned_hash_digits c ds : Forall dec_digit (c :: ds) ->
  lex_unsigned_dec (35 :: c :: ds) = unsigned_result (value_of 10 (c :: ds)).
Proof.
  intros H. unfold lex_unsigned_dec, strip_hash. cbn [Z.eqb Pos.eqb].
  assert (Hc : dec_digit c) by (inversion H; assumption).
  unfold parse_u16. rewrite parse_pos; [|lia|apply dec_hex; exact Hc|apply valid_dec; exact H|lia].
  unfold unsigned_result. destruct (value_of 10 (c :: ds) <=? 65535); reflexivity.
Qed.
Lemma conv_signed inv emp (src : str) radix ds :
  conv_int TSigned (if -32768 <=? - value_of radix ds then IOk (- value_of radix ds) else INegOverflow)
           inv emp DoesNotFitI16 src = signed_result (value_of radix ds).
Proof.
  unfold signed_result. destruct (-32768 <=? - value_of radix ds) eqn:E.
  - apply Z.leb_le in E. replace (value_of radix ds <=? 32768) with true by (symmetry; apply Z.leb_le; lia). reflexivity.
  - apply Z.leb_gt in E. replace (value_of radix ds <=? 32768) with false by (symmetry; apply Z.leb_gt; lia). reflexivity.
Qed.

Lemma lex_signed_dec_digits ds : ds <> [] -> Forall dec_digit ds ->
  lex_signed_dec (45 :: ds) = signed_result (value_of 10 ds).
Proof.
  intros Hne H. unfold lex_signed_dec, strip_hash. cbn [Z.eqb Pos.eqb].
  unfold parse_i16. rewrite parse_neg; [|lia|exact Hne|apply valid_dec; exact H|lia]. apply conv_signed.
Qed.
Lemma lex_signed_hash_digits ds : ds <> [] -> Forall dec_digit ds ->
  lex_signed_dec (35 :: 45 :: ds) = signed_result (value_of 10 ds).
Proof.
  intros Hne H. unfold lex_signed_dec, strip_hash. cbn [Z.eqb Pos.eqb].
  unfold parse_i16. rewrite parse_neg; [|lia|exact Hne|apply valid_dec; exact H|lia]. apply conv_signed.
Qed.
Lemma lex_unsigned_hex_digits x c ds : is_x x = true -> Forall hex_digit (c :: ds) ->
  lex_unsigned_hex (x :: c :: ds) = unsigned_result (value_of 16 (c :: ds)).
Proof.
  intros Hx H. unfold lex_unsigned_hex. rewrite Hx.
  assert (Hc : hex_digit c) by (inversion H; assumption).
  unfold parse_u16. rewrite parse_pos; [|lia|exact Hc|apply valid_hex; exact H|lia].
  unfold unsigned_result. destruct (value_of 16 (c :: ds) <=? 65535); reflexivity.
Qed.
Lemma lex_signed_hex_digits x ds : is_x x = true -> ds <> [] -> Forall hex_digit ds ->
  lex_signed_hex (x :: 45 :: ds) = signed_result (value_of 16 ds).
Proof.
  intros Hx Hne H. unfold lex_signed_hex. rewrite Hx.
  unfold parse_i16. rewrite parse_neg; [|lia|exact Hne|apply valid_hex; exact H|lia]. apply conv_signed.
Qed.

Definition reg_result (v : Z) : step_res := if v <=? 7 then SOk (TReg v) else SErr InvalidReg.
Lemma lex_reg_digits r c ds : is_r r = true -> Forall dec_digit (c :: ds) ->
  lex_reg (r :: c :: ds) = reg_result (value_of 10 (c :: ds)).
Proof.
  intros Hr H. unfold lex_reg.
  pose proof (alpha_ascii r (is_r_alpha r Hr)) as Hlt.
  replace (r <? 128) with true by (symmetry; apply Z.ltb_lt; exact Hlt).
  assert (Hc : dec_digit c) by (inversion H; assumption).
  unfold parse_u8. rewrite parse_pos; [|lia|apply dec_hex; exact Hc|apply valid_dec; exact H|lia].
  unfold reg_result. destruct (value_of 10 (c :: ds) <=? 255) eqn:E.
  - destruct (value_of 10 (c :: ds) <? 8) eqn:E8.
    + apply Z.ltb_lt in E8. replace (value_of 10 (c :: ds) <=? 7) with true by (symmetry; apply Z.leb_le; lia). reflexivity.
    + apply Z.ltb_ge in E8. replace (value_of 10 (c :: ds) <=? 7) with false by (symmetry; apply Z.leb_gt; lia). reflexivity.
  - apply Z.leb_gt in E. replace (value_of 10 (c :: ds) <=? 7) with false by (symmetry; apply Z.leb_gt; lia). reflexivity.
Qed.

(* ---------- whole-input statements: the spelling as a bare token ---------- *)
Definition one_token (res : step_res) (n : Z) : lex_res :=
  match res with
  | SOk t => LexOk [(t, (0, n))]
  | SErr e => LexErr [] e (0, n)
  | SPanic => LexPanic
  end.

Lemma stops_nil p : stops p []. Proof. exact Logic.I. Qed.

Lemma not_blank_digit c : hex_digit c -> is_blank c = false.
Proof. unfold hex_digit, is_blank. intros H. neq_false c 32. neq_false c 9. reflexivity. Qed.

Theorem lex_dec ds : ds <> [] -> Forall dec_digit ds ->
  lex ds = one_token (unsigned_result (value_of 10 ds)) (byte_len ds).
Proof.
  intros Hne H. destruct ds as [|c ds]; [congruence|].
  assert (Hc : dec_digit c) by (inversion H; assumption).
  assert (Hw : forallb is_word ds = true) by (apply Forall_word, Forall_dec_hex; inversion H; assumption).
  rewrite (lex_single c ds (lex_unsigned_dec (c :: ds)) (1 + byte_len ds)).
  - rewrite lex_unsigned_dec_digits by exact H. cbn [byte_len]. rewrite utf8_len_ascii by (unfold dec_digit in Hc; lia). reflexivity.
  - apply not_blank_digit, dec_hex, Hc.
  - rewrite <- (app_nil_r ds) at 1. apply step_digit; [apply dec_digit_is_digit; exact Hc|exact Hw|apply stops_nil].
Qed.

Theorem lex_hash_dec ds : ds <> [] -> Forall dec_digit ds ->
  lex (35 :: ds) = one_token (unsigned_result (value_of 10 ds)) (byte_len (35 :: ds)).
Proof.
  intros Hne H. destruct ds as [|c ds]; [congruence|].
  assert (Hc : dec_digit c) by (inversion H; assumption).
  assert (Hw : forallb is_word (c :: ds) = true) by (apply Forall_word, Forall_dec_hex; exact H).
  rewrite (lex_single 35 (c :: ds) (lex_unsigned_dec (35 :: c :: ds)) (1 + byte_len (c :: ds))).
  - rewrite lex_unsigned_hash_digits by exact H. reflexivity.
  - reflexivity.
  - rewrite <- (app_nil_r ds) at 1. unfold dec_digit in Hc. apply step_hash; [lia|lia|exact Hw|apply stops_nil].
Qed.

Theorem lex_minus_dec ds : ds <> [] -> Forall dec_digit ds ->
  lex (45 :: ds) = one_token (signed_result (value_of 10 ds)) (byte_len (45 :: ds)).
Proof.
  intros Hne H. destruct ds as [|c ds]; [congruence|].
  assert (Hc : dec_digit c) by (inversion H; assumption).
  assert (Hw : forallb is_word (c :: ds) = true) by (apply Forall_word, Forall_dec_hex; exact H).
  rewrite (lex_single 45 (c :: ds) (lex_signed_dec (45 :: c :: ds)) (1 + byte_len (c :: ds))).
  - rewrite lex_signed_dec_digits by (congruence || exact H). reflexivity.
  - reflexivity.
  - rewrite <- (app_nil_r ds) at 1. unfold dec_digit in Hc. apply step_minus; [lia|exact Hw|apply stops_nil].
Qed.

Theorem lex_hash_minus_dec ds : ds <> [] -> Forall dec_digit ds ->
  lex (35 :: 45 :: ds) = one_token (signed_result (value_of 10 ds)) (byte_len (35 :: 45 :: ds)).
Proof.
  intros Hne H.
  assert (Hw : forallb is_word ds = true) by (apply Forall_word, Forall_dec_hex; exact H).
  rewrite (lex_single 35 (45 :: ds) (lex_signed_dec (35 :: 45 :: ds)) (2 + byte_len ds)).
  - rewrite lex_signed_hash_digits by assumption. cbn [byte_len]. change (utf8_len 35) with 1. change (utf8_len 45) with 1.
    replace (1 + (1 + byte_len ds)) with (2 + byte_len ds) by lia. reflexivity.
  - reflexivity.
  - rewrite <- (app_nil_r ds) at 1. apply step_hash_minus; [exact Hw|apply stops_nil].
Qed.

Lemma is_x_not_blank x : is_x x = true -> is_blank x = false.
Proof. unfold is_x. intros H. apply orb_prop in H. destruct H as [H|H]; apply Z.eqb_eq in H; subst; reflexivity. Qed.
Lemma is_x_len x : is_x x = true -> utf8_len x = 1.
Proof. intros H. apply utf8_len_ascii, alpha_ascii, is_x_alpha, H. Qed.

Theorem lex_hex x ds : is_x x = true -> ds <> [] -> Forall hex_digit ds ->
  lex (x :: ds) = one_token (unsigned_result (value_of 16 ds)) (byte_len (x :: ds)).
Proof.
  intros Hx Hne H. destruct ds as [|c ds]; [congruence|].
  assert (Hc : hex_digit c) by (inversion H; assumption).
  assert (Hw : forallb is_word (c :: ds) = true) by (apply Forall_word; exact H).
  rewrite (lex_single x (c :: ds) (lex_unsigned_hex (x :: c :: ds)) (1 + byte_len (c :: ds))).
  - rewrite lex_unsigned_hex_digits by assumption. cbn [byte_len]. rewrite (is_x_len x Hx). reflexivity.
  - apply is_x_not_blank, Hx.
  - rewrite <- (app_nil_r ds) at 1. apply step_x_hex; [exact Hx| | |exact Hw|apply stops_nil].
    + unfold hex_digit in Hc. lia.
    + destruct (hex_digit_cases c Hc) as [Hd|Hd]; [rewrite (is_digit_dec c Hd); reflexivity|rewrite Hd; apply orb_true_r].
Qed.

Theorem lex_hex_minus x ds : is_x x = true -> ds <> [] -> Forall hex_digit ds ->
  lex (x :: 45 :: ds) = one_token (signed_result (value_of 16 ds)) (byte_len (x :: 45 :: ds)).
Proof.
  intros Hx Hne H.
  assert (Hw : forallb is_word ds = true) by (apply Forall_word; exact H).
  rewrite (lex_single x (45 :: ds) (lex_signed_hex (x :: 45 :: ds)) (2 + byte_len ds)).
  - rewrite lex_signed_hex_digits by assumption. cbn [byte_len]. rewrite (is_x_len x Hx).
    change (utf8_len 45) with 1. replace (1 + (1 + byte_len ds)) with (2 + byte_len ds) by lia. reflexivity.
  - apply is_x_not_blank, Hx.
  - rewrite <- (app_nil_r ds) at 1. apply step_x_minus; [exact Hx|exact Hw|apply stops_nil].
Qed.

Theorem lex_register r ds : is_r r = true -> ds <> [] -> Forall dec_digit ds ->
  lex (r :: ds) = one_token (reg_result (value_of 10 ds)) (byte_len (r :: ds)).
Proof.
  intros Hr Hne H. destruct ds as [|c ds]; [congruence|].
  rewrite (lex_single r (c :: ds) (lex_reg (r :: c :: ds)) (1 + byte_len (c :: ds))).
  - rewrite lex_reg_digits by assumption. cbn [byte_len].
    rewrite (utf8_len_ascii r) by (apply alpha_ascii, is_r_alpha, Hr). reflexivity.
  - unfold is_r in Hr. apply orb_prop in Hr. destruct Hr as [E|E]; apply Z.eqb_eq in E; subst; reflexivity.
  - rewrite <- (app_nil_r (c :: ds)) at 1. apply step_reg; [exact Hr|congruence|apply Forall_is_digit; exact H|apply stops_nil].
Qed.

(* ---------- every integer: spelling = leading zeros ++ digits of |v| ---------- *)
Definition evalD (radix : Z) (a : Z) (l : list Z) : Z := fold_left (fun a d => a * radix + d) l a.

Lemma digits_fuel_eval radix : 2 <= radix -> forall f v acc, 0 <= v < 2 ^ (Z.of_nat f + 1) ->
  evalD radix 0 (digits_fuel radix f v acc) = evalD radix v acc.
Proof.
  intros Hr. induction f as [|f IH]; intros v acc Hv.
  - reflexivity.
  - cbn [digits_fuel]. destruct (v <? radix) eqn:E.
    + reflexivity.
    + apply Z.ltb_ge in E. rewrite IH.
      * unfold evalD. cbn [fold_left]. f_equal. rewrite (Z.mul_comm (v / radix) radix). symmetry. apply Z.div_mod. lia.
      * replace (Z.of_nat (S f) + 1) with (Z.succ (Z.of_nat f + 1)) in Hv by lia.
        rewrite Z.pow_succ_r in Hv by lia. split; [apply Z.div_pos; lia|].
        apply Z.div_lt_upper_bound; [lia|]. nia.
Qed.

Lemma digits_fuel_range radix : 2 <= radix -> forall f v acc, 0 <= v < 2 ^ (Z.of_nat f + 1) ->
  Forall (fun d => 0 <= d < radix) acc -> Forall (fun d => 0 <= d < radix) (digits_fuel radix f v acc).
Proof.
  intros Hr. induction f as [|f IH]; intros v acc Hv Ha.
  - cbn [digits_fuel]. change (2 ^ (Z.of_nat 0 + 1)) with 2 in Hv. constructor; [lia|exact Ha].
  - cbn [digits_fuel]. destruct (v <? radix) eqn:E.
    + apply Z.ltb_lt in E. constructor; [lia|exact Ha].
    + apply Z.ltb_ge in E. apply IH.
      * replace (Z.of_nat (S f) + 1) with (Z.succ (Z.of_nat f + 1)) in Hv by lia.
        rewrite Z.pow_succ_r in Hv by lia. split; [apply Z.div_pos; lia|].
        apply Z.div_lt_upper_bound; [lia|]. nia.
      * constructor; [apply Z.mod_pos_bound; lia|exact Ha].
Qed.

Lemma log2_fuel v : 0 <= v -> 0 <= v < 2 ^ (Z.of_nat (Z.to_nat (Z.log2 v)) + 1).
Proof.
  intros Hv. rewrite Z2Nat.id by apply Z.log2_nonneg. destruct (Z.eq_dec v 0) as [->|Hne].
  - cbn. lia.
  - pose proof (Z.log2_spec v ltac:(lia)) as [_ H]. replace (Z.log2 v + 1) with (Z.succ (Z.log2 v)) by lia. lia.
Qed.

Lemma nat_digits_eval radix v : 2 <= radix -> 0 <= v -> evalD radix 0 (nat_digits radix v) = v.
Proof. intros Hr Hv. unfold nat_digits. rewrite digits_fuel_eval by (try apply log2_fuel; lia). reflexivity. Qed.
Lemma nat_digits_range radix v : 2 <= radix -> 0 <= v -> Forall (fun d => 0 <= d < radix) (nat_digits radix v).
Proof. intros Hr Hv. unfold nat_digits. apply digits_fuel_range; [lia|apply log2_fuel; lia|constructor]. Qed.
Lemma digits_fuel_nonempty radix f : forall v acc, digits_fuel radix f v acc <> [].
Proof.
  induction f as [|f IH]; intros v acc; cbn [digits_fuel]; [discriminate|]. destruct (v <? radix); [discriminate|apply IH].
Qed.
Lemma nat_digits_nonempty radix v : nat_digits radix v <> [].
Proof. apply digits_fuel_nonempty. Qed.

(* digit characters of digit values *)
Lemma digit_char_value up d : 0 <= d < 16 -> digit_value (digit_char up d) = d /\ hex_digit (digit_char up d).
Proof.
  intros Hd. unfold digit_char, digit_value, hex_digit. destruct (d <? 10) eqn:E.
  - apply Z.ltb_lt in E. replace (48 + d <=? 57) with true by (symmetry; apply Z.leb_le; lia). lia.
  - apply Z.ltb_ge in E. destruct up.
    + replace (55 + d <=? 57) with false by (symmetry; apply Z.leb_gt; lia).
      replace (55 + d <=? 70) with true by (symmetry; apply Z.leb_le; lia). lia.
    + replace (87 + d <=? 57) with false by (symmetry; apply Z.leb_gt; lia).
      replace (87 + d <=? 70) with false by (symmetry; apply Z.leb_gt; lia). lia.
Qed.
Lemma digit_char_dec up d : 0 <= d < 10 -> dec_digit (digit_char up d).
Proof. intros Hd. unfold digit_char, dec_digit. replace (d <? 10) with true by (symmetry; apply Z.ltb_lt; lia). lia. Qed.

Lemma numeral_value_chars radix up ds : Forall (fun d => 0 <= d < 16) ds ->
  forall a, numeral_value radix a (map (digit_char up) ds) = evalD radix a ds.
Proof.
  induction 1 as [|d ds Hd _ IH]; intros a; cbn [map numeral_value evalD fold_left]; [reflexivity|].
  rewrite (proj1 (digit_char_value up d Hd)). apply IH.
Qed.

Lemma numeral_value_zeros radix n s : numeral_value radix 0 (repeat 48 n ++ s) = numeral_value radix 0 s.
Proof. induction n as [|n IH]; cbn [repeat app numeral_value]; [reflexivity|]. exact IH. Qed.

(* spelling of a magnitude: lz leading zeros, then its digits *)
Definition spell_mag (radix : Z) (up : bool) (lz : nat) (m : Z) : str :=
  repeat 48 lz ++ map (digit_char up) (nat_digits radix m).

Lemma spell_mag_value radix up lz m : 2 <= radix <= 16 -> 0 <= m -> value_of radix (spell_mag radix up lz m) = m.
Proof.
  intros Hr Hm. unfold value_of, spell_mag. rewrite numeral_value_zeros.
  rewrite numeral_value_chars.
  - apply nat_digits_eval; lia.
  - eapply Forall_impl; [|apply (nat_digits_range radix m); lia]. cbn beta. intros. lia.
Qed.
Lemma spell_mag_nonempty radix up lz m : spell_mag radix up lz m <> [].
Proof.
  unfold spell_mag. intros H. apply app_eq_nil in H. destruct H as [_ H]. apply map_eq_nil in H.
  exact (nat_digits_nonempty radix m H).
Qed.
Lemma Forall_app_intro {A} (P : A -> Prop) a b : Forall P a -> Forall P b -> Forall P (a ++ b).
Proof. intros Ha Hb. apply Forall_app. split; assumption. Qed.
Lemma spell_mag_dec up lz m : 0 <= m -> Forall dec_digit (spell_mag 10 up lz m).
Proof.
  intros Hm. unfold spell_mag. apply Forall_app_intro.
  - apply Forall_forall. intros x Hx. apply repeat_spec in Hx. subst. unfold dec_digit. lia.
  - apply Forall_map. eapply Forall_impl; [|apply (nat_digits_range 10 m); lia]. cbn beta. intros d Hd. apply digit_char_dec. exact Hd.
Qed.
Lemma spell_mag_hex up lz m : 0 <= m -> Forall hex_digit (spell_mag 16 up lz m).
Proof.
  intros Hm. unfold spell_mag. apply Forall_app_intro.
  - apply Forall_forall. intros x Hx. apply repeat_spec in Hx. subst. unfold hex_digit. lia.
  - apply Forall_map. eapply Forall_impl; [|apply (nat_digits_range 16 m); lia]. cbn beta. intros d Hd. apply digit_char_value. exact Hd.
Qed.

(* ---------- operands: accepted exactly when the value fits the field ---------- *)
(* numeric tokens as the lexer produces them *)
Definition num_tok (t : token) (v : Z) : Prop :=
  (t = TUnsigned v /\ 0 <= v <= 65535) \/ (t = TSigned v /\ -32768 <= v <= 32767).

Lemma signed_fits_fits_s n v : 1 <= n <= 16 -> signed_fits n v = fits_s n v.
Proof.
  intros Hn. unfold signed_fits, fits_s. f_equal.
  destruct (v <=? 2 ^ (n - 1) - 1) eqn:E1, (v <? 2 ^ (n - 1)) eqn:E2; try reflexivity.
  - apply Z.leb_le in E1. apply Z.ltb_ge in E2. lia.
  - apply Z.leb_gt in E1. apply Z.ltb_lt in E2. lia.
Qed.
Lemma unsigned_fits_fits_u n v : 1 <= n <= 16 -> unsigned_fits n v = fits_u n v.
Proof.
  intros Hn. unfold unsigned_fits, fits_u. f_equal.
  destruct (v <=? 2 ^ n - 1) eqn:E1, (v <? 2 ^ n) eqn:E2; try reflexivity.
  - apply Z.leb_le in E1. apply Z.ltb_ge in E2. lia.
  - apply Z.leb_gt in E1. apply Z.ltb_lt in E2. lia.
Qed.

Lemma fits_s_i16 n v : 1 <= n <= 16 -> fits_s n v = true -> -32768 <= v < 32768.
Proof.
  intros Hn H. unfold fits_s in H. apply andb_prop in H. destruct H as [H1 H2].
  apply Z.leb_le in H1. apply Z.ltb_lt in H2.
  assert (2 ^ (n - 1) <= 2 ^ 15) by (apply Z.pow_le_mono_r; lia). change (2 ^ 15) with 32768 in *. lia.
Qed.

(* result of a conversion: accepted with the value, or an error at the token's span *)
Definition accept_or_err (ok : bool) (v : Z) (sp : span) (r : pres Z) : Prop :=
  if ok then r = POk v else exists k, r = PErr k sp.

Lemma conv_s_spec n t v sp : 1 <= n <= 16 -> num_tok t v ->
  exists r, conv_s n t sp = Some r /\ accept_or_err (signed_fits n v) v sp r.
Proof.
  intros Hn [[-> Hv]|[-> Hv]]; cbn [conv_s]; eexists; (split; [reflexivity|]); rewrite signed_fits_fits_s by exact Hn.
  - destruct (v <? 32768) eqn:E.
    + apply Z.ltb_lt in E. rewrite new_s_spec by lia. unfold accept_or_err. destruct (fits_s n v); cbn [off_res]; [reflexivity|eexists; reflexivity].
    + apply Z.ltb_ge in E. unfold accept_or_err. destruct (fits_s n v) eqn:F; [|eexists; reflexivity].
      apply (fits_s_i16 n v Hn) in F. lia.
  - rewrite new_s_spec by lia. unfold accept_or_err. destruct (fits_s n v); cbn [off_res]; [reflexivity|eexists; reflexivity].
Qed.

Lemma conv_u_spec n t v sp : 1 <= n <= 16 -> num_tok t v ->
  exists r, conv_u n t sp = Some r /\ accept_or_err (unsigned_fits n v) v sp r.
Proof.
  intros Hn [[-> Hv]|[-> Hv]]; cbn [conv_u]; eexists; (split; [reflexivity|]); rewrite unsigned_fits_fits_u by exact Hn.
  - rewrite new_u_spec by lia. unfold accept_or_err. destruct (fits_u n v); cbn [off_res]; [reflexivity|eexists; reflexivity].
  - destruct (0 <=? v) eqn:E.
    + apply Z.leb_le in E. rewrite new_u_spec by lia. unfold accept_or_err. destruct (fits_u n v); cbn [off_res]; [reflexivity|eexists; reflexivity].
    + apply Z.leb_gt in E. unfold accept_or_err. destruct (fits_u n v) eqn:F; [|eexists; reflexivity].
      unfold fits_u in F. apply andb_prop in F. destruct F as [F _]. apply Z.leb_le in F. lia.
Qed.

(* the operand parsers of the instructions and directives, on a numeric token *)
Definition op_result {A} (ok : bool) (a : A) (sp : span) (r : pres A) : Prop :=
  if ok then r = POk a else exists k, r = PErr k sp.

Lemma p_ior_num t v sp ts prev : num_tok t v ->
  op_result (fits Imm5 v) (Imm v, (ts, sp)) sp (p_ior 5 ((t, sp) :: ts, prev)).
Proof.
  intros Ht. destruct (conv_s_spec 5 t v sp ltac:(lia) Ht) as [r [Hr Ha]].
  unfold p_ior. cbn [fst snd]. rewrite Hr. cbn [fits]. unfold op_result, accept_or_err in *.
  destruct (signed_fits 5 v); [subst r; reflexivity|destruct Ha as [k ->]; exists k; reflexivity].
Qed.
Lemma p_pcoff_num n t v sp ts prev : 1 <= n <= 16 -> num_tok t v ->
  op_result (signed_fits n v) (POff v, (ts, sp)) sp (p_pcoff n ((t, sp) :: ts, prev)).
Proof.
  intros Hn Ht. destruct (conv_s_spec n t v sp Hn Ht) as [r [Hr Ha]].
  unfold p_pcoff. cbn [fst snd]. rewrite Hr. unfold op_result, accept_or_err in *.
  destruct (signed_fits n v); [subst r; reflexivity|destruct Ha as [k ->]; exists k; reflexivity].
Qed.
Lemma p_off_s_num n t v sp ts prev : 1 <= n <= 16 -> num_tok t v ->
  op_result (signed_fits n v) (v, (ts, sp)) sp (p_off (conv_s n) ((t, sp) :: ts, prev)).
Proof.
  intros Hn Ht. destruct (conv_s_spec n t v sp Hn Ht) as [r [Hr Ha]].
  unfold p_off. cbn [fst snd]. rewrite Hr. unfold op_result, accept_or_err in *.
  destruct (signed_fits n v); [subst r; reflexivity|destruct Ha as [k ->]; exists k; reflexivity].
Qed.
Lemma p_off_u_num n t v sp ts prev : 1 <= n <= 16 -> num_tok t v ->
  op_result (unsigned_fits n v) (v, (ts, sp)) sp (p_off (conv_u n) ((t, sp) :: ts, prev)).
Proof.
  intros Hn Ht. destruct (conv_u_spec n t v sp Hn Ht) as [r [Hr Ha]].
  unfold p_off. cbn [fst snd]. rewrite Hr. unfold op_result, accept_or_err in *.
  destruct (unsigned_fits n v); [subst r; reflexivity|destruct Ha as [k ->]; exists k; reflexivity].
Qed.

(* the operand of every numeric field, as the instruction / directive parsers read it *)
Theorem operand_imm5 t v sp ts prev : num_tok t v ->
  op_result (fits Imm5 v) (Imm v, (ts, sp)) sp (p_ior 5 ((t, sp) :: ts, prev)).
Proof. apply p_ior_num. Qed.
Theorem operand_offset6 t v sp ts prev : num_tok t v ->
  op_result (fits Offset6 v) (v, (ts, sp)) sp (p_off (conv_s 6) ((t, sp) :: ts, prev)).
Proof. apply p_off_s_num. lia. Qed.
Theorem operand_pcoffset9 t v sp ts prev : num_tok t v ->
  op_result (fits PCOffset9 v) (POff v, (ts, sp)) sp (p_pcoff 9 ((t, sp) :: ts, prev)).
Proof. apply p_pcoff_num. lia. Qed.
Theorem operand_pcoffset11 t v sp ts prev : num_tok t v ->
  op_result (fits PCOffset11 v) (POff v, (ts, sp)) sp (p_pcoff 11 ((t, sp) :: ts, prev)).
Proof. apply p_pcoff_num. lia. Qed.
Theorem operand_trapvect8 t v sp ts prev : num_tok t v ->
  op_result (fits TrapVect8 v) (v, (ts, sp)) sp (p_off (conv_u 8) ((t, sp) :: ts, prev)).
Proof. apply p_off_u_num. lia. Qed.

Theorem operand_orig name dsp t v sp ts prev : assoc_str (kw_upper name) dir_names = Some 0 -> num_tok t v ->
  op_result (fits Orig v) (DOrig (stored Orig v), (ts, sp)) sp (p_directive name dsp ((t, sp) :: ts, prev)).
Proof.
  intros Hd Ht. unfold p_directive. rewrite Hd. pose proof (p_off_u_num 16 t v sp ts prev ltac:(lia) Ht) as H.
  cbn [fits stored]. unfold op_result in *. destruct (unsigned_fits 16 v).
  - rewrite H. reflexivity.
  - destruct H as [k ->]. exists k. reflexivity.
Qed.
Theorem operand_blkw name dsp t v sp ts prev : assoc_str (kw_upper name) dir_names = Some 2 -> num_tok t v ->
  op_result (fits Blkw v) (DBlkw (stored Blkw v), (ts, sp)) sp (p_directive name dsp ((t, sp) :: ts, prev)).
Proof.
  intros Hd Ht. unfold p_directive. rewrite Hd. pose proof (p_off_u_num 16 t v sp ts prev ltac:(lia) Ht) as H.
  cbn [fits stored cursor fst snd]. unfold op_result in *. destruct (unsigned_fits 16 v); cbn [andb].
  - rewrite H. cbn [pbind]. destruct (v =? 0); cbn [negb]; [eexists; reflexivity|reflexivity].
  - destruct H as [k ->]. exists k. reflexivity.
Qed.
Theorem operand_fill name dsp t v sp ts prev : assoc_str (kw_upper name) dir_names = Some 1 -> num_tok t v ->
  fits Fill v = true /\ p_directive name dsp ((t, sp) :: ts, prev) = POk (DFill (POff (stored Fill v)), (ts, sp)).
Proof.
  intros Hd Ht. unfold p_directive. rewrite Hd. cbn [fits stored fst snd].
  destruct Ht as [[-> Hv]|[-> Hv]].
  - split.
    + unfold signed_fits, unsigned_fits. change (2 ^ 16 - 1) with 65535.
      replace (0 <=? v) with true by (symmetry; apply Z.leb_le; lia).
      replace (v <=? 65535) with true by (symmetry; apply Z.leb_le; lia). apply orb_true_r.
    + rewrite new_trunc_u_spec by lia. cbn [off_res pbind]. unfold zext. change (2 ^ 16) with 65536. reflexivity.
  - split.
    + unfold signed_fits, unsigned_fits. change (- 2 ^ (16 - 1)) with (-32768). change (2 ^ (16 - 1) - 1) with 32767.
      replace (-32768 <=? v) with true by (symmetry; apply Z.leb_le; lia).
      replace (v <=? 32767) with true by (symmetry; apply Z.leb_le; lia). reflexivity.
    + unfold to_u16, wrap16. rewrite new_trunc_u_spec by (try lia; apply Z.mod_pos_bound; lia). cbn [off_res pbind].
      unfold zext. change (2 ^ 16) with 65536. rewrite Z.mod_mod by lia. reflexivity.
Qed.

(* ---------- every integer, every notation, any number of leading zeros ---------- *)
Inductive notation := NDec | NHash | NMinus | NHashMinus | NHex (x : Z) | NHexMinus (x : Z).
Definition nt_ok (nt : notation) : Prop :=
  match nt with NHex x | NHexMinus x => is_x x = true | _ => True end.
Definition nt_radix (nt : notation) : Z := match nt with NHex _ | NHexMinus _ => 16 | _ => 10 end.
Definition nt_prefix (nt : notation) : str :=
  match nt with
  | NDec => [] | NHash => [35] | NMinus => [45] | NHashMinus => [35; 45]
  | NHex x => [x] | NHexMinus x => [x; 45]
  end.
Definition nt_signed (nt : notation) : bool :=
  match nt with NMinus | NHashMinus | NHexMinus _ => true | _ => false end.
(* the spelling of magnitude m: prefix, lz zeros, digits (hex digits in upper or lower case) *)
Definition spell (nt : notation) (up : bool) (lz : nat) (m : Z) : str :=
  nt_prefix nt ++ spell_mag (nt_radix nt) up lz m.

Theorem lex_spelling nt up lz m : nt_ok nt -> 0 <= m ->
  lex (spell nt up lz m) =
    one_token (if nt_signed nt then signed_result m else unsigned_result m) (byte_len (spell nt up lz m)).
Proof.
  intros Hok Hm. unfold spell.
  destruct nt; cbn [nt_prefix nt_radix nt_signed app nt_ok] in *.
  - rewrite lex_dec by (try apply spell_mag_nonempty; apply spell_mag_dec; exact Hm).
    rewrite spell_mag_value by lia. reflexivity.
  - rewrite lex_hash_dec by (try apply spell_mag_nonempty; apply spell_mag_dec; exact Hm).
    rewrite spell_mag_value by lia. reflexivity.
  - rewrite lex_minus_dec by (try apply spell_mag_nonempty; apply spell_mag_dec; exact Hm).
    rewrite spell_mag_value by lia. reflexivity.
  - rewrite lex_hash_minus_dec by (try apply spell_mag_nonempty; apply spell_mag_dec; exact Hm).
    rewrite spell_mag_value by lia. reflexivity.
  - rewrite lex_hex by (try apply spell_mag_nonempty; try apply spell_mag_hex; assumption).
    rewrite spell_mag_value by lia. reflexivity.
  - rewrite lex_hex_minus by (try apply spell_mag_nonempty; try apply spell_mag_hex; assumption).
    rewrite spell_mag_value by lia. reflexivity.
Qed.

Theorem lex_register_number r lz n : is_r r = true -> 0 <= n ->
  lex (r :: spell_mag 10 true lz n) = one_token (reg_result n) (byte_len (r :: spell_mag 10 true lz n)).
Proof.
  intros Hr Hn. rewrite lex_register by (try apply spell_mag_nonempty; try apply spell_mag_dec; assumption).
  rewrite spell_mag_value by lia. reflexivity.
Qed.
