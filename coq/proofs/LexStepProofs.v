(* LexStepProofs.v — the maximal-munch lemmas, one per token class: what [lex_step] returns on a
   token text followed by a delimiter ([stops is_word rest]).  Used by C05 (bare numerals), C36
   (canonical layout) and C03 (general layout). *)
From Coq Require Import ZArith List Bool Lia.
From Model Require Import Tree Text Lexer.
From Gen Require UnicodeTables.
From Proofs Require Import LexerProofs.
From Proofs Require Ranges.
Import ListNotations.
Open Scope Z_scope.

Lemma span_word_exact w rest : forallb is_word w = true -> stops is_word rest -> span_word (w ++ rest) = (w, rest).
Proof. apply span_p_exact. Qed.

Lemma word_tok_exact f pre npre w rest :
  forallb is_word w = true -> stops is_word rest ->
  word_tok f pre npre (w ++ rest) = (f (pre ++ w), npre + byte_len w, rest).
Proof. intros Hw Hr. unfold word_tok. rewrite span_word_exact by assumption. reflexivity. Qed.

(* ---------- character facts ---------- *)
Lemma is_digit_bounds c : is_digit c = true <-> 48 <= c <= 57.
Proof. unfold is_digit. rewrite andb_true_iff, !Z.leb_le. tauto. Qed.

Lemma is_digit_word c : is_digit c = true -> is_word c = true.
Proof.
  intros H. pose proof (proj1 (is_digit_bounds c) H). unfold is_word.
  destruct (c <? 128) eqn:E; [rewrite H; reflexivity|]. apply Z.ltb_ge in E. lia.
Qed.
Lemma is_digit_dec c : is_digit c = true -> is_dec c = true.
Proof.
  intros H. pose proof (proj1 (is_digit_bounds c) H). unfold is_dec.
  destruct (c <? 128) eqn:E; [exact H|]. apply Z.ltb_ge in E. lia.
Qed.
Lemma alpha_word c : is_alpha_us c = true -> is_word c = true.
Proof.
  intros H. pose proof (alpha_ascii c H). unfold is_word.
  destruct (c <? 128) eqn:E; [rewrite H; apply orb_true_r|]. apply Z.ltb_ge in E. lia.
Qed.
Lemma hex_letter_alpha c : is_hex_letter c = true -> is_alpha_us c = true.
Proof.
  unfold is_hex_letter, is_alpha_us, is_upper, is_lower. intros H.
  apply orb_prop in H. destruct H as [H|H]; apply andb_prop in H; destruct H as [H1 H2];
    apply Z.leb_le in H1; apply Z.leb_le in H2.
  - replace (65 <=? c) with true by (symmetry; apply Z.leb_le; lia).
    replace (c <=? 90) with true by (symmetry; apply Z.leb_le; lia). reflexivity.
  - replace (97 <=? c) with true by (symmetry; apply Z.leb_le; lia).
    replace (c <=? 122) with true by (symmetry; apply Z.leb_le; lia). cbn [andb]. rewrite orb_true_r. reflexivity.
Qed.
Lemma hex_letter_word c : is_hex_letter c = true -> is_word c = true.
Proof. intros H. apply alpha_word, hex_letter_alpha, H. Qed.

Lemma alpha_bounds c : is_alpha_us c = true -> (65 <= c <= 90) \/ (97 <= c <= 122) \/ c = 95.
Proof.
  unfold is_alpha_us, is_upper, is_lower. intros H.
  apply orb_prop in H. destruct H as [H|H]; [apply orb_prop in H; destruct H as [H|H]|].
  - apply andb_prop in H. destruct H as [H1 H2]. apply Z.leb_le in H1. apply Z.leb_le in H2. lia.
  - apply andb_prop in H. destruct H as [H1 H2]. apply Z.leb_le in H1. apply Z.leb_le in H2. lia.
  - apply Z.eqb_eq in H. lia.
Qed.

Lemma alpha_not_dec c : is_alpha_us c = true -> is_dec c = false.
Proof.
  intros H. pose proof (alpha_bounds c H) as Hb. unfold is_dec, is_digit.
  replace (c <? 128) with true by (symmetry; apply Z.ltb_lt; lia).
  destruct (48 <=? c) eqn:E1; [|reflexivity]. destruct (c <=? 57) eqn:E2; [|reflexivity].
  apply Z.leb_le in E1. apply Z.leb_le in E2. lia.
Qed.

Ltac neq_false c k := replace (c =? k) with false by (symmetry; apply Z.eqb_neq; lia).

(* ---------- heads ---------- *)
Lemma lex_step_alpha fx c r : is_alpha_us c = true ->
  lex_step fx c r =
    if is_x c then
      match r with
      | d :: r1 =>
          if d =? 45 then word_tok lex_signed_hex [c; 45] 2 r1
          else if is_dec d || is_hex_letter d then word_tok lex_unsigned_hex [c] 1 r
          else word_tok (fun w => SOk (TIdent (ident_of w))) [c] 1 r
      | [] => (SOk (TIdent (ident_of [c])), 1, r)
      end
    else if is_r c then
      let (w, rest) := span_word r in
      (if negb (is_nil w) && forallb is_dec w then lex_reg (c :: w)
       else SOk (TIdent (ident_of (c :: w))), 1 + byte_len w, rest)
    else word_tok (fun w => SOk (TIdent (ident_of w))) [c] 1 r.
Proof.
  intros H. pose proof (alpha_bounds c H) as Hb. unfold lex_step.
  neq_false c 10. neq_false c 13. neq_false c 59. neq_false c 58. neq_false c 44. neq_false c 34.
  neq_false c 46. neq_false c 35. neq_false c 45. rewrite (alpha_not_dec c H). rewrite H. reflexivity.
Qed.

Lemma lex_step_digit fx c r : is_digit c = true ->
  lex_step fx c r = word_tok lex_unsigned_dec [c] 1 r.
Proof.
  intros H. pose proof (proj1 (is_digit_bounds c) H) as Hb. unfold lex_step.
  neq_false c 10. neq_false c 13. neq_false c 59. neq_false c 58. neq_false c 44. neq_false c 34.
  neq_false c 46. neq_false c 35. neq_false c 45. rewrite (is_digit_dec c H).
  rewrite utf8_len_ascii by lia. reflexivity.
Qed.

(* ---------- numerals ---------- *)
Lemma step_digit fx c w rest : is_digit c = true -> forallb is_word w = true -> stops is_word rest ->
  lex_step fx c (w ++ rest) = (lex_unsigned_dec (c :: w), 1 + byte_len w, rest).
Proof. intros Hc Hw Hr. rewrite lex_step_digit by assumption. apply word_tok_exact; assumption. Qed.

Lemma step_hash fx d w rest : d <> 45 -> d <> 35 -> forallb is_word (d :: w) = true -> stops is_word rest ->
  lex_step fx 35 (d :: w ++ rest) = (lex_unsigned_dec (35 :: d :: w), 1 + byte_len (d :: w), rest).
Proof.
  intros H45 H35 Hw Hr. unfold lex_step. cbn [Z.eqb Pos.eqb].
  neq_false d 45. neq_false d 35.
  change (d :: w ++ rest) with ((d :: w) ++ rest). apply word_tok_exact; assumption.
Qed.

Lemma step_hash_minus fx w rest : forallb is_word w = true -> stops is_word rest ->
  lex_step fx 35 (45 :: w ++ rest) = (lex_signed_dec (35 :: 45 :: w), 2 + byte_len w, rest).
Proof. intros Hw Hr. unfold lex_step. cbn [Z.eqb Pos.eqb]. apply word_tok_exact; assumption. Qed.

Lemma step_minus fx d w rest : d <> 35 -> forallb is_word (d :: w) = true -> stops is_word rest ->
  lex_step fx 45 (d :: w ++ rest) = (lex_signed_dec (45 :: d :: w), 1 + byte_len (d :: w), rest).
Proof.
  intros H35 Hw Hr. unfold lex_step. cbn [Z.eqb Pos.eqb]. neq_false d 35.
  change (d :: w ++ rest) with ((d :: w) ++ rest). apply word_tok_exact; assumption.
Qed.

Lemma is_x_alpha c : is_x c = true -> is_alpha_us c = true.
Proof. unfold is_x. intros H. apply orb_prop in H. destruct H as [H|H]; apply Z.eqb_eq in H; subst; reflexivity. Qed.
Lemma is_r_alpha c : is_r c = true -> is_alpha_us c = true.
Proof. unfold is_r. intros H. apply orb_prop in H. destruct H as [H|H]; apply Z.eqb_eq in H; subst; reflexivity. Qed.
Lemma is_x_not_r c : is_x c = true -> is_r c = false.
Proof. unfold is_x, is_r. intros H. apply orb_prop in H. destruct H as [H|H]; apply Z.eqb_eq in H; subst; reflexivity. Qed.

Lemma step_x_hex fx c d w rest : is_x c = true -> d <> 45 -> is_dec d || is_hex_letter d = true ->
  forallb is_word (d :: w) = true -> stops is_word rest ->
  lex_step fx c (d :: w ++ rest) = (lex_unsigned_hex (c :: d :: w), 1 + byte_len (d :: w), rest).
Proof.
  intros Hx H45 Hd Hw Hr. rewrite lex_step_alpha by (apply is_x_alpha; exact Hx). rewrite Hx.
  neq_false d 45. rewrite Hd. change (d :: w ++ rest) with ((d :: w) ++ rest). apply word_tok_exact; assumption.
Qed.

Lemma step_x_minus fx c w rest : is_x c = true -> forallb is_word w = true -> stops is_word rest ->
  lex_step fx c (45 :: w ++ rest) = (lex_signed_hex (c :: 45 :: w), 2 + byte_len w, rest).
Proof.
  intros Hx Hw Hr. rewrite lex_step_alpha by (apply is_x_alpha; exact Hx). rewrite Hx.
  cbn [Z.eqb Pos.eqb]. apply word_tok_exact; assumption.
Qed.

Lemma digits_word w : forallb is_digit w = true -> forallb is_word w = true.
Proof.
  induction w as [|c w IH]; [reflexivity|]. cbn [forallb]. intros H. apply andb_prop in H. destruct H as [H1 H2].
  rewrite (is_digit_word c H1), IH by assumption. reflexivity.
Qed.
Lemma digits_dec w : forallb is_digit w = true -> forallb is_dec w = true.
Proof.
  induction w as [|c w IH]; [reflexivity|]. cbn [forallb]. intros H. apply andb_prop in H. destruct H as [H1 H2].
  rewrite (is_digit_dec c H1), IH by assumption. reflexivity.
Qed.

Lemma step_reg fx c w rest : is_r c = true -> w <> [] -> forallb is_digit w = true -> stops is_word rest ->
  lex_step fx c (w ++ rest) = (lex_reg (c :: w), 1 + byte_len w, rest).
Proof.
  intros Hr Hne Hw Hs. rewrite lex_step_alpha by (apply is_r_alpha; exact Hr).
  assert (Hx : is_x c = false).
  { unfold is_r in Hr. unfold is_x. apply orb_prop in Hr. destruct Hr as [H|H]; apply Z.eqb_eq in H; subst; reflexivity. }
  rewrite Hx, Hr. rewrite span_word_exact by (try apply digits_word; assumption).
  rewrite (digits_dec w Hw). destruct w; [congruence|]. reflexivity.
Qed.

(* ---------- identifiers, directives ---------- *)
(* the text c :: w is lexed by the identifier rule: it is not hex-like (x followed by a digit, a
   hex letter or '-') and not register-like (r followed by digits only) *)
Definition ident_shape (c : Z) (w rest : str) : Prop :=
  is_alpha_us c = true /\ forallb is_word w = true /\ stops is_word rest /\
  (is_x c = true -> match w ++ rest with d :: _ => d <> 45 /\ is_dec d || is_hex_letter d = false | [] => True end) /\
  (is_r c = true -> negb (is_nil w) && forallb is_dec w = false).

Lemma step_ident fx c w rest : ident_shape c w rest ->
  lex_step fx c (w ++ rest) = (SOk (TIdent (ident_of (c :: w))), 1 + byte_len w, rest).
Proof.
  intros [Ha [Hw [Hs [Hx Hr]]]]. rewrite lex_step_alpha by exact Ha.
  destruct (is_x c) eqn:Ex.
  - specialize (Hx eq_refl). destruct (w ++ rest) as [|d r1] eqn:E.
    + destruct w; [|discriminate]. cbn [app] in E. subst rest. reflexivity.
    + destruct Hx as [H45 Hd]. neq_false d 45. rewrite Hd. rewrite <- E.
      apply (word_tok_exact (fun w => SOk (TIdent (ident_of w))) [c] 1); assumption.
  - destruct (is_r c) eqn:Er.
    + rewrite span_word_exact by assumption. rewrite (Hr eq_refl). reflexivity.
    + apply (word_tok_exact (fun w => SOk (TIdent (ident_of w))) [c] 1); assumption.
Qed.

Lemma step_directive fx w rest : forallb is_word w = true -> stops is_word rest ->
  lex_step fx 46 (w ++ rest) = (SOk (TDirective w), 1 + byte_len w, rest).
Proof. intros Hw Hs. unfold lex_step. cbn [Z.eqb Pos.eqb]. apply (word_tok_exact lex_directive [46] 1); assumption. Qed.

(* ---------- a single token is the whole input ---------- *)
Lemma lex_single c r res n : is_blank c = false -> lex_step true c r = (res, n, []) ->
  lex (c :: r) = match res with
                 | SOk t => LexOk [(t, (0, n))]
                 | SErr e => LexErr [] e (0, n)
                 | SPanic => LexPanic
                 end.
Proof.
  intros Hb Hs. unfold lex. rewrite lex_with_at, lex_at_cons, Hb, Hs.
  destruct res; [|reflexivity|reflexivity]. rewrite lex_at_nil. reflexivity.
Qed.

(* the ASCII shortcuts of [is_word] / [is_dec] agree with the generated Unicode tables *)
Definition ascii_agree (c : Z) : bool :=
  Bool.eqb (in_ranges UnicodeTables.perl_word c) (is_digit c || is_alpha_us c)
  && Bool.eqb (in_ranges UnicodeTables.perl_decimal c) (is_digit c).
Lemma ascii_tables_agree : forall c, 0 <= c < 128 ->
  in_ranges UnicodeTables.perl_word c = (is_digit c || is_alpha_us c) /\
  in_ranges UnicodeTables.perl_decimal c = is_digit c.
Proof.
  intros c Hc.
  assert (H : ascii_agree c = true).
  { apply (Proofs.Ranges.forall_range' ascii_agree 0 128); [vm_compute; reflexivity|exact Hc]. }
  unfold ascii_agree in H. apply andb_prop in H. destruct H as [H1 H2].
  apply Bool.eqb_prop in H1. apply Bool.eqb_prop in H2. split; assumption.
Qed.
