(* LexerProofs.v — structural facts about the lexer model: every token step consumes a non-empty
   prefix of the input and reports exactly its byte length; fuel irrelevance and the fuel-free
   unfolding equation [lex_at_cons]; span bounds; absence of panics for the repaired code. *)
From Coq Require Import ZArith List Bool Lia.
From Model Require Import Tree Text Lexer.
Import ListNotations.
Open Scope Z_scope.

(* ---------- bytes ---------- *)
Lemma utf8_len_pos c : 1 <= utf8_len c <= 4.
Proof. unfold utf8_len. repeat match goal with |- context [if ?b then _ else _] => destruct b end; lia. Qed.

Lemma byte_len_app a b : byte_len (a ++ b) = byte_len a + byte_len b.
Proof. induction a as [|x a IH]; cbn [byte_len app]; lia. Qed.

Lemma byte_len_nonneg s : 0 <= byte_len s.
Proof. induction s as [|x s IH]; cbn [byte_len]; [lia|]. pose proof (utf8_len_pos x). lia. Qed.

Lemma utf8_len_ascii c : c < 128 -> utf8_len c = 1.
Proof. intros H. unfold utf8_len. destruct (c <? 128) eqn:E; [reflexivity|]. apply Z.ltb_ge in E. lia. Qed.

Lemma byte_len_repeat c n : byte_len (repeat c n) = Z.of_nat n * utf8_len c.
Proof. induction n as [|n IH]; cbn [repeat byte_len]; lia. Qed.

(* ---------- span_p ---------- *)
Lemma span_p_split p s : forall a b, span_p p s = (a, b) -> s = a ++ b.
Proof.
  induction s as [|c r IH]; intros a b H; cbn [span_p] in H.
  - inversion H. reflexivity.
  - destruct (p c).
    + destruct (span_p p r) as [a' b'] eqn:E. inversion H; subst. cbn [app]. f_equal. apply IH. reflexivity.
    + inversion H; subst. reflexivity.
Qed.

Lemma span_p_all p s : forall a b, span_p p s = (a, b) -> forallb p a = true.
Proof.
  induction s as [|c r IH]; intros a b H; cbn [span_p] in H.
  - inversion H. reflexivity.
  - destruct (p c) eqn:Pc.
    + destruct (span_p p r) as [a' b'] eqn:E. inversion H; subst. cbn [forallb]. rewrite Pc. cbn [andb]. eapply IH. reflexivity.
    + inversion H; subst. reflexivity.
Qed.

Definition stops (p : Z -> bool) (rest : str) : Prop :=
  match rest with [] => True | c :: _ => p c = false end.

Lemma span_p_stops p s : forall a b, span_p p s = (a, b) -> stops p b.
Proof.
  induction s as [|c r IH]; intros a b H; cbn [span_p] in H.
  - inversion H. exact Logic.I.
  - destruct (p c) eqn:Pc.
    + destruct (span_p p r) as [a' b'] eqn:E. inversion H; subst. eapply IH. reflexivity.
    + inversion H; subst. cbn [stops]. exact Pc.
Qed.

Lemma span_p_exact p w rest : forallb p w = true -> stops p rest -> span_p p (w ++ rest) = (w, rest).
Proof.
  induction w as [|c w IH]; intros Hw Hr; cbn [app].
  - destruct rest as [|c r]; [reflexivity|]. cbn [span_p]. cbn [stops] in Hr. rewrite Hr. reflexivity.
  - cbn [forallb] in Hw. apply andb_prop in Hw. destruct Hw as [Hc Hw]. cbn [span_p]. rewrite Hc.
    rewrite IH by assumption. reflexivity.
Qed.

(* ---------- one token consumes a prefix and reports its byte length ---------- *)
(* lex_step c r = (_, n, rest): r = m ++ rest and n = bytes of c :: m *)
Definition consumed (c : Z) (r : str) (n : Z) (rest : str) : Prop :=
  exists m, r = m ++ rest /\ n = utf8_len c + byte_len m.

Lemma word_tok_consumed f pre npre r res n rest c m0 :
  word_tok f pre npre r = (res, n, rest) -> npre = utf8_len c + byte_len m0 ->
  consumed c (m0 ++ r) n rest.
Proof.
  unfold word_tok, span_word. intros H Hn. destruct (span_p is_word r) as [w rest'] eqn:E.
  inversion H; subst. exists (m0 ++ w). split.
  - rewrite <- app_assoc. f_equal. eapply span_p_split. exact E.
  - rewrite byte_len_app. lia.
Qed.

Lemma word_tok_consumed' f pre npre r res n rest c m0 full :
  word_tok f pre npre r = (res, n, rest) -> npre = utf8_len c + byte_len m0 -> full = m0 ++ r ->
  consumed c full n rest.
Proof. intros H Hn ->. eapply word_tok_consumed; eassumption. Qed.

Lemma at_eol_nil : at_eol [] = true. Proof. reflexivity. Qed.

Lemma scan_str_consumed fx : forall k s, (length s <= k)%nat ->
  match scan_str fx s with
  | ScClosed _ n rest | ScUnclosed n rest => exists m, s = m ++ rest /\ n = byte_len m
  | ScPanic => True
  end.
Proof.
  induction k as [|k IH]; intros s Hk.
  - destruct s; [|cbn [length] in Hk; lia]. cbn. exists []. split; reflexivity.
  - destruct s as [|c r].
    + cbn. exists []. split; reflexivity.
    + cbn [length] in Hk. unfold scan_str; fold (scan_str fx).
      destruct (at_eol (c :: r)); [exists []; split; reflexivity|].
      destruct (c =? 34) eqn:E34.
      { apply Z.eqb_eq in E34; subst. exists [34]. split; reflexivity. }
      destruct (c =? 92) eqn:E92.
      { apply Z.eqb_eq in E92; subst.
        destruct (at_eol r).
        - destruct fx; [|exact Logic.I]. exists [92]. split; reflexivity.
        - destruct r as [|e r']; [exact Logic.I|].
          cbn [length] in Hk.
          assert (Hr' : (length r' <= k)%nat) by lia.
          pose proof (IH r' Hr') as IHr.
          destruct fx.
          + destruct (scan_str true r') as [b n rest|n rest|]; cbn [sc_push]; [| |exact Logic.I];
              destruct IHr as [m [Hm Hn]]; exists (92 :: e :: m); (split; [cbn [app]; rewrite Hm; reflexivity|]);
              cbn [byte_len]; change (utf8_len 92) with 1; lia.
          + destruct (e <? 128) eqn:Ee; [|exact Logic.I]. apply Z.ltb_lt in Ee.
            destruct (scan_str false r') as [b n rest|n rest|]; cbn [sc_push]; [| |exact Logic.I];
              destruct IHr as [m [Hm Hn]]; exists (92 :: e :: m); (split; [cbn [app]; rewrite Hm; reflexivity|]);
              cbn [byte_len]; change (utf8_len 92) with 1; rewrite (utf8_len_ascii e Ee); lia. }
      assert (Hr : (length r <= k)%nat) by lia.
      pose proof (IH r Hr) as IHr.
      destruct (scan_str fx r) as [b n rest|n rest|]; cbn [sc_push]; [| |exact Logic.I];
        destruct IHr as [m [Hm Hn]]; exists (c :: m); (split; [cbn [app]; rewrite Hm; reflexivity|]);
        cbn [byte_len]; lia.
Qed.

Lemma alpha_ascii c : is_alpha_us c = true -> c < 128.
Proof.
  unfold is_alpha_us, is_upper, is_lower. intros H.
  repeat (apply orb_prop in H; destruct H as [H|H]); try (apply andb_prop in H; destruct H as [_ H]); lia.
Qed.

Lemma span_hash_bytes r1 hs r2 : span_p (fun x => x =? 35) r1 = (hs, r2) -> byte_len hs = Z.of_nat (length hs).
Proof.
  intros H. apply span_p_all in H. clear r1 r2. induction hs as [|h hs IH]; [reflexivity|].
  cbn [forallb] in H. apply andb_prop in H. destruct H as [Hh Hs]. apply Z.eqb_eq in Hh. subst.
  cbn [byte_len length]. change (utf8_len 35) with 1. rewrite IH by assumption. lia.
Qed.

Ltac eqb_true H := apply Z.eqb_eq in H; subst.
Lemma triple_inj {A B C} (a a' : A) (b b' : B) (c c' : C) : (a, b, c) = (a', b', c') -> a = a' /\ b = b' /\ c = c'.
Proof. intros H. inversion H. auto. Qed.
Ltac inj3 H := apply triple_inj in H; destruct H as [? [? ?]]; subst.

Lemma lex_step_consumed fx c r res n rest : lex_step fx c r = (res, n, rest) -> consumed c r n rest.
Proof.
  unfold lex_step. intros H.
  destruct (c =? 10) eqn:E10.
  { eqb_true E10. inj3 H. exists []. split; reflexivity. }
  destruct (c =? 13) eqn:E13.
  { eqb_true E13. destruct r as [|d r'].
    - inj3 H. exists []. split; reflexivity.
    - destruct (d =? 10) eqn:Ed.
      + eqb_true Ed. inj3 H. exists [10]. split; reflexivity.
      + inj3 H. exists []. split; reflexivity. }
  destruct (c =? 59) eqn:E59.
  { eqb_true E59. destruct (span_p (fun x => negb (x =? 10)) r) as [w rest'] eqn:E. inj3 H.
    exists w. split; [eapply span_p_split; exact E|reflexivity]. }
  destruct (c =? 58) eqn:E58.
  { eqb_true E58. inj3 H. exists []. split; reflexivity. }
  destruct (c =? 44) eqn:E44.
  { eqb_true E44. inj3 H. exists []. split; reflexivity. }
  destruct (c =? 34) eqn:E34.
  { eqb_true E34. unfold lex_str_literal in H.
    pose proof (scan_str_consumed fx (length r) r (le_n _)) as Hs.
    destruct (scan_str fx r) as [b k rest'|k rest'|]; inj3 H.
    - destruct Hs as [m [Hm Hk]]. exists m. split; [exact Hm|]. change (utf8_len 34) with 1. lia.
    - destruct Hs as [m [Hm Hk]]. exists m. split; [exact Hm|]. change (utf8_len 34) with 1. lia.
    - exists []. split; reflexivity. }
  destruct (c =? 46) eqn:E46.
  { eqb_true E46. apply (word_tok_consumed _ _ _ _ _ _ _ 46 []) in H; [exact H|reflexivity]. }
  destruct (c =? 35) eqn:E35.
  { eqb_true E35. destruct r as [|d r1].
    - apply (word_tok_consumed _ _ _ _ _ _ _ 35 []) in H; [exact H|reflexivity].
    - destruct (d =? 45) eqn:Ed45.
      { eqb_true Ed45. apply (word_tok_consumed _ _ _ _ _ _ _ 35 [45]) in H; [exact H|reflexivity]. }
      destruct (d =? 35) eqn:Ed35.
      { eqb_true Ed35. destruct (span_p (fun x => x =? 35) r1) as [hs r2] eqn:Eh.
        pose proof (span_p_split _ _ _ _ Eh) as Hr1. subst r1.
        destruct r2 as [|m r3].
        - eapply (word_tok_consumed' _ _ _ _ _ _ _ 35 (35 :: hs)); [exact H| |reflexivity].
          cbn [byte_len]. lia.
        - destruct (m =? 45) eqn:Em.
          + eqb_true Em. eapply (word_tok_consumed' _ _ _ _ _ _ _ 35 (35 :: hs ++ [45])); [exact H| |].
            * cbn [byte_len]. rewrite byte_len_app. cbn [byte_len]. change (utf8_len 45) with 1. lia.
            * cbn [app]. rewrite <- app_assoc. reflexivity.
          + eapply (word_tok_consumed' _ _ _ _ _ _ _ 35 (35 :: hs)); [exact H| |reflexivity].
            cbn [byte_len]. lia. }
      apply (word_tok_consumed _ _ _ _ _ _ _ 35 []) in H; [exact H|reflexivity]. }
  destruct (c =? 45) eqn:E45.
  { eqb_true E45. destruct r as [|d r1].
    - apply (word_tok_consumed _ _ _ _ _ _ _ 45 []) in H; [exact H|reflexivity].
    - destruct (d =? 35) eqn:Ed35.
      + eqb_true Ed35. destruct (span_p (fun x => x =? 35) r1) as [hs r2] eqn:Eh.
        pose proof (span_p_split _ _ _ _ Eh) as Hr1.
        apply (word_tok_consumed _ _ _ _ _ _ _ 45 (35 :: hs)) in H.
        * subst r1. cbn [app] in H |- *. exact H.
        * reflexivity.
      + apply (word_tok_consumed _ _ _ _ _ _ _ 45 []) in H; [exact H|reflexivity]. }
  destruct (is_dec c) eqn:Edec.
  { apply (word_tok_consumed _ _ _ _ _ _ _ c []) in H; [exact H|cbn [byte_len]; lia]. }
  destruct (is_alpha_us c) eqn:Eal.
  { pose proof (utf8_len_ascii c (alpha_ascii c Eal)) as Hc.
    destruct (is_x c).
    - destruct r as [|d r1].
      + inj3 H. exists []. split; [reflexivity|]. cbn [byte_len]. lia.
      + destruct (d =? 45) eqn:Ed.
        * eqb_true Ed. apply (word_tok_consumed _ _ _ _ _ _ _ c [45]) in H; [exact H|]. cbn [byte_len]. change (utf8_len 45) with 1. lia.
        * destruct (is_dec d || is_hex_letter d);
            (apply (word_tok_consumed _ _ _ _ _ _ _ c []) in H; [exact H|cbn [byte_len]; lia]).
    - destruct (is_r c).
      + destruct (span_word r) as [w rest'] eqn:E. unfold span_word in E. inj3 H.
        exists w. split; [eapply span_p_split; exact E|lia].
      + apply (word_tok_consumed _ _ _ _ _ _ _ c []) in H; [exact H|cbn [byte_len]; lia]. }
  inj3 H. exists []. split; [reflexivity|]. cbn [byte_len]. lia.
Qed.

Lemma lex_step_shorter fx c r res n rest : lex_step fx c r = (res, n, rest) -> (length rest <= length r)%nat.
Proof.
  intros H. apply lex_step_consumed in H. destruct H as [m [Hr _]]. subst r. rewrite app_length. lia.
Qed.

Lemma lex_step_bytes fx c r res n rest : lex_step fx c r = (res, n, rest) ->
  n + byte_len rest = byte_len (c :: r) /\ 1 <= n.
Proof.
  intros H. apply lex_step_consumed in H. destruct H as [m [Hr Hn]]. subst r n.
  cbn [byte_len]. rewrite byte_len_app. pose proof (utf8_len_pos c). pose proof (byte_len_nonneg m). lia.
Qed.

(* ---------- fuel irrelevance ---------- *)
Lemma lex_go_S fx f pos c r :
  lex_go fx (S f) pos (c :: r) =
    if is_blank c then lex_go fx f (pos + 1) r
    else let '(res, n, rest) := lex_step fx c r in
         match res with
         | SOk t => lex_cons (t, (pos, pos + n)) (lex_go fx f (pos + n) rest)
         | SErr e => LexErr [] e (pos, pos + n)
         | SPanic => LexPanic
         end.
Proof. reflexivity. Qed.

Lemma lex_go_fuel fx : forall f1 f2 pos s, (length s < f1)%nat -> (length s < f2)%nat ->
  lex_go fx f1 pos s = lex_go fx f2 pos s.
Proof.
  induction f1 as [|f1 IH]; intros f2 pos s H1 H2; [lia|].
  destruct f2 as [|f2]; [lia|].
  destruct s as [|c r]; [reflexivity|]. rewrite !lex_go_S. cbn [length] in H1, H2.
  destruct (is_blank c).
  - apply IH; lia.
  - destruct (lex_step fx c r) as [[res n] rest] eqn:E.
    pose proof (lex_step_shorter _ _ _ _ _ _ E) as Hl.
    destruct res; [|reflexivity|reflexivity]. f_equal. apply IH; lia.
Qed.

(* lexing from byte offset pos, with enough fuel *)
Definition lex_at (fx : bool) (pos : Z) (s : str) : lex_res := lex_go fx (S (length s)) pos s.

Lemma lex_with_at fx s : lex_with fx s = lex_at fx 0 s.
Proof. reflexivity. Qed.

Lemma lex_at_nil fx pos : lex_at fx pos [] = LexOk [].
Proof. reflexivity. Qed.

Lemma lex_at_cons fx pos c r :
  lex_at fx pos (c :: r) =
    if is_blank c then lex_at fx (pos + 1) r
    else let '(res, n, rest) := lex_step fx c r in
         match res with
         | SOk t => lex_cons (t, (pos, pos + n)) (lex_at fx (pos + n) rest)
         | SErr e => LexErr [] e (pos, pos + n)
         | SPanic => LexPanic
         end.
Proof.
  unfold lex_at. cbn [length]. rewrite lex_go_S. destruct (is_blank c); [reflexivity|].
  destruct (lex_step fx c r) as [[res n] rest] eqn:E.
  pose proof (lex_step_shorter _ _ _ _ _ _ E) as Hl.
  destruct res; [|reflexivity|reflexivity]. f_equal. apply lex_go_fuel; lia.
Qed.

(* ---------- no panic, spans inside the input (repaired code) ---------- *)
Lemma scan_str_fixed_no_panic : forall k s, (length s <= k)%nat -> scan_str true s <> ScPanic.
Proof.
  induction k as [|k IH]; intros s Hk.
  - destruct s; [|cbn [length] in Hk; lia]. cbn. discriminate.
  - destruct s as [|c r]; [cbn; discriminate|]. cbn [length] in Hk.
    unfold scan_str; fold (scan_str true).
    destruct (at_eol (c :: r)); [discriminate|].
    destruct (c =? 34); [discriminate|].
    destruct (c =? 92).
    + destruct (at_eol r) eqn:Er; [discriminate|].
      destruct r as [|e r']; [cbn in Er; discriminate|]. cbn [length] in Hk.
      assert (H' : scan_str true r' <> ScPanic) by (apply IH; lia).
      destruct (scan_str true r'); cbn [sc_push]; congruence.
    + assert (H' : scan_str true r <> ScPanic) by (apply IH; lia).
      destruct (scan_str true r); cbn [sc_push]; congruence.
Qed.

Lemma conv_int_no_panic mk r a b c s : conv_int mk r a b c s <> SPanic.
Proof. unfold conv_int. destruct r; try discriminate. destruct (str_eqb s [45]); discriminate. Qed.

Lemma word_tok_res f pre npre r res n rest :
  word_tok f pre npre r = (res, n, rest) -> exists w, res = f (pre ++ w).
Proof.
  unfold word_tok. destruct (span_word r) as [w rest']. intros H. inj3 H. exists w. reflexivity.
Qed.

Lemma lex_signed_dec_no_panic s : lex_signed_dec s <> SPanic.
Proof. apply conv_int_no_panic. Qed.
Lemma lex_unsigned_dec_no_panic s : lex_unsigned_dec s <> SPanic.
Proof. apply conv_int_no_panic. Qed.

Lemma word_tok_np f pre npre r res n rest :
  (forall w, f (pre ++ w) <> SPanic) -> word_tok f pre npre r = (res, n, rest) -> res <> SPanic.
Proof. intros Hf H. apply word_tok_res in H. destruct H as [w ->]. apply Hf. Qed.

Lemma lex_step_fixed_no_panic c r res n rest : lex_step true c r = (res, n, rest) -> res <> SPanic.
Proof.
  unfold lex_step. intros H.
  assert (Hsd : forall pre w, lex_signed_dec (pre ++ w) <> SPanic) by (intros; apply conv_int_no_panic).
  assert (Hud : forall pre w, lex_unsigned_dec (pre ++ w) <> SPanic) by (intros; apply conv_int_no_panic).
  destruct (c =? 10). { inj3 H. discriminate. }
  destruct (c =? 13).
  { destruct r as [|d r']; [inj3 H; discriminate|]. destruct (d =? 10); inj3 H; discriminate. }
  destruct (c =? 59).
  { destruct (span_p (fun x => negb (x =? 10)) r). inj3 H. discriminate. }
  destruct (c =? 58). { inj3 H. discriminate. }
  destruct (c =? 44). { inj3 H. discriminate. }
  destruct (c =? 34).
  { unfold lex_str_literal in H.
    pose proof (scan_str_fixed_no_panic (length r) r (le_n _)) as Hs.
    destruct (scan_str true r); [| |congruence]; inj3 H; [|discriminate].
    destruct (byte_len buf <? 65535); discriminate. }
  destruct (c =? 46).
  { eapply word_tok_np; [|exact H]. intros w. cbn. discriminate. }
  destruct (c =? 35).
  { destruct r as [|d r1]; [eapply word_tok_np; [apply Hud|exact H]|].
    destruct (d =? 45); [eapply word_tok_np; [apply Hsd|exact H]|].
    destruct (d =? 35); [|eapply word_tok_np; [apply Hud|exact H]].
    destruct (span_p (fun x => x =? 35) r1) as [hs r2].
    destruct r2 as [|m r3]; [eapply word_tok_np; [apply Hsd|exact H]|].
    destruct (m =? 45); eapply word_tok_np; try exact H; apply Hsd. }
  destruct (c =? 45).
  { destruct r as [|d r1]; [eapply word_tok_np; [apply Hsd|exact H]|].
    destruct (d =? 35); [|eapply word_tok_np; [apply Hsd|exact H]].
    destruct (span_p (fun x => x =? 35) r1) as [hs r2]. eapply word_tok_np; [apply Hsd|exact H]. }
  destruct (is_dec c). { eapply word_tok_np; [apply Hud|exact H]. }
  destruct (is_alpha_us c) eqn:Eal; [|inj3 H; discriminate].
  destruct (is_x c) eqn:Ex.
  { destruct r as [|d r1]; [inj3 H; discriminate|].
    destruct (d =? 45).
    - eapply word_tok_np; [|exact H]. intros w. cbn [app lex_signed_hex]. rewrite Ex. apply conv_int_no_panic.
    - destruct (is_dec d || is_hex_letter d).
      + eapply word_tok_np; [|exact H]. intros w. cbn [app lex_unsigned_hex]. rewrite Ex. apply conv_int_no_panic.
      + eapply word_tok_np; [|exact H]. intros w. discriminate. }
  destruct (is_r c).
  { destruct (span_word r) as [w rest']. inj3 H.
    destruct (negb (is_nil w) && forallb is_dec w); [|discriminate].
    cbn [lex_reg]. pose proof (alpha_ascii c Eal) as Hc.
    destruct (c <? 128) eqn:E128; [|apply Z.ltb_ge in E128; lia].
    destruct (parse_u8 10 w); try discriminate. destruct (v <? 8); discriminate. }
  eapply word_tok_np; [|exact H]. intros w. discriminate.
Qed.

(* ---------- the whole token stream: no panic, spans inside the input ---------- *)
Lemma lex_cons_no_panic t r : lex_cons t r = LexPanic -> r = LexPanic.
Proof. destruct r; cbn; congruence. Qed.

Lemma lex_at_fixed_no_panic : forall k s pos, (length s <= k)%nat -> lex_at true pos s <> LexPanic.
Proof.
  induction k as [|k IH]; intros s pos Hk.
  - destruct s; [|cbn [length] in Hk; lia]. rewrite lex_at_nil. discriminate.
  - destruct s as [|c r]; [rewrite lex_at_nil; discriminate|]. cbn [length] in Hk.
    rewrite lex_at_cons. destruct (is_blank c); [apply IH; lia|].
    destruct (lex_step true c r) as [[res n] rest] eqn:E.
    pose proof (lex_step_shorter _ _ _ _ _ _ E) as Hl.
    pose proof (lex_step_fixed_no_panic _ _ _ _ _ E) as Hp.
    destruct res; [|discriminate|congruence].
    intros Hc. apply lex_cons_no_panic in Hc. revert Hc. apply IH. lia.
Qed.

Theorem lex_no_panic s : lex s <> LexPanic.
Proof. unfold lex. rewrite lex_with_at. apply (lex_at_fixed_no_panic (length s)). apply le_n. Qed.

(* every token span and the error span lie inside [pos, pos + byte_len s], in order *)
Definition span_in (lo hi : Z) (sp : span) : Prop := lo <= fst sp /\ fst sp <= snd sp /\ snd sp <= hi.

Fixpoint spans_sorted (lo hi : Z) (l : list tok) : Prop :=
  match l with
  | [] => lo <= hi
  | (_, sp) :: r => lo <= fst sp /\ fst sp < snd sp /\ spans_sorted (snd sp) hi r
  end.

Lemma spans_sorted_le lo hi l : spans_sorted lo hi l -> lo <= hi.
Proof.
  revert lo. induction l as [|[t sp] r IH]; intros lo H; cbn [spans_sorted] in H; [exact H|].
  destruct H as [H1 [H2 H3]]. apply IH in H3. lia.
Qed.

Lemma lex_at_spans fx : forall k s pos, (length s <= k)%nat ->
  match lex_at fx pos s with
  | LexOk l => spans_sorted pos (pos + byte_len s) l
  | LexErr l e sp => exists mid, spans_sorted pos mid l /\ mid <= fst sp /\ fst sp < snd sp /\ snd sp <= pos + byte_len s
  | LexPanic => True
  end.
Proof.
  induction k as [|k IH]; intros s pos Hk.
  - destruct s; [|cbn [length] in Hk; lia]. rewrite lex_at_nil. cbn. lia.
  - destruct s as [|c r]; [rewrite lex_at_nil; cbn; lia|]. cbn [length] in Hk.
    rewrite lex_at_cons. destruct (is_blank c) eqn:Eb.
    + assert (Hc : utf8_len c = 1).
      { apply utf8_len_ascii. unfold is_blank in Eb. apply orb_prop in Eb. destruct Eb as [Eb|Eb]; apply Z.eqb_eq in Eb; lia. }
      specialize (IH r (pos + 1) ltac:(lia)). cbn [byte_len]. rewrite Hc.
      destruct (lex_at fx (pos + 1) r) as [l|l e sp|]; [| |exact Logic.I].
      * replace (pos + (1 + byte_len r)) with (pos + 1 + byte_len r) by lia.
        destruct l as [|[t sp] l]; cbn [spans_sorted] in IH |- *; [lia|]. destruct IH as [H1 H2]. split; [lia|exact H2].
      * destruct IH as [mid [H1 H2]]. exists mid. split.
        { destruct l as [|[t sp'] l]; cbn [spans_sorted] in H1 |- *; [lia|]. destruct H1 as [H1 H3]. split; [lia|exact H3]. }
        { lia. }
    + destruct (lex_step fx c r) as [[res n] rest] eqn:E.
      pose proof (lex_step_shorter _ _ _ _ _ _ E) as Hl.
      pose proof (lex_step_bytes _ _ _ _ _ _ E) as [Hb Hn].
      destruct res; [| |exact Logic.I].
      * specialize (IH rest (pos + n) ltac:(lia)).
        replace (pos + n + byte_len rest) with (pos + byte_len (c :: r)) in IH by lia.
        destruct (lex_at fx (pos + n) rest) as [l|l e sp|]; cbn [lex_cons]; [| |exact Logic.I].
        { cbn [spans_sorted fst snd]. repeat split; try lia. exact IH. }
        { destruct IH as [mid [H1 H2]]. exists mid. split; [|exact H2]. cbn [spans_sorted fst snd]. repeat split; try lia. exact H1. }
      * exists pos. cbn [spans_sorted fst snd]. pose proof (byte_len_nonneg rest). lia.
Qed.
