(* LineMapProofs.v — the line table of the text format: expanding the runs of a LineSymbolMap
   into one optional address per source line (the writer's BTreeMap, model [line_table]) and
   condensing that vector again (LineSymbolMap::new, model [lsm_new]) gives the runs back. *)
From Coq Require Import ZArith List Bool Lia.
From Model Require Import Tree Text Obj SourceInfo ObjBin ObjText.
From Proofs Require Import ObjBytesProofs ObjBinProofs SrcLinesProofs.
Import ListNotations.
Open Scope Z_scope.

(* the vector of optional addresses for lines cur .. n-1 *)
Fixpoint vec (cur : Z) (runs : linemap) (n : Z) : list (option Z) :=
  match runs with
  | [] => repeat None (Z.to_nat (n - cur))
  | (l, a) :: r => repeat None (Z.to_nat (l - cur)) ++ map Some a ++ vec (l + len a) r n
  end.
(* runs lie in [cur, n), are not empty, and an unmapped line follows each of them *)
Fixpoint runs_in (cur : Z) (runs : linemap) (n : Z) : Prop :=
  match runs with
  | [] => cur <= n
  | (l, a) :: r => cur <= l /\ a <> [] /\ runs_in (l + len a + 1) r n
  end.
Definition tbl (i : Z) (v : list (option Z)) : list (Z * option Z) := combine (seqz i (List.length v)) v.

Lemma runs_in_weaken runs : forall cur cur' n, cur' <= cur -> runs_in cur runs n -> runs_in cur' runs n.
Proof. destruct runs as [|[l a] r]; intros cur cur' n H Hr; cbn [runs_in] in *; [lia|]. destruct Hr as (H1 & H2 & H3). repeat split; [lia|exact H2|exact H3]. Qed.
Lemma runs_in_bound runs : forall cur n, runs_in cur runs n -> cur <= n.
Proof.
  induction runs as [|[l a] r IH]; intros cur n H; cbn [runs_in] in H; [exact H|].
  destruct H as (H1 & H2 & H3). apply IH in H3. pose proof (len_nonneg a). lia.
Qed.

Lemma length_vec runs : forall cur n, runs_in cur runs n -> len (vec cur runs n) = n - cur.
Proof.
  induction runs as [|[l a] r IH]; intros cur n H; cbn [runs_in vec] in *.
  - unfold len. rewrite repeat_length. lia.
  - destruct H as (H1 & H2 & H3). rewrite !len_app. unfold len at 1 2. rewrite repeat_length, map_length.
    rewrite IH by (eapply runs_in_weaken; [|exact H3]; lia). fold (len a). lia.
Qed.

Lemma len_repeat {A} (x : A) k : len (repeat x k) = Z.of_nat k.
Proof. unfold len. rewrite repeat_length. reflexivity. Qed.
Lemma len_map {A B} (f : A -> B) l : len (map f l) = len l.
Proof. unfold len. rewrite map_length. reflexivity. Qed.
Lemma tbl_cons i x v : tbl i (x :: v) = (i, x) :: tbl (i + 1) v.
Proof. reflexivity. Qed.
Lemma seqz_app i n m : seqz i (n + m) = seqz i n ++ seqz (i + Z.of_nat n) m.
Proof.
  revert i. induction n as [|n IH]; intro i; [cbn [seqz Nat.add app]; f_equal; lia|].
  cbn [Nat.add seqz app]. rewrite IH. f_equal. f_equal. f_equal. lia.
Qed.
Lemma tbl_app v : forall i w, tbl i (v ++ w) = tbl i v ++ tbl (i + len v) w.
Proof.
  induction v as [|x v IH]; intros i w.
  - cbn [app]. unfold len. cbn [List.length]. replace (i + Z.of_nat 0) with i by lia. reflexivity.
  - cbn [app]. rewrite !tbl_cons. rewrite IH. rewrite len_cons. cbn [app]. f_equal. f_equal. f_equal. lia.
Qed.
Lemma tbl_keys_lt i v k : i + len v <= k -> Forall (fun p : Z * option Z => fst p < k) (tbl i v).
Proof.
  revert i. induction v as [|x v IH]; intros i H; [constructor|]. rewrite tbl_cons. rewrite len_cons in H. pose proof (len_nonneg v).
  constructor; [cbn [fst]; lia|]. apply IH. lia.
Qed.
Lemma tbl_base n : map (fun l : Z => (l, @None Z)) (seqz 0 n) = tbl 0 (repeat None n).
Proof.
  unfold tbl. rewrite repeat_length. generalize 0. induction n as [|n IH]; intro i; [reflexivity|].
  cbn [seqz map repeat combine]. rewrite IH. reflexivity.
Qed.

Lemma bt_insert_at {V} k (x y : V) P Q : Forall (fun p => fst p < k) P ->
  bt_insert k x (P ++ (k, y) :: Q) = P ++ (k, x) :: Q.
Proof.
  induction 1 as [|[k' v'] P Hk _ IH]; cbn [app bt_insert].
  - rewrite Z.ltb_irrefl, Z.eqb_refl. reflexivity.
  - cbn [fst] in Hk. replace (k <? k') with false by (symmetry; apply Z.ltb_ge; lia).
    replace (k =? k') with false by (symmetry; apply Z.eqb_neq; lia). rewrite IH. reflexivity.
Qed.

Lemma add_run_tbl a : forall l P m, Forall (fun p : Z * option Z => fst p < l) P -> 0 <= l -> l + len a <= 18446744073709551616 ->
  (List.length a <= m)%nat ->
  add_run l a (P ++ tbl l (repeat None m)) = P ++ tbl l (map Some a ++ repeat None (m - List.length a)).
Proof.
  induction a as [|x a IH]; intros l P m HP Hl Hb Hm.
  - cbn [add_run map app List.length]. rewrite Nat.sub_0_r. reflexivity.
  - rewrite len_cons in Hb. pose proof (len_nonneg a). cbn [List.length] in Hm.
    destruct m as [|m]; [lia|]. cbn [add_run repeat]. rewrite tbl_cons.
    rewrite Z.mod_small by lia. rewrite bt_insert_at by exact HP.
    change (P ++ (l, Some x) :: tbl (l + 1) (repeat None m)) with (P ++ [(l, Some x)] ++ tbl (l + 1) (repeat None m)).
    rewrite app_assoc. rewrite IH; [| |lia|lia|lia].
    + rewrite <- app_assoc. cbn [map app List.length Nat.sub]. rewrite tbl_cons. reflexivity.
    + apply Forall_app. split; [eapply Forall_impl; [|exact HP]; cbn; intros; lia|repeat constructor; cbn; lia].
Qed.

Theorem line_table_vec runs : forall cur P n, runs_in cur runs n -> 0 <= cur -> n <= 18446744073709551616 ->
  Forall (fun p : Z * option Z => fst p < cur) P ->
  fold_left (fun t b => add_run (fst b) (snd b) t) runs (P ++ tbl cur (repeat None (Z.to_nat (n - cur))))
  = P ++ tbl cur (vec cur runs n).
Proof.
  induction runs as [|[l a] r IH]; intros cur P n Hr Hc Hn HP; cbn [fold_left vec runs_in fst snd] in *; [reflexivity|].
  destruct Hr as (H1 & H2 & H3). pose proof (runs_in_bound _ _ _ H3) as Hbn. pose proof (len_nonneg a).
  replace (Z.to_nat (n - cur)) with (Z.to_nat (l - cur) + Z.to_nat (n - l))%nat by lia.
  rewrite repeat_app, tbl_app, app_assoc.
  rewrite len_repeat. replace (cur + Z.of_nat (Z.to_nat (l - cur))) with l by lia.
  rewrite add_run_tbl; [| |lia|lia|unfold len in *; lia].
  2:{ apply Forall_app. split; [eapply Forall_impl; [|exact HP]; cbn; intros; lia|].
      apply tbl_keys_lt. rewrite len_repeat. lia. }
  rewrite tbl_app. rewrite len_map.
  replace (Z.to_nat (n - l) - List.length a)%nat with (Z.to_nat (n - (l + len a))) by (unfold len; lia).
  rewrite app_assoc. rewrite IH; [| |lia|lia|].
  - rewrite <- !app_assoc. rewrite !tbl_app. rewrite len_repeat, len_map.
    replace (cur + Z.of_nat (Z.to_nat (l - cur))) with l by lia. reflexivity.
  - eapply runs_in_weaken; [|exact H3]. lia.
  - apply Forall_app. split.
    + apply Forall_app. split; [eapply Forall_impl; [|exact HP]; cbn; intros; lia|].
      eapply Forall_impl; [|apply (tbl_keys_lt cur _ l); rewrite len_repeat; lia]. cbn. intros; lia.
    + apply tbl_keys_lt. rewrite len_map. lia.
Qed.

(* ---------- condensing the vector again ---------- *)
Lemma lsm_runs_nones k : forall rest i acc, lsm_runs (repeat None k ++ rest) i None acc = lsm_runs rest (i + Z.of_nat k) None acc.
Proof.
  induction k as [|k IH]; intros rest i acc; [cbn [repeat app]; f_equal; lia|].
  cbn [repeat app lsm_runs]. rewrite IH. f_equal. lia.
Qed.
Lemma lsm_runs_somes a : forall rest i c acc,
  lsm_runs (map Some a ++ rest) i (Some c) acc = lsm_runs rest (i + len a) (Some (c ++ a)) acc.
Proof.
  induction a as [|x a IH]; intros rest i c acc; [cbn [map app]; rewrite app_nil_r; f_equal; unfold len; cbn; lia|].
  cbn [map app lsm_runs]. rewrite IH. rewrite len_cons, <- app_assoc. f_equal. lia.
Qed.

Theorem lsm_runs_vec runs : forall cur n acc, runs_in cur runs n -> 0 <= cur ->
  Forall (fun p : Z * list Z => fst p < cur) acc ->
  lsm_runs (vec cur runs n) cur None acc = ROk (acc ++ runs).
Proof.
  induction runs as [|[l a] r IH]; intros cur n acc Hr Hc Hacc; cbn [vec runs_in] in *.
  - rewrite <- (app_nil_r (repeat None _)), lsm_runs_nones. cbn [lsm_runs]. rewrite app_nil_r. reflexivity.
  - destruct Hr as (H1 & H2 & H3). pose proof (len_nonneg a).
    rewrite lsm_runs_nones. replace (cur + Z.of_nat (Z.to_nat (l - cur))) with l by lia.
    destruct a as [|x a]; [contradiction|]. cbn [map app lsm_runs].
    rewrite lsm_runs_somes. cbn [app].
    (* the next element of the vector is an unmapped line *)
    assert (Hnext : exists rest, vec (l + len (x :: a)) r n = None :: rest /\
                                 rest = vec (l + len (x :: a) + 1) r n).
    { pose proof (runs_in_bound _ _ _ H3) as Hb.
      destruct r as [|[l' a'] r']; cbn [vec runs_in] in *.
      - replace (Z.to_nat (n - (l + len (x :: a)))) with (S (Z.to_nat (n - (l + len (x :: a) + 1)))) by lia.
        eexists. split; reflexivity.
      - destruct H3 as (G1 & G2 & G3).
        replace (Z.to_nat (l' - (l + len (x :: a)))) with (S (Z.to_nat (l' - (l + len (x :: a) + 1)))) by lia.
        eexists. split; reflexivity. }
    destruct Hnext as (rest & E1 & E2). rewrite E1. cbn [lsm_runs].
    assert (Ekey : l + 1 + len a - len (x :: a) = l) by (rewrite len_cons; lia). rewrite Ekey.
    replace (l <? 0) with false by (symmetry; apply Z.ltb_ge; lia).
    rewrite bt_insert_last by (eapply Forall_impl; [|exact Hacc]; cbn; intros; lia).
    rewrite E2. replace (l + 1 + len a + 1) with (l + len (x :: a) + 1) by (rewrite len_cons; lia).
    rewrite IH; [rewrite <- app_assoc; reflexivity|exact H3|lia|].
    apply Forall_app. split; [eapply Forall_impl; [|exact Hacc]; cbn; intros; lia|repeat constructor; cbn; lia].
Qed.
