(* LinkBlocks.v — lemmas about the block map of the linker model (model/Link.v):
   sorted insertion, the adjacent-pair overlap check and its completeness, the memory image as a
   map, and `get_mut`-style word replacement. *)
From Coq Require Import ZArith List Bool Lia.
From Model Require Import Tree Bits Text SourceInfo Obj Link.
Import ListNotations.
Open Scope Z_scope.
Ltac Zify.zify_post_hook ::= Z.div_mod_to_equations.

(* ---------- strings ---------- *)
Lemma str_eqb_refl a : str_eqb a a = true.
Proof. induction a as [|x a IH]; cbn; [reflexivity|]. rewrite Z.eqb_refl. exact IH. Qed.
Lemma str_eqb_eq a b : str_eqb a b = true <-> a = b.
Proof.
  revert b. induction a as [|x a IH]; intros [|y b]; cbn; split; intro H; try discriminate; try reflexivity.
  - apply andb_true_iff in H. destruct H as (H1 & H2). apply Z.eqb_eq in H1. apply IH in H2. congruence.
  - inversion H; subst. rewrite Z.eqb_refl. apply str_eqb_refl.
Qed.
Lemma str_eqb_neq a b : str_eqb a b = false <-> a <> b.
Proof.
  split; intro H.
  - intro E. apply str_eqb_eq in E. congruence.
  - destruct (str_eqb a b) eqn:E; [|reflexivity]. apply str_eqb_eq in E. contradiction.
Qed.
Lemma str_eqb_sym a b : str_eqb a b = str_eqb b a.
Proof.
  destruct (str_eqb a b) eqn:E.
  - apply str_eqb_eq in E. subst. symmetry. apply str_eqb_refl.
  - symmetry. apply str_eqb_neq. apply str_eqb_neq in E. congruence.
Qed.

Lemma zlen_nonneg {A} (l : list A) : 0 <= zlen l.
Proof. unfold zlen. lia. Qed.
Lemma zlen_cons {A} (x : A) l : zlen (x :: l) = 1 + zlen l.
Proof. unfold zlen. cbn [List.length]. lia. Qed.

(* ---------- shape of a block list ---------- *)
(* keys strictly increasing, the first at least lo *)
Fixpoint sorted_from (lo : Z) (l : blocks) : Prop :=
  match l with
  | [] => True
  | (s, _) :: r => lo <= s /\ sorted_from (s + 1) r
  end.
Definition sized (b : Z * list (option Z)) : Prop := 0 <= fst b /\ 0 < zlen (snd b) /\ fst b + zlen (snd b) <= 65535.

Lemma sorted_from_weaken lo lo' l : lo' <= lo -> sorted_from lo l -> sorted_from lo' l.
Proof. destruct l as [|(s, ws) r]; cbn; [auto|]. intros H (H1 & H2). split; [lia|assumption]. Qed.
Lemma sorted_from_in lo l s ws : sorted_from lo l -> In (s, ws) l -> lo <= s.
Proof.
  revert lo. induction l as [|(s', ws') r IH]; cbn; intros lo Hs Hin; [contradiction|].
  destruct Hs as (H1 & H2). destruct Hin as [E|Hin].
  - inversion E; subst. exact H1.
  - specialize (IH _ H2 Hin). lia.
Qed.

Lemma blocks_ok_sorted_from lo bs : blocks_ok lo bs = true -> sorted_from lo bs.
Proof.
  revert lo. induction bs as [|(s, ws) r IH]; cbn; intros lo H; [trivial|].
  repeat (apply andb_true_iff in H; destruct H as (H & ?)).
  apply Z.leb_le in H. apply Z.ltb_lt in H2. apply Z.leb_le in H1.
  split; [exact H|]. eapply sorted_from_weaken; [|apply IH; exact H0]. lia.
Qed.
Lemma blocks_ok_sized lo bs : 0 <= lo -> blocks_ok lo bs = true -> Forall sized bs.
Proof.
  revert lo. induction bs as [|(s, ws) r IH]; cbn; intros lo Hlo H; [constructor|].
  repeat (apply andb_true_iff in H; destruct H as (H & ?)).
  apply Z.leb_le in H. apply Z.ltb_lt in H2. apply Z.leb_le in H1.
  constructor; [repeat split; cbn; lia|]. apply (IH (s + zlen ws)); [lia|exact H0].
Qed.
(* every block is non-empty (whatever lo) *)
Lemma blocks_ok_sized_gen lo bs : blocks_ok lo bs = true -> Forall (fun b => 0 < zlen (snd b)) bs.
Proof.
  revert lo. induction bs as [|(s, ws) r IH]; cbn; intros lo H; [constructor|].
  repeat (apply andb_true_iff in H; destruct H as (H & ?)). apply Z.ltb_lt in H2.
  constructor; [exact H2|]. eapply IH; eauto.
Qed.
Lemma blocks_ok_weaken lo lo' bs : lo' <= lo -> blocks_ok lo bs = true -> blocks_ok lo' bs = true.
Proof.
  destruct bs as [|(s, ws) r]; cbn; [auto|]. intros Hl H.
  repeat (apply andb_true_iff in H; destruct H as (H & ?)).
  rewrite H0, H1, H2. apply Z.leb_le in H. replace (lo' <=? s) with true by (symmetry; apply Z.leb_le; lia).
  reflexivity.
Qed.

(* ---------- bt_insert / insert_blocks ---------- *)
Lemma bt_insert_some {V} k (v : V) l l' (lo : Z) :
  bt_insert k v l = Some l' ->
  (forall x, In x l' <-> (k, v) = x \/ In x l).
Proof.
  revert l'. induction l as [|(k', v') r IH]; cbn; intros l' H.
  - inversion H; subst. cbn. intro x. tauto.
  - destruct (k <? k') eqn:E1.
    + inversion H; subst. cbn. intro x. tauto.
    + destruct (k =? k') eqn:E2; [discriminate|].
      destruct (bt_insert k v r) as [r'|] eqn:E3; [|discriminate].
      inversion H; subst. intro x. cbn. rewrite (IH _ eq_refl x). tauto.
Qed.
Lemma bt_insert_sorted k v (l l' : blocks) lo :
  bt_insert k v l = Some l' -> sorted_from lo l -> lo <= k -> sorted_from lo l'.
Proof.
  revert l' lo. induction l as [|(k', v') r IH]; cbn; intros l' lo H Hs Hk.
  - inversion H; subst. cbn. auto.
  - destruct Hs as (S1 & S2). destruct (k <? k') eqn:E1.
    + apply Z.ltb_lt in E1. inversion H; subst. cbn. repeat split; try lia.
      eapply sorted_from_weaken; [|exact S2]. lia.
    + destruct (k =? k') eqn:E2; [discriminate|]. apply Z.ltb_ge in E1. apply Z.eqb_neq in E2.
      destruct (bt_insert k v r) as [r'|] eqn:E3; [|discriminate].
      inversion H; subst. cbn. split; [exact S1|]. eapply IH; eauto. lia.
Qed.
Lemma bt_insert_none {V} k (v : V) l : bt_insert k v l = None -> exists v', In (k, v') l.
Proof.
  induction l as [|(k', v') r IH]; cbn; [discriminate|].
  destruct (k <? k'); [discriminate|]. destruct (k =? k') eqn:E.
  - intros _. apply Z.eqb_eq in E. subst. eauto.
  - destruct (bt_insert k v r); [discriminate|]. intros _. destruct (IH eq_refl) as (v'' & H). eauto.
Qed.
Lemma bt_insert_fresh {V} k (v : V) l : (forall v', ~ In (k, v') l) -> exists l', bt_insert k v l = Some l'.
Proof.
  intro H. destruct (bt_insert k v l) eqn:E; [eauto|]. destruct (bt_insert_none _ _ _ E) as (v' & Hin).
  exfalso. eapply H; eauto.
Qed.

Lemma insert_blocks_some bs acc r :
  insert_blocks bs acc = Some r -> forall x, In x r <-> In x bs \/ In x acc.
Proof.
  revert acc r. induction bs as [|(k, v) bs IH]; cbn; intros acc r H x.
  - inversion H; subst. tauto.
  - destruct (bt_insert k v acc) as [acc'|] eqn:E; [|discriminate].
    rewrite (IH _ _ H x). rewrite (bt_insert_some _ _ _ _ 0 E x). split; intros [A|B]; auto.
    + destruct B; auto.
    + destruct A; auto.
Qed.
Lemma insert_blocks_sorted bs acc r :
  insert_blocks bs acc = Some r -> sorted_from 0 acc -> (forall s ws, In (s, ws) bs -> 0 <= s) -> sorted_from 0 r.
Proof.
  revert acc r. induction bs as [|(k, v) bs IH]; cbn; intros acc r H Hs Hk.
  - inversion H; subst. exact Hs.
  - destruct (bt_insert k v acc) as [acc'|] eqn:E; [|discriminate].
    eapply IH; eauto. eapply bt_insert_sorted; eauto.
Qed.
(* the keys of a sorted list are pairwise different *)
Lemma sorted_from_key_unique lo l s ws ws' : sorted_from lo l -> In (s, ws) l -> In (s, ws') l -> ws = ws'.
Proof.
  revert lo. induction l as [|(k, v) r IH]; cbn; intros lo Hs H1 H2; [contradiction|].
  destruct Hs as (S1 & S2).
  destruct H1 as [E1|H1], H2 as [E2|H2].
  - congruence.
  - inversion E1; subst. pose proof (sorted_from_in _ _ _ _ S2 H2). lia.
  - inversion E2; subst. pose proof (sorted_from_in _ _ _ _ S2 H1). lia.
  - eauto.
Qed.
Lemma insert_blocks_total bs acc lo :
  sorted_from lo bs -> (forall s ws ws', In (s, ws) bs -> ~ In (s, ws') acc) ->
  exists r, insert_blocks bs acc = Some r.
Proof.
  revert acc lo. induction bs as [|(k, v) bs IH]; cbn; intros acc lo Hs Hf; [eauto|].
  destruct Hs as (S1 & S2).
  destruct (bt_insert_fresh k v acc) as (acc' & E); [intros v' Hin; eapply Hf; eauto|].
  rewrite E. eapply IH; [exact S2|].
  intros s ws ws' Hin Hacc. apply (bt_insert_some _ _ _ _ 0 E) in Hacc. destruct Hacc as [Eq|Hacc].
  - inversion Eq; subst. pose proof (sorted_from_in _ _ _ _ S2 Hin). lia.
  - eapply Hf; eauto.
Qed.
Lemma bt_insert_some_fresh k v (l l' : blocks) lo : sorted_from lo l -> bt_insert k v l = Some l' -> forall v', ~ In (k, v') l.
Proof.
  revert l' lo. induction l as [|(k', w) r IH]; cbn; intros l' lo Hs H v' Hin; [contradiction|].
  destruct Hs as (S1 & S2). destruct (k <? k') eqn:E1.
  - apply Z.ltb_lt in E1. destruct Hin as [E|Hin]; [inversion E; lia|].
    pose proof (sorted_from_in _ _ _ _ S2 Hin). lia.
  - destruct (k =? k') eqn:E2; [discriminate|]. apply Z.eqb_neq in E2.
    destruct (bt_insert k v r) as [r'|] eqn:E3; [|discriminate].
    destruct Hin as [E|Hin]; [inversion E; congruence|]. eapply IH; eauto.
Qed.
Lemma insert_blocks_fresh bs acc r : sorted_from 0 acc -> (forall s ws, In (s, ws) bs -> 0 <= s) ->
  insert_blocks bs acc = Some r -> forall s ws ws', In (s, ws) bs -> ~ In (s, ws') acc.
Proof.
  revert acc r. induction bs as [|(k, v) bs IH]; cbn; intros acc r Hs Hk H s ws ws' Hin Hacc; [contradiction|].
  destruct (bt_insert k v acc) as [acc'|] eqn:E; [|discriminate].
  destruct Hin as [Eq|Hin].
  - inversion Eq; subst. eapply bt_insert_some_fresh; eauto.
  - eapply (IH acc' r); eauto.
    + eapply bt_insert_sorted; eauto.
    + apply (bt_insert_some _ _ _ _ 0 E). right. exact Hacc.
Qed.
Lemma insert_blocks_none bs acc : insert_blocks bs acc = None ->
  exists s ws ws', In (s, ws) bs /\ (In (s, ws') acc \/ In (s, ws') bs).
Proof.
  revert acc. induction bs as [|(k, v) bs IH]; cbn; intros acc H; [discriminate|].
  destruct (bt_insert k v acc) as [acc'|] eqn:E.
  - destruct (IH _ H) as (s & ws & ws' & H1 & H2). exists s, ws, ws'. split; [auto|].
    destruct H2 as [H2|H2]; [|auto]. apply (bt_insert_some _ _ _ _ 0 E) in H2. destruct H2 as [Eq|H2]; [|auto].
    inversion Eq; subst. auto.
  - destruct (bt_insert_none _ _ _ E) as (v' & Hin). exists k, v, v'. auto.
Qed.

(* ---------- the adjacent-pair check ---------- *)
Lemma wrap16_small z : 0 <= z < 65536 -> wrap16 z = z.
Proof. intro H. unfold wrap16. apply Z.mod_small. exact H. Qed.

Lemma adj_check_cons2 a_st a_bl b_st b_bl r :
  adj_check ((a_st, a_bl) :: (b_st, b_bl) :: r) =
  if 65535 <? a_st + wrap16 (zlen a_bl) then AdjPanic else
  if 65535 <? b_st + wrap16 (zlen b_bl) then AdjPanic else
  if (a_st <? b_st + wrap16 (zlen b_bl)) && (b_st <? a_st + wrap16 (zlen a_bl)) then AdjOverlap
  else adj_check ((b_st, b_bl) :: r).
Proof. reflexivity. Qed.

(* on blocks sorted by start whose ends do not pass xFFFF, the adjacent-pair check succeeds
   exactly when every block ends before the next one starts (chain form) *)
Lemma adj_check_of_chain lo l : 0 <= lo -> blocks_ok lo l = true -> adj_check l = AdjOk.
Proof.
  revert lo. induction l as [|(a_st, a_bl) r IH]; intros lo Hlo H; [reflexivity|].
  cbn [blocks_ok] in H. repeat (apply andb_true_iff in H; destruct H as (H & ?)).
  apply Z.leb_le in H. apply Z.ltb_lt in H2. apply Z.leb_le in H1.
  destruct r as [|(b_st, b_bl) r']; [reflexivity|].
  pose proof H0 as K. cbn [blocks_ok] in K. repeat (apply andb_true_iff in K; destruct K as (K & ?)).
  apply Z.leb_le in K. apply Z.ltb_lt in H5. apply Z.leb_le in H4.
  rewrite adj_check_cons2. rewrite !wrap16_small by lia.
  replace (65535 <? a_st + zlen a_bl) with false by (symmetry; apply Z.ltb_ge; lia).
  replace (65535 <? b_st + zlen b_bl) with false by (symmetry; apply Z.ltb_ge; lia).
  replace (b_st <? a_st + zlen a_bl) with false by (symmetry; apply Z.ltb_ge; lia).
  rewrite andb_false_r. apply (IH (a_st + zlen a_bl)); [lia|exact H0].
Qed.
Lemma chain_of_adj_check lo l : 0 <= lo -> sorted_from lo l -> Forall sized l ->
  adj_check l = AdjOk -> blocks_ok lo l = true.
Proof.
  revert lo. induction l as [|(a_st, a_bl) r IH]; intros lo Hlo Hs Hz H; [reflexivity|].
  inversion Hz as [|? ? (Z0 & Z1 & Z2) Hz']; subst. cbn in Z0, Z1, Z2. destruct Hs as (S1 & S2).
  cbn [blocks_ok].
  replace (lo <=? a_st) with true by (symmetry; apply Z.leb_le; lia).
  replace (0 <? zlen a_bl) with true by (symmetry; apply Z.ltb_lt; lia).
  replace (a_st + zlen a_bl <=? 65535) with true by (symmetry; apply Z.leb_le; lia).
  cbn [andb].
  destruct r as [|(b_st, b_bl) r']; [reflexivity|].
  inversion Hz' as [|? ? (Y0 & Y1 & Y2) Hz'']; subst. cbn in Y0, Y1, Y2. destruct S2 as (T1 & T2).
  rewrite adj_check_cons2 in H. rewrite !wrap16_small in H by lia.
  replace (65535 <? a_st + zlen a_bl) with false in H by (symmetry; apply Z.ltb_ge; lia).
  replace (65535 <? b_st + zlen b_bl) with false in H by (symmetry; apply Z.ltb_ge; lia).
  replace (a_st <? b_st + zlen b_bl) with true in H by (symmetry; apply Z.ltb_lt; lia).
  cbn [andb] in H. destruct (b_st <? a_st + zlen a_bl) eqn:E; [discriminate|]. apply Z.ltb_ge in E.
  apply IH; [lia| |exact Hz'|exact H]. split; [exact E|exact T2].
Qed.
(* ... and never panics *)
Lemma adj_check_no_panic lo l : 0 <= lo -> sorted_from lo l -> Forall sized l -> adj_check l <> AdjPanic.
Proof.
  revert lo. induction l as [|(a_st, a_bl) r IH]; intros lo Hlo Hs Hz; [discriminate|].
  inversion Hz as [|? ? (Z0 & Z1 & Z2) Hz']; subst. cbn in Z0, Z1, Z2. destruct Hs as (S1 & S2).
  destruct r as [|(b_st, b_bl) r']; [discriminate|].
  inversion Hz' as [|? ? (Y0 & Y1 & Y2) Hz'']; subst. cbn in Y0, Y1, Y2. pose proof S2 as (T1 & T2).
  rewrite adj_check_cons2. rewrite !wrap16_small by lia.
  replace (65535 <? a_st + zlen a_bl) with false by (symmetry; apply Z.ltb_ge; lia).
  replace (65535 <? b_st + zlen b_bl) with false by (symmetry; apply Z.ltb_ge; lia).
  destruct ((a_st <? b_st + zlen b_bl) && (b_st <? a_st + zlen a_bl)); [discriminate|].
  apply (IH (a_st + 1)); [lia|exact S2|exact Hz'].
Qed.

(* Completeness of checking adjacent pairs only: on blocks sorted by start, the check succeeds
   iff EVERY two blocks are disjoint (the earlier one ends before the later one starts). *)
Lemma chain_pairs lo l : blocks_ok lo l = true ->
  ForallOrdPairs (fun x y => fst x + zlen (snd x) <= fst y) l.
Proof.
  revert lo. induction l as [|(s, ws) r IH]; intros lo H; [constructor|].
  cbn [blocks_ok] in H. repeat (apply andb_true_iff in H; destruct H as (H & ?)).
  constructor; [|eapply IH; eauto].
  apply Forall_forall. intros (s', ws') Hin. cbn.
  pose proof (blocks_ok_sorted_from _ _ H0) as S. pose proof (sorted_from_in _ _ _ _ S Hin) as K. exact K.
Qed.
Lemma pairs_chain lo l : sorted_from lo l -> Forall sized l ->
  ForallOrdPairs (fun x y => fst x + zlen (snd x) <= fst y) l -> blocks_ok lo l = true.
Proof.
  revert lo. induction l as [|(s, ws) r IH]; intros lo Hs Hz Hp; [reflexivity|].
  inversion Hz as [|? ? (Z0 & Z1 & Z2) Hz']; subst. cbn in Z0, Z1, Z2. destruct Hs as (S1 & S2).
  inversion Hp as [|? ? Hh Hp']; subst.
  cbn [blocks_ok].
  replace (lo <=? s) with true by (symmetry; apply Z.leb_le; lia).
  replace (0 <? zlen ws) with true by (symmetry; apply Z.ltb_lt; lia).
  replace (s + zlen ws <=? 65535) with true by (symmetry; apply Z.leb_le; lia).
  cbn [andb]. apply IH; [|exact Hz'|exact Hp'].
  destruct r as [|(s', ws') r']; [trivial|]. destruct S2 as (T1 & T2). split; [|exact T2].
  inversion Hh; subst. cbn in *. assumption.
Qed.
Theorem adjacent_pair_check_complete_lemma l : sorted_from 0 l -> Forall sized l ->
  (adj_check l = AdjOk <-> ForallOrdPairs (fun x y => fst x + zlen (snd x) <= fst y) l).
Proof.
  intros Hs Hz. split; intro H.
  - eapply chain_pairs. apply chain_of_adj_check; eauto. lia.
  - eapply adj_check_of_chain; [|eapply pairs_chain; eauto]. lia.
Qed.

(* ---------- the image as a map ---------- *)
Lemma nth_error_in_range {A} (l : list A) (i : Z) : 0 <= i < zlen l -> exists x, nth_error l (Z.to_nat i) = Some x.
Proof.
  intro H. destruct (nth_error l (Z.to_nat i)) eqn:E; [eauto|].
  apply nth_error_None in E. unfold zlen in H. lia.
Qed.
Lemma nth_error_some_range {A} (l : list A) (i : Z) x : 0 <= i -> nth_error l (Z.to_nat i) = Some x -> i < zlen l.
Proof.
  intros H E. assert (K : nth_error l (Z.to_nat i) <> None) by congruence.
  apply nth_error_Some in K. unfold zlen. lia.
Qed.

Definition covers (b : Z * list (option Z)) (addr : Z) : Prop := fst b <= addr < fst b + zlen (snd b).

Lemma img_blocks_in bs addr w :
  img_blocks bs addr = Some w -> exists s ws, In (s, ws) bs /\ covers (s, ws) addr /\ nth_error ws (Z.to_nat (addr - s)) = Some w.
Proof.
  induction bs as [|(s, ws) r IH]; cbn; [discriminate|].
  destruct ((s <=? addr) && (addr <? s + zlen ws)) eqn:E.
  - intro H. apply andb_true_iff in E. destruct E as (E1 & E2). apply Z.leb_le in E1. apply Z.ltb_lt in E2.
    exists s, ws. unfold covers. cbn. auto.
  - intro H. destruct (IH H) as (s' & ws' & H1 & H2 & H3). exists s', ws'. auto.
Qed.
Lemma img_blocks_of_in lo bs addr s ws : blocks_ok lo bs = true -> In (s, ws) bs -> covers (s, ws) addr ->
  img_blocks bs addr = nth_error ws (Z.to_nat (addr - s)).
Proof.
  revert lo. induction bs as [|(s', ws') r IH]; cbn [In img_blocks blocks_ok]; intros lo Hok Hin Hc; [contradiction|].
  repeat (apply andb_true_iff in Hok; destruct Hok as (Hok & ?)).
  unfold covers in Hc. cbn in Hc.
  destruct Hin as [E|Hin].
  - inversion E; subst.
    replace ((s <=? addr) && (addr <? s + zlen ws)) with true; [reflexivity|].
    symmetry. apply andb_true_iff. split; [apply Z.leb_le|apply Z.ltb_lt]; lia.
  - pose proof (blocks_ok_sorted_from _ _ H) as K. pose proof (sorted_from_in _ _ _ _ K Hin).
    replace ((s' <=? addr) && (addr <? s' + zlen ws')) with false; [eapply IH; eauto|].
    symmetry. apply andb_false_iff. right. apply Z.ltb_ge. lia.
Qed.
Lemma img_blocks_none bs addr : img_blocks bs addr = None <-> forall s ws, In (s, ws) bs -> ~ covers (s, ws) addr.
Proof.
  induction bs as [|(s, ws) r IH]; cbn.
  - split; [intros _ ? ? []|reflexivity].
  - destruct ((s <=? addr) && (addr <? s + zlen ws)) eqn:E.
    + apply andb_true_iff in E. destruct E as (E1 & E2). apply Z.leb_le in E1. apply Z.ltb_lt in E2.
      split.
      * intro H. destruct (nth_error_in_range ws (addr - s)) as (x & Hx); [lia|]. congruence.
      * intro H. exfalso. apply (H s ws); [auto|]. unfold covers. cbn. lia.
    + rewrite IH. split.
      * intros H s' ws' [Eq|Hin]; [|auto]. inversion Eq; subst. unfold covers. cbn.
        apply andb_false_iff in E. destruct E as [E|E]; [apply Z.leb_gt in E|apply Z.ltb_ge in E]; lia.
      * intros H s' ws' Hin. apply H. auto.
Qed.
Lemma covered_iff bs addr : covered bs addr = true <-> exists s ws, In (s, ws) bs /\ covers (s, ws) addr.
Proof.
  unfold covered. destruct (img_blocks bs addr) eqn:E.
  - split; [|reflexivity]. intros _. destruct (img_blocks_in _ _ _ E) as (s & ws & H1 & H2 & _). eauto.
  - split; [discriminate|]. intros (s & ws & H1 & H2). rewrite img_blocks_none in E. exfalso. eapply E; eauto.
Qed.

(* two chain-form lists with the same blocks have the same image *)
Lemma img_blocks_ext lo lo' bs bs' : blocks_ok lo bs = true -> blocks_ok lo' bs' = true ->
  (forall x, In x bs <-> In x bs') -> forall addr, img_blocks bs addr = img_blocks bs' addr.
Proof.
  intros H1 H2 Hin addr. destruct (img_blocks bs addr) eqn:E.
  - destruct (img_blocks_in _ _ _ E) as (s & ws & I1 & I2 & I3).
    rewrite (img_blocks_of_in lo' bs' addr s ws H2); [congruence| |assumption]. apply Hin. assumption.
  - symmetry. apply img_blocks_none. intros s ws Hi. rewrite img_blocks_none in E. apply E. apply Hin. assumption.
Qed.

(* ---------- set_word ---------- *)
Lemma set_nth_some {A} (l : list A) n x : (n < List.length l)%nat ->
  exists l', set_nth l n x = Some l' /\ List.length l' = List.length l /\
             forall m, nth_error l' m = if Nat.eqb m n then Some x else nth_error l m.
Proof.
  revert n. induction l as [|y r IH]; cbn; intros n Hn; [lia|].
  destruct n as [|n].
  - eexists. split; [reflexivity|]. split; [reflexivity|]. intros [|m]; reflexivity.
  - destruct (IH n) as (r' & E1 & E2 & E3); [lia|]. rewrite E1. eexists. split; [reflexivity|].
    split; [cbn; lia|]. intros [|m]; cbn; [reflexivity|]. apply E3.
Qed.

Lemma set_word_later s ws s' ws' r addr v : s' <= addr ->
  set_word ((s, ws) :: (s', ws') :: r) addr v =
  match set_word ((s', ws') :: r) addr v with Some r' => Some ((s, ws) :: r') | None => None end.
Proof.
  intro H. change (set_word ((s, ws) :: (s', ws') :: r) addr v) with
    (if s' <=? addr then match set_word ((s', ws') :: r) addr v with Some r' => Some ((s, ws) :: r') | None => None end
     else if s <=? addr then match set_nth ws (Z.to_nat (addr - s)) (Some v) with Some ws'0 => Some ((s, ws'0) :: (s', ws') :: r) | None => None end else None).
  replace (s' <=? addr) with true by (symmetry; apply Z.leb_le; lia). reflexivity.
Qed.

Lemma set_word_spec lo bs addr v w0 : blocks_ok lo bs = true -> img_blocks bs addr = Some w0 ->
  exists bs', set_word bs addr v = Some bs' /\ blocks_ok lo bs' = true /\
              (forall x, img_blocks bs' x = if x =? addr then Some (Some v) else img_blocks bs x).
Proof.
  revert lo. induction bs as [|(s, ws) r IH]; intros lo Hok Himg; [discriminate|].
  cbn [blocks_ok] in Hok. repeat (apply andb_true_iff in Hok; destruct Hok as (Hok & ?)).
  apply Z.leb_le in Hok. apply Z.ltb_lt in H1. apply Z.leb_le in H0.
  cbn [img_blocks] in Himg.
  destruct ((s <=? addr) && (addr <? s + zlen ws)) eqn:E.
  - (* the word is in this block; no later block starts at or before addr *)
    apply andb_true_iff in E. destruct E as (E1 & E2). apply Z.leb_le in E1. apply Z.ltb_lt in E2.
    destruct (set_nth_some ws (Z.to_nat (addr - s)) (Some v)) as (ws' & S1 & S2 & S3); [unfold zlen in E2; lia|].
    assert (Hz : zlen ws' = zlen ws) by (unfold zlen; lia).
    exists ((s, ws') :: r).
    assert (Hset : set_word ((s, ws) :: r) addr v = Some ((s, ws') :: r)).
    { cbn [set_word]. replace (s <=? addr) with true by (symmetry; apply Z.leb_le; lia). rewrite S1.
      destruct r as [|(s', ws'') r']; [reflexivity|].
      cbn [blocks_ok] in H. repeat (apply andb_true_iff in H; destruct H as (H & ?)). apply Z.leb_le in H.
      replace (s' <=? addr) with false by (symmetry; apply Z.leb_gt; lia). reflexivity. }
    split; [exact Hset|]. split.
    + cbn [blocks_ok]. rewrite Hz.
      replace (lo <=? s) with true by (symmetry; apply Z.leb_le; lia).
      replace (0 <? zlen ws) with true by (symmetry; apply Z.ltb_lt; lia).
      replace (s + zlen ws <=? 65535) with true by (symmetry; apply Z.leb_le; lia). exact H.
    + intro x. cbn [img_blocks]. rewrite Hz.
      destruct ((s <=? x) && (x <? s + zlen ws)) eqn:Ex.
      * apply andb_true_iff in Ex. destruct Ex as (X1 & X2). apply Z.leb_le in X1. apply Z.ltb_lt in X2.
        rewrite S3. destruct (x =? addr) eqn:Exa.
        -- apply Z.eqb_eq in Exa. subst. rewrite Nat.eqb_refl. reflexivity.
        -- apply Z.eqb_neq in Exa. replace (Nat.eqb (Z.to_nat (x - s)) (Z.to_nat (addr - s))) with false; [reflexivity|].
           symmetry. apply Nat.eqb_neq. lia.
      * destruct (x =? addr) eqn:Exa; [|reflexivity]. apply Z.eqb_eq in Exa. subst.
        apply andb_false_iff in Ex. destruct Ex as [Ex|Ex]; [apply Z.leb_gt in Ex|apply Z.ltb_ge in Ex]; lia.
  - (* the word is in a later block *)
    destruct (IH _ H Himg) as (r' & R1 & R2 & R3).
    destruct (img_blocks_in _ _ _ Himg) as (s1 & ws1 & I1 & I2 & I3). unfold covers in I2. cbn in I2.
    pose proof (blocks_ok_sorted_from _ _ H) as K.
    destruct r as [|(s', ws'') r0]; [contradiction|].
    exists ((s, ws) :: r'). split; [|split].
    + destruct K as (K1 & K2).
      assert (s' <= addr).
      { destruct I1 as [Eq|I1]; [inversion Eq; subst; lia|]. pose proof (sorted_from_in _ _ _ _ K2 I1). lia. }
      rewrite set_word_later by assumption. rewrite R1. reflexivity.
    + cbn [blocks_ok].
      replace (lo <=? s) with true by (symmetry; apply Z.leb_le; lia).
      replace (0 <? zlen ws) with true by (symmetry; apply Z.ltb_lt; lia).
      replace (s + zlen ws <=? 65535) with true by (symmetry; apply Z.leb_le; lia). exact R2.
    + intro x. cbn [img_blocks]. destruct ((s <=? x) && (x <? s + zlen ws)) eqn:Ex.
      * destruct (x =? addr) eqn:Exa; [|reflexivity]. apply Z.eqb_eq in Exa. subst. congruence.
      * apply R3.
Qed.

(* the relocation loop: every patched site holds its (unique) target, everything else is unchanged *)
Lemma apply_relocs_spec lo bs rs : blocks_ok lo bs = true ->
  (forall a t, In (a, t) rs -> covered bs a = true) ->
  exists bs', apply_relocs bs rs = Some bs' /\ blocks_ok lo bs' = true /\
    (forall x, covered bs' x = covered bs x) /\
    (forall x, (forall t, ~ In (x, t) rs) -> img_blocks bs' x = img_blocks bs x) /\
    (forall x t, In (x, t) rs -> (forall t', In (x, t') rs -> t' = t) -> img_blocks bs' x = Some (Some t)).
Proof.
  revert bs. induction rs as [|(a, t) rs IH]; intros bs Hok Hcov.
  - exists bs. cbn. repeat split; auto. intros x t [].
  - assert (Ca : covered bs a = true) by (eapply Hcov; left; reflexivity).
    unfold covered in Ca. destruct (img_blocks bs a) as [w0|] eqn:Ea; [|discriminate].
    destruct (set_word_spec lo bs a t w0 Hok Ea) as (bs1 & S1 & S2 & S3).
    assert (Cov1 : forall x, covered bs1 x = covered bs x).
    { intro x. unfold covered. rewrite S3. destruct (x =? a) eqn:E; [|reflexivity]. apply Z.eqb_eq in E. subst. rewrite Ea. reflexivity. }
    destruct (IH bs1 S2) as (bs' & A1 & A2 & A3 & A4 & A5).
    { intros a' t' Hin. rewrite Cov1. eapply Hcov. right. exact Hin. }
    exists bs'. split; [cbn [apply_relocs]; rewrite S1; exact A1|]. split; [exact A2|]. split; [|split].
    + intro x. rewrite A3. apply Cov1.
    + intros x Hx. rewrite A4 by (intros t' Hin; apply (Hx t'); right; exact Hin).
      rewrite S3. destruct (x =? a) eqn:E; [|reflexivity]. apply Z.eqb_eq in E. subst. exfalso. apply (Hx t). left. reflexivity.
    + intros x t0 Hin Huniq.
      assert (Dec : forall p q : Z * Z, {p = q} + {p <> q}) by (decide equality; apply Z.eq_dec).
      destruct (in_dec Dec (x, t0) rs) as [Hr|Hr].
      * apply A5; [exact Hr|]. intros t' Ht'. apply Huniq. right. exact Ht'.
      * destruct Hin as [Eq|Hin]; [|contradiction]. inversion Eq; subst.
        rewrite A4.
        -- rewrite S3, Z.eqb_refl. reflexivity.
        -- intros t' Ht'. assert (t' = t0) by (apply Huniq; right; exact Ht'). subst. contradiction.
Qed.
