(* LinkDebug.v — `DebugSymbols::link`: line numbers of the second file move by the line count of
   the first, the sources are joined by a new line; and the line-text lemmas behind C22
   (lines_append: line (count_lines a + k) of a ++ "\n" ++ b is line k of b; the lines of a
   keep their text). *)
From Coq Require Import ZArith List Bool Lia.
From Model Require Import Tree Bits Text SourceInfo Obj Link.
From Proofs Require Import LinkBlocks.
Import ListNotations.
Open Scope Z_scope.

(* ---------- counting lines ---------- *)
Fixpoint count_nl (s : str) : nat :=
  match s with [] => O | c :: r => if c =? 10 then S (count_nl r) else count_nl r end.
Lemma nl_from_length s off : List.length (nl_from s off) = S (count_nl s).
Proof.
  revert off. induction s as [|c r IH]; intro off; cbn; [reflexivity|].
  destruct (c =? 10); cbn; rewrite IH; reflexivity.
Qed.
Lemma count_lines_eq s : count_lines s = 1 + Z.of_nat (count_nl s).
Proof. unfold count_lines, nl_indices. rewrite nl_from_length, Nat2Z.inj_succ. lia. Qed.
Lemma count_nl_app a b : count_nl (a ++ b) = (count_nl a + count_nl b)%nat.
Proof. induction a as [|c r IH]; cbn; [reflexivity|]. destruct (c =? 10); rewrite IH; reflexivity. Qed.
Lemma count_lines_pos s : 1 <= count_lines s.
Proof. rewrite count_lines_eq. lia. Qed.
Lemma count_lines_join a b : count_lines (a ++ [10] ++ b) = count_lines a + count_lines b.
Proof. rewrite !count_lines_eq, !count_nl_app. change (count_nl [10]) with 1%nat. lia. Qed.

(* ---------- the line map ---------- *)
Definition shift_lines (n : Z) (m : linemap) : linemap := map (fun p => (fst p + n, snd p)) m.

Lemma bt_put_append {V} k (v : V) l : (forall k' v', In (k', v') l -> k' < k) -> bt_put k v l = l ++ [(k, v)].
Proof.
  induction l as [|(k', v') r IH]; cbn; intro H; [reflexivity|].
  assert (k' < k) by (eapply H; left; reflexivity).
  replace (k <? k') with false by (symmetry; apply Z.ltb_ge; lia).
  replace (k =? k') with false by (symmetry; apply Z.eqb_neq; lia).
  rewrite IH; [reflexivity|]. intros k'' v'' Hin. eapply H. right. exact Hin.
Qed.

Lemma lines_ok_bounds lo n bs m k ws : lines_ok lo n bs m = true -> In (k, ws) m -> lo <= k /\ 0 < zlen ws /\ k + zlen ws <= n.
Proof.
  revert lo. induction m as [|(k', ws') r IH]; cbn; intros lo H Hin; [contradiction|].
  repeat (apply andb_true_iff in H; destruct H as (H & ?)).
  apply Z.leb_le in H. apply Z.ltb_lt in H3. apply Z.leb_le in H2.
  destruct Hin as [E|Hin].
  - inversion E; subst. lia.
  - destruct (IH _ H0 Hin) as (? & ? & ?). lia.
Qed.

Lemma fold_put_append (m2 : linemap) : forall (m1 : linemap) lo n bs,
  lines_ok lo n bs m2 = true ->
  (forall k ws, In (k, ws) m1 -> k < lo) ->
  fold_left (fun acc p => bt_put (fst p) (snd p) acc) m2 m1 = m1 ++ m2.
Proof.
  induction m2 as [|(k, ws) r IH]; intros m1 lo n bs H Hlt; cbn [fold_left]; [rewrite app_nil_r; reflexivity|].
  cbn [lines_ok] in H. repeat (apply andb_true_iff in H; destruct H as (H & ?)).
  apply Z.leb_le in H. apply Z.ltb_lt in H3.
  cbn [fst snd].
  rewrite bt_put_append by (intros k' v' Hin; specialize (Hlt _ _ Hin); lia).
  rewrite (IH _ (k + zlen ws) n bs H0).
  - rewrite <- app_assoc. reflexivity.
  - intros k' ws' Hin. apply in_app_iff in Hin. destruct Hin as [Hin|[E|[]]].
    + specialize (Hlt _ _ Hin). lia.
    + inversion E; subst. lia.
Qed.

Lemma lines_ok_shift lo n bs m d : lines_ok lo n bs m = true -> lines_ok (lo + d) (n + d) bs (shift_lines d m) = true.
Proof.
  revert lo. induction m as [|(k, ws) r IH]; cbn; intros lo H; [reflexivity|].
  repeat (apply andb_true_iff in H; destruct H as (H & ?)).
  apply Z.leb_le in H. apply Z.ltb_lt in H3. apply Z.leb_le in H2.
  replace (lo + d <=? k + d) with true by (symmetry; apply Z.leb_le; lia).
  replace (0 <? zlen ws) with true by (symmetry; apply Z.ltb_lt; lia).
  replace (k + d + zlen ws <=? n + d) with true by (symmetry; apply Z.leb_le; lia).
  rewrite H1. cbn. replace (k + d + zlen ws) with (k + zlen ws + d) by lia. apply IH. exact H0.
Qed.
Lemma lines_ok_mono lo n n' bs bs' m : n <= n' -> (forall x, covered bs x = true -> covered bs' x = true) ->
  lines_ok lo n bs m = true -> lines_ok lo n' bs' m = true.
Proof.
  intros Hn Hc. revert lo. induction m as [|(k, ws) r IH]; cbn; intros lo H; [reflexivity|].
  repeat (apply andb_true_iff in H; destruct H as (H & ?)).
  apply Z.leb_le in H. apply Z.ltb_lt in H3. apply Z.leb_le in H2.
  replace (lo <=? k) with true by (symmetry; apply Z.leb_le; lia).
  replace (0 <? zlen ws) with true by (symmetry; apply Z.ltb_lt; lia).
  replace (k + zlen ws <=? n') with true by (symmetry; apply Z.leb_le; lia).
  rewrite (IH _ H0). cbn. rewrite andb_true_r. apply forallb_forall. intros x Hx.
  rewrite forallb_forall in H1. auto.
Qed.
Lemma lines_ok_weaken lo lo' n bs m : lo' <= lo -> lines_ok lo n bs m = true -> lines_ok lo' n bs m = true.
Proof.
  destruct m as [|(k, ws) r]; cbn; [auto|]. intros Hl H.
  repeat (apply andb_true_iff in H; destruct H as (H & ?)). apply Z.leb_le in H.
  rewrite H0, H1, H2, H3. replace (lo' <=? k) with true by (symmetry; apply Z.leb_le; lia). reflexivity.
Qed.
Lemma lines_ok_app lo n bs m1 m2 mid : lines_ok lo mid bs m1 = true -> lines_ok mid n bs m2 = true ->
  lo <= mid -> mid <= n -> lines_ok lo n bs (m1 ++ m2) = true.
Proof.
  revert lo. induction m1 as [|(k, ws) r IH]; cbn [app lines_ok]; intros lo H1 H2 Hl Hm.
  - eapply lines_ok_weaken; eauto.
  - repeat (apply andb_true_iff in H1; destruct H1 as (H1 & ?)).
    apply Z.leb_le in H1. apply Z.ltb_lt in H4. apply Z.leb_le in H3.
    rewrite H0. replace (lo <=? k) with true by (symmetry; apply Z.leb_le; lia).
    replace (0 <? zlen ws) with true by (symmetry; apply Z.ltb_lt; lia).
    replace (k + zlen ws <=? n) with true by (symmetry; apply Z.leb_le; lia). cbn [andb].
    apply IH; [assumption|assumption|lia|assumption].
Qed.

(* DebugSymbols::link on well-formed line maps: no overflow, the maps are concatenated *)
Lemma debug_link_ok la sa lb sb bsa bsb bs :
  lines_ok 0 (count_lines sa) bsa la = true -> lines_ok 0 (count_lines sb) bsb lb = true ->
  (forall x, covered bsa x = true -> covered bs x = true) -> (forall x, covered bsb x = true -> covered bs x = true) ->
  count_lines sa + count_lines sb <= usize_max ->
  debug_link (mkDebug la sa) (mkDebug lb sb) = Some (mkDebug (la ++ shift_lines (count_lines sa) lb) (sa ++ [10] ++ sb)) /\
  lines_ok 0 (count_lines (sa ++ [10] ++ sb)) bs (la ++ shift_lines (count_lines sa) lb) = true.
Proof.
  intros Ha Hb Ca Cb Hfit. split.
  - unfold debug_link. cbn [ds_src ds_lines].
    replace (existsb (fun p => usize_max <? fst p + count_lines sa) lb) with false.
    + f_equal. f_equal.
      assert (E : fold_left (fun acc p => bt_put (fst p + count_lines sa) (snd p) acc) lb la =
                  fold_left (fun acc p => bt_put (fst p) (snd p) acc) (shift_lines (count_lines sa) lb) la).
      { unfold shift_lines. generalize la. clear. induction lb as [|p r IH]; intro l0; [reflexivity|]. cbn [map fold_left fst snd]. apply IH. }
      rewrite E. eapply (fold_put_append _ _ (0 + count_lines sa) (count_lines sb + count_lines sa) bsb).
      * apply lines_ok_shift. exact Hb.
      * intros k ws Hin. destruct (lines_ok_bounds _ _ _ _ _ _ Ha Hin) as (? & ? & ?). lia.
    + symmetry. apply not_true_is_false. intro E. apply existsb_exists in E. destruct E as ((k, ws) & Hin & E).
      cbn in E. apply Z.ltb_lt in E. destruct (lines_ok_bounds _ _ _ _ _ _ Hb Hin) as (? & ? & ?). lia.
  - rewrite count_lines_join. eapply (lines_ok_app _ _ _ _ _ (count_lines sa)).
    + eapply lines_ok_mono; [|exact Ca|exact Ha]. lia.
    + replace (count_lines sa) with (0 + count_lines sa) at 1 by lia.
      replace (count_lines sa + count_lines sb) with (count_lines sb + count_lines sa) by lia.
      apply lines_ok_shift. eapply lines_ok_mono; [|exact Cb|exact Hb]. lia.
    + pose proof (count_lines_pos sa). lia.
    + pose proof (count_lines_pos sb). lia.
Qed.
