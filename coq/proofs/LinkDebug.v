(* LinkDebug.v — `DebugSymbols::link`: line numbers of the second file move by the line count of
   the first, the sources are joined by a new line; and the line-text lemmas behind C22
   (lines_append: line (count_lines a + k) of a ++ "\n" ++ b is line k of b; the lines of a
   keep their text). *)
From Coq Require Import ZArith List Bool Lia.
From Model Require Import Tree Bits Text SourceInfo Obj Link.
From Proofs Require Import LinkBlocks.
Import ListNotations.
Open Scope Z_scope.

(* ---------- counting lines ---------- *)
Fixpoint count_nl (s : str) : nat :=
  match s with [] => O | c :: r => if c =? 10 then S (count_nl r) else count_nl r end.
Lemma nl_from_length s off : List.length (nl_from s off) = S (count_nl s).
Proof.
  revert off. induction s as [|c r IH]; intro off; cbn; [reflexivity|].
  destruct (c =? 10); cbn; rewrite IH; reflexivity.
Qed.
Lemma count_lines_eq s : count_lines s = 1 + Z.of_nat (count_nl s).
Proof. unfold count_lines, nl_indices. rewrite nl_from_length, Nat2Z.inj_succ. lia. Qed.
Lemma count_nl_app a b : count_nl (a ++ b) = (count_nl a + count_nl b)%nat.
Proof. induction a as [|c r IH]; cbn; [reflexivity|]. destruct (c =? 10); rewrite IH; reflexivity. Qed.
Lemma count_lines_pos s : 1 <= count_lines s.
Proof. rewrite count_lines_eq. lia. Qed.
Lemma count_lines_join a b : count_lines (a ++ [10] ++ b) = count_lines a + count_lines b.
Proof. rewrite !count_lines_eq, !count_nl_app. change (count_nl [10]) with 1%nat. lia. Qed.

(* ---------- the line map ---------- *)
Definition shift_lines (n : Z) (m : linemap) : linemap := map (fun p => (fst p + n, snd p)) m.

Lemma bt_put_append {V} k (v : V) l : (forall k' v', In (k', v') l -> k' < k) -> bt_put k v l = l ++ [(k, v)].
Proof.
  induction l as [|(k', v') r IH]; cbn; intro H; [reflexivity|].
  assert (k' < k) by (eapply H; left; reflexivity).
  replace (k <? k') with false by (symmetry; apply Z.ltb_ge; lia).
  replace (k =? k') with false by (symmetry; apply Z.eqb_neq; lia).
  rewrite IH; [reflexivity|]. intros k'' v'' Hin. eapply H. right. exact Hin.
Qed.

Lemma lines_ok_bounds lo n bs m k ws : lines_ok lo n bs m = true -> In (k, ws) m -> lo <= k /\ 0 < zlen ws /\ k + zlen ws <= n.
Proof.
  revert lo. induction m as [|(k', ws') r IH]; cbn; intros lo H Hin; [contradiction|].
  repeat (apply andb_true_iff in H; destruct H as (H & ?)).
  apply Z.leb_le in H. apply Z.ltb_lt in H3. apply Z.leb_le in H2.
  destruct Hin as [E|Hin].
  - inversion E; subst. lia.
  - destruct (IH _ H0 Hin) as (? & ? & ?). lia.
Qed.

Lemma fold_put_append (m2 : linemap) : forall (m1 : linemap) lo n bs,
  lines_ok lo n bs m2 = true ->
  (forall k ws, In (k, ws) m1 -> k < lo) ->
  fold_left (fun acc p => bt_put (fst p) (snd p) acc) m2 m1 = m1 ++ m2.
Proof.
  induction m2 as [|(k, ws) r IH]; intros m1 lo n bs H Hlt; cbn [fold_left]; [rewrite app_nil_r; reflexivity|].
  cbn [lines_ok] in H. repeat (apply andb_true_iff in H; destruct H as (H & ?)).
  apply Z.leb_le in H. apply Z.ltb_lt in H3.
  cbn [fst snd].
  rewrite bt_put_append by (intros k' v' Hin; specialize (Hlt _ _ Hin); lia).
  rewrite (IH _ (k + zlen ws) n bs H0).
  - rewrite <- app_assoc. reflexivity.
  - intros k' ws' Hin. apply in_app_iff in Hin. destruct Hin as [Hin|[E|[]]].
    + specialize (Hlt _ _ Hin). lia.
    + inversion E; subst. lia.
Qed.

Lemma lines_ok_shift lo n bs m d : lines_ok lo n bs m = true -> lines_ok (lo + d) (n + d) bs (shift_lines d m) = true.
Proof.
  revert lo. induction m as [|(k, ws) r IH]; cbn; intros lo H; [reflexivity|].
  repeat (apply andb_true_iff in H; destruct H as (H & ?)).
  apply Z.leb_le in H. apply Z.ltb_lt in H3. apply Z.leb_le in H2.
  replace (lo + d <=? k + d) with true by (symmetry; apply Z.leb_le; lia).
  replace (0 <? zlen ws) with true by (symmetry; apply Z.ltb_lt; lia).
  replace (k + d + zlen ws <=? n + d) with true by (symmetry; apply Z.leb_le; lia).
  rewrite H1. cbn. replace (k + d + zlen ws) with (k + zlen ws + d) by lia. apply IH. exact H0.
Qed.
Lemma lines_ok_mono lo n n' bs bs' m : n <= n' -> (forall x, covered bs x = true -> covered bs' x = true) ->
  lines_ok lo n bs m = true -> lines_ok lo n' bs' m = true.
Proof.
  intros Hn Hc. revert lo. induction m as [|(k, ws) r IH]; cbn; intros lo H; [reflexivity|].
  repeat (apply andb_true_iff in H; destruct H as (H & ?)).
  apply Z.leb_le in H. apply Z.ltb_lt in H3. apply Z.leb_le in H2.
  replace (lo <=? k) with true by (symmetry; apply Z.leb_le; lia).
  replace (0 <? zlen ws) with true by (symmetry; apply Z.ltb_lt; lia).
  replace (k + zlen ws <=? n') with true by (symmetry; apply Z.leb_le; lia).
  rewrite (IH _ H0). cbn. rewrite andb_true_r. apply forallb_forall. intros x Hx.
  rewrite forallb_forall in H1. auto.
Qed.
Lemma lines_ok_weaken lo lo' n bs m : lo' <= lo -> lines_ok lo n bs m = true -> lines_ok lo' n bs m = true.
Proof.
  destruct m as [|(k, ws) r]; cbn; [auto|]. intros Hl H.
  repeat (apply andb_true_iff in H; destruct H as (H & ?)). apply Z.leb_le in H.
  rewrite H0, H1, H2, H3. replace (lo' <=? k) with true by (symmetry; apply Z.leb_le; lia). reflexivity.
Qed.
Lemma lines_ok_app lo n bs m1 m2 mid : lines_ok lo mid bs m1 = true -> lines_ok mid n bs m2 = true ->
  lo <= mid -> mid <= n -> lines_ok lo n bs (m1 ++ m2) = true.
Proof.
  revert lo. induction m1 as [|(k, ws) r IH]; cbn [app lines_ok]; intros lo H1 H2 Hl Hm.
  - eapply lines_ok_weaken; eauto.
  - repeat (apply andb_true_iff in H1; destruct H1 as (H1 & ?)).
    apply Z.leb_le in H1. apply Z.ltb_lt in H4. apply Z.leb_le in H3.
    rewrite H0. replace (lo <=? k) with true by (symmetry; apply Z.leb_le; lia).
    replace (0 <? zlen ws) with true by (symmetry; apply Z.ltb_lt; lia).
    replace (k + zlen ws <=? n) with true by (symmetry; apply Z.leb_le; lia). cbn [andb].
    apply IH; [assumption|assumption|lia|assumption].
Qed.

(* DebugSymbols::link on well-formed line maps: no overflow, the maps are concatenated *)
Lemma debug_link_shape la sa lb sb bsa bsb :
  lines_ok 0 (count_lines sa) bsa la = true -> lines_ok 0 (count_lines sb) bsb lb = true ->
  count_lines sa + count_lines sb <= usize_max ->
  debug_link (mkDebug la sa) (mkDebug lb sb) = Some (mkDebug (la ++ shift_lines (count_lines sa) lb) (sa ++ [10] ++ sb)).
Proof.
  intros Ha Hb Hfit.
  unfold debug_link. cbn [ds_src ds_lines].
  replace (existsb (fun p => usize_max <? fst p + count_lines sa) lb) with false.
  - f_equal. f_equal.
    assert (E : fold_left (fun acc p => bt_put (fst p + count_lines sa) (snd p) acc) lb la =
                fold_left (fun acc p => bt_put (fst p) (snd p) acc) (shift_lines (count_lines sa) lb) la).
    { unfold shift_lines. generalize la. clear. induction lb as [|p r IH]; intro l0; [reflexivity|]. cbn [map fold_left fst snd]. apply IH. }
    rewrite E. eapply (fold_put_append _ _ (0 + count_lines sa) (count_lines sb + count_lines sa) bsb).
    + apply lines_ok_shift. exact Hb.
    + intros k ws Hin. destruct (lines_ok_bounds _ _ _ _ _ _ Ha Hin) as (? & ? & ?). lia.
  - symmetry. apply not_true_is_false. intro E. apply existsb_exists in E. destruct E as ((k, ws) & Hin & E).
    cbn in E. apply Z.ltb_lt in E. destruct (lines_ok_bounds _ _ _ _ _ _ Hb Hin) as (? & ? & ?). lia.
Qed.
Lemma debug_link_ok la sa lb sb bsa bsb bs :
  lines_ok 0 (count_lines sa) bsa la = true -> lines_ok 0 (count_lines sb) bsb lb = true ->
  (forall x, covered bsa x = true -> covered bs x = true) -> (forall x, covered bsb x = true -> covered bs x = true) ->
  count_lines sa + count_lines sb <= usize_max ->
  debug_link (mkDebug la sa) (mkDebug lb sb) = Some (mkDebug (la ++ shift_lines (count_lines sa) lb) (sa ++ [10] ++ sb)) /\
  lines_ok 0 (count_lines (sa ++ [10] ++ sb)) bs (la ++ shift_lines (count_lines sa) lb) = true.
Proof.
  intros Ha Hb Ca Cb Hfit. split; [eapply debug_link_shape; eauto|].
  rewrite count_lines_join. eapply (lines_ok_app _ _ _ _ _ (count_lines sa)).
  - eapply lines_ok_mono; [|exact Ca|exact Ha]. lia.
  - replace (count_lines sa) with (0 + count_lines sa) at 1 by lia.
    replace (count_lines sa + count_lines sb) with (count_lines sb + count_lines sa) by lia.
    apply lines_ok_shift. eapply lines_ok_mono; [|exact Cb|exact Hb]. lia.
  - pose proof (count_lines_pos sa). lia.
  - pose proof (count_lines_pos sb). lia.
Qed.

(* ====================================================================================== *)
(* Line texts of joined sources (C22)                                                       *)
(* ====================================================================================== *)
Lemma utf8_len_pos c : 1 <= utf8_len c.
Proof. unfold utf8_len. destruct (c <? 128), (c <? 2048), (c <? 65536); lia. Qed.
Lemma byte_len_nonneg s : 0 <= byte_len s.
Proof. induction s as [|c r IH]; cbn; [lia|]. pose proof (utf8_len_pos c). lia. Qed.
Lemma byte_len_app a b : byte_len (a ++ b) = byte_len a + byte_len b.
Proof. induction a as [|c r IH]; cbn; [reflexivity|]. rewrite IH. lia. Qed.

(* ---------- newline index under prepending ---------- *)
Lemma nl_from_shift s off d : nl_from s (off + d) = map (fun x => x + d) (nl_from s off).
Proof.
  revert off. induction s as [|c r IH]; intro off; cbn; [reflexivity|].
  destruct (c =? 10).
  - cbn. f_equal. replace (off + d + 1) with (off + 1 + d) by lia. apply IH.
  - replace (off + d + utf8_len c) with (off + utf8_len c + d) by lia. apply IH.
Qed.
Lemma nl_indices_nl s : nl_indices (10 :: s) = 0 :: map (fun x => x + 1) (nl_indices s).
Proof. unfold nl_indices. cbn. f_equal. apply (nl_from_shift s 0 1). Qed.
Lemma nl_indices_other c s : c <> 10 -> nl_indices (c :: s) = map (fun x => x + utf8_len c) (nl_indices s).
Proof.
  intro H. unfold nl_indices. cbn. replace (c =? 10) with false by (symmetry; apply Z.eqb_neq; exact H).
  apply (nl_from_shift s 0 (utf8_len c)).
Qed.
Lemma count_lines_nl s : count_lines (10 :: s) = 1 + count_lines s.
Proof. rewrite !count_lines_eq. change (count_nl (10 :: s)) with (S (count_nl s)). lia. Qed.
Lemma count_lines_other c s : c <> 10 -> count_lines (c :: s) = count_lines s.
Proof. intro H. rewrite !count_lines_eq. cbn [count_nl]. replace (c =? 10) with false by (symmetry; apply Z.eqb_neq; exact H). reflexivity. Qed.

Lemma nl_from_ge s off : Forall (fun x => off <= x) (nl_from s off).
Proof.
  revert off. induction s as [|c r IH]; intro off; cbn; [constructor; [lia|constructor]|].
  pose proof (utf8_len_pos c). destruct (c =? 10).
  - constructor; [lia|]. eapply Forall_impl; [|apply IH]. cbn. intros; lia.
  - eapply Forall_impl; [|apply IH]. cbn. intros; lia.
Qed.

Lemma nth_z_cons {A} (x : A) l i : 0 <= i -> nth_z (x :: l) (i + 1) = nth_z l i.
Proof.
  intro H. unfold nth_z. replace (i + 1 <? 0) with false by (symmetry; apply Z.ltb_ge; lia).
  replace (i <? 0) with false by (symmetry; apply Z.ltb_ge; lia).
  replace (Z.to_nat (i + 1)) with (S (Z.to_nat i)) by lia. reflexivity.
Qed.
Lemma nth_z_zero {A} (x : A) l : nth_z (x :: l) 0 = Some x.
Proof. reflexivity. Qed.
Lemma nth_z_map {A B} (f : A -> B) l i : nth_z (map f l) i = option_map f (nth_z l i).
Proof. unfold nth_z. destruct (i <? 0); [reflexivity|]. apply nth_error_map. Qed.
Lemma nth_z_some_range {A} (l : list A) i : 0 <= i < zlen l -> exists x, nth_z l i = Some x.
Proof.
  intro H. unfold nth_z. replace (i <? 0) with false by (symmetry; apply Z.ltb_ge; lia).
  apply nth_error_in_range. exact H.
Qed.
Lemma nth_z_in {A} (l : list A) i x : nth_z l i = Some x -> In x l.
Proof. unfold nth_z. destruct (i <? 0); [discriminate|]. apply nth_error_In. Qed.

Definition shift_span (d : Z) (p : Z * Z) : Z * Z := (fst p + d, snd p + d).

Lemma count_lines_len s : count_lines s = zlen (nl_indices s).
Proof. reflexivity. Qed.

Lemma raw_line_span_nonneg s n st e : raw_line_span s n = Some (st, e) -> 0 <= st.
Proof.
  unfold raw_line_span. destruct ((0 <=? n) && (n <? count_lines s)); [|discriminate].
  intro H. inversion H; subst. destruct (n =? 0); [lia|].
  destruct (nth_z (nl_indices s) (n - 1)) as [i|] eqn:E; [|lia].
  apply nth_z_in in E. pose proof (nl_from_ge s 0) as G. rewrite Forall_forall in G. specialize (G _ E). lia.
Qed.

(* line n+1 of "\n" ++ s is line n of s, one byte further *)
Lemma raw_line_span_nl s n : 0 <= n -> raw_line_span (10 :: s) (n + 1) = option_map (shift_span 1) (raw_line_span s n).
Proof.
  intro Hn. unfold raw_line_span. rewrite count_lines_nl, nl_indices_nl.
  replace (0 <=? n + 1) with true by (symmetry; apply Z.leb_le; lia).
  replace (0 <=? n) with true by (symmetry; apply Z.leb_le; lia). cbn [andb].
  destruct (n <? count_lines s) eqn:E.
  - apply Z.ltb_lt in E. replace (n + 1 <? 1 + count_lines s) with true by (symmetry; apply Z.ltb_lt; lia).
    replace (n + 1 =? 0) with false by (symmetry; apply Z.eqb_neq; lia).
    replace (n + 1 - 1) with n by lia. cbn [option_map]. unfold shift_span. cbn [fst snd]. f_equal. f_equal.
    + destruct (n =? 0) eqn:E0.
      * apply Z.eqb_eq in E0. subst. rewrite nth_z_zero. lia.
      * apply Z.eqb_neq in E0. replace n with (n - 1 + 1) at 1 by lia. rewrite nth_z_cons by lia.
        rewrite nth_z_map. destruct (nth_z_some_range (nl_indices s) (n - 1)) as (i & Hi); [rewrite <- count_lines_len; lia|].
        rewrite Hi. cbn [option_map]. lia.
    + rewrite nth_z_cons by lia. rewrite nth_z_map. cbn [byte_len]. change (utf8_len 10) with 1.
      destruct (nth_z (nl_indices s) n); cbn [option_map]; lia.
  - apply Z.ltb_ge in E. replace (n + 1 <? 1 + count_lines s) with false by (symmetry; apply Z.ltb_ge; lia). reflexivity.
Qed.
(* line n >= 1 of c ++ s (c not a newline) is line n of s, utf8_len c bytes further *)
Lemma raw_line_span_other c s n : c <> 10 -> 1 <= n ->
  raw_line_span (c :: s) n = option_map (shift_span (utf8_len c)) (raw_line_span s n).
Proof.
  intros Hc Hn. unfold raw_line_span. rewrite (count_lines_other c s Hc), (nl_indices_other c s Hc).
  destruct ((0 <=? n) && (n <? count_lines s)) eqn:E; [|reflexivity].
  apply andb_true_iff in E. destruct E as (_ & E). apply Z.ltb_lt in E.
  replace (n =? 0) with false by (symmetry; apply Z.eqb_neq; lia).
  cbn [option_map]. unfold shift_span. cbn [fst snd]. f_equal. f_equal.
  - rewrite nth_z_map. destruct (nth_z_some_range (nl_indices s) (n - 1)) as (i & Hi); [rewrite <- count_lines_len; lia|].
    rewrite Hi. cbn [option_map]. lia.
  - rewrite nth_z_map. cbn [byte_len]. destruct (nth_z (nl_indices s) n); cbn [option_map]; lia.
Qed.

(* ---------- substrings under prepending ---------- *)
Lemma sub_from_shift s off a b d : sub_from s (off + d) (a + d) (b + d) = sub_from s off a b.
Proof.
  revert off. induction s as [|c r IH]; intro off; cbn; [reflexivity|].
  replace (a + d <=? off + d) with (a <=? off) by (destruct (Z.leb_spec a off), (Z.leb_spec (a + d) (off + d)); lia || reflexivity).
  replace (off + d <? b + d) with (off <? b) by (destruct (Z.ltb_spec off b), (Z.ltb_spec (off + d) (b + d)); lia || reflexivity).
  replace (off + d + utf8_len c) with (off + utf8_len c + d) by lia. rewrite IH. reflexivity.
Qed.
Lemma substr_cons_shift c s a b : 0 <= a -> substr (c :: s) (a + utf8_len c) (b + utf8_len c) = substr s a b.
Proof.
  intro Ha. unfold substr. cbn [sub_from]. pose proof (utf8_len_pos c).
  replace (a + utf8_len c <=? 0) with false by (symmetry; apply Z.leb_gt; lia). cbn [andb].
  apply (sub_from_shift s 0 a b (utf8_len c)).
Qed.

Lemma trim_start_len s : byte_len (trim_start s) <= byte_len s.
Proof.
  induction s as [|c r IH]; cbn; [lia|]. destruct (is_ws c); cbn; [|lia]. pose proof (utf8_len_pos c). lia.
Qed.

Lemma read_line_shift c s n : (c = 10 -> False) \/ True -> forall m,
  raw_line_span (c :: s) m = option_map (shift_span (utf8_len c)) (raw_line_span s n) ->
  read_line (c :: s) m = read_line s n.
Proof.
  intros _ m H. unfold read_line, line_span. rewrite H.
  destruct (raw_line_span s n) as [(st, e)|] eqn:E; [|reflexivity].
  cbn [option_map shift_span fst snd]. pose proof (raw_line_span_nonneg _ _ _ _ E) as Hst.
  rewrite (substr_cons_shift c s st e Hst).
  set (l := substr s st e). set (et := trim_end l).
  pose proof (trim_start_len et).
  replace (e + utf8_len c - (byte_len l - byte_len et)) with (e - (byte_len l - byte_len et) + utf8_len c) by lia.
  replace (st + utf8_len c + (byte_len et - byte_len (trim_start et))) with (st + (byte_len et - byte_len (trim_start et)) + utf8_len c) by lia.
  rewrite substr_cons_shift by lia. reflexivity.
Qed.
Lemma read_line_nl s n : 0 <= n -> read_line (10 :: s) (n + 1) = read_line s n.
Proof. intro H. apply read_line_shift; [auto|]. change (utf8_len 10) with 1. apply raw_line_span_nl. exact H. Qed.
Lemma read_line_other c s n : c <> 10 -> 1 <= n -> read_line (c :: s) n = read_line s n.
Proof. intros Hc H. apply read_line_shift; [auto|]. apply raw_line_span_other; assumption. Qed.

(* line (count_lines a + k) of a ++ "\n" ++ b is line k of b *)
Theorem lines_append a b k : 0 <= k -> read_line (a ++ [10] ++ b) (count_lines a + k) = read_line b k.
Proof.
  intro Hk. induction a as [|c r IH].
  - change (count_lines []) with 1. cbn [app]. replace (1 + k) with (k + 1) by lia. apply read_line_nl. exact Hk.
  - cbn [app]. destruct (Z.eq_dec c 10) as [->|Hc].
    + rewrite count_lines_nl. replace (1 + count_lines r + k) with (count_lines r + k + 1) by lia.
      rewrite read_line_nl by (pose proof (count_lines_pos r); lia). exact IH.
    + rewrite (count_lines_other c r Hc). rewrite read_line_other; [exact IH|exact Hc|pose proof (count_lines_pos r); lia].
Qed.

(* ---------- line 0 is the trimmed first line ---------- *)
Fixpoint first_line (s : str) : str :=
  match s with [] => [] | c :: r => if c =? 10 then [] else c :: first_line r end.
(* the first line with its newline *)
Fixpoint raw0 (s : str) : str :=
  match s with [] => [] | c :: r => if c =? 10 then [10] else c :: raw0 r end.
Fixpoint rest0 (s : str) : str :=
  match s with [] => [] | c :: r => if c =? 10 then r else rest0 r end.

Lemma raw0_rest0 s : s = raw0 s ++ rest0 s.
Proof. induction s as [|c r IH]; cbn; [reflexivity|]. destruct (c =? 10) eqn:E; cbn; [apply Z.eqb_eq in E; subst; reflexivity|]. f_equal. exact IH. Qed.
Lemma raw0_first_line s : raw0 s = first_line s \/ raw0 s = first_line s ++ [10].
Proof.
  induction s as [|c r IH]; cbn; [auto|]. destruct (c =? 10); [auto|]. destruct IH as [-> | ->]; auto.
Qed.
Lemma nl_from_head s off : exists tl, nl_from s off = (off + byte_len (first_line s)) :: tl.
Proof.
  revert off. induction s as [|c r IH]; intro off; cbn.
  - exists []. f_equal. lia.
  - destruct (c =? 10); cbn.
    + eexists. f_equal. lia.
    + destruct (IH (off + utf8_len c)) as (tl & E). exists tl. rewrite E. f_equal. lia.
Qed.
Lemma raw0_len s : byte_len (raw0 s) = Z.min (byte_len (first_line s) + 1) (byte_len s).
Proof.
  induction s as [|c r IH]; cbn; [lia|]. destruct (c =? 10) eqn:E; cbn.
  - apply Z.eqb_eq in E. subst. change (utf8_len 10) with 1. pose proof (byte_len_nonneg r). lia.
  - rewrite IH. pose proof (utf8_len_pos c). lia.
Qed.

Lemma sub_from_empty s off a b : b <= off -> sub_from s off a b = [].
Proof.
  revert off. induction s as [|c r IH]; intros off H; cbn; [reflexivity|].
  replace (off <? b) with false by (symmetry; apply Z.ltb_ge; lia). rewrite andb_false_r.
  apply IH. pose proof (utf8_len_pos c). lia.
Qed.
Lemma sub_from_prefix p q off a : a <= off -> sub_from (p ++ q) off a (off + byte_len p) = p.
Proof.
  revert off. induction p as [|c r IH]; intros off H; cbn [app byte_len sub_from].
  - apply sub_from_empty. lia.
  - pose proof (utf8_len_pos c). pose proof (byte_len_nonneg r).
    replace (a <=? off) with true by (symmetry; apply Z.leb_le; lia).
    replace (off <? off + (utf8_len c + byte_len r)) with true by (symmetry; apply Z.ltb_lt; lia). cbn [andb].
    f_equal. replace (off + (utf8_len c + byte_len r)) with (off + utf8_len c + byte_len r) by lia. apply IH. lia.
Qed.
Lemma sub_from_skip p q off a b : off + byte_len p <= a -> sub_from (p ++ q) off a b = sub_from q (off + byte_len p) a b.
Proof.
  revert off. induction p as [|c r IH]; intros off H; cbn [app byte_len sub_from].
  - f_equal. lia.
  - pose proof (utf8_len_pos c). pose proof (byte_len_nonneg r). cbn [byte_len] in H.
    replace (a <=? off) with false by (symmetry; apply Z.leb_gt; lia). cbn [andb].
    rewrite IH by lia. f_equal. lia.
Qed.
Lemma substr_middle p m q : substr (p ++ m ++ q) (byte_len p) (byte_len p + byte_len m) = m.
Proof. unfold substr. rewrite sub_from_skip by lia. cbn. apply sub_from_prefix. lia. Qed.
Lemma substr_prefix_of p q : substr (p ++ q) 0 (byte_len p) = p.
Proof. unfold substr. apply (sub_from_prefix p q 0 0). lia. Qed.
(* a substring that ends inside the first part does not see the second part *)
Lemma sub_from_app_l p q off a b : b <= off + byte_len p -> sub_from (p ++ q) off a b = sub_from p off a b.
Proof.
  revert off. induction p as [|c r IH]; intros off H; cbn [app byte_len sub_from] in *.
  - apply sub_from_empty. lia.
  - rewrite IH by lia. reflexivity.
Qed.
Lemma substr_app_l p q a b : b <= byte_len p -> substr (p ++ q) a b = substr p a b.
Proof. intro H. unfold substr. apply sub_from_app_l. lia. Qed.
(* a substring of the second part, addressed through the whole *)
Lemma substr_app_r p q a b : 0 <= a -> substr (p ++ q) (a + byte_len p) (b + byte_len p) = substr q a b.
Proof.
  intro H. unfold substr. rewrite sub_from_skip by lia. cbn.
  rewrite <- (sub_from_shift q 0 a b (byte_len p)). reflexivity.
Qed.

Lemma trim_start_suffix s : exists w, s = w ++ trim_start s.
Proof.
  induction s as [|c r IH]; cbn; [exists []; reflexivity|]. destruct (is_ws c).
  - destruct IH as (w & E). exists (c :: w). cbn. f_equal. exact E.
  - exists []. reflexivity.
Qed.
Lemma trim_end_prefix s : exists w, s = trim_end s ++ w.
Proof.
  unfold trim_end. destruct (trim_start_suffix (rev s)) as (w & E). exists (rev w).
  rewrite <- rev_app_distr, <- E, rev_involutive. reflexivity.
Qed.
Lemma trim_end_nl s : trim_end (s ++ [10]) = trim_end s.
Proof. unfold trim_end. rewrite rev_app_distr. cbn. reflexivity. Qed.

Lemma read_line_0 s : read_line s 0 = Some (trim_start (trim_end (first_line s))).
Proof.
  unfold read_line, line_span, raw_line_span.
  pose proof (count_lines_pos s).
  replace ((0 <=? 0) && (0 <? count_lines s)) with true by (symmetry; apply andb_true_iff; split; [reflexivity|apply Z.ltb_lt; lia]).
  cbn [Z.eqb]. destruct (nl_from_head s 0) as (tl & E). unfold nl_indices. rewrite E. rewrite nth_z_zero.
  replace (Z.min (0 + byte_len (first_line s) + 1) (byte_len s)) with (byte_len (raw0 s)) by (rewrite raw0_len; lia).
  assert (Hsub : substr s 0 (byte_len (raw0 s)) = raw0 s) by (rewrite (raw0_rest0 s) at 1; apply substr_prefix_of).
  rewrite Hsub. clear Hsub.
  set (l := raw0 s).
  assert (Et : trim_end l = trim_end (first_line s)).
  { unfold l. destruct (raw0_first_line s) as [-> | ->]; [reflexivity|apply trim_end_nl]. }
  destruct (trim_end_prefix l) as (w & El). destruct (trim_start_suffix (trim_end l)) as (w' & Ec).
  set (core := trim_start (trim_end l)) in *.
  assert (Hl : byte_len l = byte_len w' + byte_len core + byte_len w).
  { rewrite El at 1. rewrite byte_len_app. rewrite Ec at 1. rewrite byte_len_app. lia. }
  assert (He : byte_len (trim_end l) = byte_len w' + byte_len core) by (rewrite Ec at 1; rewrite byte_len_app; reflexivity).
  replace (byte_len l - (byte_len l - byte_len (trim_end l))) with (byte_len w' + byte_len core) by lia.
  replace (0 + (byte_len (trim_end l) - byte_len core)) with (byte_len w') by lia.
  assert (Es : s = w' ++ core ++ (w ++ rest0 s)).
  { rewrite (raw0_rest0 s) at 1. fold l. rewrite El at 1. rewrite Ec at 1. rewrite <- !app_assoc. reflexivity. }
  assert (Hfin : substr s (byte_len w') (byte_len w' + byte_len core) = core) by (rewrite Es at 1; apply substr_middle).
  rewrite Hfin. unfold core. rewrite Et. reflexivity.
Qed.

Lemma first_line_app a b : first_line (a ++ [10] ++ b) = first_line a.
Proof. induction a as [|c r IH]; cbn; [reflexivity|]. destruct (c =? 10); [reflexivity|]. f_equal. exact IH. Qed.

(* the lines of a keep their text in a ++ "\n" ++ b *)
Theorem lines_prefix a b k : 0 <= k < count_lines a -> read_line (a ++ [10] ++ b) k = read_line a k.
Proof.
  revert k. induction a as [|c r IH]; intros k Hk.
  - change (count_lines []) with 1 in Hk. assert (k = 0) by lia. subst. rewrite !read_line_0. rewrite first_line_app. reflexivity.
  - destruct (Z.eq_dec k 0) as [->|Hk0].
    + rewrite !read_line_0, first_line_app. reflexivity.
    + cbn [app]. destruct (Z.eq_dec c 10) as [->|Hc].
      * rewrite count_lines_nl in Hk. replace k with (k - 1 + 1) by lia.
        rewrite !read_line_nl by lia. apply IH. lia.
      * rewrite (count_lines_other c r Hc) in Hk. rewrite !read_line_other by (auto; lia). apply IH. lia.
Qed.

(* ---------- rev_lookup_line on the linked line map ---------- *)
Lemma index_of_bound x l i o : index_of x l i = Some o -> i <= o < i + zlen l.
Proof.
  revert i. induction l as [|y r IH]; intros i H; cbn in H; [discriminate|].
  rewrite zlen_cons. pose proof (zlen_nonneg r). destruct (x =? y).
  - inversion H; subst. lia.
  - specialize (IH _ H). lia.
Qed.
Lemma index_of_in x l i o : index_of x l i = Some o -> In x l.
Proof.
  revert i. induction l as [|y r IH]; intros i H; cbn in H; [discriminate|].
  destruct (x =? y) eqn:E; [apply Z.eqb_eq in E; subst; left; reflexivity|right; eauto].
Qed.
Lemma line_find_app m1 m2 addr :
  line_find (m1 ++ m2) addr = match line_find m1 addr with Some x => Some x | None => line_find m2 addr end.
Proof.
  induction m1 as [|(k, ws) r IH]; cbn; [reflexivity|]. destruct (index_of addr ws 0); [reflexivity|exact IH].
Qed.
Lemma line_find_shift n m addr : line_find (shift_lines n m) addr = option_map (fun x => x + n) (line_find m addr).
Proof.
  induction m as [|(k, ws) r IH]; cbn; [reflexivity|]. destruct (index_of addr ws 0); cbn; [f_equal; lia|exact IH].
Qed.
Lemma line_find_bounds lo n bs m addr ln : lines_ok lo n bs m = true -> line_find m addr = Some ln ->
  lo <= ln < n /\ covered bs addr = true.
Proof.
  revert lo. induction m as [|(k, ws) r IH]; cbn; intros lo H Hf; [discriminate|].
  repeat (apply andb_true_iff in H; destruct H as (H & ?)).
  apply Z.leb_le in H. apply Z.ltb_lt in H3. apply Z.leb_le in H2.
  destruct (index_of addr ws 0) as [o|] eqn:E.
  - inversion Hf; subst. pose proof (index_of_bound _ _ _ _ E). split; [lia|].
    rewrite forallb_forall in H1. apply H1. eapply index_of_in; eauto.
  - destruct (IH _ H0 Hf). split; [lia|assumption].
Qed.
Lemma line_find_uncovered lo n bs m addr : lines_ok lo n bs m = true -> covered bs addr = false -> line_find m addr = None.
Proof.
  intros H Hc. destruct (line_find m addr) as [ln|] eqn:E; [|reflexivity].
  destruct (line_find_bounds _ _ _ _ _ _ H E). congruence.
Qed.
