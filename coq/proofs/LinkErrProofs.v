(* LinkErrProofs.v — C26, linker half: every error returned by `ObjectFile::link` carries a span
   list whose first span and all spans can be queried without panicking.
   [err_first] models `ErrSpan::first` (src/err.rs): it panics exactly on an empty span list
   (`ErrSpan::Many(vec![])`, `r.first().unwrap()`); iterating never panics.
   For the coordinator: state these in props/C26.v next to the assembler half. *)
From Coq Require Import ZArith List Bool.
From Model Require Import Tree Bits Text SourceInfo Obj Link.
From Proofs Require Import LinkBlocks LinkSyms LinkDebug LinkSpecProofs LinkProofs.
Import ListNotations.
Open Scope Z_scope.

(* ErrSpan::first: None = panic *)
Definition err_first (sp : list (Z * Z)) : option (Z * Z) := hd_error sp.

Theorem C26_link_nonempty : forall a b k sp, link a b = LErr k sp ->
  sp <> [] /\ (exists s, err_first sp = Some s) /\
  (k = OverlappingBlocks -> sp = [(0, 0)]) /\ (k = OverlappingLabels -> List.length sp = 2%nat).
Proof. exact link_err_nonempty. Qed.
Print Assumptions C26_link_nonempty.

(* every span of a link error is an ordered pair start <= end *)
Theorem C26_link_spans_ordered : forall a b k sp s, link a b = LErr k sp -> In s sp -> fst s <= snd s.
Proof.
  intros a b k sp s H Hin. unfold link in H.
  destruct (insert_blocks (o_blocks b) (o_blocks a)) as [bs|].
  2:{ inversion H; subst. destruct Hin as [<-|[]]. cbn. apply Z.le_refl. }
  destruct (adj_check bs).
  3:{ discriminate. }
  2:{ inversion H; subst. destruct Hin as [<-|[]]. cbn. apply Z.le_refl. }
  destruct (o_sym a) as [sa|], (o_sym b) as [sb|]; try discriminate.
  unfold link_sym in H.
  destruct (match st_debug sa, st_debug sb with
            | Some da, Some db => match debug_link da db with Some d => Some (Some d) | None => None end
            | Some da, None => Some (Some da)
            | None, x => Some x end) as [dbg|]; [|discriminate].
  match type of H with context [merge_labels ?bl ?al ?rel ?q] => destruct (merge_labels bl al rel q) as [L R Q|sp'|] eqn:EM end; try discriminate.
  - destruct (apply_relocs bs Q); discriminate.
  - inversion H; subst. clear H.
    revert EM. generalize (rel_extend (st_rel sa) (st_rel sb)) as rel. generalize (@nil (Z * Z)) as q.
    generalize (st_labels sa) as al.
    match goal with |- forall al q rel, merge_labels ?bl _ _ _ = _ -> _ => induction bl as [|(name, bd) r IH] end; intros al q rel EM; [discriminate|].
    cbn [merge_labels] in EM. destruct (lookup name al) as [ad|]; [|eauto].
    destruct (sd_external ad), (sd_external bd); eauto.
    destruct (sd_addr ad =? sd_addr bd); [eauto|].
    unfold sym_span in EM.
    destruct (usize_max <? sd_src_start ad + byte_len name); [discriminate|].
    destruct (usize_max <? sd_src_start bd + byte_len name); [discriminate|].
    inversion EM; subst. pose proof (byte_len_nonneg name).
    destruct Hin as [<-|[<-|[]]]; cbn; Lia.lia.
Qed.
Print Assumptions C26_link_spans_ordered.
