(* LinkLines.v — C22 on the linker model: the linked object's line and label positions point at
   the same text as in the originating files. *)
From Coq Require Import ZArith List Bool Lia.
From Model Require Import Tree Bits Text SourceInfo Obj Link.
From Spec Require Import LinkSpec.
From Proofs Require Import LinkBlocks LinkSyms LinkDebug LinkSpecProofs LinkProofs.
Import ListNotations.
Open Scope Z_scope.

Definition src_shift (sa sb : symtab) : Z :=
  match st_debug sa, st_debug sb with Some da, Some _ => byte_len (ds_src da) + 1 | _, _ => 0 end.

(* what a successful link of two objects with symbol tables is made of *)
Lemma link_shape a b r sa sb : link a b = LOk r -> o_sym a = Some sa -> o_sym b = Some sb ->
  exists bs' L R Q dbg,
    r = mkObj bs' (Some (mkSymtab L R dbg)) /\
    match st_debug sa, st_debug sb with
    | Some da, Some db => match debug_link da db with Some d => Some (Some d) | None => None end
    | Some da, None => Some (Some da)
    | None, x => Some x
    end = Some dbg /\
    merge_labels (shifted (src_shift sa sb) (st_labels sb)) (st_labels sa) (rel_extend (st_rel sa) (st_rel sb)) [] = MOk L R Q.
Proof.
  intros H Ea Eb. unfold link in H.
  destruct (insert_blocks (o_blocks b) (o_blocks a)) as [bs|]; [|discriminate].
  destruct (adj_check bs); try discriminate. rewrite Ea, Eb in H. unfold link_sym in H.
  fold (src_shift sa sb) in H. fold (shifted (src_shift sa sb) (st_labels sb)) in H.
  destruct (match st_debug sa, st_debug sb with
            | Some da, Some db => match debug_link da db with Some d => Some (Some d) | None => None end
            | Some da, None => Some (Some da)
            | None, x => Some x end) as [dbg|]; [|discriminate].
  destruct (merge_labels (shifted (src_shift sa sb) (st_labels sb)) (st_labels sa) (rel_extend (st_rel sa) (st_rel sb)) []) as [L R Q| |]; try discriminate.
  destruct (apply_relocs bs Q) as [bs'|]; [|discriminate]. inversion H; subst.
  exists bs', L, R, Q, dbg. auto.
Qed.

(* two objects with debug symbols and their successful link *)
Definition LinkedDbg (a b r : objfile) (sa sb sr : symtab) (da db : debug_symbols) : Prop :=
  ObjInv a /\ ObjInv b /\ LinesFit a b /\ link a b = LOk r /\
  o_sym a = Some sa /\ o_sym b = Some sb /\ st_debug sa = Some da /\ st_debug sb = Some db /\ o_sym r = Some sr.
Ltac linked H := destruct H as (Ia & Ib & Hfit & Hlink & Ea & Eb & Da & Db & Er).

Lemma linked_debug a b r sa sb sr da db : LinkedDbg a b r sa sb sr da db ->
  st_debug sr = Some (mkDebug (ds_lines da ++ shift_lines (count_lines (ds_src da)) (ds_lines db)) (ds_src da ++ [10] ++ ds_src db)).
Proof.
  intro HL. linked HL.
  destruct (link_shape _ _ _ _ _ Hlink Ea Eb) as (bs' & L & R & Q & dbg & E1 & E2 & E3).
  rewrite E1 in Er. cbn in Er. inversion Er; subst sr. cbn [st_debug].
  rewrite Da, Db in E2.
  destruct (objinv_sym _ _ Ia Ea) as [_ _ _ _ A5]. destruct (objinv_sym _ _ Ib Eb) as [_ _ _ _ B5].
  rewrite Da in A5. rewrite Db in B5.
  assert (F : count_lines (ds_src da) + count_lines (ds_src db) <= usize_max).
  { unfold LinesFit, nlines in Hfit. rewrite Ea, Eb, Da, Db in Hfit. exact Hfit. }
  destruct da as [la srca], db as [lb srcb]. cbn [ds_lines ds_src] in *.
  rewrite (debug_link_shape _ _ _ _ _ _ A5 B5 F) in E2. inversion E2. reflexivity.
Qed.

Lemma images_disjoint a b r addr : ObjInv a -> ObjInv b -> link a b = LOk r ->
  covered (o_blocks a) addr = false \/ covered (o_blocks b) addr = false.
Proof.
  intros Ia Ib Hlink.
  pose proof (link_ok_inv _ _ _ Ia Ib Hlink) as (L1 & _). specialize (L1 addr). cbn in L1.
  rewrite !img_at_blocks in L1. unfold covered. destruct L1 as [K|K]; rewrite K; auto.
Qed.

(* an address of the first file: same line number, same text *)
Theorem linked_line_first a b r sa sb sr da db addr : LinkedDbg a b r sa sb sr da db ->
  img_at a addr <> None -> line_text_at sr addr = line_text_at sa addr.
Proof.
  intros HL Hc. pose proof (linked_debug _ _ _ _ _ _ _ _ HL) as LD. linked HL.
  unfold line_text_at. rewrite LD, Da. cbn [ds_lines ds_src].
  destruct (objinv_sym _ _ Ia Ea) as [_ _ _ _ A5]. destruct (objinv_sym _ _ Ib Eb) as [_ _ _ _ B5].
  rewrite Da in A5. rewrite Db in B5.
  assert (Cb : covered (o_blocks b) addr = false).
  { destruct (images_disjoint a b r addr Ia Ib Hlink) as [K|K]; [|exact K]. rewrite img_at_blocks in Hc. unfold covered in K.
    destruct (img_blocks (o_blocks a) addr); [discriminate|contradiction]. }
  rewrite line_find_app, line_find_shift, (line_find_uncovered _ _ _ _ _ B5 Cb). cbn [option_map].
  destruct (line_find (ds_lines da) addr) as [ln|] eqn:E; [|reflexivity].
  destruct (line_find_bounds _ _ _ _ _ _ A5 E) as (Hb & _).
  rewrite lines_prefix by exact Hb. reflexivity.
Qed.

(* an address of the second file: the line number moves by the line count of the first source,
   the text is the same *)
Theorem linked_line_second a b r sa sb sr da db addr : LinkedDbg a b r sa sb sr da db ->
  img_at b addr <> None ->
  line_text_at sr addr = option_map (fun p => (fst p + count_lines (ds_src da), snd p)) (line_text_at sb addr).
Proof.
  intros HL Hc. pose proof (linked_debug _ _ _ _ _ _ _ _ HL) as LD. linked HL.
  unfold line_text_at. rewrite LD, Db. cbn [ds_lines ds_src].
  destruct (objinv_sym _ _ Ia Ea) as [_ _ _ _ A5]. destruct (objinv_sym _ _ Ib Eb) as [_ _ _ _ B5].
  rewrite Da in A5. rewrite Db in B5.
  assert (Ca : covered (o_blocks a) addr = false).
  { destruct (images_disjoint a b r addr Ia Ib Hlink) as [K|K]; [exact K|]. rewrite img_at_blocks in Hc. unfold covered in K.
    destruct (img_blocks (o_blocks b) addr); [discriminate|contradiction]. }
  rewrite line_find_app, line_find_shift, (line_find_uncovered _ _ _ _ _ A5 Ca).
  destruct (line_find (ds_lines db) addr) as [ln|] eqn:E; [|reflexivity].
  destruct (line_find_bounds _ _ _ _ _ _ B5 E) as (Hb & _). cbn [option_map fst snd].
  replace (ln + count_lines (ds_src da)) with (count_lines (ds_src da) + ln) by lia.
  rewrite lines_append by lia. reflexivity.
Qed.

(* ---------- label positions ---------- *)
Definition span_ok (src : str) (n : str) (d : symdata) : Prop :=
  0 <= sd_src_start d /\ sd_src_start d + byte_len n <= byte_len src /\
  upper (substr src (sd_src_start d) (sd_src_start d + byte_len n)) = n.

Lemma label_spans_ok_iff o st d : o_sym o = Some st -> st_debug st = Some d ->
  (label_spans_ok_b o = true <-> forall n x, In (n, x) (st_labels st) -> span_ok (ds_src d) n x).
Proof.
  intros E1 E2. unfold label_spans_ok_b. rewrite E1, E2, forallb_forall. split.
  - intros H n x Hin. specialize (H _ Hin). cbn [fst snd] in H.
    apply andb_true_iff in H. destruct H as (H & H3). apply andb_true_iff in H. destruct H as (H1 & H2).
    apply Z.leb_le in H1. apply Z.leb_le in H2. apply str_eqb_eq in H3. repeat split; assumption.
  - intros H (n, x) Hin. destruct (H _ _ Hin) as (H1 & H2 & H3). cbn [fst snd].
    apply andb_true_iff. split; [apply andb_true_iff; split; [apply Z.leb_le|apply Z.leb_le]; assumption|].
    apply str_eqb_eq. exact H3.
Qed.


(* every label of the linked object: its recorded position lies in the combined source and
   spells the label there *)
Theorem linked_label_spans a b r sa sb sr da db : LinkedDbg a b r sa sb sr da db ->
  label_spans_ok_b a = true -> label_spans_ok_b b = true ->
  byte_len (ds_src da ++ [10] ++ ds_src db) <= usize_max ->
  label_spans_ok_b r = true.
Proof.
  intros HL La Lb SrcFit. pose proof (linked_debug _ _ _ _ _ _ _ _ HL) as LD. linked HL.
  apply (label_spans_ok_iff r sr _ Er LD). cbn [ds_src].
  pose proof (proj1 (label_spans_ok_iff a sa da Ea Da) La) as Sa.
  pose proof (proj1 (label_spans_ok_iff b sb db Eb Db) Lb) as Sb.
  destruct (link_shape _ _ _ _ _ Hlink Ea Eb) as (bs' & L & R & Q & dbg & E1 & E2 & E3).
  rewrite E1 in Er. cbn in Er. inversion Er; subst sr. cbn [st_labels].
  destruct (objinv_sym _ _ Ia Ea) as [A1 _ _ _ _]. destruct (objinv_sym _ _ Ib Eb) as [B1 _ _ _ _].
  assert (Nb : NoDup (map fst (shifted (src_shift sa sb) (st_labels sb)))) by (rewrite keys_shift; exact B1).
  destruct (merge_labels_ok _ Nb _ _ _ _ _ _ E3) as (I1 & _ & _ & _ & _ & I7).
  intros n x Hin. apply (in_lookup _ _ _ (I7 A1)) in Hin. rewrite I1, lookup_shift in Hin.
  assert (Sh : src_shift sa sb = byte_len (ds_src da) + 1) by (unfold src_shift; rewrite Da, Db; reflexivity).
  assert (FromA : forall ad, lookup n (st_labels sa) = Some ad -> span_ok (ds_src da ++ [10] ++ ds_src db) n ad).
  { intros ad E. destruct (Sa _ _ (lookup_in _ _ _ E)) as (H1 & H2 & H3). repeat split; [exact H1| |].
    - rewrite byte_len_app. pose proof (byte_len_nonneg ([10] ++ ds_src db)). lia.
    - rewrite substr_app_l by exact H2. exact H3. }
  assert (FromB : forall bd, lookup n (st_labels sb) = Some bd ->
             span_ok (ds_src da ++ [10] ++ ds_src db) n (shift_sym (src_shift sa sb) bd)).
  { intros bd E. destruct (Sb _ _ (lookup_in _ _ _ E)) as (H1 & H2 & H3).
    assert (Hl : byte_len (ds_src da ++ [10] ++ ds_src db) = byte_len (ds_src da) + 1 + byte_len (ds_src db)).
    { rewrite !byte_len_app. change (byte_len [10]) with 1. lia. }
    pose proof (byte_len_nonneg (ds_src da)). pose proof (byte_len_nonneg n).
    unfold span_ok, shift_sym. cbn [sd_src_start]. rewrite Sh.
    rewrite Z.min_l by lia. repeat split; [lia|lia|].
    rewrite app_assoc.
    replace (sd_src_start bd + (byte_len (ds_src da) + 1)) with (sd_src_start bd + byte_len (ds_src da ++ [10])) by (rewrite byte_len_app; change (byte_len [10]) with 1; lia).
    replace (sd_src_start bd + byte_len (ds_src da ++ [10]) + byte_len n) with (sd_src_start bd + byte_len n + byte_len (ds_src da ++ [10])) by lia.
    rewrite substr_app_r by exact H1. exact H3. }
  destruct (lookup n (st_labels sa)) as [ad|] eqn:Xa, (lookup n (st_labels sb)) as [bd|] eqn:Xb;
    unfold mrule in Hin; cbn [option_map] in Hin.
  - destruct (sd_external ad && negb (sd_external (shift_sym (src_shift sa sb) bd))); injection Hin as <-; auto.
  - injection Hin as <-. auto.
  - injection Hin as <-. auto.
  - discriminate.
Qed.
