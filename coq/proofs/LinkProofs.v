(* LinkProofs.v — the linker model (model/Link.v) refines the order-free specification
   (spec/LinkSpec.v) on objects satisfying the object invariant; success iff linkable;
   commutativity, associativity, every order and bracketing; the load check; relocation sites. *)
From Coq Require Import ZArith List Bool Lia Permutation.
From Model Require Import Tree Bits Text SourceInfo Obj Link.
From Spec Require Import LinkSpec.
From Proofs Require Import LinkBlocks LinkSyms LinkDebug LinkSpecProofs.
Import ListNotations.
Open Scope Z_scope.

(* The object invariant is the boolean the harness evaluates on every assembled and linked object. *)
Definition ObjInv (o : objfile) : Prop := obj_inv_b o = true.

Definition nlines (o : objfile) : Z :=
  match o_sym o with
  | Some st => match st_debug st with Some d => count_lines (ds_src d) | None => 0 end
  | None => 0
  end.
(* the line numbers of the combined source fit in a usize (Rust strings are shorter than 2^63 bytes) *)
Definition LinesFit (a b : objfile) : Prop := nlines a + nlines b <= usize_max.

(* ---------- views in terms of the model's lookups ---------- *)
Definition fsym (d : symdata) : Z * bool := (sd_addr d, sd_external d).

Lemma img_at_blocks o addr : img_at o addr = img_blocks (o_blocks o) addr.
Proof.
  unfold img_at. induction (o_blocks o) as [|(s, ws) r IH]; cbn; [reflexivity|].
  change (Z.of_nat (Datatypes.length ws)) with (zlen ws).
  destruct ((s <=? addr) && (addr <? s + zlen ws)); [reflexivity|exact IH].
Qed.
Lemma find_lookup (l : list (str * symdata)) n :
  match find (fun p => str_eqb (fst p) n) l with Some (_, d) => Some (fsym d) | None => None end = option_map fsym (lookup n l).
Proof.
  induction l as [|(k, d) r IH]; cbn; [reflexivity|]. rewrite (str_eqb_sym k n).
  destruct (str_eqb n k); [reflexivity|exact IH].
Qed.
Lemma lbl_at_lookup o n :
  lbl_at o n = match o_sym o with Some st => option_map fsym (lookup n (st_labels st)) | None => None end.
Proof. unfold lbl_at. destruct (o_sym o) as [st|]; [|reflexivity]. apply find_lookup. Qed.
Lemma find_rel_find (l : list (Z * str)) a :
  match find (fun p => fst p =? a) l with Some (_, n) => Some n | None => None end = rel_find a l.
Proof. induction l as [|(k, n) r IH]; cbn; [reflexivity|]. destruct (k =? a); [reflexivity|exact IH]. Qed.
Lemma pend_at_find o a :
  pend_at o a = match o_sym o with Some st => rel_find a (st_rel st) | None => None end.
Proof. unfold pend_at. destruct (o_sym o) as [st|]; [|reflexivity]. apply find_rel_find. Qed.

(* ---------- what the invariant says ---------- *)
Lemma objinv_blocks o : ObjInv o -> blocks_ok 0 (o_blocks o) = true.
Proof. unfold ObjInv, obj_inv_b. intro H. apply andb_true_iff in H. tauto. Qed.

Record SymInv (bs : blocks) (st : symtab) : Prop := {
  si_labels : NoDup (map fst (st_labels st));
  si_rel : NoDup (map fst (st_rel st));
  si_rel_ext : forall a n, In (a, n) (st_rel st) -> is_external (st_labels st) n = true /\ covered bs a = true;
  si_ext0 : forall n d, In (n, d) (st_labels st) -> sd_external d = true -> sd_addr d = 0;
  si_lines : match st_debug st with
             | Some d => lines_ok 0 (count_lines (ds_src d)) bs (ds_lines d) = true
             | None => True
             end
}.
Lemma symtab_ok_iff bs st : symtab_ok bs st = true <-> SymInv bs st.
Proof.
  unfold symtab_ok. rewrite !andb_true_iff, nodup_str_iff, nodup_z_iff, !forallb_forall. split.
  - intros ((((H1 & H2) & H3) & H4) & H5). constructor; auto.
    + intros a n Hin. specialize (H3 _ Hin). cbn in H3. apply andb_true_iff in H3. exact H3.
    + intros n d Hin Hx. specialize (H4 _ Hin). cbn in H4. rewrite Hx in H4. cbn in H4. apply Z.eqb_eq in H4. exact H4.
    + destruct (st_debug st); [exact H5|trivial].
  - intros [H1 H2 H3 H4 H5]. repeat split; auto.
    + intros (a, n) Hin. cbn. apply andb_true_iff. apply H3. exact Hin.
    + intros (n, d) Hin. cbn. destruct (sd_external d) eqn:E; [|reflexivity]. cbn. apply Z.eqb_eq. eauto.
    + destruct (st_debug st); [exact H5|reflexivity].
Qed.
Lemma objinv_sym o st : ObjInv o -> o_sym o = Some st -> SymInv (o_blocks o) st.
Proof.
  unfold ObjInv, obj_inv_b. intros H E. rewrite E in H. apply andb_true_iff in H. apply symtab_ok_iff. tauto.
Qed.
Lemma objinv_intro bs sym : blocks_ok 0 bs = true ->
  (forall st, sym = Some st -> SymInv bs st) -> ObjInv (mkObj bs sym).
Proof.
  intros H1 H2. unfold ObjInv, obj_inv_b. cbn. rewrite H1. cbn. destruct sym as [st|]; [|reflexivity].
  apply symtab_ok_iff. auto.
Qed.

Lemma is_external_lookup labels n : is_external labels n = true <-> exists d, lookup n labels = Some d /\ sd_external d = true.
Proof.
  unfold is_external. destruct (lookup n labels) as [d|].
  - split; [eauto|]. intros (d' & E & X). inversion E; subst. exact X.
  - split; [discriminate|]. intros (d' & E & _). discriminate.
Qed.

Lemma objinv_viewinv o : ObjInv o -> ViewInv (view_of o).
Proof.
  intro H. pose proof (objinv_blocks _ H) as Hb. repeat split; cbn.
  - intros n x. rewrite lbl_at_lookup. destruct (o_sym o) as [st|] eqn:E; [|discriminate].
    destruct (lookup n (st_labels st)) as [d|] eqn:El; [|discriminate]. unfold fsym. cbn. intro K. inversion K; subst.
    destruct (objinv_sym _ _ H E) as [S1 S2 S3 S4 S5]. eapply S4; [eapply lookup_in; eauto|assumption].
  - intros addr n. rewrite pend_at_find, lbl_at_lookup. destruct (o_sym o) as [st|] eqn:E; [|discriminate].
    intro K. apply rel_find_in in K. destruct (objinv_sym _ _ H E) as [S1 S2 S3 S4 S5]. destruct (S3 _ _ K) as (X & _).
    apply is_external_lookup in X. destruct X as (d & Ed & Xd). rewrite Ed. unfold fsym. cbn. rewrite Xd. eauto.
  - intros addr n. rewrite pend_at_find, img_at_blocks. destruct (o_sym o) as [st|] eqn:E; [|discriminate].
    intro K. apply rel_find_in in K. destruct (objinv_sym _ _ H E) as [S1 S2 S3 S4 S5]. destruct (S3 _ _ K) as (_ & C).
    unfold covered in C. destruct (img_blocks (o_blocks o) addr); [discriminate|discriminate].
Qed.

(* ---------- the merged block map ---------- *)
Definition bend (b : Z * list (option Z)) : Z := fst b + zlen (snd b).

Lemma sorted_pairs lo (l : blocks) :
  sorted_from lo l -> (forall x y, In x l -> In y l -> fst x < fst y -> bend x <= fst y) ->
  ForallOrdPairs (fun x y => fst x + zlen (snd x) <= fst y) l.
Proof.
  revert lo. induction l as [|(s, ws) r IH]; intros lo Hs Hd; [constructor|].
  destruct Hs as (S1 & S2). constructor.
  - apply Forall_forall. intros (s', ws') Hin. apply (Hd (s, ws) (s', ws')); cbn; auto.
    pose proof (sorted_from_in _ _ _ _ S2 Hin). lia.
  - eapply IH; [exact S2|]. intros x y Hx Hy. apply Hd; cbn; auto.
Qed.
Lemma chain_disjoint lo (l : blocks) x y : blocks_ok lo l = true -> In x l -> In y l -> fst x < fst y -> bend x <= fst y.
Proof.
  intros H Hx Hy Hlt. pose proof (chain_pairs _ _ H) as P.
  destruct (ForallOrdPairs_In P x y Hx Hy) as [E|[K|K]].
  - subst. lia.
  - exact K.
  - pose proof (blocks_ok_sized_gen lo l H) as Z. rewrite Forall_forall in Z. specialize (Z _ Hy). unfold bend. lia.
Qed.

Lemma in_covers_img bs s ws addr : In (s, ws) bs -> covers (s, ws) addr -> img_blocks bs addr <> None.
Proof. intros Hin Hc E. rewrite img_blocks_none in E. eapply E; eauto. Qed.
Lemma block_covers_start lo bs s ws : blocks_ok lo bs = true -> In (s, ws) bs -> covers (s, ws) s.
Proof.
  intros H Hin. pose proof (blocks_ok_sized_gen _ _ H) as Z. rewrite Forall_forall in Z. specialize (Z _ Hin).
  unfold covers. cbn in *. lia.
Qed.

Lemma merge_blocks_ok a_bs b_bs :
  blocks_ok 0 a_bs = true -> blocks_ok 0 b_bs = true ->
  (forall addr, img_blocks a_bs addr = None \/ img_blocks b_bs addr = None) ->
  exists bs, insert_blocks b_bs a_bs = Some bs /\ blocks_ok 0 bs = true /\
             (forall x, In x bs <-> In x b_bs \/ In x a_bs).
Proof.
  intros Ha Hb Hd.
  pose proof (blocks_ok_sorted_from _ _ Ha) as Sa. pose proof (blocks_ok_sorted_from _ _ Hb) as Sb.
  destruct (insert_blocks_total b_bs a_bs 0 Sb) as (bs & E).
  { intros s ws ws' Hinb Hina. destruct (Hd s) as [K|K].
    - eapply in_covers_img; [exact Hina| |exact K]. apply (block_covers_start 0 a_bs); assumption.
    - eapply in_covers_img; [exact Hinb| |exact K]. apply (block_covers_start 0 b_bs); assumption. }
  exists bs. split; [exact E|].
  pose proof (insert_blocks_some _ _ _ E) as Hin.
  assert (Ss : sorted_from 0 bs).
  { eapply insert_blocks_sorted; eauto. intros s ws Hi. eapply sorted_from_in; eauto. }
  assert (Zs : Forall sized bs).
  { apply Forall_forall. intros x Hx. apply Hin in Hx. destruct Hx as [Hx|Hx].
    - pose proof (blocks_ok_sized 0 _ (Z.le_refl 0) Hb) as Z. rewrite Forall_forall in Z. auto.
    - pose proof (blocks_ok_sized 0 _ (Z.le_refl 0) Ha) as Z. rewrite Forall_forall in Z. auto. }
  split; [|exact Hin].
  apply pairs_chain; [exact Ss|exact Zs|]. eapply sorted_pairs; [exact Ss|].
  intros x y Hx Hy Hlt. apply Hin in Hx. apply Hin in Hy.
  assert (Mixed : forall p q l1 l2, blocks_ok 0 l1 = true -> blocks_ok 0 l2 = true ->
            (forall addr, img_blocks l1 addr = None \/ img_blocks l2 addr = None) ->
            In p l1 -> In q l2 -> fst p < fst q -> bend p <= fst q).
  { intros (ps, pw) (qs, qw) l1 l2 H1 H2 Hdd Hp Hq Hl. unfold bend. cbn in *.
    destruct (Z_le_gt_dec (ps + zlen pw) qs) as [|G]; [assumption|]. exfalso.
    destruct (Hdd qs) as [K|K].
    - eapply in_covers_img; [exact Hp| |exact K]. unfold covers. cbn. lia.
    - eapply in_covers_img; [exact Hq| |exact K]. apply (block_covers_start 0 l2); assumption. }
  destruct Hx as [Hx|Hx], Hy as [Hy|Hy].
  - apply (chain_disjoint 0 b_bs); assumption.
  - apply (Mixed x y b_bs a_bs); try assumption. intro addr. destruct (Hd addr); auto.
  - apply (Mixed x y a_bs b_bs); assumption.
  - apply (chain_disjoint 0 a_bs); assumption.
Qed.

Lemma merged_img a_bs b_bs bs : blocks_ok 0 a_bs = true -> blocks_ok 0 b_bs = true -> blocks_ok 0 bs = true ->
  (forall x, In x bs <-> In x b_bs \/ In x a_bs) ->
  forall addr, img_blocks bs addr = first_of (img_blocks a_bs addr) (img_blocks b_bs addr).
Proof.
  intros Ha Hb Hs Hin addr. unfold first_of.
  destruct (img_blocks a_bs addr) as [w|] eqn:Ea.
  - destruct (img_blocks_in _ _ _ Ea) as (s & ws & I1 & I2 & I3).
    rewrite (img_blocks_of_in 0 bs addr s ws Hs); [exact I3| |exact I2]. apply Hin. auto.
  - destruct (img_blocks b_bs addr) as [w|] eqn:Eb.
    + destruct (img_blocks_in _ _ _ Eb) as (s & ws & I1 & I2 & I3).
      rewrite (img_blocks_of_in 0 bs addr s ws Hs); [exact I3| |exact I2]. apply Hin. auto.
    + apply img_blocks_none. intros s ws Hi Hc. apply Hin in Hi. destruct Hi as [Hi|Hi].
      * rewrite img_blocks_none in Eb. eapply Eb; eauto.
      * rewrite img_blocks_none in Ea. eapply Ea; eauto.
Qed.

Lemma merge_blocks_inv a_bs b_bs bs :
  blocks_ok 0 a_bs = true -> blocks_ok 0 b_bs = true ->
  insert_blocks b_bs a_bs = Some bs -> adj_check bs = AdjOk ->
  blocks_ok 0 bs = true /\ (forall addr, img_blocks a_bs addr = None \/ img_blocks b_bs addr = None).
Proof.
  intros Ha Hb E Hadj.
  pose proof (blocks_ok_sorted_from _ _ Ha) as Sa. pose proof (blocks_ok_sorted_from _ _ Hb) as Sb.
  pose proof (insert_blocks_some _ _ _ E) as Hin.
  assert (Kb : forall s ws, In (s, ws) b_bs -> 0 <= s) by (intros s ws Hi; eapply sorted_from_in; eauto).
  assert (Ss : sorted_from 0 bs) by (eapply insert_blocks_sorted; eauto).
  assert (Zs : Forall sized bs).
  { apply Forall_forall. intros x Hx. apply Hin in Hx. destruct Hx as [Hx|Hx].
    - pose proof (blocks_ok_sized 0 _ (Z.le_refl 0) Hb) as Z. rewrite Forall_forall in Z. auto.
    - pose proof (blocks_ok_sized 0 _ (Z.le_refl 0) Ha) as Z. rewrite Forall_forall in Z. auto. }
  assert (Hs : blocks_ok 0 bs = true) by (apply chain_of_adj_check; auto; lia).
  split; [exact Hs|]. intro addr.
  destruct (img_blocks a_bs addr) as [wa|] eqn:Ea; [|auto].
  destruct (img_blocks b_bs addr) as [wb|] eqn:Eb; [|auto]. exfalso.
  destruct (img_blocks_in _ _ _ Ea) as (sa & wsa & A1 & A2 & _).
  destruct (img_blocks_in _ _ _ Eb) as (sb & wsb & B1 & B2 & _).
  unfold covers in A2, B2. cbn in A2, B2.
  assert (Ia : In (sa, wsa) bs) by (apply Hin; auto). assert (Ib : In (sb, wsb) bs) by (apply Hin; auto).
  destruct (Z.lt_total sa sb) as [L|[L|L]].
  - pose proof (chain_disjoint 0 bs (sa, wsa) (sb, wsb) Hs Ia Ib L) as K. unfold bend in K. cbn in K. lia.
  - subst. eapply (insert_blocks_fresh _ _ _ Sa Kb E); eauto.
  - pose proof (chain_disjoint 0 bs (sb, wsb) (sa, wsa) Hs Ib Ia L) as K. unfold bend in K. cbn in K. lia.
Qed.
