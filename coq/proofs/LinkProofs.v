(* LinkProofs.v — the linker model (model/Link.v) refines the order-free specification
   (spec/LinkSpec.v) on objects satisfying the object invariant; success iff linkable;
   commutativity, associativity, every order and bracketing; the load check; relocation sites. *)
From Coq Require Import ZArith List Bool Lia Permutation.
From Model Require Import Tree Bits Text SourceInfo Obj Link.
From Spec Require Import LinkSpec.
From Proofs Require Import LinkBlocks LinkSyms LinkDebug LinkSpecProofs.
Import ListNotations.
Open Scope Z_scope.

(* The object invariant is the boolean the harness evaluates on every assembled and linked object. *)
Definition ObjInv (o : objfile) : Prop := obj_inv_b o = true.

Definition nlines (o : objfile) : Z :=
  match o_sym o with
  | Some st => match st_debug st with Some d => count_lines (ds_src d) | None => 0 end
  | None => 0
  end.
(* the line numbers of the combined source fit in a usize (Rust strings are shorter than 2^63 bytes) *)
Definition LinesFit (a b : objfile) : Prop := nlines a + nlines b <= usize_max.

(* ---------- views in terms of the model's lookups ---------- *)
Definition fsym (d : symdata) : Z * bool := (sd_addr d, sd_external d).

Lemma img_at_blocks o addr : img_at o addr = img_blocks (o_blocks o) addr.
Proof.
  unfold img_at. induction (o_blocks o) as [|(s, ws) r IH]; cbn; [reflexivity|].
  change (Z.of_nat (Datatypes.length ws)) with (zlen ws).
  destruct ((s <=? addr) && (addr <? s + zlen ws)); [reflexivity|exact IH].
Qed.
Lemma find_lookup (l : list (str * symdata)) n :
  match find (fun p => str_eqb (fst p) n) l with Some (_, d) => Some (fsym d) | None => None end = option_map fsym (lookup n l).
Proof.
  induction l as [|(k, d) r IH]; cbn; [reflexivity|]. rewrite (str_eqb_sym k n).
  destruct (str_eqb n k); [reflexivity|exact IH].
Qed.
Lemma lbl_at_lookup o n :
  lbl_at o n = match o_sym o with Some st => option_map fsym (lookup n (st_labels st)) | None => None end.
Proof. unfold lbl_at. destruct (o_sym o) as [st|]; [|reflexivity]. apply find_lookup. Qed.
Lemma find_rel_find (l : list (Z * str)) a :
  match find (fun p => fst p =? a) l with Some (_, n) => Some n | None => None end = rel_find a l.
Proof. induction l as [|(k, n) r IH]; cbn; [reflexivity|]. destruct (k =? a); [reflexivity|exact IH]. Qed.
Lemma pend_at_find o a :
  pend_at o a = match o_sym o with Some st => rel_find a (st_rel st) | None => None end.
Proof. unfold pend_at. destruct (o_sym o) as [st|]; [|reflexivity]. apply find_rel_find. Qed.

(* ---------- what the invariant says ---------- *)
Lemma objinv_blocks o : ObjInv o -> blocks_ok 0 (o_blocks o) = true.
Proof. unfold ObjInv, obj_inv_b. intro H. apply andb_true_iff in H. tauto. Qed.

Record SymInv (bs : blocks) (st : symtab) : Prop := {
  si_labels : NoDup (map fst (st_labels st));
  si_rel : NoDup (map fst (st_rel st));
  si_rel_ext : forall a n, In (a, n) (st_rel st) -> is_external (st_labels st) n = true /\ covered bs a = true;
  si_ext0 : forall n d, In (n, d) (st_labels st) -> sd_external d = true -> sd_addr d = 0;
  si_lines : match st_debug st with
             | Some d => lines_ok 0 (count_lines (ds_src d)) bs (ds_lines d) = true
             | None => True
             end
}.
Lemma symtab_ok_iff bs st : symtab_ok bs st = true <-> SymInv bs st.
Proof.
  unfold symtab_ok. rewrite !andb_true_iff, nodup_str_iff, nodup_z_iff, !forallb_forall. split.
  - intros ((((H1 & H2) & H3) & H4) & H5). constructor; auto.
    + intros a n Hin. specialize (H3 _ Hin). cbn in H3. apply andb_true_iff in H3. exact H3.
    + intros n d Hin Hx. specialize (H4 _ Hin). cbn in H4. rewrite Hx in H4. cbn in H4. apply Z.eqb_eq in H4. exact H4.
    + destruct (st_debug st); [exact H5|trivial].
  - intros [H1 H2 H3 H4 H5]. repeat split; auto.
    + intros (a, n) Hin. cbn. apply andb_true_iff. apply H3. exact Hin.
    + intros (n, d) Hin. cbn. destruct (sd_external d) eqn:E; [|reflexivity]. cbn. apply Z.eqb_eq. eauto.
    + destruct (st_debug st); [exact H5|reflexivity].
Qed.
Lemma objinv_sym o st : ObjInv o -> o_sym o = Some st -> SymInv (o_blocks o) st.
Proof.
  unfold ObjInv, obj_inv_b. intros H E. rewrite E in H. apply andb_true_iff in H. apply symtab_ok_iff. tauto.
Qed.
Lemma objinv_intro bs sym : blocks_ok 0 bs = true ->
  (forall st, sym = Some st -> SymInv bs st) -> ObjInv (mkObj bs sym).
Proof.
  intros H1 H2. unfold ObjInv, obj_inv_b. cbn. rewrite H1. cbn. destruct sym as [st|]; [|reflexivity].
  apply symtab_ok_iff. auto.
Qed.

Lemma is_external_lookup labels n : is_external labels n = true <-> exists d, lookup n labels = Some d /\ sd_external d = true.
Proof.
  unfold is_external. destruct (lookup n labels) as [d|].
  - split; [eauto|]. intros (d' & E & X). inversion E; subst. exact X.
  - split; [discriminate|]. intros (d' & E & _). discriminate.
Qed.

Lemma objinv_viewinv o : ObjInv o -> ViewInv (view_of o).
Proof.
  intro H. pose proof (objinv_blocks _ H) as Hb. repeat split; cbn.
  - intros n x. rewrite lbl_at_lookup. destruct (o_sym o) as [st|] eqn:E; [|discriminate].
    destruct (lookup n (st_labels st)) as [d|] eqn:El; [|discriminate]. unfold fsym. cbn. intro K. inversion K; subst.
    destruct (objinv_sym _ _ H E) as [S1 S2 S3 S4 S5]. eapply S4; [eapply lookup_in; eauto|assumption].
  - intros addr n. rewrite pend_at_find, lbl_at_lookup. destruct (o_sym o) as [st|] eqn:E; [|discriminate].
    intro K. apply rel_find_in in K. destruct (objinv_sym _ _ H E) as [S1 S2 S3 S4 S5]. destruct (S3 _ _ K) as (X & _).
    apply is_external_lookup in X. destruct X as (d & Ed & Xd). rewrite Ed. unfold fsym. cbn. rewrite Xd. eauto.
  - intros addr n. rewrite pend_at_find, img_at_blocks. destruct (o_sym o) as [st|] eqn:E; [|discriminate].
    intro K. apply rel_find_in in K. destruct (objinv_sym _ _ H E) as [S1 S2 S3 S4 S5]. destruct (S3 _ _ K) as (_ & C).
    unfold covered in C. destruct (img_blocks (o_blocks o) addr); [discriminate|discriminate].
Qed.

(* ---------- the merged block map ---------- *)
Definition bend (b : Z * list (option Z)) : Z := fst b + zlen (snd b).

Lemma sorted_pairs lo (l : blocks) :
  sorted_from lo l -> (forall x y, In x l -> In y l -> fst x < fst y -> bend x <= fst y) ->
  ForallOrdPairs (fun x y => fst x + zlen (snd x) <= fst y) l.
Proof.
  revert lo. induction l as [|(s, ws) r IH]; intros lo Hs Hd; [constructor|].
  destruct Hs as (S1 & S2). constructor.
  - apply Forall_forall. intros (s', ws') Hin. apply (Hd (s, ws) (s', ws')); cbn; auto.
    pose proof (sorted_from_in _ _ _ _ S2 Hin). lia.
  - eapply IH; [exact S2|]. intros x y Hx Hy. apply Hd; cbn; auto.
Qed.
Lemma chain_disjoint lo (l : blocks) x y : blocks_ok lo l = true -> In x l -> In y l -> fst x < fst y -> bend x <= fst y.
Proof.
  intros H Hx Hy Hlt. pose proof (chain_pairs _ _ H) as P.
  destruct (ForallOrdPairs_In P x y Hx Hy) as [E|[K|K]].
  - subst. lia.
  - exact K.
  - pose proof (blocks_ok_sized_gen lo l H) as Z. rewrite Forall_forall in Z. specialize (Z _ Hy). unfold bend. lia.
Qed.

Lemma in_covers_img bs s ws addr : In (s, ws) bs -> covers (s, ws) addr -> img_blocks bs addr <> None.
Proof. intros Hin Hc E. rewrite img_blocks_none in E. eapply E; eauto. Qed.
Lemma block_covers_start lo bs s ws : blocks_ok lo bs = true -> In (s, ws) bs -> covers (s, ws) s.
Proof.
  intros H Hin. pose proof (blocks_ok_sized_gen _ _ H) as Z. rewrite Forall_forall in Z. specialize (Z _ Hin).
  unfold covers. cbn in *. lia.
Qed.

Lemma merge_blocks_ok a_bs b_bs :
  blocks_ok 0 a_bs = true -> blocks_ok 0 b_bs = true ->
  (forall addr, img_blocks a_bs addr = None \/ img_blocks b_bs addr = None) ->
  exists bs, insert_blocks b_bs a_bs = Some bs /\ blocks_ok 0 bs = true /\
             (forall x, In x bs <-> In x b_bs \/ In x a_bs).
Proof.
  intros Ha Hb Hd.
  pose proof (blocks_ok_sorted_from _ _ Ha) as Sa. pose proof (blocks_ok_sorted_from _ _ Hb) as Sb.
  destruct (insert_blocks_total b_bs a_bs 0 Sb) as (bs & E).
  { intros s ws ws' Hinb Hina. destruct (Hd s) as [K|K].
    - eapply in_covers_img; [exact Hina| |exact K]. apply (block_covers_start 0 a_bs); assumption.
    - eapply in_covers_img; [exact Hinb| |exact K]. apply (block_covers_start 0 b_bs); assumption. }
  exists bs. split; [exact E|].
  pose proof (insert_blocks_some _ _ _ E) as Hin.
  assert (Ss : sorted_from 0 bs).
  { eapply insert_blocks_sorted; eauto. intros s ws Hi. eapply sorted_from_in; eauto. }
  assert (Zs : Forall sized bs).
  { apply Forall_forall. intros x Hx. apply Hin in Hx. destruct Hx as [Hx|Hx].
    - pose proof (blocks_ok_sized 0 _ (Z.le_refl 0) Hb) as Z. rewrite Forall_forall in Z. auto.
    - pose proof (blocks_ok_sized 0 _ (Z.le_refl 0) Ha) as Z. rewrite Forall_forall in Z. auto. }
  split; [|exact Hin].
  apply pairs_chain; [exact Ss|exact Zs|]. eapply sorted_pairs; [exact Ss|].
  intros x y Hx Hy Hlt. apply Hin in Hx. apply Hin in Hy.
  assert (Mixed : forall p q l1 l2, blocks_ok 0 l1 = true -> blocks_ok 0 l2 = true ->
            (forall addr, img_blocks l1 addr = None \/ img_blocks l2 addr = None) ->
            In p l1 -> In q l2 -> fst p < fst q -> bend p <= fst q).
  { intros (ps, pw) (qs, qw) l1 l2 H1 H2 Hdd Hp Hq Hl. unfold bend. cbn in *.
    destruct (Z_le_gt_dec (ps + zlen pw) qs) as [|G]; [assumption|]. exfalso.
    destruct (Hdd qs) as [K|K].
    - eapply in_covers_img; [exact Hp| |exact K]. unfold covers. cbn. lia.
    - eapply in_covers_img; [exact Hq| |exact K]. apply (block_covers_start 0 l2); assumption. }
  destruct Hx as [Hx|Hx], Hy as [Hy|Hy].
  - apply (chain_disjoint 0 b_bs); assumption.
  - apply (Mixed x y b_bs a_bs); try assumption. intro addr. destruct (Hd addr); auto.
  - apply (Mixed x y a_bs b_bs); assumption.
  - apply (chain_disjoint 0 a_bs); assumption.
Qed.

Lemma merged_img a_bs b_bs bs : blocks_ok 0 a_bs = true -> blocks_ok 0 b_bs = true -> blocks_ok 0 bs = true ->
  (forall x, In x bs <-> In x b_bs \/ In x a_bs) ->
  forall addr, img_blocks bs addr = first_of (img_blocks a_bs addr) (img_blocks b_bs addr).
Proof.
  intros Ha Hb Hs Hin addr. unfold first_of.
  destruct (img_blocks a_bs addr) as [w|] eqn:Ea.
  - destruct (img_blocks_in _ _ _ Ea) as (s & ws & I1 & I2 & I3).
    rewrite (img_blocks_of_in 0 bs addr s ws Hs); [exact I3| |exact I2]. apply Hin. auto.
  - destruct (img_blocks b_bs addr) as [w|] eqn:Eb.
    + destruct (img_blocks_in _ _ _ Eb) as (s & ws & I1 & I2 & I3).
      rewrite (img_blocks_of_in 0 bs addr s ws Hs); [exact I3| |exact I2]. apply Hin. auto.
    + apply img_blocks_none. intros s ws Hi Hc. apply Hin in Hi. destruct Hi as [Hi|Hi].
      * rewrite img_blocks_none in Eb. eapply Eb; eauto.
      * rewrite img_blocks_none in Ea. eapply Ea; eauto.
Qed.

Lemma merge_blocks_inv a_bs b_bs bs :
  blocks_ok 0 a_bs = true -> blocks_ok 0 b_bs = true ->
  insert_blocks b_bs a_bs = Some bs -> adj_check bs = AdjOk ->
  blocks_ok 0 bs = true /\ (forall addr, img_blocks a_bs addr = None \/ img_blocks b_bs addr = None).
Proof.
  intros Ha Hb E Hadj.
  pose proof (blocks_ok_sorted_from _ _ Ha) as Sa. pose proof (blocks_ok_sorted_from _ _ Hb) as Sb.
  pose proof (insert_blocks_some _ _ _ E) as Hin.
  assert (Kb : forall s ws, In (s, ws) b_bs -> 0 <= s) by (intros s ws Hi; eapply sorted_from_in; eauto).
  assert (Ss : sorted_from 0 bs) by (eapply insert_blocks_sorted; eauto).
  assert (Zs : Forall sized bs).
  { apply Forall_forall. intros x Hx. apply Hin in Hx. destruct Hx as [Hx|Hx].
    - pose proof (blocks_ok_sized 0 _ (Z.le_refl 0) Hb) as Z. rewrite Forall_forall in Z. auto.
    - pose proof (blocks_ok_sized 0 _ (Z.le_refl 0) Ha) as Z. rewrite Forall_forall in Z. auto. }
  assert (Hs : blocks_ok 0 bs = true) by (apply chain_of_adj_check; auto; lia).
  split; [exact Hs|]. intro addr.
  destruct (img_blocks a_bs addr) as [wa|] eqn:Ea; [|auto].
  destruct (img_blocks b_bs addr) as [wb|] eqn:Eb; [|auto]. exfalso.
  destruct (img_blocks_in _ _ _ Ea) as (sa & wsa & A1 & A2 & _).
  destruct (img_blocks_in _ _ _ Eb) as (sb & wsb & B1 & B2 & _).
  unfold covers in A2, B2. cbn in A2, B2.
  assert (Ia : In (sa, wsa) bs) by (apply Hin; auto). assert (Ib : In (sb, wsb) bs) by (apply Hin; auto).
  destruct (Z.lt_total sa sb) as [L|[L|L]].
  - pose proof (chain_disjoint 0 bs (sa, wsa) (sb, wsb) Hs Ia Ib L) as K. unfold bend in K. cbn in K. lia.
  - subst. eapply (insert_blocks_fresh _ _ _ Sa Kb E); eauto.
  - pose proof (chain_disjoint 0 bs (sb, wsb) (sa, wsa) Hs Ib Ia L) as K. unfold bend in K. cbn in K. lia.
Qed.

(* ---------- the symbol tables ---------- *)
Definition shifted (sh : Z) (bl : list (str * symdata)) := map (fun p => (fst p, shift_sym sh (snd p))) bl.
Lemma lookup_shift sh bl n : lookup n (shifted sh bl) = option_map (shift_sym sh) (lookup n bl).
Proof. induction bl as [|(k, d) r IH]; cbn; [reflexivity|]. destruct (str_eqb n k); [reflexivity|exact IH]. Qed.
Lemma keys_shift sh bl : map fst (shifted sh bl) = map fst bl.
Proof. unfold shifted. rewrite map_map. reflexivity. Qed.
Lemma fsym_shift sh d : fsym (shift_sym sh d) = fsym d.
Proof. reflexivity. Qed.

Lemma mrule_lmerge x y : option_map fsym (mrule x y) = lmerge (option_map fsym x) (option_map fsym y).
Proof.
  destruct x as [[aa sa [|]]|], y as [[ab sb [|]]|]; reflexivity.
Qed.

Lemma syminv_mono bs bs' st : (forall x, covered bs x = true -> covered bs' x = true) -> SymInv bs st -> SymInv bs' st.
Proof.
  intros Hc [S1 S2 S3 S4 S5]. constructor; auto.
  - intros a n Hin. destruct (S3 _ _ Hin). auto.
  - destruct (st_debug st); [|trivial]. eapply lines_ok_mono; [|exact Hc|exact S5]. lia.
Qed.

(* resolution in the model = definedness of the merged label, for names that are external on one side *)
Lemma res_equiv (x y : option symdata) :
  ((exists ad, x = Some ad /\ sd_external ad = true) \/ (exists bd, y = Some bd /\ sd_external bd = true)) ->
  let rb := match x, y with Some ad, Some bd => xorb (sd_external ad) (sd_external bd) | _, _ => false end in
  let tg := match x, y with Some ad, Some bd => if sd_external ad then sd_addr bd else sd_addr ad | _, _ => 0 end in
  is_defined (lmerge (option_map fsym x) (option_map fsym y)) = if rb then Some tg else None.
Proof.
  intros H. destruct x as [ad|], y as [bd|]; cbn; unfold fsym.
  - destruct (sd_external ad) eqn:Xa, (sd_external bd) eqn:Xb; cbn; try reflexivity.
    destruct H as [(d & E & X)|(d & E & X)]; inversion E; subst; congruence.
  - destruct (sd_external ad) eqn:Xa; cbn; [reflexivity|].
    destruct H as [(d & E & X)|(d & E & X)]; [inversion E; subst; congruence|discriminate].
  - destruct (sd_external bd) eqn:Xb; cbn; [reflexivity|].
    destruct H as [(d & E & X)|(d & E & X)]; [discriminate|inversion E; subst; congruence].
  - reflexivity.
Qed.

Definition debug_fit (sa sb : symtab) : Prop :=
  match st_debug sa, st_debug sb with
  | Some da, Some db => count_lines (ds_src da) + count_lines (ds_src db) <= usize_max
  | _, _ => True
  end.
Definition dbg_lines (d : option debug_symbols) : Z := match d with Some d => count_lines (ds_src d) | None => 0 end.

Lemma link_sym_ok bs a_bs b_bs sa sb :
  blocks_ok 0 bs = true ->
  (forall x, covered a_bs x = true -> covered bs x = true) ->
  (forall x, covered b_bs x = true -> covered bs x = true) ->
  (forall addr, covered a_bs addr = false \/ covered b_bs addr = false) ->
  SymInv a_bs sa -> SymInv b_bs sb ->
  (forall n ad bd, lookup n (st_labels sa) = Some ad -> lookup n (st_labels sb) = Some bd ->
     sd_external ad = false -> sd_external bd = false -> sd_addr ad = sd_addr bd) ->
  debug_fit sa sb ->
  let LL := fun n => lmerge (option_map fsym (lookup n (st_labels sa))) (option_map fsym (lookup n (st_labels sb))) in
  let PU := fun addr => first_of (rel_find addr (st_rel sa)) (rel_find addr (st_rel sb)) in
  exists bs' st', link_sym bs sa sb = LOk (mkObj bs' (Some st')) /\
    blocks_ok 0 bs' = true /\ SymInv bs' st' /\
    (forall n, option_map fsym (lookup n (st_labels st')) = LL n) /\
    (forall addr, rel_find addr (st_rel st') = res_pend (PU addr) LL) /\
    (forall addr, img_blocks bs' addr = res_img (img_blocks bs addr) (PU addr) LL) /\
    dbg_lines (st_debug st') <= dbg_lines (st_debug sa) + dbg_lines (st_debug sb).
Proof.
  intros Hs Ca Cb Hd [A1 A2 A3 A4 A5] [B1 B2 B3 B4 B5] Hl Hfit LL PU.
  destruct sa as [la ra da], sb as [lb rb db]. cbn [st_labels st_rel st_debug] in *.
  unfold link_sym. cbn [st_labels st_rel st_debug].
  set (sh := match da, db with Some da0, Some _ => byte_len (ds_src da0) + 1 | _, _ => 0 end).
  (* 1. debug symbols *)
  assert (Hdbg : exists dbg,
     match da, db with
     | Some da0, Some db0 => match debug_link da0 db0 with Some d => Some (Some d) | None => None end
     | Some da0, None => Some (Some da0)
     | None, x => Some x
     end = Some dbg /\
     (forall bs', (forall x, covered bs' x = covered bs x) ->
        match dbg with Some d => lines_ok 0 (count_lines (ds_src d)) bs' (ds_lines d) = true | None => True end) /\
     dbg_lines dbg <= dbg_lines da + dbg_lines db).
  { unfold debug_fit in Hfit. cbn [st_debug] in Hfit.
    destruct da as [[lla ssa]|], db as [[llb ssb]|]; cbn [ds_src ds_lines] in *.
    - destruct (debug_link_ok lla ssa llb ssb a_bs b_bs bs A5 B5 Ca Cb Hfit) as (E1 & E2).
      rewrite E1. eexists. split; [reflexivity|]. split.
      + intros bs' Hc. cbn [ds_src ds_lines]. eapply lines_ok_mono; [|intros x Hx; rewrite Hc; exact Hx|exact E2]. lia.
      + unfold dbg_lines. cbn [ds_src]. rewrite count_lines_join. lia.
    - eexists. split; [reflexivity|]. split.
      + intros bs' Hc. cbn. eapply lines_ok_mono; [|intros x Hx; rewrite Hc; apply Ca; exact Hx|exact A5]. lia.
      + cbn. lia.
    - eexists. split; [reflexivity|]. split.
      + intros bs' Hc. cbn. eapply lines_ok_mono; [|intros x Hx; rewrite Hc; apply Cb; exact Hx|exact B5]. lia.
      + cbn. pose proof (count_lines_pos ssb). lia.
    - eexists. split; [reflexivity|]. split; [intros; exact Logic.I|cbn; lia]. }
  destruct Hdbg as (dbg & Edbg & Hlines & Hnl). rewrite Edbg.
  (* 2. labels *)
  fold (shifted sh lb).
  set (bl' := shifted sh lb).
  assert (Nb' : NoDup (map fst bl')) by (unfold bl'; rewrite keys_shift; exact B1).
  set (rel := rel_extend ra rb).
  assert (Hl' : forall n ad bd, lookup n la = Some ad -> lookup n bl' = Some bd ->
             sd_external ad = false -> sd_external bd = false -> sd_addr ad = sd_addr bd).
  { intros n ad bd Ha Hb. unfold bl' in Hb. rewrite lookup_shift in Hb.
    destruct (lookup n lb) as [bd0|] eqn:E0; [|discriminate]. cbn in Hb. inversion Hb; subst. cbn. eapply Hl; eauto. }
  destruct (merge_labels_total bl' Nb' la rel [] Hl') as (L & R & Q & EM). rewrite EM.
  destruct (merge_labels_ok bl' Nb' _ _ _ _ _ _ EM) as (I1 & I2 & (Q' & I3 & I4) & I5 & I6 & I7).
  cbn [app] in I3. subst Q.
  (* the relocation map *)
  assert (Nrel : NoDup (map fst rel)) by (apply rel_extend_keys; exact A2).
  assert (Frel : forall addr, rel_find addr rel = PU addr).
  { intro addr. unfold rel, PU. rewrite (rel_extend_find _ _ _ B2). unfold first_of.
    destruct (rel_find addr rb) as [n|] eqn:Eb, (rel_find addr ra) as [m|] eqn:Ea; try reflexivity.
    exfalso. apply rel_find_in in Ea, Eb. destruct (A3 _ _ Ea) as (_ & Ka). destruct (B3 _ _ Eb) as (_ & Kb).
    destruct (Hd addr); congruence. }
  assert (Cov : forall a n, In (a, n) rel -> covered bs a = true).
  { intros a n Hin. apply (in_rel_find _ _ _ Nrel) in Hin. rewrite Frel in Hin. unfold PU, first_of in Hin.
    destruct (rel_find a ra) as [m|] eqn:Ea.
    - apply rel_find_in in Ea. apply Ca. apply (A3 _ _ Ea).
    - apply rel_find_in in Hin. apply Cb. apply (B3 _ _ Hin). }
  assert (Ext : forall a n, In (a, n) rel ->
     (exists ad, lookup n la = Some ad /\ sd_external ad = true) \/ (exists bd, lookup n bl' = Some bd /\ sd_external bd = true)).
  { intros a n Hin. apply (in_rel_find _ _ _ Nrel) in Hin. rewrite Frel in Hin. unfold PU, first_of in Hin.
    destruct (rel_find a ra) as [m|] eqn:Ea.
    - inversion Hin; subst. apply rel_find_in in Ea. left. apply is_external_lookup. apply (A3 _ _ Ea).
    - apply rel_find_in in Hin. right. destruct (B3 _ _ Hin) as (X & _). apply is_external_lookup in X.
      destruct X as (d & Ed & Xd). exists (shift_sym sh d). unfold bl'. rewrite lookup_shift, Ed. cbn. auto. }
  assert (LLeq : forall n, LL n = lmerge (option_map fsym (lookup n la)) (option_map fsym (lookup n bl'))).
  { intro n. unfold LL, bl'. rewrite lookup_shift. destruct (lookup n lb); reflexivity. }
  assert (Req : forall a n, In (a, n) rel ->
            is_defined (LL n) = if resolvedb la bl' n then Some (target la bl' n) else None).
  { intros a n Hin. rewrite LLeq. unfold resolvedb, target. apply res_equiv. eapply Ext; eauto. }
  (* 3. patching *)
  destruct (apply_relocs_spec 0 bs Q' Hs) as (bs' & P1 & P2 & P3 & P4 & P5).
  { intros a t Hin. apply I4 in Hin. destruct Hin as (n & Hin & _). eapply Cov; eauto. }
  rewrite P1. exists bs', (mkSymtab L R dbg). split; [reflexivity|]. split; [exact P2|].
  cbn [st_labels st_rel st_debug].
  assert (Fpend : forall addr, rel_find addr R = res_pend (PU addr) LL).
  { intro addr. rewrite I2, (rel_find_filter _ _ _ Nrel), Frel. unfold res_pend.
    destruct (PU addr) as [n|] eqn:Ep; [|reflexivity]. cbn [snd].
    assert (Hin : In (addr, n) rel) by (apply rel_find_in; rewrite Frel; exact Ep).
    rewrite (Req _ _ Hin). destruct (resolvedb la bl' n); reflexivity. }
  split; [|split; [|split; [exact Fpend|split]]].
  - (* invariant *)
    constructor; cbn [st_labels st_rel st_debug].
    + apply I7. exact A1.
    + rewrite I2. apply filter_keys_nodup. exact Nrel.
    + intros a n Hin. rewrite I2 in Hin. apply filter_In in Hin. destruct Hin as (Hin & Hr). cbn in Hr.
      apply negb_true_iff in Hr. split; [|rewrite P3; eapply Cov; eauto].
      apply is_external_lookup. rewrite I1. unfold resolvedb in Hr.
      destruct (Ext _ _ Hin) as [(ad & Ea & Xa)|(bd & Eb & Xb)].
      * rewrite Ea in *. destruct (lookup n bl') as [bd|]; cbn.
        -- rewrite Xa in *. cbn in Hr. destruct (sd_external bd); [|discriminate]. cbn. eauto.
        -- eauto.
      * rewrite Eb in *. destruct (lookup n la) as [ad|]; cbn.
        -- rewrite Xb in *. destruct (sd_external ad) eqn:Xa; [cbn; eauto|discriminate].
        -- eauto.
    + intros n d Hin Hx. apply (in_lookup _ _ _ (I7 A1)) in Hin. rewrite I1 in Hin.
      assert (Da : forall ad, lookup n la = Some ad -> sd_external ad = true -> sd_addr ad = 0).
      { intros ad E X. eapply A4; [eapply lookup_in; eauto|exact X]. }
      assert (Db : forall bd, lookup n bl' = Some bd -> sd_external bd = true -> sd_addr bd = 0).
      { intros bd E X. unfold bl' in E. rewrite lookup_shift in E. destruct (lookup n lb) as [bd0|] eqn:E0; [|discriminate].
        cbn in E. inversion E; subst. cbn in *. eapply B4; [eapply lookup_in; eauto|exact X]. }
      destruct (lookup n la) as [ad|], (lookup n bl') as [bd|]; cbn in Hin.
      * destruct (sd_external ad && negb (sd_external bd)); inversion Hin; subst; eauto.
      * inversion Hin; subst; eauto.
      * inversion Hin; subst; eauto.
      * discriminate.
    + apply Hlines. exact P3.
  - intro n. rewrite I1, mrule_lmerge, LLeq. reflexivity.
  - (* image *)
    intro addr. unfold res_img.
    destruct (PU addr) as [n|] eqn:Ep.
    + assert (Hin : In (addr, n) rel) by (apply rel_find_in; rewrite Frel; exact Ep).
      pose proof (Cov _ _ Hin) as Hc. unfold covered in Hc. destruct (img_blocks bs addr) as [w|] eqn:Ew; [|discriminate].
      rewrite (Req _ _ Hin). destruct (resolvedb la bl' n) eqn:Er.
      * apply P5.
        -- apply I4. exists n. auto.
        -- intros t' Ht'. apply I4 in Ht'. destruct Ht' as (n' & Hin' & _ & Et).
           assert (n' = n).
           { apply (in_rel_find _ _ _ Nrel) in Hin, Hin'. congruence. }
           subst n'. exact Et.
      * rewrite P4; [exact Ew|]. intros t Ht. apply I4 in Ht. destruct Ht as (n' & Hin' & Hr' & _).
        assert (n' = n) by (apply (in_rel_find _ _ _ Nrel) in Hin, Hin'; congruence). subst n'. congruence.
    + rewrite P4.
      * destruct (img_blocks bs addr); reflexivity.
      * intros t Ht. apply I4 in Ht. destruct Ht as (n' & Hin' & _). apply (in_rel_find _ _ _ Nrel) in Hin'.
        rewrite Frel in Hin'. congruence.
  - exact Hnl.
Qed.

(* ---------- the whole link ---------- *)
Lemma res_img_ext w p L1 L2 : (forall n, L1 n = L2 n) -> res_img w p L1 = res_img w p L2.
Proof. intro H. unfold res_img. destruct w; [|reflexivity]. destruct p; [|reflexivity]. rewrite H. reflexivity. Qed.
Lemma res_pend_ext p L1 L2 : (forall n, L1 n = L2 n) -> res_pend p L1 = res_pend p L2.
Proof. intro H. unfold res_pend. destruct p; [|reflexivity]. rewrite H. reflexivity. Qed.

Lemma nlines_nonneg o : 0 <= nlines o.
Proof.
  unfold nlines. destruct (o_sym o) as [st|]; [|lia]. destruct (st_debug st) as [d|]; [|lia].
  pose proof (count_lines_pos (ds_src d)). lia.
Qed.

(* one side without symbol table: the other side's table is kept as is *)
Lemma vlink_nosym_r a b : ViewInv a -> (forall n, v_lbl b n = None) -> (forall x, v_pend b x = None) ->
  veq (mkView (fun x => first_of (v_img a x) (v_img b x)) (v_lbl a) (v_pend a)) (vlink a b).
Proof.
  intros Ha Hl Hp. repeat split; intros; cbn.
  - rewrite Hp, first_of_none_r. destruct (first_of (v_img a a0) (v_img b a0)); [|reflexivity].
    destruct (v_pend a a0) as [n|] eqn:E; [|reflexivity].
    rewrite Hl, lmerge_none_r, (pend_external _ _ _ Ha E). reflexivity.
  - rewrite Hl, lmerge_none_r. reflexivity.
  - rewrite Hp, first_of_none_r. destruct (v_pend a a0) as [n|] eqn:E; [|reflexivity].
    rewrite Hl, lmerge_none_r, (pend_external _ _ _ Ha E). reflexivity.
Qed.
Lemma vlink_nosym_l a b : ViewInv b -> (forall n, v_lbl a n = None) -> (forall x, v_pend a x = None) ->
  veq (mkView (fun x => first_of (v_img a x) (v_img b x)) (v_lbl b) (v_pend b)) (vlink a b).
Proof.
  intros Hb Hl Hp. repeat split; intros; cbn.
  - rewrite Hp. cbn. destruct (first_of (v_img a a0) (v_img b a0)); [|reflexivity].
    destruct (v_pend b a0) as [n|] eqn:E; [|reflexivity].
    rewrite Hl. cbn. rewrite (pend_external _ _ _ Hb E). reflexivity.
  - rewrite Hl. reflexivity.
  - rewrite Hp. cbn. destruct (v_pend b a0) as [n|] eqn:E; [|reflexivity].
    rewrite Hl. cbn. rewrite (pend_external _ _ _ Hb E). reflexivity.
Qed.

Theorem link_ok a b : ObjInv a -> ObjInv b -> LinesFit a b -> Linkable (view_of a) (view_of b) ->
  exists r, link a b = LOk r /\ veq (view_of r) (vlink (view_of a) (view_of b)) /\ ObjInv r /\
            nlines r <= nlines a + nlines b.
Proof.
  intros Ia Ib Hfit (L1 & L2).
  pose proof (objinv_blocks _ Ia) as Ha. pose proof (objinv_blocks _ Ib) as Hb.
  assert (Hd : forall addr, img_blocks (o_blocks a) addr = None \/ img_blocks (o_blocks b) addr = None).
  { intro addr. specialize (L1 addr). cbn in L1. rewrite !img_at_blocks in L1. exact L1. }
  destruct (merge_blocks_ok _ _ Ha Hb Hd) as (bs & E & Hs & Hin).
  pose proof (adj_check_of_chain 0 bs (Z.le_refl 0) Hs) as Hadj.
  pose proof (merged_img _ _ _ Ha Hb Hs Hin) as Img.
  assert (Ca : forall x, covered (o_blocks a) x = true -> covered bs x = true).
  { intros x. unfold covered. rewrite Img. destruct (img_blocks (o_blocks a) x); [reflexivity|discriminate]. }
  assert (Cb : forall x, covered (o_blocks b) x = true -> covered bs x = true).
  { intros x. unfold covered. rewrite Img. destruct (img_blocks (o_blocks a) x); [reflexivity|]. cbn. auto. }
  assert (Cd : forall x, covered (o_blocks a) x = false \/ covered (o_blocks b) x = false).
  { intro x. unfold covered. destruct (Hd x) as [K|K]; rewrite K; auto. }
  pose proof (objinv_viewinv _ Ia) as Va. pose proof (objinv_viewinv _ Ib) as Vb.
  unfold link. rewrite E, Hadj.
  destruct (o_sym a) as [sa|] eqn:Ea, (o_sym b) as [sb|] eqn:Eb.
  - (* both symbol tables *)
    pose proof (objinv_sym _ _ Ia Ea) as Sa. pose proof (objinv_sym _ _ Ib Eb) as Sb.
    destruct (link_sym_ok bs (o_blocks a) (o_blocks b) sa sb Hs Ca Cb Cd Sa Sb) as (bs' & st' & R1 & R2 & R3 & R4 & R5 & R6 & R7).
    { intros n ad bd Ha' Hb' Xa Xb. apply (L2 n); cbn; rewrite lbl_at_lookup.
      - rewrite Ea, Ha'. unfold fsym. cbn. rewrite Xa. reflexivity.
      - rewrite Eb, Hb'. unfold fsym. cbn. rewrite Xb. reflexivity. }
    { unfold debug_fit. unfold LinesFit, nlines in Hfit. rewrite Ea, Eb in Hfit.
      destruct (st_debug sa), (st_debug sb); try exact Logic.I. exact Hfit. }
    exists (mkObj bs' (Some st')). split; [exact R1|]. split; [|split].
    + repeat split; intros.
      * rewrite vlink_img_eq. cbn [v_img v_pend v_lbl view_of]. rewrite !img_at_blocks. cbn [o_blocks].
        rewrite R6, Img, !pend_at_find, Ea, Eb. apply res_img_ext. intro n. rewrite !lbl_at_lookup, Ea, Eb. reflexivity.
      * cbn [v_lbl view_of vlink]. rewrite !lbl_at_lookup. cbn [o_sym]. rewrite Ea, Eb. apply R4.
      * rewrite vlink_pend_eq. cbn [v_img v_pend v_lbl view_of]. rewrite !pend_at_find. cbn [o_sym]. rewrite Ea, Eb, R5.
        apply res_pend_ext. intro n. rewrite !lbl_at_lookup, Ea, Eb. reflexivity.
    + apply objinv_intro; [exact R2|]. intros st K. inversion K; subst. exact R3.
    + unfold nlines. cbn [o_sym]. rewrite Ea, Eb. exact R7.
  - (* only a has a symbol table *)
    exists (mkObj bs (Some sa)). split; [reflexivity|]. split; [|split].
    + eapply veq_trans; [|apply (vlink_nosym_r _ _ Va)].
      * repeat split; intros; cbn [v_img v_lbl v_pend view_of].
        -- rewrite !img_at_blocks. cbn [o_blocks]. apply Img.
        -- rewrite !lbl_at_lookup. cbn [o_sym]. rewrite Ea. reflexivity.
        -- rewrite !pend_at_find. cbn [o_sym]. rewrite Ea. reflexivity.
      * intro n. cbn [v_img v_lbl v_pend view_of]. rewrite lbl_at_lookup, Eb. reflexivity.
      * intro x. cbn [v_img v_lbl v_pend view_of]. rewrite pend_at_find, Eb. reflexivity.
    + apply objinv_intro; [exact Hs|]. intros st K. inversion K; subst. eapply syminv_mono; [exact Ca|]. apply objinv_sym; assumption.
    + unfold nlines at 1. cbn [o_sym]. unfold nlines at 1. rewrite Ea. pose proof (nlines_nonneg b). lia.
  - (* only b has a symbol table *)
    exists (mkObj bs (Some sb)). split; [reflexivity|]. split; [|split].
    + eapply veq_trans; [|apply (vlink_nosym_l _ _ Vb)].
      * repeat split; intros; cbn [v_img v_lbl v_pend view_of].
        -- rewrite !img_at_blocks. cbn [o_blocks]. apply Img.
        -- rewrite !lbl_at_lookup. cbn [o_sym]. rewrite Eb. reflexivity.
        -- rewrite !pend_at_find. cbn [o_sym]. rewrite Eb. reflexivity.
      * intro n. cbn [v_img v_lbl v_pend view_of]. rewrite lbl_at_lookup, Ea. reflexivity.
      * intro x. cbn [v_img v_lbl v_pend view_of]. rewrite pend_at_find, Ea. reflexivity.
    + apply objinv_intro; [exact Hs|]. intros st K. inversion K; subst. eapply syminv_mono; [exact Cb|]. apply objinv_sym; assumption.
    + unfold nlines at 1. cbn [o_sym]. unfold nlines at 2. rewrite Eb. pose proof (nlines_nonneg a). lia.
  - (* no symbol table *)
    exists (mkObj bs None). split; [reflexivity|]. split; [|split].
    + eapply veq_trans; [|apply (vlink_nosym_r _ _ Va)].
      * repeat split; intros; cbn [v_img v_lbl v_pend view_of].
        -- rewrite !img_at_blocks. cbn [o_blocks]. apply Img.
        -- rewrite !lbl_at_lookup. cbn [o_sym]. rewrite Ea. reflexivity.
        -- rewrite !pend_at_find. cbn [o_sym]. rewrite Ea. reflexivity.
      * intro n. cbn [v_img v_lbl v_pend view_of]. rewrite lbl_at_lookup, Eb. reflexivity.
      * intro x. cbn [v_img v_lbl v_pend view_of]. rewrite pend_at_find, Eb. reflexivity.
    + apply objinv_intro; [exact Hs|]. intros st K. discriminate.
    + unfold nlines at 1. cbn [o_sym]. pose proof (nlines_nonneg a). pose proof (nlines_nonneg b). lia.
Qed.

Theorem link_ok_inv a b r : ObjInv a -> ObjInv b -> link a b = LOk r -> Linkable (view_of a) (view_of b).
Proof.
  intros Ia Ib H.
  pose proof (objinv_blocks _ Ia) as Ha. pose proof (objinv_blocks _ Ib) as Hb.
  unfold link in H.
  destruct (insert_blocks (o_blocks b) (o_blocks a)) as [bs|] eqn:E; [|discriminate].
  destruct (adj_check bs) eqn:Hadj; try discriminate.
  destruct (merge_blocks_inv _ _ _ Ha Hb E Hadj) as (Hs & Hd).
  split.
  - intro addr. cbn. rewrite !img_at_blocks. apply Hd.
  - intros n x y. cbn. rewrite !lbl_at_lookup.
    destruct (o_sym a) as [sa|] eqn:Ea; [|discriminate]. destruct (o_sym b) as [sb|] eqn:Eb; [|discriminate].
    pose proof (objinv_sym _ _ Ib Eb) as [B1 B2 B3 B4 B5].
    unfold link_sym in H.
    destruct (match st_debug sa, st_debug sb with
              | Some da, Some db => match debug_link da db with Some d => Some (Some d) | None => None end
              | Some da, None => Some (Some da)
              | None, x => Some x end) as [dbg|]; [|discriminate].
    match type of H with context [merge_labels ?bl ?al ?rel ?q] => destruct (merge_labels bl al rel q) as [L R Q| |] eqn:EM end; try discriminate.
    match type of EM with merge_labels (map _ ?lb) _ _ _ = _ => fold (shifted (match st_debug sa, st_debug sb with Some da, Some _ => byte_len (ds_src da) + 1 | _, _ => 0 end) lb) in EM end.
    destruct (merge_labels_ok _ (eq_ind_r (fun l => NoDup l) B1 (keys_shift _ _)) _ _ _ _ _ _ EM) as (_ & _ & _ & I5 & _).
    destruct (lookup n (st_labels sa)) as [ad|] eqn:La; [|discriminate].
    destruct (lookup n (st_labels sb)) as [bd|] eqn:Lb; [|discriminate].
    unfold fsym. cbn. intros Ka Kb.
    assert (Xa : sd_external ad = false) by congruence. assert (Xb : sd_external bd = false) by congruence.
    assert (Ex : x = sd_addr ad) by congruence. assert (Ey : y = sd_addr bd) by congruence. subst x y.
    eapply (I5 n ad (shift_sym _ bd) La); [rewrite lookup_shift, Lb; reflexivity|exact Xa|exact Xb].
Qed.

(* ---------- C20: success, refinement, commutativity, associativity ---------- *)
Theorem link_success_iff a b : ObjInv a -> ObjInv b -> LinesFit a b ->
  ((exists r, link a b = LOk r) <-> Linkable (view_of a) (view_of b)).
Proof.
  intros Ia Ib Hf. split.
  - intros (r & H). eapply link_ok_inv; eauto.
  - intro H. destruct (link_ok a b Ia Ib Hf H) as (r & E & _). eauto.
Qed.

Theorem link_refines a b r : ObjInv a -> ObjInv b -> LinesFit a b -> link a b = LOk r ->
  veq (view_of r) (vlink (view_of a) (view_of b)) /\ ObjInv r /\ nlines r <= nlines a + nlines b.
Proof.
  intros Ia Ib Hf H. pose proof (link_ok_inv _ _ _ Ia Ib H) as L.
  destruct (link_ok a b Ia Ib Hf L) as (r' & E & R). rewrite H in E. inversion E; subst. exact R.
Qed.

Lemma linesfit_sym a b : LinesFit a b -> LinesFit b a.
Proof. unfold LinesFit. lia. Qed.

Theorem link_comm a b r : ObjInv a -> ObjInv b -> LinesFit a b -> link a b = LOk r ->
  exists r', link b a = LOk r' /\ veq (view_of r) (view_of r').
Proof.
  intros Ia Ib Hf H.
  pose proof (link_ok_inv _ _ _ Ia Ib H) as L.
  destruct (link_refines _ _ _ Ia Ib Hf H) as (V & _).
  destruct (link_ok b a Ib Ia (linesfit_sym _ _ Hf) (linkable_sym _ _ L)) as (r' & E & V' & _).
  exists r'. split; [exact E|].
  eapply veq_trans; [exact V|]. eapply veq_trans; [|apply veq_sym; exact V'].
  apply vlink_comm; [apply objinv_viewinv; assumption|apply objinv_viewinv; assumption|exact L].
Qed.

Theorem link_comm_fail a b : ObjInv a -> ObjInv b -> LinesFit a b ->
  (forall r, link a b <> LOk r) -> (forall r, link b a <> LOk r).
Proof.
  intros Ia Ib Hf H r' E. pose proof (link_ok_inv _ _ _ Ib Ia E) as L.
  destruct (link_ok a b Ia Ib Hf (linkable_sym _ _ L)) as (r & E' & _). eapply H; eauto.
Qed.

(* (a b) c and a (b c): one succeeds iff the other does, with the same view *)
Theorem link_assoc a b c ab r : ObjInv a -> ObjInv b -> ObjInv c ->
  nlines a + nlines b + nlines c <= usize_max ->
  link a b = LOk ab -> link ab c = LOk r ->
  exists bc r', link b c = LOk bc /\ link a bc = LOk r' /\ veq (view_of r) (view_of r').
Proof.
  intros Ia Ib Ic Hn H1 H2.
  pose proof (nlines_nonneg a). pose proof (nlines_nonneg b). pose proof (nlines_nonneg c).
  assert (Fab : LinesFit a b) by (unfold LinesFit; lia).
  destruct (link_refines _ _ _ Ia Ib Fab H1) as (Vab & Iab & Nab).
  assert (Fabc : LinesFit ab c) by (unfold LinesFit; lia).
  destruct (link_refines _ _ _ Iab Ic Fabc H2) as (Vr & Ir & Nr).
  pose proof (link_ok_inv _ _ _ Ia Ib H1) as Lab.
  pose proof (link_ok_inv _ _ _ Iab Ic H2) as Labc.
  pose proof (objinv_viewinv _ Ia) as Va. pose proof (objinv_viewinv _ Ib) as Vb. pose proof (objinv_viewinv _ Ic) as Vc.
  assert (Labc' : Linkable (vlink (view_of a) (view_of b)) (view_of c)).
  { eapply linkable_cong; [exact Vab|apply veq_refl|exact Labc]. }
  apply linkable_vlink_l in Labc'; [|exact Lab]. destruct Labc' as (Lac & Lbc).
  assert (Fbc : LinesFit b c) by (unfold LinesFit; lia).
  destruct (link_ok b c Ib Ic Fbc Lbc) as (bc & Ebc & Vbc & Ibc & Nbc).
  assert (La_bc : Linkable (view_of a) (view_of bc)).
  { eapply linkable_cong; [apply veq_refl|apply veq_sym; exact Vbc|]. apply linkable_vlink_r; [exact Lbc|]. split; assumption. }
  assert (Fa_bc : LinesFit a bc) by (unfold LinesFit; lia).
  destruct (link_ok a bc Ia Ibc Fa_bc La_bc) as (r' & Er' & Vr' & _).
  exists bc, r'. split; [exact Ebc|]. split; [exact Er'|].
  eapply veq_trans; [exact Vr|].
  eapply veq_trans; [apply vlink_cong; [exact Vab|apply veq_refl]|].
  eapply veq_trans; [apply vlink_assoc; assumption|].
  apply veq_sym. eapply veq_trans; [exact Vr'|]. apply vlink_cong; [apply veq_refl|exact Vbc].
Qed.

(* ---------- every order and bracketing ---------- *)
Fixpoint lt_eval (t : ltree) : link_result :=
  match t with
  | Leaf o => LOk o
  | Node l r => match lt_eval l with
                | LOk a => match lt_eval r with
                           | LOk b => link a b
                           | other => other
                           end
                | other => other
                end
  end.
Fixpoint vt (t : ltree) : vtree :=
  match t with Leaf o => VLeaf (view_of o) | Node l r => VNode (vt l) (vt r) end.
Definition total_lines (l : list objfile) : Z := fold_right (fun o acc => nlines o + acc) 0 l.

Lemma vleaves_vt t : vleaves (vt t) = map view_of (leaves t).
Proof. induction t as [o|l IHl r IHr]; cbn; [reflexivity|]. rewrite map_app, IHl, IHr. reflexivity. Qed.
Lemma total_lines_cons o l : total_lines (o :: l) = nlines o + total_lines l.
Proof. reflexivity. Qed.
Lemma total_lines_app l1 l2 : total_lines (l1 ++ l2) = total_lines l1 + total_lines l2.
Proof.
  induction l1 as [|o r IH]; cbn [app]; [change (total_lines []) with 0; lia|].
  rewrite !total_lines_cons, IH. lia.
Qed.
Lemma total_lines_nonneg l : 0 <= total_lines l.
Proof. induction l as [|o r IH]; [unfold total_lines; cbn; lia|]. rewrite total_lines_cons. pose proof (nlines_nonneg o). lia. Qed.
Lemma total_lines_perm l l' : Permutation l l' -> total_lines l = total_lines l'.
Proof. induction 1; rewrite ?total_lines_cons; lia. Qed.

Lemma lt_eval_ok t : Forall ObjInv (leaves t) -> total_lines (leaves t) <= usize_max -> vok (vt t) ->
  exists r, lt_eval t = LOk r /\ veq (view_of r) (veval (vt t)) /\ ObjInv r /\ nlines r <= total_lines (leaves t).
Proof.
  induction t as [o|l IHl r IHr]; intros Hinv Hn Hok.
  - cbn in *. inversion Hinv; subst. exists o. repeat split; auto. lia.
  - cbn [leaves vt vok veval lt_eval] in *. apply Forall_app in Hinv. destruct Hinv as (Il & Ir).
    rewrite total_lines_app in Hn. pose proof (total_lines_nonneg (leaves l)). pose proof (total_lines_nonneg (leaves r)).
    destruct Hok as (Okl & Okr & L).
    destruct (IHl Il ltac:(lia) Okl) as (rl & El & Vl & Jl & Nl).
    destruct (IHr Ir ltac:(lia) Okr) as (rr & Er & Vr & Jr & Nr).
    rewrite El, Er.
    assert (L' : Linkable (view_of rl) (view_of rr)).
    { eapply linkable_cong; [apply veq_sym; exact Vl|apply veq_sym; exact Vr|exact L]. }
    assert (F : LinesFit rl rr) by (unfold LinesFit; lia).
    destruct (link_ok rl rr Jl Jr F L') as (x & Ex & Vx & Jx & Nx).
    exists x. split; [exact Ex|]. split; [|split; [exact Jx|rewrite total_lines_app; lia]].
    eapply veq_trans; [exact Vx|]. apply vlink_cong; assumption.
Qed.
Lemma lt_eval_inv t : Forall ObjInv (leaves t) -> total_lines (leaves t) <= usize_max ->
  forall x, lt_eval t = LOk x -> vok (vt t).
Proof.
  induction t as [o|l IHl r IHr]; intros Hinv Hn x H.
  - exact Logic.I.
  - cbn [leaves vt vok veval lt_eval] in *. apply Forall_app in Hinv. destruct Hinv as (Il & Ir).
    rewrite total_lines_app in Hn. pose proof (total_lines_nonneg (leaves l)). pose proof (total_lines_nonneg (leaves r)).
    destruct (lt_eval l) as [rl| |] eqn:El; try discriminate.
    destruct (lt_eval r) as [rr| |] eqn:Er; try discriminate.
    pose proof (IHl Il ltac:(lia) _ eq_refl) as Okl. pose proof (IHr Ir ltac:(lia) _ eq_refl) as Okr.
    destruct (lt_eval_ok l Il ltac:(lia) Okl) as (rl' & El' & Vl & Jl & _). rewrite El in El'. inversion El'; subst rl'.
    destruct (lt_eval_ok r Ir ltac:(lia) Okr) as (rr' & Er' & Vr & Jr & _). rewrite Er in Er'. inversion Er'; subst rr'.
    split; [exact Okl|]. split; [exact Okr|].
    eapply linkable_cong; [exact Vl|exact Vr|]. eapply link_ok_inv; eauto.
Qed.

(* Any two groupings of the same files, in any order: both succeed or both fail, and the
   results have the same image, label addresses, external flags and pending relocations. *)
Theorem link_any_order t t' : Permutation (leaves t) (leaves t') -> Forall ObjInv (leaves t) ->
  total_lines (leaves t) <= usize_max ->
  ((exists r, lt_eval t = LOk r) <-> (exists r', lt_eval t' = LOk r')) /\
  (forall r r', lt_eval t = LOk r -> lt_eval t' = LOk r' -> veq (view_of r) (view_of r')).
Proof.
  intros Hp Hinv Hn.
  assert (Hinv' : Forall ObjInv (leaves t')) by (eapply Permutation_Forall; eauto).
  assert (Hn' : total_lines (leaves t') <= usize_max) by (rewrite <- (total_lines_perm _ _ Hp); exact Hn).
  assert (Pv : Permutation (vleaves (vt t)) (vleaves (vt t'))) by (rewrite !vleaves_vt; apply Permutation_map; exact Hp).
  assert (Iv : Forall ViewInv (vleaves (vt t))).
  { rewrite vleaves_vt. apply Forall_forall. intros v Hv. apply in_map_iff in Hv. destruct Hv as (o & <- & Ho).
    apply objinv_viewinv. rewrite Forall_forall in Hinv. auto. }
  destruct (vtree_any_order _ _ Pv Iv) as (Hiff & Heq).
  split; [split|].
  - intros (r & E). apply (lt_eval_inv t Hinv Hn) in E. apply Hiff in E.
    destruct (lt_eval_ok t' Hinv' Hn' E) as (r' & E' & _). eauto.
  - intros (r' & E). apply (lt_eval_inv t' Hinv' Hn') in E. apply Hiff in E.
    destruct (lt_eval_ok t Hinv Hn E) as (r & E' & _). eauto.
  - intros r r' E E'.
    pose proof (lt_eval_inv t Hinv Hn _ E) as Ok. pose proof (proj1 Hiff Ok) as Ok'.
    destruct (lt_eval_ok t Hinv Hn Ok) as (x & Ex & Vx & _). rewrite E in Ex. inversion Ex; subst x.
    destruct (lt_eval_ok t' Hinv' Hn' Ok') as (x' & Ex' & Vx' & _). rewrite E' in Ex'. inversion Ex'; subst x'.
    eapply veq_trans; [exact Vx|]. eapply veq_trans; [apply Heq; exact Ok|]. apply veq_sym. exact Vx'.
Qed.

(* the linked view is the order-free meaning of the set of files *)
Theorem link_tree_refines t r : Forall ObjInv (leaves t) -> total_lines (leaves t) <= usize_max ->
  lt_eval t = LOk r -> veq (view_of r) (vlink_all (map view_of (leaves t))) /\ AllLinkable (map view_of (leaves t)).
Proof.
  intros Hinv Hn E. pose proof (lt_eval_inv t Hinv Hn _ E) as Ok.
  destruct (lt_eval_ok t Hinv Hn Ok) as (x & Ex & Vx & _). rewrite E in Ex. inversion Ex; subst x.
  assert (Iv : Forall ViewInv (vleaves (vt t))).
  { rewrite vleaves_vt. apply Forall_forall. intros v Hv. apply in_map_iff in Hv. destruct Hv as (o & <- & Ho).
    apply objinv_viewinv. rewrite Forall_forall in Hinv. auto. }
  pose proof (vok_all _ Iv Ok) as All. rewrite vleaves_vt in All. split; [|exact All].
  eapply veq_trans; [exact Vx|]. rewrite <- vleaves_vt. apply veval_all; [exact Iv|]. rewrite vleaves_vt. exact All.
Qed.

(* ---------- C21: the load check and relocation sites ---------- *)
Definition ExtSitesRecorded (o : objfile) (sites : list (Z * str)) : Prop := ext_sites_recorded_b o sites = true.

Lemma has_external_of_label o n x : lbl_at o n = Some (x, true) -> has_external o = true.
Proof.
  unfold has_external. rewrite lbl_at_lookup. destruct (o_sym o) as [st|]; [|discriminate].
  destruct (lookup n (st_labels st)) as [d|] eqn:E; [|discriminate]. unfold fsym. cbn. intro H.
  assert (X : sd_external d = true) by congruence. clear H.
  apply existsb_exists. exists (n, d). split; [eapply lookup_in; eauto|exact X].
Qed.
Lemma has_external_label o : ObjInv o -> has_external o = true -> exists n, lbl_at o n = Some (0, true).
Proof.
  intros Io. unfold has_external. destruct (o_sym o) as [st|] eqn:E; [|discriminate]. intro H.
  apply existsb_exists in H. destruct H as ((n, d) & Hin & X). cbn in X.
  destruct (objinv_sym _ _ Io E) as [S1 S2 S3 S4 S5].
  exists n. rewrite lbl_at_lookup, E, (in_lookup _ _ _ S1 Hin). unfold fsym. cbn. rewrite X, (S4 _ _ Hin X). reflexivity.
Qed.

(* an object that records the `.fill` sites of its undefined externals fails the load check *)
Theorem load_fails o sites : ExtSitesRecorded o sites -> sites <> [] -> load_check o = LoadUnresolvedExternal.
Proof.
  unfold ExtSitesRecorded, ext_sites_recorded_b, load_check. intros H Hne.
  destruct sites as [|(a, n) r]; [contradiction|].
  destruct (o_sym o) as [st|] eqn:E; [|discriminate].
  cbn [forallb] in H. apply andb_true_iff in H. destruct H as (H & _). apply andb_true_iff in H. destruct H as (X & _).
  cbn [snd] in X. apply is_external_lookup in X. destruct X as (d & Ed & Xd).
  replace (has_external o) with true; [reflexivity|]. symmetry.
  apply (has_external_of_label o n (sd_addr d)). rewrite lbl_at_lookup, E, Ed. unfold fsym. cbn. rewrite Xd. reflexivity.
Qed.
(* ... and the load check passes exactly when no label is external *)
Theorem load_ok_iff o : ObjInv o -> (load_check o = LoadOk <-> forall n x, lbl_at o n <> Some (x, true)).
Proof.
  intro Io. unfold load_check. destruct (has_external o) eqn:H.
  - split; [discriminate|]. intro K. destruct (has_external_label _ Io H) as (n & Hn). exfalso. eapply K; eauto.
  - split; [|reflexivity]. intros _ n x Hn. apply has_external_of_label in Hn. congruence.
Qed.

Lemma ext_sites_pend o sites a n : ObjInv o -> ExtSitesRecorded o sites -> In (a, n) sites -> pend_at o a = Some n.
Proof.
  unfold ExtSitesRecorded, ext_sites_recorded_b. intros Io H Hin. rewrite pend_at_find.
  destruct (o_sym o) as [st|] eqn:E; [|destruct sites; [contradiction|discriminate]].
  rewrite forallb_forall in H. specialize (H _ Hin). cbn [fst snd] in H. apply andb_true_iff in H. destruct H as (_ & H).
  apply existsb_exists in H. destruct H as ((a', n') & Hr & K). cbn in K. apply andb_true_iff in K. destruct K as (K1 & K2).
  apply Z.eqb_eq in K1. apply str_eqb_eq in K2. subst.
  destruct (objinv_sym _ _ Io E) as [S1 S2 S3 S4 S5]. apply in_rel_find; assumption.
Qed.

(* after linking in a definer (either order) the word at the site holds the label's address *)
Theorem link_resolves a b r addr n t : ObjInv a -> ObjInv b -> LinesFit a b ->
  pend_at a addr = Some n -> lbl_at b n = Some (t, false) ->
  (link a b = LOk r \/ link b a = LOk r) ->
  img_at r addr = Some (Some t) /\ pend_at r addr = None.
Proof.
  intros Ia Ib Hf Hp Hl Hr.
  pose proof (objinv_viewinv _ Ia) as Va. pose proof (objinv_viewinv _ Ib) as Vb.
  assert (Key : forall l, l = [view_of a; view_of b] \/ l = [view_of b; view_of a] -> AllLinkable l ->
            v_img (vlink_all l) addr = Some (Some t) /\ v_pend (vlink_all l) addr = None).
  { intros l Hl' Hall.
    assert (Il : Forall ViewInv l) by (destruct Hl'; subst; (constructor; [assumption|constructor; [assumption|constructor]])).
    assert (Ina : In (view_of a) l) by (destruct Hl'; subst; cbn; auto).
    assert (Inb : In (view_of b) l) by (destruct Hl'; subst; cbn; auto).
    destruct (site_in_all l (view_of a) addr n Il Hall Ina Hp) as (S1 & S2).
    rewrite (lbl_all_defined l (view_of b) n t Il Hall Inb Hl) in S1, S2. cbn in S1, S2. auto. }
  destruct Hr as [Hr|Hr].
  - destruct (link_refines _ _ _ Ia Ib Hf Hr) as ((V1 & V2 & V3) & _).
    pose proof (link_ok_inv _ _ _ Ia Ib Hr) as L.
    destruct (Key [view_of a; view_of b]) as (K1 & K2); [auto|cbn; repeat split; auto|].
    assert (E : veq (vlink (view_of a) (view_of b)) (vlink_all [view_of a; view_of b])).
    { cbn. apply vlink_cong; [apply veq_refl|apply veq_sym, vlink_empty_r; exact Vb]. }
    destruct E as (E1 & E2 & E3). cbn [v_img v_pend view_of] in V1, V3. rewrite V1, V3, E1, E3. auto.
  - destruct (link_refines _ _ _ Ib Ia (linesfit_sym _ _ Hf) Hr) as ((V1 & V2 & V3) & _).
    pose proof (link_ok_inv _ _ _ Ib Ia Hr) as L.
    destruct (Key [view_of b; view_of a]) as (K1 & K2); [auto|cbn; repeat split; auto|].
    assert (E : veq (vlink (view_of b) (view_of a)) (vlink_all [view_of b; view_of a])).
    { cbn. apply vlink_cong; [apply veq_refl|apply veq_sym, vlink_empty_r; exact Va]. }
    destruct E as (E1 & E2 & E3). cbn [v_img v_pend view_of] in V1, V3. rewrite V1, V3, E1, E3. auto.
Qed.

(* the same for a whole set of files linked in any order and bracketing *)
Theorem link_tree_resolves t r u d addr n x : Forall ObjInv (leaves t) -> total_lines (leaves t) <= usize_max ->
  lt_eval t = LOk r -> In u (leaves t) -> In d (leaves t) ->
  pend_at u addr = Some n -> lbl_at d n = Some (x, false) ->
  img_at r addr = Some (Some x) /\ pend_at r addr = None.
Proof.
  intros Hinv Hn E Hu Hd Hp Hl.
  destruct (link_tree_refines t r Hinv Hn E) as ((V1 & V2 & V3) & All).
  assert (Il : Forall ViewInv (map view_of (leaves t))).
  { apply Forall_forall. intros v Hv. apply in_map_iff in Hv. destruct Hv as (o & <- & Ho).
    apply objinv_viewinv. rewrite Forall_forall in Hinv. auto. }
  destruct (site_in_all _ (view_of u) addr n Il All (in_map view_of _ _ Hu) Hp) as (S1 & S2).
  rewrite (lbl_all_defined _ (view_of d) n x Il All (in_map view_of _ _ Hd) Hl) in S1, S2. cbn in S1, S2.
  cbn [v_img v_pend view_of] in V1, V3. rewrite V1, V3. auto.
Qed.
(* a site whose label nobody in the set defines keeps the load check failing *)
Theorem link_tree_unresolved t r u addr n : Forall ObjInv (leaves t) -> total_lines (leaves t) <= usize_max ->
  lt_eval t = LOk r -> In u (leaves t) -> pend_at u addr = Some n ->
  (forall d x, In d (leaves t) -> lbl_at d n <> Some (x, false)) ->
  load_check r = LoadUnresolvedExternal.
Proof.
  intros Hinv Hn E Hu Hp Hnd.
  destruct (link_tree_refines t r Hinv Hn E) as ((V1 & V2 & V3) & All).
  assert (Il : Forall ViewInv (map view_of (leaves t))).
  { apply Forall_forall. intros v Hv. apply in_map_iff in Hv. destruct Hv as (o & <- & Ho).
    apply objinv_viewinv. rewrite Forall_forall in Hinv. auto. }
  pose proof (viewinv_all _ Il All) as Iall.
  destruct (site_in_all _ (view_of u) addr n Il All (in_map view_of _ _ Hu) Hp) as (_ & S2).
  (* the set does not define n: the site stays pending, so n is external in the result *)
  assert (D : is_defined (v_lbl (vlink_all (map view_of (leaves t))) n) = None).
  { destruct (is_defined _) as [x|] eqn:K; [|reflexivity]. exfalso.
    assert (G : forall l, (forall v, In v l -> forall y, v_lbl v n <> Some (y, false)) -> forall y, v_lbl (vlink_all l) n <> Some (y, false)).
    { induction l as [|v l' IH]; intros Hl y; [cbn; discriminate|]. cbn [vlink_all fold_right v_lbl vlink].
      change (fold_right vlink vempty l') with (vlink_all l').
      assert (A1 := Hl v (or_introl eq_refl)). assert (A2 := IH (fun w Hw => Hl w (or_intror Hw))).
      destruct (v_lbl v n) as [[av [|]]|], (v_lbl (vlink_all l') n) as [[aw [|]]|] eqn:Ew; cbn; try discriminate;
        try (intro K'; inversion K'; subst; eapply A1; reflexivity);
        try (intro K'; inversion K'; subst; eapply A2; reflexivity). }
    destruct (v_lbl (vlink_all (map view_of (leaves t))) n) as [[y [|]]|] eqn:K2; try discriminate.
    eapply (G (map view_of (leaves t))); [|exact K2].
    intros v Hv y0. apply in_map_iff in Hv. destruct Hv as (o & <- & Ho). cbn. eapply Hnd; eauto. }
  rewrite D in S2. pose proof (pend_external _ _ _ Iall S2) as K.
  unfold load_check. replace (has_external r) with true; [reflexivity|]. symmetry.
  apply (has_external_of_label r n 0). cbn [v_lbl view_of] in V2. rewrite V2. exact K.
Qed.

(* ---------- C26 (linker half): link errors carry spans ---------- *)
Theorem link_err_nonempty a b k sp : link a b = LErr k sp ->
  sp <> [] /\ (exists s, hd_error sp = Some s) /\ (k = OverlappingBlocks -> sp = [(0, 0)]) /\ (k = OverlappingLabels -> List.length sp = 2%nat).
Proof.
  unfold link. intro H.
  destruct (insert_blocks (o_blocks b) (o_blocks a)) as [bs|].
  2:{ inversion H; subst. split; [discriminate|]. split; [eexists; reflexivity|]. split; [reflexivity|discriminate]. }
  destruct (adj_check bs).
  3:{ discriminate. }
  2:{ inversion H; subst. split; [discriminate|]. split; [eexists; reflexivity|]. split; [reflexivity|discriminate]. }
  destruct (o_sym a) as [sa|], (o_sym b) as [sb|]; try discriminate.
  unfold link_sym in H.
  destruct (match st_debug sa, st_debug sb with
            | Some da, Some db => match debug_link da db with Some d => Some (Some d) | None => None end
            | Some da, None => Some (Some da)
            | None, x => Some x end) as [dbg|]; [|discriminate].
  match type of H with context [merge_labels ?bl ?al ?rel ?q] => destruct (merge_labels bl al rel q) as [L R Q|sp'|] eqn:EM end; try discriminate.
  - destruct (apply_relocs bs Q); discriminate.
  - inversion H; subst. pose proof (merge_labels_err _ _ _ _ _ EM) as Hl.
    destruct sp as [|s1 [|s2 [|s3 r]]]; try discriminate. split; [discriminate|]. split; [eexists; reflexivity|]. split; [discriminate|reflexivity].
Qed.

(* ---------- addr_iter lists exactly the image ---------- *)
Lemma block_addrs_in s ws : forall i addr w, 0 <= s -> 0 <= i -> s + i + zlen ws <= 65536 ->
  (In (addr, w) (block_addrs s ws i) <->
   exists j, i <= j < i + zlen ws /\ addr = s + j /\ nth_error ws (Z.to_nat (j - i)) = Some w).
Proof.
  induction ws as [|x r IH]; intros i addr w Hs Hi Hb; cbn [block_addrs In].
  - split; [intros []|]. intros (j & Hj & _). unfold zlen in Hj. cbn in Hj. lia.
  - rewrite zlen_cons in Hb. pose proof (zlen_nonneg r).
    rewrite (IH (i + 1) addr w Hs) by lia. rewrite wrap16_small by lia. split.
    + intros [E|(j & Hj & Ej & En)].
      * inversion E; subst. exists i. rewrite zlen_cons. replace (i - i) with 0 by lia. split; [lia|split; reflexivity].
      * exists j. rewrite zlen_cons. repeat split; try lia.
        replace (Z.to_nat (j - i)) with (S (Z.to_nat (j - (i + 1)))) by lia. exact En.
    + intros (j & Hj & Ej & En). rewrite zlen_cons in Hj. destruct (Z.eq_dec j i) as [->|Hne].
      * left. replace (i - i) with 0 in En by lia. cbn in En. inversion En; subst. reflexivity.
      * right. exists j. repeat split; try lia.
        replace (Z.to_nat (j - i)) with (S (Z.to_nat (j - (i + 1)))) in En by lia. exact En.
Qed.

Theorem addr_iter_image o addr w : ObjInv o -> (In (addr, w) (addr_iter o) <-> img_at o addr = Some w).
Proof.
  intro Io. pose proof (objinv_blocks _ Io) as Hb. rewrite img_at_blocks. unfold addr_iter.
  pose proof (blocks_ok_sized 0 _ (Z.le_refl 0) Hb) as Hz. rewrite Forall_forall in Hz.
  rewrite in_flat_map. split.
  - intros ((s, ws) & Hin & Ha). destruct (Hz _ Hin) as (Z0 & Z1 & Z2). cbn [fst snd] in *.
    apply (block_addrs_in s ws 0 addr w) in Ha; [|lia|lia|lia].
    destruct Ha as (j & Hj & Ej & En). subst addr.
    rewrite (img_blocks_of_in 0 _ (s + j) s ws Hb Hin); [|unfold covers; cbn; lia].
    replace (s + j - s) with (j - 0) by lia. exact En.
  - intro H. destruct (img_blocks_in _ _ _ H) as (s & ws & Hin & Hc & En). exists (s, ws). split; [exact Hin|].
    destruct (Hz _ Hin) as (Z0 & Z1 & Z2). cbn [fst snd] in *. unfold covers in Hc. cbn in Hc.
    apply (block_addrs_in s ws 0 addr w); [lia|lia|lia|]. exists (addr - s). repeat split; try lia.
    replace (addr - s - 0) with (addr - s) by lia. exact En.
Qed.

(* ---------- totality: on well-formed objects whose label positions fit a usize, link never panics ---------- *)
Definition span_fits (p : str * symdata) : Prop := sd_src_start (snd p) + byte_len (fst p) <= usize_max.
Definition SpansFit (a b : objfile) : Prop :=
  match o_sym a, o_sym b with
  | Some sa, Some sb =>
      Forall span_fits (st_labels sa) /\
      Forall span_fits (shifted (match st_debug sa, st_debug sb with Some da, Some _ => byte_len (ds_src da) + 1 | _, _ => 0 end) (st_labels sb))
  | _, _ => True
  end.

Lemma replace_key_in {V} k (v : V) l x : In x (replace_key k v l) -> In x l \/ x = (k, v).
Proof.
  induction l as [|(k', v') r IH]; cbn; [tauto|]. destruct (str_eqb k k') eqn:E.
  - apply str_eqb_eq in E. subst. cbn. intros [H|H]; auto.
  - cbn. intros [H|H]; auto. destruct (IH H); auto.
Qed.

Lemma merge_labels_no_panic bl : forall al rel q, Forall span_fits al -> Forall span_fits bl ->
  merge_labels bl al rel q <> MPanic.
Proof.
  induction bl as [|(name, bd) r IH]; intros al rel q Ha Hb; [discriminate|].
  inversion Hb as [|? ? Hbd Hr]; subst. cbn [merge_labels].
  destruct (lookup name al) as [ad|] eqn:Ea.
  - assert (Fa : span_fits (name, ad)).
    { rewrite Forall_forall in Ha. apply Ha. eapply lookup_in; eauto. }
    assert (Hrep : forall d, span_fits (name, d) -> Forall span_fits (replace_key name d al)).
    { intros d Hd. apply Forall_forall. intros x Hx. apply replace_key_in in Hx. destruct Hx as [Hx| ->]; [|exact Hd].
      rewrite Forall_forall in Ha. auto. }
    destruct (sd_external ad), (sd_external bd); try (apply IH; auto).
    destruct (sd_addr ad =? sd_addr bd); [apply IH; auto|].
    unfold sym_span. unfold span_fits in Fa, Hbd. cbn [fst snd] in Fa, Hbd.
    replace (usize_max <? sd_src_start ad + byte_len name) with false by (symmetry; apply Z.ltb_ge; exact Fa).
    replace (usize_max <? sd_src_start bd + byte_len name) with false by (symmetry; apply Z.ltb_ge; exact Hbd).
    discriminate.
  - apply IH; [constructor; assumption|assumption].
Qed.

Theorem link_total a b : ObjInv a -> ObjInv b -> LinesFit a b -> SpansFit a b -> link a b <> LPanic.
Proof.
  intros Ia Ib Hfit Hsp Hp.
  pose proof (objinv_blocks _ Ia) as Ha. pose proof (objinv_blocks _ Ib) as Hb.
  (* if the link gets as far as a successful label merge, the objects are linkable and link_ok applies *)
  assert (NotOk : ~ Linkable (view_of a) (view_of b)).
  { intro L. destruct (link_ok a b Ia Ib Hfit L) as (r & E & _). congruence. }
  unfold link in Hp.
  destruct (insert_blocks (o_blocks b) (o_blocks a)) as [bs|] eqn:E; [|discriminate].
  pose proof (blocks_ok_sorted_from _ _ Ha) as Sa. pose proof (blocks_ok_sorted_from _ _ Hb) as Sb.
  pose proof (insert_blocks_some _ _ _ E) as Hin.
  assert (Kb : forall s ws, In (s, ws) (o_blocks b) -> 0 <= s) by (intros s ws Hi; eapply sorted_from_in; eauto).
  assert (Ss : sorted_from 0 bs) by (eapply insert_blocks_sorted; eauto).
  assert (Zs : Forall sized bs).
  { apply Forall_forall. intros x Hx. apply Hin in Hx. destruct Hx as [Hx|Hx].
    - pose proof (blocks_ok_sized 0 _ (Z.le_refl 0) Hb) as Z. rewrite Forall_forall in Z. auto.
    - pose proof (blocks_ok_sized 0 _ (Z.le_refl 0) Ha) as Z. rewrite Forall_forall in Z. auto. }
  destruct (adj_check bs) eqn:Hadj; try discriminate.
  2:{ exact (adj_check_no_panic 0 bs (Z.le_refl 0) Ss Zs Hadj). }
  destruct (merge_blocks_inv _ _ _ Ha Hb E Hadj) as (Hs & Hd).
  destruct (o_sym a) as [sa|] eqn:Ea, (o_sym b) as [sb|] eqn:Eb; try discriminate.
  pose proof (objinv_sym _ _ Ia Ea) as [A1 A2 A3 A4 A5]. pose proof (objinv_sym _ _ Ib Eb) as [B1 B2 B3 B4 B5].
  unfold SpansFit in Hsp. rewrite Ea, Eb in Hsp. destruct Hsp as (Fa & Fb).
  unfold link_sym in Hp.
  set (sh := match st_debug sa, st_debug sb with Some da, Some _ => byte_len (ds_src da) + 1 | _, _ => 0 end) in *.
  fold (shifted sh (st_labels sb)) in Hp.
  assert (Dbg : match st_debug sa, st_debug sb with
                | Some da, Some db => match debug_link da db with Some d => Some (Some d) | None => None end
                | Some da, None => Some (Some da)
                | None, x => Some x end <> None).
  { destruct (st_debug sa) as [[la ssa]|] eqn:Da, (st_debug sb) as [[lb ssb]|] eqn:Db; try discriminate.
    cbn [ds_src ds_lines] in *.
    assert (F : count_lines ssa + count_lines ssb <= usize_max).
    { unfold LinesFit, nlines in Hfit. rewrite Ea, Eb, Da, Db in Hfit. exact Hfit. }
    rewrite (debug_link_shape _ _ _ _ _ _ A5 B5 F). discriminate. }
  destruct (match st_debug sa, st_debug sb with
            | Some da, Some db => match debug_link da db with Some d => Some (Some d) | None => None end
            | Some da, None => Some (Some da)
            | None, x => Some x end) as [dbg|]; [|contradiction].
  destruct (merge_labels (shifted sh (st_labels sb)) (st_labels sa) (rel_extend (st_rel sa) (st_rel sb)) []) as [L R Q| |] eqn:EM; try discriminate.
  - (* merged without conflict: then the objects are linkable *)
    apply NotOk. split.
    + intro addr. cbn. rewrite !img_at_blocks. apply Hd.
    + assert (Nb : NoDup (map fst (shifted sh (st_labels sb)))) by (rewrite keys_shift; exact B1).
      destruct (merge_labels_ok _ Nb _ _ _ _ _ _ EM) as (_ & _ & _ & I5 & _).
      intros n x y. cbn. rewrite !lbl_at_lookup, Ea, Eb.
      destruct (lookup n (st_labels sa)) as [ad|] eqn:La; [|discriminate].
      destruct (lookup n (st_labels sb)) as [bd|] eqn:Lb; [|discriminate].
      unfold fsym. cbn. intros Ka Kb'.
      assert (Xa : sd_external ad = false) by congruence. assert (Xb : sd_external bd = false) by congruence.
      assert (Ex : x = sd_addr ad) by congruence. assert (Ey : y = sd_addr bd) by congruence. subst x y.
      eapply (I5 n ad (shift_sym sh bd) La); [rewrite lookup_shift, Lb; reflexivity|exact Xa|exact Xb].
  - exact (merge_labels_no_panic _ _ _ _ Fa Fb EM).
Qed.
