(* LinkSpecProofs.v — algebra of the order-free link specification (spec/LinkSpec.v):
   vlink is commutative and associative up to veq on well-formed, pairwise linkable views, it
   preserves well-formedness, and linkability of a grouping is linkability of every pair.
   Hence every order and bracketing of a set of files means the same view (vlink_all). *)
From Coq Require Import ZArith List Bool Lia Permutation.
From Model Require Import Text Obj.
From Spec Require Import LinkSpec.
Import ListNotations.
Open Scope Z_scope.

(* ---------- veq is an equivalence, vlink respects it ---------- *)
Lemma veq_refl v : veq v v.
Proof. repeat split. Qed.
Lemma veq_sym v w : veq v w -> veq w v.
Proof. intros (H1 & H2 & H3). repeat split; intros; symmetry; auto. Qed.
Lemma veq_trans u v w : veq u v -> veq v w -> veq u w.
Proof. intros (A1 & A2 & A3) (B1 & B2 & B3). repeat split; intros; etransitivity; eauto. Qed.

Lemma vlink_cong a a' b b' : veq a a' -> veq b b' -> veq (vlink a b) (vlink a' b').
Proof.
  intros (A1 & A2 & A3) (B1 & B2 & B3).
  repeat split; intros; cbn; rewrite ?A1, ?A2, ?A3, ?B1, ?B2, ?B3; try reflexivity.
  - destruct (first_of (v_img a' a0) (v_img b' a0)); [|reflexivity].
    destruct (first_of (v_pend a' a0) (v_pend b' a0)); [|reflexivity].
    rewrite A2, B2. reflexivity.
  - destruct (first_of (v_pend a' a0) (v_pend b' a0)); [|reflexivity].
    rewrite A2, B2. reflexivity.
Qed.

Lemma linkable_cong a a' b b' : veq a a' -> veq b b' -> Linkable a b -> Linkable a' b'.
Proof.
  intros (A1 & A2 & A3) (B1 & B2 & B3) (L1 & L2). split.
  - intro addr. rewrite <- A1, <- B1. apply L1.
  - intros n x y. rewrite <- A2, <- B2. apply L2.
Qed.
Lemma viewinv_cong a a' : veq a a' -> ViewInv a -> ViewInv a'.
Proof.
  intros (A1 & A2 & A3) (I1 & I2 & I3). repeat split.
  - intros n x. rewrite <- A2. apply I1.
  - intros addr n. rewrite <- A3. intro H. destruct (I2 _ _ H) as (x & Hx). exists x. rewrite <- A2. exact Hx.
  - intros addr n. rewrite <- A3, <- A1. apply I3.
Qed.

Lemma linkable_sym a b : Linkable a b -> Linkable b a.
Proof.
  intros (L1 & L2). split.
  - intro addr. destruct (L1 addr); auto.
  - intros n x y Hb Ha. symmetry. eauto.
Qed.

(* ---------- label union ---------- *)
Definition lbl_ok (x : option (Z * bool)) : Prop := forall t, x = Some (t, true) -> t = 0.
Definition lbl_agree (x y : option (Z * bool)) : Prop :=
  forall s t, x = Some (s, false) -> y = Some (t, false) -> s = t.

Lemma lmerge_comm x y : lbl_ok x -> lbl_ok y -> lbl_agree x y -> lmerge x y = lmerge y x.
Proof.
  intros Hx Hy Hxy.
  destruct x as [[ax [|]]|], y as [[ay [|]]|]; cbn; try reflexivity.
  - rewrite (Hx ax eq_refl), (Hy ay eq_refl). reflexivity.
  - rewrite (Hxy ax ay eq_refl eq_refl). reflexivity.
Qed.
Lemma lmerge_assoc x y z : lmerge (lmerge x y) z = lmerge x (lmerge y z).
Proof.
  destruct x as [[ax [|]]|], y as [[ay [|]]|], z as [[az [|]]|]; reflexivity.
Qed.
Lemma lmerge_none_r x : lmerge x None = x.
Proof. destruct x as [[? [|]]|]; reflexivity. Qed.
Lemma lmerge_ok x y : lbl_ok x -> lbl_ok y -> lbl_ok (lmerge x y).
Proof.
  intros Hx Hy t. destruct x as [[ax [|]]|], y as [[ay [|]]|]; cbn; intro H; inversion H; subst; auto.
Qed.
(* the merged entry is a definition at t iff one side defines the name at t (given agreement) *)
Lemma lmerge_defined x y t : lbl_agree x y ->
  (lmerge x y = Some (t, false) <-> x = Some (t, false) \/ y = Some (t, false)).
Proof.
  intro Hxy.
  destruct x as [[ax [|]]|], y as [[ay [|]]|]; cbn; split; intro H;
    try (destruct H as [H|H]); try discriminate; auto.
  inversion H; subst. rewrite (Hxy ax t eq_refl eq_refl). reflexivity.
Qed.
Lemma lmerge_external x y t : lmerge x y = Some (t, true) ->
  (x = Some (t, true) /\ (y = None \/ exists s, y = Some (s, true))) \/ (x = None /\ y = Some (t, true)).
Proof.
  destruct x as [[ax [|]]|], y as [[ay [|]]|]; cbn; intro H; inversion H; subst; eauto.
Qed.

(* ---------- invariants of the linked view ---------- *)
Lemma viewinv_lbl_ok v n : ViewInv v -> lbl_ok (v_lbl v n).
Proof. intros (I1 & _) t H. eauto. Qed.
Lemma linkable_agree a b n : Linkable a b -> lbl_agree (v_lbl a n) (v_lbl b n).
Proof. intros (_ & L2) s t. apply L2. Qed.

Lemma pend_covered v addr n : ViewInv v -> v_pend v addr = Some n -> exists w, v_img v addr = Some w.
Proof.
  intros (_ & _ & I3) H. specialize (I3 _ _ H). destruct (v_img v addr); [eauto|contradiction].
Qed.
Lemma pend_none_of_img v addr : ViewInv v -> v_img v addr = None -> v_pend v addr = None.
Proof.
  intros Hv H. destruct (v_pend v addr) eqn:E; [|reflexivity].
  destruct (pend_covered _ _ _ Hv E) as (w & Hw). congruence.
Qed.
Lemma pend_external v addr n : ViewInv v -> v_pend v addr = Some n -> v_lbl v n = Some (0, true).
Proof.
  intros (I1 & I2 & _) H. destruct (I2 _ _ H) as (x & Hx). rewrite (I1 _ _ Hx) in Hx. exact Hx.
Qed.

Lemma vlink_inv a b : ViewInv a -> ViewInv b -> Linkable a b -> ViewInv (vlink a b).
Proof.
  intros Ha Hb Hl. repeat split.
  - intros n x. cbn. apply lmerge_ok; apply viewinv_lbl_ok; assumption.
  - intros addr n. cbn.
    destruct (first_of (v_pend a addr) (v_pend b addr)) as [m|] eqn:E; [|discriminate].
    destruct (is_defined (lmerge (v_lbl a m) (v_lbl b m))) eqn:D; [discriminate|].
    intro H; inversion H; subst m.
    assert (Hex : v_lbl a n = Some (0, true) \/ v_lbl b n = Some (0, true)).
    { unfold first_of in E. destruct (v_pend a addr) eqn:Ea.
      - inversion E; subst. left. eapply pend_external; eauto.
      - right. eapply pend_external; eauto. }
    pose proof (viewinv_lbl_ok a n Ha) as Oa. pose proof (viewinv_lbl_ok b n Hb) as Ob.
    destruct (v_lbl a n) as [[ax [|]]|], (v_lbl b n) as [[ay [|]]|]; cbn in *;
      try discriminate; eauto; destruct Hex as [Hex|Hex]; discriminate.
  - intros addr n. cbn.
    destruct (first_of (v_pend a addr) (v_pend b addr)) as [m|] eqn:E; [|discriminate].
    intros _.
    assert (Hc : first_of (v_img a addr) (v_img b addr) <> None).
    { unfold first_of in *. destruct (v_pend a addr) eqn:Ea.
      - destruct (pend_covered _ _ _ Ha Ea) as (w & Hw). rewrite Hw. discriminate.
      - destruct (pend_covered _ _ _ Hb E) as (w & Hw). rewrite Hw.
        destruct (v_img a addr); discriminate. }
    destruct (first_of (v_img a addr) (v_img b addr)); [|contradiction].
    destruct (is_defined _); discriminate.
Qed.

(* ---------- commutativity ---------- *)
Lemma first_of_comm_img a b addr : Linkable a b -> first_of (v_img a addr) (v_img b addr) = first_of (v_img b addr) (v_img a addr).
Proof.
  intros (L1 & _). destruct (L1 addr) as [H|H]; rewrite H.
  - destruct (v_img b addr); reflexivity.
  - destruct (v_img a addr); reflexivity.
Qed.
Lemma first_of_comm_pend a b addr : ViewInv a -> ViewInv b -> Linkable a b ->
  first_of (v_pend a addr) (v_pend b addr) = first_of (v_pend b addr) (v_pend a addr).
Proof.
  intros Ha Hb (L1 & _). destruct (L1 addr) as [H|H].
  - rewrite (pend_none_of_img _ _ Ha H). destruct (v_pend b addr); reflexivity.
  - rewrite (pend_none_of_img _ _ Hb H). destruct (v_pend a addr); reflexivity.
Qed.

Theorem vlink_comm a b : ViewInv a -> ViewInv b -> Linkable a b -> veq (vlink a b) (vlink b a).
Proof.
  intros Ha Hb Hl.
  assert (HL : forall n, lmerge (v_lbl a n) (v_lbl b n) = lmerge (v_lbl b n) (v_lbl a n)).
  { intro n. apply lmerge_comm; try (apply viewinv_lbl_ok; assumption). apply linkable_agree; assumption. }
  repeat split; intros; cbn.
  - rewrite (first_of_comm_img a b a0 Hl), (first_of_comm_pend a b a0 Ha Hb Hl).
    destruct (first_of (v_img b a0) (v_img a a0)); [|reflexivity].
    destruct (first_of (v_pend b a0) (v_pend a a0)); [|reflexivity]. rewrite HL. reflexivity.
  - apply HL.
  - rewrite (first_of_comm_pend a b a0 Ha Hb Hl).
    destruct (first_of (v_pend b a0) (v_pend a a0)); [|reflexivity]. rewrite HL. reflexivity.
Qed.

(* ---------- linkability of groupings ---------- *)
Lemma vlink_img_none a b addr : v_img (vlink a b) addr = None <-> v_img a addr = None /\ v_img b addr = None.
Proof.
  cbn. unfold first_of. destruct (v_img a addr) eqn:Ea.
  - split; [|intros (H & _); discriminate].
    destruct (match v_pend a addr with Some _ => v_pend a addr | None => v_pend b addr end); [destruct (is_defined _)|]; discriminate.
  - destruct (v_img b addr) eqn:Eb.
    + split; [|intros (_ & H); discriminate].
      destruct (match v_pend a addr with Some _ => v_pend a addr | None => v_pend b addr end); [destruct (is_defined _)|]; discriminate.
    + split; auto.
Qed.

Lemma linkable_vlink_l a b c : Linkable a b -> (Linkable (vlink a b) c <-> Linkable a c /\ Linkable b c).
Proof.
  intros Hab. split.
  - intros (L1 & L2). split; split.
    + intro addr. destruct (L1 addr) as [H|H]; [|auto]. apply vlink_img_none in H. tauto.
    + intros n x y Hx Hy. apply (L2 n x y); [|exact Hy]. cbn.
      apply lmerge_defined; [apply linkable_agree; assumption|]. auto.
    + intro addr. destruct (L1 addr) as [H|H]; [|auto]. apply vlink_img_none in H. tauto.
    + intros n x y Hx Hy. apply (L2 n x y); [|exact Hy]. cbn.
      apply lmerge_defined; [apply linkable_agree; assumption|]. auto.
  - intros ((A1 & A2) & (B1 & B2)). split.
    + intro addr. destruct (A1 addr) as [H|H]; [|auto]. destruct (B1 addr) as [H'|H']; [|auto].
      left. apply vlink_img_none. auto.
    + intros n x y Hx Hy. cbn in Hx. apply lmerge_defined in Hx; [|apply linkable_agree; assumption].
      destruct Hx as [Hx|Hx]; eauto.
Qed.
Lemma linkable_vlink_r a b c : Linkable b c -> (Linkable a (vlink b c) <-> Linkable a b /\ Linkable a c).
Proof.
  intro Hbc. split.
  - intro H. apply linkable_sym in H. apply linkable_vlink_l in H; [|assumption].
    destruct H; split; apply linkable_sym; assumption.
  - intros (H1 & H2). apply linkable_sym. apply linkable_vlink_l; [assumption|].
    split; apply linkable_sym; assumption.
Qed.

(* ---------- associativity ---------- *)
Lemma first_of_assoc {A} (x y z : option A) : first_of (first_of x y) z = first_of x (first_of y z).
Proof. destruct x; reflexivity. Qed.
Lemma first_of_none_r {A} (x : option A) : first_of x None = x.
Proof. destruct x; reflexivity. Qed.

(* the pointwise shape of vlink: resolution of a site against a label map *)
Definition res_img (w : option (option Z)) (p : option str) (L : str -> option (Z * bool)) : option (option Z) :=
  match w with
  | None => None
  | Some w => match p with
              | Some n => match is_defined (L n) with Some t => Some (Some t) | None => Some w end
              | None => Some w
              end
  end.
Definition res_pend (p : option str) (L : str -> option (Z * bool)) : option str :=
  match p with
  | Some n => match is_defined (L n) with Some _ => None | None => Some n end
  | None => None
  end.
Lemma vlink_img_eq a b addr :
  v_img (vlink a b) addr = res_img (first_of (v_img a addr) (v_img b addr)) (first_of (v_pend a addr) (v_pend b addr))
                                   (fun n => lmerge (v_lbl a n) (v_lbl b n)).
Proof. reflexivity. Qed.
Lemma vlink_pend_eq a b addr :
  v_pend (vlink a b) addr = res_pend (first_of (v_pend a addr) (v_pend b addr)) (fun n => lmerge (v_lbl a n) (v_lbl b n)).
Proof. reflexivity. Qed.

(* resolving first against fewer definitions and then against more = resolving against more *)
Lemma res_img_idem w p L1 L :
  (forall n t, is_defined (L1 n) = Some t -> is_defined (L n) = Some t) ->
  res_img (res_img w p L1) (res_pend p L1) L = res_img w p L.
Proof.
  intro Hm. destruct w as [w|]; [|reflexivity]. destruct p as [n|]; [|reflexivity]. cbn.
  destruct (is_defined (L1 n)) eqn:D.
  - rewrite (Hm _ _ D). reflexivity.
  - cbn. reflexivity.
Qed.
Lemma res_pend_idem p L1 L :
  (forall n t, is_defined (L1 n) = Some t -> is_defined (L n) = Some t) ->
  res_pend (res_pend p L1) L = res_pend p L.
Proof.
  intro Hm. destruct p as [n|]; [|reflexivity]. cbn.
  destruct (is_defined (L1 n)) eqn:D.
  - rewrite (Hm _ _ D). reflexivity.
  - cbn. reflexivity.
Qed.
Lemma is_defined_lmerge_l x y t : is_defined x = Some t -> is_defined (lmerge x y) = Some t.
Proof. destruct x as [[ax [|]]|], y as [[ay [|]]|]; cbn; intro H; inversion H; reflexivity. Qed.
Lemma is_defined_lmerge_r x y t : lbl_agree x y -> is_defined y = Some t -> is_defined (lmerge x y) = Some t.
Proof.
  intro Hxy. destruct x as [[ax [|]]|], y as [[ay [|]]|]; cbn; intro H; inversion H; subst; try reflexivity.
  rewrite (Hxy ax t eq_refl eq_refl). reflexivity.
Qed.
Lemma lbl_agree_lmerge_r x y z : lbl_agree x y -> lbl_agree x z -> lbl_agree x (lmerge y z).
Proof.
  intros Hxy Hxz s t Hx Hm.
  destruct y as [[ay [|]]|], z as [[az [|]]|]; cbn in Hm; inversion Hm; subst; eauto.
Qed.

Theorem vlink_assoc a b c : ViewInv a -> ViewInv b -> ViewInv c ->
  Linkable a b -> Linkable a c -> Linkable b c ->
  veq (vlink (vlink a b) c) (vlink a (vlink b c)).
Proof.
  intros Ha Hb Hc Hab Hac Hbc.
  assert (HL : forall n, v_lbl (vlink (vlink a b) c) n = v_lbl (vlink a (vlink b c)) n).
  { intro n. cbn. apply lmerge_assoc. }
  (* at most one of the three objects covers an address, so at most one has a pending site there *)
  assert (Cases : forall addr,
    (v_img a addr = None /\ v_pend a addr = None /\ v_img b addr = None /\ v_pend b addr = None) \/
    (v_img a addr = None /\ v_pend a addr = None /\ v_img c addr = None /\ v_pend c addr = None) \/
    (v_img b addr = None /\ v_pend b addr = None /\ v_img c addr = None /\ v_pend c addr = None)).
  { intro addr.
    pose proof (pend_none_of_img a addr Ha) as Pa.
    pose proof (pend_none_of_img b addr Hb) as Pb.
    pose proof (pend_none_of_img c addr Hc) as Pc.
    destruct Hab as (Iab & _), Hac as (Iac & _), Hbc as (Ibc & _).
    destruct (Iab addr) as [H1|H1], (Iac addr) as [H2|H2], (Ibc addr) as [H3|H3]; tauto. }
  (* definitions persist *)
  assert (M1 : forall n t, is_defined (lmerge (v_lbl a n) (v_lbl b n)) = Some t ->
                           is_defined (lmerge (v_lbl a n) (lmerge (v_lbl b n) (v_lbl c n))) = Some t).
  { intros n t H. rewrite <- lmerge_assoc. apply is_defined_lmerge_l. exact H. }
  assert (M2 : forall n t, is_defined (lmerge (v_lbl b n) (v_lbl c n)) = Some t ->
                           is_defined (lmerge (v_lbl a n) (lmerge (v_lbl b n) (v_lbl c n))) = Some t).
  { intros n t H. apply is_defined_lmerge_r; [|exact H].
    apply lbl_agree_lmerge_r; apply linkable_agree; assumption. }
  repeat split; intros; [| apply HL |].
  - rename a0 into addr.
    rewrite (vlink_img_eq (vlink a b) c), (vlink_img_eq a (vlink b c)).
    rewrite (vlink_pend_eq a b), (vlink_pend_eq b c), (vlink_img_eq a b), (vlink_img_eq b c).
    assert (EL : (fun n => lmerge (v_lbl (vlink a b) n) (v_lbl c n)) = (fun n => lmerge (lmerge (v_lbl a n) (v_lbl b n)) (v_lbl c n))) by reflexivity.
    cbn [v_lbl vlink].
    destruct (Cases addr) as [(E1 & E2 & E3 & E4)|[(E1 & E2 & E3 & E4)|(E1 & E2 & E3 & E4)]];
      rewrite ?E1, ?E2, ?E3, ?E4; cbn [first_of res_img res_pend].
    + (* only c *)
      transitivity (res_img (v_img c addr) (v_pend c addr) (fun n => lmerge (v_lbl a n) (lmerge (v_lbl b n) (v_lbl c n)))).
      * unfold res_img. destruct (v_img c addr); [|reflexivity]. destruct (v_pend c addr); [|reflexivity].
        rewrite lmerge_assoc. reflexivity.
      * symmetry. apply (res_img_idem _ _ (fun n => lmerge (v_lbl b n) (v_lbl c n))). exact M2.
    + (* only b *)
      rewrite !first_of_none_r.
      transitivity (res_img (v_img b addr) (v_pend b addr) (fun n => lmerge (v_lbl a n) (lmerge (v_lbl b n) (v_lbl c n)))).
      * rewrite <- (res_img_idem _ _ (fun n => lmerge (v_lbl a n) (v_lbl b n)) _ M1).
        unfold res_img at 1 3.
        destruct (res_img (v_img b addr) (v_pend b addr) (fun n => lmerge (v_lbl a n) (v_lbl b n))); [|reflexivity].
        destruct (res_pend (v_pend b addr) (fun n => lmerge (v_lbl a n) (v_lbl b n))); [|reflexivity].
        rewrite lmerge_assoc. reflexivity.
      * symmetry. apply (res_img_idem _ _ (fun n => lmerge (v_lbl b n) (v_lbl c n))). exact M2.
    + (* only a *)
      rewrite !first_of_none_r.
      rewrite <- (res_img_idem _ _ (fun n => lmerge (v_lbl a n) (v_lbl b n)) _ M1).
      unfold res_img at 1 3.
      destruct (res_img (v_img a addr) (v_pend a addr) (fun n => lmerge (v_lbl a n) (v_lbl b n))); [|reflexivity].
      destruct (res_pend (v_pend a addr) (fun n => lmerge (v_lbl a n) (v_lbl b n))); [|reflexivity].
      rewrite lmerge_assoc. reflexivity.
  - rename a0 into addr.
    rewrite (vlink_pend_eq (vlink a b) c), (vlink_pend_eq a (vlink b c)).
    rewrite (vlink_pend_eq a b), (vlink_pend_eq b c).
    cbn [v_lbl vlink].
    destruct (Cases addr) as [(E1 & E2 & E3 & E4)|[(E1 & E2 & E3 & E4)|(E1 & E2 & E3 & E4)]];
      rewrite ?E1, ?E2, ?E3, ?E4; cbn [first_of res_pend].
    + transitivity (res_pend (v_pend c addr) (fun n => lmerge (v_lbl a n) (lmerge (v_lbl b n) (v_lbl c n)))).
      * unfold res_pend. destruct (v_pend c addr); [|reflexivity]. rewrite lmerge_assoc. reflexivity.
      * symmetry. apply (res_pend_idem _ (fun n => lmerge (v_lbl b n) (v_lbl c n))). exact M2.
    + rewrite !first_of_none_r.
      transitivity (res_pend (v_pend b addr) (fun n => lmerge (v_lbl a n) (lmerge (v_lbl b n) (v_lbl c n)))).
      * rewrite <- (res_pend_idem _ (fun n => lmerge (v_lbl a n) (v_lbl b n)) _ M1).
        unfold res_pend at 1 3.
        destruct (res_pend (v_pend b addr) (fun n => lmerge (v_lbl a n) (v_lbl b n))); [|reflexivity].
        rewrite lmerge_assoc. reflexivity.
      * symmetry. apply (res_pend_idem _ (fun n => lmerge (v_lbl b n) (v_lbl c n))). exact M2.
    + rewrite !first_of_none_r.
      rewrite <- (res_pend_idem _ (fun n => lmerge (v_lbl a n) (v_lbl b n)) _ M1).
      unfold res_pend at 1 3.
      destruct (res_pend (v_pend a addr) (fun n => lmerge (v_lbl a n) (v_lbl b n))); [|reflexivity].
      rewrite lmerge_assoc. reflexivity.
Qed.

(* ---------- the empty view is a unit ---------- *)
Lemma viewinv_empty : ViewInv vempty.
Proof. repeat split; cbn; intros; discriminate. Qed.
Lemma linkable_empty_r a : Linkable a vempty.
Proof. split; cbn; intros; [auto|discriminate]. Qed.
Lemma vlink_empty_r a : ViewInv a -> veq (vlink a vempty) a.
Proof.
  intro Ha. repeat split; intros; cbn.
  - rewrite !first_of_none_r. destruct (v_img a a0); [|reflexivity].
    destruct (v_pend a a0) eqn:E; [|reflexivity].
    rewrite lmerge_none_r, (pend_external _ _ _ Ha E). reflexivity.
  - apply lmerge_none_r.
  - rewrite first_of_none_r. destruct (v_pend a a0) eqn:E; [|reflexivity].
    rewrite lmerge_none_r, (pend_external _ _ _ Ha E). reflexivity.
Qed.

(* ---------- lists of views ---------- *)
Lemma linkable_all_iff a l : Forall ViewInv l -> AllLinkable l ->
  (Linkable a (vlink_all l) <-> Forall (Linkable a) l).
Proof.
  revert a. induction l as [|v r IH]; intros a Hinv Hall.
  - cbn. split; [constructor|intros; apply linkable_empty_r].
  - cbn in *. inversion Hinv as [|? ? Hv Hr]; subst. destruct Hall as (Hvr & Hrr).
    assert (Lvr : Linkable v (vlink_all r)) by (apply IH; assumption).
    rewrite (linkable_vlink_r a v (vlink_all r) Lvr). rewrite (IH a Hr Hrr).
    split.
    + intros (H1 & H2). constructor; assumption.
    + intro H. inversion H; subst. split; assumption.
Qed.
Lemma viewinv_all l : Forall ViewInv l -> AllLinkable l -> ViewInv (vlink_all l).
Proof.
  induction l as [|v r IH]; intros Hinv Hall; cbn.
  - apply viewinv_empty.
  - inversion Hinv; subst. destruct Hall as (Hvr & Hrr).
    apply vlink_inv; auto. apply linkable_all_iff; assumption.
Qed.

Lemma alllinkable_app l1 l2 :
  AllLinkable (l1 ++ l2) <-> AllLinkable l1 /\ AllLinkable l2 /\ Forall (fun x => Forall (Linkable x) l2) l1.
Proof.
  induction l1 as [|v r IH]; cbn.
  - split; [intro H; repeat split; auto|tauto].
  - rewrite Forall_app, IH. split.
    + intros ((H1 & H2) & H3 & H4 & H5). repeat split; auto.
    + intros ((H1 & H2) & H3 & H4). inversion H4; subst. repeat split; auto.
Qed.

Lemma linkable_all_all l1 l2 : Forall ViewInv l1 -> Forall ViewInv l2 -> AllLinkable l1 -> AllLinkable l2 ->
  Forall (fun x => Forall (Linkable x) l2) l1 -> Linkable (vlink_all l1) (vlink_all l2).
Proof.
  intros I1 I2 A1 A2 H. apply linkable_sym. apply linkable_all_iff; [assumption|assumption|].
  rewrite Forall_forall in H. apply Forall_forall. intros x Hx. apply linkable_sym. apply linkable_all_iff; [assumption|assumption|].
  apply H, Hx.
Qed.
Lemma linkable_all_all_inv l1 l2 : Forall ViewInv l1 -> Forall ViewInv l2 -> AllLinkable l1 -> AllLinkable l2 ->
  Linkable (vlink_all l1) (vlink_all l2) -> Forall (fun x => Forall (Linkable x) l2) l1.
Proof.
  intros I1 I2 A1 A2 H. apply linkable_sym in H. rewrite (linkable_all_iff _ _ I1 A1) in H.
  rewrite Forall_forall in H. apply Forall_forall. intros x Hx. specialize (H x Hx). apply linkable_sym in H.
  rewrite (linkable_all_iff _ _ I2 A2) in H. exact H.
Qed.

Lemma vlink_all_app l1 l2 : Forall ViewInv l1 -> Forall ViewInv l2 -> AllLinkable (l1 ++ l2) ->
  veq (vlink (vlink_all l1) (vlink_all l2)) (vlink_all (l1 ++ l2)).
Proof.
  induction l1 as [|v r IH]; intros I1 I2 Hall.
  - cbn. eapply veq_trans; [apply vlink_comm|apply vlink_empty_r].
    + apply viewinv_empty.
    + apply viewinv_all; [assumption|]. apply Hall.
    + apply linkable_sym, linkable_empty_r.
    + apply viewinv_all; [assumption|]. apply Hall.
  - inversion I1 as [|? ? Iv Ir]; subst. cbn [app vlink_all fold_right].
    change (fold_right vlink vempty r) with (vlink_all r).
    change (fold_right vlink vempty (r ++ l2)) with (vlink_all (r ++ l2)).
    cbn in Hall. destruct Hall as (Hv & Hall).
    pose proof (proj1 (alllinkable_app r l2) Hall) as (Ar & A2 & Across).
    apply Forall_app in Hv. destruct Hv as (Hvr & Hv2).
    eapply veq_trans.
    + apply vlink_assoc; auto.
      * apply viewinv_all; assumption.
      * apply viewinv_all; assumption.
      * apply linkable_all_iff; assumption.
      * apply linkable_all_iff; assumption.
      * apply linkable_all_all; assumption.
    + apply vlink_cong; [apply veq_refl|]. apply IH; assumption.
Qed.

(* ---------- permutations ---------- *)
Lemma alllinkable_perm l l' : Permutation l l' -> AllLinkable l -> AllLinkable l'.
Proof.
  induction 1 as [|x l l' Hp IH|x y l|l l' l'' H1 IH1 H2 IH2]; cbn.
  - auto.
  - intros (H1 & H2). split; [|auto]. eapply Permutation_Forall; eauto.
  - intros (Hy & Hxl & Hl). inversion Hy as [|? ? Hyx Hyl]; subst. repeat split; auto.
    constructor; [|assumption]. apply linkable_sym. assumption.
  - auto.
Qed.

Lemma vlink_all_perm l l' : Permutation l l' -> Forall ViewInv l -> AllLinkable l ->
  veq (vlink_all l) (vlink_all l').
Proof.
  induction 1 as [|x l l' Hp IH|x y l|l l' l'' H1 IH1 H2 IH2]; intros Hinv Hall.
  - apply veq_refl.
  - cbn in *. inversion Hinv; subst. destruct Hall. apply vlink_cong; [apply veq_refl|auto].
  - cbn in *. inversion Hinv as [|? ? Iy Hinv']; subst. inversion Hinv' as [|? ? Ix Il]; subst.
    destruct Hall as (Hy & Hx & Hl). inversion Hy as [|? ? Hyx Hyl]; subst.
    assert (Il' : ViewInv (vlink_all l)) by (apply viewinv_all; assumption).
    assert (Lx : Linkable x (vlink_all l)) by (apply linkable_all_iff; assumption).
    assert (Ly : Linkable y (vlink_all l)) by (apply linkable_all_iff; assumption).
    (* y (x R) = (y x) R = (x y) R = x (y R) *)
    eapply veq_trans; [apply veq_sym, vlink_assoc; assumption|].
    eapply veq_trans; [apply vlink_cong; [apply vlink_comm; assumption|apply veq_refl]|].
    apply vlink_assoc; auto. apply linkable_sym; assumption.
  - eapply veq_trans; [apply IH1; assumption|]. apply IH2.
    + eapply Permutation_Forall; eauto.
    + eapply alllinkable_perm; eauto.
Qed.

(* ---------- every order and bracketing ---------- *)
Inductive vtree :=
| VLeaf (v : view)
| VNode (l r : vtree).
Fixpoint vleaves (t : vtree) : list view :=
  match t with VLeaf v => [v] | VNode l r => vleaves l ++ vleaves r end.
Fixpoint veval (t : vtree) : view :=
  match t with VLeaf v => v | VNode l r => vlink (veval l) (veval r) end.
(* every link of the grouping is between linkable views *)
Fixpoint vok (t : vtree) : Prop :=
  match t with VLeaf _ => True | VNode l r => vok l /\ vok r /\ Linkable (veval l) (veval r) end.

Lemma veval_all t : Forall ViewInv (vleaves t) -> AllLinkable (vleaves t) ->
  veq (veval t) (vlink_all (vleaves t)) /\ vok t.
Proof.
  induction t as [v|l IHl r IHr]; intros Hinv Hall.
  - cbn. inversion Hinv; subst. split; [|exact I]. apply veq_sym, vlink_empty_r. assumption.
  - cbn in *. apply Forall_app in Hinv. destruct Hinv as (Il & Ir).
    pose proof (proj1 (alllinkable_app _ _) Hall) as (Al & Ar & Across).
    destruct (IHl Il Al) as (El & Okl). destruct (IHr Ir Ar) as (Er & Okr).
    assert (LL : Linkable (vlink_all (vleaves l)) (vlink_all (vleaves r))) by (apply linkable_all_all; assumption).
    split.
    + eapply veq_trans; [apply vlink_cong; eassumption|]. apply vlink_all_app; assumption.
    + split; [exact Okl|]. split; [exact Okr|].
      eapply linkable_cong; [apply veq_sym; exact El|apply veq_sym; exact Er|exact LL].
Qed.

Lemma vok_all t : Forall ViewInv (vleaves t) -> vok t -> AllLinkable (vleaves t).
Proof.
  induction t as [v|l IHl r IHr]; intros Hinv Hok.
  - cbn. split; [constructor|exact I].
  - cbn in *. apply Forall_app in Hinv. destruct Hinv as (Il & Ir). destruct Hok as (Okl & Okr & L).
    specialize (IHl Il Okl). specialize (IHr Ir Okr).
    apply alllinkable_app. repeat split; auto.
    destruct (veval_all l Il IHl) as (El & _). destruct (veval_all r Ir IHr) as (Er & _).
    apply linkable_all_all_inv; auto. eapply linkable_cong; eauto.
Qed.

(* Two groupings of the same files (in any order): one is linkable iff the other is, and they
   mean the same view. *)
Theorem vtree_any_order t t' : Permutation (vleaves t) (vleaves t') -> Forall ViewInv (vleaves t) ->
  (vok t <-> vok t') /\ (vok t -> veq (veval t) (veval t')).
Proof.
  intros Hp Hinv.
  assert (Hinv' : Forall ViewInv (vleaves t')) by (eapply Permutation_Forall; eauto).
  split; [split|]; intro Hok.
  - apply veval_all; [assumption|]. eapply alllinkable_perm; [eassumption|]. apply vok_all; assumption.
  - apply veval_all; [assumption|]. eapply alllinkable_perm; [apply Permutation_sym; eassumption|]. apply vok_all; assumption.
  - pose proof (vok_all t Hinv Hok) as Hall.
    pose proof (alllinkable_perm _ _ Hp Hall) as Hall'.
    eapply veq_trans; [apply veval_all; assumption|].
    eapply veq_trans; [apply vlink_all_perm; eassumption|].
    apply veq_sym, veval_all; assumption.
Qed.

(* ---------- relocation sites in a linked set (C21) ---------- *)
Lemma alllinkable_in l u w : AllLinkable l -> In u l -> In w l -> u = w \/ Linkable u w.
Proof.
  induction l as [|v r IH]; cbn; intros Hall Hu Hw; [contradiction|].
  destruct Hall as (Hv & Hr). rewrite Forall_forall in Hv.
  destruct Hu as [<-|Hu], Hw as [<-|Hw]; auto.
  right. apply linkable_sym. auto.
Qed.

(* if a file of the set defines n at t, so does the linked set *)
Lemma lbl_all_defined l w n t : Forall ViewInv l -> AllLinkable l -> In w l -> v_lbl w n = Some (t, false) ->
  v_lbl (vlink_all l) n = Some (t, false).
Proof.
  induction l as [|v r IH]; cbn [In vlink_all fold_right]; intros Hinv Hall Hin Hw; [contradiction|].
  change (fold_right vlink vempty r) with (vlink_all r).
  inversion Hinv as [|? ? Iv Ir]; subst. destruct Hall as (Hv & Hr).
  assert (Lv : Linkable v (vlink_all r)) by (apply linkable_all_iff; assumption).
  cbn [v_lbl vlink]. apply lmerge_defined; [apply linkable_agree; exact Lv|].
  destruct Hin as [<-|Hin]; [left; exact Hw|right; eapply IH; eauto].
Qed.

(* a `.fill n` site of one file of the set: resolved exactly when the set defines n *)
Lemma site_in_all l u addr n : Forall ViewInv l -> AllLinkable l -> In u l -> v_pend u addr = Some n ->
  v_img (vlink_all l) addr = match is_defined (v_lbl (vlink_all l) n) with Some t => Some (Some t) | None => v_img u addr end /\
  v_pend (vlink_all l) addr = match is_defined (v_lbl (vlink_all l) n) with Some _ => None | None => Some n end.
Proof.
  induction l as [|v r IH]; cbn [In vlink_all fold_right]; intros Hinv Hall Hin Hu; [contradiction|].
  change (fold_right vlink vempty r) with (vlink_all r).
  inversion Hinv as [|? ? Iv Ir]; subst. destruct Hall as (Hv & Hr).
  assert (Lv : Linkable v (vlink_all r)) by (apply linkable_all_iff; assumption).
  rewrite vlink_img_eq, vlink_pend_eq. cbn [v_lbl vlink].
  destruct Hin as [<-|Hin].
  - destruct (pend_covered _ _ _ Iv Hu) as (w & Hw). rewrite Hu, Hw. cbn. split; reflexivity.
  - assert (Iu : ViewInv u) by (rewrite Forall_forall in Ir; auto).
    destruct (pend_covered _ _ _ Iu Hu) as (w & Hw).
    assert (Lvu : Linkable v u) by (rewrite Forall_forall in Hv; auto).
    assert (Nv : v_img v addr = None) by (destruct Lvu as (D & _); destruct (D addr) as [K|K]; [exact K|congruence]).
    rewrite Nv, (pend_none_of_img _ _ Iv Nv). cbn [first_of].
    destruct (IH Ir Hr Hin Hu) as (I1 & I2). rewrite I1, I2.
    destruct (is_defined (v_lbl (vlink_all r) n)) as [t|] eqn:D.
    + rewrite (is_defined_lmerge_r _ _ t (linkable_agree _ _ n Lv) D). cbn. split; reflexivity.
    + rewrite Hw. cbn. split; reflexivity.
Qed.
