(* LinkSyms.v — lemmas about the symbol-table half of the linker model (model/Link.v):
   label-map merge, relocation-map extension and partition. *)
From Coq Require Import ZArith List Bool Lia.
From Model Require Import Tree Bits Text SourceInfo Obj Link.
From Proofs Require Import LinkBlocks.
Import ListNotations.
Open Scope Z_scope.

(* ---------- association lists keyed by strings ---------- *)
Lemma lookup_cons {V} n k (v : V) l : lookup n ((k, v) :: l) = if str_eqb n k then Some v else lookup n l.
Proof. reflexivity. Qed.
Lemma lookup_none {V} n (l : list (str * V)) : lookup n l = None <-> ~ In n (map fst l).
Proof.
  induction l as [|(k, v) r IH]; cbn; [tauto|].
  destruct (str_eqb n k) eqn:E.
  - apply str_eqb_eq in E. subst. split; [discriminate|]. intro H. exfalso. apply H. auto.
  - apply str_eqb_neq in E. rewrite IH. split; [intros H [K|K]; [congruence|auto]|auto].
Qed.
Lemma lookup_in {V} n (l : list (str * V)) v : lookup n l = Some v -> In (n, v) l.
Proof.
  induction l as [|(k, w) r IH]; cbn; [discriminate|].
  destruct (str_eqb n k) eqn:E.
  - apply str_eqb_eq in E. subst. intro H. inversion H. auto.
  - auto.
Qed.
Lemma in_lookup {V} n (l : list (str * V)) v : NoDup (map fst l) -> In (n, v) l -> lookup n l = Some v.
Proof.
  induction l as [|(k, w) r IH]; cbn; intros Hn Hin; [contradiction|].
  inversion Hn as [|? ? Hk Hr]; subst.
  destruct Hin as [E|Hin].
  - inversion E; subst. rewrite str_eqb_refl. reflexivity.
  - destruct (str_eqb n k) eqn:E.
    + apply str_eqb_eq in E. subst. exfalso. apply Hk. apply (in_map fst) in Hin. exact Hin.
    + auto.
Qed.
Lemma lookup_replace_key {V} n k (v : V) l :
  lookup n (replace_key k v l) =
  if str_eqb n k then match lookup k l with Some _ => Some v | None => None end else lookup n l.
Proof.
  induction l as [|(k', v') r IH]; cbn.
  - destruct (str_eqb n k); reflexivity.
  - destruct (str_eqb k k') eqn:E1.
    + apply str_eqb_eq in E1. subst. cbn. destruct (str_eqb n k'); reflexivity.
    + cbn. rewrite IH. destruct (str_eqb n k') eqn:E2; [|reflexivity].
      apply str_eqb_eq in E2. subst. rewrite str_eqb_sym in E1. rewrite E1. reflexivity.
Qed.
Lemma replace_key_keys {V} k (v : V) l : map fst (replace_key k v l) = map fst l.
Proof.
  induction l as [|(k', v') r IH]; cbn; [reflexivity|].
  destruct (str_eqb k k'); cbn; [reflexivity|]. rewrite IH. reflexivity.
Qed.

Lemma nodup_str_iff l : nodup_str l = true <-> NoDup l.
Proof.
  induction l as [|x r IH]; cbn; [split; [constructor|reflexivity]|].
  rewrite andb_true_iff, negb_true_iff, IH. split.
  - intros (H1 & H2). constructor; [|assumption]. intro Hin.
    assert (existsb (str_eqb x) r = true); [|congruence]. apply existsb_exists. exists x. split; [assumption|apply str_eqb_refl].
  - intro H. inversion H; subst. split; [|assumption].
    destruct (existsb (str_eqb x) r) eqn:E; [|reflexivity]. apply existsb_exists in E. destruct E as (y & Hy & E).
    apply str_eqb_eq in E. subst. contradiction.
Qed.
Lemma nodup_z_iff l : nodup_z l = true <-> NoDup l.
Proof.
  induction l as [|x r IH]; cbn; [split; [constructor|reflexivity]|].
  rewrite andb_true_iff, negb_true_iff, IH. split.
  - intros (H1 & H2). constructor; [|assumption]. intro Hin.
    assert (existsb (Z.eqb x) r = true); [|congruence]. apply existsb_exists. exists x. split; [assumption|apply Z.eqb_refl].
  - intro H. inversion H; subst. split; [|assumption].
    destruct (existsb (Z.eqb x) r) eqn:E; [|reflexivity]. apply existsb_exists in E. destruct E as (y & Hy & E).
    apply Z.eqb_eq in E. subst. contradiction.
Qed.

(* ---------- the relocation map ---------- *)
Fixpoint rel_find (a : Z) (l : list (Z * str)) : option str :=
  match l with [] => None | (k, v) :: r => if k =? a then Some v else rel_find a r end.

Lemma rel_find_none a l : rel_find a l = None <-> ~ In a (map fst l).
Proof.
  induction l as [|(k, v) r IH]; cbn; [tauto|].
  destruct (k =? a) eqn:E.
  - apply Z.eqb_eq in E. subst. split; [discriminate|]. intro H. exfalso. apply H. auto.
  - apply Z.eqb_neq in E. rewrite IH. split; [intros H [K|K]; [congruence|auto]|auto].
Qed.
Lemma rel_find_in a l n : rel_find a l = Some n -> In (a, n) l.
Proof.
  induction l as [|(k, v) r IH]; cbn; [discriminate|].
  destruct (k =? a) eqn:E; [|auto]. apply Z.eqb_eq in E. subst. intro H. inversion H. auto.
Qed.
Lemma in_rel_find a l n : NoDup (map fst l) -> In (a, n) l -> rel_find a l = Some n.
Proof.
  induction l as [|(k, v) r IH]; cbn; intros Hn Hin; [contradiction|].
  inversion Hn as [|? ? Hk Hr]; subst. destruct Hin as [E|Hin].
  - inversion E; subst. rewrite Z.eqb_refl. reflexivity.
  - destruct (k =? a) eqn:E; [|auto]. apply Z.eqb_eq in E. subst. exfalso. apply Hk.
    apply (in_map fst) in Hin. exact Hin.
Qed.

Lemma rel_find_put a k v l : rel_find a (rel_put k v l) = if k =? a then Some v else rel_find a l.
Proof.
  induction l as [|(k', v') r IH]; cbn; [reflexivity|].
  destruct (k =? k') eqn:E.
  - apply Z.eqb_eq in E. subst. cbn. destruct (k' =? a); reflexivity.
  - cbn. rewrite IH. destruct (k' =? a) eqn:E2; [|reflexivity].
    apply Z.eqb_eq in E2. subst. rewrite E. reflexivity.
Qed.
Lemma rel_put_keys k v l : NoDup (map fst l) -> NoDup (map fst (rel_put k v l)).
Proof.
  induction l as [|(k', v') r IH]; cbn; intro H.
  - constructor; [intros []|constructor].
  - inversion H as [|? ? Hk Hr]; subst. destruct (k =? k') eqn:E.
    + apply Z.eqb_eq in E. subst. cbn. constructor; assumption.
    + cbn. constructor; [|auto]. intro Hin. apply Hk.
      apply Z.eqb_neq in E. clear - Hin E. induction r as [|(k'', v'') r IH]; cbn in *.
      * destruct Hin as [|[]]; congruence.
      * destruct (k =? k'') eqn:E2; cbn in Hin.
        -- apply Z.eqb_eq in E2. subst. destruct Hin as [|Hin]; [congruence|auto].
        -- destruct Hin as [|Hin]; auto.
Qed.
Lemma rel_extend_find a x y : NoDup (map fst y) ->
  rel_find a (rel_extend x y) = match rel_find a y with Some n => Some n | None => rel_find a x end.
Proof.
  unfold rel_extend. revert x. induction y as [|(k, v) y IH]; intros x Hn; cbn; [reflexivity|].
  inversion Hn as [|? ? Hk Hy]; subst. rewrite (IH _ Hy). rewrite rel_find_put.
  destruct (k =? a) eqn:E; [|reflexivity]. apply Z.eqb_eq in E. subst.
  replace (rel_find a y) with (@None str); [reflexivity|]. symmetry. apply rel_find_none. exact Hk.
Qed.
Lemma rel_extend_keys x y : NoDup (map fst x) -> NoDup (map fst (rel_extend x y)).
Proof.
  unfold rel_extend. revert x. induction y as [|(k, v) y IH]; intros x Hn; cbn; [assumption|].
  apply IH. apply rel_put_keys. assumption.
Qed.

Lemma filter_keys_nodup {B} (P : Z * B -> bool) l : NoDup (map fst l) -> NoDup (map fst (filter P l)).
Proof.
  induction l as [|p r IH]; cbn; intro H; [constructor|]. inversion H as [|? ? Hk Hr]; subst.
  destruct (P p); cbn; [|auto]. constructor; [|auto]. intro Hin. apply Hk.
  clear - Hin. induction r as [|q r IH]; cbn in *; [contradiction|].
  destruct (P q); cbn in Hin; [destruct Hin; auto|auto].
Qed.
Lemma rel_find_filter P a l : NoDup (map fst l) ->
  rel_find a (filter P l) = match rel_find a l with Some n => if P (a, n) then Some n else None | None => None end.
Proof.
  induction l as [|(k, v) r IH]; cbn; intro H; [reflexivity|]. inversion H as [|? ? Hk Hr]; subst.
  destruct (k =? a) eqn:E.
  - apply Z.eqb_eq in E. subst. destruct (P (a, v)) eqn:EP; cbn; [rewrite Z.eqb_refl; reflexivity|].
    rewrite (IH Hr). replace (rel_find a r) with (@None str); [reflexivity|]. symmetry. apply rel_find_none. exact Hk.
  - destruct (P (k, v)); cbn; [rewrite E|]; apply IH; assumption.
Qed.

(* ---------- the label merge ---------- *)
Definition mrule (x y : option symdata) : option symdata :=
  match x, y with
  | None, _ => y
  | _, None => x
  | Some ad, Some bd => if sd_external ad && negb (sd_external bd) then Some bd else Some ad
  end.
Definition resolvedb (al bl : list (str * symdata)) (n : str) : bool :=
  match lookup n al, lookup n bl with
  | Some ad, Some bd => xorb (sd_external ad) (sd_external bd)
  | _, _ => false
  end.
Definition target (al bl : list (str * symdata)) (n : str) : Z :=
  match lookup n al, lookup n bl with
  | Some ad, Some bd => if sd_external ad then sd_addr bd else sd_addr ad
  | _, _ => 0
  end.

Lemma filter_filter {A} (P Q : A -> bool) l : filter P (filter Q l) = filter (fun x => Q x && P x) l.
Proof.
  induction l as [|x r IH]; cbn; [reflexivity|]. destruct (Q x); cbn; [destruct (P x); cbn|]; rewrite IH; reflexivity.
Qed.

Ltac split6 := split; [|split; [|split; [|split; [|split]]]].

Lemma merge_labels_ok bl : NoDup (map fst bl) -> forall al rel relocs L R Q,
  merge_labels bl al rel relocs = MOk L R Q ->
  (forall n, lookup n L = mrule (lookup n al) (lookup n bl)) /\
  R = filter (fun p => negb (resolvedb al bl (snd p))) rel /\
  (exists Q', Q = relocs ++ Q' /\
     forall a t, In (a, t) Q' <-> exists n, In (a, n) rel /\ resolvedb al bl n = true /\ t = target al bl n) /\
  (forall n ad bd, lookup n al = Some ad -> lookup n bl = Some bd ->
     sd_external ad = false -> sd_external bd = false -> sd_addr ad = sd_addr bd) /\
  (forall n, In n (map fst L) <-> In n (map fst al) \/ In n (map fst bl)) /\
  (NoDup (map fst al) -> NoDup (map fst L)).
Proof.
  induction bl as [|(name, bd) r IH]; intros Hnd al rel relocs L R Q H.
  - cbn in H. injection H as <- <- <-. split6.
    + intro n. cbn. destruct (lookup n al); reflexivity.
    + unfold resolvedb. cbn. induction rel as [|p rel IHr]; cbn; [reflexivity|].
      destruct (lookup (snd p) al); cbn; rewrite <- IHr; reflexivity.
    + exists []. split; [rewrite app_nil_r; reflexivity|]. intros a t. split; [intros []|].
      intros (n & _ & Hr & _). unfold resolvedb in Hr. cbn in Hr. destruct (lookup n al); discriminate.
    + intros n ad bd0 _ Hb. cbn in Hb. discriminate.
    + intro n. cbn. tauto.
    + auto.
  - inversion Hnd as [|? ? Hname Hr']; subst.
    assert (Lr : lookup name r = None) by (apply lookup_none; exact Hname).
    cbn [merge_labels] in H.
    destruct (lookup name al) as [ad|] eqn:Ea.
    + destruct (sd_external ad) eqn:Xa, (sd_external bd) eqn:Xb.
      * (* both external: nothing changes *)
        destruct (IH Hr' _ _ _ _ _ _ H) as (I1 & I2 & (Q' & I3 & I4) & I5 & I6 & I7).
        assert (Res : forall n, resolvedb al ((name, bd) :: r) n = resolvedb al r n).
        { intro n. unfold resolvedb. rewrite lookup_cons. destruct (str_eqb n name) eqn:E; [|reflexivity].
          apply str_eqb_eq in E. subst. rewrite Ea, Lr, Xa, Xb. reflexivity. }
        assert (Tg : forall n, resolvedb al r n = true -> target al ((name, bd) :: r) n = target al r n).
        { intros n Hn. unfold target. rewrite lookup_cons. destruct (str_eqb n name) eqn:E; [|reflexivity].
          apply str_eqb_eq in E. subst. unfold resolvedb in Hn. rewrite Ea, Lr in Hn. discriminate. }
        split6.
        -- intro n. rewrite I1, lookup_cons. destruct (str_eqb n name) eqn:E; [|reflexivity].
           apply str_eqb_eq in E. subst. rewrite Ea, Lr. cbn. rewrite Xa, Xb. reflexivity.
        -- rewrite I2. apply filter_ext. intro p. rewrite Res. reflexivity.
        -- exists Q'. split; [exact I3|]. intros a t. rewrite I4. split; intros (n & H1 & H2 & H3); exists n.
           ++ rewrite Res, Tg by assumption. auto.
           ++ rewrite Res in H2. rewrite Tg in H3 by assumption. auto.
        -- intros n ad0 bd0 Ha Hb. rewrite lookup_cons in Hb. destruct (str_eqb n name) eqn:E; [|eauto].
           apply str_eqb_eq in E. subst. inversion Hb; subst. congruence.
        -- intro n. rewrite I6. cbn. split; [tauto|]. intros [K|[K|K]]; auto. subst. left.
           apply lookup_in in Ea. apply (in_map fst) in Ea. exact Ea.
        -- exact I7.
      * (* a external, b defines *)
        destruct (IH Hr' _ _ _ _ _ _ H) as (I1 & I2 & (Q' & I3 & I4) & I5 & I6 & I7).
        set (al' := replace_key name bd al) in *.
        assert (La' : forall n, lookup n al' = if str_eqb n name then Some bd else lookup n al).
        { intro n. unfold al'. rewrite lookup_replace_key, Ea. reflexivity. }
        assert (Res : forall n, resolvedb al ((name, bd) :: r) n = if str_eqb n name then true else resolvedb al' r n).
        { intro n. unfold resolvedb. rewrite lookup_cons, La'. destruct (str_eqb n name) eqn:E; [|reflexivity].
          apply str_eqb_eq in E. subst. rewrite Ea, Xa, Xb. reflexivity. }
        assert (Tg : forall n, target al ((name, bd) :: r) n = if str_eqb n name then sd_addr bd else target al' r n).
        { intro n. unfold target. rewrite lookup_cons, La'. destruct (str_eqb n name) eqn:E; [|reflexivity].
          apply str_eqb_eq in E. subst. rewrite Ea, Xa. reflexivity. }
        split6.
        -- intro n. rewrite I1, La', lookup_cons. destruct (str_eqb n name) eqn:E; [|reflexivity].
           apply str_eqb_eq in E. subst. rewrite Ea, Lr. cbn. rewrite Xa, Xb. reflexivity.
        -- rewrite I2, filter_filter. apply filter_ext. intro p. rewrite Res.
           destruct (str_eqb (snd p) name); reflexivity.
        -- exists (map (fun p => (fst p, sd_addr bd)) (filter (fun p => str_eqb (snd p) name) rel) ++ Q').
           split; [rewrite I3, app_assoc; reflexivity|].
           intros a t. rewrite in_app_iff, I4, in_map_iff. split.
           ++ intros [((a0, n0) & E & Hin)|(n & H1 & H2 & H3)].
              ** cbn in E. inversion E; subst. apply filter_In in Hin. destruct Hin as (Hin & En). cbn in En.
                 apply str_eqb_eq in En. subst. exists name. rewrite Res, Tg, str_eqb_refl. auto.
              ** apply filter_In in H1. destruct H1 as (H1 & En). cbn in En. apply negb_true_iff in En.
                 exists n. rewrite Res, Tg, En. auto.
           ++ intros (n & H1 & H2 & H3). rewrite Res in H2. rewrite Tg in H3.
              destruct (str_eqb n name) eqn:E.
              ** left. exists (a, n). cbn. split; [congruence|]. apply filter_In. cbn. auto.
              ** right. exists n. split; [|auto]. apply filter_In. cbn. rewrite E. auto.
        -- intros n ad0 bd0 Ha Hb. rewrite lookup_cons in Hb. destruct (str_eqb n name) eqn:E.
           ++ apply str_eqb_eq in E. subst. congruence.
           ++ apply (I5 n); [rewrite La', E; exact Ha|exact Hb].
        -- intro n. rewrite I6. unfold al'. rewrite replace_key_keys. cbn. split; [tauto|]. intros [K|[K|K]]; auto. subst. left.
           apply lookup_in in Ea. apply (in_map fst) in Ea. exact Ea.
        -- intro Hal. apply I7. unfold al'. rewrite replace_key_keys. exact Hal.
      * (* a defines, b external *)
        destruct (IH Hr' _ _ _ _ _ _ H) as (I1 & I2 & (Q' & I3 & I4) & I5 & I6 & I7).
        set (al' := replace_key name ad al) in *.
        assert (La' : forall n, lookup n al' = lookup n al).
        { intro n. unfold al'. rewrite lookup_replace_key, Ea. destruct (str_eqb n name) eqn:E; [|reflexivity].
          apply str_eqb_eq in E. subst. auto. }
        assert (Res : forall n, resolvedb al ((name, bd) :: r) n = if str_eqb n name then true else resolvedb al' r n).
        { intro n. unfold resolvedb. rewrite lookup_cons, La'. destruct (str_eqb n name) eqn:E; [|reflexivity].
          apply str_eqb_eq in E. subst. rewrite Ea, Xa, Xb. reflexivity. }
        assert (Tg : forall n, target al ((name, bd) :: r) n = if str_eqb n name then sd_addr ad else target al' r n).
        { intro n. unfold target. rewrite lookup_cons, La'. destruct (str_eqb n name) eqn:E; [|reflexivity].
          apply str_eqb_eq in E. subst. rewrite Ea, Xa. reflexivity. }
        split6.
        -- intro n. rewrite I1, La', lookup_cons. destruct (str_eqb n name) eqn:E; [|reflexivity].
           apply str_eqb_eq in E. subst. rewrite Ea, Lr. cbn. rewrite Xa. reflexivity.
        -- rewrite I2, filter_filter. apply filter_ext. intro p. rewrite Res.
           destruct (str_eqb (snd p) name); reflexivity.
        -- exists (map (fun p => (fst p, sd_addr ad)) (filter (fun p => str_eqb (snd p) name) rel) ++ Q').
           split; [rewrite I3, app_assoc; reflexivity|].
           intros a t. rewrite in_app_iff, I4, in_map_iff. split.
           ++ intros [((a0, n0) & E & Hin)|(n & H1 & H2 & H3)].
              ** cbn in E. inversion E; subst. apply filter_In in Hin. destruct Hin as (Hin & En). cbn in En.
                 apply str_eqb_eq in En. subst. exists name. rewrite Res, Tg, str_eqb_refl. auto.
              ** apply filter_In in H1. destruct H1 as (H1 & En). cbn in En. apply negb_true_iff in En.
                 exists n. rewrite Res, Tg, En. auto.
           ++ intros (n & H1 & H2 & H3). rewrite Res in H2. rewrite Tg in H3.
              destruct (str_eqb n name) eqn:E.
              ** left. exists (a, n). cbn. split; [congruence|]. apply filter_In. cbn. auto.
              ** right. exists n. split; [|auto]. apply filter_In. cbn. rewrite E. auto.
        -- intros n ad0 bd0 Ha Hb. rewrite lookup_cons in Hb. destruct (str_eqb n name) eqn:E.
           ++ apply str_eqb_eq in E. subst. inversion Hb; subst. congruence.
           ++ apply (I5 n); [rewrite La'; exact Ha|exact Hb].
        -- intro n. rewrite I6. unfold al'. rewrite replace_key_keys. cbn. split; [tauto|]. intros [K|[K|K]]; auto. subst. left.
           apply lookup_in in Ea. apply (in_map fst) in Ea. exact Ea.
        -- intro Hal. apply I7. unfold al'. rewrite replace_key_keys. exact Hal.
      * (* both define *)
        destruct (sd_addr ad =? sd_addr bd) eqn:Eaddr.
        2:{ destruct (sym_span ad name), (sym_span bd name); discriminate. }
        apply Z.eqb_eq in Eaddr.
        destruct (IH Hr' _ _ _ _ _ _ H) as (I1 & I2 & (Q' & I3 & I4) & I5 & I6 & I7).
        assert (Res : forall n, resolvedb al ((name, bd) :: r) n = resolvedb al r n).
        { intro n. unfold resolvedb. rewrite lookup_cons. destruct (str_eqb n name) eqn:E; [|reflexivity].
          apply str_eqb_eq in E. subst. rewrite Ea, Lr, Xa, Xb. reflexivity. }
        assert (Tg : forall n, resolvedb al r n = true -> target al ((name, bd) :: r) n = target al r n).
        { intros n Hn. unfold target. rewrite lookup_cons. destruct (str_eqb n name) eqn:E; [|reflexivity].
          apply str_eqb_eq in E. subst. unfold resolvedb in Hn. rewrite Ea, Lr in Hn. discriminate. }
        split6.
        -- intro n. rewrite I1, lookup_cons. destruct (str_eqb n name) eqn:E; [|reflexivity].
           apply str_eqb_eq in E. subst. rewrite Ea, Lr. cbn. rewrite Xa. reflexivity.
        -- rewrite I2. apply filter_ext. intro p. rewrite Res. reflexivity.
        -- exists Q'. split; [exact I3|]. intros a t. rewrite I4. split; intros (n & H1 & H2 & H3); exists n.
           ++ rewrite Res, Tg by assumption. auto.
           ++ rewrite Res in H2. rewrite Tg in H3 by assumption. auto.
        -- intros n ad0 bd0 Ha Hb. rewrite lookup_cons in Hb. destruct (str_eqb n name) eqn:E; [|eauto].
           apply str_eqb_eq in E. subst. inversion Hb; subst. intros _ _. congruence.
        -- intro n. rewrite I6. cbn. split; [tauto|]. intros [K|[K|K]]; auto. subst. left.
           apply lookup_in in Ea. apply (in_map fst) in Ea. exact Ea.
        -- exact I7.
    + (* vacant entry *)
      destruct (IH Hr' _ _ _ _ _ _ H) as (I1 & I2 & (Q' & I3 & I4) & I5 & I6 & I7).
      assert (Res : forall n, resolvedb al ((name, bd) :: r) n = resolvedb ((name, bd) :: al) r n).
      { intro n. unfold resolvedb. rewrite !lookup_cons. destruct (str_eqb n name) eqn:E; [|reflexivity].
        apply str_eqb_eq in E. subst. rewrite Ea, Lr. reflexivity. }
      assert (Tg : forall n, resolvedb ((name, bd) :: al) r n = true -> target al ((name, bd) :: r) n = target ((name, bd) :: al) r n).
      { intros n Hn. unfold target. rewrite !lookup_cons. destruct (str_eqb n name) eqn:E; [|reflexivity].
        apply str_eqb_eq in E. subst. unfold resolvedb in Hn. rewrite lookup_cons, str_eqb_refl, Lr in Hn. discriminate. }
      split6.
      * intro n. rewrite I1, !lookup_cons. destruct (str_eqb n name) eqn:E; [|reflexivity].
        apply str_eqb_eq in E. subst. rewrite Ea, Lr. reflexivity.
      * rewrite I2. apply filter_ext. intro p. rewrite Res. reflexivity.
      * exists Q'. split; [exact I3|]. intros a t. rewrite I4. split; intros (n & H1 & H2 & H3); exists n.
        -- rewrite Res, Tg by assumption. auto.
        -- rewrite Res in H2. rewrite Tg in H3 by assumption. auto.
      * intros n ad0 bd0 Ha Hb. rewrite lookup_cons in Hb. destruct (str_eqb n name) eqn:E.
        -- apply str_eqb_eq in E. subst. congruence.
        -- apply (I5 n); [rewrite lookup_cons, E; exact Ha|exact Hb].
      * intro n. rewrite I6. cbn. tauto.
      * intro Hal. apply I7. cbn. constructor; [|exact Hal]. apply lookup_none. exact Ea.
Qed.

(* no conflicting definitions -> the merge succeeds *)
Lemma merge_labels_total bl : NoDup (map fst bl) -> forall al rel relocs,
  (forall n ad bd, lookup n al = Some ad -> lookup n bl = Some bd ->
     sd_external ad = false -> sd_external bd = false -> sd_addr ad = sd_addr bd) ->
  exists L R Q, merge_labels bl al rel relocs = MOk L R Q.
Proof.
  induction bl as [|(name, bd) r IH]; intros Hnd al rel relocs Hc; [cbn; eauto|].
  inversion Hnd as [|? ? Hname Hr']; subst.
  assert (Lr : lookup name r = None) by (apply lookup_none; exact Hname).
  cbn [merge_labels].
  assert (Step : forall al', (forall n, str_eqb n name = false -> lookup n al' = lookup n al) ->
            forall n ad0 bd0, lookup n al' = Some ad0 -> lookup n r = Some bd0 ->
              sd_external ad0 = false -> sd_external bd0 = false -> sd_addr ad0 = sd_addr bd0).
  { intros al' Hal' n ad0 bd0 Ha Hb. destruct (str_eqb n name) eqn:E.
    - apply str_eqb_eq in E. subst. congruence.
    - apply (Hc n); [rewrite <- Hal' by exact E; exact Ha|]. rewrite lookup_cons, E. exact Hb. }
  destruct (lookup name al) as [ad|] eqn:Ea.
  - destruct (sd_external ad) eqn:Xa, (sd_external bd) eqn:Xb.
    + apply IH; [exact Hr'|]. apply Step. auto.
    + apply IH; [exact Hr'|]. apply Step. intros n E. rewrite lookup_replace_key, E. reflexivity.
    + apply IH; [exact Hr'|]. apply Step. intros n E. rewrite lookup_replace_key, E. reflexivity.
    + rewrite (Hc name ad bd Ea); [|rewrite lookup_cons, str_eqb_refl; reflexivity|exact Xa|exact Xb].
      rewrite Z.eqb_refl. apply IH; [exact Hr'|]. apply Step. auto.
  - apply IH; [exact Hr'|]. apply Step. intros n E. rewrite lookup_cons, E. reflexivity.
Qed.

(* a failing merge reports two spans *)
Lemma merge_labels_err bl : forall al rel relocs sp, merge_labels bl al rel relocs = MErr sp -> List.length sp = 2%nat.
Proof.
  induction bl as [|(name, bd) r IH]; intros al rel relocs sp H; [discriminate|].
  cbn [merge_labels] in H. destruct (lookup name al) as [ad|]; [|eauto].
  destruct (sd_external ad), (sd_external bd); eauto.
  destruct (sd_addr ad =? sd_addr bd); [eauto|].
  destruct (sym_span ad name), (sym_span bd name); try discriminate. inversion H. reflexivity.
Qed.
