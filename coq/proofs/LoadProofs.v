(* LoadProofs.v — proofs about model/Load.v: what `copy_obj_block`, `load_obj`, `new_sim` and
   `reset` do to the machine, address by address.
   Memory is only ever inspected through [mget]; the two lemmas [mget_mset_same/other] are the
   whole interface to the PositiveMap underneath. *)
From Coq Require Import ZArith List Bool Lia FMapPositive.
From Gen Require Import Constants OsImage.
From Model Require Import Tree Bits Word Instr Sim Load.
From Spec Require Import ObjImage.
From Proofs Require Import Ranges.
Import ListNotations.
Open Scope Z_scope.
Ltac Zify.zify_post_hook ::= Z.div_mod_to_equations.
(* boolean comparisons from [destruct ... eqn:] as propositions, then lia *)
Ltac bool2prop := repeat match goal with
  | H : (_ <? _) = true |- _ => apply Z.ltb_lt in H
  | H : (_ <? _) = false |- _ => apply Z.ltb_ge in H
  | H : (_ <=? _) = true |- _ => apply Z.leb_le in H
  | H : (_ <=? _) = false |- _ => apply Z.leb_gt in H
  end.
Ltac blia := bool2prop; lia.

(* ------------------------------------------------------------------ memory interface *)

Lemma mkey_inj a b : 0 <= a -> 0 <= b -> mkey a = mkey b -> a = b.
Proof. unfold mkey. intros Ha Hb H. apply Z2Pos.inj in H; blia. Qed.

Lemma mget_mset_same m a w : mget (mset m a w) a = w.
Proof. unfold mget, mset. cbn [m_over m_fill]. rewrite PositiveMap.gss. reflexivity. Qed.

Lemma mget_mset_other m a b w : 0 <= a -> 0 <= b -> a <> b -> mget (mset m a w) b = mget m b.
Proof.
  intros Ha Hb Hne. unfold mget, mset. cbn [m_over m_fill].
  rewrite PositiveMap.gso; [reflexivity|].
  intro H. apply Hne. symmetry. apply mkey_inj; assumption.
Qed.

(* ------------------------------------------------------------------ the image of a block *)

(* the effect of that statement on the word stored there *)
Definition apply_cell (old : word) (x : option (option Z)) : word :=
  match x with
  | Some (Some v) => new_init v
  | Some None => clear_init old
  | None => old
  end.

Lemma chunk_at_nil s a : chunk_at s [] a = None.
Proof. unfold chunk_at. cbn [length Z.of_nat]. destruct (_ <? 0) eqn:E; [blia|reflexivity]. Qed.

(* ------------------------------------------------------------------ write_chunk *)

Lemma write_chunk_spec : forall c m start a,
  0 <= start < 65536 -> Z.of_nat (length c) <= 65536 -> 0 <= a < 65536 ->
  mget (write_chunk m start c) a = apply_cell (mget m a) (chunk_at start c a).
Proof.
  induction c as [|x r IH]; intros m start a Hs Hl Ha.
  - rewrite chunk_at_nil. reflexivity.
  - cbn [length] in Hl. rewrite Nat2Z.inj_succ in Hl.
    pose proof (Nat2Z.is_nonneg (length r)) as Hn.
    assert (Hs' : 0 <= (start + 1) mod 65536 < 65536) by blia.
    assert (Hl' : Z.of_nat (length r) <= 65536) by blia.
    unfold chunk_at. cbn [length]. rewrite Nat2Z.inj_succ.
    destruct (Z.eq_dec a start) as [->|Hne].
    + (* the first word of the chunk; the rest does not come back to it *)
      replace ((start - start) mod 65536) with 0 by (rewrite Z.sub_diag; reflexivity).
      destruct (0 <? Z.succ (Z.of_nat (length r))) eqn:E; [|blia].
      cbn [Z.to_nat nth].
      assert (Hrest : chunk_at ((start + 1) mod 65536) r start = None).
      { unfold chunk_at. destruct ((start - (start + 1) mod 65536) mod 65536 <? Z.of_nat (length r)) eqn:E2; [|reflexivity]. blia. }
      destruct x as [v|]; cbn [write_chunk]; unfold wrap16; rewrite IH by assumption; rewrite Hrest;
        cbn [apply_cell]; rewrite mget_mset_same; reflexivity.
    + (* another address: the first write does not touch it, position shifts by one *)
      set (k := (a - start) mod 65536).
      assert (Hk : 1 <= k < 65536) by (unfold k; blia).
      assert (Hk' : (a - (start + 1) mod 65536) mod 65536 = k - 1) by (unfold k; blia).
      assert (Hrest : chunk_at ((start + 1) mod 65536) r a = if k <? Z.succ (Z.of_nat (length r)) then Some (nth (Z.to_nat k) (x :: r) None) else None).
      { unfold chunk_at. rewrite Hk'.
        destruct (k - 1 <? Z.of_nat (length r)) eqn:E1; destruct (k <? Z.succ (Z.of_nat (length r))) eqn:E2; try blia; [|reflexivity].
        replace (Z.to_nat k) with (S (Z.to_nat (k - 1))) by blia. reflexivity. }
      rewrite <- Hrest.
      destruct x as [v|]; cbn [write_chunk]; unfold wrap16; rewrite IH by assumption;
        rewrite mget_mset_other by blia; reflexivity.
Qed.

(* starts are always in range in the callers *)
Lemma write_chunk_app : forall c1 c2 m s, 0 <= s < 65536 ->
  write_chunk m s (c1 ++ c2) = write_chunk (write_chunk m s c1) (wrap16 (s + Z.of_nat (length c1))) c2.
Proof.
  induction c1 as [|x r IH]; intros c2 m s Hs.
  - cbn [app length write_chunk Z.of_nat]. rewrite Z.add_0_r. unfold wrap16.
    rewrite Z.mod_small by blia. reflexivity.
  - assert (Hs' : 0 <= (s + 1) mod 65536 < 65536) by blia.
    assert (E : ((s + 1) mod 65536 + Z.of_nat (length r)) mod 65536 = (s + Z.of_nat (length (x :: r))) mod 65536).
    { cbn [length]. rewrite Nat2Z.inj_succ. rewrite Zplus_mod_idemp_l. f_equal. blia. }
    destruct x as [v|]; cbn [app write_chunk]; unfold wrap16 in *; rewrite IH by assumption; rewrite E; reflexivity.
Qed.

(* ------------------------------------------------------------------ chunking *)

Lemma chunk_concat : forall l, concat (chunk_by_some l) = l.
Proof.
  induction l as [|x r IH]; [reflexivity|].
  cbn [chunk_by_some]. destruct (chunk_by_some r) as [|[|y c] cs] eqn:E.
  - cbn [concat app] in *. rewrite <- IH. reflexivity.
  - cbn [concat app] in *. rewrite <- IH. reflexivity.
  - destruct (Bool.eqb _ _); cbn [concat app] in *; rewrite <- IH; reflexivity.
Qed.

Lemma length_in_concat {A} : forall (cs : list (list A)) c, In c cs -> (length c <= length (concat cs))%nat.
Proof.
  induction cs as [|d cs IH]; intros c Hin; [destruct Hin|].
  cbn [concat]. rewrite app_length. destruct Hin as [->|Hin]; [blia|].
  specialize (IH c Hin). blia.
Qed.

Lemma copy_chunks_eq : forall cs m s, 0 <= s < 65536 ->
  Forall (fun c => Z.of_nat (length c) < 65536) cs ->
  copy_chunks m s cs = Some (write_chunk m s (concat cs)).
Proof.
  induction cs as [|c cs IH]; intros m s Hs Hall; [reflexivity|].
  inversion Hall as [|? ? Hc Hcs]; subst.
  cbn [copy_chunks concat]. destruct (65536 <=? Z.of_nat (length c)) eqn:E; [blia|].
  rewrite IH; [|unfold wrap16; blia|assumption].
  rewrite write_chunk_app by assumption. reflexivity.
Qed.

(* a block of fewer than 2^16 words is copied without a panic, and the copy is the word-by-word write *)
Lemma copy_obj_block_eq m s data : 0 <= s < 65536 -> Z.of_nat (length data) < 65536 ->
  copy_obj_block m s data = Some (write_chunk m s data).
Proof.
  intros Hs Hl. unfold copy_obj_block. rewrite copy_chunks_eq; [rewrite chunk_concat; reflexivity|assumption|].
  apply Forall_forall. intros c Hin. apply length_in_concat in Hin. rewrite chunk_concat in Hin. blia.
Qed.

Lemma copy_obj_block_spec m s data a : 0 <= s < 65536 -> Z.of_nat (length data) < 65536 -> 0 <= a < 65536 ->
  exists m', copy_obj_block m s data = Some m' /\
             mget m' a = apply_cell (mget m a) (chunk_at s data a).
Proof.
  intros Hs Hl Ha. exists (write_chunk m s data). split; [apply copy_obj_block_eq; assumption|].
  apply write_chunk_spec; blia.
Qed.

(* no start needed for the absence of a panic *)
Lemma copy_chunks_some : forall cs m s, Forall (fun c => Z.of_nat (length c) < 65536) cs ->
  copy_chunks m s cs <> None.
Proof.
  induction cs as [|c cs IH]; intros m s Hall; [discriminate|].
  inversion Hall as [|? ? Hc Hcs]; subst. cbn [copy_chunks].
  destruct (65536 <=? Z.of_nat (length c)) eqn:E; [blia|]. apply IH. assumption.
Qed.
Lemma copy_obj_block_some m s data : Z.of_nat (length data) < 65536 -> copy_obj_block m s data <> None.
Proof.
  intro Hl. unfold copy_obj_block. apply copy_chunks_some.
  apply Forall_forall. intros c Hin. apply length_in_concat in Hin. rewrite chunk_concat in Hin. blia.
Qed.

(* ------------------------------------------------------------------ objects *)

(* blocks applied one after the other (what the loader does) *)
Definition apply_blocks (bs : list block) (a : Z) (w : word) : word :=
  fold_left (fun w b => apply_cell w (chunk_at (fst b) (snd b) a)) bs w.

Lemma cover_count_nonneg bs a : 0 <= cover_count bs a.
Proof. induction bs as [|b r IH]; cbn [cover_count]; [blia|]. destruct (covers b a); blia. Qed.

Lemma chunk_at_covers b a : chunk_at (fst b) (snd b) a = None <-> covers b a = false.
Proof. unfold chunk_at, covers. destruct (_ <? _); split; intro H; try reflexivity; discriminate. Qed.

Lemma apply_blocks_uncovered : forall bs a w, cover_count bs a = 0 -> apply_blocks bs a w = w /\ image bs a = None.
Proof.
  induction bs as [|b r IH]; intros a w H; [split; reflexivity|].
  cbn [cover_count] in H. pose proof (cover_count_nonneg r a) as Hn.
  destruct (covers b a) eqn:E; [blia|].
  apply chunk_at_covers in E. unfold apply_blocks. cbn [fold_left image]. rewrite E. cbn [apply_cell].
  apply IH. blia.
Qed.

Lemma apply_blocks_image : forall bs a w, cover_count bs a <= 1 ->
  apply_blocks bs a w = apply_cell w (image bs a).
Proof.
  induction bs as [|b r IH]; intros a w H; [reflexivity|].
  cbn [cover_count] in H. pose proof (cover_count_nonneg r a) as Hn.
  unfold apply_blocks. cbn [fold_left image].
  destruct (covers b a) eqn:E.
  - assert (H0 : cover_count r a = 0) by blia.
    destruct (chunk_at (fst b) (snd b) a) as [x|] eqn:Ec.
    + destruct (apply_blocks_uncovered r a (apply_cell w (Some x)) H0) as [Hr _]. exact Hr.
    + apply chunk_at_covers in Ec. congruence.
  - apply chunk_at_covers in E. rewrite E. cbn [apply_cell]. apply IH. blia.
Qed.

(* ------------------------------------------------------------------ load_blocks / load_obj *)

Definition write_blocks (m : mem) (bs : list block) : mem :=
  fold_left (fun m b => write_chunk m (fst b) (snd b)) bs m.
Definition alloca_blocks (bs : list block) : list (Z * Z) :=
  flat_map (fun b => alloca_of (fst b) (Z.of_nat (length (snd b)))) bs.

Lemma load_blocks_eq : forall bs m al, blocks_ok bs ->
  load_blocks m bs al = Some (write_blocks m bs, al ++ alloca_blocks bs).
Proof.
  induction bs as [|[s ws] r IH]; intros m al Hok.
  - cbn [load_blocks write_blocks alloca_blocks fold_left flat_map]. rewrite app_nil_r. reflexivity.
  - inversion Hok as [|? ? [Hs Hl] Hr]; subst. cbn [fst snd] in *.
    cbn [load_blocks]. rewrite copy_obj_block_eq by assumption.
    rewrite IH by assumption. unfold write_blocks, alloca_blocks. cbn [fold_left flat_map fst snd].
    rewrite app_assoc. reflexivity.
Qed.

Lemma write_blocks_spec : forall bs m a, blocks_ok bs -> 0 <= a < 65536 ->
  mget (write_blocks m bs) a = apply_blocks bs a (mget m a).
Proof.
  induction bs as [|[s ws] r IH]; intros m a Hok Ha; [reflexivity|].
  inversion Hok as [|? ? [Hs Hl] Hr]; subst. cbn [fst snd] in *.
  unfold write_blocks, apply_blocks. cbn [fold_left fst snd].
  fold (write_blocks (write_chunk m s ws) r). rewrite IH by assumption.
  rewrite write_chunk_spec by blia. reflexivity.
Qed.

Lemma load_blocks_some : forall bs m al, Forall (fun b : block => Z.of_nat (length (snd b)) < 65536) bs ->
  load_blocks m bs al <> None.
Proof.
  induction bs as [|[s ws] r IH]; intros m al Hall; [discriminate|].
  inversion Hall as [|? ? Hl Hr]; subst. cbn [snd] in Hl. cbn [load_blocks].
  destruct (copy_obj_block m s ws) as [m'|] eqn:E; [apply IH; assumption|].
  exfalso. revert E. apply copy_obj_block_some. assumption.
Qed.

(* the loaded machine, in closed form *)
Definition loaded (s : sim) (bs : list block) : sim :=
  upd_alloca (upd_mem s (write_blocks (s_mem s) bs)) (sort_alloca (alloca_blocks bs)).

Lemma load_obj_eq s bs : blocks_ok bs -> load_obj s bs false = LoadOk (loaded s bs).
Proof. intro Hok. unfold load_obj. rewrite load_blocks_eq by assumption. reflexivity. Qed.

(* C29: loading an object without externals whose blocks are pairwise disjoint *)
Lemma load_obj_spec s bs : blocks_ok bs -> disjoint_blocks bs ->
  exists s', load_obj s bs false = LoadOk s' /\
    (forall a, 0 <= a < 65536 ->
       mget (s_mem s') a = match image bs a with
                           | Some (Some v) => new_init v
                           | Some None => clear_init (mget (s_mem s) a)
                           | None => mget (s_mem s) a
                           end) /\
    s_regs s' = s_regs s /\ s_pc s' = s_pc s /\ s_psr s' = s_psr s /\ s_saved_sp s' = s_saved_sp s /\
    s_frame_no s' = s_frame_no s /\ s_frames s' = s_frames s /\ s_sr_defns s' = s_sr_defns s /\
    s_instrs s' = s_instrs s /\ s_prefetch s' = s_prefetch s /\ s_obs s' = s_obs s /\
    s_mcr s' = s_mcr s /\ s_flags s' = s_flags s /\ s_ireg s' = s_ireg s /\ s_devs s' = s_devs s.
Proof.
  intros Hok Hdis. exists (loaded s bs). split; [apply load_obj_eq; assumption|].
  split; [|unfold loaded, upd_alloca, upd_mem; cbn; repeat split; reflexivity].
  intros a Ha. unfold loaded, upd_alloca, upd_mem. cbn [s_mem].
  rewrite write_blocks_spec by assumption. rewrite apply_blocks_image by (apply Hdis; assumption).
  reflexivity.
Qed.

(* without the disjointness assumption: later blocks are applied over earlier ones *)
Lemma load_obj_spec_seq s bs : blocks_ok bs ->
  exists s', load_obj s bs false = LoadOk s' /\
    forall a, 0 <= a < 65536 -> mget (s_mem s') a = apply_blocks bs a (mget (s_mem s) a).
Proof.
  intro Hok. exists (loaded s bs). split; [apply load_obj_eq; assumption|].
  intros a Ha. unfold loaded, upd_alloca, upd_mem. cbn [s_mem]. apply write_blocks_spec; assumption.
Qed.

Lemma load_obj_unresolved s bs : load_obj s bs true = LoadUnresolved.
Proof. reflexivity. Qed.

Lemma load_obj_no_panic s bs he : Forall (fun b : block => Z.of_nat (length (snd b)) < 65536) bs ->
  load_obj s bs he <> LoadPanic.
Proof.
  intro Hall. unfold load_obj. destruct he; [discriminate|].
  destruct (load_blocks (s_mem s) bs []) as [[m al]|] eqn:E; [discriminate|].
  exfalso. revert E. apply load_blocks_some. assumption.
Qed.

(* ------------------------------------------------------------------ the new machine *)

Lemma fill_io_find : forall n m s a, 0 <= s -> 0 <= a ->
  PositiveMap.find (mkey a) (fill_io m s n) =
  if (s <=? a) && (a <? s + Z.of_nat n) then Some (new_init 0) else PositiveMap.find (mkey a) m.
Proof.
  induction n as [|n IH]; intros m s a Hs Ha.
  - cbn [fill_io Z.of_nat]. destruct (s <=? a) eqn:E1; destruct (a <? s + 0) eqn:E2; try reflexivity; blia.
  - cbn [fill_io]. rewrite IH by blia. rewrite Nat2Z.inj_succ.
    destruct (Z.eq_dec a s) as [->|Hne].
    + destruct (s + 1 <=? s) eqn:E1; [blia|]. cbn [andb]. rewrite PositiveMap.gss.
      destruct (s <=? s) eqn:E2; [|blia]. destruct (s <? s + Z.succ (Z.of_nat n)) eqn:E3; [|blia]. reflexivity.
    + rewrite PositiveMap.gso by (intro H; apply Hne; apply mkey_inj; assumption).
      destruct (s + 1 <=? a) eqn:E1; destruct (s <=? a) eqn:E2; try blia;
      destruct (a <? s + 1 + Z.of_nat n) eqn:E3; destruct (a <? s + Z.succ (Z.of_nat n)) eqn:E4; try blia; reflexivity.
Qed.

(* memory before the OS is loaded: initialised zeros in the I/O page, the fill value elsewhere *)
Definition blank_mem (fill : Z) : mem :=
  mkMem (fill_io (PositiveMap.empty word) IO_START (Z.to_nat (65536 - IO_START))) (new_uninit fill).
Definition blank_word (fill a : Z) : word := if IO_START <=? a then new_init 0 else new_uninit fill.

Lemma blank_mem_spec fill a : 0 <= a < 65536 -> mget (blank_mem fill) a = blank_word fill a.
Proof.
  intro Ha. unfold mget, blank_mem, blank_word. cbn [m_over m_fill].
  rewrite fill_io_find by (unfold IO_START, sim.IO_START; blia).
  rewrite Z2Nat.id by (unfold IO_START, sim.IO_START; blia).
  rewrite PositiveMap.gempty.
  unfold IO_START, sim.IO_START.
  destruct (65024 <=? a) eqn:E1; destruct (a <? 65024 + (65536 - 65024)) eqn:E2; try reflexivity; blia.
Qed.

(* the fields of a new simulator that do not depend on the object loaded into it *)
Definition blank_sim (fl : flags) (fill : Z) (mcr : bool) (ir : list (Z * ireg)) (devs : list dev) : sim :=
  mkSim (blank_mem fill) (repeat (new_uninit fill) 8) 12288 32770 (new_init 12288) 0
        (if fl_debug_frames fl then Some [] else None) [] [] 0 false [] mcr fl ir devs.

Lemma new_sim_devs_eq_gen (os : list block) fl fill mcr ir devs : blocks_ok os ->
  match load_obj (blank_sim fl fill mcr ir devs) os false with LoadOk s => s | _ => blank_sim fl fill mcr ir devs end
  = loaded (blank_sim fl fill mcr ir devs) os.
Proof. intro Hok. rewrite load_obj_eq by assumption. reflexivity. Qed.

(* ---- facts about today's OS image, computed *)
Definition block_okb (b : block) : bool :=
  (0 <=? fst b) && (fst b <? 65536) && (Z.of_nat (length (snd b)) <? 65536).
Lemma block_okb_ok bs : forallb block_okb bs = true -> blocks_ok bs.
Proof.
  intro H. apply Forall_forall. intros b Hin. rewrite forallb_forall in H. specialize (H b Hin).
  unfold block_okb in H. unfold block_ok. blia.
Qed.

Lemma os_blocks_ok : blocks_ok os_blocks.
Proof. apply block_okb_ok. vm_compute. reflexivity. Qed.

Lemma os_blocks_disjoint : disjoint_blocks os_blocks.
Proof.
  intros a Ha.
  assert (H : (cover_count os_blocks a <=? 1) = true).
  { apply (forall_range' (fun a => cover_count os_blocks a <=? 1) 0 65536); [vm_compute; reflexivity|assumption]. }
  blia.
Qed.

(* the OS does not reach into the I/O page *)
Lemma os_blocks_below_io a : 65024 <= a < 65536 -> image os_blocks a = None.
Proof.
  intro Ha.
  assert (H : (match image os_blocks a with None => true | Some _ => false end) = true).
  { apply (forall_range' (fun a => match image os_blocks a with None => true | Some _ => false end) 65024 65536);
      [vm_compute; reflexivity|assumption]. }
  destruct (image os_blocks a); [discriminate|reflexivity].
Qed.

Lemma new_sim_devs_eq fl fill mcr ir devs :
  new_sim_devs fl fill mcr ir devs = loaded (blank_sim fl fill mcr ir devs) os_blocks.
Proof. unfold new_sim_devs. apply (new_sim_devs_eq_gen os_blocks). apply os_blocks_ok. Qed.

Lemma new_sim_eq fl fill :
  new_sim fl fill = loaded (blank_sim fl fill false default_ireg [DNull; DNull; DNull]) os_blocks.
Proof. unfold new_sim. apply new_sim_devs_eq. Qed.

(* fields of a machine loaded over a blank one, for any object (kept abstract so that nothing
   ever computes with the OS image) *)
Lemma loaded_blank_fields (os : list block) fl fill mcr ir devs :
  let n := loaded (blank_sim fl fill mcr ir devs) os in
  s_mem n = write_blocks (blank_mem fill) os /\
  s_pc n = 12288 /\ s_psr n = 32770 /\ s_regs n = repeat (new_uninit fill) 8 /\
  s_saved_sp n = new_init 12288 /\ s_frame_no n = 0 /\
  s_instrs n = 0 /\ s_prefetch n = false /\ s_obs n = [] /\
  s_mcr n = mcr /\ s_flags n = fl /\ s_ireg n = ir /\ s_devs n = devs.
Proof. cbv zeta. unfold loaded, upd_alloca, upd_mem, blank_sim. cbn. repeat split; reflexivity. Qed.

Lemma loaded_blank_arch (os : list block) fl fill mcr ir devs mcr' ir' devs' :
  let r := loaded (blank_sim fl fill mcr ir devs) os in
  let n := loaded (blank_sim fl fill mcr' ir' devs') os in
  s_mem r = s_mem n /\ s_regs r = s_regs n /\ s_pc r = s_pc n /\ s_psr r = s_psr n /\
  s_saved_sp r = s_saved_sp n /\ s_frame_no r = s_frame_no n /\ s_frames r = s_frames n /\
  s_sr_defns r = s_sr_defns n /\ s_alloca r = s_alloca n /\ s_instrs r = s_instrs n /\
  s_prefetch r = s_prefetch n /\ s_obs r = s_obs n.
Proof. cbv zeta. unfold loaded, upd_alloca, upd_mem, blank_sim. cbn. repeat split; reflexivity. Qed.

(* C29, construction: the OS image over the blank memory *)
Lemma new_sim_mem fl fill a : 0 <= a < 65536 ->
  mget (s_mem (new_sim fl fill)) a =
  match image os_blocks a with
  | Some (Some v) => new_init v
  | Some None => new_uninit fill
  | None => if 65024 <=? a then new_init 0 else new_uninit fill
  end.
Proof.
  intro Ha. rewrite new_sim_eq.
  destruct (loaded_blank_fields os_blocks fl fill false default_ireg [DNull; DNull; DNull]) as [Hm _]. rewrite Hm.
  rewrite write_blocks_spec by (try apply os_blocks_ok; assumption).
  rewrite apply_blocks_image by (apply os_blocks_disjoint; assumption).
  rewrite blank_mem_spec by assumption. unfold blank_word, IO_START, sim.IO_START.
  destruct (image os_blocks a) as [[v|]|] eqn:E; cbn [apply_cell]; try reflexivity.
  (* a reserved word of the OS: below the I/O page, so the blank word is the uninitialised fill *)
  destruct (65024 <=? a) eqn:E2; [|reflexivity].
  rewrite os_blocks_below_io in E by blia. discriminate.
Qed.

Lemma new_sim_os_words fl fill a v : 0 <= a < 65536 -> image os_blocks a = Some (Some v) ->
  mget (s_mem (new_sim fl fill)) a = new_init v.
Proof. intros Ha H. rewrite new_sim_mem by assumption. rewrite H. reflexivity. Qed.

Lemma new_sim_io_page fl fill a : 65024 <= a < 65536 -> mget (s_mem (new_sim fl fill)) a = new_init 0.
Proof.
  intro Ha. rewrite new_sim_mem by blia. rewrite os_blocks_below_io by assumption.
  destruct (65024 <=? a) eqn:E; [reflexivity|blia].
Qed.

Lemma new_sim_elsewhere fl fill a : 0 <= a < 65024 -> image os_blocks a = None ->
  mget (s_mem (new_sim fl fill)) a = new_uninit fill.
Proof.
  intros Ha H. rewrite new_sim_mem by blia. rewrite H. destruct (65024 <=? a) eqn:E; [blia|reflexivity].
Qed.

Lemma new_sim_fields fl fill :
  s_pc (new_sim fl fill) = 12288 /\ s_psr (new_sim fl fill) = 32770 /\
  s_regs (new_sim fl fill) = repeat (new_uninit fill) 8 /\
  s_saved_sp (new_sim fl fill) = new_init 12288 /\ s_frame_no (new_sim fl fill) = 0 /\
  s_instrs (new_sim fl fill) = 0 /\ s_prefetch (new_sim fl fill) = false /\ s_obs (new_sim fl fill) = [] /\
  s_mcr (new_sim fl fill) = false /\ s_flags (new_sim fl fill) = fl.
Proof.
  rewrite new_sim_eq.
  destruct (loaded_blank_fields os_blocks fl fill false default_ireg [DNull; DNull; DNull])
    as (_ & H1 & H2 & H3 & H4 & H5 & H6 & H7 & H8 & H9 & H10 & _).
  repeat split; assumption.
Qed.

Lemma new_sim_regs fl fill r : 0 <= r < 8 -> rget (s_regs (new_sim fl fill)) r = new_uninit fill.
Proof.
  intro Hr. destruct (new_sim_fields fl fill) as (_ & _ & H & _). rewrite H. unfold rget.
  assert (Hc : r = 0 \/ r = 1 \/ r = 2 \/ r = 3 \/ r = 4 \/ r = 5 \/ r = 6 \/ r = 7) by blia.
  repeat (destruct Hc as [->|Hc]; [reflexivity|]). subst. reflexivity.
Qed.

(* ------------------------------------------------------------------ reset *)

(* reset builds the very same machine as new_sim does, around what it keeps *)
Lemma reset_eq e s fill :
  reset e s fill = loaded (blank_sim (s_flags s) fill (s_mcr s) (s_ireg s) (reset_devs e (s_devs s) (e_draws e))) os_blocks.
Proof. unfold reset. apply new_sim_devs_eq. Qed.

Lemma reset_arch e s fill :
  let r := reset e s fill in let n := new_sim (s_flags s) fill in
  s_mem r = s_mem n /\ s_regs r = s_regs n /\ s_pc r = s_pc n /\ s_psr r = s_psr n /\
  s_saved_sp r = s_saved_sp n /\ s_frame_no r = s_frame_no n /\ s_frames r = s_frames n /\
  s_sr_defns r = s_sr_defns n /\ s_alloca r = s_alloca n /\ s_instrs r = s_instrs n /\
  s_prefetch r = s_prefetch n /\ s_obs r = s_obs n.
Proof.
  cbv zeta. rewrite reset_eq, new_sim_eq. apply loaded_blank_arch.
Qed.

(* what io_reset does to one device *)
Definition dev_reset_rel (e : env) (d d' : dev) : Prop :=
  match d with
  | DNull => d' = DNull
  | DKb q _ => d' = DKb (if e_kb_locked e then q else []) false
  | DDs b => d' = DDs (if e_ds_locked e then b else [])
  | DTimer t => exists x, d' = DTimer (mkTimer (t_enabled t) (t_lo t) (t_hi t) x (t_vect t) (t_prio t))
  | DScript l => d' = DScript l
  end.

Lemma reset_devs_rel e : forall ds draws, Forall2 (dev_reset_rel e) ds (reset_devs e ds draws).
Proof.
  induction ds as [|d r IH]; intro draws; [constructor|].
  destruct d as [|q ie|b|t|l]; cbn [reset_devs].
  - constructor; [reflexivity|apply IH].
  - constructor; [reflexivity|apply IH].
  - constructor; [reflexivity|apply IH].
  - destruct draws as [|x dr]; constructor; try apply IH.
    + exists (t_time t). destruct t; reflexivity.
    + exists x. reflexivity.
  - constructor; [reflexivity|apply IH].
Qed.

Lemma reset_keeps e s fill :
  let r := reset e s fill in
  s_flags r = s_flags s /\ s_mcr r = s_mcr s /\ s_ireg r = s_ireg s /\
  s_devs r = reset_devs e (s_devs s) (e_draws e) /\
  Forall2 (dev_reset_rel e) (s_devs s) (s_devs r).
Proof.
  cbv zeta. rewrite reset_eq.
  destruct (loaded_blank_fields os_blocks (s_flags s) fill (s_mcr s) (s_ireg s) (reset_devs e (s_devs s) (e_draws e)))
    as (_ & _ & _ & _ & _ & _ & _ & _ & _ & H9 & H10 & H11 & H12).
  rewrite H9, H10, H11, H12. repeat split; try reflexivity. apply reset_devs_rel.
Qed.

(* ------------------------------------------------------------------ exactly when the loader panics *)

(* a run of 65536 or more INITIALISED words (reserved runs of that size are cleared modulo 2^16) *)
Definition big_init_chunk (c : list (option Z)) : Prop :=
  65536 <= Z.of_nat (length c) /\ exists v r, c = Some v :: r.

Lemma copy_chunks_none_iff : forall cs m s, copy_chunks m s cs = None <-> Exists big_init_chunk cs.
Proof.
  induction cs as [|c cs IH]; intros m s.
  - cbn [copy_chunks]. split; [discriminate|]. intro H. inversion H.
  - cbn [copy_chunks]. rewrite Exists_cons.
    destruct (65536 <=? Z.of_nat (length c)) eqn:E.
    + destruct c as [|[v|] c'].
      * rewrite IH. split; [intro H; right; exact H|]. intros [[_ (v & r & Hc)]|H]; [discriminate|exact H].
      * split; [|reflexivity]. intros _. left. split; [blia|]. exists v, c'. reflexivity.
      * rewrite IH. split; [intro H; right; exact H|]. intros [[_ (v & r & Hc)]|H]; [discriminate|exact H].
    + rewrite IH. split; [intro H; right; exact H|]. intros [[Hl _]|H]; [blia|exact H].
Qed.

Lemma load_blocks_none_iff : forall bs m al,
  load_blocks m bs al = None <-> Exists (fun b : block => Exists big_init_chunk (chunk_by_some (snd b))) bs.
Proof.
  induction bs as [|[s ws] r IH]; intros m al.
  - cbn [load_blocks]. split; [discriminate|]. intro H. inversion H.
  - cbn [load_blocks]. rewrite Exists_cons. cbn [snd].
    destruct (copy_obj_block m s ws) as [m'|] eqn:E.
    + rewrite IH. split; [intro H; right; exact H|]. intros [H|H]; [|exact H].
      apply (copy_chunks_none_iff (chunk_by_some ws) m s) in H. unfold copy_obj_block in E. congruence.
    + split; [|reflexivity]. intros _. left. apply (copy_chunks_none_iff (chunk_by_some ws) m s). exact E.
Qed.

Lemma load_obj_panic_iff s bs he :
  load_obj s bs he = LoadPanic <->
  he = false /\ Exists (fun b : block => Exists big_init_chunk (chunk_by_some (snd b))) bs.
Proof.
  unfold load_obj. destruct he.
  - split; [discriminate|]. intros [H _]. discriminate.
  - destruct (load_blocks (s_mem s) bs []) as [[m al]|] eqn:E.
    + split; [discriminate|]. intros [_ H]. apply (load_blocks_none_iff bs (s_mem s) []) in H. congruence.
    + split; [|reflexivity]. intros _. split; [reflexivity|]. apply (load_blocks_none_iff bs (s_mem s) []). exact E.
Qed.

(* ------------------------------------------------------------------ packaged statements *)

Lemma disjoint_by_sweep bs :
  forallb (fun a => cover_count bs a <=? 1) (zrange 0 (Z.to_nat (65536 - 0))) = true -> disjoint_blocks bs.
Proof.
  intros H a Ha. apply Z.leb_le.
  exact (forall_range' (fun a => cover_count bs a <=? 1) 0 65536 H a Ha).
Qed.

Lemma new_sim_spec fl fill :
  (forall a, 0 <= a < 65536 ->
     mget (s_mem (new_sim fl fill)) a =
     match image os_blocks a with
     | Some (Some v) => new_init v
     | Some None => new_uninit fill
     | None => if 65024 <=? a then new_init 0 else new_uninit fill
     end) /\
  (forall a, 65024 <= a < 65536 -> mget (s_mem (new_sim fl fill)) a = new_init 0) /\
  s_pc (new_sim fl fill) = 12288 /\ s_psr (new_sim fl fill) = 32770.
Proof.
  split; [exact (new_sim_mem fl fill)|]. split; [exact (new_sim_io_page fl fill)|].
  destruct (new_sim_fields fl fill) as (H1 & H2 & _). split; assumption.
Qed.

Lemma reset_mem_pointwise e s fill a :
  mget (s_mem (reset e s fill)) a = mget (s_mem (new_sim (s_flags s) fill)) a.
Proof. destruct (reset_arch e s fill) as [H _]. cbv zeta in H. rewrite H. reflexivity. Qed.

Lemma known_init fl fill :
  (forall r, 0 <= r < 8 -> rget (s_regs (new_sim fl fill)) r = new_uninit fill) /\
  (forall a, 0 <= a < 65024 -> image os_blocks a = None ->
     mget (s_mem (new_sim fl fill)) a = new_uninit fill).
Proof. split; [exact (new_sim_regs fl fill)|exact (new_sim_elsewhere fl fill)]. Qed.

(* ------------------------------------------------------------------ histories (C31) *)
From Model Require Import SimWire.

(* the accumulator of run_steps only ever grows at the front *)
Lemma run_steps_acc : forall es s acc,
  run_steps s es acc = (fst (run_steps s es []), rev acc ++ snd (run_steps s es [])).
Proof.
  induction es as [|e r IH]; intros s acc.
  - cbn [run_steps fst snd]. rewrite app_nil_r. reflexivity.
  - cbn [run_steps]. destruct (step_in e s) as [s' o].
    destruct o; cbn [fst snd rev app];
      try (rewrite (IH s' (_ :: acc)); rewrite (IH s' [_]); cbn [fst snd rev app]; rewrite <- app_assoc; reflexivity);
      reflexivity.
Qed.

(* causality: what is observed during the first steps does not depend on later inputs *)
Lemma run_steps_prefix : forall es1 es2 s,
  exists tl, snd (run_steps s (es1 ++ es2) []) = snd (run_steps s es1 []) ++ tl.
Proof.
  induction es1 as [|e r IH]; intros es2 s.
  - exists (snd (run_steps s es2 [])). reflexivity.
  - cbn [app run_steps]. destruct (step_in e s) as [s' o].
    destruct (IH es2 s') as [tl Htl].
    destruct o; cbn [fst snd rev app];
      try (exists tl; rewrite (run_steps_acc (r ++ es2) s' [_]), (run_steps_acc r s' [_]);
           cbn [fst snd rev app]; rewrite Htl; reflexivity);
      exists []; reflexivity.
Qed.
